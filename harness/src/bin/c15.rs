//! C15: specialized (bridge) methods — `/repo/src/specialized_methods/mod.rs` of the binary crate, compiled into this
//! bin through a `#[path]` module. Jars are in-memory `ParsedJar`s (classes handed over parsed and, when duke can write
//! them, also as bytes: both representations must give the same answer).
//! Wire format: see lean/FeatherModel/Driver/C15.lean.
//!   jar    := (class…)          class := (name (super)? (iface…) (method…))
//!   method := (name desc flags (code)?)     code := (insn…)     insn := n | d | (v|s|t|i class name desc)
#![allow(dead_code)]
use std::collections::{HashMap, HashSet};
use std::io::Cursor;
use duke::tree::class::{ClassAccess, ClassFile, ClassName, ObjClassName};
use duke::tree::descriptor::Type;
use duke::tree::method::code::{Code, Handle, Instruction, InstructionListEntry, InvokeDynamic, LvIndex};
use duke::tree::method::{Method, MethodAccess, MethodDescriptor, MethodName, MethodRef, MethodRefObj};
use duke::tree::version::Version;
use dukebox::storage::{BasicFileAttributes, ClassRepr, Jar, JarEntryEnum, ParsedJar, ParsedJarEntry};
use fvh::mapcodec::{self, from_sexp, to_sexp};
use fvh::mapgen::{GClass, GMappings, GMember, GParam};
use fvh::rng::Rng;
use fvh::run::{main_for, Ans, Out, Tier};
use fvh::sexp::{Sexp, R};
use indexmap::IndexMap;
use java_string::JavaString;
use quill::remapper::{BRemapper, JarSuperProv};
use quill::tree::mappings::Mappings;
use quill::tree::names::Namespace;

#[path = "/repo/src/specialized_methods/mod.rs"]
mod specialized_methods;
use specialized_methods::{add_specialized_methods_to_mappings, GetSpecializedMethods};

// what `/repo/src/specialized_methods/mod.rs` imports from its crate root (namespace markers of the binary crate)
pub struct Official;
pub struct Intermediary;
pub struct Named;

const JLO: &str = "java/lang/Object";

// ------------------------------------------------------------------ descriptions (mirror of the Lean structures)

#[derive(Clone, PartialEq, Eq, Debug)]
enum InsD { Other, Dyn, Inv(char, String, String, String) }
#[derive(Clone, PartialEq, Eq, Debug)]
struct MetD { name: String, desc: String, flags: usize, code: Option<Vec<InsD>> }
#[derive(Clone, PartialEq, Eq, Debug)]
struct ClsD { name: String, sup: Option<String>, itfs: Vec<String>, methods: Vec<MetD> }
type JarD = Vec<ClsD>;
type Ref3 = (String, String, String);

fn list_to<T>(xs: &[T], f: impl Fn(&T) -> Sexp) -> Sexp { Sexp::list(xs.iter().map(f).collect()) }
fn list_from<T>(s: &Sexp, f: impl Fn(&Sexp) -> R<T>) -> R<Vec<T>> { s.as_list()?.iter().map(f).collect() }

fn ins_to(i: &InsD) -> Sexp {
	match i {
		InsD::Other => Sexp::tag("n"),
		InsD::Dyn => Sexp::tag("d"),
		InsD::Inv(k, c, n, d) => Sexp::list(vec![Sexp::tag(&k.to_string()), Sexp::str(c), Sexp::str(n), Sexp::str(d)]),
	}
}
fn ins_from(s: &Sexp) -> R<InsD> {
	if let Sexp::Atom(a) = s {
		return match a.as_str() { "n" => Ok(InsD::Other), "d" => Ok(InsD::Dyn), o => Err(format!("bad insn {o}")) };
	}
	let [k, c, n, d] = s.as_list()? else { return Err("bad insn".into()) };
	let k = match k.as_atom()? { "v" => 'v', "s" => 's', "t" => 't', "i" => 'i', o => return Err(format!("bad invoke kind {o}")) };
	Ok(InsD::Inv(k, c.as_string()?, n.as_string()?, d.as_string()?))
}
fn met_to(m: &MetD) -> Sexp {
	Sexp::list(vec![Sexp::str(&m.name), Sexp::str(&m.desc), Sexp::nat(m.flags), Sexp::opt(m.code.as_ref(), |c| list_to(c, ins_to))])
}
fn met_from(s: &Sexp) -> R<MetD> {
	let [n, d, f, c] = s.as_list()? else { return Err("bad method".into()) };
	Ok(MetD { name: n.as_string()?, desc: d.as_string()?, flags: f.as_nat()?,
		code: match c.as_opt()? { None => None, Some(c) => Some(list_from(c, ins_from)?) } })
}
fn cls_to(c: &ClsD) -> Sexp {
	Sexp::list(vec![Sexp::str(&c.name), Sexp::opt(c.sup.as_ref(), |s| Sexp::str(s)), list_to(&c.itfs, |i| Sexp::str(i)), list_to(&c.methods, met_to)])
}
fn cls_from(s: &Sexp) -> R<ClsD> {
	let [n, sup, is, ms] = s.as_list()? else { return Err("bad class".into()) };
	Ok(ClsD { name: n.as_string()?, sup: match sup.as_opt()? { None => None, Some(x) => Some(x.as_string()?) },
		itfs: list_from(is, |x| x.as_string())?, methods: list_from(ms, met_from)? })
}
fn jar_to(j: &[ClsD]) -> Sexp { list_to(j, cls_to) }
fn jar_from(s: &Sexp) -> R<JarD> { list_from(s, cls_from) }

fn ref_to(r: &MethodRefObj) -> Sexp { Sexp::list(vec![Sexp::jstr(r.class.as_inner()), Sexp::jstr(r.name.as_inner()), Sexp::jstr(r.desc.as_inner())]) }
fn ref3_of(r: &MethodRefObj) -> Ref3 { (r.class.as_inner().to_string(), r.name.as_inner().to_string(), r.desc.as_inner().to_string()) }
fn ref3_to(r: &Ref3) -> Sexp { Sexp::list(vec![Sexp::str(&r.0), Sexp::str(&r.1), Sexp::str(&r.2)]) }
fn pairs_to(ps: &[(Ref3, Ref3)]) -> Sexp { Sexp::list(ps.iter().map(|(b, s)| Sexp::list(vec![ref3_to(b), ref3_to(s)])).collect()) }

// ------------------------------------------------------------------ descriptions -> duke trees -> jars

type PJ = ParsedJar<ClassRepr, Vec<u8>>;

fn js(s: &str) -> JavaString { JavaString::from(s.to_owned()) }
fn ocn(s: &str) -> ObjClassName { unsafe { ObjClassName::from_inner_unchecked(js(s)) } }
fn acn(s: &str) -> ClassName { unsafe { ClassName::from_inner_unchecked(js(s)) } }
fn mn(s: &str) -> MethodName { unsafe { MethodName::from_inner_unchecked(js(s)) } }
fn md(s: &str) -> MethodDescriptor { unsafe { MethodDescriptor::from_inner_unchecked(js(s)) } }
fn mref(c: &str, n: &str, d: &str) -> MethodRef { MethodRef { class: acn(c), name: mn(n), desc: md(d) } }

fn insn_build(i: &InsD, pos: usize) -> Instruction {
	match i {
		InsD::Other => match pos % 4 { 0 => Instruction::ALoad(LvIndex { index: 0 }), 1 => Instruction::Nop, 2 => Instruction::AConstNull, _ => Instruction::CheckCast(acn("java/lang/Integer")) },
		InsD::Dyn => Instruction::InvokeDynamic(InvokeDynamic { name: mn("dyn"), descriptor: md("()Ljava/lang/Runnable;"),
			handle: Handle::InvokeStatic(mref("java/lang/invoke/LambdaMetafactory", "metafactory", "()V"), false), arguments: vec![] }),
		InsD::Inv('v', c, n, d) => Instruction::InvokeVirtual(mref(c, n, d)),
		InsD::Inv('s', c, n, d) => Instruction::InvokeSpecial(mref(c, n, d), false),
		InsD::Inv('t', c, n, d) => Instruction::InvokeStatic(mref(c, n, d), false),
		InsD::Inv(_, c, n, d) => Instruction::InvokeInterface(mref(c, n, d)),
	}
}
fn class_build(c: &ClsD) -> ClassFile {
	let mut cf = ClassFile::new(Version::V1_8, ClassAccess::from(0x21u16), ocn(&c.name), c.sup.as_deref().map(ocn), c.itfs.iter().map(|i| ocn(i)).collect());
	for m in &c.methods {
		let mut me = Method::new(MethodAccess::from(m.flags as u16), mn(&m.name), md(&m.desc));
		if let Some(code) = &m.code {
			me.code = Some(Code { max_stack: Some(4), max_locals: Some(4),
				instructions: code.iter().enumerate().map(|(p, i)| InstructionListEntry { label: None, frame: None, instruction: insn_build(i, p) }).collect(),
				..Code::default() });
		}
		cf.methods.push(me);
	}
	cf
}
// ---- the bytes variant must not get lost silently: a request-side predicate says when duke HAS to be able to write and re-read
// the classes (every name and descriptor is plain class-file content); on such a jar a refused round trip is a failure.
fn plain_ident(s: &str) -> bool { !s.is_empty() && s.chars().all(|c| c.is_ascii_alphanumeric() || c == '_' || c == '$') }
fn plain_class(s: &str) -> bool { s.split('/').all(plain_ident) }
fn plain_method_name(s: &str) -> bool { plain_ident(s) || s == "<init>" || s == "<clinit>" }
/// one field type at the front of `b`, the rest behind it
fn plain_type(b: &str) -> Option<&str> {
	let t = b.trim_start_matches('[');
	if b.len() - t.len() > 255 { return None; }
	match t.chars().next()? {
		'B' | 'C' | 'D' | 'F' | 'I' | 'J' | 'S' | 'Z' => Some(&t[1..]),
		'L' => { let e = t.find(';')?; if plain_class(&t[1..e]) { Some(&t[e + 1..]) } else { None } }
		_ => None,
	}
}
fn plain_method_desc(d: &str) -> bool {
	let Some(mut rest) = d.strip_prefix('(') else { return false };
	loop {
		if let Some(r) = rest.strip_prefix(')') { return r == "V" || plain_type(r) == Some(""); }
		match plain_type(rest) { Some(r) => rest = r, None => return false }
	}
}
fn plain_jar(j: &[ClsD]) -> bool {
	j.iter().all(|c| plain_class(&c.name) && c.sup.iter().chain(c.itfs.iter()).all(|x| plain_class(x)) && c.methods.iter().all(|m| {
		plain_method_name(&m.name) && plain_method_desc(&m.desc) && m.code.iter().flatten().all(|i| match i {
			InsD::Inv(_, cl, n, d) => (plain_class(cl) || (cl.starts_with('[') && plain_type(cl) == Some(""))) && plain_method_name(n) && plain_method_desc(d),
			_ => true,
		})
	}))
}

/// `bytes`: hand the classes over as class-file bytes written by duke (`None` when duke cannot write one of them: legitimate
/// only outside `plain_jar`, the callers turn it into a failure inside)
fn jar_build(j: &[ClsD], bytes: bool) -> Option<PJ> {
	let mut entries = IndexMap::new();
	for (i, c) in j.iter().enumerate() {
		let class = class_build(c);
		let repr = if bytes {
			let mut data = Vec::new();
			let ok = std::panic::catch_unwind(std::panic::AssertUnwindSafe(|| duke::write_class(&mut data, &class).is_ok())).unwrap_or(false);
			if !ok { return None; }
			// only when it reads back (names and descriptors of the edge stream are not all valid class-file content)
			if duke::read_class(&mut Cursor::new(&data)).is_err() { return None; }
			ClassRepr::Vec { data }
		} else { ClassRepr::Parsed { class } };
		let mut name = format!("{}.class", c.name);
		if entries.contains_key(&name) { name = format!("{}#{i}.class", c.name); }
		entries.insert(name, ParsedJarEntry { attr: BasicFileAttributes::default(), content: JarEntryEnum::Class(repr) });
	}
	Some(ParsedJar { entries })
}

// ------------------------------------------------------------------ guards (both sides skip what the Rust code does not terminate on)

/// Kahn-style: repeatedly drop the entries none of whose targets is a remaining entry; acyclic iff nothing remains
fn acyclic_edges(mut es: Vec<(String, Vec<String>)>) -> bool {
	loop {
		let keys: HashSet<&String> = es.iter().map(|e| &e.0).collect();
		let next: Vec<(String, Vec<String>)> = es.iter().filter(|e| e.1.iter().any(|p| keys.contains(p))).cloned().collect();
		if next.len() == es.len() { return es.is_empty(); }
		es = next;
	}
}
fn jar_edges(j: &[ClsD]) -> Vec<(String, Vec<String>)> {
	j.iter().map(|c| (c.name.clone(), c.sup.iter().cloned().chain(c.itfs.iter().cloned()).collect())).collect()
}
fn acyclic(jars: &[&JarD]) -> bool { acyclic_edges(jars.iter().flat_map(|j| jar_edges(j)).collect()) }
fn prov_edges(ps: &[JarSuperProv]) -> Vec<(String, Vec<String>)> {
	ps.iter().flat_map(|p| p.super_classes.iter().map(|(k, v)| (k.as_inner().to_string(), v.iter().map(|x| x.as_inner().to_string()).collect()))).collect()
}

// ------------------------------------------------------------------ running the real code

struct Sel { b2s: Vec<(Ref3, Ref3)>, s2b: Option<Vec<(Ref3, Ref3)>> }

/// the quoted strings of a `{:?}` rendering, `None` when one of them contains an escape
fn quoted(s: &str) -> Option<Vec<String>> {
	let mut out = Vec::new();
	let mut cur: Option<String> = None;
	for ch in s.chars() {
		match (&mut cur, ch) {
			(_, '\\') => return None,
			(None, '"') => cur = Some(String::new()),
			(Some(_), '"') => out.push(cur.take().unwrap_or_default()),
			(Some(c), x) => c.push(x),
			(None, _) => {}
		}
	}
	Some(out)
}
/// `specialized_to_bridge` is a private field: it is read off the derived `Debug` rendering
fn s2b_of_debug(dbg: &str) -> Option<Vec<(Ref3, Ref3)>> {
	let i = dbg.find("specialized_to_bridge:")?;
	let q = quoted(&dbg[i..])?;
	if q.len() % 6 != 0 { return None; }
	Some(q.chunks(6).map(|c| ((c[0].clone(), c[1].clone(), c[2].clone()), (c[3].clone(), c[4].clone(), c[5].clone()))).collect())
}
fn select_on(j: &PJ) -> anyhow::Result<Sel> {
	let sm = j.get_specialized_methods()?;
	let b2s = sm.bridge_to_specialized.iter().map(|(b, s)| (ref3_of(b), ref3_of(s))).collect();
	Ok(Sel { b2s, s2b: s2b_of_debug(&format!("{sm:?}")) })
}
/// both representations of the jar; `Err(true)` = they disagree, `Err(false)` = duke refuses to write / re-read a jar of plain classes
fn select(j: &[ClsD]) -> Result<Option<Sel>, bool> {
	let Some(p) = jar_build(j, false) else { return Ok(None) };
	let a = select_on(&p).ok();
	if let Some(v) = jar_build(j, true) {
		let b = select_on(&v).ok();
		let same = match (&a, &b) { (Some(x), Some(y)) => x.b2s == y.b2s && x.s2b == y.s2b, (None, None) => true, _ => false };
		if !same { return Err(true); }
	} else if plain_jar(j) { return Err(false); }
	Ok(a)
}

type MO = Mappings<2, (Official, Intermediary)>;
type MN = Mappings<2, (Intermediary, Named)>;

struct Ctx { jar: JarD, libs: Vec<JarD>, cal: MO, map: MN }
fn ctx_from(j: &Sexp, libs: &Sexp, cal: &Sexp, m: &Sexp) -> R<Ctx> {
	if mapcodec::ns_count(cal)? != 2 || mapcodec::ns_count(m)? != 2 { return Err("n".into()); }
	Ok(Ctx { jar: jar_from(j)?, libs: list_from(libs, jar_from)?, cal: from_sexp(cal)?, map: from_sexp(m)? })
}
fn ns_index<Ns>(m: &Mappings<2, Ns>, name: &str) -> Option<Namespace<2>> {
	let names: &[String; 2] = (&m.info.namespaces).into();
	names.iter().position(|x| x == name).and_then(|i| Namespace::new(i).ok())
}
fn providers(main: &PJ, libs: &[PJ]) -> anyhow::Result<Vec<JarSuperProv>> {
	let mut v = vec![main.get_super_classes_provider()?];
	for l in libs { v.push(l.get_super_classes_provider()?); }
	Ok(v)
}
/// the provider handed to the named remapper (the jars' edges in intermediary names) is acyclic, too - decided from the request
/// (`spec_edges_renamed`), not by building the implementation's remapped providers. When the calamus remapper cannot be built
/// (no such namespaces, a member descriptor the descriptor rewriting refuses) the real function fails before using the provider.
fn remapped_acyclic(c: &Ctx, all: &[&JarD]) -> bool {
	let (Some(o), Some(i)) = (ns_pos(&c.cal, "official"), ns_pos(&c.cal, "intermediary")) else { return true };
	let rows = srows(&c.cal);
	if !rows.iter().all(|r| r.names[o].is_none() || r.names[i].is_none() || r.member_descs.iter().all(|d| desc_rewritable(d))) { return true; }
	let e = spec_edges_renamed(&spec_edges(all), &spec_class_pairs(&rows, o, i));
	acyclic_edges(e.into_iter().flatten().collect())
}
/// every `L` opens a non-empty class name closed by `;` (what the descriptor rewriting of the remappers insists on)
fn desc_rewritable(d: &str) -> bool {
	let mut it = d.chars();
	while let Some(ch) = it.next() {
		if ch == 'L' {
			match it.next() { None | Some(';') => return false, Some(_) => {} }
			if !it.by_ref().any(|x| x == ';') { return false; }
		}
	}
	true
}

fn add_real(c: &Ctx, bytes: bool) -> Option<anyhow::Result<MN>> {
	let main = jar_build(&c.jar, bytes)?;
	let libs: Vec<PJ> = c.libs.iter().map(|l| jar_build(l, bytes)).collect::<Option<_>>()?;
	Some(add_specialized_methods_to_mappings(&main, &c.cal, &libs, &c.map))
}

// ------------------------------------------------------------------ independent evaluation of the property (oracles)

struct Idx {
	classes: HashSet<String>,
	methods: IndexMap<Ref3, usize>,
	calls: HashMap<Ref3, Vec<Ref3>>,
	parents: HashMap<String, Vec<String>>,
	children: HashMap<String, Vec<String>>,
}
fn idx_of(j: &[ClsD]) -> Idx {
	let mut x = Idx { classes: HashSet::new(), methods: IndexMap::new(), calls: HashMap::new(), parents: HashMap::new(), children: HashMap::new() };
	for c in j {
		x.classes.insert(c.name.clone());
		let sup = c.sup.iter().filter(|s| *s != JLO);
		for p in sup.chain(c.itfs.iter()) {
			x.parents.entry(c.name.clone()).or_default().push(p.clone());
			x.children.entry(p.clone()).or_default().push(c.name.clone());
		}
		for m in &c.methods {
			let r = (c.name.clone(), m.name.clone(), m.desc.clone());
			x.methods.insert(r.clone(), m.flags);
			if let Some(code) = &m.code {
				let set = x.calls.entry(r).or_default();
				for i in code {
					if let InsD::Inv(_, cl, n, d) = i {
						if cl.starts_with('[') { continue; }
						let t = (cl.clone(), n.clone(), d.clone());
						if !set.contains(&t) { set.push(t); }
					}
				}
			}
		}
	}
	x
}
/// classes reachable in one or more steps (visited set, unlike the work-list of the code under test)
fn reach(g: &HashMap<String, Vec<String>>, from: &str) -> HashSet<String> {
	let mut seen = HashSet::new();
	let mut todo = vec![from.to_owned()];
	while let Some(c) = todo.pop() {
		for p in g.get(&c).into_iter().flatten() {
			if seen.insert(p.clone()) { todo.push(p.clone()); }
		}
	}
	seen
}
fn type_compat(x: &Idx, tb: &Type, ts: &Type) -> bool {
	if tb == ts { return true; }
	match (tb, ts) {
		(Type::Object(b), Type::Object(s)) => {
			let b = b.as_inner().to_string();
			b == JLO || !x.classes.contains(&b) || reach(&x.parents, &s.as_inner().to_string()).iter().any(|a| *a == b || !x.classes.contains(a))
		}
		_ => false,
	}
}
fn potential(x: &Idx, b: &Ref3, flags: usize, s: &Ref3) -> bool {
	if flags & 0x2 != 0 || flags & 0x8 != 0 || flags & 0x10 != 0 { return false; }
	let (Ok(pb), Ok(ps)) = (md(&b.2).parse(), md(&s.2).parse()) else { return false };
	pb.parameter_descriptors.len() == ps.parameter_descriptors.len()
		&& pb.parameter_descriptors.iter().zip(ps.parameter_descriptors.iter()).all(|(a, c)| type_compat(x, a, c))
		&& match (&pb.return_descriptor, &ps.return_descriptor) { (Some(a), Some(c)) => type_compat(x, a, c), (None, None) => true, _ => false }
}
fn is_bridge_pair(x: &Idx, b: &Ref3, s: &Ref3) -> bool {
	match x.methods.get(b) {
		None => false,
		Some(&flags) => flags & 0x1000 != 0 && x.calls.get(b).map(|c| c.len() == 1 && c[0] == *s).unwrap_or(false)
			&& (flags & 0x40 != 0 || potential(x, b, flags, s)),
	}
}
fn oracle_bridge_iff(j: &[ClsD], b2s: &[(Ref3, Ref3)]) -> Ans {
	let x = idx_of(j);
	let mut univ: Vec<Ref3> = x.methods.keys().cloned().collect();
	for c in j { for m in &c.methods { for i in m.code.iter().flatten() {
		if let InsD::Inv(_, cl, n, d) = i { if !cl.starts_with('[') { univ.push((cl.clone(), n.clone(), d.clone())); } }
	} } }
	for b in x.methods.keys() {
		for s in &univ {
			if b2s.iter().any(|p| p.0 == *b && p.1 == *s) != is_bridge_pair(&x, b, s) { return Ans::fail("iff"); }
		}
	}
	for (i, (b, _)) in b2s.iter().enumerate() {
		if !x.methods.contains_key(b) || b2s[..i].iter().any(|p| p.0 == *b) { return Ans::fail("keys"); }
	}
	Ans::pass()
}
/// the (bridge, delegate) pairs of the property text in the order of the method table, carried over by `inter`; a reference
/// produced twice keeps its first position and gets the later delegate (what collecting into a map does). `None`: `inter` failed
fn own_pairs(j: &[ClsD], inter: &dyn Fn(&Ref3) -> Option<Ref3>) -> Option<Vec<(Ref3, Ref3)>> {
	let x = idx_of(j);
	let mut out: Vec<(Ref3, Ref3)> = Vec::new();
	for b in x.methods.keys() {
		let Some(s) = x.calls.get(b).and_then(|c| c.first()) else { continue };
		if !is_bridge_pair(&x, b, s) { continue; }
		let (bi, si) = (inter(b)?, inter(s)?);
		match out.iter_mut().find(|p| p.0 == bi) { Some(p) => p.1 = si, None => out.push((bi, si)) }
	}
	Some(out)
}
fn oracle_higher(j: &[ClsD], b2s: &[(Ref3, Ref3)], s2b: &[(Ref3, Ref3)]) -> Ans {
	let x = idx_of(j);
	let mut want: Vec<(Ref3, Ref3)> = Vec::new();
	for (b, s) in b2s {
		match want.iter_mut().find(|w| w.0 == *s) {
			None => want.push((s.clone(), b.clone())),
			Some(w) => if reach(&x.children, &b.0).contains(&w.1 .0) { w.1 = b.clone(); },
		}
	}
	if want.iter().map(|w| &w.0).ne(s2b.iter().map(|w| &w.0)) { return Ans::fail("keys"); }
	if want != s2b { return Ans::fail("higher"); }
	Ans::pass()
}

fn mk_name(s: &str) -> Sexp { if s.is_empty() { Sexp::list(vec![]) } else { Sexp::list(vec![Sexp::str(s)]) } }
/// `class := (key names doc fields methods)`, `method := (kname kdesc desc names doc params)`
fn check_class(named_of: &dyn Fn(&Ref3) -> Option<String>, ps: &[(Ref3, Ref3)], old: &[Sexp], new: &[Sexp]) -> R<Option<&'static str>> {
	let c = old[0].as_string()?;
	if old[1] != new[1] || old[2] != new[2] || old[3] != new[3] { return Ok(Some("class-info")); }
	let (om, nm) = (old[4].as_list()?, new[4].as_list()?);
	let key = |m: &Sexp| -> R<(String, String)> { let l = m.as_list()?; Ok((l[0].as_string()?, l[1].as_string()?)) };
	let okeys: Vec<(String, String)> = om.iter().map(key).collect::<R<_>>()?;
	let nkeys: Vec<(String, String)> = nm.iter().map(key).collect::<R<_>>()?;
	if nkeys.len() < okeys.len() || nkeys[..okeys.len()] != okeys[..] { return Ok(Some("method-order")); }
	for (k, n) in nkeys.iter().zip(nm.iter()) {
		let o = okeys.iter().position(|x| x == k).map(|i| &om[i]);
		match ps.iter().filter(|p| p.0 .0 == c && p.1 .1 == k.0 && p.1 .2 == k.1).last() {
			None => if o != Some(n) { return Ok(Some("method-entry")); },
			Some((b, s)) => {
				let Some(named) = named_of(b) else { return Ok(Some("method-entry")) };
				let n = n.as_list()?;
				let want_names = Sexp::list(vec![mk_name(&s.1), mk_name(&named)]);
				let (odoc, oparams) = match o { Some(o) => { let o = o.as_list()?; (o[4].clone(), o[5].clone()) }, None => (Sexp::list(vec![]), Sexp::list(vec![])) };
				if n[2] != Sexp::str(&s.2) || n[3] != want_names || n[4] != odoc || n[5] != oparams { return Ok(Some("method-entry")); }
			}
		}
	}
	if ps.iter().any(|p| p.0 .0 == c && !nkeys.iter().any(|k| k.0 == p.1 .1 && k.1 == p.1 .2)) { return Ok(Some("missing")); }
	Ok(None)
}
fn oracle_only_delegate(named_of: &dyn Fn(&Ref3) -> Option<String>, ps: &[(Ref3, Ref3)], m: &MN, r: &MN) -> R<Ans> {
	let (a, b) = (to_sexp(m), to_sexp(r));
	let (a, b) = (a.as_list()?, b.as_list()?);
	if a[0] != b[0] || a[1] != b[1] { return Ok(Ans::fail("header")); }
	let (ca, cb) = (a[2].as_list()?, b[2].as_list()?);
	if ca.len() != cb.len() || ca.iter().zip(cb.iter()).any(|(x, y)| x.as_list().ok().map(|l| &l[0]) != y.as_list().ok().map(|l| &l[0])) {
		return Ok(Ans::fail("class-keys"));
	}
	for (x, y) in ca.iter().zip(cb.iter()) {
		if let Some(t) = check_class(named_of, ps, x.as_list()?, y.as_list()?)? { return Ok(Ans::fail(t)); }
	}
	Ok(Ans::pass())
}

// ------------------------------------------------------------------ request-side name lookup (audit rule (ii), pattern C)
//
// What "the target name the mappings (through inheritance) give to the bridge" means is evaluated here from the REQUEST alone: the
// rows of `cal` / `map` and the super-type edges of the jar descriptions. Nothing of quill/src/remapper.rs (`remapper_b`,
// `JarSuperProv::remap`, `map_method_ref_obj`: anchored for C15) is asked, so a fault of the inherited lookup is on one side only.

/// plain view of the rows of a two-namespace mapping set: class names, then (descriptor in the first namespace, method names)
struct SRow { names: [Option<String>; 2], methods: Vec<(String, [Option<String>; 2])>, member_descs: Vec<String> }
fn srows<Ns>(m: &Mappings<2, Ns>) -> Vec<SRow> {
	m.classes.values().map(|c| {
		let names: &[Option<ObjClassName>; 2] = (&c.info.names).into();
		SRow {
			names: [names[0].as_ref().map(|x| x.as_inner().to_string()), names[1].as_ref().map(|x| x.as_inner().to_string())],
			methods: c.methods.values().map(|f| {
				let ns: &[Option<MethodName>; 2] = (&f.info.names).into();
				(f.info.desc.as_inner().to_string(), [ns[0].as_ref().map(|x| x.as_inner().to_string()), ns[1].as_ref().map(|x| x.as_inner().to_string())])
			}).collect(),
			member_descs: c.fields.values().map(|f| f.info.desc.as_inner().to_string()).chain(c.methods.values().map(|f| f.info.desc.as_inner().to_string())).collect(),
		}
	}).collect()
}
fn ns_pos<Ns>(m: &Mappings<2, Ns>, name: &str) -> Option<usize> {
	let names: &[String; 2] = (&m.info.namespaces).into();
	names.iter().position(|x| x == name)
}
fn spec_class_pairs(rows: &[SRow], s: usize, t: usize) -> Vec<(String, String)> {
	rows.iter().filter_map(|r| match (&r.names[s], &r.names[t]) { (Some(a), Some(b)) => Some((a.clone(), b.clone())), _ => None }).collect()
}
/// the last row naming `c` in the source namespace and having a name in the target namespace wins; every other name is unchanged
fn spec_class(pairs: &[(String, String)], c: &str) -> String {
	pairs.iter().rev().find(|p| p.0 == c).map(|p| p.1.clone()).unwrap_or_else(|| c.to_owned())
}
fn spec_desc(pairs: &[(String, String)], d: &str) -> String { map_desc_with(d, &|c| spec_class(pairs, c)) }
/// what class `c` (name in namespace `s`) itself declares for the method `(name, desc)` (both in `s`), towards `t`
fn spec_declares(rows: &[SRow], s: usize, t: usize, c: &str, name: &str, desc: &str) -> Option<(String, String)> {
	let row = rows.iter().rev().find(|r| r.names[s].as_deref() == Some(c) && r.names[t].is_some())?;
	let (p0s, p0t) = (spec_class_pairs(rows, 0, s), spec_class_pairs(rows, 0, t));
	row.methods.iter().rev().find_map(|(d0, ns)| match (&ns[s], &ns[t]) {
		(Some(a), Some(b)) if a == name && spec_desc(&p0s, d0) == desc => Some((b.clone(), spec_desc(&p0t, d0))),
		_ => None,
	})
}
/// super-type edges, one table per jar (main jar first): `class -> [super class, interfaces…]` without repetitions; a class
/// described twice in one jar keeps its first position and the later description
type Edges = Vec<Vec<(String, Vec<String>)>>;
fn dedup_first(xs: impl Iterator<Item = String>) -> Vec<String> {
	let mut out: Vec<String> = Vec::new();
	for x in xs { if !out.contains(&x) { out.push(x); } }
	out
}
fn upsert_edge(t: &mut Vec<(String, Vec<String>)>, k: String, v: Vec<String>) {
	match t.iter_mut().find(|e| e.0 == k) { Some(e) => e.1 = v, None => t.push((k, v)) }
}
fn spec_edges(jars: &[&JarD]) -> Edges {
	jars.iter().map(|j| {
		let mut t = Vec::new();
		for c in j.iter() { upsert_edge(&mut t, c.name.clone(), dedup_first(c.sup.iter().cloned().chain(c.itfs.iter().cloned()))); }
		t
	}).collect()
}
/// the same edges with every class name carried over by the class renaming `pairs`
fn spec_edges_renamed(e: &Edges, pairs: &[(String, String)]) -> Edges {
	e.iter().map(|j| {
		let mut t = Vec::new();
		for (k, v) in j { upsert_edge(&mut t, spec_class(pairs, k), dedup_first(v.iter().map(|x| spec_class(pairs, x)))); }
		t
	}).collect()
}
/// the first jar that describes the class answers
fn supers_of<'a>(e: &'a Edges, c: &str) -> Option<&'a Vec<String>> { e.iter().find_map(|j| j.iter().find(|r| r.0 == c).map(|r| &r.1)) }
/// nearest declaring type: the class itself, then its super types in declaration order, each searched completely before the next
/// (`depth` only bounds the walk; the hierarchies that reach this are acyclic)
fn spec_lookup(rows: &[SRow], s: usize, t: usize, e: &Edges, c: &str, name: &str, desc: &str, depth: usize) -> Option<(String, String)> {
	if let Some(k) = spec_declares(rows, s, t, c, name, desc) { return Some(k); }
	if depth == 0 { return None; }
	for p in supers_of(e, c)? {
		if let Some(k) = spec_lookup(rows, s, t, e, p, name, desc, depth - 1) { return Some(k); }
	}
	None
}
/// a method reference carried from namespace `s` to `t`: class by the class renaming, name and descriptor by the nearest
/// declaration, identity (with a rewritten descriptor) when there is none
fn spec_map_ref(rows: &[SRow], s: usize, t: usize, e: &Edges, r: &Ref3) -> Ref3 {
	let pairs = spec_class_pairs(rows, s, t);
	let (n, d) = spec_lookup(rows, s, t, e, &r.0, &r.1, &r.2, 64).unwrap_or_else(|| (r.1.clone(), spec_desc(&pairs, &r.2)));
	(spec_class(&pairs, &r.0), n, d)
}
/// pairs carried over by `inter`: a reference produced twice keeps its first position and gets the later delegate
fn carry_pairs(ps: &[(Ref3, Ref3)], inter: &dyn Fn(&Ref3) -> Ref3) -> Vec<(Ref3, Ref3)> {
	let mut out: Vec<(Ref3, Ref3)> = Vec::new();
	for (b, s) in ps {
		let (bi, si) = (inter(b), inter(s));
		match out.iter_mut().find(|p| p.0 == bi) { Some(p) => p.1 = si, None => out.push((bi, si)) }
	}
	out
}

// ------------------------------------------------------------------ exec

fn exec(op: &str, args: &[Sexp]) -> Ans {
	macro_rules! tr { ($e:expr) => { match $e { Ok(x) => x, Err(e) => return Ans::BadOp(e) } } }
	match (op, args) {
		("bridges" | "s2b" | "oracle-bridge-iff" | "oracle-higher", [j]) => {
			let j = tr!(jar_from(j));
			if !acyclic(&[&j]) { return Ans::Skip("cyclic".into()); }
			let sel = match select(&j) {
				Err(true) => return Ans::fail("parsed-and-bytes-differ"),
				Err(false) => return Ans::fail("bytes-variant-lost"),
				Ok(None) => return Ans::err(),
				Ok(Some(s)) => s,
			};
			match op {
				"bridges" => Ans::Ok(pairs_to(&sel.b2s)),
				"oracle-bridge-iff" => oracle_bridge_iff(&j, &sel.b2s),
				_ => {
					let Some(s2b) = sel.s2b else { return Ans::Skip("debug".into()) };
					if op == "s2b" { Ans::Ok(pairs_to(&s2b)) } else { oracle_higher(&j, &sel.b2s, &s2b) }
				}
			}
		}
		("add-specialized" | "oracle-only-delegate" | "oracle-delegate-named", [j, libs, cal, m]) => {
			let c = tr!(ctx_from(j, libs, cal, m));
			let all: Vec<&JarD> = std::iter::once(&c.jar).chain(c.libs.iter()).collect();
			if !acyclic(&all) { return Ans::Skip("cyclic".into()); }
			let Some(main) = jar_build(&c.jar, false) else { return Ans::err() };
			let Some(libs) = c.libs.iter().map(|l| jar_build(l, false)).collect::<Option<Vec<PJ>>>() else { return Ans::err() };
			if !remapped_acyclic(&c, &all) { return Ans::Skip("cyclic".into()); }
			let Some(res) = add_real(&c, false) else { return Ans::err() };
			if let Some(res2) = add_real(&c, true) {
				let same = match (&res, &res2) { (Ok(x), Ok(y)) => to_sexp(x) == to_sexp(y), (Err(_), Err(_)) => true, _ => false };
				if !same { return Ans::fail("parsed-and-bytes-differ"); }
			} else if all.iter().all(|j| plain_jar(j)) { return Ans::fail("bytes-variant-lost"); }
			if op == "add-specialized" {
				return match res { Ok(r) => Ans::Ok(to_sexp(&r)), Err(_) => Ans::err() };
			}
			let Ok(r) = res else { return Ans::out_of_domain() };
			// the two renamings the property text speaks about, evaluated from the request alone (`spec_map_ref`): official ->
			// intermediary over the jars' super-type edges, intermediary -> named over the same edges in intermediary names
			let (Some(o), Some(i)) = (ns_pos(&c.cal, "official"), ns_pos(&c.cal, "intermediary")) else { return Ans::out_of_domain() };
			let (Some(i2), Some(n2)) = (ns_pos(&c.map, "intermediary"), ns_pos(&c.map, "named")) else { return Ans::out_of_domain() };
			let (cal_rows, map_rows) = (srows(&c.cal), srows(&c.map));
			let edges_o = spec_edges(&all);
			let edges_i = spec_edges_renamed(&edges_o, &spec_class_pairs(&cal_rows, o, i));
			let inter = |b: &Ref3| -> Ref3 { spec_map_ref(&cal_rows, o, i, &edges_o, b) };
			let ps: Vec<(Ref3, Ref3)> = if op == "oracle-delegate-named" {
				// the bridge pairs of the property TEXT (`own_pairs`: the harness' own bridge predicate over the request's jar), not
				// the pairs the implementation selected (audit rule (ii), pattern C: both would derive from one wrong selection)
				match own_pairs(&c.jar, &|b| Some(inter(b))) { Some(ps) => ps, None => return Ans::out_of_domain() }
			} else {
				// the frame statement: relative to the pairs the implementation selected (official names), carried over here
				let Ok(sm) = main.get_specialized_methods() else { return Ans::out_of_domain() };
				let sel: Vec<(Ref3, Ref3)> = sm.bridge_to_specialized.iter().map(|(b, s)| (ref3_of(b), ref3_of(s))).collect();
				carry_pairs(&sel, &inter)
			};
			let named_of = |b: &Ref3| -> Option<String> { Some(spec_map_ref(&map_rows, i2, n2, &edges_i, b).1) };
			tr!(oracle_only_delegate(&named_of, &ps, &c.map, &r))
		}
		_ => Ans::BadOp("unknown op".into()),
	}
}

// ------------------------------------------------------------------ generators

const SYN: usize = 0x1000;
const BRIDGE: usize = 0x40;

fn obj(c: &str) -> String { format!("L{c};") }

/// rewrite the class names of a descriptor
fn map_desc_with(d: &str, f: &dyn Fn(&str) -> String) -> String {
	let mut out = String::new();
	let mut rest = d;
	while let Some(i) = rest.find('L') {
		let Some(j) = rest[i..].find(';') else { break };
		out.push_str(&rest[..=i]);
		out.push_str(&f(&rest[i + 1..i + j]));
		out.push(';');
		rest = &rest[i + j + 1..];
	}
	out.push_str(rest);
	out
}

struct World { main: JarD, libs: Vec<JarD>, cal: GMappings, map: GMappings }

struct Hier { names: Vec<String>, parents: HashMap<String, Vec<String>> }
impl Hier {
	fn ancestors(&self, c: &str) -> Vec<String> {
		let mut seen: Vec<String> = Vec::new();
		let mut todo = vec![c.to_owned()];
		while let Some(x) = todo.pop() {
			for p in self.parents.get(&x).into_iter().flatten() {
				if !seen.contains(p) { seen.push(p.clone()); todo.push(p.clone()); }
			}
		}
		seen
	}
}

/// one position of a (bridge, specialized) signature pair
fn rel_types(r: &mut Rng, h: &Hier, kind: usize) -> (String, String, &'static str) {
	let main: Vec<&String> = h.names.iter().filter(|n| !n.starts_with("lib/")).collect();
	let any_main = |r: &mut Rng| -> String { if main.is_empty() { "A".to_owned() } else { (*r.pick(&main)).clone() } };
	match kind {
		0 => { let p = (*r.pick(&["I", "J", "Z", "D"])).to_owned(); (p.clone(), p, "eq-prim") }
		1 => { let c = obj(&any_main(r)); (c.clone(), c, "eq-obj") }
		2 => (obj(JLO), obj(&any_main(r)), "erased-to-object"),
		3 => (obj("ext/Unknown"), obj(&any_main(r)), "bridge-type-outside-jar"),
		4 => {
			// erased to a bound: an ancestor (possibly several levels up, possibly outside the jar)
			let subs: Vec<&String> = main.iter().copied().filter(|c| !h.ancestors(c).is_empty()).collect();
			if subs.is_empty() { return (obj(JLO), obj(&any_main(r)), "erased-to-object"); }
			// half of the time the class with the most ancestors (deep chains and diamonds), any of its ancestors as the bound
			let deepest = subs.iter().copied().max_by_key(|c| h.ancestors(c).len()).unwrap_or(subs[0]);
			let s = if r.chance(1, 2) { deepest.clone() } else { (*r.pick(&subs)).clone() };
			let a = h.ancestors(&s);
			(obj(r.pick(&a[..]).as_str()), obj(&s), "erased-to-bound")
		}
		5 => { let (a, b) = (any_main(r), any_main(r)); (obj(&a), obj(&b), "two-jar-classes") }
		6 => ("I".to_owned(), "J".to_owned(), "prim-mismatch"),
		7 => (obj(JLO), "I".to_owned(), "object-vs-prim"),
		8 => ("[I".to_owned(), "[I".to_owned(), "eq-array"),
		9 => (format!("[{}", obj(JLO)), format!("[{}", obj(&any_main(r))), "array-covariant"),
		10 => (obj(JLO), "[I".to_owned(), "object-vs-array"),
		11 => (obj(&any_main(r)), obj(JLO), "narrowing"),
		_ => (obj(&any_main(r)), obj("ext/Other"), "specialized-outside-jar"),
	}
}

fn s_is_lib(n: &str) -> bool { n.starts_with("lib/") || n.starts_with("ext/") }

fn plain_method(name: &str, desc: &str, flags: usize) -> MetD { MetD { name: name.to_owned(), desc: desc.to_owned(), flags, code: Some(vec![InsD::Other]) } }

fn gen_world(r: &mut Rng, out: &mut Out, edge: bool) -> World {
	// ---- hierarchy
	let pool = ["A", "B", "C", "D", "E", "p/F", "I1", "I2"];
	let n_main = r.range(1, 6);
	let mut order: Vec<&str> = pool.to_vec();
	r.shuffle(&mut order);
	let main_names: Vec<String> = order[..n_main].iter().map(|s| (*s).to_owned()).collect();
	let n_libs = r.below(3);
	let mut libs: Vec<JarD> = Vec::new();
	let mut lib_names: Vec<String> = Vec::new();
	for li in 0..n_libs {
		let mut jar = Vec::new();
		for ci in 0..r.range(1, 3) {
			let name = format!("lib/L{li}{ci}");
			let sup = if !lib_names.is_empty() && r.chance(1, 2) { Some(r.pick(&lib_names).clone()) } else if r.chance(1, 8) { None } else { Some(JLO.to_owned()) };
			let mut methods = Vec::new();
			if r.chance(1, 2) { methods.push(plain_method("get", "()Ljava/lang/Object;", 1)); }
			jar.push(ClsD { name: name.clone(), sup, itfs: vec![], methods });
			lib_names.push(name);
		}
		libs.push(jar);
	}
	if r.chance(1, 6) && !libs.is_empty() {
		// a library class shadowing a class of the main jar (the provider of the main jar wins)
		let c = r.pick(&main_names).clone();
		libs[0].push(ClsD { name: c, sup: Some("ext/Shadow".to_owned()), itfs: vec![], methods: vec![] });
	}
	let mut h = Hier { names: Vec::new(), parents: HashMap::new() };
	for l in &libs { for c in l { if c.name.starts_with("lib/") {
		h.names.push(c.name.clone());
		h.parents.insert(c.name.clone(), c.sup.iter().filter(|s| *s != JLO).cloned().collect());
	} } }
	let mut main: JarD = Vec::new();
	for (i, name) in main_names.iter().enumerate() {
		let earlier = &main_names[..i];
		let sup = match r.below(10) {
			0 => None,
			1 | 2 | 3 => Some(JLO.to_owned()),
			4 | 5 | 6 | 7 if !earlier.is_empty() => Some(r.pick(earlier).clone()),
			8 if !lib_names.is_empty() => Some(r.pick(&lib_names).clone()),
			9 => Some("ext/Base".to_owned()),
			_ => Some(JLO.to_owned()),
		};
		let mut itfs = Vec::new();
		for _ in 0..*r.pick(&[0usize, 1, 2, 2, 3]) {
			let c = match r.below(6) { 0 if !lib_names.is_empty() => r.pick(&lib_names).clone(), 1 => "ext/Itf".to_owned(), _ if !earlier.is_empty() => r.pick(earlier).clone(), _ => continue };
			if !itfs.contains(&c) || r.chance(1, 10) { itfs.push(c); }
		}
		// diamonds in which the shared super type is listed FIRST: `T extends S implements M`, `S implements M, Bound` — an ancestor
		// walk that stops at the first already-seen parent of `S` never reaches `Bound`
		if let Some(sp) = sup.as_ref().and_then(|s| h.parents.get(s)).filter(|ps| ps.len() >= 2 && !s_is_lib(&ps[0])) {
			{ let shared = sp[0].clone(); itfs.retain(|x| *x != shared); itfs.insert(0, shared); out.stats.hit("hier:diamond-shared-parent-first"); }
		}
		let ps: Vec<String> = sup.iter().filter(|s| *s != JLO).cloned().chain(itfs.iter().cloned()).collect();
		h.names.push(name.clone());
		h.parents.insert(name.clone(), ps);
		main.push(ClsD { name: name.clone(), sup, itfs, methods: vec![] });
	}
	if edge && r.chance(1, 6) && main.len() >= 2 {
		// a cyclic hierarchy: both sides must skip
		let a = main[0].name.clone();
		let l = main.len() - 1;
		main[0].sup = Some(main[l].name.clone());
		main[l].itfs.push(a);
		out.stats.hit("world:cyclic");
	}
	let depth = main_names.iter().map(|c| h.ancestors(c).len()).max().unwrap_or(0);
	out.stats.hit(&format!("hierarchy:max-ancestors:{}", depth.min(4)));

	// ---- bridge units
	let mut units: Vec<(Ref3, Ref3)> = Vec::new(); // (bridge, intended delegate)
	let n_units = r.range(0, 5);
	for u in 0..n_units {
		let ci = r.below(main.len());
		let cname = main[ci].name.clone();
		let base = (*r.pick(&["get", "set", "run", "cmp"])).to_owned();
		// tie-break scenario: another bridge for a delegate that already has one, in another class
		if !units.is_empty() && r.chance(1, 4) {
			let (b0, s0) = r.pick(&units).clone();
			let flags = 1 | SYN | if r.chance(3, 4) { BRIDGE } else { 0 };
			let name = if r.chance(3, 4) { b0.1.clone() } else { format!("{base}{u}") };
			main[ci].methods.push(MetD { name: name.clone(), desc: b0.2.clone(), flags, code: Some(vec![InsD::Other, InsD::Inv('v', s0.0.clone(), s0.1.clone(), s0.2.clone())]) });
			units.push(((cname, name, b0.2), s0));
			out.stats.hit("unit:second-bridge-for-delegate");
			continue;
		}
		let arity = r.below(3);
		let mut pb = String::from("(");
		let mut ps = String::from("(");
		let wild = r.chance(1, 3);
		for _ in 0..arity {
			let kind = if wild { r.below(13) } else { *r.pick(&[0, 1, 2, 2, 3, 4, 4, 4, 5, 5, 11]) };
			let (b, s, tag) = rel_types(r, &h, kind);
			pb.push_str(&b); ps.push_str(&s);
			out.stats.hit(&format!("param:{tag}"));
		}
		pb.push(')'); ps.push(')');
		match r.below(8) {
			0 | 1 => { pb.push('V'); ps.push('V'); out.stats.hit("return:void-void"); }
			2 if wild => { pb.push('V'); ps.push('I'); out.stats.hit("return:void-vs-value"); }
			3 if wild => { pb.push_str("Ljava/lang/Object;"); ps.push('V'); out.stats.hit("return:value-vs-void"); }
			_ => {
				let kind = if wild { r.below(13) } else { *r.pick(&[0, 1, 2, 2, 4, 4, 4, 3, 5, 5, 11]) };
				let (b, s, tag) = rel_types(r, &h, kind);
				pb.push_str(&b); ps.push_str(&s);
				out.stats.hit(&format!("return:{tag}"));
			}
		}
		if wild && r.chance(1, 6) { ps = ps.replacen('(', "(I", 1); out.stats.hit("unit:arity-mismatch"); }
		if edge && r.chance(1, 5) {
			let bad = (*r.pick(&["(L;)V", "(La.b;)V", "()", "(I", "V", "(Lx;;)V", "([)V", "(La//b;)V", "()[[V"])).to_owned();
			if r.chance(1, 2) { pb = bad } else { ps = bad }
			out.stats.hit("unit:malformed-descriptor");
		}
		// flags
		let mut flags = *r.pick(&[1usize, 1, 1, 4, 0]);
		if !r.chance(1, 8) { flags |= SYN; } else { out.stats.hit("unit:not-synthetic"); }
		if r.chance(1, 2) { flags |= BRIDGE; out.stats.hit("unit:flagged-bridge"); } else { out.stats.hit("unit:unflagged"); }
		if r.chance(1, 6) { flags = (flags & !7) | 2; out.stats.hit("unit:private"); }
		if r.chance(1, 8) { flags |= 8; out.stats.hit("unit:static"); }
		if r.chance(1, 8) { flags |= 0x10; out.stats.hit("unit:final"); }
		// delegate
		let sname = if r.chance(3, 4) { base.clone() } else { format!("{base}Impl") };
		let anc = h.ancestors(&cname);
		let scls = match r.below(8) { 0 if !anc.is_empty() => r.pick(&anc).clone(), 1 => r.pick(&main_names).clone(), 2 => "ext/Other".to_owned(), _ => cname.clone() };
		if scls != cname { out.stats.hit("unit:delegate-in-other-class"); }
		let kind = *r.pick(&['v', 'v', 'v', 's', 't', 'i']);
		let call = InsD::Inv(kind, scls.clone(), sname.clone(), ps.clone());
		let code = match r.below(17) {
			// constructor calls are invoked methods like any other: `new X(this.other())` invokes two distinct methods
			14 => { out.stats.hit("body:constructor-plus-invoke"); Some(vec![InsD::Inv('s', r.pick(&[scls.as_str(), "ext/Other", "java/lang/Object"]).to_string(), "<init>".to_owned(), r.pick(&["()V", "(I)V"]).to_string()), call.clone()]) }
			15 => { out.stats.hit("body:invoke-plus-constructor"); Some(vec![call.clone(), InsD::Other, InsD::Inv('s', scls.clone(), "<init>".to_owned(), ps.clone())]) }
			16 => { out.stats.hit("body:constructor-only"); Some(vec![InsD::Inv('s', scls.clone(), "<init>".to_owned(), ps.clone())]) }
			0 => { out.stats.hit("body:no-code"); None }
			1 => { out.stats.hit("body:no-invoke"); Some(vec![InsD::Other, InsD::Other]) }
			2 => { out.stats.hit("body:two-distinct-invokes"); Some(vec![call.clone(), InsD::Inv('v', scls.clone(), format!("{sname}2"), ps.clone())]) }
			3 => { out.stats.hit("body:same-invoke-twice"); Some(vec![InsD::Other, call.clone(), call.clone()]) }
			4 => { out.stats.hit("body:array-receiver-plus-invoke"); Some(vec![InsD::Inv('v', "[Ljava/lang/Object;".to_owned(), "clone".to_owned(), "()Ljava/lang/Object;".to_owned()), call.clone()]) }
			5 => { out.stats.hit("body:array-receiver-only"); Some(vec![InsD::Inv('v', "[I".to_owned(), "clone".to_owned(), "()Ljava/lang/Object;".to_owned())]) }
			6 => { out.stats.hit("body:invokedynamic-plus-invoke"); Some(vec![InsD::Dyn, call.clone()]) }
			7 => { out.stats.hit("body:invokedynamic-only"); Some(vec![InsD::Dyn, InsD::Other]) }
			8 => { out.stats.hit("body:same-target-different-opcodes"); Some(vec![call.clone(), InsD::Inv('s', scls.clone(), sname.clone(), ps.clone())]) }
			_ => { out.stats.hit("body:one-invoke"); Some(vec![InsD::Other, InsD::Other, call.clone(), InsD::Other]) }
		};
		main[ci].methods.push(MetD { name: base.clone(), desc: pb.clone(), flags, code });
		if r.chance(4, 5) {
			if let Some(k) = main.iter().position(|c| c.name == scls) {
				if !main[k].methods.iter().any(|m| m.name == sname && m.desc == ps) { main[k].methods.push(plain_method(&sname, &ps, 1)); }
			}
		}
		units.push(((cname, base, pb), (scls, sname, ps)));
	}
	// ordinary methods, some of them calling things
	for c in main.iter_mut() {
		for k in 0..r.below(3) {
			let name = format!("ord{k}");
			let code = if r.chance(1, 2) { vec![InsD::Inv('v', c.name.clone(), "get".to_owned(), "()I".to_owned())] } else { vec![InsD::Other] };
			c.methods.push(MetD { name, desc: "()V".to_owned(), flags: 1, code: Some(code) });
		}
		if r.chance(1, 10) && !c.methods.is_empty() {
			// the same method twice in one class (second visit overwrites the access, extends the call set)
			let m = c.methods[0].clone();
			c.methods.push(MetD { flags: m.flags ^ SYN, ..m });
			out.stats.hit("world:duplicate-method");
		}
		r.shuffle(&mut c.methods);
	}
	if r.chance(1, 12) && !main.is_empty() {
		let c = main[0].clone();
		main.push(ClsD { methods: vec![], ..c });
		out.stats.hit("world:duplicate-class");
	}
	r.shuffle(&mut main);
	out.stats.hit(&format!("world:units:{}", units.len()));

	// ---- calamus: official -> intermediary
	let mut inter_cls: HashMap<String, String> = HashMap::new();
	let mut cal_classes: Vec<GClass> = Vec::new();
	let mut inter_met: HashMap<Ref3, String> = HashMap::new();
	let mut counter = 0usize;
	let mut mapped: Vec<String> = main.iter().map(|c| c.name.clone()).collect();
	mapped.dedup();
	for l in &libs { for c in l { if r.chance(1, 4) && !mapped.contains(&c.name) { mapped.push(c.name.clone()); } } }
	if r.chance(1, 5) { mapped.push("ext/Base".to_owned()); }
	let mut done: Vec<String> = Vec::new();
	for cname in &mapped {
		if done.contains(cname) || r.chance(1, 6) { continue; }
		done.push(cname.clone());
		counter += 1;
		let inter = if r.chance(1, 10) { None } else if r.chance(1, 12) { Some(cname.clone()) } else { Some(format!("net/C_{counter}")) };
		if let Some(i) = &inter { inter_cls.insert(cname.clone(), i.clone()); }
		cal_classes.push(GClass { names: vec![Some(cname.clone()), inter], doc: None, fields: vec![], methods: vec![] });
	}
	if edge && r.chance(1, 8) && cal_classes.len() >= 2 {
		// two official classes with one intermediary name (the remapped hierarchy may become cyclic: skipped by both sides)
		let t = cal_classes[0].names[1].clone();
		cal_classes[1].names[1] = t.clone();
		if let (Some(k), Some(t)) = (cal_classes[1].names[0].clone(), t) { inter_cls.insert(k, t); }
		out.stats.hit("calamus:colliding-class-names");
	}
	let all_methods: Vec<Ref3> = main.iter().flat_map(|c| c.methods.iter().map(|m| (c.name.clone(), m.name.clone(), m.desc.clone()))).collect();
	let mut mcount = 0usize;
	for gc in cal_classes.iter_mut() {
		let cname = gc.names[0].clone().unwrap_or_default();
		for m in all_methods.iter().filter(|m| m.0 == cname) {
			if gc.methods.iter().any(|g| g.names[0].as_deref() == Some(&m.1) && g.desc == m.2) { continue; }
			if !r.chance(3, 5) { continue; }
			mcount += 1;
			let inter = if r.chance(1, 10) { None } else if r.chance(1, 8) { Some("m_shared".to_owned()) } else { Some(format!("m_{mcount}")) };
			if let (Some(i), true) = (&inter, gc.names[1].is_some()) { inter_met.insert(m.clone(), i.clone()); }
			gc.methods.push(GMember { desc: m.2.clone(), names: vec![Some(m.1.clone()), inter], doc: None, params: vec![] });
		}
		// a name declared for a delegate living in an ancestor: found through inheritance
		if r.chance(1, 4) {
			if let Some((_, s)) = units.iter().find(|(b, s)| b.0 != cname && s.0 != cname && !gc.methods.iter().any(|g| g.names[0].as_deref() == Some(&s.1) && g.desc == s.2)) {
				gc.methods.push(GMember { desc: s.2.clone(), names: vec![Some(s.1.clone()), Some("m_inh".to_owned())], doc: None, params: vec![] });
			}
		}
	}
	r.shuffle(&mut cal_classes);
	let cal_ns = if edge && r.chance(1, 10) { vec!["official".to_owned(), "named".to_owned()] } else { vec!["official".to_owned(), "intermediary".to_owned()] };
	let cal = GMappings { ns: cal_ns, doc: None, classes: cal_classes };

	// ---- mappings: intermediary -> named
	let icls = |c: &str| -> String { inter_cls.get(c).cloned().unwrap_or_else(|| c.to_owned()) };
	let idesc = |d: &str| -> String { map_desc_with(d, &|c| icls(c)) };
	let imet = |m: &Ref3| -> String { inter_met.get(m).cloned().unwrap_or_else(|| m.1.clone()) };
	let mut map_classes: Vec<GClass> = Vec::new();
	let mut seen_inter: Vec<String> = Vec::new();
	let mut cands: Vec<String> = main.iter().map(|c| c.name.clone()).collect();
	cands.extend(lib_names.iter().cloned());
	cands.push("ext/Base".to_owned());
	for c in &cands {
		let ic = icls(c);
		if seen_inter.contains(&ic) { continue; }
		let is_main = main.iter().any(|x| x.name == *c);
		if !r.chance(if is_main { 5 } else { 2 }, 6) { continue; }
		seen_inter.push(ic.clone());
		let named = if r.chance(1, 8) { None } else { Some(format!("named/{}", c.replace('/', "_"))) };
		map_classes.push(GClass { names: vec![Some(ic), named], doc: if r.chance(1, 4) { Some("class doc".to_owned()) } else { None }, fields: vec![], methods: vec![] });
	}
	let find = |cs: &Vec<GClass>, ic: &str| cs.iter().position(|g| g.names[0].as_deref() == Some(ic));
	let mut nn = 0usize;
	for (b, s) in &units {
		nn += 1;
		let (bn, bd) = (imet(b), idesc(&b.2));
		// the bridge's name: in its own class, in an ancestor (inheritance), or nowhere
		let place = match r.below(10) {
			0 | 1 | 2 | 3 | 4 => { out.stats.hit("named:bridge-in-own-class"); Some(b.0.clone()) }
			5 | 6 | 7 => { let a = h.ancestors(&b.0); if a.is_empty() { out.stats.hit("named:bridge-nowhere"); None } else { out.stats.hit("named:bridge-in-ancestor"); Some(r.pick(&a).clone()) } }
			_ => { out.stats.hit("named:bridge-nowhere"); None }
		};
		if let Some(k) = place.and_then(|p| find(&map_classes, &icls(&p))) {
			if !map_classes[k].methods.iter().any(|g| g.names[0].as_deref() == Some(&bn) && g.desc == bd) {
				let named = if r.chance(1, 10) { None } else { Some(format!("bridgeName{nn}")) };
				map_classes[k].methods.push(GMember { desc: bd.clone(), names: vec![Some(bn.clone()), named], doc: None, params: vec![] });
			}
		}
		// the delegate: already named in the bridge's class (occupied entry: comment and parameters must survive)
		if r.chance(2, 5) {
			if let Some(k) = find(&map_classes, &icls(&b.0)) {
				// what the calamus remapper will answer for the delegate: own class first, then the hierarchy
				let mut sn = imet(s);
				if !inter_met.contains_key(s) && r.chance(1, 2) { sn = "m_inh".to_owned(); }
				let sd = idesc(&s.2);
				if !map_classes[k].methods.iter().any(|g| g.names[0].as_deref() == Some(&sn) && g.desc == sd) {
					let params = if r.chance(1, 2) { vec![GParam { index: 1, names: vec![None, Some("arg".to_owned())], doc: Some("param doc".to_owned()) }] } else { vec![] };
					map_classes[k].methods.push(GMember { desc: sd, names: vec![Some(sn), if r.chance(1, 4) { None } else { Some(format!("oldName{nn}")) }],
						doc: if r.chance(1, 2) { Some("method doc".to_owned()) } else { None }, params });
					out.stats.hit("named:delegate-entry-present");
				}
			}
		}
	}
	// unrelated entries that must survive untouched
	for g in map_classes.iter_mut() {
		if r.chance(1, 2) { g.methods.push(GMember { desc: "()V".to_owned(), names: vec![Some("other".to_owned()), Some("otherNamed".to_owned())], doc: Some("keep".to_owned()), params: vec![] }); }
		if r.chance(1, 3) { g.fields.push(GMember { desc: "I".to_owned(), names: vec![Some("f".to_owned()), Some("fNamed".to_owned())], doc: None, params: vec![] }); }
		r.shuffle(&mut g.methods);
	}
	r.shuffle(&mut map_classes);
	let map_ns = if edge && r.chance(1, 10) { vec!["official".to_owned(), "named".to_owned()] } else { vec!["intermediary".to_owned(), "named".to_owned()] };
	let map = GMappings { ns: map_ns, doc: if r.chance(1, 5) { Some("top".to_owned()) } else { None }, classes: map_classes };
	World { main, libs, cal, map }
}

/// mapping-set keys that differ from the first names (keys are what `classes.get_mut` and `methods.entry` look at)
fn rekey(r: &mut Rng, m: &Sexp) -> Sexp {
	let Ok(l) = m.as_list() else { return m.clone() };
	let Ok(cs) = l[2].as_list() else { return m.clone() };
	let cs: Vec<Sexp> = cs.iter().map(|c| {
		let Ok(cl) = c.as_list() else { return c.clone() };
		let mut cl = cl.to_vec();
		if r.chance(1, 3) { cl[0] = Sexp::str("net/C_1"); }
		Sexp::list(cl)
	}).collect();
	// keep class keys unique (the codec refuses duplicates)
	let mut seen: Vec<Sexp> = Vec::new();
	let cs: Vec<Sexp> = cs.into_iter().filter(|c| { let k = c.as_list().map(|l| l[0].clone()).unwrap_or(Sexp::tag("?")); if seen.contains(&k) { false } else { seen.push(k); true } }).collect();
	Sexp::list(vec![l[0].clone(), l[1].clone(), Sexp::list(cs)])
}

fn emit_world(out: &mut Out, w: &World, map: Sexp) {
	let j = jar_to(&w.main);
	let libs = Sexp::list(w.libs.iter().map(|l| jar_to(l)).collect());
	let cal = w.cal.to_sexp();
	out.stats.hit(if plain_jar(&w.main) { "bytes-variant:main-jar:required" } else { "bytes-variant:main-jar:best-effort" });
	out.stats.hit(if plain_jar(&w.main) && w.libs.iter().all(|l| plain_jar(l)) { "bytes-variant:world:required" } else { "bytes-variant:world:best-effort" });
	out.op("bridges", &[j.clone()]);
	out.op("s2b", &[j.clone()]);
	out.op("oracle-bridge-iff", &[j.clone()]);
	out.op("oracle-higher", &[j.clone()]);
	out.op("add-specialized", &[j.clone(), libs.clone(), cal.clone(), map.clone()]);
	out.op("oracle-only-delegate", &[j.clone(), libs.clone(), cal.clone(), map.clone()]);
	out.op("oracle-delegate-named", &[j, libs, cal, map]);
}

// ------------------------------------------------------------------ fixed scenario worlds (seed independent, emitted first)

/// a hierarchy shape: `(class, super class (None = java/lang/Object), interfaces)` in jar order; `T` is the specialized type
type ShapeD = (&'static str, &'static [(&'static str, Option<&'static str>, &'static [&'static str])]);

/// Hierarchies above the specialized type `T`. The order of the parent lists is the point: `get_ancestors` is a work list
/// without a visited set, shared super types are met several times and in different positions of a parent list.
const ANCESTOR_SHAPES: &[ShapeD] = &[
	("chain", &[("T", Some("S"), &[]), ("S", None, &["Bound"]), ("Bound", None, &[])]),
	// `T extends S implements M`, `S implements M, Bound`: the shared `M` is listed before the path to `Bound`
	("diamond-shared-first", &[("T", Some("S"), &["M"]), ("S", None, &["M", "Bound"]), ("M", None, &[]), ("Bound", None, &[])]),
	("diamond-shared-last", &[("T", Some("S"), &["M"]), ("S", None, &["Bound", "M"]), ("M", None, &[]), ("Bound", None, &[])]),
	("diamond-shared-has-parent", &[("T", Some("S"), &["M"]), ("S", None, &["M", "Bound"]), ("M", None, &["MTop"]), ("MTop", None, &[]), ("Bound", None, &["BTop"]), ("BTop", None, &[])]),
	// `Root` is reached through both interfaces, in either listing order
	("twice-through-two-interfaces", &[("T", None, &["I1", "I2"]), ("I1", None, &["Root"]), ("I2", None, &["Root", "Bound"]), ("Root", None, &["Top"]), ("Top", None, &[]), ("Bound", None, &[])]),
	("twice-through-two-interfaces-swapped", &[("T", None, &["I2", "I1"]), ("I1", None, &["Root"]), ("I2", None, &["Root", "Bound"]), ("Root", None, &["Top"]), ("Top", None, &[]), ("Bound", None, &[])]),
	("twice-through-two-interfaces-bound-first", &[("T", None, &["I2", "I1"]), ("I1", None, &["Root"]), ("I2", None, &["Bound", "Root"]), ("Root", None, &["Top"]), ("Top", None, &[]), ("Bound", None, &[])]),
	("depth3-class-chain", &[("T", Some("S"), &[]), ("S", Some("R"), &[]), ("R", Some("Q"), &[]), ("Q", None, &[])]),
	("depth3-interface-chain", &[("T", None, &["I"]), ("I", None, &["J"]), ("J", None, &["K"]), ("K", None, &[])]),
	("depth3-mixed", &[("T", Some("S"), &["I"]), ("S", Some("R"), &["J"]), ("R", None, &["K"]), ("I", None, &["J"]), ("J", None, &["K"]), ("K", None, &[])]),
	// a class implementing the same interface as its super-super class
	("same-interface-as-super-super-first", &[("T", Some("S"), &["M"]), ("S", Some("R"), &[]), ("R", None, &["M", "Bound"]), ("M", None, &[]), ("Bound", None, &[])]),
	("same-interface-as-super-super-last", &[("T", Some("S"), &["M"]), ("S", Some("R"), &[]), ("R", None, &["Bound", "M"]), ("M", None, &[]), ("Bound", None, &[])]),
	("interface-listed-before-super-path", &[("T", Some("S"), &["M", "N"]), ("S", None, &["N", "M", "Bound"]), ("M", None, &[]), ("N", None, &[]), ("Bound", None, &[])]),
	// an ancestor outside the jar makes every jar class an acceptable erased type
	("ancestor-outside-jar", &[("T", Some("S"), &[]), ("S", Some("ext/Lib"), &["Bound"]), ("Bound", None, &[])]),
	("ancestor-outside-jar-behind-shared", &[("T", Some("S"), &["M"]), ("S", None, &["M", "ext/Itf"]), ("M", None, &[])]),
];

fn shape_jar(shape: &ShapeD) -> JarD {
	shape.1.iter().map(|(n, s, is)| ClsD { name: (*n).to_owned(), sup: Some(s.unwrap_or(JLO).to_owned()), itfs: is.iter().map(|i| (*i).to_owned()).collect(), methods: vec![] }).collect()
}
fn shape_hier(shape: &ShapeD) -> Hier {
	let mut h = Hier { names: Vec::new(), parents: HashMap::new() };
	for (n, s, is) in shape.1 {
		h.names.push((*n).to_owned());
		h.parents.insert((*n).to_owned(), s.iter().chain(is.iter()).map(|x| (*x).to_owned()).collect());
	}
	h
}

/// One world per (shape, erased type, flagged, position), after the demonstration of seed C15-G:
/// ```txt
/// <shape classes>;  class U {}  class Sub extends T {}
/// class Base   { x(A) }                                   // Base<X extends A>
/// class Holder extends Base { x(T);  synthetic [bridge] x(A) { this.x((T) a); } }
/// ```
/// calamus names every class `pkg/<name>`, `Base.x -> m_1`, `Holder.x(T) -> m_2`; the mappings name `pkg/Base.m_1 -> consume` and list
/// `pkg/Holder` without methods, so that the delegate's entry `m_2 -> consume` in `pkg/Holder` is the observable rename.
fn scenario_world(shape: &ShapeD, erased: &str, flagged: bool, ret: bool) -> World {
	let mut main = shape_jar(shape);
	main.push(ClsD { name: "U".into(), sup: Some(JLO.into()), itfs: vec![], methods: vec![] });
	main.push(ClsD { name: "Sub".into(), sup: Some("T".into()), itfs: vec![], methods: vec![] });
	let (db, ds) = if ret { (format!("(){}", obj(erased)), format!("(){}", obj("T"))) } else { (format!("({})V", obj(erased)), format!("({})V", obj("T"))) };
	main.push(ClsD { name: "Base".into(), sup: Some(JLO.into()), itfs: vec![], methods: vec![plain_method("x", &db, 1)] });
	let flags = 1 | SYN | if flagged { BRIDGE } else { 0 };
	main.push(ClsD { name: "Holder".into(), sup: Some("Base".into()), itfs: vec![], methods: vec![
		plain_method("x", &ds, 1),
		MetD { name: "x".into(), desc: db.clone(), flags, code: Some(vec![InsD::Other, InsD::Other, InsD::Other, InsD::Inv('v', "Holder".into(), "x".into(), ds.clone()), InsD::Other]) },
	] });
	let pkg = |c: &str| -> String { if main.iter().any(|k| k.name == c) { format!("pkg/{c}") } else { c.to_owned() } };
	let member = |desc: &str, a: &str, b: &str| GMember { desc: desc.to_owned(), names: vec![Some(a.to_owned()), Some(b.to_owned())], doc: None, params: vec![] };
	let cal = GMappings { ns: vec!["official".into(), "intermediary".into()], doc: None, classes: main.iter().map(|c| GClass {
		names: vec![Some(c.name.clone()), Some(pkg(&c.name))], doc: None, fields: vec![],
		methods: match c.name.as_str() { "Base" => vec![member(&db, "x", "m_1")], "Holder" => vec![member(&ds, "x", "m_2")], _ => vec![] },
	}).collect() };
	let idb = map_desc_with(&db, &|c| pkg(c));
	let map = GMappings { ns: vec!["intermediary".into(), "named".into()], doc: None, classes: vec![
		GClass { names: vec![Some("pkg/Base".into()), Some("pkg/Base".into())], doc: None, fields: vec![], methods: vec![member(&idb, "m_1", "consume")] },
		GClass { names: vec![Some("pkg/Holder".into()), Some("pkg/Holder".into())], doc: None, fields: vec![], methods: vec![] },
	] };
	World { main, libs: vec![], cal, map }
}

fn scenario_worlds(out: &mut Out) {
	for shape in ANCESTOR_SHAPES {
		let h = shape_hier(shape);
		// every ancestor of the specialized type, then the controls: an unrelated jar class, a descendant (narrowing)
		let mut erased: Vec<(String, &str)> = h.ancestors("T").into_iter().map(|a| (a, "ancestor")).collect();
		erased.push(("U".to_owned(), "unrelated"));
		erased.push(("Sub".to_owned(), "descendant"));
		for (e, kind) in &erased {
			for flagged in [false, true] {
				for ret in [false, true] {
					let w = scenario_world(shape, e, flagged, ret);
					out.stats.hit("scenario:world");
					out.stats.hit(&format!("scenario:shape:{}", shape.0));
					out.stats.hit(&format!("scenario:erased-type:{kind}"));
					out.stats.hit(if flagged { "scenario:flagged" } else { "scenario:unflagged" });
					out.stats.hit(if ret { "scenario:return-position" } else { "scenario:param-position" });
					let m = w.map.to_sexp();
					emit_world(out, &w, m);
				}
			}
		}
	}
}

/// Hierarchies below a class: `get_descendants` decides which of two bridges for one delegate is recorded in
/// `specialized_to_bridge` (`get_higher_method`). The children lists are in visiting order of the classes, so every
/// visiting order is enumerated, with a flagged bridge in every pair of classes.
const DESCENDANT_SHAPES: &[ShapeD] = &[
	// `C2 extends C1 implements P`: `C2` is a child of `P` and of `C1`; `D` is only reached through `C1`
	("down-diamond", &[("P", None, &[]), ("C1", Some("P"), &[]), ("C2", Some("C1"), &["P"]), ("D", Some("C1"), &[])]),
	// `D` is reached through `C1` and through `C2`; `E` only through `C1`
	("down-twice", &[("P", None, &[]), ("C1", None, &["P"]), ("C2", None, &["P"]), ("D", Some("C1"), &["C2"]), ("E", Some("C1"), &[])]),
	("down-chain3", &[("P", None, &[]), ("C1", Some("P"), &[]), ("C2", Some("C1"), &[]), ("D", Some("C2"), &[])]),
	("down-same-interface-again", &[("P", None, &[]), ("C1", None, &["P"]), ("C2", Some("C1"), &[]), ("D", Some("C2"), &["P"]), ("E", Some("C2"), &[])]),
];

fn permutations(n: usize) -> Vec<Vec<usize>> {
	if n == 0 { return vec![vec![]]; }
	let mut out = Vec::new();
	for p in permutations(n - 1) { for i in 0..n { let mut q = p.clone(); q.insert(i, n - 1); out.push(q); } }
	out
}

fn descendant_worlds(out: &mut Out) {
	for shape in DESCENDANT_SHAPES {
		let n = shape.1.len();
		for p in permutations(n) {
			for a in 0..n { for b in a + 1..n {
				let mut jar: JarD = Vec::new();
				for &i in &p {
					let (name, sup, itfs) = shape.1[i];
					let mut methods = Vec::new();
					if i == a || i == b {
						methods.push(MetD { name: "m".into(), desc: "(Ljava/lang/Object;)V".into(), flags: 1 | SYN | BRIDGE,
							code: Some(vec![InsD::Inv('v', "P".into(), "impl".into(), "(LP;)V".into())]) });
					}
					if name == "P" { methods.push(plain_method("impl", "(LP;)V", 1)); }
					jar.push(ClsD { name: name.into(), sup: Some(sup.unwrap_or(JLO).to_owned()), itfs: itfs.iter().map(|x| (*x).to_owned()).collect(), methods });
				}
				out.stats.hit("scenario:descendants");
				out.stats.hit(&format!("scenario:descendants:{}", shape.0));
				let j = jar_to(&jar);
				out.op("s2b", &[j.clone()]);
				out.op("oracle-higher", &[j]);
			} }
		}
	}
}

/// exhaustive small scope: every flag combination x every body shape x every type relation, in a fixed three-level hierarchy
fn truth_table(out: &mut Out) {
	let h = Hier { names: vec!["Top".into(), "Mid".into(), "Bot".into()],
		parents: HashMap::from([("Mid".to_owned(), vec!["Top".to_owned()]), ("Bot".to_owned(), vec!["Mid".to_owned(), "ext/Itf".to_owned()])]) };
	let mut rr = Rng::new(7);
	for kind in 0..13 {
		for ret in 0..2 {
			let (tb, ts, _) = rel_types(&mut rr, &h, kind);
			let (db, ds) = if ret == 0 { (format!("({tb})V"), format!("({ts})V")) } else { (format!("(){tb}"), format!("(){ts}")) };
			if ret == 1 && (tb == "V" || ts == "V") { continue; }
			for fl in 0..32usize {
				let flags = 1 | if fl & 1 != 0 { SYN } else { 0 } | if fl & 2 != 0 { BRIDGE } else { 0 } | if fl & 4 != 0 { 2 } else { 0 }
					| if fl & 8 != 0 { 8 } else { 0 } | if fl & 16 != 0 { 0x10 } else { 0 };
				for body in 0..6 {
					// the non-synthetic half of the table is uniform: sample it
					if fl & 1 == 0 && (body + kind + fl) % 4 != 0 { continue; }
					let call = InsD::Inv('v', "Bot".into(), "impl".into(), ds.clone());
					let code = match body {
						0 => None,
						1 => Some(vec![InsD::Other]),
						2 => Some(vec![call.clone()]),
						3 => Some(vec![call.clone(), InsD::Other, call.clone()]),
						4 => Some(vec![call.clone(), InsD::Inv('v', "Bot".into(), "impl2".into(), ds.clone())]),
						_ => Some(vec![InsD::Dyn, InsD::Inv('v', "[I".into(), "clone".into(), "()Ljava/lang/Object;".into()), call.clone()]),
					};
					let jar = vec![
						ClsD { name: "Bot".into(), sup: Some("Mid".into()), itfs: vec!["ext/Itf".into()], methods: vec![
							MetD { name: "m".into(), desc: db.clone(), flags, code }, plain_method("impl", &ds, 1)] },
						ClsD { name: "Mid".into(), sup: Some("Top".into()), itfs: vec![], methods: vec![] },
						ClsD { name: "Top".into(), sup: Some(JLO.into()), itfs: vec![], methods: vec![] },
					];
					out.stats.hit("truth-table");
					out.op("bridges", &[jar_to(&jar)]);
					if fl & 1 != 0 && body >= 2 { out.op("oracle-bridge-iff", &[jar_to(&jar)]); }
				}
			}
		}
	}
}

/// several bridges for one delegate along a chain / across unrelated classes, every visiting order of the classes
fn tie_breaks(out: &mut Out) {
	let del = ("Base".to_owned(), "impl".to_owned(), "(LBase;)V".to_owned());
	let shapes: &[&[(&str, Option<&str>)]] = &[
		&[("Base", None), ("Sub", Some("Base")), ("SubSub", Some("Sub"))],
		&[("Base", None), ("Sub", Some("Base")), ("Other", Some("Base"))],
		&[("Base", None), ("Sub", Some("Base")), ("Alone", None)],
	];
	for shape in shapes {
		let perms: &[[usize; 3]] = &[[0, 1, 2], [0, 2, 1], [1, 0, 2], [1, 2, 0], [2, 0, 1], [2, 1, 0]];
		for p in perms {
			for mask in 1..8usize {
				let mut jar: JarD = Vec::new();
				for &i in p {
					let (n, s) = shape[i];
					let mut methods = Vec::new();
					if mask & (1 << i) != 0 {
						methods.push(MetD { name: "m".into(), desc: "(Ljava/lang/Object;)V".into(), flags: 1 | SYN | BRIDGE,
							code: Some(vec![InsD::Inv('v', del.0.clone(), del.1.clone(), del.2.clone())]) });
					}
					if n == "Base" { methods.push(plain_method("impl", "(LBase;)V", 1)); }
					jar.push(ClsD { name: n.into(), sup: Some(s.unwrap_or(JLO).to_owned()), itfs: vec![], methods });
				}
				out.stats.hit("tie-break-enumeration");
				let j = jar_to(&jar);
				out.op("s2b", &[j.clone()]);
				out.op("oracle-higher", &[j.clone()]);
				out.op("bridges", &[j]);
			}
		}
	}
}

fn gen(r: &mut Rng, tier: Tier, out: &mut Out) {
	let rounds = if tier == Tier::Thorough { 12000 } else { 450 };
	// the seed-independent scenario worlds first (their failures are the most readable ones)
	scenario_worlds(out);
	descendant_worlds(out);
	truth_table(out);
	tie_breaks(out);
	for _ in 0..rounds {
		let w = gen_world(r, out, false);
		let m = w.map.to_sexp();
		emit_world(out, &w, m);
	}
	// edge stream: malformed descriptors, wrong namespaces, cyclic hierarchies, keys that are not the first names
	for _ in 0..rounds / 3 {
		let w = gen_world(r, out, true);
		let mut m = w.map.to_sexp();
		if r.chance(1, 3) { m = rekey(r, &m); out.stats.hit("edge:rekeyed"); }
		out.stats.hit("edge:world");
		emit_world(out, &w, m);
	}
	// malformed requests
	out.op("bridges", &[Sexp::tag("x")]);
	out.op("bridges", &[Sexp::list(vec![Sexp::list(vec![Sexp::str("A")])])]);
	out.op("add-specialized", &[Sexp::list(vec![]), Sexp::list(vec![])]);
	out.op("nope", &[]);
}

fn main() { main_for(&gen, &exec) }
