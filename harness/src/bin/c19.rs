//! C19: Maven dependency resolution — effective POM, scope table, nearest-wins mediation, BFS order, printers / parsers.
//! The implementation is driven through its public API only: `get_maven_dependencies` with an in-memory `Downloader`
//! that serves XML rendered from generated POM structures, `Forest::breadth_first_retain`, `Forest::into_breadth_first`,
//! `MavenCoord` / `FoundDependency` / `DependencyScope` `Display` + parsers, `FoundDependency::make_url`.
use std::borrow::Cow;
use std::collections::{HashMap, HashSet};
use std::future::Future;
use std::str::FromStr;
use anyhow::{anyhow, Result};
use fvh::rng::Rng;
use fvh::run::{main_for, Ans, Out, Tier};
use fvh::sexp::{Sexp, R};
use maven_dependency_resolver::coord::MavenCoord;
use maven_dependency_resolver::maven_pom::MavenPom;
use maven_dependency_resolver::resolver::Resolver;
use maven_dependency_resolver::tree::{Forest, Tree};
use maven_dependency_resolver::{get_maven_dependencies, DependencyScope, Downloader, FoundDependency};

// ------------------------------------------------------------------------------------------------ POM structures

#[derive(Clone, Debug, PartialEq)]
struct GDep {
	g: String,
	a: String,
	v: Option<String>,
	t: Option<String>,
	c: Option<String>,
	/// compile | runtime | test | system | provided | import
	scope: Option<String>,
	optional: Option<bool>,
}

#[derive(Clone, Debug, PartialEq)]
struct GPom {
	mv: String,
	parent: Option<(String, String, String)>,
	g: Option<String>,
	a: String,
	v: Option<String>,
	packaging: Option<String>,
	dm: Vec<GDep>,
	deps: Vec<GDep>,
}

#[derive(Clone, Debug, PartialEq)]
enum Doc {
	Bad,
	Pom(GPom),
}

fn opt_str(o: &Option<String>) -> Sexp { Sexp::opt(o.as_ref(), |s| Sexp::str(s)) }

fn as_opt_str(s: &Sexp) -> R<Option<String>> {
	match s.as_opt()? { None => Ok(None), Some(x) => Ok(Some(x.as_string()?)) }
}

impl GDep {
	fn to_sexp(&self) -> Sexp {
		Sexp::list(vec![
			Sexp::str(&self.g), Sexp::str(&self.a), opt_str(&self.v), opt_str(&self.t), opt_str(&self.c),
			Sexp::opt(self.scope.as_ref(), |s| Sexp::tag(s)),
			Sexp::opt(self.optional, Sexp::bool),
		])
	}
	fn from_sexp(s: &Sexp) -> R<GDep> {
		let [g, a, v, t, c, sc, o] = s.as_list()? else { return Err("dep arity".into()) };
		Ok(GDep {
			g: g.as_string()?, a: a.as_string()?, v: as_opt_str(v)?, t: as_opt_str(t)?, c: as_opt_str(c)?,
			scope: match sc.as_opt()? { None => None, Some(x) => Some(x.as_atom()?.to_owned()) },
			optional: match o.as_opt()? { None => None, Some(x) => Some(x.as_bool()?) },
		})
	}
	fn to_xml(&self, out: &mut String) {
		out.push_str("<dependency>");
		el(out, "groupId", &self.g);
		el(out, "artifactId", &self.a);
		if let Some(v) = &self.v { el(out, "version", v); }
		if let Some(t) = &self.t { el(out, "type", t); }
		if let Some(c) = &self.c { el(out, "classifier", c); }
		if let Some(s) = &self.scope { el(out, "scope", s); }
		if let Some(o) = self.optional { el(out, "optional", if o { "true" } else { "false" }); }
		out.push_str("</dependency>");
	}
}

fn el(out: &mut String, name: &str, text: &str) {
	out.push('<'); out.push_str(name); out.push('>');
	for c in text.chars() {
		match c {
			'&' => out.push_str("&amp;"),
			'<' => out.push_str("&lt;"),
			'>' => out.push_str("&gt;"),
			c => out.push(c),
		}
	}
	out.push_str("</"); out.push_str(name); out.push('>');
}

impl GPom {
	fn to_sexp(&self) -> Sexp {
		Sexp::list(vec![
			Sexp::tag("pom"), Sexp::str(&self.mv),
			Sexp::opt(self.parent.as_ref(), |(g, a, v)| Sexp::list(vec![Sexp::str(g), Sexp::str(a), Sexp::str(v)])),
			opt_str(&self.g), Sexp::str(&self.a), opt_str(&self.v), opt_str(&self.packaging),
			Sexp::list(self.dm.iter().map(GDep::to_sexp).collect()),
			Sexp::list(self.deps.iter().map(GDep::to_sexp).collect()),
		])
	}
	fn from_sexp(s: &Sexp) -> R<GPom> {
		let [tag, mv, parent, g, a, v, p, dm, deps] = s.as_list()? else { return Err("pom arity".into()) };
		if tag.as_atom()? != "pom" { return Err("pom tag".into()); }
		Ok(GPom {
			mv: mv.as_string()?,
			parent: match parent.as_opt()? {
				None => None,
				Some(x) => {
					let [g, a, v] = x.as_list()? else { return Err("parent arity".into()) };
					Some((g.as_string()?, a.as_string()?, v.as_string()?))
				}
			},
			g: as_opt_str(g)?, a: a.as_string()?, v: as_opt_str(v)?, packaging: as_opt_str(p)?,
			dm: dm.as_list()?.iter().map(GDep::from_sexp).collect::<R<_>>()?,
			deps: deps.as_list()?.iter().map(GDep::from_sexp).collect::<R<_>>()?,
		})
	}
	/// XML text as a repository would serve it (absent containers instead of empty ones)
	fn to_xml(&self) -> String {
		let mut o = String::from("<?xml version=\"1.0\" encoding=\"UTF-8\"?>\n<project>");
		el(&mut o, "modelVersion", &self.mv);
		if let Some((g, a, v)) = &self.parent {
			o.push_str("<parent>");
			el(&mut o, "groupId", g); el(&mut o, "artifactId", a); el(&mut o, "version", v);
			o.push_str("</parent>");
		}
		if let Some(g) = &self.g { el(&mut o, "groupId", g); }
		el(&mut o, "artifactId", &self.a);
		if let Some(v) = &self.v { el(&mut o, "version", v); }
		if let Some(p) = &self.packaging { el(&mut o, "packaging", p); }
		if !self.dm.is_empty() {
			o.push_str("<dependencyManagement><dependencies>");
			for d in &self.dm { d.to_xml(&mut o); }
			o.push_str("</dependencies></dependencyManagement>");
		}
		if !self.deps.is_empty() {
			o.push_str("<dependencies>");
			for d in &self.deps { d.to_xml(&mut o); }
			o.push_str("</dependencies>");
		}
		o.push_str("</project>\n");
		o
	}
}

impl Doc {
	fn to_sexp(&self) -> Sexp { match self { Doc::Bad => Sexp::tag("bad"), Doc::Pom(p) => p.to_sexp() } }
	fn from_sexp(s: &Sexp) -> R<Doc> {
		if let Sexp::Atom(a) = s { return if a == "bad" { Ok(Doc::Bad) } else { Err("doc".into()) }; }
		Ok(Doc::Pom(GPom::from_sexp(s)?))
	}
}

// ------------------------------------------------------------------------------------------------ coordinates, scopes

#[derive(Clone, Debug, PartialEq)]
struct GCoord { g: String, a: String, v: String, c: Option<String>, t: String }

impl GCoord {
	fn to_sexp(&self) -> Sexp {
		Sexp::list(vec![Sexp::str(&self.g), Sexp::str(&self.a), Sexp::str(&self.v), opt_str(&self.c), Sexp::str(&self.t)])
	}
	fn from_sexp(s: &Sexp) -> R<GCoord> {
		let [g, a, v, c, t] = s.as_list()? else { return Err("coord arity".into()) };
		Ok(GCoord { g: g.as_string()?, a: a.as_string()?, v: v.as_string()?, c: as_opt_str(c)?, t: t.as_string()? })
	}
	/// the harness' own printer of the textual form `group:artifact:type[:classifier]:version` (the generator never renders its
	/// inputs with the `Display` of the code under test)
	fn text(&self) -> String {
		match &self.c { Some(c) => format!("{}:{}:{}:{}:{}", self.g, self.a, self.t, c, self.v), None => format!("{}:{}:{}:{}", self.g, self.a, self.t, self.v) }
	}
	fn real(&self) -> MavenCoord {
		MavenCoord { group: self.g.clone(), artifact: self.a.clone(), version: self.v.clone(), classifier: self.c.clone(), type_: self.t.clone() }
	}
}

fn coord_sexp(c: &MavenCoord) -> Sexp {
	Sexp::list(vec![Sexp::str(&c.group), Sexp::str(&c.artifact), Sexp::str(&c.version), opt_str(&c.classifier), Sexp::str(&c.type_)])
}

const SCOPES: [&str; 5] = ["compile", "runtime", "test", "system", "provided"];

fn scope_of_tag(t: &str) -> R<DependencyScope> {
	Ok(match t {
		"compile" => DependencyScope::Compile,
		"runtime" => DependencyScope::Runtime,
		"test" => DependencyScope::Test,
		"system" => DependencyScope::System,
		"provided" => DependencyScope::Provided,
		o => return Err(format!("scope tag {o}")),
	})
}

fn scope_tag(s: DependencyScope) -> &'static str {
	match s {
		DependencyScope::Compile => "compile",
		DependencyScope::Runtime => "runtime",
		DependencyScope::Test => "test",
		DependencyScope::System => "system",
		DependencyScope::Provided => "provided",
	}
}

fn found_sexp(f: &FoundDependency, full: bool) -> Sexp {
	let mut v = vec![Sexp::str(&f.resolver.name), Sexp::str(&f.resolver.maven), coord_sexp(&f.coord), Sexp::tag(scope_tag(f.scope))];
	if full {
		v.push(Sexp::str(&f.make_url()));
		v.push(Sexp::str(&f.to_string()));
	}
	Sexp::list(v)
}

fn found_from_sexp(s: &Sexp) -> R<(String, String, GCoord, DependencyScope)> {
	let [n, m, c, sc] = s.as_list()? else { return Err("found arity".into()) };
	Ok((n.as_string()?, m.as_string()?, GCoord::from_sexp(c)?, scope_of_tag(sc.as_atom()?)?))
}

// ------------------------------------------------------------------------------------------------ downloader, block_on

struct Mem(HashMap<String, String>);

impl Downloader for Mem {
	#[allow(clippy::manual_async_fn)]
	fn get_maven_pom(&self, url: &str) -> impl Future<Output = Result<Option<MavenPom>>> + Send {
		let r: Result<Option<MavenPom>> = match self.0.get(url) {
			None => Ok(None),
			Some(xml) => serde_xml_rs::from_str::<MavenPom>(xml).map(Some).map_err(|e| anyhow!("maven pom: {e}")),
		};
		async move { r }
	}
}

/// the futures of this crate never pend with an in-memory downloader
fn block_on<F: Future>(f: F) -> F::Output {
	let mut f = std::pin::pin!(f);
	let mut cx = std::task::Context::from_waker(std::task::Waker::noop());
	loop {
		if let std::task::Poll::Ready(x) = f.as_mut().poll(&mut cx) { return x; }
	}
}

fn run_resolve(universe: &[(String, Doc)], repos: &[(String, String)], roots: &[(GCoord, DependencyScope)]) -> Result<Vec<Sexp>> {
	let mut map = HashMap::new();
	for (url, doc) in universe {
		// a URL listed twice: the first entry counts (mirrors the association-list lookup of the model)
		map.entry(url.clone()).or_insert_with(|| match doc { Doc::Bad => "<project><modelVersion>4.0.0</modelVersion".to_owned(), Doc::Pom(p) => p.to_xml() });
	}
	let mem = Mem(map);
	let resolvers: Vec<Resolver> = repos.iter().map(|(n, m)| Resolver { name: Cow::Owned(n.clone()), maven: Cow::Owned(m.clone()) }).collect();
	let list: Vec<(MavenCoord, DependencyScope)> = roots.iter().map(|(c, s)| (c.real(), *s)).collect();
	let found = block_on(get_maven_dependencies(&mem, &resolvers, &list))?;
	Ok(found.iter().map(|f| found_sexp(f, true)).collect())
}

fn universe_from(s: &Sexp) -> R<Vec<(String, Doc)>> {
	s.as_list()?.iter().map(|e| {
		let [u, d] = e.as_list()? else { return Err("entry arity".into()) };
		Ok((u.as_string()?, Doc::from_sexp(d)?))
	}).collect()
}

fn repos_from(s: &Sexp) -> R<Vec<(String, String)>> {
	s.as_list()?.iter().map(|e| {
		let [n, m] = e.as_list()? else { return Err("repo arity".into()) };
		Ok((n.as_string()?, m.as_string()?))
	}).collect()
}

fn roots_from(s: &Sexp) -> R<Vec<(GCoord, DependencyScope)>> {
	s.as_list()?.iter().map(|e| {
		let [c, sc] = e.as_list()? else { return Err("root arity".into()) };
		Ok((GCoord::from_sexp(c)?, scope_of_tag(sc.as_atom()?)?))
	}).collect()
}

// ------------------------------------------------------------------------------------------------ label forests

fn tree_from(s: &Sexp) -> R<Tree<usize>> {
	let l = s.as_list()?;
	let (lbl, cs) = l.split_first().ok_or("empty tree")?;
	Ok(Tree { data: lbl.as_nat()?, children: cs.iter().map(tree_from).collect::<R<_>>()? })
}

fn forest_from(s: &Sexp) -> R<Vec<Tree<usize>>> { s.as_list()?.iter().map(tree_from).collect() }

fn tree_to(t: &Tree<usize>) -> Sexp {
	let mut v = vec![Sexp::nat(t.data)];
	v.extend(t.children.iter().map(tree_to));
	Sexp::list(v)
}

fn forest_to(f: &[Tree<usize>]) -> Sexp { Sexp::list(f.iter().map(tree_to).collect()) }

/// preorder numbering: (label, k)
fn number(t: &Tree<usize>, k: &mut usize) -> Tree<(usize, usize)> {
	let me = *k;
	*k += 1;
	Tree { data: (t.data, me), children: t.children.iter().map(|c| number(c, k)).collect() }
}

fn number_forest(f: &[Tree<usize>]) -> Vec<Tree<(usize, usize)>> {
	let mut k = 0;
	f.iter().map(|t| number(t, &mut k)).collect()
}

const SYN_REPO: &str = "invalid://syn.example/repo";

/// A universe whose dependency forest is exactly the given one: node number k with label l is artifact `a<l>`, version `<k>`.
fn synth(forest: &[Tree<(usize, usize)>]) -> (Vec<(String, Doc)>, Vec<(GCoord, DependencyScope)>) {
	fn coord(d: &(usize, usize)) -> GCoord {
		GCoord { g: "syn".into(), a: format!("a{}", d.0), v: format!("{}", d.1), c: None, t: "jar".into() }
	}
	fn go(t: &Tree<(usize, usize)>, out: &mut Vec<(String, Doc)>) {
		let c = coord(&t.data);
		let pom = GPom {
			mv: "4.0.0".into(), parent: None, g: Some(c.g.clone()), a: c.a.clone(), v: Some(c.v.clone()), packaging: None, dm: vec![],
			deps: t.children.iter().map(|ch| { let cc = coord(&ch.data); GDep { g: cc.g, a: cc.a, v: Some(cc.v), t: None, c: None, scope: None, optional: None } }).collect(),
		};
		out.push((format!("{SYN_REPO}/syn/{a}/{v}/{a}-{v}.pom", a = c.a, v = c.v), Doc::Pom(pom)));
		for ch in &t.children { go(ch, out); }
	}
	let mut u = Vec::new();
	for t in forest { go(t, &mut u); }
	(u, forest.iter().map(|t| (coord(&t.data), DependencyScope::Compile)).collect())
}

/// real `get_maven_dependencies` on the synthesised universe, answers as (label, k)
fn clean_up_via_universe(forest: &[Tree<usize>]) -> Result<Vec<(usize, usize)>> {
	let nf = number_forest(forest);
	let (u, roots) = synth(&nf);
	let mem = Mem(u.into_iter().map(|(k, d)| (k, match d { Doc::Pom(p) => p.to_xml(), Doc::Bad => String::new() })).collect());
	let resolvers = [Resolver::new("syn", SYN_REPO)];
	let list: Vec<(MavenCoord, DependencyScope)> = roots.iter().map(|(c, s)| (c.real(), *s)).collect();
	let found = block_on(get_maven_dependencies(&mem, &resolvers, &list))?;
	found.iter().map(|f| {
		let l = f.coord.artifact.strip_prefix('a').and_then(|x| x.parse().ok()).ok_or_else(|| anyhow!("label"))?;
		let k = f.coord.version.parse().map_err(|_| anyhow!("k"))?;
		Ok((l, k))
	}).collect()
}

/// nearest wins, first declaration breaks ties, losers' subtrees discarded — written level by level
fn nearest_reference(forest: &[Tree<(usize, usize)>]) -> Vec<(usize, usize)> {
	let mut seen = HashSet::new();
	let mut out = Vec::new();
	let mut considered: Vec<&Tree<(usize, usize)>> = forest.iter().collect();
	while !considered.is_empty() {
		let mut kept = Vec::new();
		for t in considered {
			if seen.insert(t.data.0) { out.push(t.data); kept.push(t); }
		}
		considered = kept.iter().flat_map(|t| t.children.iter()).collect();
	}
	out
}

// ------------------------------------------------------------------------------------------------ reference: Maven's rules
// Written from the rules (Spec/MavenPom.lean, Spec/MavenLevels.lean, Spec/MavenScope.lean), independently of the crate:
// plain recursion for effective POMs (no parent stack), a table literal for scopes, level-by-level mediation (no queue).

/// Maven's documented scope table (+ `system` like `provided`): MAVEN_TABLE[left][top], index = position in SCOPES
const MAVEN_TABLE: [[Option<&str>; 5]; 5] = [
	//            compile           runtime           test  system provided
	/* compile */ [Some("compile"), Some("runtime"), None, None, None],
	/* runtime */ [Some("runtime"), Some("runtime"), None, None, None],
	/* test    */ [Some("test"), Some("test"), None, None, None],
	/* system  */ [Some("system"), Some("system"), None, None, None],
	/* provided*/ [Some("provided"), Some("provided"), None, None, None],
];

fn scope_index(s: &str) -> usize { SCOPES.iter().position(|x| *x == s).expect("scope") }

#[derive(Clone, Debug, PartialEq)]
struct RDep { g: String, a: String, v: String, c: Option<String>, t: String, scope: Option<String>, optional: Option<bool> }

#[derive(Clone, Debug)]
struct REff { g: String, v: String, t: String, dm: Vec<RDep>, deps: Vec<RDep> }

/// `^(.*)-(\d{8}\.\d{6})-(\d+)$` ↦ `\1-SNAPSHOT`
fn ref_base_version(v: &str) -> String {
	let digits = |s: &str, n: Option<usize>| !s.is_empty() && s.bytes().all(|b| b.is_ascii_digit()) && n.is_none_or(|n| s.len() == n);
	let parts: Vec<&str> = v.split('-').collect();
	if parts.len() >= 3 {
		let build = parts[parts.len() - 1];
		let stamp = parts[parts.len() - 2];
		if digits(build, None) {
			if let Some((d, t)) = stamp.split_once('.') {
				if digits(d, Some(8)) && digits(t, Some(6)) {
					return format!("{}-SNAPSHOT", parts[..parts.len() - 2].join("-"));
				}
			}
		}
	}
	v.to_owned()
}

struct RefCtx<'a> { docs: HashMap<&'a str, &'a Doc>, repos: &'a [(String, String)] }

impl RefCtx<'_> {
	/// first repository serving the POM; an unparsable document or a wrong model version is an error
	fn find(&self, g: &str, a: &str, v: &str) -> Result<(usize, &GPom), ()> {
		for (i, (_, maven)) in self.repos.iter().enumerate() {
			let url = format!("{maven}{slash}{g}/{a}/{bv}/{a}-{v}.pom", slash = if maven.ends_with('/') { "" } else { "/" }, g = g.replace('.', "/"), bv = ref_base_version(v));
			match self.docs.get(url.as_str()) {
				None => continue,
				Some(Doc::Bad) => return Err(()),
				Some(Doc::Pom(p)) => return if p.mv == "4.0.0" { Ok((i, p)) } else { Err(()) },
			}
		}
		Err(())
	}

	fn effective(&self, g: &str, a: &str, v: &str, depth: usize) -> Result<(usize, REff), ()> {
		if depth > 200 { return Err(()); }
		let (repo, pom) = self.find(g, a, v)?;
		let parent = match &pom.parent {
			None => None,
			Some((pg, pa, pv)) => {
				let e = self.effective(pg, pa, pv, depth + 1)?.1;
				if e.t != "pom" { return Err(()); }
				Some(e)
			}
		};
		let group = pom.g.clone().or_else(|| parent.as_ref().map(|p| p.g.clone())).ok_or(())?;
		let version = pom.v.clone().or_else(|| parent.as_ref().map(|p| p.v.clone())).ok_or(())?;
		let mut dm = Vec::new();
		for x in &pom.dm {
			let xv = x.v.clone().ok_or(())?;
			let t = x.t.clone().unwrap_or_else(|| "jar".into());
			if x.scope.as_deref() == Some("import") {
				dm.extend(self.effective(&x.g, &x.a, &xv, depth + 1)?.1.dm);
			} else {
				let c = x.c.clone().or_else(|| default_classifier(&t));
				dm.push(RDep { g: x.g.clone(), a: x.a.clone(), v: xv, c, t, scope: x.scope.clone(), optional: x.optional });
			}
		}
		if let Some(p) = &parent { dm.extend(p.dm.iter().cloned()); }
		let mut deps = Vec::new();
		for x in &pom.deps {
			let t = x.t.clone().unwrap_or_else(|| "jar".into());
			let c = x.c.clone().or_else(|| default_classifier(&t));
			let managed = dm.iter().find(|m| m.g == x.g && m.a == x.a && m.c == c && m.t == t);
			let xv = x.v.clone().or_else(|| managed.map(|m| m.v.clone())).ok_or(())?;
			deps.push(RDep { g: x.g.clone(), a: x.a.clone(), v: xv, c, t, scope: x.scope.clone().or_else(|| managed.and_then(|m| m.scope.clone())),
				optional: x.optional.or_else(|| managed.and_then(|m| m.optional)) });
		}
		if let Some(p) = &parent { deps.extend(p.deps.iter().cloned()); }
		Ok((repo, REff { g: group, v: version, t: pom.packaging.clone().unwrap_or_else(|| "jar".into()), dm, deps }))
	}

	fn tree(&self, c: &GCoord, scope: &str, depth: usize) -> Result<Tree<(usize, GCoord, String)>, ()> {
		if depth > 200 { return Err(()); }
		let (repo, eff) = self.effective(&c.g, &c.a, &c.v, 0)?;
		let mut children = Vec::new();
		for d in &eff.deps {
			if d.optional == Some(true) { continue; }
			let declared = d.scope.as_deref().unwrap_or("compile");
			if let Some(s) = MAVEN_TABLE[scope_index(scope)][scope_index(declared)] {
				children.push(self.tree(&GCoord { g: d.g.clone(), a: d.a.clone(), v: d.v.clone(), c: d.c.clone(), t: d.t.clone() }, s, depth + 1)?);
			}
		}
		Ok(Tree { data: (repo, c.clone(), scope.to_owned()), children })
	}
}

/// the list `get_maven_dependencies` must return according to the rules: `(name maven coord scope)` entries
fn reference_resolve(universe: &[(String, Doc)], repos: &[(String, String)], roots: &[(GCoord, DependencyScope)]) -> Result<Vec<Sexp>, ()> {
	let mut docs = HashMap::new();
	for (url, doc) in universe { docs.entry(url.as_str()).or_insert(doc); }
	let ctx = RefCtx { docs, repos };
	let forest = roots.iter().map(|(c, s)| ctx.tree(c, scope_tag(*s), 0)).collect::<Result<Vec<_>, ()>>()?;
	// nearest wins, first declared breaks ties, losers' subtrees are never looked at
	let mut seen = HashSet::new();
	let mut out = Vec::new();
	let mut considered: Vec<&Tree<(usize, GCoord, String)>> = forest.iter().collect();
	while !considered.is_empty() {
		let mut kept = Vec::new();
		for t in considered {
			let (repo, c, scope) = &t.data;
			if seen.insert((c.g.clone(), c.a.clone(), c.c.clone(), c.t.clone())) {
				out.push(Sexp::list(vec![Sexp::str(&repos[*repo].0), Sexp::str(&repos[*repo].1), c.to_sexp(), Sexp::tag(scope)]));
				kept.push(t);
			}
		}
		considered = kept.iter().flat_map(|t| t.children.iter()).collect();
	}
	Ok(out)
}

/// `out` is obtained from `forest` by deleting whole subtrees
fn pruned(forest: &[Tree<usize>], out: &[Tree<usize>]) -> bool {
	match (forest, out) {
		(_, []) => true,
		([], _) => false,
		([t, ts @ ..], [u, us @ ..]) => (t.data == u.data && pruned(&t.children, &u.children) && pruned(ts, us)) || pruned(ts, out),
	}
}

/// level by level
fn level_order(forest: &[Tree<usize>]) -> Vec<usize> {
	let mut out = Vec::new();
	let mut level: Vec<&Tree<usize>> = forest.iter().collect();
	while !level.is_empty() {
		out.extend(level.iter().map(|t| t.data));
		level = level.iter().flat_map(|t| t.children.iter()).collect();
	}
	out
}

// ------------------------------------------------------------------------------------------------ exec

fn no_char(c: &GCoord, ch: char) -> bool {
	!c.g.contains(ch) && !c.a.contains(ch) && !c.v.contains(ch) && !c.t.contains(ch) && c.c.as_ref().is_none_or(|k| !k.contains(ch))
}

fn tr_list(s: &Sexp) -> &[Sexp] { s.as_list().expect("list") }

fn exec(op: &str, args: &[Sexp]) -> Ans {
	macro_rules! tr { ($e:expr) => { match $e { Ok(x) => x, Err(e) => return Ans::BadOp(e.to_string()) } } }
	match (op, args) {
		("mvn-resolve" | "oracle-nodup", [u, rs, roots]) => {
			let u = tr!(universe_from(u));
			let rs = tr!(repos_from(rs));
			let roots = tr!(roots_from(roots));
			let r = run_resolve(&u, &rs, &roots);
			if op == "mvn-resolve" {
				return match r { Ok(v) => Ans::Ok(Sexp::list(v)), Err(_) => Ans::err() };
			}
			let Ok(v) = r else { return Ans::out_of_domain() };
			let mut ids = HashSet::new();
			for f in &v {
				// (name maven (g a v (c) t) scope url display): id = (g, a, classifier, type)
				let l = tr!(f.as_list());
				let c = tr!(l[2].as_list());
				if !ids.insert(format!("{} {} {} {}", c[0], c[1], c[3], c[4])) { return Ans::fail("duplicate-id"); }
			}
			Ans::pass()
		}
		("oracle-resolve-spec", [u, rs, roots]) => {
			let u = tr!(universe_from(u));
			let rs = tr!(repos_from(rs));
			let roots = tr!(roots_from(roots));
			// the specification decides the domain (audit rule (ii)): where it defines the list, an error of the implementation is a failure
			let Ok(v) = run_resolve(&u, &rs, &roots) else {
				return if reference_resolve(&u, &rs, &roots).is_ok() { Ans::fail("impl-error") } else { Ans::out_of_domain() }
			};
			// (name maven coord scope) of every resolved dependency, in order
			let got: Vec<Sexp> = v.iter().map(|f| Sexp::list(tr_list(f)[..4].to_vec())).collect();
			match reference_resolve(&u, &rs, &roots) {
				Ok(want) => if want == got { Ans::pass() } else { Ans::fail("differs-from-spec") },
				Err(()) => Ans::fail("spec-undefined"),
			}
		}
		("oracle-mediation", [f]) => {
			let input = tr!(forest_from(f));
			let mut forest = input.clone();
			let mut set = forest.iter().flat_map(Tree::breadth_first).copied().collect::<HashSet<_>>();
			Forest::breadth_first_retain(&mut forest, |d| set.remove(d));
			if !pruned(&input, &forest) { return Ans::fail("not-a-pruning"); }
			let flat: Vec<usize> = Forest::into_breadth_first(forest).collect();
			if flat.iter().collect::<HashSet<_>>().len() != flat.len() { return Ans::fail("duplicate-id"); }
			let want: Vec<usize> = nearest_reference(&number_forest(&input)).into_iter().map(|(l, _)| l).collect();
			if flat == want { Ans::pass() } else { Ans::fail("not-nearest") }
		}
		("oracle-levelorder", [f]) => {
			let forest = tr!(forest_from(f));
			let want = level_order(&forest);
			let got: Vec<usize> = Forest::into_breadth_first(forest).collect();
			if got == want { Ans::pass() } else { Ans::fail("not-level-order") }
		}
		("retain-first", [f]) => {
			let mut forest = tr!(forest_from(f));
			// the five lines of `clean_up_dependencies`, on labels
			let mut set = forest.iter().flat_map(Tree::breadth_first).copied().collect::<HashSet<_>>();
			Forest::breadth_first_retain(&mut forest, |d| set.remove(d));
			Ans::Ok(forest_to(&forest))
		}
		("retain-alt", [f]) => {
			let mut forest = tr!(forest_from(f));
			let mut n = 0usize;
			Forest::breadth_first_retain(&mut forest, |_| { let keep = n % 2 == 0; n += 1; keep });
			Ans::Ok(forest_to(&forest))
		}
		("retain-mod", [f, k]) => {
			let mut forest = tr!(forest_from(f));
			let k = tr!(k.as_nat());
			if k == 0 { return Ans::BadOp("k".into()); }
			Forest::breadth_first_retain(&mut forest, |x| x % k != 0);
			Ans::Ok(forest_to(&forest))
		}
		("bfs", [f]) => {
			let forest = tr!(forest_from(f));
			Ans::Ok(Sexp::list(Forest::into_breadth_first(forest).map(Sexp::nat).collect()))
		}
		("clean-up", [f]) => {
			let forest = tr!(forest_from(f));
			match clean_up_via_universe(&forest) {
				Ok(v) => Ans::Ok(Sexp::list(v.into_iter().map(|(l, k)| Sexp::list(vec![Sexp::nat(l), Sexp::nat(k)])).collect())),
				Err(_) => Ans::err(),
			}
		}
		("oracle-nearest", [f]) => {
			let forest = tr!(forest_from(f));
			match clean_up_via_universe(&forest) {
				Ok(v) => if v == nearest_reference(&number_forest(&forest)) { Ans::pass() } else { Ans::fail("not-nearest") },
				Err(_) => Ans::fail("resolve-error"),
			}
		}
		("coord-parse", [s]) => {
			let s = tr!(s.as_string());
			match MavenCoord::from_str(&s) { Ok(c) => Ans::Ok(coord_sexp(&c)), Err(_) => Ans::err() }
		}
		("coord-print", [c]) => {
			let c = tr!(GCoord::from_sexp(c));
			Ans::Ok(Sexp::str(&c.real().to_string()))
		}
		("oracle-coord-rt", [c]) => {
			let c = tr!(GCoord::from_sexp(c));
			if !no_char(&c, ':') { return Ans::out_of_domain(); }
			let real = c.real();
			match MavenCoord::from_str(&real.to_string()) {
				Ok(back) => if back == real { Ans::pass() } else { Ans::fail("roundtrip") },
				Err(_) => Ans::fail("roundtrip"),
			}
		}
		("scope-table" | "oracle-scope-table", [a, b]) => {
			// observed through resolution: root with scope `a` depending on a leaf with declared scope `b`
			let a = tr!(a.as_atom()); let b = tr!(b.as_atom());
			let sa = tr!(scope_of_tag(a)); tr!(scope_of_tag(b));
			let leaf = GPom { mv: "4.0.0".into(), parent: None, g: Some("syn".into()), a: "leaf".into(), v: Some("1".into()), packaging: None, dm: vec![], deps: vec![] };
			let root = GPom { a: "root".into(), deps: vec![GDep { g: "syn".into(), a: "leaf".into(), v: Some("1".into()), t: None, c: None, scope: Some(b.to_owned()), optional: None }], ..leaf.clone() };
			let u = vec![
				(format!("{SYN_REPO}/syn/root/1/root-1.pom"), Doc::Pom(root)),
				(format!("{SYN_REPO}/syn/leaf/1/leaf-1.pom"), Doc::Pom(leaf)),
			];
			let roots = [(GCoord { g: "syn".into(), a: "root".into(), v: "1".into(), c: None, t: "jar".into() }, sa)];
			let v = tr!(run_resolve(&u, &[("syn".into(), SYN_REPO.into())], &roots));
			let cell: Option<Sexp> = match v.as_slice() {
				[_] => None,
				[_, leaf] => Some(tr!(leaf.as_list())[3].clone()),
				_ => return Ans::BadOp("scope-table shape".into()),
			};
			if op == "scope-table" {
				return Ans::Ok(Sexp::list(cell.into_iter().collect()));
			}
			let want = MAVEN_TABLE[scope_index(a)][scope_index(b)].map(Sexp::tag);
			if cell == want { Ans::pass() } else { Ans::fail("not-mavens-table") }
		}
		("scope-print", [a]) => Ans::Ok(Sexp::str(&tr!(scope_of_tag(tr!(a.as_atom()))).to_string())),
		("scope-parse", [s]) => {
			let s = tr!(s.as_string());
			match DependencyScope::from_str(&s) { Ok(x) => Ans::ok_tag(scope_tag(x)), Err(_) => Ans::err() }
		}
		("oracle-scope-rt", [a]) => {
			let sc = tr!(scope_of_tag(tr!(a.as_atom())));
			match DependencyScope::from_str(&sc.to_string()) { Ok(x) if x == sc => Ans::pass(), _ => Ans::fail("roundtrip") }
		}
		("found-print", [f]) => {
			let (n, m, c, sc) = tr!(found_from_sexp(f));
			let fd = FoundDependency { resolver: Resolver { name: Cow::Owned(n), maven: Cow::Owned(m) }, coord: c.real(), scope: sc };
			Ans::Ok(Sexp::list(vec![Sexp::str(&fd.to_string()), Sexp::str(&fd.make_url())]))
		}
		("found-parse", [s]) => {
			let s = tr!(s.as_string());
			match FoundDependency::try_from(s.as_str()) { Ok(f) => Ans::Ok(found_sexp(&f, false)), Err(_) => Ans::err() }
		}
		("oracle-found-rt", [f]) => {
			let (n, m, c, sc) = tr!(found_from_sexp(f));
			if !no_char(&c, ':') || c.text().contains(" @ ") { return Ans::out_of_domain(); }
			let fd = FoundDependency { resolver: Resolver { name: Cow::Owned(n), maven: Cow::Owned(m.clone()) }, coord: c.real(), scope: sc };
			let text = fd.to_string();
			match FoundDependency::try_from(text.as_str()) {
				Ok(back) => {
					let want = FoundDependency { resolver: Resolver { name: Cow::Owned(m.clone()), maven: Cow::Owned(m) }, coord: c.real(), scope: sc };
					if back == want { Ans::pass() } else { Ans::fail("roundtrip") }
				}
				Err(_) => Ans::fail("roundtrip"),
			}
		}
		_ => Ans::BadOp("unknown op".into()),
	}
}

// ------------------------------------------------------------------------------------------------ generators

#[derive(Clone, Copy, PartialEq, Debug)]
enum Kind { Lib, Parent, Bom }

struct Node {
	kind: Kind,
	g: String,
	a: String,
	v: String,
	/// directory name of the version (`-SNAPSHOT` base of a timestamped version)
	vdir: String,
	parent: Option<usize>,
	chain: usize,
	/// ids (g, a, classifier, type) with an entry in the effective dependency management
	managed: Vec<(String, String, Option<String>, String)>,
	/// ids of the effective dependency list (own + inherited)
	dep_ids: Vec<(String, String, Option<String>, String)>,
	/// rough size of the full dependency tree below this node
	weight: u64,
	pom: GPom,
}

fn default_classifier(t: &str) -> Option<String> {
	match t { "test-jar" => Some("tests".into()), "ejb-client" => Some("client".into()), "java-source" => Some("sources".into()), "javadoc" => Some("javadoc".into()), _ => None }
}

fn id_of(g: &str, a: &str, t: &Option<String>, c: &Option<String>) -> (String, String, Option<String>, String) {
	let ty = t.clone().unwrap_or_else(|| "jar".into());
	(g.to_owned(), a.to_owned(), c.clone().or_else(|| default_classifier(&ty)), ty)
}

/// (type, classifier) as written in a dependency
fn pick_variant(r: &mut Rng) -> (Option<String>, Option<String>) {
	match r.below(100) {
		0..=64 => (None, None),
		65..=72 => (Some("test-jar".into()), None),
		73..=80 => (None, Some("sources".into())),
		81..=85 => (Some("jar".into()), None),
		86..=89 => (Some("war".into()), None),
		90..=92 => (Some("pom".into()), None),
		93..=95 => (Some("java-source".into()), Some("sources".into())),
		96..=97 => (Some("zip".into()), None),
		_ => (Some("ejb-client".into()), Some("cli".into())),
	}
}

fn pick_scope(r: &mut Rng) -> Option<String> {
	if r.chance(2, 5) { None } else {
		Some((*r.pick(&["compile", "compile", "compile", "runtime", "runtime", "runtime", "test", "system", "provided"])).to_owned())
	}
}

fn pom_url(maven: &str, n: &Node) -> String {
	format!("{maven}{slash}{g}/{a}/{vd}/{a}-{v}.pom", slash = if maven.ends_with('/') { "" } else { "/" }, g = n.g.replace('.', "/"), a = n.a, vd = n.vdir, v = n.v)
}

struct Universe {
	entries: Vec<(String, Doc)>,
	repos: Vec<(String, String)>,
	roots: Vec<(GCoord, String)>,
	weight: u64,
}

fn gen_universe(r: &mut Rng, stats: &mut fvh::run::Stats) -> Universe {
	let n = r.range(2, 15);
	let groups = ["org.ex", "com.x.y", "solo"];
	let n_names = r.range(1, 1 + n / 2);
	let mut version_counter: HashMap<String, usize> = HashMap::new();
	let faults = r.chance(1, 4); // a quarter of the universes may contain a defect (missing POM, bad document, ...)
	let fault = |r: &mut Rng, num: usize| faults && r.chance(num, 100);
	// --- identities
	let mut nodes: Vec<Node> = Vec::new();
	for i in 0..n {
		let kind = if i == 0 { Kind::Lib } else { match r.below(100) { 0..=64 => Kind::Lib, 65..=84 => Kind::Parent, _ => Kind::Bom } };
		let (g, a) = match kind {
			Kind::Lib => { let k = r.below(n_names); (groups[k % groups.len()].to_owned(), format!("lib{k}")) }
			Kind::Parent => ((*r.pick(&groups)).to_owned(), format!("par{i}")),
			Kind::Bom => ((*r.pick(&groups)).to_owned(), format!("bom{i}")),
		};
		let cnt = version_counter.entry(format!("{g}:{a}")).or_insert(0);
		*cnt += 1;
		let base = format!("{}.{}", *cnt, r.below(3));
		let (v, vdir) = match r.below(12) {
			0 => (format!("{base}-20230713.025619-{}", r.range(1, 40)), format!("{base}-SNAPSHOT")),
			1 => (format!("{base}-SNAPSHOT"), format!("{base}-SNAPSHOT")),
			2 => (format!("{base}-2023071.3025619-1"), format!("{base}-2023071.3025619-1")),
			_ => (base.clone(), base.clone()),
		};
		nodes.push(Node { kind, g, a, v, vdir, parent: None, chain: 0, managed: vec![], dep_ids: vec![], weight: 1,
			pom: GPom { mv: "4.0.0".into(), parent: None, g: None, a: String::new(), v: None, packaging: None, dm: vec![], deps: vec![] } });
	}
	// --- contents, highest index first: every reference goes to a higher index (acyclic)
	for i in (0..n).rev() {
		let higher = |nodes: &Vec<Node>, k: Kind| -> Vec<usize> { (i + 1..n).filter(|&j| nodes[j].kind == k).collect() };
		let kind = nodes[i].kind;
		// parent
		let cand: Vec<usize> = higher(&nodes, Kind::Parent).into_iter().filter(|&j| nodes[j].chain < 3).collect();
		let mut parent = None;
		if !cand.is_empty() && r.chance(if kind == Kind::Bom { 1 } else { 5 }, 10) {
			let p = *r.pick(&cand);
			parent = Some(p);
			stats.hit("pom:with-parent");
		}
		let mut managed = Vec::new();
		let mut dep_ids = Vec::new();
		let mut chain = 0;
		if let Some(p) = parent { chain = nodes[p].chain + 1; dep_ids = nodes[p].dep_ids.clone(); }
		stats.hit(&format!("parent-chain:{chain}"));
		// own managed entries first, then imports (the supported order)
		let libs = higher(&nodes, Kind::Lib);
		let boms = higher(&nodes, Kind::Bom);
		let mut dm = Vec::new();
		let n_managed = match kind { Kind::Lib => *r.pick(&[0, 0, 0, 1, 2]), _ => r.below(4) };
		for _ in 0..n_managed {
			if libs.is_empty() { break; }
			let m = *r.pick(&libs);
			let (t, c) = pick_variant(r);
			let id = id_of(&nodes[m].g, &nodes[m].a, &t, &c);
			dm.push(GDep { g: nodes[m].g.clone(), a: nodes[m].a.clone(), v: if fault(r, 3) { None } else { Some(nodes[m].v.clone()) }, t, c,
				scope: if r.chance(1, 2) { pick_scope(r) } else { None }, optional: if r.chance(1, 10) { Some(r.chance(1, 2)) } else { None } });
			managed.push(id);
			stats.hit("managed:entry");
		}
		let n_imports = if boms.is_empty() { 0 } else { *r.pick(&[0, 0, 0, 1, 1, 2]) };
		for _ in 0..n_imports {
			let b = *r.pick(&boms);
			dm.push(GDep { g: nodes[b].g.clone(), a: nodes[b].a.clone(), v: Some(nodes[b].v.clone()), t: Some("pom".into()), c: None, scope: Some("import".into()), optional: None });
			managed.extend(nodes[b].managed.iter().cloned());
			stats.hit("managed:import");
		}
		if let Some(p) = parent { managed.extend(nodes[p].managed.iter().cloned()); }
		// dependencies
		let mut deps = Vec::new();
		let mut weight: u64 = 1 + parent.map_or(0, |p| nodes[p].weight - 1);
		let n_deps = match kind { Kind::Lib => *r.pick(&[0, 1, 2, 2, 3, 3, 4]), Kind::Parent => *r.pick(&[0, 0, 1, 2]), Kind::Bom => 0 };
		for _ in 0..n_deps {
			let use_managed = !managed.is_empty() && r.chance(2, 5);
			let (g, a, t, c, v) = if use_managed {
				let id = r.pick(&managed).clone();
				// write the id back as (type, classifier) the way a POM author would
				let t = if id.3 == "jar" && r.chance(2, 3) { None } else { Some(id.3.clone()) };
				let c = if id.2 == default_classifier(&id.3) && r.chance(1, 2) { None } else { id.2.clone() };
				let v = if r.chance(1, 6) { libs.iter().find(|&&m| nodes[m].g == id.0 && nodes[m].a == id.1).map(|&m| nodes[m].v.clone()) } else { None };
				(id.0, id.1, t, c, v)
			} else {
				if libs.is_empty() { continue; }
				let m = *r.pick(&libs);
				let (t, c) = pick_variant(r);
				let v = if fault(r, 3) { None } else if fault(r, 3) { Some("9.9-missing".to_owned()) } else { Some(nodes[m].v.clone()) };
				(nodes[m].g.clone(), nodes[m].a.clone(), t, c, v)
			};
			let id = id_of(&g, &a, &t, &c);
			if dep_ids.contains(&id) { stats.hit("dep:skipped-redeclaration"); continue; }
			dep_ids.push(id);
			let scope = pick_scope(r);
			let optional = match r.below(14) { 0 => Some(true), 1 => Some(false), _ => None };
			stats.hit(if v.is_none() { "dep:version-from-management" } else { "dep:explicit-version" });
			stats.hit(&format!("dep:scope:{}", scope.as_deref().unwrap_or("omitted")));
			if optional == Some(true) { stats.hit("dep:optional"); }
			if t.is_some() || c.is_some() { stats.hit("dep:classifier-or-type"); }
			// weight: the heaviest version of that artifact the dependency may end up with
			let w = libs.iter().filter(|&&m| nodes[m].g == g && nodes[m].a == a).map(|&m| nodes[m].weight).max().unwrap_or(1);
			weight = weight.saturating_add(w);
			deps.push(GDep { g, a, v, t, c, scope, optional });
		}
		let node = &mut nodes[i];
		let has_parent = parent.is_some();
		node.pom = GPom {
			mv: if fault(r, 2) { "4.0".into() } else { "4.0.0".into() },
			parent: None,
			g: if (has_parent && r.chance(3, 10)) || fault(r, 2) { None } else { Some(node.g.clone()) },
			a: node.a.clone(),
			v: if (has_parent && r.chance(2, 10)) || fault(r, 2) { None } else { Some(node.v.clone()) },
			packaging: match kind {
				Kind::Lib => (*r.pick(&[None, None, Some("jar"), Some("bundle"), Some("war")])).map(|s: &str| s.to_owned()),
				Kind::Parent => if fault(r, 6) { None } else { Some("pom".into()) },
				Kind::Bom => Some("pom".into()),
			},
			dm, deps,
		};
		node.parent = parent;
		node.chain = chain;
		node.managed = managed;
		node.dep_ids = dep_ids;
		node.weight = weight;
	}
	for i in 0..n {
		if let Some(p) = nodes[i].parent {
			let pc = (nodes[p].g.clone(), nodes[p].a.clone(), nodes[p].v.clone());
			nodes[i].pom.parent = Some(pc);
		}
	}
	// --- repositories serving (mostly) disjoint subsets
	let n_repos = r.range(1, 3);
	let repos: Vec<(String, String)> = (0..n_repos).map(|k| (format!("repo{k}"), format!("invalid://r{k}.example/maven{}", if r.chance(1, 2) { "/" } else { "" }))).collect();
	stats.hit(&format!("repos:{n_repos}"));
	let mut entries = Vec::new();
	for node in &nodes {
		if fault(r, 3) { stats.hit("fault:missing-pom"); continue; }
		let home = r.below(n_repos);
		let doc = if fault(r, 2) { stats.hit("fault:bad-document"); Doc::Bad } else { Doc::Pom(node.pom.clone()) };
		entries.push((pom_url(&repos[home].1, node), doc));
		if n_repos > 1 && r.chance(1, 12) {
			// the same coordinate served by a second repository with different content: the first repository in the list wins
			let other = (home + 1 + r.below(n_repos - 1)) % n_repos;
			let mut decoy = node.pom.clone();
			decoy.deps.clear();
			entries.push((pom_url(&repos[other].1, node), Doc::Pom(decoy)));
			stats.hit("repos:overlap");
		}
	}
	r.shuffle(&mut entries);
	// --- roots
	let lib_idx: Vec<usize> = (0..n).filter(|&j| nodes[j].kind == Kind::Lib).collect();
	let n_roots = r.range(1, 4);
	let mut roots = Vec::new();
	let mut total = 0u64;
	for _ in 0..n_roots {
		let span = r.range(1, lib_idx.len());
		let j = lib_idx[r.below(span)];
		let (t, c) = pick_variant(r);
		let id = id_of(&nodes[j].g, &nodes[j].a, &t, &c);
		roots.push((GCoord { g: id.0, a: id.1, v: nodes[j].v.clone(), c: id.2, t: id.3 }, (*r.pick(&["compile", "compile", "compile", "runtime", "runtime", "test", "system", "provided"])).to_owned()));
		total = total.saturating_add(nodes[j].weight);
	}
	stats.hit(&format!("artifacts:{}", match n { 2..=4 => "2-4", 5..=8 => "5-8", 9..=12 => "9-12", _ => "13-15" }));
	if faults { stats.hit("universe:may-contain-fault"); }
	Universe { entries, repos, roots, weight: total }
}

fn gen_tree(r: &mut Rng, depth: usize, budget: &mut usize, labels: usize) -> Tree<usize> {
	let data = r.below(labels);
	let mut children = Vec::new();
	if depth > 0 {
		let k = *r.pick(&[0, 0, 1, 1, 2, 2, 3]);
		for _ in 0..k {
			if *budget == 0 { break; }
			*budget -= 1;
			children.push(gen_tree(r, depth - 1, budget, labels));
		}
	}
	Tree { data, children }
}

fn gen_forest(r: &mut Rng) -> Vec<Tree<usize>> {
	let labels = r.range(1, 6);
	let mut budget = r.range(0, 24);
	let roots = r.range(0, 4);
	let depth = r.range(0, 5);
	(0..roots).map(|_| gen_tree(r, depth, &mut budget, labels)).collect()
}

/// all forests with exactly `n` nodes and labels below `labels`
fn all_forests(n: usize, labels: usize) -> Vec<Vec<Tree<usize>>> {
	if n == 0 { return vec![vec![]]; }
	let mut out = Vec::new();
	// first tree has k nodes (1..=n): root label, its children = forest of k-1 nodes; rest = forest of n-k nodes
	for k in 1..=n {
		let kids = all_forests(k - 1, labels);
		let rest = all_forests(n - k, labels);
		for l in 0..labels {
			for ks in &kids {
				for rs in &rest {
					let mut f = vec![Tree { data: l, children: ks.clone() }];
					f.extend(rs.iter().cloned());
					out.push(f);
				}
			}
		}
	}
	out
}

fn rand_text(r: &mut Rng, pieces: &[&str], max: usize) -> String {
	(0..r.below(max + 1)).map(|_| *r.pick(pieces)).collect()
}

fn gen_field(r: &mut Rng, wild: bool) -> String {
	if wild { rand_text(r, &["a", "b", ".", "-", "1", ":", "@", " ", " @ ", "é", "x9"], 4) } else {
		let s = rand_text(r, &["a", "lib", ".", "-", "1", "x", "20230713.025619", "SNAPSHOT", "0"], 4);
		if s.is_empty() { "z".into() } else { s }
	}
}

fn gen_version(r: &mut Rng) -> String {
	match r.below(8) {
		0 => "1.10.0-20230713.025619-1".into(),
		1 => format!("v-{}-{}", rand_text(r, &["20230909.205406", "2023090.9205406", "20230909x205406", "2023.0909205406", "20230909.20540", "a0230909.205406"], 1), rand_text(r, &["1", "28", "x", "", "2x"], 1)),
		2 => rand_text(r, &["-", "1", "20230909.205406", "12345678.123456", ".", "a"], 6),
		3 => "1.0-SNAPSHOT".into(),
		// two or more dots between the hyphens: the stamp is split at its FIRST dot (mutation sweep, coord.rs `split_once('.')`)
		4 => format!("1.{}-{}-{}", r.below(3), r.pick(&STAMPS_DOTS), r.pick(&["1", "28", "007"])),
		_ => gen_field(r, false),
	}
}

/// stamps around `\d{8}.\d{6}` with no, one, two and three dots, dots at the ends, and the digit groups of the right length on
/// either side of the first / the last dot
const STAMPS_DOTS: [&str; 14] = ["20230713.025619", "20230713025619", "20230713.0256.19", "2023.0713.025619", "20230713.025619.", ".20230713.025619",
	"20230713..025619", "20230713.025619.123456", "12345678.20230713.025619", "20230713.02561.9", "2.0230713.025619", "20230713.025.619.1", "........", "20230713.025619.0"];

fn gen_coord(r: &mut Rng, wild: bool) -> GCoord {
	GCoord {
		g: gen_field(r, wild), a: gen_field(r, wild), v: if r.chance(1, 2) { gen_version(r) } else { gen_field(r, wild) },
		c: if r.chance(1, 3) { Some(gen_field(r, wild)) } else { None },
		t: if r.chance(1, 2) { (*r.pick(&["jar", "pom", "war", "test-jar", "maven-plugin", "ejb", "ejb-client", "java-source", "javadoc", "bundle", "ear", "rar", "zip"])).to_owned() } else { gen_field(r, wild) },
	}
}

fn gen(r: &mut Rng, tier: Tier, out: &mut Out) {
	let thorough = tier == Tier::Thorough;
	// --- 1. POM universes
	let rounds = if thorough { 12000 } else { 500 };
	let mut made = 0;
	while made < rounds {
		let u = gen_universe(r, out.stats);
		if u.weight > 400 { out.stats.hit("universe:rejected-too-big"); continue; }
		made += 1;
		let us = Sexp::list(u.entries.iter().map(|(k, d)| Sexp::list(vec![Sexp::str(k), d.to_sexp()])).collect());
		let rs = Sexp::list(u.repos.iter().map(|(n, m)| Sexp::list(vec![Sexp::str(n), Sexp::str(m)])).collect());
		let roots = Sexp::list(u.roots.iter().map(|(c, s)| Sexp::list(vec![c.to_sexp(), Sexp::tag(s)])).collect());
		out.stats.hit(&format!("roots:{}", u.roots.len()));
		out.op("mvn-resolve", &[us.clone(), rs.clone(), roots.clone()]);
		out.op("oracle-nodup", &[us.clone(), rs.clone(), roots.clone()]);
		out.op("oracle-resolve-spec", &[us, rs, roots]);
	}
	// --- 1b. every scope combination over two levels: root (a) -> mid (declared b, or omitted and managed as b) -> leaf (declared c),
	//         with and without the optional flag
	let lib = |a: &str, deps: Vec<GDep>, dm: Vec<GDep>| GPom { mv: "4.0.0".into(), parent: None, g: Some("sc".into()), a: a.into(), v: Some("1".into()), packaging: None, dm, deps };
	let dep = |a: &str, scope: Option<&str>, v: bool, optional: Option<bool>| GDep { g: "sc".into(), a: a.into(), v: if v { Some("1".into()) } else { None }, t: None, c: None, scope: scope.map(|s| s.to_owned()), optional };
	let mut variant = 0usize;
	for a in SCOPES {
		for b in [None, Some("compile"), Some("runtime"), Some("test"), Some("system"), Some("provided")] {
			for c in [None, Some("compile"), Some("runtime"), Some("test"), Some("system"), Some("provided")] {
				variant += 1;
				// every third universe declares mid's scope only in the root's dependency management; every seventh marks leaf optional
				let managed = variant % 3 == 0;
				let optional = if variant % 7 == 0 { Some(true) } else if variant % 7 == 1 { Some(false) } else { None };
				let root = if managed { lib("root", vec![dep("mid", None, false, None)], vec![dep("mid", b, true, None)]) } else { lib("root", vec![dep("mid", b, true, None)], vec![]) };
				let mid = lib("mid", vec![dep("leaf", c, true, optional)], vec![]);
				let leaf = lib("leaf", vec![], vec![]);
				let maven = "invalid://sc.example/m";
				let us = Sexp::list([("root", root), ("mid", mid), ("leaf", leaf)].into_iter().map(|(n, p)| Sexp::list(vec![Sexp::str(&format!("{maven}/sc/{n}/1/{n}-1.pom")), Doc::Pom(p).to_sexp()])).collect());
				let rs = Sexp::list(vec![Sexp::list(vec![Sexp::str("sc"), Sexp::str(maven)])]);
				let roots = Sexp::list(vec![Sexp::list(vec![GCoord { g: "sc".into(), a: "root".into(), v: "1".into(), c: None, t: "jar".into() }.to_sexp(), Sexp::tag(a)])]);
				out.op("mvn-resolve", &[us.clone(), rs.clone(), roots.clone()]);
				out.op("oracle-resolve-spec", &[us, rs, roots]);
				out.stats.hit("scope-chain:exhaustive");
			}
		}
	}
	// --- 1c. managed variants of ONE artifact (DESIGN 11.1c (vii); seed C19-I was missed): the root's dependency management holds two
	//         entries for `lib` that differ only in (type, classifier) - every ordered pair of five spellings, different versions and
	//         scopes - and the root depends on `lib` in each of the five spellings with version and scope omitted: the entry that fills
	//         them in is the one with the same (group, artifact, classifier, type), whatever precedes it
	let variants: [(Option<&str>, Option<&str>); 5] = [(None, None), (None, Some("sources")), (Some("test-jar"), None), (Some("test-jar"), Some("tests")), (Some("jar"), Some("x"))];
	let vdep = |v: Option<&str>, (t, c): (Option<&str>, Option<&str>), scope: Option<&str>| GDep { g: "sc".into(), a: "lib".into(), v: v.map(|s| s.to_owned()),
		t: t.map(|s| s.to_owned()), c: c.map(|s| s.to_owned()), scope: scope.map(|s| s.to_owned()), optional: None };
	for (i, m1) in variants.iter().enumerate() {
		for (j, m2) in variants.iter().enumerate() {
			if i == j { continue; }
			for d in variants.iter() {
				let root = lib("root", vec![vdep(None, *d, None)], vec![vdep(Some("2"), *m1, Some("runtime")), vdep(Some("1"), *m2, Some("compile"))]);
				let maven = "invalid://sc.example/m";
				let mut docs = vec![(format!("{maven}/sc/root/1/root-1.pom"), Doc::Pom(root))];
				for v in ["1", "2"] {
					let mut p = lib("lib", vec![], vec![]);
					p.v = Some(v.to_owned());
					docs.push((format!("{maven}/sc/lib/{v}/lib-{v}.pom"), Doc::Pom(p)));
				}
				let us = Sexp::list(docs.iter().map(|(n, p)| Sexp::list(vec![Sexp::str(n), p.to_sexp()])).collect());
				let rs = Sexp::list(vec![Sexp::list(vec![Sexp::str("sc"), Sexp::str(maven)])]);
				let roots = Sexp::list(vec![Sexp::list(vec![GCoord { g: "sc".into(), a: "root".into(), v: "1".into(), c: None, t: "jar".into() }.to_sexp(), Sexp::tag("compile")])]);
				out.op("mvn-resolve", &[us.clone(), rs.clone(), roots.clone()]);
				out.op("oracle-resolve-spec", &[us, rs, roots]);
				out.stats.hit("managed-variants:exhaustive");
			}
		}
	}
	// --- 2. label forests: mediation, retain order, traversal
	let rounds = if thorough { 20000 } else { 600 };
	for i in 0..rounds {
		let f = gen_forest(r);
		let nodes: usize = f.iter().map(|t| Tree::breadth_first(t).count()).sum();
		out.stats.hit(&format!("forest-nodes:{}", match nodes { 0 => "0", 1..=4 => "1-4", 5..=12 => "5-12", _ => "13+" }));
		let fs = forest_to(&f);
		out.op("retain-first", &[fs.clone()]);
		out.op("oracle-mediation", &[fs.clone()]);
		out.op("bfs", &[fs.clone()]);
		out.op("oracle-levelorder", &[fs.clone()]);
		match i % 3 {
			0 => out.op("retain-alt", &[fs.clone()]),
			1 => out.op("retain-mod", &[fs.clone(), Sexp::nat(r.range(2, 4))]),
			_ => {}
		}
		if i % 2 == 0 || thorough {
			out.op("clean-up", &[fs.clone()]);
			out.op("oracle-nearest", &[fs]);
		}
	}
	// exhaustive small forests
	let (max_n2, max_n3) = if thorough { (6, 5) } else { (5, 4) };
	for n in 0..=max_n2 {
		for f in all_forests(n, 2) {
			out.op("retain-first", &[forest_to(&f)]);
			out.op("oracle-mediation", &[forest_to(&f)]);
			if n <= 3 || thorough { out.op("oracle-nearest", &[forest_to(&f)]); }
		}
	}
	for n in 1..=max_n3 {
		for f in all_forests(n, 3) { out.op("retain-first", &[forest_to(&f)]); }
	}
	out.stats.hit("exhaustive:small-forests");
	// --- 3. scopes
	for a in SCOPES {
		for b in SCOPES {
			out.op("scope-table", &[Sexp::tag(a), Sexp::tag(b)]);
			out.op("oracle-scope-table", &[Sexp::tag(a), Sexp::tag(b)]);
		}
		out.op("scope-print", &[Sexp::tag(a)]);
		out.op("oracle-scope-rt", &[Sexp::tag(a)]);
		out.op("scope-parse", &[Sexp::str(a)]);
	}
	for s in ["", "import", "Compile", "compile ", " test", "tests", "COMPILE", "runtime\n", "provide", "système"] {
		out.op("scope-parse", &[Sexp::str(s)]);
	}
	// --- 4. coordinates: exhaustive short strings over {a, :}, then random valid / malformed
	let max_len = if thorough { 10 } else { 7 };
	for len in 0..=max_len {
		for code in 0..(1u32 << len) {
			let s: String = (0..len).map(|i| if code >> i & 1 == 1 { ':' } else { 'a' }).collect();
			out.op("coord-parse", &[Sexp::str(&s)]);
		}
	}
	// timestamped versions: every stamp spelling (dots!) x build number spelling; `found-print` shows the base version in the URL
	for stamp in STAMPS_DOTS {
		for build in ["1", "28", "", "x"] {
			for prefix in ["1.0", "a-1.0", ""] {
				let c = GCoord { g: "org.example".into(), a: "lib".into(), v: format!("{prefix}-{stamp}-{build}"), c: None, t: "jar".into() };
				out.stats.hit("coord:stamp-family");
				out.op("found-print", &[Sexp::list(vec![Sexp::str("repo"), Sexp::str("invalid://h.example/m"), c.to_sexp(), Sexp::tag("compile")])]);
				out.op("coord-print", &[c.to_sexp()]);
				out.op("oracle-coord-rt", &[c.to_sexp()]);
			}
		}
	}
	let rounds = if thorough { 20000 } else { 700 };
	for i in 0..rounds {
		let wild = i % 4 == 0;
		let c = gen_coord(r, wild);
		out.stats.hit(if wild { "coord:wild" } else { "coord:plain" });
		out.op("coord-print", &[c.to_sexp()]);
		out.op("oracle-coord-rt", &[c.to_sexp()]);
		let mut text = c.text();
		if r.chance(1, 3) {
			// malformed / perturbed strings
			match r.below(4) {
				0 => text.push_str(":extra"),
				1 => text = text.replacen(':', "", 1),
				2 => text = text.replace(':', "::"),
				_ => text = rand_text(r, &["a", ":", "b", "1.0", "jar", " "], 8),
			}
			out.stats.hit("coord:perturbed-text");
		}
		out.op("coord-parse", &[Sexp::str(&text)]);
		// found dependencies
		let sc = *r.pick(&SCOPES);
		let maven = if r.chance(1, 5) { rand_text(r, &["a", " @ ", ":", "/", "x"], 4) } else { format!("invalid://h{}.example/m{}", r.below(3), if r.chance(1, 2) { "/" } else { "" }) };
		let f = Sexp::list(vec![Sexp::str("repo"), Sexp::str(&maven), c.to_sexp(), Sexp::tag(sc)]);
		out.op("found-print", &[f.clone()]);
		out.op("oracle-found-rt", &[f]);
		let mut ftext = format!("{}:{} @ {}", c.text(), sc, maven);
		if r.chance(1, 3) {
			match r.below(5) {
				0 => ftext = ftext.replacen(" @ ", "@", 1),
				1 => ftext = ftext.replacen(" @ ", " @  @ ", 1),
				2 => ftext = ftext.replace(&format!(":{sc}"), ":import"),
				3 => ftext = ftext.replace(&format!(":{sc}"), ""),
				_ => ftext = rand_text(r, &["a", ":", " @ ", "@", " ", "compile", "test", "x"], 8),
			}
			out.stats.hit("found:perturbed-text");
		}
		out.op("found-parse", &[Sexp::str(&ftext)]);
	}
}

fn main() { main_for(&gen, &exec) }
