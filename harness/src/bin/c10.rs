//! C10: dummy-mapping filters. `Mappings::remove_dummy(namespace)` and
//! `MappingsDiff::insert_dummy_and_contract_inner_names()`.
use indexmap::IndexMap;
use java_string::JavaStr;
use quill::tree::mappings::*;
use quill::tree::mappings_diff::*;
use fvh::dummydiffcodec as dc;
use fvh::mapcodec::{self, from_sexp, to_sexp, M};
use fvh::mapgen::{gen_mappings, GClass, GMappings, GMember, GParam, MapCfg};
use fvh::rng::Rng;
use fvh::run::{main_for, Ans, Out, Tier};
use fvh::sexp::Sexp;
use fvh::with_n;

// ------------------------------------------------------------------------------------------------ generators

const P_NAMES: &[Option<&str>] = &[None, Some("p_1"), Some("p_"), Some("ap_1"), Some("xp_"), Some("P_1"), Some("p"), Some("px"), Some("param")];
const F_NAMES: &[Option<&str>] = &[None, Some("f_1"), Some("f_"), Some("af_1"), Some("xf_"), Some("F_1"), Some("f"), Some("fx"), Some("field")];
const M_NAMES: &[Option<&str>] = &[None, Some("m_1"), Some("m_"), Some("<init>"), Some("<clinit>"), Some("am_1"), Some("xm_"),
	Some("<init>x"), Some("x<init>"), Some("<clinit"), Some("clinit"), Some("M_1"), Some("m"), Some("mx"), Some("method")];
const C_NAMES: &[Option<&str>] = &[None, Some("C_1"), Some("C_"), Some("net/minecraft/unmapped/C_1"), Some("net/minecraft/unmapped/C_"),
	Some("aC_1"), Some("xC_"), Some("net/minecraft/unmapped/c_1"), Some("net/minecraft/unmapped/"), Some("xnet/minecraft/unmapped/C_1"),
	Some("net/minecraft/unmapped/x/C_1"), Some("net/minecraft/unmapped/C"), Some("net/minecraft/unmapped/Cx1"), Some("C"), Some("Cx"), Some("a/C_1"), Some("Foo"), Some("p/Foo$C_1")];
const DOCS3: &[Option<&str>] = &[None, Some("doc"), Some("")];
const DOCS2: &[Option<&str>] = &[None, Some("doc")];

fn o(x: Option<&str>) -> Option<String> { x.map(|s| s.to_owned()) }

fn kind_of(name: Option<&str>, prefixes: &[&str], exact: &[&str]) -> &'static str {
	match name {
		None => "absent",
		Some(n) if exact.contains(&n) || prefixes.iter().any(|p| n.starts_with(p)) => "placeholder",
		Some(n) if prefixes.iter().any(|p| n.contains(p)) || exact.iter().any(|e| n.contains(e)) => "near-miss",
		_ => "real",
	}
}

fn param(index: usize, src: Option<&str>, dst: Option<&str>, doc: Option<&str>) -> GParam {
	GParam { index, names: vec![o(src), o(dst)], doc: o(doc) }
}
fn field(src: &str, dst: Option<&str>, doc: Option<&str>) -> GMember {
	GMember { desc: "I".into(), names: vec![Some(src.into()), o(dst)], doc: o(doc), params: vec![] }
}
fn method(src: &str, dst: Option<&str>, doc: Option<&str>, params: Vec<GParam>) -> GMember {
	GMember { desc: "(II)V".into(), names: vec![Some(src.into()), o(dst)], doc: o(doc), params }
}
fn class(src: &str, dst: Option<&str>, doc: Option<&str>, fields: Vec<GMember>, methods: Vec<GMember>) -> GClass {
	GClass { names: vec![Some(src.into()), o(dst)], doc: o(doc), fields, methods }
}
fn set(classes: Vec<GClass>) -> GMappings {
	GMappings { ns: vec!["official".into(), "named".into()], doc: None, classes }
}

fn emit_remove(out: &mut Out, g: &GMappings, ns: &str) {
	let m = g.to_sexp();
	let nss = Sexp::str(ns);
	out.op("remove-dummy", &[m.clone(), nss.clone()]);
	out.op("oracle-remove-spec", &[m.clone(), nss.clone()]);
	out.op("oracle-remove-idem", &[m, nss]);
}

/// the full truth table (name kind x comment x children x name present) at every level, one mapping set per row
fn remove_truth_table(out: &mut Out) {
	// parameter rows, below a method that is kept anyway and below one that lives or dies with its parameters
	for dst in P_NAMES { for doc in DOCS3 { for src in [None, Some("p_9")] {
		for (msrc, mdst) in [("run", Some("run")), ("m_5", Some("m_5"))] {
			let p = param(1, src, *dst, *doc);
			let g = set(vec![class("Foo", Some("Foo"), None, vec![], vec![method(msrc, mdst, None, vec![p])])]);
			out.stats.hit(&format!("tt-param:{}:{}", kind_of(*dst, &["p_"], &[]), if doc.is_some() { "doc" } else { "nodoc" }));
			emit_remove(out, &g, "named");
		}
	}}}
	// field rows, below a kept class and below a class that lives or dies with its members
	for dst in F_NAMES { for doc in DOCS3 { for src in ["f_9", "count"] {
		for (csrc, cdst) in [("Foo", Some("Foo")), ("C_5", Some("C_5"))] {
			let g = set(vec![class(csrc, cdst, None, vec![field(src, *dst, *doc)], vec![])]);
			out.stats.hit(&format!("tt-field:{}:{}", kind_of(*dst, &["f_"], &[]), if doc.is_some() { "doc" } else { "nodoc" }));
			emit_remove(out, &g, "named");
		}
	}}}
	// method rows
	let param_cfgs: [(&str, Vec<GParam>); 4] = [
		("none", vec![]),
		("all-dropped", vec![param(0, None, Some("p_0"), None)]),
		("one-kept", vec![param(0, None, Some("p_0"), None), param(2, None, Some("size"), None)]),
		("kept-by-doc", vec![param(3, Some("p_3"), Some("p_3"), Some("d"))]),
	];
	for dst in M_NAMES { for doc in DOCS2 { for (pn, ps) in &param_cfgs { for src in ["m_9", "<init>", "go"] {
		for (csrc, cdst) in [("Foo", Some("Foo")), ("C_5", Some("C_5"))] {
			let g = set(vec![class(csrc, cdst, None, vec![], vec![method(src, *dst, *doc, ps.clone())])]);
			out.stats.hit(&format!("tt-method:{}:{}:params-{}", kind_of(*dst, &["m_"], &["<init>", "<clinit>"]), if doc.is_some() { "doc" } else { "nodoc" }, pn));
			emit_remove(out, &g, "named");
		}
	}}}}
	// class rows
	let field_cfgs: [(&str, Vec<GMember>); 3] = [
		("none", vec![]),
		("all-dropped", vec![field("f_1", Some("f_1"), None)]),
		("one-kept", vec![field("f_1", Some("f_1"), None), field("f_2", Some("count"), None)]),
	];
	let method_cfgs: [(&str, Vec<GMember>); 4] = [
		("none", vec![]),
		("all-dropped", vec![method("m_1", Some("m_1"), None, vec![param(0, None, Some("p_0"), None)]), method("<init>", Some("<init>"), None, vec![])]),
		("kept-by-param", vec![method("m_1", Some("m_1"), None, vec![param(0, None, Some("idx"), None)])]),
		("real", vec![method("m_2", Some("tick"), None, vec![])]),
	];
	for dst in C_NAMES { for doc in DOCS2 { for (fnm, fs) in &field_cfgs { for (mn, ms) in &method_cfgs { for src in ["C_7", "net/minecraft/unmapped/C_8", "Bar"] {
		// a second, unrelated class keeps the set non-empty and exposes order changes
		let other = class("Zed", Some("Zed"), None, vec![], vec![]);
		let c = class(src, *dst, *doc, fs.clone(), ms.clone());
		let g = set(if dst.is_some_and(|d| d.len() % 2 == 0) { vec![other, c] } else { vec![c, other] });
		out.stats.hit(&format!("tt-class:{}:{}:fields-{}:methods-{}", kind_of(*dst, &["C_", "net/minecraft/unmapped/C_"], &[]),
			if doc.is_some() { "doc" } else { "nodoc" }, fnm, mn));
		emit_remove(out, &g, "named");
	}}}}}
}

/// swap some names of a random mapping set for near misses that merely contain / end with a placeholder prefix
fn sprinkle_near_misses(r: &mut Rng, g: &mut GMappings) {
	const NEAR_C: &[&str] = &["xC_", "a/C_", "aC_1", "net/minecraft/unmapped/c_1", "xnet/minecraft/unmapped/C_1", "net/minecraft/unmapped", "net/minecraft/unmapped/C", "net/minecraft/unmapped/Cx", "C", "C1"];
	const NEAR_F: &[&str] = &["xf_", "af_1", "_f_", "f", "fx"];
	const NEAR_M: &[&str] = &["xm_", "am_1", "<init", "init>", "<init>>", "<<clinit>", "m", "mx"];
	const NEAR_P: &[&str] = &["xp_", "ap_1", "_p_", "p", "px"];
	fn swap(r: &mut Rng, names: &mut [Option<String>], pool: &[&str]) {
		for n in names.iter_mut().skip(1) { if n.is_some() && r.chance(1, 5) { *n = Some((*r.pick(pool)).to_owned()); } }
	}
	for c in &mut g.classes {
		swap(r, &mut c.names, NEAR_C);
		for f in &mut c.fields { swap(r, &mut f.names, NEAR_F); }
		for m in &mut c.methods {
			swap(r, &mut m.names, NEAR_M);
			for p in &mut m.params { swap(r, &mut p.names, NEAR_P); }
		}
	}
}

// ---- diffs

#[derive(Clone, Debug)]
enum GAct { None, Add(String), Remove(String), Edit(String, String) }
impl GAct {
	fn to_sexp(&self) -> Sexp {
		match self {
			GAct::None => Sexp::list(vec![Sexp::tag("n")]),
			GAct::Add(b) => Sexp::list(vec![Sexp::tag("a"), Sexp::str(b)]),
			GAct::Remove(a) => Sexp::list(vec![Sexp::tag("r"), Sexp::str(a)]),
			GAct::Edit(a, b) => Sexp::list(vec![Sexp::tag("e"), Sexp::str(a), Sexp::str(b)]),
		}
	}
}
#[derive(Clone, Debug)]
struct GPDiff { index: usize, info: GAct, doc: GAct }
#[derive(Clone, Debug)]
struct GFDiff { name: String, desc: String, info: GAct, doc: GAct }
#[derive(Clone, Debug)]
struct GMDiff { name: String, desc: String, info: GAct, doc: GAct, params: Vec<GPDiff> }
#[derive(Clone, Debug)]
struct GCDiff { key: String, info: GAct, doc: GAct, fields: Vec<GFDiff>, methods: Vec<GMDiff> }
#[derive(Clone, Debug)]
struct GDiff { info: GAct, doc: GAct, classes: Vec<GCDiff> }

impl GDiff {
	fn to_sexp(&self) -> Sexp {
		Sexp::list(vec![self.info.to_sexp(), self.doc.to_sexp(), Sexp::list(self.classes.iter().map(|c| Sexp::list(vec![
			Sexp::str(&c.key), c.info.to_sexp(), c.doc.to_sexp(),
			Sexp::list(c.fields.iter().map(|f| Sexp::list(vec![Sexp::str(&f.name), Sexp::str(&f.desc), f.info.to_sexp(), f.doc.to_sexp()])).collect()),
			Sexp::list(c.methods.iter().map(|m| Sexp::list(vec![Sexp::str(&m.name), Sexp::str(&m.desc), m.info.to_sexp(), m.doc.to_sexp(),
				Sexp::list(m.params.iter().map(|p| Sexp::list(vec![Sexp::nat(p.index), p.info.to_sexp(), p.doc.to_sexp()])).collect())])).collect()),
		])).collect())])
	}
}

/// what the generator believes the placeholder of a class key is (only used to aim at the interesting cases)
fn guess_class_placeholder(key: &str) -> String {
	match key.rsplit_once('$') { Some((p, i)) if !p.is_empty() && !i.is_empty() => i.to_owned(), _ => key.to_owned() }
}

const INFO_KINDS: &[&str] = &["none", "add", "remove-ph", "remove-other", "edit-same", "edit-from-ph", "edit-to-ph", "edit"];
fn info_of(kind: &str, ph: &str, other: &str) -> GAct {
	match kind {
		"none" => GAct::None,
		"add" => GAct::Add(other.to_owned()),
		"remove-ph" => GAct::Remove(ph.to_owned()),
		"remove-other" => GAct::Remove(other.to_owned()),
		"edit-same" => GAct::Edit(other.to_owned(), other.to_owned()),
		"edit-from-ph" => GAct::Edit(ph.to_owned(), other.to_owned()),
		"edit-to-ph" => GAct::Edit(other.to_owned(), ph.to_owned()),
		_ => GAct::Edit(other.to_owned(), format!("{other}2")),
	}
}
const DOC_KINDS: &[&str] = &["none", "add", "remove", "edit-same", "edit"];
fn doc_of(kind: &str) -> GAct {
	match kind {
		"none" => GAct::None,
		"add" => GAct::Add("new doc".into()),
		"remove" => GAct::Remove("old doc".into()),
		"edit-same" => GAct::Edit("same".into(), "same".into()),
		_ => GAct::Edit("old".into(), "new\nline".into()),
	}
}

fn emit_insert(out: &mut Out, d: &GDiff) {
	let s = d.to_sexp();
	out.op("insert-dummy", &[s.clone()]);
	out.op("oracle-insert-spec", &[s.clone()]);
	out.op("oracle-insert-idem", &[s]);
}

const INDICES: &[usize] = &[0, 1, 2, 7, 9, 10, 99, 100, 255, 65536, 4294967296, usize::MAX];
const CLASS_KEYS: &[&str] = &["A", "p/B", "p/B$Inner", "p/B$Inner$Deep", "C_1", "net/minecraft/unmapped/C_2", "p/C_3$C_4", "x$", "$y", "a/$z", "q/r$1", "a$b/c"];

fn insert_truth_table(out: &mut Out) {
	let wrap_f = |f: GFDiff| GDiff { info: GAct::None, doc: GAct::None, classes: vec![GCDiff { key: "p/K".into(), info: GAct::None, doc: GAct::None, fields: vec![f], methods: vec![] }] };
	let wrap_m = |m: GMDiff| GDiff { info: GAct::None, doc: GAct::None, classes: vec![GCDiff { key: "p/K".into(), info: GAct::None, doc: GAct::None, fields: vec![], methods: vec![m] }] };
	for ik in INFO_KINDS { for dk in DOC_KINDS {
		out.stats.hit(&format!("tt-leaf:{ik}:doc-{dk}"));
		emit_insert(out, &wrap_f(GFDiff { name: "f_7".into(), desc: "I".into(), info: info_of(ik, "f_7", "count"), doc: doc_of(dk) }));
		for (n, idx) in INDICES.iter().enumerate() {
			if n >= 3 && (ik.len() + dk.len() + n) % 4 != 0 { continue; }
			let ph = format!("p_{idx}");
			let p = GPDiff { index: *idx, info: info_of(ik, &ph, "size"), doc: doc_of(dk) };
			// below a method that has nothing else going for it: the parameter decides about the method too
			emit_insert(out, &wrap_m(GMDiff { name: "m_3".into(), desc: "(I)V".into(), info: GAct::None, doc: GAct::None, params: vec![p] }));
		}
	}}
	let p_drop = GPDiff { index: 0, info: GAct::Add("x".into()), doc: GAct::None };
	let p_keep = GPDiff { index: 1, info: GAct::Remove("x".into()), doc: GAct::None };
	let param_cfgs: [(&str, Vec<GPDiff>); 3] = [("none", vec![]), ("all-dropped", vec![p_drop.clone()]), ("one-kept", vec![p_drop.clone(), p_keep.clone()])];
	for ik in INFO_KINDS { for dk in ["none", "add", "edit-same"] { for (pn, ps) in &param_cfgs { for name in ["m_3", "<init>"] {
		out.stats.hit(&format!("tt-method:{ik}:doc-{dk}:params-{pn}"));
		emit_insert(out, &wrap_m(GMDiff { name: name.into(), desc: "(I)V".into(), info: info_of(ik, name, "tick"), doc: doc_of(dk), params: ps.clone() }));
	}}}}
	let f_drop = GFDiff { name: "f_1".into(), desc: "I".into(), info: GAct::Add("x".into()), doc: GAct::Add("d".into()) };
	let f_keep = GFDiff { name: "f_2".into(), desc: "I".into(), info: GAct::Remove("x".into()), doc: GAct::None };
	let field_cfgs: [(&str, Vec<GFDiff>); 3] = [("none", vec![]), ("all-dropped", vec![f_drop.clone()]), ("one-kept", vec![f_drop.clone(), f_keep.clone()])];
	let m_drop = GMDiff { name: "m_1".into(), desc: "()V".into(), info: GAct::Add("x".into()), doc: GAct::None, params: vec![p_drop.clone()] };
	let m_keep = GMDiff { name: "m_2".into(), desc: "()V".into(), info: GAct::Add("x".into()), doc: GAct::None, params: vec![p_keep.clone()] };
	let method_cfgs: [(&str, Vec<GMDiff>); 3] = [("none", vec![]), ("all-dropped", vec![m_drop.clone()]), ("kept-add", vec![m_drop.clone(), m_keep.clone()])];
	for key in CLASS_KEYS { for ik in INFO_KINDS { for dk in ["none", "remove", "edit-same"] { for (fnm, fs) in &field_cfgs { for (mn, ms) in &method_cfgs {
		let ph = guess_class_placeholder(key);
		out.stats.hit(&format!("tt-class:{ik}:doc-{dk}:fields-{fnm}:methods-{mn}"));
		let c = GCDiff { key: (*key).into(), info: info_of(ik, &ph, "p/Other"), doc: doc_of(dk), fields: fs.clone(), methods: ms.clone() };
		let other = GCDiff { key: "zz/Other".into(), info: GAct::Edit("a".into(), "b".into()), doc: GAct::None, fields: vec![], methods: vec![] };
		emit_insert(out, &GDiff { info: GAct::None, doc: GAct::None, classes: if key.len() % 2 == 0 { vec![other, c] } else { vec![c, other] } });
	}}}}}
}

fn rand_info(r: &mut Rng, ph: &str, pool: &[&str], out: &mut Out, level: &str) -> GAct {
	let kind = *r.pick(INFO_KINDS);
	out.stats.hit(&format!("rand-{level}-info:{kind}"));
	info_of(kind, ph, *r.pick(pool))
}
fn rand_doc(r: &mut Rng) -> GAct {
	if r.chance(1, 2) { GAct::None } else { doc_of(*r.pick(DOC_KINDS)) }
}

fn rand_diff(r: &mut Rng, out: &mut Out) -> GDiff {
	let mut classes: Vec<GCDiff> = Vec::new();
	for _ in 0..r.below(5) {
		let key = if r.chance(3, 4) { (*r.pick(CLASS_KEYS)).to_owned() } else { format!("{}{}", r.pick(&["", "p/", "a/b/"]), r.pick(&["Foo", "Bar$Baz", "C_9", "Q$1$2"])) };
		if classes.iter().any(|c| c.key == key) { continue; }
		let ph = guess_class_placeholder(&key);
		let mut fields: Vec<GFDiff> = Vec::new();
		for _ in 0..r.below(4) {
			let name = (*r.pick(&["f_1", "f_2", "count", "x"])).to_owned();
			let desc = (*r.pick(&["I", "Ljava/lang/Object;", "[J"])).to_owned();
			if fields.iter().any(|f| f.name == name && f.desc == desc) { continue; }
			let info = rand_info(r, &name, &["count", "f_1", "total", "x"], out, "field");
			fields.push(GFDiff { name, desc, info, doc: rand_doc(r) });
		}
		let mut methods: Vec<GMDiff> = Vec::new();
		for _ in 0..r.below(4) {
			let name = (*r.pick(&["m_1", "m_2", "<init>", "<clinit>", "run"])).to_owned();
			let desc = (*r.pick(&["()V", "(I)V", "(Lp/B;J)I"])).to_owned();
			if methods.iter().any(|m| m.name == name && m.desc == desc) { continue; }
			let mut params: Vec<GPDiff> = Vec::new();
			for _ in 0..r.below(4) {
				let index = *r.pick(INDICES);
				if params.iter().any(|p| p.index == index) { continue; }
				let info = rand_info(r, &format!("p_{index}"), &["size", "p_1", "p_0", "idx"], out, "param");
				params.push(GPDiff { index, info, doc: rand_doc(r) });
			}
			let info = rand_info(r, &name, &["run", "m_1", "<init>", "tick"], out, "method");
			methods.push(GMDiff { name, desc, info, doc: rand_doc(r), params });
		}
		let info = rand_info(r, &ph, &["p/Other", "Inner", "C_1", "p/B$Inner"], out, "class");
		classes.push(GCDiff { key, info, doc: rand_doc(r), fields, methods });
	}
	let info = match r.below(4) { 0 => GAct::Edit("named".into(), "other".into()), 1 => GAct::Add("x".into()), 2 => GAct::Remove("y".into()), _ => GAct::None };
	out.stats.hit(&format!("rand-diff-classes:{}", classes.len()));
	GDiff { info, doc: rand_doc(r), classes }
}

fn gen(r: &mut Rng, tier: Tier, out: &mut Out) {
	remove_truth_table(out);
	insert_truth_table(out);
	// edge stream: unknown / odd namespace names, empty sets, the first namespace
	let edge = set(vec![class("C_1", Some("C_1"), None, vec![field("f_1", Some("f_1"), None)], vec![]), class("Keep", Some("Keep"), None, vec![], vec![])]);
	for ns in ["", "nope", "Named", "named ", "name", "namedx", " named", "official", "named", "intermediary"] {
		out.stats.hit("edge:namespace-name");
		emit_remove(out, &edge, ns);
		emit_remove(out, &set(vec![]), ns);
	}
	emit_insert(out, &GDiff { info: GAct::None, doc: GAct::None, classes: vec![] });
	for idx in INDICES { out.op("placeholder", &[Sexp::tag("param"), Sexp::nat(*idx)]); }
	for key in CLASS_KEYS { out.op("placeholder", &[Sexp::tag("class"), Sexp::str(key)]); }

	let rounds = if tier == Tier::Thorough { 24000 } else { 1200 };
	for _ in 0..rounds {
		let n = r.range(2, 4);
		let mut cfg = MapCfg::basic(n);
		cfg.top_doc_pct = 30;
		cfg.dummy_names = !r.chance(1, 8);
		cfg.max_classes = r.range(1, 5);
		cfg.max_members = r.range(0, 4);
		cfg.max_params = r.range(0, 3);
		cfg.nest_depth = r.range(0, 2);
		cfg.doc_pct = *r.pick(&[0, 10, 25, 50]);
		cfg.absent_pct = *r.pick(&[0, 10, 30, 60]);
		cfg.unicode = r.chance(1, 8);
		let mut g = gen_mappings(r, &cfg);
		for _ in 0..3 { if !g.classes.is_empty() { break; } g = gen_mappings(r, &cfg); }
		if r.chance(1, 2) { sprinkle_near_misses(r, &mut g); }
		let ns = if r.chance(1, 15) { "nope".to_owned() } else { g.ns[if r.chance(1, 6) { 0 } else { r.range(1, n - 1) }].clone() };
		out.stats.hit(&format!("rand-map-n:{n}"));
		out.stats.hit(&format!("rand-map-classes:{}", g.classes.len()));
		out.stats.hit(if ns == "nope" { "rand-map-ns:unknown" } else if ns == g.ns[0] { "rand-map-ns:first" } else { "rand-map-ns:other" });
		emit_remove(out, &g, &ns);
		let d = rand_diff(r, out);
		emit_insert(out, &d);
	}
}

// ------------------------------------------------------------------------------------------------ independent spec (Rust)

fn cps(s: &JavaStr) -> Vec<u32> { s.chars().map(|c| c.as_u32()).collect() }
fn is_prefix(p: &str, s: &[u32]) -> bool {
	let p: Vec<u32> = p.chars().map(|c| c as u32).collect();
	s.len() >= p.len() && s[..p.len()] == p[..]
}
fn equals(p: &str, s: &[u32]) -> bool { p.chars().map(|c| c as u32).eq(s.iter().copied()) }
fn name_at<const N: usize, T: AsRef<JavaStr>>(names: &quill::tree::names::Names<N, T>, ns: usize) -> Option<Vec<u32>> {
	let arr: &[Option<T>; N] = names.into();
	arr[ns].as_ref().map(|t| cps(t.as_ref()))
}

fn survives_param<const N: usize>(ns: usize, p: &ParameterNowodeMapping<N>) -> bool {
	p.javadoc.is_some() || !name_at(&p.info.names, ns).is_some_and(|n| is_prefix("p_", &n))
}
fn survives_field<const N: usize>(ns: usize, f: &FieldNowodeMapping<N>) -> bool {
	f.javadoc.is_some() || !name_at(&f.info.names, ns).is_some_and(|n| is_prefix("f_", &n))
}
fn survives_method<const N: usize>(ns: usize, m: &MethodNowodeMapping<N>) -> bool {
	m.javadoc.is_some() || m.parameters.values().any(|p| survives_param(ns, p)) ||
		!name_at(&m.info.names, ns).is_some_and(|n| is_prefix("m_", &n) || equals("<init>", &n) || equals("<clinit>", &n))
}
fn survives_class<const N: usize>(ns: usize, c: &ClassNowodeMapping<N>) -> bool {
	c.javadoc.is_some() || c.fields.values().any(|f| survives_field(ns, f)) || c.methods.values().any(|m| survives_method(ns, m)) ||
		!name_at(&c.info.names, ns).is_some_and(|n| is_prefix("C_", &n) || is_prefix("net/minecraft/unmapped/C_", &n))
}
fn remove_spec<const N: usize>(m: &M<N>, ns: usize) -> M<N> {
	let mut out: M<N> = Mappings { info: m.info.clone(), classes: IndexMap::new(), javadoc: m.javadoc.clone() };
	for (k, c) in &m.classes {
		if !survives_class(ns, c) { continue; }
		let mut nc = ClassNowodeMapping { info: c.info.clone(), fields: IndexMap::new(), methods: IndexMap::new(), javadoc: c.javadoc.clone() };
		for (fk, f) in &c.fields { if survives_field(ns, f) { nc.fields.insert(fk.clone(), f.clone()); } }
		for (mk, me) in &c.methods {
			if !survives_method(ns, me) { continue; }
			let mut nm = MethodNowodeMapping { info: me.info.clone(), parameters: IndexMap::new(), javadoc: me.javadoc.clone() };
			for (pk, p) in &me.parameters { if survives_param(ns, p) { nm.parameters.insert(pk.clone(), p.clone()); } }
			nc.methods.insert(mk.clone(), nm);
		}
		out.classes.insert(k.clone(), nc);
	}
	out
}

/// the verdict of `oracle-remove-spec`, check by check as `removeSpecVerdict` in lean/FeatherModel/Driver/C10.lean
fn remove_spec_verdict(input: &Sexp, result: &Sexp, expected: &Sexp) -> Ans {
	let part = |s: &Sexp, i: usize| s.as_list().ok().and_then(|l| l.get(i).cloned()).unwrap_or(Sexp::list(vec![]));
	let classes = |s: &Sexp| -> Vec<Sexp> { part(s, 2).as_list().map(|l| l.to_vec()).unwrap_or_default() };
	let proj = |s: &Sexp, f: &dyn Fn(&Sexp) -> Sexp| -> Vec<Sexp> { classes(s).iter().map(f).collect() };
	if part(result, 0) != part(input, 0) || part(result, 1) != part(input, 1) { return Ans::fail("frame"); }
	let key = |c: &Sexp| part(c, 0);
	if proj(result, &key) != proj(expected, &key) { return Ans::fail("class-survivors"); }
	let head = |c: &Sexp| Sexp::list(vec![part(c, 1), part(c, 2)]);
	if proj(result, &head) != proj(expected, &head) { return Ans::fail("class-changed"); }
	let fields = |c: &Sexp| part(c, 3);
	if proj(result, &fields) != proj(expected, &fields) { return Ans::fail("fields"); }
	let mkeys = |c: &Sexp| Sexp::list(part(c, 4).as_list().map(|l| l.iter().map(|m| Sexp::list(vec![part(m, 0), part(m, 1)])).collect()).unwrap_or_default());
	if proj(result, &mkeys) != proj(expected, &mkeys) { return Ans::fail("method-survivors"); }
	if result != expected { return Ans::fail("methods"); }
	Ans::pass()
}

// ---- insert_dummy

fn act_is_diff<T: PartialEq>(a: &Action<T>) -> bool {
	match a { Action::None => false, Action::Add(_) | Action::Remove(_) => true, Action::Edit(a, b) => a != b }
}
/// truth table for a field / parameter: resulting info if the node is kept
fn leaf_rule<T: PartialEq + Clone>(ph: T, info: &Action<T>, doc: &Action<JavadocMapping>) -> Option<Action<T>> {
	match info {
		Action::None => if act_is_diff(doc) { Some(Action::None) } else { None },
		Action::Add(_) => None,
		Action::Remove(a) => if *a != ph || act_is_diff(doc) { Some(Action::Edit(a.clone(), ph)) } else { None },
		Action::Edit(a, b) => if a != b || act_is_diff(doc) { Some(Action::Edit(a.clone(), b.clone())) } else { None },
	}
}
/// truth table for a method / class: `children` = a child remains
fn parent_rule<T: PartialEq + Clone>(ph: T, info: &Action<T>, doc: &Action<JavadocMapping>, children: bool) -> Option<Action<T>> {
	match info {
		Action::None => if act_is_diff(doc) || children { Some(Action::None) } else { None },
		Action::Add(b) => if children { Some(Action::Add(b.clone())) } else { None },
		Action::Remove(a) => if *a != ph || act_is_diff(doc) || children { Some(Action::Edit(a.clone(), ph)) } else { None },
		Action::Edit(a, b) => if a != b || act_is_diff(doc) || children { Some(Action::Edit(a.clone(), b.clone())) } else { None },
	}
}
fn decimal(mut n: usize) -> String {
	if n == 0 { return "0".into(); }
	let mut digits = Vec::new();
	while n > 0 { digits.push(b'0' + (n % 10) as u8); n /= 10; }
	digits.reverse();
	String::from_utf8(digits).unwrap_or_default()
}
fn class_placeholder(key: &JavaStr) -> java_string::JavaString {
	// the simple inner name: text after the last `$`, provided both sides are usable (non-empty, parent not ending in `/`, inner without `/`)
	let s = cps(key);
	let back = |v: &[u32]| { let mut o = java_string::JavaString::new(); for c in v { if let Some(c) = java_string::JavaCodePoint::from_u32(*c) { o.push_java(c); } } o };
	if let Some(pos) = s.iter().rposition(|c| *c == '$' as u32) {
		let (p, i) = (&s[..pos], &s[pos + 1..]);
		if !p.is_empty() && !i.is_empty() && p.last() != Some(&('/' as u32)) && !i.contains(&('/' as u32)) { return back(i); }
	}
	back(&s)
}
fn insert_spec(d: &MappingsDiff) -> MappingsDiff {
	let mut out = MappingsDiff { info: d.info.clone(), classes: IndexMap::new(), javadoc: d.javadoc.clone() };
	for (k, c) in &d.classes {
		let mut fields = IndexMap::new();
		for (fk, f) in &c.fields {
			if let Some(info) = leaf_rule(fk.name.clone(), &f.info, &f.javadoc) { fields.insert(fk.clone(), FieldNowodeDiff { info, javadoc: f.javadoc.clone() }); }
		}
		let mut methods = IndexMap::new();
		for (mk, m) in &c.methods {
			let mut params = IndexMap::new();
			for (pk, p) in &m.parameters {
				let ph = mapcodec::pname(java_string::JavaString::from(format!("p_{}", decimal(pk.index))));
				if let Some(info) = leaf_rule(ph, &p.info, &p.javadoc) { params.insert(pk.clone(), ParameterNowodeDiff { info, javadoc: p.javadoc.clone() }); }
			}
			if let Some(info) = parent_rule(mk.name.clone(), &m.info, &m.javadoc, !params.is_empty()) {
				methods.insert(mk.clone(), MethodNowodeDiff { info, parameters: params, javadoc: m.javadoc.clone() });
			}
		}
		let ph = mapcodec::cn(class_placeholder(k.as_inner()));
		if let Some(info) = parent_rule(ph, &c.info, &c.javadoc, !fields.is_empty() || !methods.is_empty()) {
			out.classes.insert(k.clone(), ClassNowodeDiff { info, fields, methods, javadoc: c.javadoc.clone() });
		}
	}
	out
}

// ------------------------------------------------------------------------------------------------ executor

fn exec(op: &str, args: &[Sexp]) -> Ans {
	macro_rules! tr { ($e:expr) => { match $e { Ok(x) => x, Err(e) => return Ans::BadOp(e) } } }
	match (op, args) {
		("remove-dummy" | "oracle-remove-idem" | "oracle-remove-spec", [ms, ns]) => {
			let n = tr!(mapcodec::ns_count(ms));
			let ns = tr!(ns.as_string());
			with_n!(n, N, {
				let m: M<N> = tr!(from_sexp(ms));
				match op {
					"remove-dummy" => match m.remove_dummy(&ns) { Ok(r) => Ans::Ok(to_sexp(&r)), Err(_) => Ans::err() },
					"oracle-remove-idem" => {
						let Ok(r) = m.remove_dummy(&ns) else { return Ans::out_of_domain() };
						let once = to_sexp(&r);
						match r.remove_dummy(&ns) {
							Ok(r2) => if to_sexp(&r2) == once { Ans::pass() } else { Ans::fail("differs") },
							Err(_) => Ans::fail("second-err"),
						}
					}
					_ => {
						let names: &[String; N] = (&m.info.namespaces).into();
						let nsi = names.iter().position(|x| *x == ns);
						match (nsi, m.clone().remove_dummy(&ns)) {
							(Some(nsi), Ok(r)) => remove_spec_verdict(ms, &to_sexp(&r), &to_sexp(&remove_spec(&m, nsi))),
							(None, Err(_)) => Ans::out_of_domain(),
							_ => Ans::fail("namespace"),
						}
					}
				}
			}, Ans::BadOp("n".into()))
		}
		("insert-dummy", [d]) => {
			let d = tr!(dc::from_sexp(d));
			match d.insert_dummy_and_contract_inner_names() { Ok(r) => Ans::Ok(dc::to_sexp(&r)), Err(_) => Ans::err() }
		}
		("oracle-insert-idem", [d]) => {
			let d = tr!(dc::from_sexp(d));
			let Ok(r) = d.insert_dummy_and_contract_inner_names() else { return Ans::fail("first-err") };
			let once = dc::to_sexp(&r);
			match r.insert_dummy_and_contract_inner_names() {
				Ok(r2) => if dc::to_sexp(&r2) == once { Ans::pass() } else { Ans::fail("differs") },
				Err(_) => Ans::fail("second-err"),
			}
		}
		("oracle-insert-spec", [ds]) => {
			let d = tr!(dc::from_sexp(ds));
			let exp = insert_spec(&d);
			let Ok(r) = d.clone().insert_dummy_and_contract_inner_names() else { return Ans::fail("err") };
			if dc::to_sexp(&MappingsDiff { info: r.info.clone(), classes: IndexMap::new(), javadoc: r.javadoc.clone() })
				!= dc::to_sexp(&MappingsDiff { info: d.info.clone(), classes: IndexMap::new(), javadoc: d.javadoc.clone() }) { return Ans::fail("frame"); }
			if r.classes.keys().collect::<Vec<_>>() != exp.classes.keys().collect::<Vec<_>>() { return Ans::fail("class-kept"); }
			if r.classes.values().map(|c| &c.info).collect::<Vec<_>>() != exp.classes.values().map(|c| &c.info).collect::<Vec<_>>() { return Ans::fail("class-info"); }
			if dc::to_sexp(&r) == dc::to_sexp(&exp) { Ans::pass() } else { Ans::fail("members") }
		}
		("placeholder", [kind, k]) => {
			// observed through the public entry point: a lone `Remove` is rewritten to `Edit(old, placeholder)`
			match tr!(kind.as_atom()) {
				"param" => {
					let idx = tr!(k.as_nat());
					let d = GDiff { info: GAct::None, doc: GAct::None, classes: vec![GCDiff { key: "K".into(), info: GAct::None, doc: GAct::None, fields: vec![],
						methods: vec![GMDiff { name: "m".into(), desc: "()V".into(), info: GAct::None, doc: GAct::None,
							params: vec![GPDiff { index: idx, info: GAct::Remove("old".into()), doc: GAct::None }] }] }] };
					let d = tr!(dc::from_sexp(&d.to_sexp()));
					let Ok(r) = d.insert_dummy_and_contract_inner_names() else { return Ans::err() };
					let info = r.classes.values().next().and_then(|c| c.methods.values().next()).and_then(|m| m.parameters.values().next()).map(|p| p.info.clone());
					match info { Some(Action::Edit(_, b)) => Ans::Ok(Sexp::jstr(b.as_inner())), _ => Ans::fail("no-edit") }
				}
				"class" => {
					let key = tr!(k.as_jstring());
					let mut old = key.clone(); old.push('x');
					let mut classes = IndexMap::new();
					classes.insert(mapcodec::cn(key), ClassNowodeDiff { info: Action::Remove(mapcodec::cn(old)), fields: IndexMap::new(), methods: IndexMap::new(), javadoc: Action::None });
					let d = MappingsDiff { info: Action::None, classes, javadoc: Action::None };
					let Ok(r) = d.insert_dummy_and_contract_inner_names() else { return Ans::err() };
					match r.classes.values().next().map(|c| c.info.clone()) { Some(Action::Edit(_, b)) => Ans::Ok(Sexp::jstr(b.as_inner())), _ => Ans::fail("no-edit") }
				}
				_ => Ans::BadOp("kind".into()),
			}
		}
		_ => Ans::BadOp("unknown op".into()),
	}
}

fn main() { main_for(&gen, &exec) }
