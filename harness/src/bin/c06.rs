//! C06: remappers (`quill/src/remapper.rs`): class names, descriptors, members through super types, round trips.
//!
//! Ops (M = mapping set, src/dst = namespace indices, strings as `#…`):
//!   map-class M which src dst c                 -> ok ((fail?) mapped (any?))            which = a | b
//!   map-desc M which src dst kind d             -> ok d' | err e                         kind = f | m | r
//!   map-member M kind src dst supers owner n d  -> ok ((fail?) (mapped?) (ref?))         kind = f | m
//!   map-mref M src dst supers class n d         -> ok (class n d) | err e
//!   map-seq M src dst supers (q…)               -> ok (a…) | err e     ONE remapper_a + ONE remapper_b instance answer
//!                                                  the whole list in order; a = (ok <answer of the single op>) | err
//!       q = (class a|b c) | (desc a|b f|m|r d) | (member f|m owner n d) | (mref class n d)
//!   oracle-seq-history-independent M src dst supers (q…)  -> ok pass | ok (fail <index>) | ok out-of-domain
//!       the answers of one instance to the sequence = the answers of a fresh instance to every single question
//!   oracle-mapclass-spec, oracle-desc-shape, oracle-desc-rejects, oracle-member-resolution (= oracle-member-nearest
//!   = oracle-member-nearest-full, aliases kept for the recorded finding line),
//!   oracle-fallback, oracle-roundtrip-class, oracle-roundtrip-desc, oracle-roundtrip-member
//! supers = ((class (super…))…), first matching row is the answer of the `SuperClassProvider`.
//!
//! `JarSuperProv::remap` (provs = (prov…), prov = ((class (super…))…): a `Vec<JarSuperProv>`, every provider built by inserting its rows):
//!   prov-remap M which src dst provs                     -> ok (prov…) | err e       which = a | b: the remapper handed to `remap`
//!   oracle-prov-remap-edges M which src dst provs        -> every surviving row keeps all its edges, renamed; nothing is added
//!   map-there-back M kind x y provs owner n d            -> ok cyclic | ok (() ()) | ok ((key') ((key)?)) | err e
//!       rf = remapper_b(x, y, provs); key' = rf.map_*_fail(owner, n, d); provs' = JarSuperProv::remap(rf, provs);
//!       rb = remapper_b(y, x, provs'); answer of rb.map_*_fail(rf.map_class(owner), key')
//!   oracle-roundtrip-inherited M kind x y provs owner n d -> the same pipeline must give (n, d) back inside the domain of `roundtrip_inherited`
use std::collections::HashMap;
use anyhow::Result;
use indexmap::{IndexMap, IndexSet};
use java_string::{JavaCodePoint, JavaStr, JavaString};
use duke::tree::class::{ClassName, ObjClassName, ObjClassNameSlice};
use duke::tree::descriptor::ReturnDescriptor;
use duke::tree::field::{FieldDescriptorSlice, FieldNameSlice, FieldRef};
use duke::tree::method::{MethodDescriptorSlice, MethodNameSlice, MethodRef, MethodRefObj};
use quill::remapper::{ARemapper, BRemapper, JarSuperProv, NoSuperClassProvider};
use quill::tree::names::Namespace;
use fvh::mapcodec::{self, cn, fdesc, fname, from_sexp, mdesc, mname, M};
use fvh::mapgen::{GClass, GMappings, GMember};
use fvh::rng::Rng;
use fvh::run::{main_for, Ans, Out, Tier};
use fvh::sexp::{Sexp, R};
use fvh::with_n;

// ------------------------------------------------------------------------------------------------ descriptor trees
// independent of duke's parser and of map_desc: used by the generator and by the oracles

#[derive(Clone, Debug, PartialEq)]
enum Ty { Prim(u32), Obj(Vec<u32>), Arr(Box<Ty>) }

#[derive(Clone, Debug, PartialEq)]
enum Desc { Field(Ty), Method(Vec<Ty>, Option<Ty>), RetVoid }

fn cps(s: &str) -> Vec<u32> { s.chars().map(|c| c as u32).collect() }
fn jstr_cps(s: &JavaStr) -> Vec<u32> { s.chars().map(|c| c.as_u32()).collect() }
fn cps_jstring(c: &[u32]) -> JavaString {
	let mut s = JavaString::new();
	for &x in c { s.push_java(JavaCodePoint::from_u32(x).expect("code point")); }
	s
}

fn print_ty(t: &Ty, out: &mut Vec<u32>) {
	match t {
		Ty::Prim(c) => out.push(*c),
		Ty::Obj(n) => { out.push('L' as u32); out.extend(n); out.push(';' as u32); }
		Ty::Arr(e) => { out.push('[' as u32); print_ty(e, out); }
	}
}
fn print_desc(d: &Desc) -> Vec<u32> {
	let mut out = Vec::new();
	match d {
		Desc::Field(t) => print_ty(t, &mut out),
		Desc::RetVoid => out.push('V' as u32),
		Desc::Method(ps, r) => {
			out.push('(' as u32);
			for p in ps { print_ty(p, &mut out); }
			out.push(')' as u32);
			match r { None => out.push('V' as u32), Some(t) => print_ty(t, &mut out) }
		}
	}
	out
}
fn map_ty(t: &Ty, f: &dyn Fn(&[u32]) -> Vec<u32>) -> Ty {
	match t { Ty::Prim(c) => Ty::Prim(*c), Ty::Obj(n) => Ty::Obj(f(n)), Ty::Arr(e) => Ty::Arr(Box::new(map_ty(e, f))) }
}
fn map_d(d: &Desc, f: &dyn Fn(&[u32]) -> Vec<u32>) -> Desc {
	match d {
		Desc::Field(t) => Desc::Field(map_ty(t, f)),
		Desc::RetVoid => Desc::RetVoid,
		Desc::Method(ps, r) => Desc::Method(ps.iter().map(|p| map_ty(p, f)).collect(), r.as_ref().map(|t| map_ty(t, f))),
	}
}
fn names_ty(t: &Ty, out: &mut Vec<Vec<u32>>) {
	match t { Ty::Prim(_) => {}, Ty::Obj(n) => out.push(n.clone()), Ty::Arr(e) => names_ty(e, out) }
}
fn names_d(d: &Desc) -> Vec<Vec<u32>> {
	let mut out = Vec::new();
	match d {
		Desc::Field(t) => names_ty(t, &mut out),
		Desc::RetVoid => {}
		Desc::Method(ps, r) => { for p in ps { names_ty(p, &mut out); } if let Some(t) = r { names_ty(t, &mut out); } }
	}
	out
}

/// JVMS 4.3 recogniser: one FieldType at `s[i..]`
fn parse_ty(s: &[u32], i: usize) -> Option<(Ty, usize)> {
	let c = *s.get(i)?;
	if c == '[' as u32 {
		let (t, j) = parse_ty(s, i + 1)?;
		Some((Ty::Arr(Box::new(t)), j))
	} else if c == 'L' as u32 {
		let p = s[i + 1..].iter().position(|&x| x == ';' as u32)?;
		if p == 0 { return None; }
		Some((Ty::Obj(s[i + 1..i + 1 + p].to_vec()), i + 1 + p + 1))
	} else if "BCDFIJSZ".chars().any(|x| x as u32 == c) {
		Some((Ty::Prim(c), i + 1))
	} else { None }
}
fn parse_desc(s: &[u32]) -> Option<Desc> {
	if s.first() == Some(&('(' as u32)) {
		let mut i = 1;
		let mut ps = Vec::new();
		loop {
			if *s.get(i)? == ')' as u32 { i += 1; break; }
			let (t, j) = parse_ty(s, i)?;
			ps.push(t); i = j;
		}
		if s[i..] == ['V' as u32] { return Some(Desc::Method(ps, None)); }
		let (t, j) = parse_ty(s, i)?;
		if j != s.len() { return None; }
		Some(Desc::Method(ps, Some(t)))
	} else if s == ['V' as u32] {
		Some(Desc::RetVoid)
	} else {
		let (t, j) = parse_ty(s, 0)?;
		if j != s.len() { return None; }
		Some(Desc::Field(t))
	}
}
/// the characterisation of `mapDesc_rejects`: some `L` met in copy mode is followed by `;`, by nothing, or has no `;` after it
fn scan_bad(s: &[u32]) -> bool {
	let mut i = 0;
	while i < s.len() {
		if s[i] == 'L' as u32 {
			if i + 1 >= s.len() || s[i + 1] == ';' as u32 { return true; }
			match s[i + 2..].iter().position(|&x| x == ';' as u32) {
				None => return true,
				Some(p) => i = i + 2 + p + 1,
			}
		} else { i += 1; }
	}
	false
}

// ------------------------------------------------------------------------------------------------ generator

const CLS0: &[&str] = &["a", "b", "L", "LL", "p/Foo", "p/Bar", "L/L", "net/mc/Q", "A$B", "A$B$C", "A", "x1", "é", "日本/語", "\u{1f600}", "p/L$L", "Z", "I", "A$", "$", "p/a$L$"];
const CLST: &[&str] = &["a", "b", "c", "L", "T", "q/Foo", "q/Bar", "X$Y", "L$L", "ß", "\u{10000}x", "r/s/T", "V"];
const UNMAPPED: &[&str] = &["java/lang/Object", "un/mapped", "X", "L"];
const MEM0: &[&str] = &["f", "g", "x1", "L", "<init>", "é"];
const MEMT: &[&str] = &["f", "g", "h", "fld", "m1", "L", "\u{1f600}"];

fn gen_ty(r: &mut Rng, classes: &[String], depth: usize) -> Ty {
	match r.below(if depth > 3 { 2 } else { 4 }) {
		0 => Ty::Prim(*r.pick(&['I', 'J', 'Z', 'B', 'C', 'S', 'F', 'D']) as u32),
		1 | 2 => {
			let c = if !classes.is_empty() && r.chance(4, 5) { r.pick(classes).clone() } else { (*r.pick(UNMAPPED)).to_owned() };
			Ty::Obj(cps(&c))
		}
		_ => Ty::Arr(Box::new(gen_ty(r, classes, depth + 1))),
	}
}
fn gen_field_desc(r: &mut Rng, classes: &[String]) -> Desc { Desc::Field(gen_ty(r, classes, 0)) }
fn gen_method_desc(r: &mut Rng, classes: &[String]) -> Desc {
	let ps = (0..r.below(3)).map(|_| gen_ty(r, classes, 0)).collect();
	Desc::Method(ps, if r.chance(1, 3) { None } else { Some(gen_ty(r, classes, 0)) })
}
fn to_string(c: &[u32]) -> String { c.iter().map(|&x| char::from_u32(x).expect("char")).collect() }

struct Case { g: GMappings, n: usize, fdescs: Vec<Vec<Desc>>, mdescs: Vec<Vec<Desc>> }

fn other_names(r: &mut Rng, n: usize, absent: usize, pool: &[&str], uniq: &str, collide: usize) -> Vec<Option<String>> {
	(1..n).map(|i| if r.chance(absent, 100) { None } else if r.chance(collide, 100) { Some((*r.pick(pool)).to_owned()) } else { Some(format!("{uniq}_{i}")) }).collect()
}

/// `inherit`: cases aimed at the super-type search — most classes fully named with distinct target names, members
/// drawn from a small pool of keys so that several classes of one hierarchy declare the same member (shadowing)
fn gen_case(r: &mut Rng, out: &mut Out, inherit: bool) -> Case {
	let n = r.range(2, 4);
	let absent = if inherit { *r.pick(&[0, 0, 10]) } else { *r.pick(&[0, 10, 25, 50]) };
	let collide = if inherit { 0 } else { *r.pick(&[0, 30, 70, 100]) };
	let mcollide = if inherit { 0 } else { collide.max(30) };
	let reuse = if inherit { 3 } else { 1 }; // of 4: chance to redeclare an earlier member
	let nclasses = if inherit { r.range(4, 9) } else if r.chance(1, 8) { r.below(3) } else { r.range(3, 9) };
	let mut names0: Vec<String> = Vec::new();
	for _ in 0..nclasses {
		let c = (*r.pick(CLS0)).to_owned();
		if !names0.contains(&c) { names0.push(c); }
	}
	let mut classes = Vec::new();
	let mut fdescs = Vec::new();
	let mut mdescs = Vec::new();
	for (ci, c0) in names0.iter().enumerate() {
		let mut names = vec![Some(c0.clone())];
		names.extend(other_names(r, n, absent, CLST, &format!("t/C{ci}"), collide));
		let mut fields: Vec<GMember> = Vec::new();
		let mut fd = Vec::new();
		for fi in 0..r.below(4) {
			// shadowing: redeclare a member of an earlier class (same name and descriptor, other target names)
			let prev: Vec<(Vec<Option<String>>, Desc)> = classes.iter().zip(&fdescs).flat_map(|(c, ds): (&GClass, &Vec<Desc>)| c.fields.iter().zip(ds).map(|(f, d)| (f.names.clone(), d.clone()))).collect();
			let (pnames, d) = if !prev.is_empty() && r.chance(reuse, 4) { r.pick(&prev).clone() } else { (vec![Some((*r.pick(MEM0)).to_owned())], gen_field_desc(r, &names0)) };
			let name = pnames[0].clone().unwrap_or_default();
			let ds = to_string(&print_desc(&d));
			if fields.iter().any(|f| f.desc == ds && f.names[0].as_deref() == Some(&name)) { continue; }
			let mut ns = vec![Some(name)];
			ns.extend(other_names(r, n, absent, MEMT, &format!("f{ci}{fi}"), mcollide));
			// a redeclared member keeps its name in some of the other namespaces too (same key there), fresh names elsewhere
			for i in 1..n { if i < pnames.len() && r.chance(1, 2) { ns[i] = pnames[i].clone(); } }
			fields.push(GMember { desc: ds, names: ns, doc: None, params: vec![] });
			fd.push(d);
		}
		let mut methods: Vec<GMember> = Vec::new();
		let mut md = Vec::new();
		for mi in 0..r.below(4) {
			let prev: Vec<(Vec<Option<String>>, Desc)> = classes.iter().zip(&mdescs).flat_map(|(c, ds): (&GClass, &Vec<Desc>)| c.methods.iter().zip(ds).map(|(f, d)| (f.names.clone(), d.clone()))).collect();
			let (pnames, d) = if !prev.is_empty() && r.chance(reuse, 4) { r.pick(&prev).clone() } else { (vec![Some((*r.pick(MEM0)).to_owned())], gen_method_desc(r, &names0)) };
			let name = pnames[0].clone().unwrap_or_default();
			let ds = to_string(&print_desc(&d));
			if methods.iter().any(|f| f.desc == ds && f.names[0].as_deref() == Some(&name)) { continue; }
			let mut ns = vec![Some(name)];
			ns.extend(other_names(r, n, absent, MEMT, &format!("m{ci}{mi}"), mcollide));
			for i in 1..n { if i < pnames.len() && r.chance(1, 2) { ns[i] = pnames[i].clone(); } }
			methods.push(GMember { desc: ds, names: ns, doc: None, params: vec![] });
			md.push(d);
		}
		classes.push(GClass { names, doc: None, fields, methods });
		fdescs.push(fd);
		mdescs.push(md);
	}
	out.stats.hit(if inherit { "case:inheritance-aimed" } else { "case:general" });
	out.stats.hit(&format!("n:{n}"));
	out.stats.hit(&format!("classes:{}", classes.len()));
	out.stats.hit(&format!("absent-pct:{absent}"));
	out.stats.hit(&format!("collide-pct:{collide}"));
	let all_ns = ["official", "intermediary", "named", "extra"];
	Case { g: GMappings { ns: all_ns[..n].iter().map(|x| (*x).to_owned()).collect(), doc: None, classes }, n, fdescs, mdescs }
}

/// generator-side copy of "last row with both names wins"
fn a_tab(g: &GMappings, s: usize, d: usize) -> HashMap<String, String> {
	let mut t = HashMap::new();
	for c in &g.classes {
		if let (Some(f), Some(to)) = (&c.names[s], &c.names[d]) { t.insert(f.clone(), to.clone()); }
	}
	t
}
fn rename(d: &Desc, t: &HashMap<String, String>) -> Desc {
	map_d(d, &|n| { let s = to_string(n); cps(t.get(&s).unwrap_or(&s)) })
}

fn mutate(r: &mut Rng, d: &[u32]) -> Vec<u32> {
	let mut v = d.to_vec();
	let toks: &[u32] = &['L' as u32, ';' as u32, '[' as u32, '(' as u32, ')' as u32, 'V' as u32, 'a' as u32, 'I' as u32];
	for _ in 0..r.range(1, 2) {
		if !v.is_empty() && r.chance(1, 2) { let i = r.below(v.len()); v.remove(i); }
		else { let i = r.below(v.len() + 1); v.insert(i, *r.pick(toks)); }
	}
	v
}

fn supers_sexp(rows: &[(String, Vec<String>)]) -> Sexp {
	Sexp::list(rows.iter().map(|(k, ss)| Sexp::list(vec![Sexp::str(k), Sexp::list(ss.iter().map(|s| Sexp::str(s)).collect())])).collect())
}

/// acyclic by construction: edges only from earlier to later nodes of a shuffled order (cycles belong to C16)
fn gen_supers(r: &mut Rng, nodes: &[String], out: &mut Out, dense: bool) -> Vec<(String, Vec<String>)> {
	let mut order: Vec<String> = nodes.to_vec();
	r.shuffle(&mut order);
	let mode = if dense { 3 } else { [0, 1, 1, 2, 2, 3, 3, 3][r.below(8)] }; // 0 empty, 1 chain-ish, 2/3 dag
	let mut rows = Vec::new();
	let mut depth = vec![0usize; order.len()];
	if mode != 0 {
		for i in 0..order.len() {
			if r.chance(1, if dense { 12 } else { 6 }) { continue; } // provider does not know this class
			let later = order.len() - i - 1;
			let k = if later == 0 { 0 } else if mode == 1 { 1 } else if dense { r.range(1, later.min(3)) } else { r.below(later.min(3) + 1) };
			let mut ss: Vec<String> = Vec::new();
			for _ in 0..k {
				let j = if mode == 1 && r.chance(3, 4) { i + 1 } else { i + 1 + r.below(later) };
				if !ss.contains(&order[j]) { ss.push(order[j].clone()); }
				depth[j] = depth[j].max(depth[i] + 1);
			}
			rows.push((order[i].clone(), ss));
			if later > 0 && r.chance(1, 8) {
				// a second row for the same class (two providers know it): the first one in the table answers
				let j = i + 1 + r.below(later);
				rows.push((order[i].clone(), vec![order[j].clone()]));
				depth[j] = depth[j].max(depth[i] + 1);
				out.stats.hit("supers:class-in-two-rows");
			}
		}
	}
	r.shuffle(&mut rows);
	out.stats.hit(&format!("supers-rows:{}", rows.len().min(8)));
	out.stats.hit(&format!("supers-depth:{}", depth.iter().max().copied().unwrap_or(0)));
	rows
}

/// generator-side pre-order of the provider's graph
fn pre(sup: &[(String, Vec<String>)], fuel: usize, o: &str, out: &mut Vec<String>) {
	if fuel == 0 { return; }
	out.push(o.to_owned());
	if let Some((_, ss)) = sup.iter().find(|(k, _)| k == o) { for s in ss { pre(sup, fuel - 1, s, out); } }
}

/// the same with the super types of every class taken in reverse declaration order
fn pre_rev(sup: &[(String, Vec<String>)], fuel: usize, o: &str, out: &mut Vec<String>) {
	if fuel == 0 { return; }
	out.push(o.to_owned());
	if let Some((_, ss)) = sup.iter().find(|(k, _)| k == o) { for s in ss.iter().rev() { pre_rev(sup, fuel - 1, s, out); } }
}

// ------------------------------------------------------------------------------------------------ sequences of questions

/// a member declaration usable by `remapper_b(src, dst)`, in the source namespace
#[derive(Clone)]
struct Decl { cls: String, kind: &'static str, nm: String, d: Vec<u32> }

/// a member question of a sequence, generator side
#[derive(Clone, PartialEq)]
struct MQ { kind: &'static str, owner: String, nm: String, d: Vec<u32> }

/// pre-order with the path (owner … direct sub type) that led to every class
fn pre_paths(sup: &[(String, Vec<String>)], fuel: usize, o: &str, path: &mut Vec<String>, out: &mut Vec<(String, Vec<String>)>) {
	if fuel == 0 { return; }
	out.push((o.to_owned(), path.clone()));
	if let Some((_, ss)) = sup.iter().find(|(k, _)| k == o) {
		path.push(o.to_owned());
		for s in ss { pre_paths(sup, fuel - 1, s, path, out); }
		path.pop();
	}
}

/// what the generator expects of a member question: `Some((declaring class, path to it))` or `None` (all of the pre-order is walked)
fn expect_hit(sup: &[(String, Vec<String>)], decls: &[Decl], q: &MQ) -> (Option<(String, Vec<String>)>, Vec<String>) {
	let mut order = Vec::new();
	pre_paths(sup, sup.len() + 1, &q.owner, &mut Vec::new(), &mut order);
	let hit = order.iter().find(|(c, _)| decls.iter().any(|x| x.cls == *c && x.kind == q.kind && x.nm == q.nm && x.d == q.d)).cloned();
	(hit, order.into_iter().map(|(c, _)| c).collect())
}

enum SQ { Member(MQ), Other(Sexp) }

/// Sequences of 2..8 questions for ONE remapper instance (`map-seq` + `oracle-seq-history-independent`), aimed at state
/// kept between questions: the same owner asked repeatedly with hits and misses in both orders, hits that are found
/// *through* a class without a mapping after a miss walked through that class, different members through one class,
/// the same member key through different owners, the same name with another descriptor, fields and methods mixed,
/// identical questions repeated, with class / descriptor / method-ref questions in between.
fn gen_seqs(r: &mut Rng, tier: Tier, out: &mut Out) {
	let rounds = if tier == Tier::Thorough { 5000 } else { 250 };
	const LIB: &[&str] = &["lib/U0", "lib/U1", "java/lang/Object", "un/mapped", "lib/U2"];
	const NOWHERE: &[&str] = &["toString", "equals", "size", "zz"];
	for _ in 0..rounds {
		let case = gen_case(r, out, true);
		let (g, n) = (&case.g, case.n);
		let m = g.to_sexp();
		let (src, dst) = if r.chance(1, 40) { (n + r.below(2), r.below(n)) } else {
			let src = if r.chance(3, 4) { r.range(1, n - 1) } else { 0 };
			let dst = if r.chance(1, 12) { src } else { (src + 1 + r.below(n - 1)) % n };
			(src, dst)
		};
		let (s_i, d_i) = (src.min(n - 1), dst.min(n - 1));
		let t0s = a_tab(g, 0, s_i);
		let tsd = a_tab(g, s_i, d_i);
		let mut src_names: Vec<String> = Vec::new();
		for c in &g.classes { if let Some(x) = &c.names[s_i] { if !src_names.contains(x) { src_names.push(x.clone()); } } }
		let mut decls: Vec<Decl> = Vec::new();
		for (ci, c) in g.classes.iter().enumerate() {
			for (kind, ms, dsx) in [("f", &c.fields, &case.fdescs[ci]), ("m", &c.methods, &case.mdescs[ci])] {
				for (mi, mem) in ms.iter().enumerate() {
					if let (Some(cs), Some(_), Some(nm), Some(_)) = (&c.names[s_i], &c.names[d_i], &mem.names[s_i], &mem.names[d_i]) {
						decls.push(Decl { cls: cs.clone(), kind, nm: nm.clone(), d: print_desc(&rename(&dsx[mi], &t0s)) });
					}
				}
			}
		}
		// the graph: the classes of the mappings plus two to four library classes nobody maps, dense, acyclic
		let mut nodes = src_names.clone();
		for u in &LIB[..r.range(2, 4)] { if !nodes.iter().any(|x| x == u) { nodes.push((*u).to_owned()); } }
		let dense = !r.chance(1, 5);
		let sup = gen_supers(r, &nodes, out, dense);
		let sups = supers_sexp(&sup);
		let mapped = |c: &str| tsd.contains_key(c);

		// every (owner, declaration) with the declaration's answer found through a class without a mapping
		// (the owner itself or a class between the owner and the declaring class), and all other inherited ones
		let mut through: Vec<(String, usize, String)> = Vec::new(); // owner, decl, the unmapped class on the path
		let mut inherited: Vec<(String, usize)> = Vec::new();
		for o in &nodes {
			for (di, x) in decls.iter().enumerate() {
				let q = MQ { kind: x.kind, owner: o.clone(), nm: x.nm.clone(), d: x.d.clone() };
				if let (Some((c, path)), _) = expect_hit(&sup, &decls, &q) {
					if c == *o { continue; }
					inherited.push((o.clone(), di));
					if let Some(u) = path.iter().find(|p| !mapped(p)) { through.push((o.clone(), di, u.clone())); }
				}
			}
		}
		out.stats.hit(if !through.is_empty() { "seq-case:has-hit-through-unmapped" } else if !inherited.is_empty() { "seq-case:inherited-only" } else { "seq-case:no-inherited-member" });

		for _ in 0..3 {
			let any_desc = |r: &mut Rng, kind: &str| print_desc(&if kind == "f" { gen_field_desc(r, &src_names) } else { gen_method_desc(r, &src_names) });
			let hit_q = |o: &str, di: usize| MQ { kind: decls[di].kind, owner: o.to_owned(), nm: decls[di].nm.clone(), d: decls[di].d.clone() };
			// a question expected to miss, related to `base` (a hit) in one of several ways
			let miss_q = |r: &mut Rng, owner: &str, base: Option<&MQ>| -> MQ {
				let kind: &'static str = if r.chance(1, 2) { "f" } else { "m" };
				match (r.below(6), base) {
					// the hit's name with another descriptor
					(0 | 1, Some(b)) => MQ { kind: b.kind, owner: owner.to_owned(), nm: b.nm.clone(), d: any_desc(r, b.kind) },
					// the hit's key asked as the other kind of member
					(2, Some(b)) => MQ { kind: if b.kind == "f" { "m" } else { "f" }, owner: owner.to_owned(), nm: b.nm.clone(), d: b.d.clone() },
					// some declaration of the mappings (mostly not reachable from this owner)
					(3, _) if !decls.is_empty() => { let x = r.pick(&decls); MQ { kind: x.kind, owner: owner.to_owned(), nm: x.nm.clone(), d: x.d.clone() } }
					// a member nobody maps
					_ => MQ { kind, owner: owner.to_owned(), nm: (*r.pick(NOWHERE)).to_owned(), d: if r.chance(1, 2) { cps(if kind == "f" { "I" } else { "()V" }) } else { any_desc(r, kind) } },
				}
			};
			let mut seq: Vec<SQ> = Vec::new();
			let template = r.below(8);
			let focus: Option<(String, usize, String)> = if !through.is_empty() && r.chance(5, 6) { Some(r.pick(&through).clone()) }
				else if !inherited.is_empty() { let (o, di) = r.pick(&inherited).clone(); Some((o.clone(), di, o)) } else { None };
			match (template, &focus) {
				(_, None) => {
					out.stats.hit("seq-template:random-members");
					for _ in 0..r.range(2, 4) { let o = r.pick(&nodes).clone(); seq.push(SQ::Member(miss_q(r, &o, None))); }
				}
				(0 | 1, Some((o, di, u))) => {
					// miss (through the owner or directly through the unmapped class) then the hit
					out.stats.hit("seq-template:miss-then-hit");
					let h = hit_q(o, *di);
					let who = if r.chance(1, 2) { o.clone() } else { u.clone() };
					seq.push(SQ::Member(miss_q(r, &who, Some(&h))));
					if r.chance(1, 3) { seq.push(SQ::Member(miss_q(r, o, Some(&h)))); }
					seq.push(SQ::Member(h));
				}
				(2, Some((o, di, _))) => {
					out.stats.hit("seq-template:hit-then-miss");
					let h = hit_q(o, *di);
					seq.push(SQ::Member(h.clone()));
					seq.push(SQ::Member(miss_q(r, o, Some(&h))));
				}
				(3, Some((o, di, u))) => {
					out.stats.hit("seq-template:hit-miss-hit");
					let h = hit_q(o, *di);
					seq.push(SQ::Member(h.clone()));
					let who = if r.chance(1, 2) { o.clone() } else { u.clone() };
					seq.push(SQ::Member(miss_q(r, &who, Some(&h))));
					seq.push(SQ::Member(h));
				}
				(4 | 5, Some((o, di, u))) => {
					// different members through one class (the unmapped one or the owner), hits first or a miss first
					out.stats.hit("seq-template:different-members-same-class");
					let who = if r.chance(1, 2) { o.clone() } else { u.clone() };
					let mut reach: Vec<usize> = inherited.iter().filter(|(o2, _)| *o2 == who).map(|(_, d2)| *d2).collect();
					if reach.is_empty() { reach.push(*di); }
					r.shuffle(&mut reach);
					reach.truncate(r.range(2, 3));
					let owner_of = |d2: usize| if inherited.iter().any(|(o2, d3)| *o2 == who && *d3 == d2) { who.clone() } else { o.clone() };
					if template == 5 { let h = hit_q(&owner_of(reach[0]), reach[0]); seq.push(SQ::Member(miss_q(r, &who, Some(&h)))); }
					for d2 in &reach { seq.push(SQ::Member(hit_q(&owner_of(*d2), *d2))); }
					if template == 4 && r.chance(1, 2) { let h = hit_q(o, *di); seq.push(SQ::Member(miss_q(r, &who, Some(&h)))); seq.push(SQ::Member(h)); }
				}
				(6, Some((o, di, _))) => {
					// the same member key through different owners (shadowing: the answers may differ per owner)
					out.stats.hit("seq-template:same-key-different-owners");
					let h = hit_q(o, *di);
					let mut owners: Vec<String> = inherited.iter().filter(|(_, d2)| decls[*d2].kind == h.kind && decls[*d2].nm == h.nm && decls[*d2].d == h.d).map(|(o2, _)| o2.clone()).collect();
					owners.push(decls[*di].cls.clone());
					owners.push(r.pick(&nodes).clone());
					r.shuffle(&mut owners);
					owners.truncate(r.range(2, 4));
					for o2 in owners { seq.push(SQ::Member(MQ { owner: o2, ..h.clone() })); }
					seq.push(SQ::Member(h));
				}
				(_, Some((o, di, u))) => {
					out.stats.hit("seq-template:random-mix");
					let h = hit_q(o, *di);
					for _ in 0..r.range(2, 5) {
						let who = match r.below(4) { 0 => u.clone(), 1 => r.pick(&nodes).clone(), _ => o.clone() };
						seq.push(SQ::Member(if r.chance(1, 2) { MQ { owner: who, ..h.clone() } } else { miss_q(r, &who, Some(&h)) }));
					}
				}
			}
			// a question asked before is asked again
			if r.chance(1, 3) {
				let i = r.below(seq.len());
				if let SQ::Member(q) = &seq[i] { let q = q.clone(); let at = r.range(i + 1, seq.len()); seq.insert(at, SQ::Member(q)); }
			}
			// class / descriptor / method-ref questions in between
			while seq.len() < 8 && r.chance(2, 5) {
				let which = Sexp::tag(if r.chance(1, 2) { "a" } else { "b" });
				let extra = match r.below(4) {
					0 => {
						let c = if r.chance(1, 4) { let mut o = Vec::new(); print_ty(&Ty::Arr(Box::new(gen_ty(r, &src_names, 1))), &mut o); to_string(&o) } else { r.pick(&nodes).clone() };
						Sexp::list(vec![Sexp::tag("class"), which, Sexp::str(&c)])
					}
					1 | 2 => {
						let kind = *r.pick(&["f", "m", "r"]);
						let mut d = any_desc(r, if kind == "m" { "m" } else { "f" });
						if r.chance(1, 5) { d = mutate(r, &d); }
						Sexp::list(vec![Sexp::tag("desc"), which, Sexp::tag(kind), Sexp::cps(&d)])
					}
					_ => {
						let base: Vec<&MQ> = seq.iter().filter_map(|q| if let SQ::Member(q) = q { if q.kind == "m" { Some(q) } else { None } } else { None }).collect();
						let (cls, nm, d) = if !base.is_empty() && r.chance(3, 4) { let q = *r.pick(&base); (q.owner.clone(), q.nm.clone(), q.d.clone()) }
							else { (r.pick(&nodes).clone(), (*r.pick(NOWHERE)).to_owned(), any_desc(r, "m")) };
						let cls = if r.chance(1, 5) { format!("[L{cls};") } else { cls };
						Sexp::list(vec![Sexp::tag("mref"), Sexp::str(&cls), Sexp::str(&nm), Sexp::cps(&d)])
					}
				};
				let at = r.below(seq.len() + 1);
				seq.insert(at, SQ::Other(extra));
			}
			seq.truncate(8);

			// distribution, classified after the fact from what the generator expects of every member question
			let members: Vec<(usize, &MQ)> = seq.iter().enumerate().filter_map(|(i, q)| if let SQ::Member(q) = q { Some((i, q)) } else { None }).collect();
			let exp: Vec<(Option<(String, Vec<String>)>, Vec<String>)> = members.iter().map(|(_, q)| expect_hit(&sup, &decls, q)).collect();
			out.stats.hit(&format!("seq-len:{}", seq.len()));
			out.stats.hit(&format!("seq-member-questions:{}", members.len()));
			out.stats.hit(&format!("seq-other-questions:{}", seq.len() - members.len()));
			let (mut mh_same, mut hm_same, mut mh_through, mut rep, mut diff_members_unmapped, mut same_name_other_desc, mut same_key_other_owner, mut shadowed) = (false, false, false, false, false, false, false, false);
			for i in 0..members.len() {
				let (qi, ei) = (members[i].1, &exp[i]);
				if let Some((c, _)) = &ei.0 {
					if ei.1.iter().filter(|c2| decls.iter().any(|x| x.cls == **c2 && x.kind == qi.kind && x.nm == qi.nm && x.d == qi.d)).any(|c2| c2 != c) { shadowed = true; }
				}
				for j in i + 1..members.len() {
					let (qj, ej) = (members[j].1, &exp[j]);
					if qi == qj { rep = true; }
					if qi.owner == qj.owner && ei.0.is_none() && ej.0.is_some() { mh_same = true; }
					if qi.owner == qj.owner && ei.0.is_some() && ej.0.is_none() { hm_same = true; }
					// the trigger of a negative cache: a miss walked through an unmapped class, a later hit is found through it
					if ei.0.is_none() {
						if let Some((_, path)) = &ej.0 { if path.iter().any(|p| !mapped(p) && ei.1.contains(p)) { mh_through = true; } }
					}
					if let (Some((_, pi)), Some((_, pj))) = (&ei.0, &ej.0) {
						if (qi.nm != qj.nm || qi.d != qj.d || qi.kind != qj.kind) && pi.iter().any(|p| !mapped(p) && pj.contains(p)) { diff_members_unmapped = true; }
					}
					if qi.owner == qj.owner && qi.kind == qj.kind && qi.nm == qj.nm && qi.d != qj.d { same_name_other_desc = true; }
					if qi.owner != qj.owner && qi.kind == qj.kind && qi.nm == qj.nm && qi.d == qj.d { same_key_other_owner = true; }
				}
			}
			for (f, k) in [(mh_same, "seq:miss-then-hit-same-owner"), (hm_same, "seq:hit-then-miss-same-owner"), (mh_through, "seq:miss-then-hit-through-same-unmapped-class"),
				(rep, "seq:identical-question-repeated"), (diff_members_unmapped, "seq:different-members-through-same-unmapped-class"),
				(same_name_other_desc, "seq:same-owner-and-name-other-descriptor"), (same_key_other_owner, "seq:same-key-other-owner"), (shadowed, "seq:hit-is-shadowing"),
				(members.iter().any(|(_, q)| q.kind == "f") && members.iter().any(|(_, q)| q.kind == "m"), "seq:fields-and-methods"),
				(exp.iter().any(|e| e.0.is_some()) && exp.iter().any(|e| e.0.is_none()), "seq:hits-and-misses")] {
				if f { out.stats.hit(k); }
			}
			let qs = Sexp::list(seq.iter().map(|q| match q {
				SQ::Member(q) => Sexp::list(vec![Sexp::tag("member"), Sexp::tag(q.kind), Sexp::str(&q.owner), Sexp::str(&q.nm), Sexp::cps(&q.d)]),
				SQ::Other(s) => s.clone(),
			}).collect());
			let args = [m.clone(), Sexp::nat(src), Sexp::nat(dst), sups.clone(), qs];
			out.op("map-seq", &args);
			out.op("oracle-seq-history-independent", &args);
		}
	}
}

// ------------------------------------------------------------------------------------------------ JarSuperProv::remap: generators

fn provs_sexp_of(provs: &[Vec<(String, Vec<String>)>]) -> Sexp { Sexp::list(provs.iter().map(|p| supers_sexp(p)).collect()) }

fn emit_prov_ops(out: &mut Out, m: &Sexp, src: usize, dst: usize, provs: &Sexp) {
	for which in ["a", "b"] {
		let args = [m.clone(), Sexp::tag(which), Sexp::nat(src), Sexp::nat(dst), provs.clone()];
		out.op("prov-remap", &args);
		out.op("oracle-prov-remap-edges", &args);
	}
}
fn emit_there_back(out: &mut Out, m: &Sexp, kind: &str, x: usize, y: usize, provs: &Sexp, owner: &str, nm: &str, d: &[u32]) {
	let args = [m.clone(), Sexp::tag(kind), Sexp::nat(x), Sexp::nat(y), provs.clone(), Sexp::str(owner), Sexp::str(nm), Sexp::cps(d)];
	out.op("map-there-back", &args);
	out.op("oracle-roundtrip-inherited", &args);
}

/// Seed-independent scenarios after the demonstration of seed C06-G: `a -> pkg/Base` declares the field `x:I -> counter` and the
/// method `y:(La;)La; -> tick`; `c -> pkg/Child`, `d -> pkg/Direct`, `e -> pkg/Mid` are mapped, `lib/*` and `java/*` are not.
/// Every shape is asked through every class of the graph, for the field, the method and a member nobody declares.
fn prov_scenarios(out: &mut Out) {
	let member = |desc: &str, a: &str, b: &str| GMember { desc: desc.to_owned(), names: vec![Some(a.to_owned()), Some(b.to_owned())], doc: None, params: vec![] };
	let cls = |a: &str, b: &str, fields: Vec<GMember>, methods: Vec<GMember>| GClass { names: vec![Some(a.to_owned()), Some(b.to_owned())], doc: None, fields, methods };
	let g = GMappings { ns: vec!["obf".into(), "named".into()], doc: None, classes: vec![
		cls("a", "pkg/Base", vec![member("I", "x", "counter")], vec![member("(La;)La;", "y", "tick")]),
		cls("c", "pkg/Child", vec![], vec![]),
		cls("d", "pkg/Direct", vec![], vec![]),
		cls("e", "pkg/Mid", vec![], vec![member("()V", "z", "zap")]),
	] };
	let m = g.to_sexp();
	type P = Vec<Vec<(&'static str, Vec<&'static str>)>>;
	let shapes: Vec<(&str, P)> = vec![
		("demo:child-unmapped-base", vec![vec![("c", vec!["lib/Mid"]), ("lib/Mid", vec!["a", "java/io/Serializable"]), ("d", vec!["a"]), ("a", vec!["java/lang/Object"])]]),
		("depth2:mapped-middle", vec![vec![("c", vec!["e"]), ("e", vec!["a"])]]),
		("depth2:unmapped-middle", vec![vec![("c", vec!["lib/Mid"]), ("lib/Mid", vec!["a"])]]),
		("depth3:unmapped-then-mapped", vec![vec![("c", vec!["lib/Mid"]), ("lib/Mid", vec!["e"]), ("e", vec!["a"])]]),
		("depth3:mapped-then-unmapped", vec![vec![("c", vec!["e"]), ("e", vec!["lib/Mid"]), ("lib/Mid", vec!["a"])]]),
		("depth4:three-unmapped", vec![vec![("c", vec!["lib/M1"]), ("lib/M1", vec!["lib/M2"]), ("lib/M2", vec!["lib/M3"]), ("lib/M3", vec!["a"])]]),
		("depth4:alternating", vec![vec![("d", vec!["lib/M1"]), ("lib/M1", vec!["c"]), ("c", vec!["lib/M2"]), ("lib/M2", vec!["a"])]]),
		("unmapped-top", vec![vec![("c", vec!["a"]), ("a", vec!["lib/Top"]), ("lib/Top", vec!["java/lang/Object"])]]),
		("unmapped-bottom", vec![vec![("lib/Bot", vec!["c"]), ("c", vec!["a"])]]),
		("unmapped-bottom-and-middle", vec![vec![("lib/Bot", vec!["lib/Mid"]), ("lib/Mid", vec!["a"])]]),
		("diamond:unmapped-first", vec![vec![("c", vec!["lib/M1", "e"]), ("lib/M1", vec!["a"]), ("e", vec!["a"])]]),
		("diamond:unmapped-last", vec![vec![("c", vec!["e", "lib/M1"]), ("lib/M1", vec!["a"]), ("e", vec!["d"])]]),
		("diamond:two-unmapped", vec![vec![("c", vec!["lib/M1", "lib/M2"]), ("lib/M1", vec!["java/lang/Object"]), ("lib/M2", vec!["a"])]]),
		("diamond:unmapped-root", vec![vec![("c", vec!["d", "e"]), ("d", vec!["lib/Root"]), ("e", vec!["lib/Root"]), ("lib/Root", vec!["a"])]]),
		("two-providers:chain-split", vec![vec![("c", vec!["lib/Mid"])], vec![("lib/Mid", vec!["a"]), ("a", vec!["java/lang/Object"])]]),
		("two-providers:class-in-both", vec![vec![("c", vec!["lib/Mid"])], vec![("c", vec!["a"]), ("lib/Mid", vec!["e"])], vec![("e", vec!["a"])]]),
		("only-unmapped-classes", vec![vec![("lib/A", vec!["lib/B"]), ("lib/B", vec!["java/lang/Object"])]]),
		("unmapped-name-is-a-target", vec![vec![("c", vec!["pkg/Base"]), ("pkg/Base", vec!["a"])]]),
		("empty", vec![vec![]]),
		("no-provider", vec![]),
	];
	for (tag, shape) in &shapes {
		let provs: Vec<Vec<(String, Vec<String>)>> = shape.iter().map(|p| p.iter().map(|(k, ss)| ((*k).to_owned(), ss.iter().map(|x| (*x).to_owned()).collect())).collect()).collect();
		let ps = provs_sexp_of(&provs);
		out.stats.hit("prov-scenario");
		out.stats.hit(&format!("prov-scenario:{}", tag.split(':').next().unwrap_or(tag)));
		emit_prov_ops(out, &m, 0, 1, &ps);
		let mut nodes: Vec<String> = Vec::new();
		for p in &provs { for (k, ss) in p { for x in std::iter::once(k).chain(ss.iter()) { if !nodes.contains(x) { nodes.push(x.clone()); } } } }
		for o in &nodes {
			emit_there_back(out, &m, "f", 0, 1, &ps, o, "x", &cps("I"));
			emit_there_back(out, &m, "m", 0, 1, &ps, o, "y", &cps("(La;)La;"));
			emit_there_back(out, &m, "m", 0, 1, &ps, o, "z", &cps("()V"));
			emit_there_back(out, &m, "f", 0, 1, &ps, o, "nope", &cps("I"));
		}
	}
	// two keys with one image (`A -> Z`, `B -> Z`): one row at the position of the first with the super types of the last; rows of
	// different providers do not collapse; an edge between the two becomes a loop (guard)
	let g2 = GMappings { ns: vec!["obf".into(), "named".into()], doc: None, classes: vec![
		cls("A", "Z", vec![], vec![]), cls("B", "Z", vec![], vec![]), cls("C", "C1", vec![], vec![]),
		cls("P", "P1", vec![member("I", "f", "fp")], vec![]), cls("Q", "Q1", vec![member("I", "f", "fq")], vec![]),
	] };
	let m2 = g2.to_sexp();
	let collisions: Vec<(&str, P)> = vec![
		("collision:first-then-last", vec![vec![("A", vec!["P"]), ("C", vec!["A"]), ("B", vec!["Q"])]]),
		("collision:other-order", vec![vec![("B", vec!["Q"]), ("C", vec!["B", "A"]), ("A", vec!["P"])]]),
		("collision:three-rows", vec![vec![("A", vec!["P"]), ("B", vec!["Q"]), ("Z", vec!["C"])]]),
		("collision:different-providers", vec![vec![("A", vec!["P"])], vec![("B", vec!["Q"]), ("C", vec!["A", "B"])]]),
		("collision:supers-collapse", vec![vec![("C", vec!["A", "P", "B"])]]),
		("collision:edge-becomes-loop", vec![vec![("A", vec!["B"]), ("B", vec!["P"])]]),
	];
	for (tag, shape) in &collisions {
		let provs: Vec<Vec<(String, Vec<String>)>> = shape.iter().map(|p| p.iter().map(|(k, ss)| ((*k).to_owned(), ss.iter().map(|x| (*x).to_owned()).collect())).collect()).collect();
		let ps = provs_sexp_of(&provs);
		out.stats.hit("prov-scenario");
		out.stats.hit(&format!("prov-scenario:{}", tag.split(':').next().unwrap_or(tag)));
		emit_prov_ops(out, &m2, 0, 1, &ps);
		for o in ["A", "B", "C", "P"] { emit_there_back(out, &m2, "f", 0, 1, &ps, o, "f", &cps("I")); }
	}
	// the other direction: the providers are in `named` names, carried over to `obf`
	let back: Vec<Vec<(String, Vec<String>)>> = vec![vec![("pkg/Child".into(), vec!["lib/Mid".into()]), ("lib/Mid".into(), vec!["pkg/Base".into()])]];
	let ps = provs_sexp_of(&back);
	emit_prov_ops(out, &m, 1, 0, &ps);
	emit_there_back(out, &m, "f", 1, 0, &ps, "pkg/Child", "counter", &cps("I"));
	emit_there_back(out, &m, "m", 1, 0, &ps, "pkg/Child", "tick", &cps("(Lpkg/Base;)Lpkg/Base;"));
}

/// Random providers aimed at `JarSuperProv::remap` and the way back: a chain of depth 2..4 from an owner to a class declaring a
/// member, with classes nobody maps at the top / in the middle / at the bottom, diamonds, extra edges, split over 1..3 providers.
fn gen_provs(r: &mut Rng, tier: Tier, out: &mut Out) {
	let rounds = if tier == Tier::Thorough { 4000 } else { 160 };
	const LIB: &[&str] = &["lib/U0", "lib/U1", "java/lang/Object", "lib/U2", "un/mapped"];
	for round in 0..rounds {
		let inherit = round % 4 != 3;
		let case = gen_case(r, out, inherit);
		let (g, n) = (&case.g, case.n);
		let m = g.to_sexp();
		let (src, dst) = if r.chance(1, 40) { (n + r.below(2), r.below(n)) } else {
			let src = if r.chance(2, 3) { r.range(1, n - 1) } else { 0 };
			(src, (src + 1 + r.below(n - 1)) % n)
		};
		let (s_i, d_i) = (src.min(n - 1), dst.min(n - 1));
		let t0s = a_tab(g, 0, s_i);
		let tsd = a_tab(g, s_i, d_i);
		let mut src_names: Vec<String> = Vec::new();
		for c in &g.classes { if let Some(x) = &c.names[s_i] { if !src_names.contains(x) { src_names.push(x.clone()); } } }
		let mut decls: Vec<Decl> = Vec::new();
		for (ci, c) in g.classes.iter().enumerate() {
			for (kind, ms, dsx) in [("f", &c.fields, &case.fdescs[ci]), ("m", &c.methods, &case.mdescs[ci])] {
				for (mi, mem) in ms.iter().enumerate() {
					if let (Some(cs), Some(_), Some(nm), Some(_)) = (&c.names[s_i], &c.names[d_i], &mem.names[s_i], &mem.names[d_i]) {
						decls.push(Decl { cls: cs.clone(), kind, nm: nm.clone(), d: print_desc(&rename(&dsx[mi], &t0s)) });
					}
				}
			}
		}
		let mapped = |c: &str| tsd.contains_key(c);
		let libs: Vec<String> = LIB[..r.range(2, 5)].iter().map(|x| (*x).to_owned()).filter(|x| !src_names.contains(x)).collect();
		let mut nodes = src_names.clone();
		nodes.extend(libs.iter().cloned());
		if nodes.len() < 2 { continue; }

		// ---- the chain owner -> … -> declaring class
		let target: Option<Decl> = if decls.is_empty() { None } else { Some(r.pick(&decls).clone()) };
		let top = target.as_ref().map(|t| t.cls.clone()).unwrap_or_else(|| r.pick(&nodes).clone());
		let depth = r.range(2, 4);
		let mut chain: Vec<String> = Vec::new();
		let mut pool: Vec<String> = nodes.iter().filter(|x| **x != top).cloned().collect();
		r.shuffle(&mut pool);
		let bottom_unmapped = r.chance(1, 4);
		for i in 0..depth - 1 {
			// bottom of the chain: mostly a mapped class; middle: mostly a class nobody maps
			let want_unmapped = if i == 0 { bottom_unmapped } else { r.chance(2, 3) };
			let pos = pool.iter().position(|x| mapped(x) != want_unmapped).or(if pool.is_empty() { None } else { Some(0) });
			if let Some(p) = pos { chain.push(pool.remove(p)); }
		}
		chain.push(top.clone());
		// a total order containing the chain as a subsequence; edges only go from earlier to later classes
		let mut order: Vec<String> = chain.clone();
		for x in pool { let at = r.below(order.len() + 1); order.insert(at, x); }
		let idx = |c: &str| order.iter().position(|x| x == c).unwrap_or(0);
		let mut rows: Vec<(String, Vec<String>)> = Vec::new();
		// a second path from the bottom of the chain to its top, through a class that is not on the chain
		let mut forced: Vec<(String, String)> = Vec::new();
		if chain.len() >= 3 && r.chance(1, 3) {
			let between: Vec<&String> = order[idx(&chain[0]) + 1..idx(&top)].iter().filter(|x| !chain.contains(x)).collect();
			if !between.is_empty() {
				let mid = (*r.pick(&between)).clone();
				forced.push((chain[0].clone(), mid.clone()));
				forced.push((mid, top.clone()));
			}
		}
		let diamond = !forced.is_empty();
		for (i, c) in order.iter().enumerate() {
			let mut ss: Vec<String> = Vec::new();
			if let Some(k) = chain.iter().position(|x| x == c) { if k + 1 < chain.len() { ss.push(chain[k + 1].clone()); } }
			for (a, b) in &forced { if a == c && !ss.contains(b) { let at = r.below(ss.len() + 1); ss.insert(at, b.clone()); } }
			let later = order.len() - i - 1;
			if later > 0 {
				for _ in 0..*r.pick(&[0usize, 0, 1, 1, 2]) {
					let x = order[i + 1 + r.below(later)].clone();
					if !ss.contains(&x) { let at = r.below(ss.len() + 1); ss.insert(at, x); }
				}
			}
			if ss.is_empty() && r.chance(2, 3) { continue; } // the providers do not know this class
			if r.chance(1, 12) && !ss.is_empty() { let x = ss[0].clone(); ss.push(x); out.stats.hit("prov:duplicate-super-in-row"); }
			rows.push((c.clone(), ss));
		}
		r.shuffle(&mut rows);
		// split over 1..3 providers; sometimes a class is known to two of them, sometimes a key is inserted twice into one
		let np = *r.pick(&[1usize, 1, 2, 2, 3]);
		let mut provs: Vec<Vec<(String, Vec<String>)>> = vec![Vec::new(); np];
		for row in rows { let k = r.below(np); provs[k].push(row); }
		if np >= 2 && r.chance(1, 6) {
			if let Some(row) = provs[0].first().cloned() {
				let i = idx(&row.0);
				if i + 1 < order.len() { provs[np - 1].push((row.0, vec![order[i + 1 + r.below(order.len() - i - 1)].clone()])); out.stats.hit("prov:class-in-two-providers"); }
			}
		}
		if r.chance(1, 10) {
			if let Some(row) = provs[0].first().cloned() {
				let i = idx(&row.0);
				if i + 1 < order.len() { provs[0].push((row.0, vec![order[i + 1 + r.below(order.len() - i - 1)].clone()])); out.stats.hit("prov:key-inserted-twice"); }
			}
		}
		let ps = provs_sexp_of(&provs);

		// ---- distribution
		out.stats.hit("prov:case");
		out.stats.hit(&format!("prov:providers:{np}"));
		out.stats.hit(&format!("prov:chain-depth:{}", chain.len()));
		if diamond { out.stats.hit("prov:diamond-second-path"); }
		if !mapped(&chain[0]) { out.stats.hit("prov:unmapped-at-bottom"); }
		if chain.len() >= 3 && chain[1..chain.len() - 1].iter().any(|x| !mapped(x)) { out.stats.hit("prov:unmapped-in-middle"); }
		if chain.len() >= 3 && chain[1..chain.len() - 1].iter().all(|x| !mapped(x)) { out.stats.hit("prov:all-intermediates-unmapped"); }
		if !mapped(&top) { out.stats.hit("prov:unmapped-at-top"); }
		let flat: Vec<(String, Vec<String>)> = provs.iter().flatten().cloned().collect();
		if flat.iter().any(|(k, _)| k == &top && flat.iter().any(|(k2, ss)| k2 == &top && ss.iter().any(|x| !mapped(x)))) { out.stats.hit("prov:declaring-class-has-unmapped-super"); }
		{
			let img = |c: &String| tsd.get(c).cloned().unwrap_or_else(|| c.clone());
			let keys: Vec<String> = flat.iter().map(|e| img(&e.0)).collect();
			if keys.iter().enumerate().any(|(i, k)| keys[..i].contains(k) && flat[..i].iter().zip(&keys).any(|(e, k2)| k2 == k && e.0 != flat[i].0)) { out.stats.hit("prov:two-keys-one-image"); }
		}

		emit_prov_ops(out, &m, src, dst, &ps);

		// ---- questions: the aimed member through every class of the chain, then some others
		if let Some(t) = &target {
			for o in &chain {
				let q = MQ { kind: t.kind, owner: o.clone(), nm: t.nm.clone(), d: t.d.clone() };
				let (hit, _) = expect_hit(&flat, &decls, &q);
				out.stats.hit(&match &hit {
					None => "prov-query:aimed-miss".to_owned(),
					Some((c, _)) if c == o => "prov-query:aimed-declared-by-owner".to_owned(),
					Some((_, path)) => format!("prov-query:aimed-inherited:{}", if path.iter().skip(1).any(|p| !mapped(p)) { "through-unmapped-intermediate" } else if !mapped(&path[0]) { "unmapped-owner" } else { "mapped-path" }),
				});
				emit_there_back(out, &m, t.kind, src, dst, &ps, o, &t.nm, &t.d);
			}
		}
		for _ in 0..2 {
			let o = r.pick(&nodes).clone();
			if !decls.is_empty() && r.chance(3, 4) {
				let x = r.pick(&decls).clone();
				out.stats.hit("prov-query:random-declaration");
				emit_there_back(out, &m, x.kind, src, dst, &ps, &o, &x.nm, &x.d);
			} else {
				out.stats.hit("prov-query:nobody-declares");
				emit_there_back(out, &m, "f", src, dst, &ps, &o, "zz", &cps("I"));
			}
		}
	}
}

fn gen(r: &mut Rng, tier: Tier, out: &mut Out) {
	// the seed-independent scenarios first (their failures are the most readable ones)
	prov_scenarios(out);
	let rounds = if tier == Tier::Thorough { 12000 } else { 320 };
	for round in 0..rounds {
		let inherit = round % 3 == 2;
		let case = gen_case(r, out, inherit);
		let (g, n) = (&case.g, case.n);
		let m = g.to_sexp();
		// namespaces: mostly src != 0, sometimes equal, rarely out of range
		let src = if r.chance(1, 25) { n + r.below(2) } else if r.chance(3, 4) { r.range(1, n - 1) } else { 0 };
		let mut dst = if r.chance(1, 25) { n + r.below(2) } else { r.below(n) };
		if dst == src && r.chance(3, 4) { dst = (src + 1 + r.below(n - 1)) % n; }
		out.stats.hit(if src >= n || dst >= n { "ns:out-of-range" } else if src == dst { "ns:same" } else if src == 0 { "ns:src0" } else { "ns:src-nonzero" });
		let (ss, ds) = (Sexp::nat(src), Sexp::nat(dst));
		let ok_ns = src < n && dst < n;
		let (s_i, d_i) = (src.min(n - 1), dst.min(n - 1));
		let t0s = a_tab(g, 0, s_i);
		let tsd = a_tab(g, s_i, d_i);
		// candidate class names in the source namespace
		let mut src_names: Vec<String> = Vec::new();
		for c in &g.classes { if let Some(x) = &c.names[s_i] { if !src_names.contains(x) { src_names.push(x.clone()); } } }
		let mut tgt_names: Vec<String> = Vec::new();
		for c in &g.classes { if let Some(x) = &c.names[d_i] { if !tgt_names.contains(x) { tgt_names.push(x.clone()); } } }
		let pick_class = |r: &mut Rng| -> String {
			match r.below(10) {
				0..=5 if !src_names.is_empty() => r.pick(&src_names).clone(),
				6 | 7 if !tgt_names.is_empty() => r.pick(&tgt_names).clone(),
				8 => (*r.pick(UNMAPPED)).to_owned(),
				_ => (*r.pick(CLS0)).to_owned(),
			}
		};
		let which = |r: &mut Rng| Sexp::tag(if r.chance(1, 2) { "a" } else { "b" });

		// --- classes
		for _ in 0..2 {
			let c = pick_class(r);
			let c = if r.chance(1, 5) {
				// array class names go through map_desc
				let t = Ty::Arr(Box::new(if r.chance(1, 3) { Ty::Prim('I' as u32) } else { gen_ty(r, &src_names, 1) }));
				let mut o = Vec::new(); print_ty(&t, &mut o);
				if r.chance(1, 6) { to_string(&mutate(r, &o)) } else { to_string(&o) }
			} else { c };
			let w = which(r);
			out.op("map-class", &[m.clone(), w, ss.clone(), ds.clone(), Sexp::str(&c)]);
			if !c.starts_with('[') {
				out.op("oracle-mapclass-spec", &[m.clone(), ss.clone(), ds.clone(), Sexp::str(&c)]);
				out.op("oracle-roundtrip-class", &[m.clone(), ss.clone(), ds.clone(), Sexp::str(&c)]);
			}
		}
		// --- descriptors (source namespace), from the grammar and mutated
		for _ in 0..2 {
			let (kind, d) = match r.below(5) {
				0 | 1 => ("f", gen_field_desc(r, &src_names)),
				2 | 3 => ("m", gen_method_desc(r, &src_names)),
				_ => ("r", if r.chance(1, 2) { Desc::RetVoid } else { gen_field_desc(r, &src_names) }),
			};
			let mut d = print_desc(&d);
			let mutated = r.chance(1, 4);
			if mutated { d = mutate(r, &d); }
			out.stats.hit(if mutated { "desc:mutated" } else { "desc:grammar" });
			out.op("map-desc", &[m.clone(), which(r), ss.clone(), ds.clone(), Sexp::tag(kind), Sexp::cps(&d)]);
			out.op("oracle-desc-shape", &[m.clone(), ss.clone(), ds.clone(), Sexp::cps(&d)]);
			out.op("oracle-desc-rejects", &[m.clone(), ss.clone(), ds.clone(), Sexp::cps(&d)]);
			out.op("oracle-roundtrip-desc", &[m.clone(), ss.clone(), ds.clone(), Sexp::cps(&d)]);
		}
		// --- members
		let mut nodes = src_names.clone();
		for u in &UNMAPPED[..2] { if !nodes.iter().any(|x| x == u) { nodes.push((*u).to_owned()); } }
		let sup = gen_supers(r, &nodes, out, inherit);
		let sups = supers_sexp(&sup);
		for _ in 0..(if inherit { 5 } else { 3 }) {
			let kind = if r.chance(1, 2) { "f" } else { "m" };
			let mut owner = if r.chance(4, 5) { r.pick(&nodes).clone() } else { pick_class(r) };
			// members in the source namespace (name, descriptor renamed 0 -> src); `decl` = those of fully named rows
			let mut cand: Vec<(String, Desc)> = Vec::new();
			let mut decl: Vec<(String, String, Desc)> = Vec::new();
			for (ci, c) in g.classes.iter().enumerate() {
				let (ms, dsx) = if kind == "f" { (&c.fields, &case.fdescs[ci]) } else { (&c.methods, &case.mdescs[ci]) };
				for (mi, mem) in ms.iter().enumerate() {
					if let Some(nm) = &mem.names[s_i] {
						cand.push((nm.clone(), rename(&dsx[mi], &t0s)));
						if let (Some(cs), Some(_), Some(_)) = (&c.names[s_i], &c.names[d_i], &mem.names[d_i]) {
							decl.push((cs.clone(), nm.clone(), rename(&dsx[mi], &t0s)));
						}
					}
				}
			}
			let mut shadow_aimed = false;
			if inherit && r.chance(3, 4) {
				// aim at a member that at least two classes of one pre-order declare (shadowing / diamonds)
				let mut best: Vec<(String, String, Desc)> = Vec::new();
				// … and among those the queries whose answer depends on the declaration order of the super types
				let mut sens: Vec<(String, String, Desc)> = Vec::new();
				for o in &nodes {
					let (mut order, mut rev) = (Vec::new(), Vec::new());
					pre(&sup, sup.len() + 1, o, &mut order);
					pre_rev(&sup, sup.len() + 1, o, &mut rev);
					for (cs, n2, d2) in &decl {
						if order.contains(cs) && decl.iter().any(|(c3, n3, d3)| c3 != cs && order.contains(c3) && n3 == n2 && d3 == d2) {
							best.push((o.clone(), n2.clone(), d2.clone()));
							let first = |ord: &Vec<String>| ord.iter().find(|c| decl.iter().any(|(c3, n3, d3)| c3 == *c && n3 == n2 && d3 == d2)).cloned();
							if first(&order) != first(&rev) { sens.push((o.clone(), n2.clone(), d2.clone())); }
						}
					}
				}
				if !sens.is_empty() && r.chance(2, 3) { best = sens; out.stats.hit("member-query:aimed-order-sensitive"); }
				if !best.is_empty() {
					let (o, nm, d) = r.pick(&best).clone();
					owner = o;
					cand = vec![(nm, d)];
					shadow_aimed = true;
					out.stats.hit("member-query:aimed-shadowed");
				}
			}
			if shadow_aimed {
			} else if !decl.is_empty() && r.chance(3, 4) {
				// aim at a declaration: the owner is the declaring class or something below it in the provider's graph
				let (cs, nm, d) = r.pick(&decl).clone();
				let mut below = vec![cs];
				let mut bi = 0;
				while bi < below.len() {
					for (k, ss) in &sup { if ss.contains(&below[bi]) && !below.contains(k) { below.push(k.clone()); } }
					bi += 1;
				}
				owner = r.pick(&below).clone();
				cand = vec![(nm, d)];
				out.stats.hit(&format!("member-query:aimed-subclasses~{}", (below.len() - 1).min(6)));
			} else { out.stats.hit("member-query:random"); }
			let (nm, d) = if !cand.is_empty() && r.chance(5, 6) {
				let (nm, d) = r.pick(&cand).clone();
				match r.below(12) {
					0 => ((*r.pick(MEMT)).to_owned(), print_desc(&d)),
					1 => (nm, print_desc(&if kind == "f" { gen_field_desc(r, &src_names) } else { gen_method_desc(r, &src_names) })),
					2 => (nm, mutate(r, &print_desc(&d))),
					_ => (nm, print_desc(&d)),
				}
			} else {
				((*r.pick(MEMT)).to_owned(), print_desc(&if kind == "f" { gen_field_desc(r, &src_names) } else { gen_method_desc(r, &src_names) }))
			};
			let args = [m.clone(), Sexp::tag(kind), ss.clone(), ds.clone(), sups.clone(), Sexp::str(&owner), Sexp::str(&nm), Sexp::cps(&d)];
			{
				// distribution of the queried graph shapes (plain pre-order from the owner over the provider)
				let mut order = Vec::new();
				pre(&sup, sup.len() + 1, &owner, &mut order);
				let mut distinct: Vec<&String> = Vec::new();
				for c in &order { if !distinct.contains(&c) { distinct.push(c); } }
				out.stats.hit(&format!("preorder-len:{}", order.len().min(8)));
				if distinct.len() < order.len() { out.stats.hit("preorder:diamond"); }
				if !tsd.contains_key(&owner) { out.stats.hit("owner:unmapped"); }
				else if order.iter().skip(1).any(|c| !tsd.contains_key(c)) { out.stats.hit("preorder:unmapped-super"); }
				if order.iter().any(|c| c != &owner && !sup.iter().any(|(k, _)| k == c) && !src_names.contains(c)) { out.stats.hit("preorder:class-in-no-table"); }
				let declaring: Vec<usize> = distinct.iter().enumerate().filter(|(_, c)| decl.iter().any(|(cs, n2, d2)| cs == **c && *n2 == nm && print_desc(d2) == d)).map(|(i, _)| i).collect();
				out.stats.hit(&match declaring.first() {
					None => "declared:nowhere".to_owned(),
					Some(0) => "declared:own".to_owned(),
					Some(k) => format!("declared:inherited@{}", (*k).min(5)),
				});
				if declaring.len() >= 2 { out.stats.hit("declared:shadowed"); }
			}
			out.op("map-member", &args);
			out.op("oracle-member-resolution", &args);
			out.op("oracle-member-nearest", &args);
			out.op("oracle-fallback", &args);
			out.op("oracle-roundtrip-member", &[m.clone(), Sexp::tag(kind), ss.clone(), ds.clone(), Sexp::str(&owner), Sexp::str(&nm), Sexp::cps(&d)]);
			if kind == "m" {
				let cls = if r.chance(1, 3) {
					let t = Ty::Arr(Box::new(gen_ty(r, &src_names, 2)));
					let mut o = Vec::new(); print_ty(&t, &mut o);
					if r.chance(1, 8) { to_string(&mutate(r, &o)) } else { to_string(&o) }
				} else { owner.clone() };
				out.op("map-mref", &[m.clone(), ss.clone(), ds.clone(), sups.clone(), Sexp::str(&cls), Sexp::str(&nm), Sexp::cps(&d)]);
			}
		}
		let _ = ok_ns;
	}

	// --- malformed stored descriptors: remapper_b fails exactly when a *used* row has a descriptor map_desc rejects
	for _ in 0..(rounds / 4).max(40) {
		let mut case = gen_case(r, out, false);
		let n = case.n;
		let mut hit = false;
		for c in case.g.classes.iter_mut() {
			for list in [&mut c.fields, &mut c.methods] {
				for i in 0..list.len() {
					if !r.chance(1, 3) { continue; }
					let nd = to_string(&mutate(r, &cps(&list[i].desc)));
					// keys (first name, descriptor) stay unique inside a class (the codec refuses duplicate keys)
					if list.iter().any(|o| o.names[0] == list[i].names[0] && o.desc == nd) { continue; }
					list[i].desc = nd;
					hit = true;
				}
			}
		}
		out.stats.hit(if hit { "stored-desc:mutated" } else { "stored-desc:clean" });
		let m = case.g.to_sexp();
		let (src, dst) = (r.below(n), r.below(n));
		let c = (*r.pick(CLS0)).to_owned();
		out.op("map-class", &[m.clone(), Sexp::tag("b"), Sexp::nat(src), Sexp::nat(dst), Sexp::str(&c)]);
		out.op("map-class", &[m.clone(), Sexp::tag("a"), Sexp::nat(src), Sexp::nat(dst), Sexp::str(&c)]);
		out.op("map-member", &[m.clone(), Sexp::tag("f"), Sexp::nat(src), Sexp::nat(dst), Sexp::list(vec![]), Sexp::str(&c), Sexp::str("f"), Sexp::str("I")]);
	}

	// --- map_desc on every short string over the relevant alphabet, with a fixed small mapping set
	let fixed = GMappings {
		ns: vec!["official".into(), "named".into()], doc: None,
		classes: vec![
			GClass { names: vec![Some("a".into()), Some("bb".into())], doc: None, fields: vec![], methods: vec![] },
			GClass { names: vec![Some("L".into()), Some("a".into())], doc: None, fields: vec![], methods: vec![] },
			GClass { names: vec![Some("aa".into()), Some("L".into())], doc: None, fields: vec![], methods: vec![] },
		],
	}.to_sexp();
	let alpha: &[u32] = &['L' as u32, ';' as u32, 'a' as u32, '[' as u32, '(' as u32];
	let max_len = if tier == Tier::Thorough { 6 } else { 4 };
	for len in 0..=max_len {
		for code in 0..alpha.len().pow(len as u32) {
			let mut c = code;
			let mut s = Vec::new();
			for _ in 0..len { s.push(alpha[c % alpha.len()]); c /= alpha.len(); }
			out.op("map-desc", &[fixed.clone(), Sexp::tag("a"), Sexp::nat(0), Sexp::nat(1), Sexp::tag("f"), Sexp::cps(&s)]);
			out.op("oracle-desc-rejects", &[fixed.clone(), Sexp::nat(0), Sexp::nat(1), Sexp::cps(&s)]);
			if len <= 3 { out.op("map-class", &[fixed.clone(), Sexp::tag("a"), Sexp::nat(0), Sexp::nat(1), Sexp::cps(&s)]); }
		}
	}
	out.stats.add("exhaustive-desc-strings", (0..=max_len).map(|l| alpha.len().pow(l as u32) as u64).sum());

	// --- sequences of questions to one remapper instance (history independence)
	gen_seqs(r, tier, out);

	// --- providers carried into the other namespace (`JarSuperProv::remap`) and the way back over them
	gen_provs(r, tier, out);
}

// ------------------------------------------------------------------------------------------------ executor

/// the explicit table of the request as the repository's own providers: one `JarSuperProv` per row, in a `Vec`
/// (`impl SuperClassProvider for Vec<S>`: the first provider that knows the class answers)
type TableProv = Vec<JarSuperProv>;
fn supers_from(s: &Sexp) -> R<(TableProv, Vec<(JavaString, Vec<JavaString>)>)> {
	let mut rows = Vec::new();
	let mut plain = Vec::new();
	for e in s.as_list()? {
		let [k, ss] = e.as_list()? else { return Err("supers row".into()) };
		let k = k.as_jstring()?;
		let ss: Vec<JavaString> = ss.as_list()?.iter().map(|x| x.as_jstring()).collect::<R<_>>()?;
		let set: IndexSet<ObjClassName> = ss.iter().cloned().map(cn).collect();
		rows.push(JarSuperProv { super_classes: IndexMap::from([(cn(k.clone()), set)]) });
		plain.push((k, ss));
	}
	Ok((rows, plain))
}

type Key = (JavaString, JavaString);

fn ocs(s: &JavaStr) -> &ObjClassNameSlice { unsafe { ObjClassNameSlice::from_inner_unchecked(s) } }

/// map_field_fail / map_method_fail
fn q_fail<B: BRemapper>(b: &B, kind: &str, owner: &JavaStr, n: &JavaStr, d: &JavaStr) -> Result<Option<Key>> {
	Ok(if kind == "f" {
		let (n, d) = unsafe { (FieldNameSlice::from_inner_unchecked(n), FieldDescriptorSlice::from_inner_unchecked(d)) };
		b.map_field_fail(ocs(owner), n, d)?.map(|x| (x.name.into_inner(), x.desc.into_inner()))
	} else {
		let (n, d) = unsafe { (MethodNameSlice::from_inner_unchecked(n), MethodDescriptorSlice::from_inner_unchecked(d)) };
		b.map_method_fail(ocs(owner), n, d)?.map(|x| (x.name.into_inner(), x.desc.into_inner()))
	})
}
/// map_field / map_method
fn q_map<B: BRemapper>(b: &B, kind: &str, owner: &JavaStr, n: &JavaStr, d: &JavaStr) -> Result<Key> {
	Ok(if kind == "f" {
		let (n, d) = unsafe { (FieldNameSlice::from_inner_unchecked(n), FieldDescriptorSlice::from_inner_unchecked(d)) };
		let x = b.map_field(ocs(owner), n, d)?; (x.name.into_inner(), x.desc.into_inner())
	} else {
		let (n, d) = unsafe { (MethodNameSlice::from_inner_unchecked(n), MethodDescriptorSlice::from_inner_unchecked(d)) };
		let x = b.map_method(ocs(owner), n, d)?; (x.name.into_inner(), x.desc.into_inner())
	})
}
/// map_field_ref / map_method_ref_obj
fn q_ref<B: BRemapper>(b: &B, kind: &str, owner: &JavaStr, n: &JavaStr, d: &JavaStr) -> Result<(JavaString, JavaString, JavaString)> {
	Ok(if kind == "f" {
		let x = b.map_field_ref(&FieldRef { class: cn(owner.to_owned()), name: fname(n.to_owned()), desc: fdesc(d.to_owned()) })?;
		(x.class.into_inner(), x.name.into_inner(), x.desc.into_inner())
	} else {
		let x = b.map_method_ref_obj(&MethodRefObj { class: cn(owner.to_owned()), name: mname(n.to_owned()), desc: mdesc(d.to_owned()) })?;
		(x.class.into_inner(), x.name.into_inner(), x.desc.into_inner())
	})
}
fn q_desc<A: ARemapper + ?Sized>(a: &A, kind: &str, d: &JavaStr) -> Result<JavaString> {
	Ok(match kind {
		"m" => a.map_method_desc(unsafe { MethodDescriptorSlice::from_inner_unchecked(d) })?.into_inner(),
		"r" => a.map_return_desc(unsafe { ReturnDescriptor::from_inner_unchecked(d.to_owned()) }.as_slice())?.into_inner(),
		_ => a.map_field_desc(unsafe { FieldDescriptorSlice::from_inner_unchecked(d) })?.into_inner(),
	})
}

fn key_sexp(k: &Key) -> Sexp { Sexp::list(vec![Sexp::jstr(&k.0), Sexp::jstr(&k.1)]) }
fn ref_sexp(k: &(JavaString, JavaString, JavaString)) -> Sexp { Sexp::list(vec![Sexp::jstr(&k.0), Sexp::jstr(&k.1), Sexp::jstr(&k.2)]) }

/// plain view of the rows of a mapping set (what the loops of remapper_a / remapper_b iterate over)
struct Row { names: Vec<Option<JavaString>>, fields: Vec<(JavaString, Vec<Option<JavaString>>)>, methods: Vec<(JavaString, Vec<Option<JavaString>>)> }
fn rows_of<const N: usize>(m: &M<N>) -> Vec<Row> {
	m.classes.values().map(|c| {
		let names: &[Option<ObjClassName>; N] = (&c.info.names).into();
		Row {
			names: names.iter().map(|o| o.as_ref().map(|x| x.as_inner().to_owned())).collect(),
			fields: c.fields.values().map(|f| {
				let ns: &[Option<duke::tree::field::FieldName>; N] = (&f.info.names).into();
				(f.info.desc.as_inner().to_owned(), ns.iter().map(|o| o.as_ref().map(|x| x.as_inner().to_owned())).collect())
			}).collect(),
			methods: c.methods.values().map(|f| {
				let ns: &[Option<duke::tree::method::MethodName>; N] = (&f.info.names).into();
				(f.info.desc.as_inner().to_owned(), ns.iter().map(|o| o.as_ref().map(|x| x.as_inner().to_owned())).collect())
			}).collect(),
		}
	}).collect()
}
fn class_pairs(rows: &[Row], s: usize, d: usize) -> Vec<(JavaString, JavaString)> {
	rows.iter().filter_map(|r| match (&r.names[s], &r.names[d]) { (Some(a), Some(b)) => Some((a.clone(), b.clone())), _ => None }).collect()
}
/// The class renaming the REQUEST's rows demand (never the implementation's `map_class`): the last row naming `c` in the source
/// namespace and having a name in the target namespace wins, every other name is unchanged.
fn spec_class(pairs: &[(JavaString, JavaString)], c: &JavaStr) -> JavaString {
	pairs.iter().rev().find(|p| *p.0 == *c).map(|p| p.1.clone()).unwrap_or_else(|| c.to_owned())
}
/// Descriptor rewriting with the harness's own JVMS 4.3 parser and printer (never `map_desc`); `None` = not of the grammar.
fn spec_desc(pairs: &[(JavaString, JavaString)], d: &JavaStr) -> Option<JavaString> {
	let tree = parse_desc(&jstr_cps(d))?;
	Some(cps_jstring(&print_desc(&map_d(&tree, &|nm| jstr_cps(&spec_class(pairs, &cps_jstring(nm)))))))
}
/// every member descriptor of the set is a descriptor of the grammar (own parser): the request-side domain of the member oracles
/// (on it `remapper_b` has to succeed; a set with a malformed member descriptor is left to the `map-*` ops)
fn all_descs_parse(rows: &[Row]) -> bool {
	rows.iter().all(|r| r.fields.iter().chain(&r.methods).all(|(d, _)| parse_desc(&jstr_cps(d)).is_some()))
}
/// What class `c` (its name in namespace `s`) declares for `key` according to the request's rows, towards namespace `t`: the last
/// row named `c` in `s` with a name in `t` is the class; in it the last member with names in `s` and `t` whose name in `s` and
/// descriptor (stored in the first namespace, rewritten to `s` by `spec_desc`) equal `key` wins. Only on `all_descs_parse` sets.
fn spec_declares(rows: &[Row], kind: &str, s: usize, t: usize, c: &JavaStr, key: &Key) -> Option<Key> {
	let row = rows.iter().rev().find(|r| r.names[s].as_deref() == Some(c) && r.names[t].is_some())?;
	let (p0s, p0t) = (class_pairs(rows, 0, s), class_pairs(rows, 0, t));
	(if kind == "f" { &row.fields } else { &row.methods }).iter().rev().find_map(|(desc, names)| match (&names[s], &names[t]) {
		(Some(ns), Some(nt)) if *ns == key.0 && spec_desc(&p0s, desc).as_ref() == Some(&key.1) => Some((nt.clone(), spec_desc(&p0t, desc)?)),
		_ => None,
	})
}
fn inj_on<K: PartialEq>(pairs: &[(K, K)], img: &K, c: &K) -> bool { pairs.iter().all(|p| p.1 != *img || p.0 == *c) }
fn valid_name(n: &JavaStr) -> bool { !n.is_empty() && !n.contains(';') }


// ------------------------------------------------------------------------------------------------ JarSuperProv::remap

type PlainProv = Vec<(JavaString, Vec<JavaString>)>;

fn plain_of(p: &JarSuperProv) -> PlainProv {
	p.super_classes.iter().map(|(k, v)| (k.as_inner().to_owned(), v.iter().map(|x| x.as_inner().to_owned()).collect())).collect()
}
/// every provider built by inserting its rows in order (`IndexMap::insert`, `IndexSet::insert`); the plain view is read back
/// from the built provider
fn provs_from(s: &Sexp) -> R<(Vec<JarSuperProv>, Vec<PlainProv>)> {
	let mut provs = Vec::new();
	for p in s.as_list()? {
		let mut super_classes: IndexMap<ObjClassName, IndexSet<ObjClassName>> = IndexMap::new();
		for e in p.as_list()? {
			let [k, ss] = e.as_list()? else { return Err("prov row".into()) };
			let mut set = IndexSet::new();
			for x in ss.as_list()? { set.insert(cn(x.as_jstring()?)); }
			super_classes.insert(cn(k.as_jstring()?), set);
		}
		provs.push(JarSuperProv { super_classes });
	}
	let plain = provs.iter().map(plain_of).collect();
	Ok((provs, plain))
}
fn provs_sexp(ps: &[JarSuperProv]) -> Sexp {
	Sexp::list(ps.iter().map(|p| Sexp::list(plain_of(p).iter().map(|(k, ss)| Sexp::list(vec![Sexp::jstr(k), Sexp::list(ss.iter().map(|x| Sexp::jstr(x)).collect())])).collect())).collect())
}
fn dedup_first(xs: Vec<JavaString>) -> Vec<JavaString> {
	let mut out: Vec<JavaString> = Vec::new();
	for x in xs { if !out.contains(&x) { out.push(x); } }
	out
}
/// Kahn-style: repeatedly drop the rows none of whose targets is the key of a remaining row; acyclic iff nothing remains
fn acyclic_rows(mut es: Vec<(JavaString, Vec<JavaString>)>) -> bool {
	loop {
		let next: Vec<(JavaString, Vec<JavaString>)> = es.iter().filter(|e| e.1.iter().any(|p| es.iter().any(|k| k.0 == *p))).cloned().collect();
		if next.len() == es.len() { return es.is_empty(); }
		es = next;
	}
}
/// the graph of all rows and its image under the class renaming `f` are acyclic (the search of the code under test
/// recurses without a visited set); computed on the request's rows, not on what `remap` returns
fn guard_acyclic(plain: &[PlainProv], f: &dyn Fn(&JavaStr) -> JavaString) -> bool {
	let rows: Vec<(JavaString, Vec<JavaString>)> = plain.iter().flatten().cloned().collect();
	let image = rows.iter().map(|(k, ss)| (f(k), ss.iter().map(|x| f(x)).collect())).collect();
	acyclic_rows(rows) && acyclic_rows(image)
}
/// `prov_remap_spec` / `prov_remap_keeps_edges` on what `remap` returned
fn prov_edges_oracle(plain: &[PlainProv], out: &[JarSuperProv], f: &dyn Fn(&JavaStr) -> JavaString) -> Ans {
	if plain.len() != out.len() { return Ans::fail("length"); }
	for (s, o) in plain.iter().zip(out) {
		let o = plain_of(o);
		let keys: Vec<JavaString> = o.iter().map(|e| e.0.clone()).collect();
		if keys != dedup_first(s.iter().map(|e| f(&e.0)).collect()) { return Ans::fail("keys"); }
		for (i, (k, ss)) in s.iter().enumerate() {
			if s[i + 1..].iter().any(|e2| f(&e2.0) == f(k)) { continue; }
			let want = dedup_first(ss.iter().map(|x| f(x)).collect());
			if o.iter().find(|e| e.0 == f(k)).map(|e| &e.1) != Some(&want) { return Ans::fail("edges"); }
		}
	}
	Ans::pass()
}
fn pre_order(rows: &[(JavaString, Vec<JavaString>)], fuel: usize, o: &JavaStr, out: &mut Vec<JavaString>) -> Option<()> {
	if fuel == 0 { return None; }
	out.push(o.to_owned());
	if let Some((_, ss)) = rows.iter().find(|(k, _)| **k == *o) {
		for s in ss { pre_order(rows, fuel - 1, s, out)?; }
	}
	Some(())
}

// ------------------------------------------------------------------------------------------------ sequences

/// one question of `map-seq`
enum Q {
	Class { a: bool, c: JavaString },
	Desc { a: bool, kind: String, d: JavaString },
	Member { kind: String, owner: JavaString, n: JavaString, d: JavaString },
	Mref { cls: JavaString, n: JavaString, d: JavaString },
}

fn which_from(s: &Sexp) -> R<bool> {
	match s.as_atom()? { "a" => Ok(true), "b" => Ok(false), o => Err(format!("which {o}")) }
}

fn query_from(s: &Sexp) -> R<Q> {
	let l = s.as_list()?;
	let Some(head) = l.first() else { return Err("empty query".into()) };
	match (head.as_atom()?, &l[1..]) {
		("class", [w, c]) => Ok(Q::Class { a: which_from(w)?, c: c.as_jstring()? }),
		("desc", [w, kind, d]) => {
			let kind = kind.as_atom()?;
			if !["f", "m", "r"].contains(&kind) { return Err("desc kind".into()); }
			Ok(Q::Desc { a: which_from(w)?, kind: kind.to_owned(), d: d.as_jstring()? })
		}
		("member", [kind, owner, n, d]) => {
			let kind = kind.as_atom()?;
			if kind != "f" && kind != "m" { return Err("member kind".into()); }
			Ok(Q::Member { kind: kind.to_owned(), owner: owner.as_jstring()?, n: n.as_jstring()?, d: d.as_jstring()? })
		}
		("mref", [cls, n, d]) => Ok(Q::Mref { cls: cls.as_jstring()?, n: n.as_jstring()?, d: d.as_jstring()? }),
		_ => Err("query".into()),
	}
}

fn q_ok(x: Sexp) -> Sexp { Sexp::list(vec![Sexp::tag("ok"), x]) }
fn q_err() -> Sexp { Sexp::tag("err") }

/// `map_class_fail`, `map_class`, `map_class_any` (the answer of `map-class`)
fn class_answer<A: ARemapper + ?Sized>(a: &A, c: &JavaStr) -> Option<Sexp> {
	let any = unsafe { ClassName::from_inner_unchecked(c.to_owned()) };
	let (Ok(f), Ok(mc)) = (a.map_class_fail(ocs(c)), a.map_class(ocs(c))) else { return None };
	let any = a.map_class_any(&any).ok();
	Some(Sexp::list(vec![
		Sexp::opt(f.as_ref(), |x| Sexp::jstr(x.as_inner())), Sexp::jstr(mc.as_inner()),
		Sexp::opt(any.as_ref(), |x| Sexp::jstr(x.as_inner()))]))
}

/// `map_*_fail`, `map_*`, `map_*_ref` (the answer of `map-member`)
fn member_answer<B: BRemapper>(b: &B, kind: &str, owner: &JavaStr, nm: &JavaStr, d: &JavaStr) -> Option<Sexp> {
	let Ok(f) = q_fail(b, kind, owner, nm, d) else { return None };
	let g = q_map(b, kind, owner, nm, d).ok();
	let h = q_ref(b, kind, owner, nm, d).ok();
	Some(Sexp::list(vec![Sexp::opt(f.as_ref(), key_sexp), Sexp::opt(g.as_ref(), key_sexp), Sexp::opt(h.as_ref(), ref_sexp)]))
}

/// one question put to the given instances (`a` = the `remapper_a` result, `b` = the `remapper_b` result)
fn ask<A: ARemapper, B: BRemapper>(a: &A, b: &B, q: &Q) -> Sexp {
	match q {
		Q::Class { a: via_a, c } => (if *via_a { class_answer(a, c) } else { class_answer(b, c) }).map(q_ok).unwrap_or_else(q_err),
		Q::Desc { a: via_a, kind, d } => (if *via_a { q_desc(a, kind, d) } else { q_desc(b, kind, d) }).map(|x| q_ok(Sexp::jstr(&x))).unwrap_or_else(|_| q_err()),
		Q::Member { kind, owner, n, d } => member_answer(b, kind, owner, n, d).map(q_ok).unwrap_or_else(q_err),
		Q::Mref { cls, n, d } => {
			let mref = MethodRef { class: unsafe { ClassName::from_inner_unchecked(cls.clone()) }, name: mname(n.clone()), desc: mdesc(d.clone()) };
			match b.map_method_ref(&mref) {
				Ok(x) => q_ok(ref_sexp(&(x.class.into_inner(), x.name.into_inner(), x.desc.into_inner()))),
				Err(_) => q_err(),
			}
		}
	}
}

/// builds ONE `remapper_a` and ONE `remapper_b` and hands them to `$body` (as `$a`, `$b`); `None` when a construction fails
macro_rules! with_instance {
	($m:expr, $src:expr, $dst:expr, $prov:expr, |$a:ident, $b:ident| $body:expr) => {
		match $m.remapper_a($src, $dst) {
			Err(_) => None,
			Ok($a) => {
				if $prov.is_empty() {
					match $m.remapper_b($src, $dst, NoSuperClassProvider::new()) { Ok($b) => Some($body), Err(_) => None }
				} else {
					match $m.remapper_b($src, $dst, $prov) { Ok($b) => Some($body), Err(_) => None }
				}
			}
		}
	};
}

fn exec(op: &str, args: &[Sexp]) -> Ans {
	macro_rules! tr { ($e:expr) => { match $e { Ok(x) => x, Err(e) => return Ans::BadOp(format!("{e}")) } } }
	macro_rules! ns { ($N:ident, $e:expr) => { Namespace::<$N>::new(tr!($e.as_nat())) } }
	let Some(m) = args.first() else { return Ans::BadOp("no args".into()) };
	let n = tr!(mapcodec::ns_count(m));
	with_n!(n, N, {
		let m: M<N> = tr!(from_sexp(m));
		match (op, &args[1..]) {
			("map-class", [which, src, dst, c]) => {
				let c = tr!(c.as_jstring());
				let (Ok(src), Ok(dst)) = (ns!(N, src), ns!(N, dst)) else { return Ans::err() };
				let any = unsafe { ClassName::from_inner_unchecked(c.clone()) };
				fn answer<A: ARemapper>(a: &A, c: &JavaStr, any: &ClassName) -> Ans {
					let (Ok(f), Ok(mc)) = (a.map_class_fail(ocs(c)), a.map_class(ocs(c))) else { return Ans::err() };
					let any = a.map_class_any(any).ok();
					Ans::Ok(Sexp::list(vec![
						Sexp::opt(f.as_ref(), |x| Sexp::jstr(x.as_inner())), Sexp::jstr(mc.as_inner()),
						Sexp::opt(any.as_ref(), |x| Sexp::jstr(x.as_inner()))]))
				}
				if tr!(which.as_atom()) == "a" {
					match m.remapper_a(src, dst) { Ok(a) => answer(&a, &c, &any), Err(_) => Ans::err() }
				} else {
					match m.remapper_b(src, dst, NoSuperClassProvider::new()) { Ok(b) => answer(&b, &c, &any), Err(_) => Ans::err() }
				}
			}
			("map-desc", [which, src, dst, kind, d]) => {
				let d = tr!(d.as_jstring());
				let kind = tr!(kind.as_atom());
				let (Ok(src), Ok(dst)) = (ns!(N, src), ns!(N, dst)) else { return Ans::err() };
				let r = if tr!(which.as_atom()) == "a" {
					match m.remapper_a(src, dst) { Ok(a) => q_desc(&a, kind, &d), Err(e) => Err(e) }
				} else {
					match m.remapper_b(src, dst, NoSuperClassProvider::new()) { Ok(b) => q_desc(&b, kind, &d), Err(e) => Err(e) }
				};
				match r { Ok(x) => Ans::Ok(Sexp::jstr(&x)), Err(_) => Ans::err() }
			}
			("map-member", [kind, src, dst, sup, owner, nm, d]) => {
				let kind = tr!(kind.as_atom());
				if kind != "f" && kind != "m" { return Ans::BadOp("kind".into()); }
				let (prov, _) = tr!(supers_from(sup));
				let (owner, nm, d) = (tr!(owner.as_jstring()), tr!(nm.as_jstring()), tr!(d.as_jstring()));
				let (Ok(src), Ok(dst)) = (ns!(N, src), ns!(N, dst)) else { return Ans::err() };
				fn answer<B: BRemapper>(b: &B, kind: &str, owner: &JavaStr, nm: &JavaStr, d: &JavaStr) -> Ans {
					let Ok(f) = q_fail(b, kind, owner, nm, d) else { return Ans::err() };
					let g = q_map(b, kind, owner, nm, d).ok();
					let h = q_ref(b, kind, owner, nm, d).ok();
					Ans::Ok(Sexp::list(vec![Sexp::opt(f.as_ref(), key_sexp), Sexp::opt(g.as_ref(), key_sexp), Sexp::opt(h.as_ref(), ref_sexp)]))
				}
				if prov.is_empty() {
					match m.remapper_b(src, dst, NoSuperClassProvider::new()) { Ok(b) => answer(&b, kind, &owner, &nm, &d), Err(_) => Ans::err() }
				} else {
					match m.remapper_b(src, dst, &prov) { Ok(b) => answer(&b, kind, &owner, &nm, &d), Err(_) => Ans::err() }
				}
			}
			("map-mref", [src, dst, sup, cls, nm, d]) => {
				let (prov, _) = tr!(supers_from(sup));
				let (cls, nm, d) = (tr!(cls.as_jstring()), tr!(nm.as_jstring()), tr!(d.as_jstring()));
				let (Ok(src), Ok(dst)) = (ns!(N, src), ns!(N, dst)) else { return Ans::err() };
				let Ok(b) = m.remapper_b(src, dst, &prov) else { return Ans::err() };
				let mref = MethodRef { class: unsafe { ClassName::from_inner_unchecked(cls) }, name: mname(nm), desc: mdesc(d) };
				match b.map_method_ref(&mref) {
					Ok(x) => Ans::Ok(ref_sexp(&(x.class.into_inner(), x.name.into_inner(), x.desc.into_inner()))),
					Err(_) => Ans::err(),
				}
			}
			("map-seq", [src, dst, sup, qs]) => {
				let (prov, _) = tr!(supers_from(sup));
				let qs: Vec<Q> = tr!(tr!(qs.as_list()).iter().map(query_from).collect::<R<_>>());
				let (Ok(src), Ok(dst)) = (ns!(N, src), ns!(N, dst)) else { return Ans::err() };
				// one instance of each remapper answers the whole list, in order
				match with_instance!(m, src, dst, &prov, |a, b| qs.iter().map(|q| ask(&a, &b, q)).collect::<Vec<Sexp>>()) {
					Some(answers) => Ans::Ok(Sexp::list(answers)),
					None => Ans::err(),
				}
			}
			("oracle-seq-history-independent", [src, dst, sup, qs]) => {
				let (prov, _) = tr!(supers_from(sup));
				let qs: Vec<Q> = tr!(tr!(qs.as_list()).iter().map(query_from).collect::<R<_>>());
				let (Ok(src), Ok(dst)) = (ns!(N, src), ns!(N, dst)) else { return Ans::out_of_domain() };
				// seq_pointwise / seq_history_independent on the implementation: the answers of one instance to the sequence …
				let Some(on_one) = with_instance!(m, src, dst, &prov, |a, b| qs.iter().map(|q| ask(&a, &b, q)).collect::<Vec<Sexp>>()) else { return Ans::out_of_domain() };
				// … against a fresh pair of instances for every single question
				for (i, q) in qs.iter().enumerate() {
					let Some(fresh) = with_instance!(m, src, dst, &prov, |a, b| ask(&a, &b, q)) else { return Ans::fail("fresh-instance-err") };
					if fresh != on_one[i] { return Ans::fail(&i.to_string()); }
				}
				Ans::pass()
			}
			("oracle-mapclass-spec", [src, dst, c]) => {
				let c = tr!(c.as_jstring());
				let (s_i, d_i) = (tr!(src.as_nat()), tr!(dst.as_nat()));
				let (Ok(src), Ok(dst)) = (ns!(N, src), ns!(N, dst)) else { return Ans::out_of_domain() };
				let Ok(a) = m.remapper_a(src, dst) else { return Ans::out_of_domain() };
				let pairs = class_pairs(&rows_of(&m), s_i, d_i);
				let spec = pairs.iter().rev().find(|p| p.0 == c).map(|p| p.1.clone()).unwrap_or_else(|| c.clone());
				match a.map_class(ocs(&c)) { Ok(x) if *x.as_inner() == *spec => Ans::pass(), Ok(_) => Ans::fail("differs"), Err(_) => Ans::fail("err") }
			}
			("oracle-desc-shape", [src, dst, d]) => {
				let d = tr!(d.as_jstring());
				let (s_i, d_i) = (tr!(src.as_nat()), tr!(dst.as_nat()));
				let (Ok(src), Ok(dst)) = (ns!(N, src), ns!(N, dst)) else { return Ans::out_of_domain() };
				// expected value from the request: own parser / printer, names renamed by the request's rows
				let Some(expect) = spec_desc(&class_pairs(&rows_of(&m), s_i, d_i), &d) else { return Ans::out_of_domain() };
				let Ok(a) = m.remapper_a(src, dst) else { return Ans::fail("construct_err") };
				match q_desc(&a, "f", &d) { Ok(x) if x == expect => Ans::pass(), Ok(_) => Ans::fail("differs"), Err(_) => Ans::fail("rejected") }
			}
			("oracle-desc-rejects", [src, dst, d]) => {
				let d = tr!(d.as_jstring());
				let (Ok(src), Ok(dst)) = (ns!(N, src), ns!(N, dst)) else { return Ans::out_of_domain() };
				let Ok(a) = m.remapper_a(src, dst) else { return Ans::out_of_domain() };
				if q_desc(&a, "m", &d).is_err() == scan_bad(&jstr_cps(&d)) { Ans::pass() } else { Ans::fail("differs") }
			}
			("oracle-member-resolution" | "oracle-fallback" | "oracle-member-nearest" | "oracle-member-nearest-full", [kind, src, dst, sup, owner, nm, d]) => {
				let kind = tr!(kind.as_atom());
				if kind != "f" && kind != "m" { return Ans::BadOp("kind".into()); }
				let (prov, plain) = tr!(supers_from(sup));
				let (owner, nm, d) = (tr!(owner.as_jstring()), tr!(nm.as_jstring()), tr!(d.as_jstring()));
				let (s_i, d_i) = (tr!(src.as_nat()), tr!(dst.as_nat()));
				let (Ok(src), Ok(dst)) = (ns!(N, src), ns!(N, dst)) else { return Ans::out_of_domain() };
				if op == "oracle-fallback" {
					let Ok(b) = m.remapper_b(src, dst, &prov) else { return Ans::out_of_domain() };
					let Ok(f) = q_fail(&b, kind, &owner, &nm, &d) else { return Ans::fail("err") };
					let spec: Option<Key> = match f { Some(v) => Some(v), None => q_desc(&b, kind, &d).ok().map(|x| (nm.clone(), x)) };
					return if q_map(&b, kind, &owner, &nm, &d).ok() == spec { Ans::pass() } else { Ans::fail("differs") };
				}
				// domain from the request: member descriptors of the grammar (then the construction has to succeed)
				let rows = rows_of(&m);
				if !all_descs_parse(&rows) { return Ans::out_of_domain(); }
				// member_resolution / member_resolution_nearest (one statement since c873813; `-nearest-full` is an alias kept
				// so that the request line recorded for the fixed finding C06-unmapped-owner-hides-supers still replays):
				// the answer is the first declaration along the pre-order of the provider's graph from the owner, whether
				// or not the classes on the way have a mapping. None = depth bound hit (cyclic provider): out of domain.
				fn dfs(plain: &[(JavaString, Vec<JavaString>)], fuel: usize, o: &JavaStr, out: &mut Vec<JavaString>) -> Option<()> {
					if fuel == 0 { return None; }
					out.push(o.to_owned());
					if let Some((_, ss)) = plain.iter().find(|(k, _)| **k == *o) {
						for s in ss { dfs(plain, fuel - 1, s, out)?; }
					}
					Some(())
				}
				let mut order = Vec::new();
				if dfs(&plain, plain.len() + 1, &owner, &mut order).is_none() { return Ans::out_of_domain(); }
				// what a class declares itself: read off the request's rows (`spec_declares`), not off the implementation's table
				let key = (nm.clone(), d.clone());
				let spec = order.iter().find_map(|c| spec_declares(&rows, kind, s_i, d_i, c, &key));
				let Ok(b) = m.remapper_b(src, dst, &prov) else { return Ans::fail("construct_err") };
				match q_fail(&b, kind, &owner, &nm, &d) { Ok(x) if x == spec => Ans::pass(), Ok(_) => Ans::fail("differs"), Err(_) => Ans::fail("err") }
			}
			("oracle-roundtrip-class", [x, y, c]) => {
				let c = tr!(c.as_jstring());
				let (x_i, y_i) = (tr!(x.as_nat()), tr!(y.as_nat()));
				let (Ok(x), Ok(y)) = (ns!(N, x), ns!(N, y)) else { return Ans::out_of_domain() };
				let (Ok(f), Ok(b)) = (m.remapper_a(x, y), m.remapper_a(y, x)) else { return Ans::out_of_domain() };
				// domain from the request: the image the rows demand is the image of nothing else
				let pairs = class_pairs(&rows_of(&m), x_i, y_i);
				if !inj_on(&pairs, &spec_class(&pairs, &c), &c) { return Ans::out_of_domain(); }
				let Ok(img) = f.map_class(ocs(&c)) else { return Ans::fail("err") };
				match b.map_class(&img) { Ok(back) if *back.as_inner() == *c => Ans::pass(), _ => Ans::fail("differs") }
			}
			("oracle-roundtrip-desc", [x, y, d]) => {
				let d = tr!(d.as_jstring());
				let (x_i, y_i) = (tr!(x.as_nat()), tr!(y.as_nat()));
				let (Ok(x), Ok(y)) = (ns!(N, x), ns!(N, y)) else { return Ans::out_of_domain() };
				let (Ok(f), Ok(b)) = (m.remapper_a(x, y), m.remapper_a(y, x)) else { return Ans::out_of_domain() };
				let Some(tree) = parse_desc(&jstr_cps(&d)) else { return Ans::out_of_domain() };
				let pairs = class_pairs(&rows_of(&m), x_i, y_i);
				for nm in names_d(&tree) {
					let c = cps_jstring(&nm);
					let img = spec_class(&pairs, &c);
					if !inj_on(&pairs, &img, &c) || !valid_name(&img) { return Ans::out_of_domain(); }
				}
				let Ok(d1) = q_desc(&f, "f", &d) else { return Ans::fail("fwd_rejected") };
				match q_desc(&b, "f", &d1) { Ok(back) if back == d => Ans::pass(), _ => Ans::fail("differs") }
			}
			("oracle-roundtrip-member", [kind, x, y, owner, nm, d]) => {
				let kind = tr!(kind.as_atom());
				if kind != "f" && kind != "m" { return Ans::BadOp("kind".into()); }
				let (owner, nm, d) = (tr!(owner.as_jstring()), tr!(nm.as_jstring()), tr!(d.as_jstring()));
				let (x_i, y_i) = (tr!(x.as_nat()), tr!(y.as_nat()));
				let (Ok(x), Ok(y)) = (ns!(N, x), ns!(N, y)) else { return Ans::out_of_domain() };
				// the whole domain is read off the request's rows: grammatical member descriptors, the owner's row, the image of the
				// member in it (`spec_declares`), injectivity of the class rows at the owner and of the row's members at the member
				let rows = rows_of(&m);
				if !all_descs_parse(&rows) { return Ans::out_of_domain(); }
				let Some(row) = rows.iter().rev().find(|r| r.names[x_i].as_ref() == Some(&owner) && r.names[y_i].is_some()) else { return Ans::out_of_domain() };
				let Some(cls_name) = row.names[y_i].clone() else { return Ans::out_of_domain() };
				let Some(key2) = spec_declares(&rows, kind, x_i, y_i, &owner, &(nm.clone(), d.clone())) else { return Ans::out_of_domain() };
				let (p0x, p0y) = (class_pairs(&rows, 0, x_i), class_pairs(&rows, 0, y_i));
				let mut mrows: Vec<(Key, Key)> = Vec::new();
				for (desc, names) in if kind == "f" { &row.fields } else { &row.methods } {
					if let (Some(nx), Some(ny)) = (&names[x_i], &names[y_i]) {
						let (Some(dx), Some(dy)) = (spec_desc(&p0x, desc), spec_desc(&p0y, desc)) else { return Ans::out_of_domain() };
						mrows.push(((nx.clone(), dx), (ny.clone(), dy)));
					}
				}
				let pairs = class_pairs(&rows, x_i, y_i);
				if !inj_on(&pairs, &cls_name, &owner) { return Ans::out_of_domain(); }
				if !inj_on(&mrows, &key2, &(nm.clone(), d.clone())) { return Ans::out_of_domain(); }
				let nosup = NoSuperClassProvider::new();
				let (Ok(rf), Ok(rb)) = (m.remapper_b(x, y, nosup), m.remapper_b(y, x, nosup)) else { return Ans::fail("construct_err") };
				// there with the implementation, and back
				let Ok(Some(there)) = q_fail(&rf, kind, &owner, &nm, &d) else { return Ans::fail("there") };
				let Ok(Some(there_cls)) = rf.map_class_fail(ocs(&owner)) else { return Ans::fail("there_class") };
				match q_fail(&rb, kind, there_cls.as_inner(), &there.0, &there.1) { Ok(Some(k)) if k == (nm, d) => Ans::pass(), _ => Ans::fail("differs") }
			}
			("prov-remap" | "oracle-prov-remap-edges", [which, src, dst, provs]) => {
				let (provs, plain) = tr!(provs_from(provs));
				let oracle = op != "prov-remap";
				let bad = || if oracle { Ans::out_of_domain() } else { Ans::err() };
				let (Ok(src), Ok(dst)) = (ns!(N, src), ns!(N, dst)) else { return bad() };
				fn run<A: ARemapper>(re: &A, oracle: bool, provs: &Vec<JarSuperProv>, plain: &[PlainProv]) -> Ans {
					let out = JarSuperProv::remap(re, provs);
					if !oracle { return match out { Ok(o) => Ans::Ok(provs_sexp(&o)), Err(_) => Ans::err() }; }
					let Ok(out) = out else { return Ans::fail("err") };
					prov_edges_oracle(plain, &out, &|c| re.map_class(ocs(c)).map(|x| x.into_inner()).unwrap_or_default())
				}
				if tr!(which.as_atom()) == "a" {
					match m.remapper_a(src, dst) { Ok(a) => run(&a, oracle, &provs, &plain), Err(_) => bad() }
				} else {
					match m.remapper_b(src, dst, &provs) { Ok(b) => run(&b, oracle, &provs, &plain), Err(_) => bad() }
				}
			}
			("map-there-back" | "oracle-roundtrip-inherited", [kind, x, y, provs, owner, nm, d]) => {
				let kind = tr!(kind.as_atom());
				if kind != "f" && kind != "m" { return Ans::BadOp("kind".into()); }
				let (provs, plain) = tr!(provs_from(provs));
				let (owner, nm, d) = (tr!(owner.as_jstring()), tr!(nm.as_jstring()), tr!(d.as_jstring()));
				let oracle = op != "map-there-back";
				let bad = || if oracle { Ans::out_of_domain() } else { Ans::err() };
				let (x_i, y_i) = (tr!(x.as_nat()), tr!(y.as_nat()));
				let (Ok(x), Ok(y)) = (ns!(N, x), ns!(N, y)) else { return bad() };
				// the oracle's domain is decided on the request: grammatical member descriptors (then both constructions have to
				// succeed), and below the class renaming / the declarations the request's rows demand (`spec_class`, `spec_declares`)
				let mrows = rows_of(&m);
				if oracle && !all_descs_parse(&mrows) { return Ans::out_of_domain(); }
				let bad = || if oracle { Ans::fail("construct_err") } else { Ans::err() };
				// X -> Y over the providers of the request
				let Ok(rf) = m.remapper_b(x, y, &provs) else { return bad() };
				if m.remapper_b(y, x, NoSuperClassProvider::new()).is_err() { return bad(); }
				let phi = |c: &JavaStr| rf.map_class(ocs(c)).map(|x| x.into_inner()).unwrap_or_default();
				let pairs_xy = class_pairs(&mrows, x_i, y_i);
				let sphi = |c: &JavaStr| spec_class(&pairs_xy, c);
				if oracle { if !guard_acyclic(&plain, &sphi) { return Ans::out_of_domain(); } }
				else if !guard_acyclic(&plain, &phi) { return Ans::ok_tag("cyclic"); }
				// the pipeline of `src/specialized_methods` / `src/sus.rs`: carry the providers over, build the way back on them
				let back_of = |key2: &Key| -> Result<Option<Key>> {
					let provs2 = JarSuperProv::remap(&rf, &provs)?;
					let rb = m.remapper_b(y, x, &provs2)?;
					q_fail(&rb, kind, &phi(&owner), &key2.0, &key2.1)
				};
				if !oracle {
					let Ok(fwd) = q_fail(&rf, kind, &owner, &nm, &d) else { return Ans::err() };
					let Some(key2) = fwd else { return Ans::Ok(Sexp::list(vec![Sexp::list(vec![]), Sexp::list(vec![])])) };
					let Ok(back) = back_of(&key2) else { return Ans::err() };
					return Ans::Ok(Sexp::list(vec![Sexp::list(vec![key_sexp(&key2)]), Sexp::list(vec![Sexp::opt(back.as_ref(), key_sexp)])]));
				}
				// domain of `roundtrip_inherited`, with what a class declares read off the request's rows
				let mut nodes: Vec<JavaString> = vec![owner.clone()];
				for p in &plain { for (k, ss) in p { nodes.push(k.clone()); nodes.extend(ss.iter().cloned()); } }
				if nodes.iter().any(|a| nodes.iter().any(|b| sphi(a) == sphi(b) && a != b)) { return Ans::out_of_domain(); }
				let rows: Vec<(JavaString, Vec<JavaString>)> = plain.iter().flatten().cloned().collect();
				let mut order = Vec::new();
				if pre_order(&rows, rows.len() + 1, &owner, &mut order).is_none() { return Ans::out_of_domain(); }
				let key = (nm.clone(), d.clone());
				let decl_f = |c: &JavaStr| spec_declares(&mrows, kind, x_i, y_i, c, &key);
				let Some(key2) = order.iter().find_map(|c| decl_f(c)) else { return Ans::out_of_domain() };
				for c in &order {
					let back_decl = spec_declares(&mrows, kind, y_i, x_i, &sphi(c), &key2);
					match decl_f(c) {
						None => if back_decl.is_some() { return Ans::out_of_domain(); },
						Some(v) => if v == key2 && back_decl != Some((nm.clone(), d.clone())) { return Ans::out_of_domain(); },
					}
				}
				match back_of(&key2) { Ok(Some(k)) if k == (nm, d) => Ans::pass(), Ok(_) => Ans::fail("differs"), Err(_) => Ans::fail("err") }
			}
			_ => Ans::BadOp("unknown op".into()),
		}
	}, Ans::BadOp("n".into()))
}

fn main() { main_for(&gen, &exec) }
