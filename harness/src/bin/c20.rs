//! C20: raw_class_file reads and writes class files byte-exactly.
//!
//! Values travel as generic `Val`s (see `fvh::rawval`); the conversions to the crate's types and the layout tables
//! that drive the generators are generated from raw_class_file/src/lib.rs (`fvh::rawcodec_gen`).
//! Only `ClassFile::{read, write, length}` are public, so every op works on whole class files.
use std::panic::{catch_unwind, AssertUnwindSafe};
use fvh::rawcodec_gen::*;
use fvh::rng::Rng;
use fvh::run::{main_for, Ans, Out, Tier};
use fvh::sexp::Sexp;
use raw_class_file::{ClassFile, CpInfo};

const CORPUS_DIR: &str = "/verif/corpus/c20";
/// javac output shared with C01/C02; only the classes with long/double constants are taken from there
const CLASSES_DIR: &str = "/verif/corpus/classes";

// ------------------------------------------------------------------ implementation side

fn write_class(c: &ClassFile) -> Option<Vec<u8>> {
	catch_unwind(AssertUnwindSafe(|| {
		let mut v = Vec::new();
		c.write(&mut v).expect("writing to a Vec cannot fail");
		v
	})).ok()
}

/// Ok(Some((class, rest))) read fine ; Ok(None) read returned Err ; Err(()) read panicked
fn read_class(b: &[u8]) -> Result<Option<(ClassFile, usize)>, ()> {
	catch_unwind(AssertUnwindSafe(|| {
		let mut cur: &[u8] = b;
		match ClassFile::read(&mut cur) {
			Ok(c) => Some((c, cur.len())),
			Err(_) => None,
		}
	})).map_err(|_| ())
}

fn panic_ans() -> Ans { Ans::ok_tag("panic") }

fn root_fits(v: &Val) -> bool {
	fits(DEFS, UTF8_VARIANT, WIDE_VARIANTS, None, &Vec::new(), &Ty::Ref(CLASS_FILE_ID), v)
}

/// JVMS conformance of what the implementation writes (domain: `fits`, long/double pool entries included): the output
/// is a well-framed class file for an independent reader
fn jvms_oracle(v: &Val, c: &ClassFile) -> Ans {
	if !root_fits(v) { return Ans::out_of_domain(); }
	let Some(b) = write_class(c) else { return Ans::fail("write-panics") };
	if fvh::jvmsframe::class_file(&b) { Ans::pass() } else { Ans::fail("not-framed") }
}

/// JVMS 4.1 / 4.4.5 on the crate's own type: one more than the slots of the entries, long and double take two
fn jvms_pool_count(c: &ClassFile) -> usize {
	1 + c.constant_pool.iter().map(|e| if matches!(e, CpInfo::Long { .. } | CpInfo::Double { .. }) { 2 } else { 1 }).sum::<usize>()
}

/// byte round trip on the domain of well-framed class files (long/double pool entries included)
fn rt_bytes_oracle(b: &[u8]) -> Ans {
	if !fvh::jvmsframe::class_file(b) { return Ans::out_of_domain(); }
	match read_class(b) {
		Ok(Some((c, rest))) => {
			if rest != 0 { return Ans::fail("rest-not-empty"); }
			match write_class(&c) {
				Some(b2) => if b2 == b { Ans::pass() } else { Ans::fail("bytes-differ") },
				None => Ans::fail("write-panics"),
			}
		}
		Ok(None) => Ans::fail("read-err"),
		Err(()) => Ans::fail("read-panics"),
	}
}

fn exec(op: &str, args: &[Sexp]) -> Ans {
	macro_rules! tr { ($e:expr) => { match $e { Ok(x) => x, Err(e) => return Ans::BadOp(e) } } }
	macro_rules! class { ($s:expr) => {{
		let v = tr!(val_from_sexp($s));
		match from_val_ClassFile(&v) { Some(c) => (v, c), None => return Ans::BadOp("not a ClassFile value".into()) }
	}} }
	match (op, args) {
		("raw-write", [v]) => {
			let (_, c) = class!(v);
			match write_class(&c) { Some(b) => Ans::Ok(Sexp::bytes(&b)), None => panic_ans() }
		}
		("raw-len", [v]) => {
			let (_, c) = class!(v);
			match catch_unwind(AssertUnwindSafe(|| c.length())) { Ok(n) => Ans::Ok(Sexp::nat(n)), Err(_) => panic_ans() }
		}
		("raw-read", [b]) => {
			let b = tr!(b.as_bytes());
			match read_class(&b) {
				Ok(Some((c, rest))) => Ans::Ok(Sexp::list(vec![val_to_sexp(&to_val_ClassFile(&c)), Sexp::nat(rest)])),
				Ok(None) => Ans::err(),
				Err(()) => panic_ans(),
			}
		}
		("raw-fits", [v]) => {
			let (v, _) = class!(v);
			Ans::Ok(Sexp::bool(root_fits(&v)))
		}
		("oracle-len", [v]) => {
			let (_, c) = class!(v);
			let Some(b) = write_class(&c) else { return Ans::out_of_domain() };
			match catch_unwind(AssertUnwindSafe(|| c.length())) {
				Ok(n) => if n == b.len() { Ans::pass() } else { Ans::fail("length-differs") },
				Err(_) => Ans::fail("len-panics"),
			}
		}
		("oracle-rt-val", [v]) => {
			let (v, c) = class!(v);
			if !root_fits(&v) { return Ans::out_of_domain(); }
			let Some(b) = write_class(&c) else { return Ans::fail("write-panics") };
			match read_class(&b) {
				// compared as the harness' generic values (not with the crate's own `PartialEq`)
				Ok(Some((c2, rest))) => if to_val_ClassFile(&c2) == v && rest == 0 { Ans::pass() } else { Ans::fail("value-differs") },
				Ok(None) => Ans::fail("read-err"),
				Err(()) => Ans::fail("read-panics"),
			}
		}
		("oracle-rt-bytes-full", [b]) => { let b = tr!(b.as_bytes()); rt_bytes_oracle(&b) }
		// the request carries the value and its encoding by the harness' own JVMS tables (`fvh::jvmsenc`); the generator only
		// sends values inside the encoder's domain: what is written for the value is exactly that encoding
		("oracle-write-is-jvms", [v, b]) => {
			let (_, c) = class!(v);
			let b = tr!(b.as_bytes());
			match write_class(&c) { Some(b2) => if b2 == b { Ans::pass() } else { Ans::fail("bytes-differ") }, None => Ans::fail("write-panics") }
		}
		// ... and (sent when the pool names every attribute): reading that encoding gives the value back and consumes it all;
		// values are compared as the harness' generic values, not with the crate's `PartialEq`
		("oracle-read-jvms", [v, b]) => {
			let (v, _) = class!(v);
			let b = tr!(b.as_bytes());
			match read_class(&b) {
				Ok(Some((c2, rest))) => if to_val_ClassFile(&c2) == v && rest == 0 { Ans::pass() } else { Ans::fail("value-differs") },
				Ok(None) => Ans::fail("read-err"),
				Err(()) => Ans::fail("read-panics"),
			}
		}
		("oracle-jvms-full", [v]) => { let (v, c) = class!(v); jvms_oracle(&v, &c) }
		// theorem pool_count: bytes 8-9 of what is written are the JVMS constant_pool_count (as u16)
		("oracle-pool-count", [v]) => {
			let (_, c) = class!(v);
			let Some(b) = write_class(&c) else { return Ans::out_of_domain() };
			let want = (jvms_pool_count(&c) % 65536) as u16;
			if b.len() >= 10 && b[8..10] == want.to_be_bytes() { Ans::pass() } else { Ans::fail("count-differs") }
		}
		// the hand-written class of `fvh::rawgolden` (fields addressed by name): its generic value and its bytes
		("raw-golden", []) => {
			let c = fvh::rawgolden::golden();
			match write_class(&c) {
				Some(b) => Ans::Ok(Sexp::list(vec![val_to_sexp(&to_val_ClassFile(&c)), Sexp::bytes(&b)])),
				None => panic_ans(),
			}
		}
		("jvms-frame", [b]) => {
			let b = tr!(b.as_bytes());
			Ans::Ok(Sexp::bool(fvh::jvmsframe::class_file(&b)))
		}
		// `ConstsAgree` of the model (the checking reader accepts) = the implementation reads the bytes and writes the
		// consumed prefix back unchanged (theorems write_read / consts_agree_of_write)
		("raw-consts-agree", [b]) => {
			let b = tr!(b.as_bytes());
			Ans::Ok(Sexp::bool(match read_class(&b) {
				Ok(Some((c, rest))) => match write_class(&c) {
					Some(mut b2) => { b2.extend_from_slice(&b[b.len() - rest..]); b2 == b }
					None => false,
				},
				_ => false,
			}))
		}
		_ => Ans::BadOp("unknown op".into()),
	}
}

// ------------------------------------------------------------------ generators (table driven)

struct G<'a> {
	r: &'a mut Rng,
	/// attribute name -> JVMS constant-pool index (filled when the pool field is generated)
	names: Vec<(&'static [u8], u64)>,
	/// JVMS indices of Utf8 entries that are not attribute names / of entries that are not Utf8 / second (unusable)
	/// indices of long and double entries
	plain_utf8: Vec<u64>,
	non_utf8: Vec<u64>,
	second_slots: Vec<u64>,
	/// the JVMS constant_pool_count of the generated pool (first index past the end)
	pool_count: u64,
	max_depth: usize,
	/// probability (in 1/1000) of *not* solving tag-determined fields / of pointing an attribute at a wrong entry
	unfit_pm: usize,
	/// one-shot boundary length for the next counted vector with this count width and a small element type
	big: Option<(u8, usize)>,
	/// where long/double entries go in this class's pool (None: the pool has none)
	wide_mode: Option<usize>,
	hits: std::collections::BTreeMap<String, u64>,
}

fn all_guard_names() -> Vec<&'static [u8]> {
	let mut out = Vec::new();
	for d in DEFS { if let DefD::Enum { variants, .. } = d { for v in *variants { if let Some(g) = v.guard { out.push(g); } } } }
	out
}

fn ty_small(ty: &Ty) -> bool { matches!(ty, Ty::Prim(_)) }

/// JVMS 4.4.5, independent of `CpInfo::slots`: the variant is written with the tag of CONSTANT_Long / CONSTANT_Double
fn jvms_wide_variant(v: &VariantD) -> bool { matches!(v.tag.e, E::Lit(5) | E::Lit(6)) }
fn cp_variants() -> &'static [VariantD] { match &DEFS[CP_INFO_ID] { DefD::Enum { variants, .. } => variants, _ => &[] } }
fn jvms_wide(v: &Val) -> bool { matches!(v, Val::Node(k, _) if cp_variants().get(*k).map_or(false, jvms_wide_variant)) }
fn variant_index(def: usize, name: &str) -> usize {
	match &DEFS[def] { DefD::Enum { variants, .. } => variants.iter().position(|v| v.name == name).expect("variant"), _ => panic!("not an enum") }
}

const WIDE_MODES: &[&str] = &["first", "last", "adjacent", "before-attribute-name", "all-positions", "sprinkled"];

impl G<'_> {
	fn hit(&mut self, k: String) { *self.hits.entry(k).or_insert(0) += 1; }

	fn num(&mut self, bytes: u8) -> u64 {
		let max = (1u128 << (8 * bytes as u32)) as u64 - 1;
		match self.r.below(10) {
			0 => 0,
			1 => max,
			2 => max / 2 + 1,
			3 | 4 => self.r.next() % (max + 1),
			_ => self.r.below(40) as u64,
		}
	}

	fn vec_len(&mut self, cnt_bytes: Option<u8>, el: &Ty, depth: usize) -> usize {
		if let (Some((w, n)), Some(c)) = (self.big, cnt_bytes) {
			let cheap = match el { Ty::Prim(_) => true, Ty::Ref(id) => matches!(&DEFS[*id], DefD::Struct { .. }) && w == 1, _ => false };
			if w == c && cheap { self.big = None; self.hit(format!("boundary-count:u{}:{}", 8 * w as usize, n)); return n; }
		}
		if depth >= self.max_depth && !ty_small(el) { return 0; }
		match self.r.below(10) { 0..=2 => 0, 3..=5 => 1, 6..=8 => self.r.range(2, 3), _ => self.r.range(4, 8) }
	}

	fn ty(&mut self, ty: &Ty, depth: usize) -> Val {
		match ty {
			Ty::Prim(b) => Val::Num(self.num(*b)),
			Ty::VecCnt(c, el) => { let n = self.vec_len(Some(*c), el, depth); self.vec(el, n, depth) }
			Ty::VecLen(_, el) | Ty::VecSlots(_, _, el) => { let n = self.vec_len(None, el, depth); self.vec(el, n, depth) }
			Ty::Ref(id) => self.def(*id, depth + 1),
		}
	}

	fn vec(&mut self, el: &Ty, n: usize, depth: usize) -> Val {
		if let Ty::Prim(1) = el {
			// byte strings: printable-ish or arbitrary
			let arb = self.r.chance(1, 3);
			return Val::List((0..n).map(|_| Val::Num(if arb { self.r.below(256) as u64 } else { self.r.range(0x61, 0x7a) as u64 })).collect());
		}
		Val::List((0..n).map(|_| self.ty(el, depth)).collect())
	}

	/// a long or double entry with random halves
	fn wide_entry(&mut self) -> (Val, Option<&'static [u8]>) {
		let ks: Vec<usize> = cp_variants().iter().enumerate().filter(|(_, v)| jvms_wide_variant(v)).map(|(i, _)| i).collect();
		let k = *self.r.pick(&ks);
		(Val::Node(k, vec![Val::Num(self.num(4)), Val::Num(self.num(4))]), None)
	}

	fn pool(&mut self, el: &Ty, depth: usize) -> Val {
		// random entries (none of them long/double: those are placed below) + one Utf8 per attribute name, shuffled
		let mut entries: Vec<(Val, Option<&'static [u8]>)> = Vec::new();
		let extra = self.r.range(0, 12);
		for _ in 0..extra { entries.push((self.ty(el, depth), None)); }
		// at least one Utf8 that is not an attribute name (what `Other` attributes point to)
		entries.push((Val::Node(UTF8_VARIANT, vec![Val::List(b"Custom".iter().map(|b| Val::Num(*b as u64)).collect())]), None));
		let all_names = self.r.chance(4, 5);
		for name in all_guard_names() {
			if all_names || self.r.chance(9, 10) {
				entries.push((Val::Node(UTF8_VARIANT, vec![Val::List(name.iter().map(|b| Val::Num(*b as u64)).collect())]), Some(name)));
			}
		}
		self.r.shuffle(&mut entries);
		// long/double entries: first, last, adjacent, in front of the Utf8 naming an attribute, everywhere, sprinkled
		if let Some(mode) = self.wide_mode {
			self.hit(format!("pool:wide-{}", WIDE_MODES[mode]));
			if mode == 5 {
				let mut out = Vec::new();
				for e in entries { if self.r.chance(1, 4) { out.push(self.wide_entry()); } out.push(e); }
				if self.r.chance(1, 4) { out.push(self.wide_entry()); }
				entries = out;
			} else {
				if mode == 1 || mode == 4 { let w = self.wide_entry(); entries.push(w); }
				if mode == 2 || mode == 4 {
					let at = self.r.below(entries.len() + 1);
					let (w1, w2) = (self.wide_entry(), self.wide_entry());
					entries.insert(at, w1); entries.insert(at, w2);
				}
				if mode == 3 || mode == 4 {
					let named: Vec<usize> = entries.iter().enumerate().filter(|(_, e)| e.1.is_some()).map(|(i, _)| i).collect();
					if !named.is_empty() {
						let at = *self.r.pick(&named);
						let w = self.wide_entry();
						entries.insert(at, w);
					}
				}
				if mode == 0 || mode == 4 { let w = self.wide_entry(); entries.insert(0, w); }
			}
		}
		self.names.clear(); self.plain_utf8.clear(); self.non_utf8.clear(); self.second_slots.clear();
		// JVMS indices: the first entry has index 1, a long/double entry takes two
		let mut idx = 1u64;
		for (v, name) in entries.iter() {
			match (v, name) {
				(_, Some(n)) => self.names.push((n, idx)),
				(Val::Node(k, _), None) if *k == UTF8_VARIANT => self.plain_utf8.push(idx),
				_ => self.non_utf8.push(idx),
			}
			if jvms_wide(v) { self.second_slots.push(idx + 1); idx += 2; } else { idx += 1; }
		}
		self.pool_count = idx;
		Val::List(entries.into_iter().map(|(v, _)| v).collect())
	}

	fn def(&mut self, id: usize, depth: usize) -> Val {
		match &DEFS[id] {
			DefD::Struct { body, .. } => Val::Node(0, self.body(body, depth, None)),
			DefD::Enum { name, variants, .. } => {
				let mut k = self.r.below(variants.len());
				// long/double pool entries are placed by `pool`
				while id == CP_INFO_ID && jvms_wide_variant(&variants[k]) { k = self.r.below(variants.len()); }
				let var = &variants[k];
				self.hit(format!("variant:{}::{}", name, var.name));
				let unfit = self.r.below(1000) < self.unfit_pm;
				// the tag the reader should see
				let target: Option<u64> = match (&var.pat, var.guard) {
					(PatD::Lit(n), _) => Some(*n),
					(PatD::Range(lo, hi), _) => Some(self.r.range(*lo as usize, *hi as usize) as u64),
					(PatD::Any, Some(g)) => {
						let found = self.names.iter().find(|(n, _)| *n == g).map(|(_, i)| *i);
						if found.is_none() { self.hit("attr-name-missing-in-pool".into()); }
						found
					}
					(PatD::Any, None) => if self.plain_utf8.is_empty() { None } else { Some(*self.r.pick(&self.plain_utf8.clone())) },
				};
				let target = if unfit {
					self.hit(format!("unfit-tag:{}", name));
					match self.r.below(6) {
						0 => Some(0),
						1 => Some(self.pool_count),
						2 => if self.non_utf8.is_empty() { None } else { Some(*self.r.pick(&self.non_utf8.clone())) },
						3 => if self.names.is_empty() { None } else { Some(self.r.pick(&self.names.clone()).1) },
						// the unusable second index of a long/double entry
						4 => if self.second_slots.is_empty() { None } else { Some(*self.r.pick(&self.second_slots.clone())) },
						_ => None,
					}
				} else { target };
				Val::Node(k, self.body(&var.body, depth, target.map(|t| (&var.tag.e, t))))
			}
		}
	}

	/// fields of a body; `solve` = (tag expression, wanted tag): the field the tag is computed from is set accordingly
	fn body(&mut self, body: &BodyD, depth: usize, solve: Option<(&E, u64)>) -> Vec<Val> {
		let mut out = Vec::new();
		// which field must take which value / length
		let mut fix_num: Option<(&str, u64)> = None;
		let mut fix_len: Option<(&str, usize)> = None;
		if let Some((e, t)) = solve {
			match e {
				E::Var(x) => fix_num = Some((x, t)),
				E::Add(E::Var(x), E::Lit(c)) if t >= *c => fix_num = Some((x, t - c)),
				E::Sub(E::Lit(c), E::Var(x)) if *c >= t => fix_num = Some((x, c - t)),
				E::Add(E::LenOf(x), E::Lit(c)) if t >= *c => fix_len = Some((x, (t - c) as usize)),
				E::Lit(_) => {}
				_ => self.hit("tag-expression-not-solved".into()),
			}
		}
		for f in body.fields {
			let v = match &f.kind {
				FieldKind::Field(ty, sets_pool) => {
					if *sets_pool { if let Ty::VecLen(_, el) | Ty::VecCnt(_, el) | Ty::VecSlots(_, _, el) = ty { self.pool(el, depth) } else { self.ty(ty, depth) } }
					else if let (Some((x, n)), Ty::VecLen(_, el) | Ty::VecCnt(_, el) | Ty::VecSlots(_, _, el)) = (fix_len, ty) {
						if x == f.name { self.vec(el, n, depth) } else { self.ty(ty, depth) }
					} else { self.ty(ty, depth) }
				}
				FieldKind::NoWrite(b, _) => Val::Num(self.num(*b)),
			};
			let v = match (fix_num, &v) { (Some((x, n)), Val::Num(_)) if x == f.name => Val::Num(n), _ => v };
			out.push(v);
		}
		out
	}
}

fn hex(b: &[u8]) -> Sexp { Sexp::bytes(b) }

/// walks the constant pool of a class file by the JVMS entry sizes; true iff a CONSTANT_Long / CONSTANT_Double is met
fn pool_has_wide_tag(b: &[u8]) -> bool {
	let count = ((b[8] as usize) << 8) | b[9] as usize;
	let (mut i, mut at) = (1usize, 10usize);
	while i < count && at < b.len() {
		let t = b[at];
		let size = match t {
			1 => { if at + 2 >= b.len() { return false; } 3 + (((b[at + 1] as usize) << 8) | b[at + 2] as usize) }
			3 | 4 | 9 | 10 | 11 | 12 | 17 | 18 => 5,
			5 | 6 => return true,
			7 | 8 | 16 | 19 | 20 => 3,
			15 => 4,
			_ => return false,
		};
		at += size; i += 1;
	}
	false
}

fn emit_value_ops(out: &mut Out, v: &Val, oracles: bool) {
	let s = val_to_sexp(v);
	out.op("raw-write", &[s.clone()]);
	out.op("raw-len", &[s.clone()]);
	if oracles {
		out.op("oracle-len", &[s.clone()]);
		out.op("oracle-rt-val", &[s.clone()]);
		out.op("oracle-jvms-full", &[s.clone()]);
		out.op("oracle-pool-count", &[s.clone()]);
	}
	out.op("raw-fits", &[s]);
}

fn mutate(r: &mut Rng, b: &[u8], out: &mut Out) {
	if b.is_empty() { return; }
	// truncation
	let cut = r.below(b.len());
	out.stats.hit("malformed:truncated");
	out.op("raw-read", &[hex(&b[..cut])]);
	// trailing garbage is not an error: the rest is reported
	let mut t = b.to_vec(); t.extend_from_slice(&[0xca, 0xfe]);
	out.stats.hit("malformed:trailing-bytes");
	out.op("raw-read", &[hex(&t)]);
	// byte mutations: anywhere, and biased to the header / pool count / first bytes after the pool
	for i in 0..5 {
		let mut m = b.to_vec();
		let pos = match i { 0 => r.below(4), 1 => 8 + r.below(2), _ => r.below(b.len()) }.min(b.len() - 1);
		let old = m[pos];
		m[pos] = match r.below(5) { 0 => 0, 1 => 0xff, 2 => old.wrapping_add(1), 3 => old.wrapping_sub(1), _ => r.below(256) as u8 };
		out.stats.hit(match i { 0 => "malformed:magic", 1 => "malformed:pool-count", _ => "malformed:random-byte" });
		out.op("raw-read", &[hex(&m)]);
		// a mutant that is still a well-framed class file must round-trip; `ConstsAgree` is compared on all of them
		out.op("oracle-rt-bytes-full", &[hex(&m)]);
		out.op("raw-consts-agree", &[hex(&m)]);
		if i == 4 { out.op("jvms-frame", &[hex(&m)]); }
	}
}

/// reader ops on one byte string (round trip, framing, read, `ConstsAgree`, mutants)
fn emit_bytes_ops(r: &mut Rng, b: &[u8], out: &mut Out, full: bool) {
	out.op("oracle-rt-bytes-full", &[hex(b)]);
	out.op("raw-read", &[hex(b)]);
	if full {
		out.op("jvms-frame", &[hex(b)]);
		out.op("raw-consts-agree", &[hex(b)]);
		mutate(r, b, out);
	}
}

/// Byte inputs that belong to the value `v`.  First the encoding by the harness' own JVMS tables (`fvh::jvmsenc`, bytes
/// the code under test did not produce) with the two oracles that tie it to the value; then what the implementation
/// writes for `v`, if that differs from the independent encoding or the value is outside the encoder's domain (a writer
/// that panics or frames wrongly no longer takes the reader ops away).
fn emit_bytes_for_value(r: &mut Rng, v: &Val, out: &mut Out, full: bool) {
	let enc = fvh::jvmsenc::encode_class(v).filter(|e| e.bytes.len() < 20000);
	if let Some(e) = &enc {
		out.stats.hit("jvms-enc:in-domain");
		out.op("oracle-write-is-jvms", &[val_to_sexp(v), hex(&e.bytes)]);
		if e.names_resolve {
			out.stats.hit("jvms-enc:pool-names-every-attribute");
			out.op("oracle-read-jvms", &[val_to_sexp(v), hex(&e.bytes)]);
		}
		out.stats.hit(&format!("bytes:{}", match e.bytes.len() { 0..=255 => "<256", 256..=1023 => "<1k", 1024..=4095 => "<4k", _ => ">=4k" }));
		out.stats.hit(if fvh::jvmsframe::class_file(&e.bytes) { "bytes:well-framed" } else { "bytes:not-in-rt-bytes-domain" });
		emit_bytes_ops(r, &e.bytes, out, full);
	} else { out.stats.hit("jvms-enc:out-of-domain"); }
	match from_val_ClassFile(v).and_then(|c| write_class(&c)) {
		Some(b) => if enc.as_ref().map_or(true, |e| e.bytes != b) {
			out.stats.hit(if enc.is_some() { "writer-bytes:differ-from-jvms-encoding" } else { "writer-bytes:value-outside-encoder-domain" });
			out.op("oracle-rt-bytes-full", &[hex(&b)]);
			out.op("jvms-frame", &[hex(&b)]);
			if b.len() < 20000 { out.op("raw-read", &[hex(&b)]); out.op("raw-consts-agree", &[hex(&b)]); if full { mutate(r, &b, out); } }
		},
		None => out.stats.hit("class:write-panics"),
	}
}

fn gen(r: &mut Rng, tier: Tier, out: &mut Out) {
	let rounds = if tier == Tier::Thorough { 6000 } else { 260 };
	let mut hits = std::collections::BTreeMap::new();
	let mut i = 0;
	loop {
		let mut g = G {
			r: &mut *r, names: vec![], plain_utf8: vec![], non_utf8: vec![], second_slots: vec![], pool_count: 1,
			max_depth: 3 + (i % 3), unfit_pm: if i % 4 == 3 { 60 } else { 0 }, big: None,
			// every third class has long/double entries in its pool; the placements take turns
			wide_mode: if i % 3 == 0 { Some((i / 3) % WIDE_MODES.len()) } else { None }, hits: std::mem::take(&mut hits),
		};
		if i % 16 == 5 {
			let choices: &[(u8, usize)] = &[(1, 255), (1, 256), (2, 255), (2, 256), (2, 65535), (2, 65536), (4, 65536), (2, 0), (2, 1)];
			g.big = Some(*g.r.pick(choices));
		}
		let v = g.def(CLASS_FILE_ID, 0);
		hits = std::mem::take(&mut g.hits);
		let fit = root_fits(&v);
		out.stats.hit(if fit { "class:fits" } else { "class:does-not-fit" });
		let has_wide = matches!(&v, Val::Node(_, fs) if matches!(fs.get(2), Some(Val::List(es)) if es.iter().any(jvms_wide)));
		out.stats.hit(if has_wide { "class:pool-with-long-double" } else { "class:pool-without-long-double" });
		if fit && has_wide { out.stats.hit("class:fits-with-long-double"); }
		emit_value_ops(out, &v, true);
		if has_wide && fvh::jvmsenc::encode_class(&v).map_or(false, |e| fvh::jvmsframe::class_file(&e.bytes)) { out.stats.hit("bytes:well-framed-with-long-double"); }
		emit_bytes_for_value(r, &v, out, true);
		i += 1;
		// every variant of every enum must have been generated a few times
		let mut min_hits = u64::MAX;
		for d in DEFS { if let DefD::Enum { name, variants, .. } = d { for v in *variants {
			min_hits = min_hits.min(*hits.get(&format!("variant:{}::{}", name, v.name)).unwrap_or(&0));
		} } }
		if i >= rounds && (min_hits >= 3 || i >= 4 * rounds) { break; }
	}
	for (k, n) in hits { out.stats.add(&k, n); }

	// the hand-written class whose fields are addressed by name (catches reordered fields of equal width)
	out.stats.hit("golden:named-fields-class");
	out.op("raw-golden", &[]);
	{
		let c = fvh::rawgolden::golden();
		emit_value_ops(out, &to_val_ClassFile(&c), true);
		// every attribute kind, frame kind, element value kind and pool entry kind at once in front of the JVMS frame walker
		// (oracle-jvms-full above), and as independently encoded bytes through the reader and the round trip
		emit_bytes_for_value(r, &to_val_ClassFile(&c), out, true);
	}

	// hand-made edge cases: empty input, header only, pool count 0 (u16 underflow in `constant_pool_count - 1`)
	for b in [&[][..], &[0xca, 0xfe, 0xba, 0xbe][..], &[0xca, 0xfe, 0xba, 0xbe, 0, 0, 0, 52, 0, 0][..],
	          &[0xca, 0xfe, 0xba, 0xbe, 0, 0, 0, 52, 0, 1, 0, 0, 0, 1, 0, 2, 0, 0, 0, 0, 0, 0, 0, 0][..]] {
		out.stats.hit("edge:handmade-bytes");
		out.op("raw-read", &[hex(b)]);
	}
	// one Long in the pool: the JVMS encoding (count 3), a pool that ends in the middle of the Long (count 2), one slot
	// more than the entries fill (count 4: the next byte is taken for a tag)
	for count in [3u8, 2, 4] {
		let mut b = vec![0xca, 0xfe, 0xba, 0xbe, 0, 0, 0, 52, 0, count, 5, 0, 0, 0, 0, 0, 0, 0, 1];
		b.extend_from_slice(&[0, 0x21, 0, 0, 0, 0, 0, 0, 0, 0, 0, 0, 0, 0]);
		out.stats.hit("edge:handmade-long-pool");
		out.op("raw-read", &[hex(&b)]);
		out.op("jvms-frame", &[hex(&b)]);
		out.op("oracle-rt-bytes-full", &[hex(&b)]);
		out.op("raw-consts-agree", &[hex(&b)]);
	}

	// small scope, enumerated: every pool of up to 3 entries over {Long, Double, Utf8 "Deprecated", Utf8 "Custom"} with one
	// class attribute whose name index runs over 0 ..= constant_pool_count (every entry, every unusable second index,
	// 0 and the first index past the end), once as `Deprecated` and once as an unknown attribute
	{
		let cpv = cp_variants();
		let long_k = cpv.iter().position(|v| matches!(v.tag.e, E::Lit(5))).expect("Long");
		let double_k = cpv.iter().position(|v| matches!(v.tag.e, E::Lit(6))).expect("Double");
		let utf8 = |s: &[u8]| Val::Node(UTF8_VARIANT, vec![Val::List(s.iter().map(|b| Val::Num(*b as u64)).collect())]);
		let alphabet = [Val::Node(long_k, vec![Val::Num(1), Val::Num(2)]), Val::Node(double_k, vec![Val::Num(3), Val::Num(4)]),
		                utf8(b"Deprecated"), utf8(b"Custom")];
		let deprecated_k = variant_index(ATTRIBUTE_INFO_ID, "Deprecated");
		let other_k = variant_index(ATTRIBUTE_INFO_ID, "Other");
		let mut pools: Vec<Vec<Val>> = vec![vec![]];
		let mut frontier: Vec<Vec<Val>> = vec![vec![]];
		for _ in 0..3 {
			let mut next = Vec::new();
			for p in &frontier { for a in &alphabet { let mut q = p.clone(); q.push(a.clone()); next.push(q); } }
			pools.extend(next.iter().cloned());
			frontier = next;
		}
		for pool in pools {
			let count: u64 = 1 + pool.iter().map(|e| if jvms_wide(e) { 2 } else { 1 }).sum::<u64>();
			for idx in 0..=count {
				for attr in [Val::Node(deprecated_k, vec![Val::Num(idx)]), Val::Node(other_k, vec![Val::Num(idx), Val::List(vec![Val::Num(7)])])] {
					let v = Val::Node(0, vec![Val::Num(0), Val::Num(52), Val::List(pool.clone()), Val::Num(0x21), Val::Num(0), Val::Num(0),
						Val::List(vec![]), Val::List(vec![]), Val::List(vec![]), Val::List(vec![attr])]);
					out.stats.hit(if root_fits(&v) { "small-scope:pool-x-name-index:fits" } else { "small-scope:pool-x-name-index:does-not-fit" });
					let s = val_to_sexp(&v);
					out.op("raw-write", &[s.clone()]);
					out.op("raw-fits", &[s.clone()]);
					out.op("oracle-rt-val", &[s.clone()]);
					out.op("oracle-jvms-full", &[s.clone()]);
					out.op("oracle-pool-count", &[s]);
					emit_bytes_for_value(r, &v, out, false);
				}
			}
		}
	}

	// javac-produced class files (compiled once from corpus/c20/src/*.java, see corpus/c20/README)
	let mut files: Vec<_> = std::fs::read_dir(CORPUS_DIR).map(|d| d.filter_map(|e| e.ok()).map(|e| e.path()).collect()).unwrap_or_else(|_| Vec::new());
	files.sort();
	let mut shared: Vec<_> = std::fs::read_dir(CLASSES_DIR).map(|d| d.filter_map(|e| e.ok()).map(|e| e.path())
		.filter(|p| p.file_name().and_then(|n| n.to_str()).map_or(false, |n| n.starts_with("Consts"))).collect()).unwrap_or_else(|_| Vec::new());
	shared.sort();
	files.extend(shared);
	for p in files {
		if p.extension().and_then(|e| e.to_str()) != Some("class") { continue; }
		let Ok(b) = std::fs::read(&p) else { continue };
		let name = p.file_name().and_then(|n| n.to_str()).unwrap_or("");
		// classes whose name starts with `kf_` were written to lie in the region of a defect (long/double pool entries,
		// NestMembers, MethodParameters); all three are repaired, so they are ordinary corpus files now.  No special
		// treatment: the domain predicates of the oracles decide.
		let in_domain = fvh::jvmsframe::class_file(&b);
		out.stats.hit(if in_domain { "corpus:javac-in-domain" } else { "corpus:javac-not-well-framed" });
		if in_domain && name.starts_with("kf_") { out.stats.hit("corpus:kf-file-in-domain"); }
		// an independent look at the tags of the pool: does the file hold long/double constants?
		if b.len() > 10 && pool_has_wide_tag(&b) { out.stats.hit("corpus:javac-with-long-double"); }
		out.op("raw-read", &[hex(&b)]);
		out.op("jvms-frame", &[hex(&b)]);
		out.op("oracle-rt-bytes-full", &[hex(&b)]);
		out.op("raw-consts-agree", &[hex(&b)]);
		if let Ok(Some((c, _))) = read_class(&b) {
			emit_value_ops(out, &to_val_ClassFile(&c), true);
		}
		mutate(r, &b, out);
	}
}

fn main() { main_for(&gen, &exec) }
