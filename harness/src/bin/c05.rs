//! C05: the version graph resolves each version to the root mappings plus the diffs on its path.
//!
//! The code under test is `/repo/src/version_graph.rs` of the binary crate, compiled in through `#[path]`; the items it
//! imports from `crate::` are defined below. Every case materialises a directory below `std::env::temp_dir()` (base 0)
//! or `/dev/shm` (base 1; tmpfs lists in reverse creation order, so the creation order controls the listing order
//! there), runs `VersionGraph::{resolve, get, apply_diffs}` on it and removes it again.
//!
//! Request: `<op> <base> (<file>…) (<query>…) [(<label>…)]`, `file := (<name> <rank> <content>)`,
//! `content := (tiny <mappings>) | (tinyw <mappings>) | (diff <diff>) | (raw x<bytes>)`, `label := (<node> <mappings>)`.
//! Files are created in ascending `rank`; they are *listed in the request in the order `read_dir` returned them* when the
//! generator probed the same creation sequence. `resolve` sorts the listing, so neither side's answer may depend on it:
//! a dependence of the implementation on the creation order shows up as a differing answer.
//!
//! Edge files. A `(diff …)` content must be inside the write/read fixed-point domain of the `.tinydiff` text as the
//! *specification* describes it (`diffgen::writable` + no `Edit(a, a)`; decided without the code under test); the file is
//! the specification text of that diff (`diffcodec::write_spec`). Whether `/repo` reads such a file back is *not* a
//! precondition of a case: a well-formed edge file that the implementation cannot read (or cannot apply) shows up as
//! an answer that differs from the model and as a failing `oracle-path-independent`, whose domain is evaluated with
//! the independent specification of diff application (`diffgen::spec_apply`), not with the code under test.
//! The generator likewise uses neither the `.tinydiff` reader nor `apply_to`: the diffs of the "direct" directories are
//! drawn by `diffgen::gen_diff_for` (the generator of C04) against the specification label of the parent version, the
//! diffs of the "history" directories are written down from the two labels (`g_diff`).
//!
//! Root files. A `(tiny m)` / `(tinyw m)` content is the mapping set as the generator made it; nothing of /repo filters
//! or normalises it. Its domain is decided on the request (`tiny_domain`); the file is the specification text written by
//! the harness (`spec_write_tiny`) or, for `tinyw`, the output of the writer of /repo. A reader that drops something, or
//! a writer whose output does not read back, shows up as a differing `vg` answer and as failing oracles.
//!
//! Oracles. `oracle-fold`, `oracle-path-independent` and `oracle-errors` take the graph, their domain and the expected
//! values from the request (`spec_graph`, `spec_contract`, `diffgen::spec_apply`, `spec_extend`); the implementation only
//! supplies the answers that are compared.
#![allow(dead_code, unused_imports, unused_variables, deprecated)]

#[path = "/repo/src/version_graph.rs"]
mod version_graph;
pub struct Intermediary;
pub struct Named;
pub struct Official;
pub mod download { pub mod versions_manifest { pub struct MinecraftVersion(pub String); } }

use std::collections::{BTreeMap, BTreeSet, VecDeque};
use std::path::{Path, PathBuf};
use std::sync::atomic::{AtomicUsize, Ordering};
use java_string::{JavaCodePoint, JavaString};
use quill::tree::mappings::Mappings;
use quill::tree::mappings_diff::MappingsDiff;
use fvh::diffcodec::{diff_from, diff_to, write_spec};
use fvh::diffgen::{act, canon_mappings, gen_diff_for, items, norm_diff, plain_cell, plain_doc, spec_apply, valid_class, valid_method, valid_unq, wf, writable, Act, DCfg, GDClass, GDMember, GDParam, GDiff, GA};
use fvh::mapcodec::{from_sexp, to_sexp, NsMarker};
use fvh::mapgen::{doc as gen_doc, gen_mappings, ident, GClass, GMappings, GMember, GParam, MapCfg};
use fvh::rng::Rng;
use fvh::run::{main_for, Ans, Out, Tier};
use fvh::sexp::Sexp;
use version_graph::{Split, VersionEntry, VersionGraph};

type RM = Mappings<2, (Intermediary, Named)>;

// =================================================================== canonical printing (entry order is not observed)

fn cps_of(s: &Sexp) -> Vec<u32> { s.as_cps().unwrap_or_default() }
fn str_cps(s: &str) -> Vec<u32> { s.chars().map(|c| c as u32).collect() }

fn sort_entries(list: &Sexp, key: impl Fn(&Sexp) -> (Vec<u32>, Vec<u32>), each: impl Fn(&Sexp) -> Sexp) -> Sexp {
	let mut v: Vec<Sexp> = list.as_list().map(|l| l.iter().map(&each).collect()).unwrap_or_default();
	v.sort_by_key(|e| key(e));
	Sexp::list(v)
}

fn nth(s: &Sexp, i: usize) -> Sexp { s.as_list().ok().and_then(|l| l.get(i).cloned()).unwrap_or(Sexp::list(vec![])) }

/// the `mapcodec` encoding with classes sorted by key, fields and methods by (name, descriptor), parameters by index
fn canon_sexp(m: &Sexp) -> Sexp {
	let member_key = |e: &Sexp| (cps_of(&nth(e, 0)), cps_of(&nth(e, 1)));
	let classes = sort_entries(&nth(m, 2), |c| (cps_of(&nth(c, 0)), vec![]), |c| {
		let fields = sort_entries(&nth(c, 3), member_key, |f| f.clone());
		let methods = sort_entries(&nth(c, 4), member_key, |me| {
			let params = sort_entries(&nth(me, 5), |p| (vec![nth(p, 0).as_nat().unwrap_or(0) as u32], vec![]), |p| p.clone());
			Sexp::list(vec![nth(me, 0), nth(me, 1), nth(me, 2), nth(me, 3), nth(me, 4), params])
		});
		Sexp::list(vec![nth(c, 0), nth(c, 1), nth(c, 2), fields, methods])
	});
	Sexp::list(vec![nth(m, 0), nth(m, 1), classes])
}

fn canon<const N: usize, Ns>(m: &Mappings<N, Ns>) -> Sexp { canon_sexp(&to_sexp(m)) }

// =================================================================== requests and directories

#[derive(Clone, Debug)]
enum Content {
	/// the file holds the specification text of the mapping set (`spec_write_tiny`, written without the code under test)
	Tiny(Sexp),
	/// the file holds what the WRITER of /repo (`quill::tiny_v2::write_vec`) makes of the mapping set: the way root files
	/// come into being in production. The content the request ships is the mapping set itself, never what a reader returns
	TinyW(Sexp),
	Diff(Sexp),
	Raw(Vec<u8>),
}

#[derive(Clone, Debug)]
struct FileSpec { name: String, rank: usize, content: Content }

const RAW_ALLOWED: &[&[u8]] = &[b"", b"garbage\n", b"tiny\t3\t0\n", &[255, 254, 10]];

impl Content {
	fn to_sexp(&self) -> Sexp {
		match self {
			Content::Tiny(s) => Sexp::list(vec![Sexp::tag("tiny"), s.clone()]),
			Content::TinyW(s) => Sexp::list(vec![Sexp::tag("tinyw"), s.clone()]),
			Content::Diff(s) => Sexp::list(vec![Sexp::tag("diff"), s.clone()]),
			Content::Raw(b) => Sexp::list(vec![Sexp::tag("raw"), Sexp::bytes(b)]),
		}
	}
	fn from_sexp(s: &Sexp) -> Result<Content, String> {
		match s.as_list()? {
			[Sexp::Atom(t), x] if t == "tiny" => Ok(Content::Tiny(x.clone())),
			[Sexp::Atom(t), x] if t == "tinyw" => Ok(Content::TinyW(x.clone())),
			[Sexp::Atom(t), x] if t == "diff" => Ok(Content::Diff(x.clone())),
			[Sexp::Atom(t), x] if t == "raw" => {
				let b = x.as_bytes()?;
				if RAW_ALLOWED.contains(&&b[..]) { Ok(Content::Raw(b)) } else { Err("raw content not in the fixed list".into()) }
			}
			_ => Err(format!("bad content {s}")),
		}
	}
	/// the bytes of the file; `Err` = the request is outside the codec domain. The domain of a `.tiny` content is decided on
	/// the request alone (`tiny_domain`), its text is written by the harness (`spec_write_tiny`): neither the reader nor the
	/// writer of /repo filters or normalises what a request ships
	fn bytes(&self) -> Result<Vec<u8>, String> {
		match self {
			Content::Tiny(s) => {
				if !tiny_domain(s) { return Err("tiny content is outside the domain of the Tiny v2 text".into()); }
				cps_to_bytes(&spec_write_tiny(s))
			}
			Content::TinyW(s) => {
				if !tiny_domain(s) { return Err("tiny content is outside the domain of the Tiny v2 text".into()); }
				let m: Mappings<2, NsMarker> = from_sexp(s)?;
				// a writer that refuses a mapping set of the domain leaves a file nobody can read: the case stays, and fails
				Ok(quill::tiny_v2::write_vec(&m).unwrap_or_else(|_| b"the writer refused this mapping set\n".to_vec()))
			}
			Content::Diff(s) => {
				let d = diff_from(s)?;
				if !writable(s) || norm_diff(s) != *s { return Err("diff content is outside the write/read fixed-point domain of the .tinydiff text".into()); }
				cps_to_bytes(&write_spec(&d))
			}
			Content::Raw(b) => Ok(b.clone()),
		}
	}
}


// =================================================================== the Tiny v2 text of a root file (specification side)

fn cps_to_bytes(cps: &[u32]) -> Result<Vec<u8>, String> {
	let mut js = JavaString::new();
	for &c in cps { js.push_java(JavaCodePoint::from_u32(c).ok_or("bad code point")?); }
	Ok(js.into_bytes())
}

/// a field descriptor at the front of `s`; returns the rest
fn field_desc_prefix(s: &[u32]) -> Option<&[u32]> {
	let mut s = s;
	while s.first() == Some(&('[' as u32)) { s = &s[1..]; }
	match char::from_u32(*s.first()?)? {
		'B' | 'C' | 'D' | 'F' | 'I' | 'J' | 'S' | 'Z' => Some(&s[1..]),
		'L' => { let end = s.iter().position(|&c| c == ';' as u32)?; if valid_class(&s[1..end]) { Some(&s[end + 1..]) } else { None } }
		_ => None,
	}
}
fn valid_field_desc(s: &[u32]) -> bool { field_desc_prefix(s).is_some_and(|r| r.is_empty()) }
fn valid_method_desc(s: &[u32]) -> bool {
	if s.first() != Some(&('(' as u32)) { return false; }
	let mut s = &s[1..];
	while s.first() != Some(&(')' as u32)) { match field_desc_prefix(s) { Some(r) => s = r, None => return false } }
	s[1..] == ['V' as u32] || valid_field_desc(&s[1..])
}

/// a names row the text can express: every name a non-empty cell (an empty cell means "no name") that is valid for its
/// level; `first` = the first namespace must have one (classes, fields, methods are stored under it)
fn names_ok(names: &Sexp, n: usize, first: bool, valid: fn(&[u32]) -> bool) -> bool {
	let row = items(names);
	row.len() == n && row.iter().enumerate().all(|(i, o)| match items(o) {
		[] => !(first && i == 0),
		[x] => { let c = cps_of(x); !c.is_empty() && plain_cell(&c) && valid(&c) }
		_ => false,
	})
}

fn doc_ok(d: &Sexp) -> bool { match items(d) { [] => true, [x] => plain_doc(&cps_of(x)), _ => false } }

/// The domain of the Tiny v2 text, decided on the `mapcodec` encoding of the request alone: two distinct non-empty
/// namespace names; every entry stored under the key its first name (+ descriptor / index) gives, keys unique at every
/// level (`diffgen::wf`); names non-empty, without TAB / LF / CR, valid for their level; descriptors well formed; comments
/// non-empty (an empty comment cell means "no comment") sequences of Unicode scalar values
fn tiny_domain(m: &Sexp) -> bool {
	let [ns, doc, classes] = items(m) else { return false };
	let nss: Vec<Vec<u32>> = items(ns).iter().map(cps_of).collect();
	if nss.len() != 2 || nss[0] == nss[1] || !nss.iter().all(|n| !n.is_empty() && plain_cell(n)) { return false; }
	let shaped = items(classes).iter().all(|c| { let c = items(c);
		c.len() == 5 && items(&c[3]).iter().all(|f| items(f).len() == 5)
			&& items(&c[4]).iter().all(|me| { let me = items(me); me.len() == 6 && items(&me[5]).iter().all(|p| items(p).len() == 4) }) });
	if !shaped || !doc_ok(doc) { return false; }
	let n = nss.len();
	let shapes_ok = items(classes).iter().all(|c| { let c = items(c);
		names_ok(&c[1], n, true, valid_class) && doc_ok(&c[2])
			&& items(&c[3]).iter().all(|f| { let f = items(f); valid_field_desc(&cps_of(&f[1])) && names_ok(&f[3], n, true, valid_unq) && doc_ok(&f[4]) })
			&& items(&c[4]).iter().all(|me| { let me = items(me);
				valid_method_desc(&cps_of(&me[1])) && names_ok(&me[3], n, true, valid_method) && doc_ok(&me[4])
					&& items(&me[5]).iter().all(|p| { let p = items(p); p[0].as_nat().is_ok() && names_ok(&p[2], n, false, valid_unq) && doc_ok(&p[3]) }) }) });
	shapes_ok && wf(m)
}

/// `escape` of the format: backslash, LF, CR and TAB are written as backslash + `\\`, `n`, `r`, `t`
fn esc_cps(s: &[u32], out: &mut Vec<u32>) {
	for &c in s {
		match c { 92 => out.extend([92, 92]), 10 => out.extend([92, 110]), 13 => out.extend([92, 114]), 9 => out.extend([92, 116]), _ => out.push(c) }
	}
}

/// Specification text of a mapping set of `tiny_domain` as code points, entries in the order of the request: header
/// `tiny 2 0 <namespaces>`, the set's comment `c <text>` one level deeper, per class `c <names>`, its comment, its fields
/// `f <desc> <names>`, its methods `m <desc> <names>` with their parameters `p <index> <names>`, every comment one level
/// below its entry; an absent name is an empty cell; comments are escaped
fn spec_write_tiny(m: &Sexp) -> Vec<u32> {
	fn line(out: &mut Vec<u32>, indent: usize, head: &str, cells: &[Vec<u32>]) {
		for _ in 0..indent { out.push(9); }
		out.extend(str_cps(head));
		for c in cells { out.push(9); out.extend_from_slice(c); }
		out.push(10);
	}
	fn names(row: &Sexp) -> Vec<Vec<u32>> { items(row).iter().map(|o| items(o).first().map(cps_of).unwrap_or_default()).collect() }
	fn doc(out: &mut Vec<u32>, indent: usize, d: &Sexp) {
		if let [x] = items(d) { let mut e = Vec::new(); esc_cps(&cps_of(x), &mut e); line(out, indent, "c", &[e]); }
	}
	let mut out = Vec::new();
	let mut head = vec![str_cps("2"), str_cps("0")];
	head.extend(items(&nth(m, 0)).iter().map(cps_of));
	line(&mut out, 0, "tiny", &head);
	doc(&mut out, 1, &nth(m, 1));
	for c in items(&nth(m, 2)) {
		let c = items(c);
		line(&mut out, 0, "c", &names(&c[1]));
		doc(&mut out, 1, &c[2]);
		for f in items(&c[3]) {
			let f = items(f);
			let mut cells = vec![cps_of(&f[2])]; cells.extend(names(&f[3]));
			line(&mut out, 1, "f", &cells);
			doc(&mut out, 2, &f[4]);
		}
		for me in items(&c[4]) {
			let me = items(me);
			let mut cells = vec![cps_of(&me[2])]; cells.extend(names(&me[3]));
			line(&mut out, 1, "m", &cells);
			doc(&mut out, 2, &me[4]);
			for p in items(&me[5]) {
				let p = items(p);
				let mut cells = vec![str_cps(&p[1].as_nat().unwrap_or(0).to_string())]; cells.extend(names(&p[2]));
				line(&mut out, 2, "p", &cells);
				doc(&mut out, 3, &p[3]);
			}
		}
	}
	out
}

impl FileSpec {
	fn to_sexp(&self) -> Sexp { Sexp::list(vec![Sexp::str(&self.name), Sexp::nat(self.rank), self.content.to_sexp()]) }
	fn from_sexp(s: &Sexp) -> Result<FileSpec, String> {
		let [n, r, c] = s.as_list()? else { return Err("file: expected 3 items".into()) };
		let name = n.as_string()?;
		if name.is_empty() || name == "." || name == ".." || name.contains('/') || name.contains('\0') || name.len() > 255 {
			return Err(format!("not a file name: {name:?}"));
		}
		Ok(FileSpec { name, rank: r.as_nat()?, content: Content::from_sexp(c)? })
	}
}

struct Req { base: usize, files: Vec<FileSpec>, queries: Vec<String> }

fn parse_req(base: &Sexp, files: &Sexp, queries: &Sexp) -> Result<Req, String> {
	let base = base.as_nat()?;
	if base > 1 { return Err("base".into()); }
	let files: Vec<FileSpec> = files.as_list()?.iter().map(FileSpec::from_sexp).collect::<Result<_, _>>()?;
	let names: BTreeSet<&str> = files.iter().map(|f| f.name.as_str()).collect();
	if names.len() != files.len() { return Err("duplicate file name".into()); }
	let queries = queries.as_list()?.iter().map(|q| q.as_string()).collect::<Result<_, _>>()?;
	Ok(Req { base, files, queries })
}

struct TempDir(PathBuf);
impl Drop for TempDir { fn drop(&mut self) { let _ = std::fs::remove_dir_all(&self.0); } }

fn base_dir(base: usize) -> Option<PathBuf> {
	match base {
		0 => Some(std::env::temp_dir()),
		1 => { let p = PathBuf::from("/dev/shm"); if p.is_dir() { Some(p) } else { None } }
		_ => None,
	}
}

static COUNTER: AtomicUsize = AtomicUsize::new(0);

fn mk_temp(base: usize) -> Option<TempDir> {
	let b = base_dir(base)?;
	for _ in 0..16 {
		let n = COUNTER.fetch_add(1, Ordering::Relaxed);
		let nanos = std::time::SystemTime::now().duration_since(std::time::UNIX_EPOCH).map(|d| d.subsec_nanos()).unwrap_or(0);
		let p = b.join(format!("fvh-c05-{}-{}-{}", std::process::id(), n, nanos));
		if std::fs::create_dir(&p).is_ok() { return Some(TempDir(p)); }
	}
	None
}

/// creates the files in the given order; `Err` on a content outside the codec domain, `Ok(None)` when the base is missing.
/// (Whether the implementation reads a `.tinydiff` back is deliberately not checked here, see the module comment.)
fn materialize(base: usize, files: &[&FileSpec]) -> Result<Option<TempDir>, String> {
	let Some(td) = mk_temp(base) else { return Ok(None) };
	for f in files {
		let bytes = f.content.bytes()?;
		let p = td.0.join(&f.name);
		std::fs::write(&p, bytes).map_err(|e| format!("cannot create {:?}: {e}", f.name))?;
	}
	Ok(Some(td))
}

fn by_rank(files: &[FileSpec]) -> Vec<&FileSpec> {
	let mut v: Vec<&FileSpec> = files.iter().collect();
	v.sort_by_key(|f| f.rank);
	v
}

fn listing(dir: &Path) -> Vec<String> {
	std::fs::read_dir(dir).map(|rd| rd.filter_map(|e| e.ok().and_then(|e| e.file_name().into_string().ok())).collect()).unwrap_or_default()
}

// =================================================================== what the file names say (specification side)

/// version strings of a file name in registration order; `None` = `.tinydiff` stem without `#`
fn file_versions(name: &str) -> Option<Vec<String>> {
	if let Some(v) = name.strip_suffix(".tiny") { Some(vec![v.to_owned()]) }
	else if let Some(raw) = name.strip_suffix(".tinydiff") { raw.split_once('#').map(|(p, c)| vec![c.to_owned(), p.to_owned()]) }
	else { Some(vec![]) }
}

fn keys_of(vs: &str) -> Vec<&str> { match vs.split_once('~') { Some((c, s)) => vec![c, s], None => vec![vs] } }

fn dir_versions(names: &[&str]) -> Vec<String> { names.iter().flat_map(|n| file_versions(n).unwrap_or_default()).collect() }

/// no two different version strings share a lookup key (distribution only: nothing is restricted to these directories)
fn well_formed(names: &[&str]) -> bool {
	let vss = dir_versions(names);
	vss.iter().all(|a| vss.iter().all(|b| a == b || keys_of(a).iter().all(|k| !keys_of(b).contains(k))))
}

fn is_split(vs: &str) -> bool { vs.contains('~') }

/// how key `k` refers to the version string `vs`
fn key_kind(k: &str, vs: &str) -> Option<Split> {
	match vs.split_once('~') {
		Some((c, s)) => if k == c { Some(Split::First) } else if k == s { Some(Split::Second) } else { None },
		None => if k == vs { Some(Split::None) } else { None },
	}
}

/// the `client~server` version string of the directory that has `k` as a half
fn owner_of<'a>(vss: &'a [String], k: &str) -> Option<(Split, &'a str)> {
	vss.iter().filter(|n| is_split(n)).find_map(|n| key_kind(k, n).map(|sp| (sp, n.as_str())))
}

/// the node a version string of a file name stands for
fn node_of(vss: &[String], vs: &str) -> String {
	if is_split(vs) { return vs.to_owned(); }
	owner_of(vss, vs).map(|(_, n)| n.to_owned()).unwrap_or_else(|| vs.to_owned())
}

/// two different `client~server` version strings share a half
fn ambiguous(vss: &[String]) -> bool {
	let sp: Vec<&String> = vss.iter().filter(|n| is_split(n)).collect();
	sp.iter().any(|a| sp.iter().any(|b| a != b && keys_of(a).iter().any(|k| keys_of(b).contains(k))))
}

/// the version strings that are the name of a node
fn node_strings(vss: &[String]) -> BTreeSet<String> {
	vss.iter().filter(|v| is_split(v) || owner_of(vss, v).is_none()).cloned().collect()
}

/// (parent node, child node, file name) of every diff file with a well-formed name
fn node_edges(names: &[&str]) -> Vec<(String, String, String)> {
	let vss = dir_versions(names);
	names.iter().filter_map(|n| n.strip_suffix(".tinydiff").and_then(|raw| raw.split_once('#')).map(|(p, c)| (node_of(&vss, p), node_of(&vss, c), (*n).to_owned()))).collect()
}

/// two diff files join the same ordered pair of nodes
fn dup_edges(names: &[&str]) -> bool {
	let es = node_edges(names);
	let pairs: BTreeSet<(&String, &String)> = es.iter().map(|(p, c, _)| (p, c)).collect();
	pairs.len() != es.len()
}

// =================================================================== the implementation's answer

fn split_tag(s: Split) -> Sexp { Sexp::tag(match s { Split::None => "none", Split::First => "first", Split::Second => "second" }) }

struct Resolved<'a> {
	g: &'a VersionGraph,
	nodes: Vec<(String, VersionEntry<'a>)>,
	root: VersionEntry<'a>,
	root_m: &'a RM,
	/// children by name, one entry per node pair
	adj: BTreeMap<String, Vec<String>>,
	dist: BTreeMap<String, usize>,
}

fn analyse(g: &VersionGraph) -> Option<Resolved<'_>> {
	let mut nodes: Vec<(String, VersionEntry)> = g.versions().map(|v| (v.as_str().to_owned(), v)).collect();
	nodes.sort_by_key(|(n, _)| str_cps(n));
	let (root, root_m) = nodes.iter().find_map(|(_, v)| g.is_root_then_get_mappings(*v).map(|m| (*v, m)))?;
	let mut adj: BTreeMap<String, Vec<String>> = BTreeMap::new();
	for (n, v) in &nodes {
		let mut cs: Vec<String> = g.children(*v).map(|c| c.as_str().to_owned()).collect();
		cs.sort(); cs.dedup();
		adj.insert(n.clone(), cs);
	}
	let mut dist = BTreeMap::new();
	dist.insert(root.as_str().to_owned(), 0usize);
	let mut q: VecDeque<String> = [root.as_str().to_owned()].into();
	while let Some(n) = q.pop_front() {
		let d = dist[&n];
		for c in adj.get(&n).cloned().unwrap_or_default() {
			if !dist.contains_key(&c) { dist.insert(c.clone(), d + 1); q.push_back(c); }
		}
	}
	Some(Resolved { g, nodes, root, root_m, adj, dist })
}

impl<'a> Resolved<'a> {
	fn entry(&self, name: &str) -> Option<VersionEntry<'a>> { self.nodes.iter().find(|(n, _)| n == name).map(|(_, v)| *v) }

	fn shortest_paths(&self, target: &str) -> Vec<Vec<String>> {
		let Some(&dt) = self.dist.get(target) else { return vec![] };
		let mut out = Vec::new();
		let mut path = vec![self.root.as_str().to_owned()];
		self.rec(target, dt, &mut path, &mut out);
		out
	}
	fn rec(&self, target: &str, dt: usize, path: &mut Vec<String>, out: &mut Vec<Vec<String>>) {
		let cur = path.last().cloned().unwrap_or_default();
		if cur == target { out.push(path.clone()); return; }
		let dc = self.dist[&cur];
		if dc >= dt { return; }
		for c in self.adj.get(&cur).cloned().unwrap_or_default() {
			if self.dist.get(&c) == Some(&(dc + 1)) { path.push(c); self.rec(target, dt, path, out); path.pop(); }
		}
	}

	/// root mappings, diffs of the path applied in order, inner class names extended; `None` = some step fails
	fn fold(&self, path: &[String]) -> Option<String> {
		let mut m: RM = self.root_m.clone();
		for w in path.windows(2) {
			let d = self.g.get_diff(self.entry(&w[0])?, self.entry(&w[1])?).ok()??;
			m = d.apply_to(m, "named").ok()?;
		}
		m.extend_inner_class_names("named").ok().map(|m| canon(&m).to_string())
	}

	/// the results the property allows for `target`: one per shortest root path
	fn admissible(&self, target: &str) -> Vec<Option<String>> {
		let mut v: Vec<Option<String>> = self.shortest_paths(target).iter().map(|p| self.fold(p)).collect();
		v.sort(); v.dedup();
		v
	}

	fn actual(&self, v: VersionEntry<'a>) -> Option<String> { self.g.apply_diffs(v).ok().map(|m| canon(&m).to_string()) }
}

fn res_sexp(r: &Option<String>) -> Sexp {
	match r { Some(s) => Sexp::list(vec![Sexp::tag("ok"), Sexp::Atom(s.clone())]), None => Sexp::tag("err") }
}

fn vg_answer(req: &Req, dir: &Path) -> Option<Sexp> { vg_answer_with(req, dir, false) }

/// `raw`: with the answer of `apply_diffs` for every version as it is, also where several are admissible (only compared
/// between runs of the implementation, never with the model)
/// How many different answers the property allows for a version (the `apply` column) is decided on the request
/// (`SpecGraph::admissible`) wherever the property says the directory resolves; only for a directory that resolves although
/// it must not (reported by `oracle-errors`) the count falls back to the graph the implementation built.
fn vg_answer_with(req: &Req, dir: &Path, raw: bool) -> Option<Sexp> {
	let queries = &req.queries;
	let sg = spec_graph(req).ok();
	let g = VersionGraph::resolve(dir).ok()?;
	let r = analyse(&g)?;
	let mut edges: Vec<(Vec<u32>, Vec<u32>, String, String)> = Vec::new();
	for (n, v) in &r.nodes {
		for c in g.children(*v) { edges.push((str_cps(n), str_cps(c.as_str()), n.clone(), c.as_str().to_owned())); }
	}
	edges.sort();
	let tagged = |t: &str, mut v: Vec<Sexp>| { v.insert(0, Sexp::tag(t)); Sexp::list(v) };
	let mut out = vec![
		Sexp::list(vec![Sexp::tag("root"), Sexp::str(r.root.as_str()), canon(r.root_m)]),
		tagged("nodes", r.nodes.iter().map(|(n, v)| Sexp::list(vec![Sexp::str(n), Sexp::nat(v.depth())])).collect()),
		tagged("edges", edges.iter().map(|(_, _, p, c)| Sexp::list(vec![Sexp::str(p), Sexp::str(c)])).collect()),
		tagged("get", queries.iter().map(|q| Sexp::list(vec![Sexp::str(q),
			Sexp::opt(g.get(q).ok(), |(sp, v)| Sexp::list(vec![split_tag(sp), Sexp::str(v.as_str())]))])).collect()),
		tagged("apply", r.nodes.iter().map(|(n, v)| {
			let actual = r.actual(*v);
			let (k, member) = match &sg {
				Some(sg) => { let adm = sg.admissible(n); (adm.len(), adm.contains(&actual_of(&g, *v))) }
				None => { let adm = r.admissible(n); (adm.len(), adm.contains(&actual)) }
			};
			let shown = match k {
				0 => Sexp::list(vec![Sexp::tag("unreachable"), Sexp::bool(actual.is_none())]),
				1 => res_sexp(&actual),
				k => Sexp::list(vec![Sexp::tag("amb"), Sexp::nat(k), Sexp::bool(member)]),
			};
			Sexp::list(vec![Sexp::str(n), shown])
		}).collect()),
	];
	if raw { out.push(tagged("raw", r.nodes.iter().map(|(n, v)| Sexp::list(vec![Sexp::str(n), res_sexp(&r.actual(*v))])).collect())); }
	Some(Sexp::list(out))
}

// =================================================================== exec

enum Prepared { Dir(TempDir), Skip(String), Bad(String) }

/// the directory of a request, created by rank
fn prepare(req: &Req) -> Prepared {
	match materialize(req.base, &by_rank(&req.files)) {
		Ok(Some(td)) => Prepared::Dir(td),
		Ok(None) => Prepared::Skip("base-missing".into()),
		Err(e) => Prepared::Bad(e),
	}
}

/// What the REQUEST says (specification side; no call into the code under test): the graph of the file names, the root
/// content with the inner class names of namespace `named` contracted, the diff content of every edge file.
struct SpecGraph<'a> {
	root: String,
	/// the mapping set `resolve` must store for the root: `spec_contract` of the content of the root file
	root_m: Sexp,
	/// index of namespace `named`
	ns: usize,
	nodes: BTreeSet<String>,
	/// (parent, child, content of the diff file)
	edges: Vec<(String, String, &'a Content)>,
	adj: BTreeMap<String, Vec<String>>,
	dist: BTreeMap<String, usize>,
}

fn root_content_of(c: &Content) -> Option<&Sexp> { match c { Content::Tiny(s) | Content::TinyW(s) => Some(s), _ => None } }

/// `Err(tag)`: the property says `resolve` must fail on this directory (`Thm.C05.resolve_error_iff`), `tag` names the reason
fn spec_graph(req: &Req) -> Result<SpecGraph<'_>, &'static str> {
	let names: Vec<&str> = req.files.iter().map(|f| f.name.as_str()).collect();
	let vss = dir_versions(&names);
	let roots: Vec<&FileSpec> = req.files.iter().filter(|f| f.name.ends_with(".tiny")).collect();
	if names.iter().any(|n| file_versions(n).is_none()) { return Err("bad-name-accepted"); }
	if roots.is_empty() { return Err("no-root-accepted"); }
	if roots.len() >= 2 { return Err("two-roots-accepted"); }
	if ambiguous(&vss) { return Err("ambiguous-accepted"); }
	if dup_edges(&names) { return Err("second-diff-accepted"); }
	let root = node_of(&vss, roots[0].name.strip_suffix(".tiny").unwrap_or(""));
	let pairs: Vec<(String, String)> = node_edges(&names).into_iter().map(|(p, c, _)| (p, c)).collect();
	let reach = reach_from(&pairs, &root);
	if pairs.iter().any(|(p, c)| reach.contains(p) && reach_from(&pairs, c).contains(p)) { return Err("cycle-accepted"); }
	// the root file must be a Tiny v2 text whose namespaces include `named` (the only way the contraction can fail)
	let Some(content) = root_content_of(&roots[0].content) else { return Err("unreadable-root-accepted") };
	let ns = named_index(content);
	if ns == usize::MAX { return Err("unreadable-root-accepted"); }
	let mut edges = Vec::new();
	for (p, c, fname) in node_edges(&names) {
		let Some(f) = req.files.iter().find(|f| f.name == fname) else { continue };
		edges.push((p, c, &f.content));
	}
	let nodes = node_strings(&vss);
	let mut adj: BTreeMap<String, Vec<String>> = nodes.iter().map(|n| (n.clone(), Vec::new())).collect();
	for (p, c, _) in &edges { adj.entry(p.clone()).or_default().push(c.clone()); }
	for cs in adj.values_mut() { cs.sort(); cs.dedup(); }
	let mut dist = BTreeMap::new();
	dist.insert(root.clone(), 0usize);
	let mut q: VecDeque<String> = [root.clone()].into();
	while let Some(n) = q.pop_front() {
		let d = dist[&n];
		for c in adj.get(&n).cloned().unwrap_or_default() { if !dist.contains_key(&c) { dist.insert(c.clone(), d + 1); q.push_back(c); } }
	}
	Ok(SpecGraph { root, root_m: spec_contract(content, ns), ns, nodes, edges, adj, dist })
}

impl SpecGraph<'_> {
	fn shortest_paths(&self, target: &str) -> Vec<Vec<String>> {
		let Some(&dt) = self.dist.get(target) else { return vec![] };
		let mut out = Vec::new();
		let mut path = vec![self.root.clone()];
		self.rec(target, dt, &mut path, &mut out);
		out
	}
	fn rec(&self, target: &str, dt: usize, path: &mut Vec<String>, out: &mut Vec<Vec<String>>) {
		let cur = path.last().cloned().unwrap_or_default();
		if cur == target { out.push(path.clone()); return; }
		let dc = self.dist[&cur];
		if dc >= dt { return; }
		for c in self.adj.get(&cur).cloned().unwrap_or_default() {
			if self.dist.get(&c) == Some(&(dc + 1)) { path.push(c); self.rec(target, dt, path, out); path.pop(); }
		}
	}
	/// the property's value for a root path: the root mappings, the diffs of the edge files applied in order by the
	/// specification of diff application (`diffgen::spec_apply`), inner class names extended by the specification of the
	/// extension (`spec_extend`); `None` = some step must be refused (also: the edge file holds no diff)
	fn fold(&self, path: &[String]) -> Option<String> {
		let mut m = self.root_m.clone();
		for w in path.windows(2) {
			let (_, _, content) = self.edges.iter().find(|(p, c, _)| *p == w[0] && *c == w[1])?;
			let Content::Diff(d) = content else { return None };
			m = spec_apply(d, &m, &Sexp::str("named")).ok()?;
		}
		spec_extend(&m, self.ns).map(|m| canon_mappings(&m).to_string())
	}
	fn admissible(&self, target: &str) -> Vec<Option<String>> {
		let mut v: Vec<Option<String>> = self.shortest_paths(target).iter().map(|p| self.fold(p)).collect();
		v.sort(); v.dedup();
		v
	}
}

/// Specification of `extend_inner_class_names` on the `mapcodec` encoding: in namespace `ns` a class that has a name there
/// and whose source name (first namespace) is nested, `P$I` (split at the LAST `$`, `P` non-empty and not ending in `/`, `I`
/// non-empty without `/`), is called extended-name(`P`) + `$` + its own name, where extended-name(`P`) is the same rule
/// applied to the name the class with key `P` has in `ns`; every other class keeps its name. `None` = must be refused: a
/// class with a name in `ns` has no source name, or an outer class on the way is missing or has no name in `ns`
fn spec_extend(m: &Sexp, ns: usize) -> Option<Sexp> {
	let cs = items(&nth(m, 2)).to_vec();
	if ns == 0 || ns >= items(&nth(m, 0)).len() { return None; }
	fn outer(src: &[u32]) -> Option<&[u32]> {
		let k = src.iter().rposition(|&c| c == '$' as u32)?;
		if k > 0 && k + 1 < src.len() && src[k - 1] != '/' as u32 && !src[k + 1..].contains(&('/' as u32)) { Some(&src[..k]) } else { None }
	}
	fn ext(cs: &[Sexp], ns: usize, src: &[u32], own: Vec<u32>) -> Option<Vec<u32>> {
		let Some(p) = outer(src) else { return Some(own) };
		let pc = cs.iter().find(|c| cps_of(&nth(c, 0)) == p)?;
		let pname = items(&nth(pc, 1)).get(ns).and_then(|o| items(o).first().map(cps_of))?;
		let mut out = ext(cs, ns, p, pname)?;
		out.push('$' as u32);
		out.extend(own);
		Some(out)
	}
	let mut out = Vec::new();
	for c in &cs {
		let mut names = items(&nth(c, 1)).to_vec();
		if let Some(own) = names.get(ns).and_then(|o| items(o).first().map(cps_of)) {
			let src = items(&names[0]).first().map(cps_of)?;
			names[ns] = Sexp::list(vec![Sexp::cps(&ext(&cs, ns, &src, own)?)]);
		}
		out.push(Sexp::list(vec![nth(c, 0), Sexp::list(names), nth(c, 2), nth(c, 3), nth(c, 4)]));
	}
	Some(Sexp::list(vec![nth(m, 0), nth(m, 1), Sexp::list(out)]))
}

/// the answer of the implementation for a version in the comparison form of the specification side
fn actual_of(g: &VersionGraph, v: VersionEntry) -> Option<String> { g.apply_diffs(v).ok().map(|m| canon_mappings(&to_sexp(&m)).to_string()) }

/// `Thm.C05.apply_is_fold`, with the expected value computed from the REQUEST: for every version the file names describe,
/// `apply_diffs` answers the root content (contracted), with the diff contents of the edge files of a shortest root path
/// applied in order and the inner class names extended — each step by its specification (`spec_contract`,
/// `diffgen::spec_apply`, `spec_extend`), none by the code under test. Domain: the property says the directory resolves
fn oracle_fold(req: &Req, dir: &Path) -> Ans {
	let Ok(sg) = spec_graph(req) else { return Ans::out_of_domain() };
	let Ok(g) = VersionGraph::resolve(dir) else { return Ans::fail("rejected") };
	let by_name: BTreeMap<String, VersionEntry> = g.versions().map(|v| (v.as_str().to_owned(), v)).collect();
	let stored = g.versions().find_map(|v| g.is_root_then_get_mappings(v).map(|m| (v.as_str().to_owned(), canon_mappings(&to_sexp(m)))));
	match stored { Some((n, m)) if n == sg.root && m == canon_mappings(&sg.root_m) => {}, Some((n, _)) if n != sg.root => return Ans::fail("root-name"), Some(_) => return Ans::fail("root"), None => return Ans::fail("no-root-entry") }
	for n in &sg.nodes {
		let Some(v) = by_name.get(n) else { return Ans::fail("node-missing") };
		let actual = actual_of(&g, *v);
		let adm = sg.admissible(n);
		if adm.is_empty() { if actual.is_some() { return Ans::fail("no-path-answered"); } }
		else if !adm.contains(&actual) { return Ans::fail("fold"); }
		if sg.dist.get(n).copied().unwrap_or(0) != v.depth() { return Ans::fail("depth"); }
	}
	Ans::pass()
}

/// the whole answer (with the answer of `apply_diffs` as it is, also where several shortest paths exist) is the same in
/// other creation orders on both file systems; `all` = in every creation order of the files (at most 6) on tmpfs, where
/// the creation order decides the listing order
fn oracle_perm(req: &Req, all: bool) -> Ans {
	if all && req.files.len() > 6 { return Ans::out_of_domain(); }
	let ranked = by_rank(&req.files);
	let mut orders: Vec<Vec<&FileSpec>> = Vec::new();
	if all {
		for o in permutations(ranked.len()) { orders.push(o.iter().map(|&i| ranked[i]).collect()); }
	} else {
		orders.push(ranked.clone());
		orders.push(ranked.iter().rev().cloned().collect());
		let mut sorted = ranked.clone();
		sorted.sort_by_key(|f| f.name.clone());
		orders.push(sorted.clone());
		orders.push(sorted.iter().rev().cloned().collect());
		let mut rot = ranked.clone();
		if !rot.is_empty() { rot.rotate_left(1); }
		orders.push(rot);
	}
	let mut first: Option<Option<String>> = None;
	for base in 0..2 {
		for o in orders.iter().take(if base == 0 { 1 } else { orders.len() }) {
			let td = match materialize(base, o) { Ok(Some(td)) => td, Ok(None) => continue, Err(e) => return Ans::BadOp(e) };
			let a = vg_answer_with(req, &td.0, true).map(|s| s.to_string());
			match &first { None => first = Some(a), Some(f) => if *f != a { return Ans::fail("order"); } }
		}
	}
	if first.is_none() { return Ans::Skip("base-missing".into()); }
	Ans::pass()
}

fn oracle_names(req: &Req, dir: &Path) -> Ans {
	let names: Vec<&str> = req.files.iter().map(|f| f.name.as_str()).collect();
	let Ok(g) = VersionGraph::resolve(dir) else { return Ans::out_of_domain() };
	let vss = dir_versions(&names);
	let is = |q: &str, sp: Split, node: &str| matches!(g.get(q), Ok((s, v)) if s == sp && v.as_str() == node);
	for vs in &vss {
		let ok = match vs.split_once('~') {
			// a plain name that is a half of a `client~server` version stands for that version
			None => match owner_of(&vss, vs) { Some((sp, n)) => is(vs, sp, n), None => is(vs, Split::None, vs) },
			Some((c, s)) => is(c, Split::First, vs) && (s == c || is(s, Split::Second, vs)),
		};
		if !ok { return Ans::fail("names"); }
	}
	for q in &req.queries {
		let known = vss.iter().any(|vs| keys_of(vs).contains(&q.as_str()));
		if !known && g.get(q).is_ok() { return Ans::fail("unknown"); }
	}
	Ans::pass()
}

fn reach_from(edges: &[(String, String)], start: &str) -> BTreeSet<String> {
	let mut seen: BTreeSet<String> = [start.to_owned()].into();
	loop {
		let next: Vec<String> = edges.iter().filter(|(p, c)| seen.contains(p) && !seen.contains(c)).map(|(_, c)| c.clone()).collect();
		if next.is_empty() { return seen; }
		seen.extend(next);
	}
}

fn oracle_errors(req: &Req, dir: &Path) -> Ans {
	let names: Vec<&str> = req.files.iter().map(|f| f.name.as_str()).collect();
	let vss = dir_versions(&names);
	let res = VersionGraph::resolve(dir);
	let roots: Vec<&FileSpec> = req.files.iter().filter(|f| f.name.ends_with(".tiny")).collect();
	let bad = names.iter().any(|n| file_versions(n).is_none());
	let must_fail = |tag: &str| if res.is_err() { Ans::pass() } else { Ans::fail(tag) };
	if bad { return must_fail("bad-name-accepted"); }
	if roots.is_empty() { return must_fail("no-root-accepted"); }
	if roots.len() >= 2 { return must_fail("two-roots-accepted"); }
	if ambiguous(&vss) { return must_fail("ambiguous-accepted"); }
	if dup_edges(&names) { return must_fail("second-diff-accepted"); }
	let root_name = node_of(&vss, roots[0].name.strip_suffix(".tiny").unwrap_or(""));
	let edges: Vec<(String, String)> = node_edges(&names).into_iter().map(|(p, c, _)| (p, c)).collect();
	let reach = reach_from(&edges, &root_name);
	let cyc = edges.iter().any(|(p, c)| reach.contains(p) && reach_from(&edges, c).contains(p));
	if cyc { return must_fail("cycle-accepted"); }
	match res {
		Err(_) => {
			// the only remaining reason is an unreadable root
			let readable = match &roots[0].content {
				Content::Tiny(s) => from_sexp::<2, NsMarker>(s).ok().map(|m| m.contract_inner_class_names("named").is_ok()).unwrap_or(false),
				_ => false,
			};
			if readable { Ans::fail("rejected") } else { Ans::pass() }
		}
		Ok(g) => {
			let nodes: BTreeSet<String> = g.versions().map(|v| v.as_str().to_owned()).collect();
			if nodes != node_strings(&vss) || nodes.len() != g.versions().count() { return Ans::fail("nodes"); }
			for v in g.versions() {
				let n = v.as_str();
				if reach.contains(n) {
					if n != root_name && v.depth() == 0 { return Ans::fail("reachability"); }
				} else if g.apply_diffs(v).is_ok() || v.depth() != 0 { return Ans::fail("reachability"); }
			}
			Ans::pass()
		}
	}
}

/// specification of `contract_inner_class_names` on the `mapcodec` encoding: in namespace `ns` a class name `P$I` with
/// non-empty `P` not ending in `/` and non-empty `I` without `/` (split at the LAST `$`) becomes `I`; everything else —
/// other namespaces, keys, members, comments (the mapping set's own included) — is what it was
fn spec_contract(m: &Sexp, ns: usize) -> Sexp {
	let classes = nth(m, 2).as_list().map(|l| l.iter().map(|c| {
		let names: Vec<Sexp> = nth(c, 1).as_list().map(|l| l.to_vec()).unwrap_or_default();
		let names = Sexp::list(names.iter().enumerate().map(|(i, o)| {
			if i != ns { return o.clone(); }
			let Ok(Some(x)) = o.as_opt() else { return o.clone() };
			let cps = cps_of(x);
			match cps.iter().rposition(|&c| c == '$' as u32) {
				Some(k) if k > 0 && k + 1 < cps.len() && cps[k - 1] != '/' as u32 && !cps[k + 1..].contains(&('/' as u32)) =>
					Sexp::list(vec![Sexp::cps(&cps[k + 1..])]),
				_ => o.clone(),
			}
		}).collect());
		Sexp::list(vec![nth(c, 0), names, nth(c, 2), nth(c, 3), nth(c, 4)])
	}).collect()).unwrap_or_default();
	Sexp::list(vec![nth(m, 0), nth(m, 1), Sexp::list(classes)])
}

fn named_index(m: &Sexp) -> usize {
	nth(m, 0).as_list().ok().and_then(|l| l.iter().position(|n| cps_of(n) == str_cps("named"))).unwrap_or(usize::MAX)
}

fn oracle_path_independent(req: &Req, dir: &Path, labels: &Sexp) -> Ans {
	let names: Vec<&str> = req.files.iter().map(|f| f.name.as_str()).collect();
	let mut lab: BTreeMap<String, RM> = BTreeMap::new();
	let Ok(ls) = labels.as_list() else { return Ans::BadOp("labels".into()) };
	for l in ls {
		let Ok([n, m]) = l.as_list() else { return Ans::BadOp("label".into()) };
		let (Ok(n), Ok(m)) = (n.as_string(), from_sexp::<2, (Intermediary, Named)>(m)) else { return Ans::BadOp("label".into()) };
		lab.entry(n).or_insert(m);
	}
	// Everything below is decided on the request: the graph is the one the file names describe, the domain is evaluated with
	// the specifications of contraction and diff application on the contents the request gives, the expected value with the
	// specification of the extension. A node or an edge the implementation lost is a failure, not a skip.
	let Ok(sg) = spec_graph(req) else { return Ans::out_of_domain() };
	// domain: the root label is the contracted root content, and the labels are consistent with every diff file
	match lab.get(&sg.root) { Some(m) if canon_mappings(&to_sexp(m)) == canon_mappings(&sg.root_m) => {}, _ => return Ans::out_of_domain() }
	for (p, c, content) in &sg.edges {
		let Some(mp) = lab.get(p) else { continue };
		let Content::Diff(d) = content else { return Ans::out_of_domain() };
		let Ok(mc) = spec_apply(d, &to_sexp(mp), &Sexp::str("named")) else { return Ans::out_of_domain() };
		match lab.get(c) { Some(lc) if canon_mappings(&to_sexp(lc)) == mc => {}, _ => return Ans::out_of_domain() }
	}
	let Ok(g) = VersionGraph::resolve(dir) else { return Ans::fail("rejected") };
	let by_name: BTreeMap<String, VersionEntry> = g.versions().map(|v| (v.as_str().to_owned(), v)).collect();
	for n in &sg.nodes {
		if !sg.dist.contains_key(n) { continue; }
		let Some(v) = by_name.get(n) else { return Ans::fail("node-missing") };
		let Some(mv) = lab.get(n) else { return Ans::fail("path") };
		let expected = spec_extend(&to_sexp(mv), sg.ns).map(|m| canon_mappings(&m).to_string());
		if actual_of(&g, *v) != expected { return Ans::fail("path"); }
	}
	Ans::pass()
}

fn exec(op: &str, args: &[Sexp]) -> Ans {
	let (req, labels) = match (op, args) {
		("vg" | "oracle-fold" | "oracle-perm-full" | "oracle-perm-all" | "oracle-names" | "oracle-errors", [b, fs, qs]) => (parse_req(b, fs, qs), None),
		("oracle-path-independent", [b, fs, qs, ls]) => (parse_req(b, fs, qs), Some(ls)),
		_ => return Ans::BadOp("unknown op".into()),
	};
	let req = match req { Ok(r) => r, Err(e) => return Ans::BadOp(e) };
	// every content must be in the codec domain, whatever the op does with it
	for f in &req.files { if let Err(e) = f.content.bytes() { return Ans::BadOp(e); } }
	if op == "oracle-perm-full" || op == "oracle-perm-all" { return oracle_perm(&req, op == "oracle-perm-all"); }
	let td = match prepare(&req) { Prepared::Dir(td) => td, Prepared::Skip(w) => return Ans::Skip(w), Prepared::Bad(e) => return Ans::BadOp(e) };
	match op {
		"vg" => match vg_answer(&req, &td.0) { Some(s) => Ans::Ok(s), None => Ans::err() },
		"oracle-fold" => oracle_fold(&req, &td.0),
		"oracle-names" => oracle_names(&req, &td.0),
		"oracle-errors" => oracle_errors(&req, &td.0),
		_ => oracle_path_independent(&req, &td.0, labels.unwrap_or(&Sexp::list(vec![]))),
	}
}

// =================================================================== generator

fn fresh_doc(r: &mut Rng) -> String { (*r.pick(&["new doc", "other", "line1\nline2", "x\\y", " d", "q"])).to_owned() }

fn redoc(r: &mut Rng, d: &mut Option<String>) {
	match r.below(8) { 0 => *d = None, 1 | 2 => *d = Some(fresh_doc(r)), _ => {} }
}

/// one step of an edit history: renames, comment edits, additions and removals at every level (all target names stay present)
fn mutate(r: &mut Rng, m: &GMappings, cfg: &MapCfg) -> GMappings {
	let mut m = m.clone();
	if !m.classes.is_empty() && r.chance(1, 4) { let i = r.below(m.classes.len()); m.classes.remove(i); }
	for c in &mut m.classes {
		let nested = c.key().contains('$');
		if r.chance(1, 3) { c.names[1] = Some(if nested { ident(r, cfg) } else { format!("{}{}", r.pick(&["", "p/", "q/r/"]), ident(r, cfg)) }); }
		redoc(r, &mut c.doc);
		c.fields.retain(|_| !r.chance(1, 5));
		c.methods.retain(|_| !r.chance(1, 5));
		for f in &mut c.fields { if r.chance(1, 3) { f.names[1] = Some(ident(r, cfg)); } redoc(r, &mut f.doc); }
		for me in &mut c.methods {
			if r.chance(1, 3) { me.names[1] = Some(ident(r, cfg)); }
			redoc(r, &mut me.doc);
			me.params.retain(|_| !r.chance(1, 5));
			for p in &mut me.params { if r.chance(1, 3) { p.names[1] = Some(ident(r, cfg)); } redoc(r, &mut p.doc); }
			if r.chance(1, 4) {
				let index = r.below(5);
				if !me.params.iter().any(|p| p.index == index) {
					let src = if cfg.param_src_names && r.chance(1, 3) { Some(ident(r, cfg)) } else { None };
					me.params.push(GParam { index, names: vec![src, Some(ident(r, cfg))], doc: gen_doc(r, cfg) });
				}
			}
		}
		if r.chance(1, 4) {
			let name = ident(r, cfg);
			let desc = (*r.pick(&["I", "LFoo;", "[J"])).to_owned();
			if !c.fields.iter().any(|f| f.names[0].as_deref() == Some(&name) && f.desc == desc) {
				c.fields.push(GMember { desc, names: vec![Some(name), Some(ident(r, cfg))], doc: gen_doc(r, cfg), params: vec![] });
			}
		}
		if r.chance(1, 4) {
			let name = ident(r, cfg);
			let desc = (*r.pick(&["()V", "(I)I", "(LFoo;)V"])).to_owned();
			if !c.methods.iter().any(|f| f.names[0].as_deref() == Some(&name) && f.desc == desc) {
				c.methods.push(GMember { desc, names: vec![Some(name), Some(ident(r, cfg))], doc: gen_doc(r, cfg), params: vec![] });
			}
		}
		r.shuffle(&mut c.fields);
		r.shuffle(&mut c.methods);
	}
	if r.chance(1, 3) {
		let (key, target) = if !m.classes.is_empty() && r.chance(1, 2) {
			(format!("{}${}", r.pick(&m.classes).key(), ident(r, cfg)), ident(r, cfg))
		} else {
			(format!("{}{}", r.pick(&["", "p/", "n/m/"]), ident(r, cfg)), format!("{}{}", r.pick(&["", "p/"]), ident(r, cfg)))
		};
		if !m.classes.iter().any(|c| c.key() == key) {
			m.classes.push(GClass { names: vec![Some(key), Some(target)], doc: gen_doc(r, cfg), fields: vec![], methods: vec![] });
		}
	}
	r.shuffle(&mut m.classes);
	m
}

fn real(m: &GMappings) -> Option<RM> { from_sexp::<2, (Intermediary, Named)>(&m.to_sexp()).ok() }

/// the content of a root file: the mapping set as the generator made it (nothing of /repo looks at it before it is
/// shipped); `by_writer`: the file is produced by the writer of /repo instead of the specification text.
/// `None` = outside the domain of the Tiny v2 text (`tiny_domain`, decided on the S-expression alone)
fn tiny_content(m: &Sexp, by_writer: bool) -> Option<Content> {
	if !tiny_domain(m) { return None; }
	Some(if by_writer { Content::TinyW(m.clone()) } else { Content::Tiny(m.clone()) })
}

/// an empty comment cannot be written (an empty cell means "no comment"): labels never carry one
fn scrub(m: &mut GMappings) {
	fn f(d: &mut Option<String>) { if d.as_deref() == Some("") { *d = None; } }
	f(&mut m.doc);
	for c in &mut m.classes {
		f(&mut c.doc);
		for x in &mut c.fields { f(&mut x.doc); }
		for x in &mut c.methods { f(&mut x.doc); for p in &mut x.params { f(&mut p.doc); } }
	}
}

/// "history" directories: the diff `MappingsDiff::diff(a, b)` of /repo, brought into the normal form of the text by the
/// specification (`Edit(a, a)` reads back as "no action"); `None` = not in the write/read fixed-point domain.
/// The `.tinydiff` reader is not used while generating.
fn hist_diff(a: &RM, b: &RM) -> Option<Sexp> {
	let d = MappingsDiff::diff(a, b).ok()?;
	let s = norm_diff(&diff_to(&d));
	if writable(&s) { Some(s) } else { None }
}

/// the diff of one step of a "history" directory: written down from the two labels by the harness (`g_diff`); only where
/// that cannot express the step (or leaves the domain of the text) `MappingsDiff::diff` of /repo is asked
fn step_diff(a: &GMappings, b: &GMappings, st: &mut Out) -> Option<Sexp> {
	if let Some(d) = g_diff(a, b).map(|d| norm_g(&d)).filter(|d| writable(d)) { st.stats.hit("history:diff-by-harness"); return Some(d); }
	st.stats.hit("history:diff-by-repo");
	hist_diff(&real(a)?, &real(b)?)
}

fn empty_diff() -> Sexp { Sexp::list(vec![Sexp::tag("none"), Sexp::tag("none"), Sexp::list(vec![])]) }

/// the normal form of a generated diff (no top-level actions: the text cannot express them; no `Edit(a, a)`)
fn norm_g(d: &GDiff) -> Sexp {
	let mut d = d.clone();
	d.info = GA::None;
	d.doc = GA::None;
	norm_diff(&d.to_sexp())
}

// ------------------------------------------------------------------- mapcodec S-expression -> generator tree

fn opt_string(s: &Sexp) -> Option<Option<String>> { Some(match s.as_opt().ok()? { None => None, Some(x) => Some(x.as_string().ok()?) }) }
fn names_from_sx(s: &Sexp) -> Option<Vec<Option<String>>> { s.as_list().ok()?.iter().map(opt_string).collect() }

fn g_member(m: &Sexp, is_method: bool) -> Option<GMember> {
	let m = m.as_list().ok()?;
	let mut params = Vec::new();
	if is_method {
		for p in m.get(5)?.as_list().ok()? {
			let p = p.as_list().ok()?;
			params.push(GParam { index: p.first()?.as_nat().ok()?, names: names_from_sx(p.get(2)?)?, doc: opt_string(p.get(3)?)? });
		}
	}
	Some(GMember { desc: m.get(1)?.as_string().ok()?, names: names_from_sx(m.get(3)?)?, doc: opt_string(m.get(4)?)?, params })
}

/// inverse of `GMappings::to_sexp` (on sets whose entries are stored under the key their first name gives)
fn g_from_sexp(s: &Sexp) -> Option<GMappings> {
	let [ns, doc, classes] = s.as_list().ok()? else { return None };
	let mut cs = Vec::new();
	for c in classes.as_list().ok()? {
		let c = c.as_list().ok()?;
		cs.push(GClass { names: names_from_sx(c.get(1)?)?, doc: opt_string(c.get(2)?)?,
			fields: c.get(3)?.as_list().ok()?.iter().map(|f| g_member(f, false)).collect::<Option<_>>()?,
			methods: c.get(4)?.as_list().ok()?.iter().map(|m| g_member(m, true)).collect::<Option<_>>()? });
	}
	Some(GMappings { ns: ns.as_list().ok()?.iter().map(|x| x.as_string().ok()).collect::<Option<_>>()?, doc: opt_string(doc)?, classes: cs })
}

// ------------------------------------------------------------------- a diff between two labels, without /repo

fn ga_of(a: &Option<String>, b: &Option<String>) -> GA {
	match (a, b) {
		(None, None) => GA::None,
		(None, Some(y)) => GA::Add(y.clone()),
		(Some(x), None) => GA::Remove(x.clone()),
		(Some(x), Some(y)) => if x == y { GA::None } else { GA::Edit(x.clone(), y.clone()) },
	}
}

/// the action on the name of an entry (`None` side = the key is absent there); `None` = no diff can express the step:
/// an entry cannot lose its name and stay, only named entries can be removed or created
fn name_action(a: Option<&Vec<Option<String>>>, b: Option<&Vec<Option<String>>>) -> Option<GA> {
	match (a, b) {
		(Some(a), Some(b)) => if a[0] != b[0] { None } else { match ga_of(&a[1], &b[1]) { GA::Remove(_) => None, x => Some(x) } },
		(Some(a), None) => a[1].clone().map(GA::Remove),
		(None, Some(b)) => b[1].clone().map(GA::Add),
		(None, None) => None,
	}
}

fn g_diff_params(a: &[GParam], b: &[GParam]) -> Option<Vec<GDParam>> {
	let mut out = Vec::new();
	for pa in a {
		let pb = b.iter().find(|x| x.index == pa.index);
		let info = name_action(Some(&pa.names), pb.map(|x| &x.names))?;
		let doc = match pb { Some(pb) => ga_of(&pa.doc, &pb.doc), None => GA::None };
		if info != GA::None || doc != GA::None { out.push(GDParam { index: pa.index, info, doc }); }
	}
	for pb in b.iter().filter(|x| !a.iter().any(|y| y.index == x.index)) {
		// a parameter that a diff creates has no name in the first namespace (known finding of C04)
		if pb.names[0].is_some() { return None; }
		out.push(GDParam { index: pb.index, info: name_action(None, Some(&pb.names))?, doc: ga_of(&None, &pb.doc) });
	}
	Some(out)
}

fn g_diff_members(a: &[GMember], b: &[GMember], is_method: bool) -> Option<Vec<GDMember>> {
	let same = |x: &GMember, y: &GMember| x.names[0] == y.names[0] && x.desc == y.desc;
	let mut out = Vec::new();
	for ma in a {
		let mb = b.iter().find(|x| same(x, ma));
		let info = name_action(Some(&ma.names), mb.map(|x| &x.names))?;
		let (doc, params) = match mb {
			Some(mb) => (ga_of(&ma.doc, &mb.doc), if is_method { g_diff_params(&ma.params, &mb.params)? } else { vec![] }),
			None => (GA::None, vec![]),
		};
		if info != GA::None || doc != GA::None || !params.is_empty() {
			out.push(GDMember { name: ma.names[0].clone().unwrap_or_default(), desc: ma.desc.clone(), info, doc, params });
		}
	}
	for mb in b.iter().filter(|x| !a.iter().any(|y| same(x, y))) {
		out.push(GDMember { name: mb.names[0].clone().unwrap_or_default(), desc: mb.desc.clone(), info: name_action(None, Some(&mb.names))?,
			doc: ga_of(&None, &mb.doc), params: if is_method { g_diff_params(&[], &mb.params)? } else { vec![] } });
	}
	Some(out)
}

/// a diff that turns label `a` into label `b` (second parents of a node, reversed edges), written down from the two
/// labels alone; `None` when no diff can do that
fn g_diff(a: &GMappings, b: &GMappings) -> Option<GDiff> {
	if a.ns != b.ns || a.doc != b.doc { return None; }
	let mut classes = Vec::new();
	for ca in &a.classes {
		let cb = b.classes.iter().find(|x| x.key() == ca.key());
		let info = name_action(Some(&ca.names), cb.map(|x| &x.names))?;
		let (doc, fields, methods) = match cb {
			Some(cb) => (ga_of(&ca.doc, &cb.doc), g_diff_members(&ca.fields, &cb.fields, false)?, g_diff_members(&ca.methods, &cb.methods, true)?),
			None => (GA::None, vec![], vec![]),
		};
		if info != GA::None || doc != GA::None || !fields.is_empty() || !methods.is_empty() {
			classes.push(GDClass { key: ca.key(), info, doc, fields, methods });
		}
	}
	for cb in b.classes.iter().filter(|x| !a.classes.iter().any(|y| y.key() == x.key())) {
		classes.push(GDClass { key: cb.key(), info: name_action(None, Some(&cb.names))?, doc: ga_of(&None, &cb.doc),
			fields: g_diff_members(&[], &cb.fields, false)?, methods: g_diff_members(&[], &cb.methods, true)? });
	}
	Some(GDiff { info: GA::None, doc: GA::None, classes })
}

// ------------------------------------------------------------------- what an edge file contains (distribution)

fn kind_of(a: &Sexp) -> &'static str { match act(a) { Act::None => "none", Act::Add(_) => "add", Act::Remove(_) => "remove", Act::Edit(..) => "edit" } }

fn find_entry<'a>(list: &'a Sexp, key: &[Sexp]) -> Option<&'a [Sexp]> {
	items(list).iter().map(|x| items(x)).find(|x| x.len() >= key.len() && x[..key.len()] == *key)
}

struct EdgeWalk<'a, 'b> {
	st: &'a mut Out<'b>,
	/// keys (paths) that diffs on the way from the root have created or given their name
	added_before: &'a BTreeSet<String>,
	added: BTreeSet<String>,
	comment_levels: BTreeSet<&'static str>,
	name_kinds: BTreeSet<&'static str>,
}

impl EdgeWalk<'_, '_> {
	/// one diff entry against the entry of the parent version (`tnames` = its names row, `None` = key absent); true = removal
	fn node(&mut self, lvl: &'static str, info: &Sexp, doc: &Sexp, tnames: Option<&Sexp>, t_children: bool, d_children: bool, path: &str, under_removed: bool) -> bool {
		let (kind, dk) = (kind_of(info), kind_of(doc));
		let state = if under_removed { "below-removal" } else {
			match tnames { None => "new-key", Some(n) => if items(n).get(1).is_some_and(|x| !items(x).is_empty()) { "named" } else { "unnamed" } }
		};
		self.st.stats.hit(&format!("edge:{lvl}:name-{kind}:{state}"));
		self.st.stats.hit(&format!("edge:{lvl}:comment-{dk}"));
		if dk != "none" { self.comment_levels.insert(lvl); }
		self.name_kinds.insert(kind);
		if !under_removed {
			if kind == "remove" && t_children { self.st.stats.hit(&format!("edge:{lvl}:removes-whole-subtree")); }
			if kind == "none" && dk == "none" && d_children { self.st.stats.hit(&format!("edge:{lvl}:only-children-touched")); }
			if kind == "none" && dk != "none" && state == "unnamed" { self.st.stats.hit(&format!("edge:{lvl}:comment-on-unnamed")); }
			if self.added_before.contains(path) { self.st.stats.hit(&format!("edge:{lvl}:touches-earlier-addition")); }
			if kind == "add" { self.added.insert(path.to_owned()); }
		}
		kind == "remove"
	}
}

/// records what the diff `d` of an edge does to the label `parent`; returns the additions on the path including this edge
fn edge_stats(d: &Sexp, parent: &Sexp, added_before: &BTreeSet<String>, st: &mut Out) -> BTreeSet<String> {
	let mut w = EdgeWalk { st, added_before, added: added_before.clone(), comment_levels: BTreeSet::new(), name_kinds: BTreeSet::new() };
	let dcs = items(items(d).get(2).unwrap_or(&Sexp::List(vec![]))).to_vec();
	let nothing = Sexp::List(vec![]);
	let tcs = items(parent).get(2).unwrap_or(&nothing);
	for dc in &dcs {
		let dc = items(dc);
		if dc.len() < 5 { continue; }
		let tc = find_entry(tcs, &dc[..1]);
		let cpath = format!("c {}", dc[0]);
		let t_children = tc.is_some_and(|t| !items(&t[3]).is_empty() || !items(&t[4]).is_empty());
		let crem = w.node("class", &dc[1], &dc[2], tc.map(|t| &t[1]), t_children, !items(&dc[3]).is_empty() || !items(&dc[4]).is_empty(), &cpath, false);
		for df in items(&dc[3]) {
			let df = items(df);
			let tf = tc.and_then(|t| find_entry(&t[3], &df[..2]));
			w.node("field", &df[2], &df[3], tf.map(|t| &t[3]), false, false, &format!("{cpath} f {} {}", df[0], df[1]), crem);
		}
		for dm in items(&dc[4]) {
			let dm = items(dm);
			let tm = tc.and_then(|t| find_entry(&t[4], &dm[..2]));
			let mpath = format!("{cpath} m {} {}", dm[0], dm[1]);
			let mrem = w.node("method", &dm[2], &dm[3], tm.map(|t| &t[3]), tm.is_some_and(|t| !items(&t[5]).is_empty()), !items(&dm[4]).is_empty(), &mpath, crem) || crem;
			let mut pdocs = 0;
			for dp in items(&dm[4]) {
				let dp = items(dp);
				let tp = tm.and_then(|t| find_entry(&t[5], &dp[..1]));
				w.node("param", &dp[1], &dp[2], tp.map(|t| &t[2]), false, false, &format!("{mpath} p {}", dp[0]), mrem);
				if kind_of(&dp[2]) != "none" { pdocs += 1; }
				if let Some(tp) = tp { w.st.stats.hit(if items(&tp[2]).first().is_some_and(|x| !items(x).is_empty()) { "edge:param:target-has-source-name" } else { "edge:param:target-without-source-name" }); }
			}
			if kind_of(&dm[3]) != "none" && pdocs >= 1 { w.st.stats.hit("edge:method:comment-with-param-comment"); }
			if pdocs >= 2 { w.st.stats.hit("edge:method:param-comments>=2"); }
		}
	}
	if dcs.is_empty() { w.st.stats.hit("edge:file:empty"); }
	w.st.stats.hit(&format!("edge:file:comment-levels={}", w.comment_levels.len()));
	w.name_kinds.remove("none");
	w.st.stats.hit(&format!("edge:file:name-action-kinds={}", w.name_kinds.len()));
	w.added
}

const ATOMS: &[&str] = &["1.0", "1.1", "1.2", "1.3", "b1.4", "a1.0.15", "12w05a", "r", "é1", "x.tiny", "1.RV-Pre1", "server-0.1",
	"server-0.2", "s3", "c", "日本"];

struct GenDir { files: Vec<FileSpec>, queries: Vec<String>, labels: Vec<(String, Sexp)>, kind: String }

/// how a file name mentions node `i`: by its name, or (alias directories, `a~b` names, after a first mention in full) by a half
fn spell(r: &mut Rng, names: &[String], alias: bool, spelled_full: &mut [bool], i: usize, st: &mut Out) -> String {
	let name = &names[i];
	if !alias { return name.clone(); }
	let Some((a, b)) = name.split_once('~') else { return name.clone() };
	if b.contains('~') || a.contains('#') || b.contains('#') || a.is_empty() || b.is_empty() { return name.clone(); }
	if !spelled_full[i] || r.chance(1, 3) { spelled_full[i] = true; return name.clone(); }
	st.stats.hit("alias:spelled-by-half");
	if r.chance(1, 2) { a.to_owned() } else { b.to_owned() }
}

/// one random directory: a graph shape, node names, an edit history along the edges, defects
fn gen_dir(r: &mut Rng, st: &mut Out) -> Option<GenDir> {
	// "direct": the diffs on the edges are drawn directly (generator of C04) against the label of the parent version and the
	// labels follow by the specification of diff application; "history": the labels are an edit history and the diffs are
	// `MappingsDiff::diff` of /repo (all names present, as `diff` requires)
	let direct = r.chance(3, 5);
	let mut cfg = MapCfg::basic(2);
	cfg.top_doc_pct = 25;
	cfg.absent_pct = if direct { *r.pick(&[0, 15, 35]) } else { 0 };
	cfg.param_src_names = r.chance(1, 6);
	cfg.nest_depth = r.range(0, 2);
	cfg.max_classes = r.range(1, 4);
	cfg.max_members = if direct { r.range(1, 3) } else { r.range(0, 2) };
	if direct { cfg.max_params = 3; cfg.doc_pct = *r.pick(&[25, 50]); }
	cfg.unicode = r.chance(1, 5);
	cfg.closed_nesting = !r.chance(1, 8);
	cfg.extended_targets = false;
	let mut g0 = gen_mappings(r, &cfg);
	scrub(&mut g0);
	// a family of outer classes whose nested classes share their simple target name, nested three deep: the extension at the end
	// of `apply_diffs` must take every prefix from the class's own outer chain (in any insertion order of the classes)
	if r.chance(1, 4) {
		let mut fam: Vec<GClass> = Vec::new();
		let same = !r.chance(1, 4);
		for o in 0..r.range(2, 3) {
			let osrc = format!("fam/O{o}");
			let msrc = format!("{osrc}$M");
			let dsrc = format!("{msrc}$D");
			for (src, dst) in [(osrc, format!("famt/T{o}")), (msrc, if same { "Builder".to_owned() } else { format!("Builder{o}") }), (dsrc, "Data".to_owned())] {
				fam.push(GClass { names: vec![Some(src), Some(dst)], doc: None, fields: Vec::new(), methods: Vec::new() });
			}
		}
		r.shuffle(&mut fam);
		for c in fam { if !g0.classes.iter().any(|x| x.names[0] == c.names[0]) { g0.classes.push(c); } }
		st.stats.hit("root:nested-family-with-shared-simple-names");
	}
	// comments the text has to escape (TAB, CR, LF, backslashes in every position), at every level of the root file
	if r.chance(1, 3) {
		const HARD: &[&str] = &["tab\there", "\t", "cr\rlf\n", "\\t", "end\\", "a\\nb", "\\", " \t "];
		let mut hard = |d: &mut Option<String>| if d.is_some() && r.chance(1, 2) { *d = Some((*r.pick(HARD)).to_owned()); };
		hard(&mut g0.doc);
		for c in &mut g0.classes {
			hard(&mut c.doc);
			for f in &mut c.fields { hard(&mut f.doc); }
			for me in &mut c.methods { hard(&mut me.doc); for p in &mut me.params { hard(&mut p.doc); } }
		}
		st.stats.hit("root:comments-to-escape");
	}
	g0.ns = match r.below(14) { 0 => vec!["intermediary".into(), "yarn".into()], 1 => vec!["official".into(), "named".into()], _ => vec!["intermediary".into(), "named".into()] };

	// ---- node names
	let shape = *r.pick(&["chain", "tree", "tree", "dag", "dag", "diamond", "diamond"]);
	let n = if shape == "diamond" { r.range(4, 6) } else { r.range(1, 6) };
	let collide = r.chance(1, 7);
	let mut atoms: Vec<&str> = ATOMS.to_vec();
	r.shuffle(&mut atoms);
	let take = |atoms: &mut Vec<&str>| atoms.pop().unwrap_or("zz").to_owned();
	let mut names: Vec<String> = Vec::new();
	for i in 0..n {
		let name = match r.below(12) {
			0..=3 if atoms.len() >= 2 => format!("{}~{}", take(&mut atoms), take(&mut atoms)),
			4 if i > 0 && r.chance(1, 3) => { let a = take(&mut atoms); format!("{a}~{a}") }
			5 if i > 0 && r.chance(1, 3) && atoms.len() >= 3 => format!("{}~{}~{}", take(&mut atoms), take(&mut atoms), take(&mut atoms)),
			6 if i > 0 && r.chance(1, 4) && atoms.len() >= 2 => format!("{}#{}", take(&mut atoms), take(&mut atoms)),
			_ => take(&mut atoms),
		};
		names.push(name);
	}
	if collide && n >= 2 {
		// make one name share a key with another one
		let i = r.below(n);
		let j = (i + 1 + r.below(n - 1)) % n;
		let key = (*r.pick(&keys_of(&names[i]))).to_owned();
		// a plain name that is a half of another one, or a second `client~server` name with a shared half in either place
		let variant = r.below(6);
		names[j] = match variant {
			0 | 1 => key,
			2 => format!("{}~{key}", take(&mut atoms)),
			3 => format!("{key}~{}", take(&mut atoms)),
			4 => match names[i].split_once('~') { Some((a, b)) if a != b => format!("{b}~{a}"), _ => format!("{key}~{key}") },
			_ => format!("{key}~{key}"),
		};
		if names[j] == names[i] { names[j] = format!("{}~{}", names[i], take(&mut atoms)); }
		st.stats.hit(&format!("collide:{}:{}", if is_split(&names[i]) { "split" } else { "plain" }, ["half", "half", "x~half", "half~x", "swapped", "half~half"][variant]));
	}
	// file names may spell a `client~server` version by one of its halves (the feature the lookup table exists for)
	let alias = r.chance(1, 3);
	let mut spelled_full = vec![false; n];

	// ---- edges (node 0 is the root; parents are earlier nodes)
	let mut edges: Vec<(usize, usize)> = Vec::new();
	for c in 1..n {
		if shape == "diamond" && c <= 3 {
			// 0 -> 1 -> 3, 0 -> 2 -> 3: two root paths of the same length
			if c == 3 { edges.push((1, 3)); edges.push((2, 3)); } else { edges.push((0, c)); }
			continue;
		}
		let p1 = match shape { "chain" => c - 1, _ => r.below(c) };
		edges.push((p1, c));
		if shape == "dag" && c >= 2 && r.chance(1, 2) {
			let p2 = r.below(c);
			if p2 != p1 { edges.push((p2, c)); }
		}
	}
	let mut defect = if r.chance(11, 20) { "none".to_owned() } else { (*r.pick(&["cycle", "two-roots", "no-root", "island", "island-cycle",
		"bad-name", "self-loop", "root-cycle", "raw-root", "raw-edge", "swapped-content", "inconsistent", "inconsistent", "inconsistent", "reversed-diff"])).to_owned() };
	if shape == "diamond" && r.chance(1, 3) { defect = "inconsistent".into(); }
	if n == 1 && matches!(defect.as_str(), "cycle" | "inconsistent" | "reversed-diff" | "raw-edge" | "root-cycle") { defect = "none".into(); }

	// ---- labels and the diffs of the edges
	let first_parent = |c: usize| edges.iter().find(|(_, cc)| *cc == c).map(|(p, _)| *p).unwrap_or(0);
	let mut label: Vec<GMappings> = vec![g0.clone()];
	let mut tree_diff: Vec<Option<Sexp>> = vec![None];
	let mut refused = vec![false];
	let named = Sexp::str("named");
	let draw = |r: &mut Rng, t: &GMappings, bad: usize, st: &mut Out| -> Sexp {
		let dc = DCfg { bad_pct: bad, touch_pct: *r.pick(&[40, 80, 100, 100]), extra_pct: *r.pick(&[0, 30, 70]) };
		norm_g(&gen_diff_for(r, t, 1, &dc, &cfg, st))
	};
	for c in 1..n {
		let p = first_parent(c);
		if direct {
			let bad = *r.pick(&[0, 0, 0, 0, 0, 0, 0, 3]);
			let d = draw(r, &label[p], bad, st);
			// the label of the child is what the specification says; a diff it refuses leaves an edge that cannot be applied
			let applied = spec_apply(&d, &label[p].to_sexp(), &named);
			if applied.is_ok() && applied.as_ref().ok().and_then(g_from_sexp).is_none() { st.stats.hit("gen:label-not-decoded"); }
			match applied.ok().and_then(|m| g_from_sexp(&m)) {
				Some(m) => { label.push(m); refused.push(false); }
				None => { label.push(label[p].clone()); refused.push(true); st.stats.hit(if g0.ns[1] == "named" { "edge:refused:inconsistent-action" } else { "edge:refused:no-namespace-named" }); }
			}
			tree_diff.push(Some(d));
		} else {
			let mut next = mutate(r, &label[p], &cfg);
			scrub(&mut next);
			label.push(next);
			tree_diff.push(None);
			refused.push(false);
		}
	}
	let reals: Vec<RM> = label.iter().map(real).collect::<Option<_>>()?;
	let label_sx: Vec<Sexp> = label.iter().map(|l| l.to_sexp()).collect();
	st.stats.hit(if direct { "mode:direct" } else { "mode:history" });

	// ---- files
	let mut files: Vec<FileSpec> = Vec::new();
	// the root file in contracted or (half of the directories) in extended form, extended by the specification
	let mut root_file = label_sx[0].clone();
	if r.chance(1, 2) {
		match spec_extend(&label_sx[0], named_index(&label_sx[0])) {
			Some(x) => { st.stats.hit("root:extended-form"); root_file = x; }
			None => st.stats.hit("root:extension-refused-by-specification"),
		}
	}
	let by_writer = r.chance(1, 3);
	if by_writer { st.stats.hit("root:file-by-writer-of-repo"); }
	let Some(mut root_content) = tiny_content(&root_file, by_writer) else { st.stats.hit("gen:root-outside-text-domain"); return None };
	if defect == "raw-root" { root_content = Content::Raw(r.pick(RAW_ALLOWED).to_vec()); }
	let bad_edge = if edges.is_empty() { 0 } else if shape == "diamond" && r.chance(2, 3) { r.below(4) } else { r.below(edges.len()) };
	let mut edge_files: Vec<(String, Content)> = Vec::new();
	if defect != "no-root" { spelled_full[0] = true; }
	// additions (new keys, names given to unnamed entries) on the way from the root, per node
	let mut added: Vec<BTreeSet<String>> = vec![BTreeSet::new(); n];
	for (i, (p, c)) in edges.iter().enumerate() {
		let tree_edge = first_parent(*c) == *p && edges.iter().position(|e| e.1 == *c) == Some(i);
		let consistent: Option<Sexp> = if !direct { step_diff(&label[*p], &label[*c], st) }
			else if tree_edge { tree_diff[*c].clone() }
			else { g_diff(&label[*p], &label[*c]).map(|d| norm_g(&d)).filter(|d| writable(d)) };
		let mut content = match consistent {
			Some(d) => Content::Diff(d),
			// history: outside the fixed-point domain of the text; direct: no diff leads from this parent to the child's label
			None if !direct => { st.stats.hit("gen:history-step-without-diff"); return None }
			None => { st.stats.hit("second-edge:no-consistent-diff"); if r.chance(1, 2) { continue; } Content::Diff(draw(r, &label[*p], 0, st)) }
		};
		if !tree_edge && direct { st.stats.hit("second-edge"); }
		if i == bad_edge {
			match defect.as_str() {
				"inconsistent" => {
					content = Content::Diff(if direct { draw(r, &label[*p], 0, st) } else { let mut o = mutate(r, &label[*c], &cfg); scrub(&mut o); match step_diff(&label[*p], &o, st) { Some(d) => d, None => { st.stats.hit("gen:history-step-without-diff"); return None } } });
				}
				"reversed-diff" => {
					let rev = if direct { g_diff(&label[*c], &label[*p]).map(|d| norm_g(&d)).filter(|d| writable(d)) } else { step_diff(&label[*c], &label[*p], st) };
					if let Some(d) = rev { content = Content::Diff(d); }
				}
				"raw-edge" => content = Content::Raw(r.pick(RAW_ALLOWED).to_vec()),
				"swapped-content" => content = root_content.clone(),
				_ => {}
			}
		}
		if let Content::Diff(d) = &content {
			let a = edge_stats(d, &label_sx[*p], &added[*p], st);
			if tree_edge { added[*c] = a; }
			if tree_edge && refused[*c] { st.stats.hit("edge:file:refused-by-specification"); }
		}
		let (sp, sc) = (spell(r, &names, alias, &mut spelled_full, *p, st), spell(r, &names, alias, &mut spelled_full, *c, st));
		edge_files.push((format!("{sp}#{sc}.tinydiff"), content));
	}
	let empty_diff = Content::Diff(empty_diff());
	match defect.as_str() {
		"cycle" => {
			let (p, c) = edges[bad_edge];
			let back = if r.chance(1, 2) { p } else { r.below(c + 1) };
			let (sp, sc) = (spell(r, &names, alias, &mut spelled_full, c, st), spell(r, &names, alias, &mut spelled_full, back, st));
			edge_files.push((format!("{sp}#{sc}.tinydiff"), empty_diff.clone()));
		}
		"root-cycle" => { let (_, c) = edges[bad_edge]; edge_files.push((format!("{}#{}.tinydiff", names[c], names[0]), empty_diff.clone())); }
		"self-loop" => { let v = r.below(n); edge_files.push((format!("{}#{}.tinydiff", names[v], names[v]), empty_diff.clone())); }
		"island" => { edge_files.push(("isle-a#isle-b.tinydiff".into(), empty_diff.clone())); }
		"island-cycle" => { edge_files.push(("isle-a#isle-b.tinydiff".into(), empty_diff.clone())); edge_files.push(("isle-b#isle-a.tinydiff".into(), empty_diff.clone())); }
		"bad-name" => { edge_files.push(((*r.pick(&["nohash.tinydiff", ".tinydiff", "a~b.tinydiff"])).to_owned(), empty_diff.clone())); }
		_ => {}
	}
	if defect != "no-root" { files.push(FileSpec { name: format!("{}.tiny", names[0]), rank: 0, content: root_content.clone() }); }
	if defect == "two-roots" {
		// a second root for another version, or for the SAME version under another spelling (the other half of a split root
		// version, or a half where the first file uses the full `client~server` string): still two root files
		let other = match (r.below(4), names[0].split_once('~')) {
			(0 | 1, Some((a, b))) if a != b => { st.stats.hit("two-roots:same-version-other-spelling"); if r.chance(1, 2) { b.to_owned() } else { a.to_owned() } }
			(2, _) => "zz-second".to_owned(),
			_ => names[n - 1].clone(),
		};
		files.push(FileSpec { name: format!("{other}.tiny"), rank: 0, content: root_content.clone() });
	}
	if defect == "swapped-content" && r.chance(1, 2) { if let Some(f) = files.first_mut() { f.content = empty_diff.clone(); } }
	for (name, content) in edge_files { files.push(FileSpec { name, rank: 0, content }); }
	if r.chance(1, 4) { files.push(FileSpec { name: (*r.pick(&["README.md", "notes.txt", "x.tiny.bak", "tinydiff", ".gitignore"])).to_owned(), rank: 0, content: Content::Raw(b"garbage\n".to_vec()) }); }
	// file names must be distinct (a collision can make two diff files coincide)
	let mut seen = BTreeSet::new();
	files.retain(|f| seen.insert(f.name.clone()));
	if files.is_empty() || files.iter().any(|f| f.name.len() > 200) { return None; }

	// ---- queries: every key, every version string, a few unknown names
	let fnames: Vec<&str> = files.iter().map(|f| f.name.as_str()).collect();
	let mut queries: Vec<String> = Vec::new();
	for vs in dir_versions(&fnames) { for k in keys_of(&vs) { queries.push(k.to_owned()); } queries.push(vs); }
	for q in ["nope", "", "1.0", "server-0.1", "r~"] { queries.push(q.to_owned()); }
	let mut seenq = BTreeSet::new();
	queries.retain(|q| seenq.insert(q.clone()));

	let labels: Vec<(String, Sexp)> = (0..n).map(|i| (names[i].clone(), to_sexp(&reals[i]))).collect();
	let wf = well_formed(&fnames);
	st.stats.hit(&format!("shape:{shape}"));
	st.stats.hit(&format!("defect:{defect}"));
	st.stats.hit(&format!("nodes:{n}"));
	st.stats.hit(&format!("files:{}", files.len()));
	st.stats.hit(if wf { "well-formed" } else { "key-collision" });
	if alias { st.stats.hit("alias-dir"); }
	let vss = dir_versions(&fnames);
	if ambiguous(&vss) { st.stats.hit("dir:ambiguous-key"); }
	if dup_edges(&fnames) { st.stats.hit("dir:second-diff-for-an-edge"); }
	if vss.iter().any(|v| !is_split(v) && owner_of(&vss, v).is_some()) { st.stats.hit("dir:half-used-as-name"); }
	Some(GenDir { files, queries, labels, kind: format!("{}/{shape}/{defect}", if direct { "direct" } else { "history" }) })
}

// =================================================================== fixed scenario directories

fn ga_add(b: &str) -> GA { GA::Add(b.to_owned()) }
fn ga_rem(a: &str) -> GA { GA::Remove(a.to_owned()) }
fn ga_edit(a: &str, b: &str) -> GA { GA::Edit(a.to_owned(), b.to_owned()) }
fn dparam(index: usize, info: GA, doc: GA) -> GDParam { GDParam { index, info, doc } }
fn dfield(name: &str, desc: &str, info: GA, doc: GA) -> GDMember { GDMember { name: name.into(), desc: desc.into(), info, doc, params: vec![] } }
fn dmethod(name: &str, desc: &str, info: GA, doc: GA, params: Vec<GDParam>) -> GDMember { GDMember { name: name.into(), desc: desc.into(), info, doc, params } }
fn dclass(key: &str, info: GA, doc: GA, fields: Vec<GDMember>, methods: Vec<GDMember>) -> GDClass { GDClass { key: key.into(), info, doc, fields, methods } }

/// A hand-written history that does not depend on the seed: comments on a class, a field, a method and several of its
/// parameters in one file; names given to a class and a method that exist without one (with edits of their members in
/// the same file, and one edge later); new keys at every level; comment edits and removals; later diffs touching what
/// earlier ones added; removal of whole subtrees; comments on entries that stay unnamed.
fn scenario() -> Option<Vec<GenDir>> {
	let n = |s: &str| Some(s.to_owned());
	let root = GMappings { ns: vec!["intermediary".into(), "named".into()], doc: None, classes: vec![
		GClass { names: vec![n("a"), n("org/example/ClassA")], doc: None,
			fields: vec![GMember { desc: "I".into(), names: vec![n("e"), n("fieldE")], doc: None, params: vec![] }],
			methods: vec![
				GMember { desc: "(II)V".into(), names: vec![n("b"), n("methodB")], doc: None, params: vec![
					GParam { index: 0, names: vec![None, n("receiver")], doc: n("the receiver\tof methodB, \\t is no tab") },
					GParam { index: 1, names: vec![None, n("first")], doc: None }, GParam { index: 2, names: vec![None, n("second")], doc: None }] },
				GMember { desc: "(I)V".into(), names: vec![n("c"), None], doc: None, params: vec![GParam { index: 1, names: vec![None, n("value")], doc: None }] }] },
		GClass { names: vec![n("a$x"), n("ClassX")], doc: None, fields: vec![], methods: vec![] },
		GClass { names: vec![n("b"), None], doc: None, fields: vec![GMember { desc: "I".into(), names: vec![n("d"), n("fieldD")], doc: None, params: vec![] }], methods: vec![] },
	] };
	let no = || GA::None;
	// (parent, child, diff)
	let steps: Vec<(&str, &str, Vec<GDClass>)> = vec![
		("1.0", "1.1", vec![dclass("a", no(), ga_add("Comment for ClassA"), vec![dfield("e", "I", no(), ga_add("Comment for fieldE"))], vec![
			dmethod("b", "(II)V", no(), ga_add("Comment for methodB"), vec![dparam(1, no(), ga_add("Comment for first")), dparam(2, no(), ga_add("Comment for second"))])])]),
		("1.1", "1.2", vec![
			dclass("b", ga_add("ClassB"), no(), vec![dfield("d", "I", ga_edit("fieldD", "fieldDRenamed"), no())], vec![]),
			dclass("a", no(), no(), vec![], vec![dmethod("c", "(I)V", ga_add("methodC"), ga_add("Comment for methodC"), vec![
				dparam(1, ga_edit("value", "amount"), no()), dparam(0, ga_add("self"), ga_add("Comment for self"))])])]),
		("1.2", "1.3", vec![
			dclass("a", ga_edit("org/example/ClassA", "org/example/ClassARenamed"), ga_edit("Comment for ClassA", "Comment\nfor ClassA, edited"),
				vec![dfield("e", "I", no(), ga_rem("Comment for fieldE"))],
				vec![dmethod("b", "(II)V", no(), ga_edit("Comment for methodB", "x\\y"), vec![
					dparam(1, no(), ga_rem("Comment for first")), dparam(2, ga_edit("second", "zweiter"), ga_edit("Comment for second", "tab\there"))])]),
			dclass("n", ga_add("ClassN"), ga_add("Comment for ClassN"), vec![dfield("g", "J", ga_add("fieldG"), ga_add("Comment for fieldG"))],
				vec![dmethod("o", "()V", ga_add("methodO"), ga_add("Comment for methodO"), vec![dparam(0, ga_add("arg"), ga_add("Comment for arg"))])])]),
		("1.3", "1.4", vec![
			dclass("b", ga_rem("ClassB"), no(), vec![dfield("d", "I", no(), ga_add("never looked at"))], vec![]),
			dclass("a", no(), no(), vec![], vec![
				dmethod("b", "(II)V", ga_rem("methodB"), no(), vec![dparam(1, ga_rem("first"), no())]),
				dmethod("c", "(I)V", no(), no(), vec![dparam(0, ga_rem("self"), no())])]),
			dclass("n", no(), no(), vec![dfield("g", "J", ga_edit("fieldG", "fieldH"), no())],
				vec![dmethod("o", "()V", no(), no(), vec![dparam(0, no(), ga_edit("Comment for arg", "Comment for arg, edited")), dparam(3, ga_add("late"), no())])])]),
		("1.0", "2.0", vec![dclass("a", no(), no(), vec![], vec![dmethod("b", "(II)V", no(), no(), vec![dparam(1, no(), ga_add("Comment for first")), dparam(2, no(), ga_add("Comment for second"))])])]),
		("2.0", "2.1", vec![
			dclass("b", no(), ga_add("Comment for b"), vec![dfield("d", "I", no(), ga_add("Comment for fieldD"))], vec![]),
			dclass("a", no(), no(), vec![], vec![dmethod("c", "(I)V", no(), ga_add("Comment for c"), vec![dparam(1, no(), ga_add("Comment for value"))])])]),
		("2.1", "2.2", vec![
			dclass("b", ga_add("ClassB"), ga_edit("Comment for b", "Comment for ClassB"), vec![], vec![]),
			dclass("a", no(), no(), vec![], vec![dmethod("c", "(I)V", ga_add("methodC"), ga_rem("Comment for c"), vec![dparam(1, no(), ga_edit("Comment for value", "q"))])])]),
	];
	let named = Sexp::str("named");
	let mut labels: Vec<(String, Sexp)> = vec![("1.0".into(), root.to_sexp())];
	let mut files = vec![FileSpec { name: "1.0.tiny".into(), rank: 0, content: tiny_content(&root.to_sexp(), false)? }];
	for (p, c, classes) in steps {
		let d = norm_g(&GDiff { info: GA::None, doc: GA::None, classes });
		let lp = labels.iter().find(|(name, _)| name == p)?.1.clone();
		let lc = spec_apply(&d, &lp, &named).ok()?;
		// through the codec, as every label of a request
		labels.push((c.to_owned(), to_sexp(&from_sexp::<2, (Intermediary, Named)>(&lc).ok()?)));
		files.push(FileSpec { name: format!("{p}#{c}.tinydiff"), rank: 0, content: Content::Diff(d) });
	}
	// one directory per version: the root and the edges on the way to it (shortest histories first), then the whole tree
	let parent_of = |v: &str| files.iter().find_map(|f| f.name.strip_suffix(".tinydiff").and_then(|x| x.split_once('#')).filter(|(_, c)| *c == v).map(|(p, _)| p.to_owned()));
	let mut dirs: Vec<GenDir> = Vec::new();
	for (v, _) in labels.iter().skip(1) {
		let mut path = vec![v.clone()];
		while let Some(p) = parent_of(path.last()?) { path.push(p); }
		let fs: Vec<FileSpec> = files.iter().filter(|f| f.name.ends_with(".tiny") || path.iter().any(|c| f.name.ends_with(&format!("#{c}.tinydiff")))).cloned().collect();
		let ls: Vec<(String, Sexp)> = labels.iter().filter(|(name, _)| path.contains(name)).cloned().collect();
		let mut queries: Vec<String> = ls.iter().map(|(name, _)| name.clone()).collect();
		queries.push("nope".into());
		dirs.push(GenDir { files: fs, queries, labels: ls, kind: "scenario".into() });
	}
	dirs.sort_by_key(|d| d.files.len());
	let mut queries: Vec<String> = labels.iter().map(|(name, _)| name.clone()).collect();
	queries.push("nope".into());
	dirs.push(GenDir { files, queries, labels, kind: "scenario".into() });
	Some(dirs)
}

// =================================================================== directories with shared halves

/// stems of diff files over a few atoms: every way two version strings can share a key (`a~b` with `b`, `a`, `c~b`,
/// `b~c`, `a~c`, `b~a`, `a~a`, `a~b~c`), halves used as parent or child, second diffs for one edge, cycles through a half
const SHARED_POOL: &[&str] = &["r#a~b", "r#b", "r#a", "b#c", "a#c", "a~b#c", "r#c~b", "r#b~c", "r#a~c", "r#b~a", "c#a~b", "b#a",
	"r#a~a", "a#d", "c~d#a", "r#c", "c#b", "r#a~b~c", "b~c#d", "a~b#b", "d#r"];

fn minimal_root() -> Content {
	Content::Tiny(Sexp::list(vec![Sexp::list(vec![Sexp::str("intermediary"), Sexp::str("named")]), Sexp::list(vec![]), Sexp::list(vec![])]))
}

/// the content of the `k`-th pool file: a diff that adds the class `k<k>` (so the answers show which files were applied)
fn pool_diff(k: usize) -> Content {
	Content::Diff(norm_g(&GDiff { info: GA::None, doc: GA::None, classes: vec![dclass(&format!("k{k}"), ga_add(&format!("N{k}")), GA::None, vec![], vec![])] }))
}

fn shared_dir(root: &str, picks: &[usize]) -> GenDir {
	let mut files = vec![FileSpec { name: format!("{root}.tiny"), rank: 0, content: minimal_root() }];
	for &k in picks { files.push(FileSpec { name: format!("{}.tinydiff", SHARED_POOL[k]), rank: 0, content: pool_diff(k) }); }
	let fnames: Vec<&str> = files.iter().map(|f| f.name.as_str()).collect();
	let mut queries: Vec<String> = Vec::new();
	for vs in dir_versions(&fnames) { for k in keys_of(&vs) { queries.push(k.to_owned()); } queries.push(vs); }
	for q in ["a", "b", "c", "a~b", "nope"] { queries.push(q.to_owned()); }
	let mut seen = BTreeSet::new();
	queries.retain(|q| seen.insert(q.clone()));
	GenDir { files, queries, labels: vec![], kind: "shared".into() }
}

/// the stream of directories whose version strings share halves: all small subsets of the pool, then random larger ones;
/// every one in several creation orders, the small ones in ALL creation orders (`oracle-perm-all`)
fn gen_shared(r: &mut Rng, tier: Tier, out: &mut Out, bases: &[usize]) {
	let thorough = tier == Tier::Thorough;
	let m = SHARED_POOL.len();
	let mut dirs: Vec<GenDir> = Vec::new();
	for i in 0..m {
		dirs.push(shared_dir("r", &[i]));
		for j in i + 1..m {
			dirs.push(shared_dir("r", &[i, j]));
			if thorough { for k in j + 1..m { dirs.push(shared_dir("r", &[i, j, k])); } }
		}
	}
	for _ in 0..(if thorough { 2500 } else { 180 }) {
		let size = r.range(3, 5);
		let mut idx: Vec<usize> = (0..m).collect();
		r.shuffle(&mut idx);
		idx.truncate(size);
		// the root file may itself be named by a half, or by a `client~server` name
		let root = *r.pick(&["r", "r", "r", "r", "a~b", "b", "a", "c"]);
		dirs.push(shared_dir(root, &idx));
	}
	let all_limit = if thorough { 6 } else { 4 };
	for (k, d) in dirs.iter().enumerate() {
		let fnames: Vec<&str> = d.files.iter().map(|f| f.name.as_str()).collect();
		let vss = dir_versions(&fnames);
		out.stats.hit("shared-dir");
		out.stats.hit(if ambiguous(&vss) { "shared:ambiguous-key" } else if dup_edges(&fnames) { "shared:second-diff-for-an-edge" }
			else if vss.iter().any(|v| !is_split(v) && owner_of(&vss, v).is_some()) { "shared:half-used-as-name" } else { "shared:no-shared-key" });
		let n = d.files.len();
		let mut first = true;
		for &base in bases.iter().rev() {
			let mut o: Vec<usize> = (0..n).collect();
			for _ in 0..(if base == 1 { 2 } else { 1 }) {
				r.shuffle(&mut o);
				let Some(listed) = probe(base, &d.files, &o) else { out.stats.hit("gen:probe-failed"); continue };
				emit(out, "vg", base, &listed, &d.queries, None);
				if first {
					first = false;
					for op in ["oracle-names", "oracle-errors", "oracle-fold"] { emit(out, op, base, &listed, &d.queries, None); }
					if n <= all_limit { out.stats.hit(&format!("all-orders:files={n}")); emit(out, "oracle-perm-all", base, &listed, &d.queries, None); }
					else if thorough || k % 2 == 0 { emit(out, "oracle-perm-full", base, &listed, &d.queries, None); }
				}
			}
		}
	}
}

/// assigns the ranks of a creation order, creates the directory, and returns the files in listing order
fn probe(base: usize, files: &[FileSpec], order: &[usize]) -> Option<Vec<FileSpec>> {
	let mut fs: Vec<FileSpec> = files.to_vec();
	for (rank, &i) in order.iter().enumerate() { fs[i].rank = rank; }
	let td = materialize(base, &by_rank(&fs)).ok()??;
	let l = listing(&td.0);
	if l.len() != fs.len() { return None; }
	l.iter().map(|n| fs.iter().find(|f| &f.name == n).cloned()).collect()
}

fn permutations(n: usize) -> Vec<Vec<usize>> {
	fn rec(cur: &mut Vec<usize>, used: &mut Vec<bool>, n: usize, out: &mut Vec<Vec<usize>>) {
		if cur.len() == n { out.push(cur.clone()); return; }
		for i in 0..n { if !used[i] { used[i] = true; cur.push(i); rec(cur, used, n, out); cur.pop(); used[i] = false; } }
	}
	let mut out = Vec::new();
	rec(&mut Vec::new(), &mut vec![false; n], n, &mut out);
	out
}

fn emit(out: &mut Out, op: &str, base: usize, files: &[FileSpec], queries: &[String], labels: Option<&[(String, Sexp)]>) {
	let mut args = vec![Sexp::nat(base), Sexp::list(files.iter().map(|f| f.to_sexp()).collect()), Sexp::list(queries.iter().map(|q| Sexp::str(q)).collect())];
	if let Some(ls) = labels { args.push(Sexp::list(ls.iter().map(|(n, m)| Sexp::list(vec![Sexp::str(n), m.clone()])).collect())); }
	out.op(op, &args);
}

/// what the unchanged implementation answers (distribution only)
fn classify(out: &mut Out, base: usize, files: &[FileSpec], queries: &[String], labels: &[(String, Sexp)], kind: &str) {
	let Ok(Some(td)) = materialize(base, &by_rank(files)) else { return };
	let req = Req { base, files: files.to_vec(), queries: queries.to_vec() };
	let ls = Sexp::list(labels.iter().map(|(n, m)| Sexp::list(vec![Sexp::str(n), m.clone()])).collect());
	let verdict = match oracle_path_independent(&req, &td.0, &ls) { Ans::Ok(s) => s.to_string(), _ => "other".into() };
	out.stats.hit(&format!("path-independent:{}:{verdict}", kind.split('/').next().unwrap_or("")));
	match vg_answer(&req, &td.0) {
		None => out.stats.hit("resolve:err"),
		Some(s) => {
			out.stats.hit("resolve:ok");
			let text = s.to_string();
			out.stats.add("apply:ok", text.matches("(ok ").count() as u64);
			out.stats.add("apply:amb", text.matches("(amb ").count() as u64);
			out.stats.add("apply:unreachable", text.matches("(unreachable ").count() as u64);
			out.stats.add("apply:err", text.matches(" err)").count() as u64);
		}
	}
}

fn gen(r: &mut Rng, tier: Tier, out: &mut Out) {
	let bases: Vec<usize> = (0..2).filter(|b| base_dir(*b).is_some()).collect();
	out.stats.add("bases", bases.len() as u64);
	// the seed-independent scenario first (its failures are the most readable ones), in two creation orders per base
	match scenario() {
		None => out.stats.hit("scenario:not-built"),
		Some(dirs) => for (k, d) in dirs.iter().enumerate() {
			if k + 1 == dirs.len() {
				// distribution of the edge files: once, on the whole tree
				let mut added: BTreeMap<String, BTreeSet<String>> = BTreeMap::new();
				for f in &d.files {
					let (Content::Diff(s), Some((p, c))) = (&f.content, f.name.strip_suffix(".tinydiff").and_then(|x| x.split_once('#'))) else { continue };
					let Some(lp) = d.labels.iter().find(|(name, _)| name == p).map(|(_, l)| l.clone()) else { continue };
					let a = edge_stats(s, &lp, &added.get(p).cloned().unwrap_or_default(), out);
					added.insert(c.to_owned(), a);
				}
			}
			let mut first = true;
			for &base in &bases {
				let fwd: Vec<usize> = (0..d.files.len()).collect();
				let rev: Vec<usize> = fwd.iter().rev().cloned().collect();
				for o in [fwd, rev] {
					let Some(listed) = probe(base, &d.files, &o) else { out.stats.hit("gen:probe-failed"); continue };
					out.stats.hit("scenario-dir");
					for op in ["vg", "oracle-fold", "oracle-errors", "oracle-names", "oracle-perm-full"] { emit(out, op, base, &listed, &d.queries, None); }
					// once per directory: a failure is then reported for three different histories
					if first { first = false; emit(out, "oracle-path-independent", base, &listed, &d.queries, Some(&d.labels)); }
				}
			}
		}
	}
	let rounds = if tier == Tier::Thorough { 6000 } else { 880 };
	let mut made = 0;
	let mut tries = 0;
	while made < rounds && tries < rounds * 4 {
		tries += 1;
		let Some(d) = gen_dir(r, out) else { out.stats.hit("gen:dropped"); continue };
		made += 1;
		let n = d.files.len();
		// several file-creation orders where the creation order decides the listing order (tmpfs), one elsewhere; the
		// oracles run where directories are cheapest
		let mut first = true;
		for &base in bases.iter().rev() {
			let mut o: Vec<usize> = (0..n).collect();
			for _ in 0..(if base == 1 { 2 } else { 1 }) {
				r.shuffle(&mut o);
				let Some(listed) = probe(base, &d.files, &o) else { out.stats.hit("gen:probe-failed"); continue };
				emit(out, "vg", base, &listed, &d.queries, None);
				// the cheap oracles run in every listing order (loop detection and path choice depend on it)
				emit(out, "oracle-fold", base, &listed, &d.queries, None);
				emit(out, "oracle-errors", base, &listed, &d.queries, None);
				if first {
					first = false;
					classify(out, base, &listed, &d.queries, &d.labels, &d.kind);
					emit(out, "oracle-names", base, &listed, &d.queries, None);
					emit(out, "oracle-path-independent", base, &listed, &d.queries, Some(&d.labels));
					// every directory, whatever its version strings share
					if n <= (if tier == Tier::Thorough { 5 } else { 3 }) && made % 3 == 0 { out.stats.hit(&format!("all-orders:files={n}")); emit(out, "oracle-perm-all", base, &listed, &d.queries, None); }
					else if tier == Tier::Thorough || made % 2 == 0 { emit(out, "oracle-perm-full", base, &listed, &d.queries, None); }
				}
			}
		}
		// small directories: every creation order where the creation order decides the listing order
		let limit = if tier == Tier::Thorough { 5 } else { 3 };
		if n <= limit && bases.contains(&1) && made % (if tier == Tier::Thorough { 3 } else { 4 }) == 0 {
			out.stats.hit("exhaustive-orders");
			for order in permutations(n) {
				if let Some(listed) = probe(1, &d.files, &order) { emit(out, "vg", 1, &listed, &d.queries, None); }
			}
		}
	}
	gen_shared(r, tier, out, &bases);
	// the directory of `Thm.C05.resolve_perm_collision_regression` (the former order-dependence witness) and the one of
	// `alias_regression`, in every creation order
	for stems in [["r#a~b", "r#b"], ["r#a~b", "b#c"]] {
		let mut files = vec![FileSpec { name: "r.tiny".into(), rank: 0, content: minimal_root() }];
		for (k, st) in stems.iter().enumerate() { files.push(FileSpec { name: format!("{st}.tinydiff"), rank: 0, content: if stems[1] == "r#b" { Content::Diff(empty_diff()) } else { pool_diff(k) } }); }
		let queries: Vec<String> = ["a", "b", "a~b", "r", "c"].iter().map(|s| (*s).to_owned()).collect();
		for &base in &bases {
			for order in permutations(3) {
				if let Some(listed) = probe(base, &files, &order) {
					out.stats.hit("witness-dir");
					for op in ["vg", "oracle-names", "oracle-errors", "oracle-perm-full", "oracle-perm-all"] { emit(out, op, base, &listed, &queries, None); }
				}
			}
		}
	}
	// malformed requests: both sides must refuse them
	out.op("vg", &[Sexp::nat(0), Sexp::list(vec![Sexp::list(vec![Sexp::str("a.tiny"), Sexp::nat(0)])]), Sexp::list(vec![])]);
	out.op("vg", &[Sexp::nat(7), Sexp::list(vec![]), Sexp::list(vec![])]);
	out.op("vg", &[Sexp::nat(0), Sexp::list(vec![Sexp::list(vec![Sexp::str("a.tiny"), Sexp::nat(0), Sexp::list(vec![Sexp::tag("raw"), Sexp::bytes(b"tiny")])])]), Sexp::list(vec![])]);
	out.op("frobnicate", &[Sexp::nat(0)]);
}

fn main() { main_for(&gen, &exec) }
