//! C04: applying a mapping diff is exact; diff and apply are inverse; the same through `.tinydiff` text.
use std::collections::BTreeMap;
use quill::tree::mappings_diff::MappingsDiff;
use fvh::diffcodec::{diff_from, diff_to, write_spec};
use fvh::mapcodec::{self, from_sexp, to_sexp, M};
use fvh::mapgen::{doc as gen_doc, gen_mappings, ident, GClass, GMappings, GMember, GParam, MapCfg};
use fvh::rng::Rng;
use fvh::run::{main_for, Ans, Out, Tier};
use fvh::sexp::Sexp;
use fvh::with_n;
use fvh::diffgen::*;


// =================================================================== pairs (A, B) from a common ancestor

fn mutate(r: &mut Rng, anc: &GMappings, extra: &GMappings, cfg: &MapCfg, absent_pct: usize) -> GMappings {
	let mut m = anc.clone();
	let drop = |r: &mut Rng| r.chance(1, 5);
	let rename = |r: &mut Rng, names: &mut Vec<Option<String>>, cfg: &MapCfg| {
		if r.chance(1, 3) { names[1] = if r.chance(absent_pct, 100) { None } else { Some(ident(r, cfg)) }; }
	};
	let redoc = |r: &mut Rng, d: &mut Option<String>| {
		match r.below(8) { 0 => *d = None, 1 | 2 => *d = Some(fresh_doc(r)), _ => {} }
	};
	m.classes.retain(|_| !drop(r));
	for c in &mut m.classes {
		rename(r, &mut c.names, cfg);
		redoc(r, &mut c.doc);
		c.fields.retain(|_| !drop(r));
		c.methods.retain(|_| !drop(r));
		for f in &mut c.fields { rename(r, &mut f.names, cfg); redoc(r, &mut f.doc); }
		for me in &mut c.methods {
			rename(r, &mut me.names, cfg); redoc(r, &mut me.doc);
			me.params.retain(|_| !drop(r));
			for p in &mut me.params { rename(r, &mut p.names, cfg); redoc(r, &mut p.doc); }
			if r.chance(1, 5) {
				let index = r.below(5);
				if !me.params.iter().any(|p| p.index == index) {
					let src = if cfg.param_src_names && r.chance(1, 3) { Some(ident(r, cfg)) } else { None };
					me.params.push(GParam { index, names: vec![src, Some(ident(r, cfg))], doc: gen_doc(r, cfg) });
				}
			}
			r.shuffle(&mut me.params);
		}
		// members from the extra set
		if let Some(x) = extra.classes.iter().find(|x| r.chance(1, 3) && !x.fields.is_empty() || !x.methods.is_empty()) {
			for f in &x.fields { if r.chance(1, 2) && !c.fields.iter().any(|g| g.names[0] == f.names[0] && g.desc == f.desc) { c.fields.push(f.clone()); } }
			for f in &x.methods { if r.chance(1, 2) && !c.methods.iter().any(|g| g.names[0] == f.names[0] && g.desc == f.desc) { c.methods.push(f.clone()); } }
		}
		r.shuffle(&mut c.fields);
		r.shuffle(&mut c.methods);
	}
	for x in &extra.classes {
		if r.chance(1, 2) && !m.classes.iter().any(|c| c.key() == x.key()) { m.classes.push(x.clone()); }
	}
	r.shuffle(&mut m.classes);
	if r.chance(1, 4) { redoc(r, &mut m.doc); }
	m
}

// =================================================================== text mutations

fn text_variants(r: &mut Rng, text: &[u32], st: &mut Out) -> Vec<u32> {
	let mut lines: Vec<Vec<u32>> = text.split(|c| *c == 10).map(|l| l.to_vec()).collect();
	if lines.last().is_some_and(|l| l.is_empty()) { lines.pop(); }
	let nl = lines.len();
	let li = if nl > 1 { r.range(1, nl - 1) } else { 0 };
	let kind = r.below(16);
	st.stats.hit(&format!("text-mutation:{kind}"));
	let t = |s: &str| -> Vec<u32> { s.chars().map(|c| c as u32).collect() };
	let mut keep_final_lf = true;
	match kind {
		0 => lines[li].insert(0, 9),                                   // deeper indentation
		1 => { if lines[li].first() == Some(&9) { lines[li].remove(0); } else { lines[li].insert(0, 9); } } // shallower
		2 => { lines[li].push(9); lines[li].extend(t("extra")); }        // extra field
		3 => { if let Some(p) = lines[li].iter().rposition(|c| *c == 9) { lines[li].truncate(p); } } // missing field
		4 => { // parameter row with a source cell
			if let Some(l) = lines.iter_mut().find(|l| l.starts_with(&[9, 9, 112, 9])) {
				let mut cells: Vec<Vec<u32>> = l.split(|c| *c == 9).map(|c| c.to_vec()).collect();
				if cells.len() > 4 { cells[4] = t(*r.pick(&["src", "x", "s", "ab", " "])); }
				*l = cells.join(&9);
			}
		}
		5 => { // equal a/b cells
			let mut cells: Vec<Vec<u32>> = lines[li].split(|c| *c == 9).map(|c| c.to_vec()).collect();
			let n = cells.len();
			if n >= 2 { let v = if cells[n - 1].is_empty() { cells[n - 2].clone() } else { cells[n - 1].clone() }; cells[n - 1] = v.clone(); cells[n - 2] = v; }
			lines[li] = cells.join(&9);
		}
		6 => { let l = lines[li].clone(); lines.insert(li, l); }        // duplicate line (duplicate key / second comment)
		7 => { lines[0] = t(*r.pick(&["tiny\t2\t0\t", "tiny\t2", "tiny\t2\t1", "tiny2\t2\t0", "\ttiny\t2\t0", "tiny\t2\t0\tofficial\tnamed", ""])); }
		8 => { for l in lines.iter_mut() { l.push(13); } }               // CRLF
		9 => keep_final_lf = false,
		10 => lines.insert(li, vec![]),                                 // empty line
		11 => { let d = lines[li].iter().take_while(|c| **c == 9).count(); let mut l = vec![9; d]; l.extend(t("x\tunknown\trow")); lines.insert(li, l); }
		12 => { // invalid name in some cell
			let mut cells: Vec<Vec<u32>> = lines[li].split(|c| *c == 9).map(|c| c.to_vec()).collect();
			let n = cells.len();
			let i = r.below(n);
			cells[i].extend(t(*r.pick(&["/", ";", "[", ".", "<", "//x"])));
			lines[li] = cells.join(&9);
		}
		13 => { // parameter index variants
			if let Some(l) = lines.iter_mut().find(|l| l.starts_with(&[9, 9, 112, 9])) {
				let mut cells: Vec<Vec<u32>> = l.split(|c| *c == 9).map(|c| c.to_vec()).collect();
				if cells.len() > 3 { cells[3] = t(*r.pick(&["+1", "-1", "007", "", "1x", "18446744073709551615", "18446744073709551616", "+", " 1"])); }
				*l = cells.join(&9);
			}
		}
		14 => { lines.swap(li, if li + 1 < nl { li + 1 } else { li }); }   // reorder
		_ => { if nl > 1 { lines.remove(li); } }                         // drop a line
	}
	let mut out = lines.join(&10);
	if keep_final_lf && !lines.is_empty() { out.push(10); }
	out
}

// =================================================================== skeleton product

fn skeleton(state: usize) -> GMappings {
	// state 0: everything present and named; 1: present, target names absent; (absence of keys is produced by the diff side)
	let nm = |s: &str| if state == 1 { None } else { Some(s.to_owned()) };
	GMappings { ns: vec!["official".into(), "named".into()], doc: Some("D".into()), classes: vec![
		GClass { names: vec![Some("A".into()), nm("X")], doc: Some("cd".into()),
			fields: vec![GMember { desc: "I".into(), names: vec![Some("f".into()), nm("g")], doc: Some("fd".into()), params: vec![] }],
			methods: vec![GMember { desc: "()V".into(), names: vec![Some("m".into()), nm("n")], doc: Some("md".into()),
				params: vec![GParam { index: 0, names: vec![None, nm("p")], doc: Some("pd".into()) }] }] },
		GClass { names: vec![Some("B".into()), Some("Y".into())], doc: None, fields: vec![], methods: vec![] },
	] }
}

fn product(out: &mut Out) {
	// `Add(cur)`: an addition colliding with the IDENTICAL value is still a collision
	let acts = |cur: &str| vec![GA::None, GA::Add("new".into()), GA::Add(cur.into()), GA::Remove(cur.into()), GA::Remove("wrong".into()),
		GA::Edit(cur.into(), "new".into()), GA::Edit("wrong".into(), "new".into()), GA::Edit(cur.into(), cur.into())];
	for state in 0..2 {
		let t = skeleton(state).to_sexp();
		for level in 0..9 {
			// 0 class 1 field 2 method 3 param (names); 4 top doc 5 class doc 6 field doc 7 method doc 8 param doc
			for present in [true, false] {
				if !present && level >= 4 { continue; }
				let cur = match level { 0 => "X", 1 => "g", 2 => "n", 3 => "p", 4 => "D", 5 => "cd", 6 => "fd", 7 => "md", _ => "pd" };
				for a in acts(cur) {
					let n = GA::None;
					let pick = |l: usize| if level == l { a.clone() } else { n.clone() };
					let ckey = if !present && level == 0 { "Z" } else { "A" };
					let fname = if !present && level == 1 { "zz" } else { "f" };
					let mname = if !present && level == 2 { "zz" } else { "m" };
					let pidx = if !present && level == 3 { 7 } else { 0 };
					let d = GDiff { info: GA::None, doc: pick(4), classes: vec![GDClass { key: ckey.into(), info: pick(0), doc: pick(5),
						fields: vec![GDMember { name: fname.into(), desc: "I".into(), info: pick(1), doc: pick(6), params: vec![] }],
						methods: vec![GDMember { name: mname.into(), desc: "()V".into(), info: pick(2), doc: pick(7),
							params: vec![GDParam { index: pidx, info: pick(3), doc: pick(8) }] }] }] };
					// with the other levels set to None an absent class key can never be applied; also try the path of additions
					out.stats.hit("product");
					for ns in ["named", "official"] {
						out.op("apply", &[d.to_sexp(), t.clone(), Sexp::str(ns)]);
						out.op("oracle-apply-exact", &[d.to_sexp(), t.clone(), Sexp::str(ns)]);
						out.op("oracle-apply-wf", &[d.to_sexp(), t.clone(), Sexp::str(ns)]);
					}
					if !present {
						// ancestors Add so that the node under test is reached on an absent key
						let mut d2 = d.clone();
						d2.classes[0].key = "Z".into();
						d2.classes[0].info = if level == 0 { a.clone() } else { GA::Add("ZZ".into()) };
						if level >= 3 { d2.classes[0].methods[0].info = GA::Add("mm".into()); d2.classes[0].methods[0].name = "zz".into(); }
						d2.classes[0].fields.clear();
						if level == 1 { d2.classes[0].fields.push(d.classes[0].fields[0].clone()); }
						if level < 2 { d2.classes[0].methods.clear(); }
						out.op("apply", &[d2.to_sexp(), t.clone(), Sexp::str("named")]);
						out.op("oracle-apply-exact", &[d2.to_sexp(), t.clone(), Sexp::str("named")]);
					}
				}
			}
		}
	}
}

// =================================================================== gen

fn gen(r: &mut Rng, tier: Tier, out: &mut Out) {
	let scale = if tier == Tier::Thorough { 25 } else { 1 };
	product(out);

	// 1. free-form diffs against generated targets
	for _ in 0..500 * scale {
		let n = *r.pick(&[2, 2, 2, 3, 4]);
		let mut cfg = MapCfg::basic(n);
		cfg.top_doc_pct = 20;
		cfg.max_classes = r.range(1, 4);
		cfg.nest_depth = 0;
		cfg.absent_pct = *r.pick(&[0, 15, 40]);
		cfg.unicode = r.chance(1, 8);
		let t = gen_mappings(r, &cfg);
		let ns = if r.chance(1, 12) { 0 } else { r.range(1, n - 1) };
		let ns_name = if r.chance(1, 20) { "nope".to_owned() } else { t.ns[ns].clone() };
		let dc = DCfg { bad_pct: *r.pick(&[0, 0, 0, 1, 3, 12]), touch_pct: *r.pick(&[40, 80, 100]), extra_pct: *r.pick(&[0, 30, 70]) };
		let d = gen_diff_for(r, &t, ns, &dc, &cfg, out);
		out.stats.hit(&format!("apply:n={n}"));
		out.stats.hit(&format!("apply:ns={}", if ns_name == "nope" { "unknown" } else if ns == 0 { "first" } else { "other" }));
		out.stats.hit(&format!("apply:diff-classes={}", d.classes.len().min(5)));
		let args = [d.to_sexp(), t.to_sexp(), Sexp::str(&ns_name)];
		out.op("apply", &args);
		out.op("oracle-apply-exact", &args);
		out.op("oracle-apply-read-back", &args);
		out.op("oracle-apply-wf", &args);
	}

	// 2. pairs from a common ancestor
	for i in 0..400 * scale {
		let mut cfg = MapCfg::basic(2);
		cfg.top_doc_pct = 20;
		cfg.max_classes = if r.chance(1, 25) { 0 } else { r.range(1, 4) };
		cfg.nest_depth = 0;
		let absent = *r.pick(&[0, 0, 0, 0, 3, 10]);
		cfg.absent_pct = absent;
		cfg.param_src_names = r.chance(1, 3);
		cfg.unicode = r.chance(1, 8);
		cfg.multiline_docs = r.chance(1, 2);
		let anc = gen_mappings(r, &cfg);
		let extra_a = gen_mappings(r, &cfg);
		let extra_b = gen_mappings(r, &cfg);
		let (a, b) = match r.below(10) {
			0 => (anc.clone(), anc.clone()),                                     // all keys shared, nothing changed
			1 => (extra_a.clone(), extra_b.clone()),                             // (mostly) disjoint
			2 => (anc.clone(), GMappings { ns: anc.ns.clone(), doc: None, classes: vec![] }),
			3 => (GMappings { ns: anc.ns.clone(), doc: None, classes: vec![] }, anc.clone()),
			_ => (mutate(r, &anc, &extra_a, &cfg, absent), mutate(r, &anc, &extra_b, &cfg, absent)),
		};
		let mut b = b;
		if r.chance(1, 40) { b.ns[1] = "other".into(); }
		let mut a = a;
		if r.chance(1, 40) { a.ns[1] = a.ns[0].clone(); b.ns[1] = b.ns[0].clone(); out.stats.hit("pair:equal-namespace-names"); }
		out.stats.hit(&format!("pair:classes={}/{}", a.classes.len().min(6), b.classes.len().min(6)));
		out.stats.hit(&format!("pair:param-src={}", cfg.param_src_names));
		let args = [a.to_sexp(), b.to_sexp()];
		if i % 2 == 0 { out.op("diff", &args); }
		out.op("oracle-diff-total", &args);
		out.op("oracle-diff-apply", &args);
		out.op("oracle-diff-apply-text", &args);
	}
	// N != 2 is outside `diff`'s type; both sides answer `err e`
	{
		let cfg = MapCfg::basic(3);
		let a = gen_mappings(r, &cfg);
		out.op("diff", &[a.to_sexp(), a.to_sexp()]);
	}

	// 3. .tinydiff text
	for _ in 0..300 * scale {
		let mut cfg = MapCfg::basic(2);
		cfg.top_doc_pct = 20;
		cfg.max_classes = r.range(1, 3);
		cfg.nest_depth = r.below(2);
		cfg.absent_pct = 30;
		cfg.unicode = r.chance(1, 6);
		let t = gen_mappings(r, &cfg);
		let dc = DCfg { bad_pct: 30, touch_pct: 90, extra_pct: 50 };
		let mut d = gen_diff_for(r, &t, 1, &dc, &cfg, out);
		d.info = GA::None;
		d.doc = GA::None;
		let ds = d.to_sexp();
		out.op("tdiff-write", &[ds.clone()]);
		out.op("oracle-read-write", &[ds.clone()]);
		let Ok(typed) = diff_from(&ds) else { continue };
		let text = write_spec(&typed);
		out.op("tdiff-read", &[Sexp::cps(&text)]);
		// the source cell of the first parameter row: empty (the only legal spelling), one character, longer
		for src in ["", "x", "src", "p0"] {
			if let Some(v) = with_param_src(&text, &src.chars().map(|c| c as u32).collect::<Vec<u32>>()) {
				out.stats.hit(&format!("param-src-cell:len={}", src.len()));
				out.op("oracle-param-src-cell", &[ds.clone(), Sexp::str(src)]);
				out.op("tdiff-read", &[Sexp::cps(&v)]);
			}
		}
		for _ in 0..3 {
			let mut v = text_variants(r, &text, out);
			if r.chance(1, 4) { v = text_variants(r, &v, out); }
			out.op("tdiff-read", &[Sexp::cps(&v)]);
		}
	}
	for s in ["", "\n", "tiny\t2\t0", "tiny\t2\t0\n\n", "tiny\t2\t0\r\n", "tiny\t2\t0\r", "tiny\t2\t0\nc\n", "tiny\t2\t0\nc\tA\n", "tiny\t2\t0\nc\tA\t\t\n",
		"tiny\t2\t0\nc\tA\tX\tX\n\tc\n\tc\n", "tiny\t2\t0\nc\tA\n\tc\ta\\nb\tc\\\\nd\n", "tiny\t2\t0\nc\tA\n\t\tc\tx\n", "tiny\t2\t0\n\tc\tx\n",
		"tiny\t2\t0\nc\tA\n\tf\tI\n", "tiny\t2\t0\nc\tA\n\tf\t\tx\n\tm\t\t<init>\n\tm\t\t<x>\n", "tiny\t2\t0\nc\tA\n\tm\t()V\tm\n\t\tp\t0\n",
		"tiny\t2\t0\nc\tA\n\tm\t()V\tm\n\t\tp\t0\t\n\t\t\tc\td\n\t\t\t\tc\td\n", "tiny\t2\t0\nc\tA\n\tf\tI\tf\n\t\tp\t0\t\tq\n\t\t\tc\n",
		"tiny\t2\t0\nc\tA\n\tm\t()V\tm\n\t\tp\t0\t\ta\tb\n", "tiny\t2\t0\nc\tA\n\tm\t()V\tm\n\t\tp\t0\tx\ta\tb\n", "tiny\t2\t0\nc\tA\n\tm\t()V\tm\n\t\tp\t0\tsrc\ta\tb\n",
		"tiny\t2\t0\nc\tA\n\tm\t()V\tm\n\t\tp\t0\tx\n", "tiny\t2\t0\nc\tA\n\tm\t()V\tm\n\t\tp\t0\tx\t\tb\n", "tiny\t2\t0\nc\tA\n\tm\t()V\tm\n\t\tp\t0\t \ta\tb\n",
		"tiny\t2\t0\nc\t[A\n", "tiny\t2\t0\nc\ta//b\n", "tiny\t2\t0\nc\tA\t[X\n", "tiny\t2\t0\nx\n\ty\n", "tiny\t2\t0\nc\tA\nc\tA\n", "tiny\t2\t0\nc\tA\n\tc\t\tx\ty\n",
		"tiny\t2\t0\nc\tA\n\tc\t\ta\\rb\\tc\\\\n\\\\\\nd\\\n", "tiny\t2\t0\nc\tA\n\tc\tx\\\tx\\\\\n", "tiny\t2\t0\nc\tA\n\tc\t\\q\\\t\n", "tiny\t2\t0\nc\tA\n\tc\t\\\\\t\\\n"] {
		out.stats.hit("text-literal");
		out.op("tdiff-read", &[Sexp::str(s)]);
	}
}


// =================================================================== exec

/// `tiny_v2_diff::read` is crate-private: go through `read_file` with a scratch file
fn read_text(text: &str) -> anyhow::Result<MappingsDiff> {
	let dir = std::env::var("VERIF_SCRATCH").unwrap_or_else(|_| "/var/tmp".into());
	let path = std::path::Path::new(&dir).join(format!("fvh-c04-{}.tinydiff", std::process::id()));
	std::fs::write(&path, text.as_bytes())?;
	let r = quill::tiny_v2_diff::read_file(&path);
	let _ = std::fs::remove_file(&path);
	r
}

/// `text` (lines `\n`-separated, cells tab-separated) with cell 4 - the source cell - of its first parameter row (`\t\tp\t…`) replaced;
/// `None`: there is no such row
fn with_param_src(text: &[u32], src: &[u32]) -> Option<Vec<u32>> {
	let mut lines: Vec<Vec<u32>> = text.split(|c| *c == 10).map(|l| l.to_vec()).collect();
	let l = lines.iter_mut().find(|l| l.starts_with(&[9, 9, 112, 9]))?;
	let mut cells: Vec<Vec<u32>> = l.split(|c| *c == 9).map(|c| c.to_vec()).collect();
	if cells.len() <= 4 { return None; }
	cells[4] = src.to_vec();
	*l = cells.join(&9);
	Some(lines.join(&10))
}
fn cps_to_string(v: &[u32]) -> Option<String> { v.iter().map(|c| char::from_u32(*c)).collect() }

fn apply_real(d: &Sexp, t: &Sexp, ns: &str) -> Result<Result<Sexp, ()>, String> {
	let n = mapcodec::ns_count(t)?;
	let diff = diff_from(d)?;
	with_n!(n, N, {
		let m: M<N> = from_sexp(t)?;
		Ok(match diff.apply_to::<N, mapcodec::NsMarker, mapcodec::NsMarker>(m, ns) { Ok(r) => Ok(to_sexp(&r)), Err(_) => Err(()) })
	}, Err("n".into()))
}

fn exec(op: &str, args: &[Sexp]) -> Ans {
	macro_rules! tr { ($e:expr) => { match $e { Ok(x) => x, Err(e) => return Ans::BadOp(e) } } }
	match (op, args) {
		("apply", [d, t, ns]) => {
			let ns = tr!(ns.as_string());
			match tr!(apply_real(d, t, &ns)) { Ok(r) => Ans::Ok(r), Err(()) => Ans::err() }
		}
		("diff", [a, b]) => {
			if tr!(mapcodec::ns_count(a)) != 2 || tr!(mapcodec::ns_count(b)) != 2 { return Ans::err(); }
			let a: M<2> = tr!(from_sexp(a));
			let b: M<2> = tr!(from_sexp(b));
			match MappingsDiff::diff(&a, &b) { Ok(d) => Ans::Ok(diff_to(&d)), Err(_) => Ans::err() }
		}
		("tdiff-read", [text]) => {
			let Some(text) = cps_to_string(&tr!(text.as_cps())) else { return Ans::BadOp("text is not a scalar string".into()) };
			match read_text(&text) { Ok(d) => Ans::Ok(diff_to(&d)), Err(_) => Ans::err() }
		}
		("tdiff-write", [d]) => Ans::Ok(Sexp::cps(&write_spec(&tr!(diff_from(d))))),
		("oracle-read-write", [d]) => {
			if !writable(d) { return Ans::out_of_domain(); }
			let Some(text) = cps_to_string(&write_spec(&tr!(diff_from(d)))) else { return Ans::fail("text") };
			match read_text(&text) {
				Ok(d2) => if diff_to(&d2) == norm_diff(d) { Ans::pass() } else { Ans::fail("read_differs") },
				Err(_) => Ans::fail("unreadable"),
			}
		}
		// "parameter rows must have an empty source cell": the specification text of a writable diff with the source cell of its
		// first parameter row set to `src` is read back as the diff when `src` is empty and refused otherwise
		("oracle-param-src-cell", [d, src]) => {
			let src = tr!(src.as_cps());
			if !writable(d) || !plain_cell(&src) { return Ans::out_of_domain(); }
			let Some(v) = with_param_src(&write_spec(&tr!(diff_from(d))), &src) else { return Ans::out_of_domain() };
			let Some(text) = cps_to_string(&v) else { return Ans::fail("text") };
			match (read_text(&text), src.is_empty()) {
				(Ok(d2), true) => if diff_to(&d2) == norm_diff(d) { Ans::pass() } else { Ans::fail("read_differs") },
				(Err(_), true) => Ans::fail("unreadable"),
				(Ok(_), false) => Ans::fail("source_cell_accepted"),
				(Err(_), false) => Ans::pass(),
			}
		}
		("oracle-apply-wf" | "oracle-apply-wf-full", [d, t, ns]) => {
			if !diff_keys_unique(d) || !wf(t) { return Ans::out_of_domain(); }
			let nss = tr!(ns.as_string());
			let Ok(r) = tr!(apply_real(d, t, &nss)) else { return Ans::out_of_domain() };
			if wf(&r) { Ans::pass() } else { Ans::fail("not_wf") }
		}
		("oracle-diff-total", [a, b]) => {
			if tr!(mapcodec::ns_count(a)) != 2 || tr!(mapcodec::ns_count(b)) != 2 { return Ans::out_of_domain(); }
			if !keys_unique(a) || !keys_unique(b) { return Ans::out_of_domain(); }
			let ma: M<2> = tr!(from_sexp(a));
			let mb: M<2> = tr!(from_sexp(b));
			let expect = items(a)[0] == items(b)[0] && all_named(a) && all_named(b);
			match (MappingsDiff::diff(&ma, &mb).is_ok(), expect) {
				(x, y) if x == y => Ans::pass(),
				(true, _) => Ans::fail("succeeds_outside_domain"),
				_ => Ans::fail("fails_inside_domain"),
			}
		}
		("oracle-apply-read-back", [d, t, ns]) => {
			if !diff_keys_unique(d) || !keys_unique(t) { return Ans::out_of_domain(); }
			let dd = items(d);
			if dd[0] != Sexp::tag("none") || !same_or_none(&dd[1]) { return Ans::out_of_domain(); }
			let nss = tr!(ns.as_string());
			let Ok(r) = tr!(apply_real(d, t, &nss)) else { return Ans::out_of_domain() };
			match tr!(apply_real(&norm_diff(d), t, &nss)) {
				Err(()) => Ans::fail("refused_after_text"),
				Ok(r2) => if canon_mappings(&r2) == canon_mappings(&r) { Ans::pass() } else { Ans::fail("differs") },
			}
		}
		("oracle-diff-apply" | "oracle-diff-apply-text" | "oracle-diff-apply-full", [a, b]) => {
			if tr!(mapcodec::ns_count(a)) != 2 || tr!(mapcodec::ns_count(b)) != 2 { return Ans::out_of_domain(); }
			if !wf(a) || !wf(b) { return Ans::out_of_domain(); }
			let ma: M<2> = tr!(from_sexp(a));
			let mb: M<2> = tr!(from_sexp(b));
			let Ok(d) = MappingsDiff::diff(&ma, &mb) else { return Ans::out_of_domain() };
			let nss = items(&items(a)[0]);
			if nss[0] == nss[1] { return Ans::out_of_domain(); }
			if op != "oracle-diff-apply-full" && !param_srcless(a, b) { return Ans::out_of_domain(); }
			let ns = tr!(nss[1].as_string());
			let d = if op == "oracle-diff-apply-text" {
				let ds = diff_to(&d);
				if !writable(&ds) { return Ans::out_of_domain(); }
				let Some(text) = cps_to_string(&write_spec(&d)) else { return Ans::fail("text") };
				let Ok(d2) = read_text(&text) else { return Ans::fail("unreadable") };
				if diff_to(&d2) != norm_diff(&ds) { return Ans::fail("read_differs"); }
				d2
			} else { d };
			match d.apply_to::<2, mapcodec::NsMarker, mapcodec::NsMarker>(ma, &ns) {
				Err(_) => Ans::fail("refused"),
				Ok(r) => if canon_mappings(&to_sexp(&r)) == canon_mappings(b) { Ans::pass() } else { Ans::fail("differs") },
			}
		}
		("oracle-apply-exact", [d, t, ns]) => {
			let nss = tr!(ns.as_string());
			let real = tr!(apply_real(d, t, &nss));
			match (real, spec_apply(d, t, ns)) {
				(Ok(r), Ok(s)) => if canon_mappings(&r) == s { Ans::pass() } else { Ans::fail("inexact") },
				(Err(()), Err(())) => Ans::pass(),
				(Ok(_), Err(())) => Ans::fail("accepted_inconsistent"),
				(Err(()), Ok(_)) => Ans::fail("refused_without_reason"),
			}
		}
		_ => Ans::BadOp("unknown op".into()),
	}
}

fn main() { main_for(&gen, &exec) }
