//! C04: applying a mapping diff is exact; diff and apply are inverse; the same through `.tinydiff` text.
use std::collections::BTreeMap;
use quill::tree::mappings_diff::MappingsDiff;
use fvh::diffcodec::{diff_from, diff_to, write_spec};
use fvh::mapcodec::{self, from_sexp, to_sexp, M};
use fvh::mapgen::{doc as gen_doc, gen_mappings, ident, GClass, GMappings, GMember, GParam, MapCfg};
use fvh::rng::Rng;
use fvh::run::{main_for, Ans, Out, Tier};
use fvh::sexp::Sexp;
use fvh::with_n;

// =================================================================== generator-side diff trees

#[derive(Clone, Debug, PartialEq)]
enum GA { None, Add(String), Remove(String), Edit(String, String) }
impl GA {
	fn to_sexp(&self) -> Sexp {
		match self {
			GA::None => Sexp::tag("none"),
			GA::Add(b) => Sexp::list(vec![Sexp::tag("add"), Sexp::str(b)]),
			GA::Remove(a) => Sexp::list(vec![Sexp::tag("remove"), Sexp::str(a)]),
			GA::Edit(a, b) => Sexp::list(vec![Sexp::tag("edit"), Sexp::str(a), Sexp::str(b)]),
		}
	}
	fn kind(&self) -> &'static str { match self { GA::None => "none", GA::Add(_) => "add", GA::Remove(_) => "remove", GA::Edit(..) => "edit" } }
}
#[derive(Clone, Debug)]
struct GDParam { index: usize, info: GA, doc: GA }
#[derive(Clone, Debug)]
struct GDMember { name: String, desc: String, info: GA, doc: GA, params: Vec<GDParam> }
#[derive(Clone, Debug)]
struct GDClass { key: String, info: GA, doc: GA, fields: Vec<GDMember>, methods: Vec<GDMember> }
#[derive(Clone, Debug)]
struct GDiff { info: GA, doc: GA, classes: Vec<GDClass> }

impl GDiff {
	fn to_sexp(&self) -> Sexp {
		Sexp::list(vec![self.info.to_sexp(), self.doc.to_sexp(), Sexp::list(self.classes.iter().map(|c| Sexp::list(vec![
			Sexp::str(&c.key), c.info.to_sexp(), c.doc.to_sexp(),
			Sexp::list(c.fields.iter().map(|f| Sexp::list(vec![Sexp::str(&f.name), Sexp::str(&f.desc), f.info.to_sexp(), f.doc.to_sexp()])).collect()),
			Sexp::list(c.methods.iter().map(|m| Sexp::list(vec![Sexp::str(&m.name), Sexp::str(&m.desc), m.info.to_sexp(), m.doc.to_sexp(),
				Sexp::list(m.params.iter().map(|p| Sexp::list(vec![Sexp::nat(p.index), p.info.to_sexp(), p.doc.to_sexp()])).collect())])).collect()),
		])).collect())])
	}
}

/// an action for a node whose current value is `cur` (`present` = the key exists); `bad` = make it inconsistent
fn gen_action(r: &mut Rng, present: bool, cur: &Option<String>, bad_pct: usize, fresh: &mut dyn FnMut(&mut Rng) -> String, st: &mut Out, lvl: &str) -> GA {
	let bad = r.chance(bad_pct, 100);
	let wrong = |r: &mut Rng, c: &str, fresh: &mut dyn FnMut(&mut Rng) -> String| { let mut w = fresh(r); if w == c { w.push('9'); } w };
	let a = if !present {
		if !bad { GA::Add(fresh(r)) } else { match r.below(3) { 0 => GA::None, 1 => GA::Remove(fresh(r)), _ => GA::Edit(fresh(r), fresh(r)) } }
	} else {
		match (cur, bad) {
			(Some(c), false) => match r.below(6) { 0 | 1 => GA::None, 2 | 3 => GA::Edit(c.clone(), fresh(r)), 4 => GA::Edit(c.clone(), c.clone()), _ => GA::Remove(c.clone()) },
			(Some(c), true) => match r.below(3) { 0 => GA::Add(fresh(r)), 1 => GA::Remove(wrong(r, c, fresh)), _ => GA::Edit(wrong(r, c, fresh), fresh(r)) },
			(None, false) => if r.chance(1, 2) { GA::None } else { GA::Add(fresh(r)) },
			(None, true) => if r.chance(1, 2) { GA::Remove(fresh(r)) } else { GA::Edit(fresh(r), fresh(r)) },
		}
	};
	st.stats.hit(&format!("act:{lvl}:{}:{}:{}", a.kind(), if present { if cur.is_some() { "named" } else { "nameless" } } else { "absent" }, if bad { "inconsistent" } else { "consistent" }));
	a
}

struct DCfg { bad_pct: usize, touch_pct: usize, extra_pct: usize }

fn fresh_doc(r: &mut Rng) -> String { (*r.pick(&["new doc", "other", "line1\nline2", "x\\y", " d", "q", "a\\nb", "tab\there", "cr\r", "\\", "\\\\t", "end\\"])).to_owned() }

/// a diff aimed at target `t`, namespace index `ns`
fn gen_diff_for(r: &mut Rng, t: &GMappings, ns: usize, dc: &DCfg, cfg: &MapCfg, st: &mut Out) -> GDiff {
	let mut fresh_name = { let cfg = cfg.clone(); move |r: &mut Rng| ident(r, &cfg) };
	let mut fresh_cls = { let cfg = cfg.clone(); move |r: &mut Rng| format!("{}{}", r.pick(&["", "p/", "q/r/"]), ident(r, &cfg)) };
	let mut fresh_d = |r: &mut Rng| fresh_doc(r);
	let mut classes = Vec::new();
	for c in &t.classes {
		if !r.chance(dc.touch_pct, 100) { continue; }
		let info = gen_action(r, true, &c.names[ns], dc.bad_pct, &mut fresh_cls, st, "class");
		// inside a removed subtree the code checks nothing: be wild there
		let bp = if matches!(info, GA::Remove(_)) { 50 } else { dc.bad_pct };
		let doc = gen_action(r, true, &c.doc, bp, &mut fresh_d, st, "cdoc");
		let mut members = |r: &mut Rng, ms: &[GMember], is_method: bool, st: &mut Out| -> Vec<GDMember> {
			let mut out = Vec::new();
			for m in ms {
				if !r.chance(dc.touch_pct, 100) { continue; }
				let info = gen_action(r, true, &m.names[ns], bp, &mut fresh_name, st, if is_method { "method" } else { "field" });
				let bp2 = if matches!(info, GA::Remove(_)) { 50 } else { bp };
				let doc = gen_action(r, true, &m.doc, bp2, &mut fresh_d, st, if is_method { "mdoc" } else { "fdoc" });
				let mut params = Vec::new();
				if is_method {
					for p in &m.params {
						if !r.chance(dc.touch_pct, 100) { continue; }
						let info = gen_action(r, true, &p.names[ns], bp2, &mut fresh_name, st, "param");
						let bp3 = if matches!(info, GA::Remove(_)) { 50 } else { bp2 };
						params.push(GDParam { index: p.index, info, doc: gen_action(r, true, &p.doc, bp3, &mut fresh_d, st, "pdoc") });
					}
					if r.chance(dc.extra_pct, 100) {
						let index = r.below(6);
						if !m.params.iter().any(|p| p.index == index) {
							params.push(GDParam { index, info: gen_action(r, false, &None, bp2, &mut fresh_name, st, "param"),
								doc: gen_action(r, true, &None, bp2, &mut fresh_d, st, "pdoc") });
						}
					}
					r.shuffle(&mut params);
				}
				out.push(GDMember { name: m.names[0].clone().unwrap_or_default(), desc: m.desc.clone(), info, doc, params });
			}
			for _ in 0..2 {
				if !r.chance(dc.extra_pct, 100) { continue; }
				let name = fresh_name(r);
				let desc = if is_method { (*r.pick(&["()V", "(I)I", "(LFoo;)V"])).to_owned() } else { (*r.pick(&["I", "LFoo;", "[J"])).to_owned() };
				if ms.iter().any(|m| m.names[0].as_deref() == Some(&name) && m.desc == desc) || out.iter().any(|m| m.name == name && m.desc == desc) { continue; }
				let info = gen_action(r, false, &None, bp, &mut fresh_name, st, if is_method { "method" } else { "field" });
				let doc = gen_action(r, true, &None, bp, &mut fresh_d, st, if is_method { "mdoc" } else { "fdoc" });
				let mut params = Vec::new();
				if is_method && r.chance(1, 2) {
					params.push(GDParam { index: r.below(3), info: gen_action(r, false, &None, bp, &mut fresh_name, st, "param"),
						doc: gen_action(r, true, &None, bp, &mut fresh_d, st, "pdoc") });
				}
				out.push(GDMember { name, desc, info, doc, params });
			}
			r.shuffle(&mut out);
			out
		};
		let fields = members(r, &c.fields, false, st);
		let methods = members(r, &c.methods, true, st);
		classes.push(GDClass { key: c.key(), info, doc, fields, methods });
	}
	for _ in 0..2 {
		if !r.chance(dc.extra_pct, 100) { continue; }
		let key = fresh_cls(r);
		if t.classes.iter().any(|c| c.key() == key) || classes.iter().any(|c| c.key == key) { continue; }
		let info = gen_action(r, false, &None, dc.bad_pct, &mut fresh_cls, st, "class");
		let doc = gen_action(r, true, &None, dc.bad_pct, &mut fresh_d, st, "cdoc");
		let mut fields = Vec::new();
		let mut methods = Vec::new();
		if r.chance(1, 2) {
			fields.push(GDMember { name: fresh_name(r), desc: "I".into(), info: gen_action(r, false, &None, dc.bad_pct, &mut fresh_name, st, "field"),
				doc: gen_action(r, true, &None, dc.bad_pct, &mut fresh_d, st, "fdoc"), params: vec![] });
		}
		if r.chance(1, 2) {
			let params = if r.chance(1, 2) { vec![GDParam { index: r.below(3), info: gen_action(r, false, &None, dc.bad_pct, &mut fresh_name, st, "param"), doc: GA::None }] } else { vec![] };
			methods.push(GDMember { name: fresh_name(r), desc: "()V".into(), info: gen_action(r, false, &None, dc.bad_pct, &mut fresh_name, st, "method"),
				doc: gen_action(r, true, &None, dc.bad_pct, &mut fresh_d, st, "mdoc"), params });
		}
		classes.push(GDClass { key, info, doc, fields, methods });
	}
	r.shuffle(&mut classes);
	let info = if r.chance(1, 12) {
		let cur = t.ns[ns].clone();
		match r.below(4) { 0 => GA::Edit(cur, "renamed".into()), 1 => GA::Edit("wrong".into(), "renamed".into()), 2 => GA::Add("x".into()), _ => GA::Remove(cur) }
	} else { GA::None };
	let doc = if r.chance(1, 4) { gen_action(r, true, &t.doc, dc.bad_pct, &mut fresh_d, st, "topdoc") } else { GA::None };
	GDiff { info, doc, classes }
}

// =================================================================== pairs (A, B) from a common ancestor

fn mutate(r: &mut Rng, anc: &GMappings, extra: &GMappings, cfg: &MapCfg, absent_pct: usize) -> GMappings {
	let mut m = anc.clone();
	let drop = |r: &mut Rng| r.chance(1, 5);
	let rename = |r: &mut Rng, names: &mut Vec<Option<String>>, cfg: &MapCfg| {
		if r.chance(1, 3) { names[1] = if r.chance(absent_pct, 100) { None } else { Some(ident(r, cfg)) }; }
	};
	let redoc = |r: &mut Rng, d: &mut Option<String>| {
		match r.below(8) { 0 => *d = None, 1 | 2 => *d = Some(fresh_doc(r)), _ => {} }
	};
	m.classes.retain(|_| !drop(r));
	for c in &mut m.classes {
		rename(r, &mut c.names, cfg);
		redoc(r, &mut c.doc);
		c.fields.retain(|_| !drop(r));
		c.methods.retain(|_| !drop(r));
		for f in &mut c.fields { rename(r, &mut f.names, cfg); redoc(r, &mut f.doc); }
		for me in &mut c.methods {
			rename(r, &mut me.names, cfg); redoc(r, &mut me.doc);
			me.params.retain(|_| !drop(r));
			for p in &mut me.params { rename(r, &mut p.names, cfg); redoc(r, &mut p.doc); }
			if r.chance(1, 5) {
				let index = r.below(5);
				if !me.params.iter().any(|p| p.index == index) {
					let src = if cfg.param_src_names && r.chance(1, 3) { Some(ident(r, cfg)) } else { None };
					me.params.push(GParam { index, names: vec![src, Some(ident(r, cfg))], doc: gen_doc(r, cfg) });
				}
			}
			r.shuffle(&mut me.params);
		}
		// members from the extra set
		if let Some(x) = extra.classes.iter().find(|x| r.chance(1, 3) && !x.fields.is_empty() || !x.methods.is_empty()) {
			for f in &x.fields { if r.chance(1, 2) && !c.fields.iter().any(|g| g.names[0] == f.names[0] && g.desc == f.desc) { c.fields.push(f.clone()); } }
			for f in &x.methods { if r.chance(1, 2) && !c.methods.iter().any(|g| g.names[0] == f.names[0] && g.desc == f.desc) { c.methods.push(f.clone()); } }
		}
		r.shuffle(&mut c.fields);
		r.shuffle(&mut c.methods);
	}
	for x in &extra.classes {
		if r.chance(1, 2) && !m.classes.iter().any(|c| c.key() == x.key()) { m.classes.push(x.clone()); }
	}
	r.shuffle(&mut m.classes);
	if r.chance(1, 4) { redoc(r, &mut m.doc); }
	m
}

// =================================================================== text mutations

fn text_variants(r: &mut Rng, text: &[u32], st: &mut Out) -> Vec<u32> {
	let mut lines: Vec<Vec<u32>> = text.split(|c| *c == 10).map(|l| l.to_vec()).collect();
	if lines.last().is_some_and(|l| l.is_empty()) { lines.pop(); }
	let nl = lines.len();
	let li = if nl > 1 { r.range(1, nl - 1) } else { 0 };
	let kind = r.below(16);
	st.stats.hit(&format!("text-mutation:{kind}"));
	let t = |s: &str| -> Vec<u32> { s.chars().map(|c| c as u32).collect() };
	let mut keep_final_lf = true;
	match kind {
		0 => lines[li].insert(0, 9),                                   // deeper indentation
		1 => { if lines[li].first() == Some(&9) { lines[li].remove(0); } else { lines[li].insert(0, 9); } } // shallower
		2 => { lines[li].push(9); lines[li].extend(t("extra")); }        // extra field
		3 => { if let Some(p) = lines[li].iter().rposition(|c| *c == 9) { lines[li].truncate(p); } } // missing field
		4 => { // parameter row with a source cell
			if let Some(l) = lines.iter_mut().find(|l| l.starts_with(&[9, 9, 112, 9])) {
				let mut cells: Vec<Vec<u32>> = l.split(|c| *c == 9).map(|c| c.to_vec()).collect();
				if cells.len() > 4 { cells[4] = t("src"); }
				*l = cells.join(&9);
			}
		}
		5 => { // equal a/b cells
			let mut cells: Vec<Vec<u32>> = lines[li].split(|c| *c == 9).map(|c| c.to_vec()).collect();
			let n = cells.len();
			if n >= 2 { let v = if cells[n - 1].is_empty() { cells[n - 2].clone() } else { cells[n - 1].clone() }; cells[n - 1] = v.clone(); cells[n - 2] = v; }
			lines[li] = cells.join(&9);
		}
		6 => { let l = lines[li].clone(); lines.insert(li, l); }        // duplicate line (duplicate key / second comment)
		7 => { lines[0] = t(*r.pick(&["tiny\t2\t0\t", "tiny\t2", "tiny\t2\t1", "tiny2\t2\t0", "\ttiny\t2\t0", "tiny\t2\t0\tofficial\tnamed", ""])); }
		8 => { for l in lines.iter_mut() { l.push(13); } }               // CRLF
		9 => keep_final_lf = false,
		10 => lines.insert(li, vec![]),                                 // empty line
		11 => { let d = lines[li].iter().take_while(|c| **c == 9).count(); let mut l = vec![9; d]; l.extend(t("x\tunknown\trow")); lines.insert(li, l); }
		12 => { // invalid name in some cell
			let mut cells: Vec<Vec<u32>> = lines[li].split(|c| *c == 9).map(|c| c.to_vec()).collect();
			let n = cells.len();
			let i = r.below(n);
			cells[i].extend(t(*r.pick(&["/", ";", "[", ".", "<", "//x"])));
			lines[li] = cells.join(&9);
		}
		13 => { // parameter index variants
			if let Some(l) = lines.iter_mut().find(|l| l.starts_with(&[9, 9, 112, 9])) {
				let mut cells: Vec<Vec<u32>> = l.split(|c| *c == 9).map(|c| c.to_vec()).collect();
				if cells.len() > 3 { cells[3] = t(*r.pick(&["+1", "-1", "007", "", "1x", "18446744073709551615", "18446744073709551616", "+", " 1"])); }
				*l = cells.join(&9);
			}
		}
		14 => { lines.swap(li, if li + 1 < nl { li + 1 } else { li }); }   // reorder
		_ => { if nl > 1 { lines.remove(li); } }                         // drop a line
	}
	let mut out = lines.join(&10);
	if keep_final_lf && !lines.is_empty() { out.push(10); }
	out
}

// =================================================================== skeleton product

fn skeleton(state: usize) -> GMappings {
	// state 0: everything present and named; 1: present, target names absent; (absence of keys is produced by the diff side)
	let nm = |s: &str| if state == 1 { None } else { Some(s.to_owned()) };
	GMappings { ns: vec!["official".into(), "named".into()], doc: Some("D".into()), classes: vec![
		GClass { names: vec![Some("A".into()), nm("X")], doc: Some("cd".into()),
			fields: vec![GMember { desc: "I".into(), names: vec![Some("f".into()), nm("g")], doc: Some("fd".into()), params: vec![] }],
			methods: vec![GMember { desc: "()V".into(), names: vec![Some("m".into()), nm("n")], doc: Some("md".into()),
				params: vec![GParam { index: 0, names: vec![None, nm("p")], doc: Some("pd".into()) }] }] },
		GClass { names: vec![Some("B".into()), Some("Y".into())], doc: None, fields: vec![], methods: vec![] },
	] }
}

fn product(out: &mut Out) {
	let acts = |cur: &str| vec![GA::None, GA::Add("new".into()), GA::Remove(cur.into()), GA::Remove("wrong".into()),
		GA::Edit(cur.into(), "new".into()), GA::Edit("wrong".into(), "new".into()), GA::Edit(cur.into(), cur.into())];
	for state in 0..2 {
		let t = skeleton(state).to_sexp();
		for level in 0..9 {
			// 0 class 1 field 2 method 3 param (names); 4 top doc 5 class doc 6 field doc 7 method doc 8 param doc
			for present in [true, false] {
				if !present && level >= 4 { continue; }
				let cur = match level { 0 => "X", 1 => "g", 2 => "n", 3 => "p", 4 => "D", 5 => "cd", 6 => "fd", 7 => "md", _ => "pd" };
				for a in acts(cur) {
					let n = GA::None;
					let pick = |l: usize| if level == l { a.clone() } else { n.clone() };
					let ckey = if !present && level == 0 { "Z" } else { "A" };
					let fname = if !present && level == 1 { "zz" } else { "f" };
					let mname = if !present && level == 2 { "zz" } else { "m" };
					let pidx = if !present && level == 3 { 7 } else { 0 };
					let d = GDiff { info: GA::None, doc: pick(4), classes: vec![GDClass { key: ckey.into(), info: pick(0), doc: pick(5),
						fields: vec![GDMember { name: fname.into(), desc: "I".into(), info: pick(1), doc: pick(6), params: vec![] }],
						methods: vec![GDMember { name: mname.into(), desc: "()V".into(), info: pick(2), doc: pick(7),
							params: vec![GDParam { index: pidx, info: pick(3), doc: pick(8) }] }] }] };
					// with the other levels set to None an absent class key can never be applied; also try the path of additions
					out.stats.hit("product");
					for ns in ["named", "official"] {
						out.op("apply", &[d.to_sexp(), t.clone(), Sexp::str(ns)]);
						out.op("oracle-apply-exact", &[d.to_sexp(), t.clone(), Sexp::str(ns)]);
						out.op("oracle-apply-wf", &[d.to_sexp(), t.clone(), Sexp::str(ns)]);
					}
					if !present {
						// ancestors Add so that the node under test is reached on an absent key
						let mut d2 = d.clone();
						d2.classes[0].key = "Z".into();
						d2.classes[0].info = if level == 0 { a.clone() } else { GA::Add("ZZ".into()) };
						if level >= 3 { d2.classes[0].methods[0].info = GA::Add("mm".into()); d2.classes[0].methods[0].name = "zz".into(); }
						d2.classes[0].fields.clear();
						if level == 1 { d2.classes[0].fields.push(d.classes[0].fields[0].clone()); }
						if level < 2 { d2.classes[0].methods.clear(); }
						out.op("apply", &[d2.to_sexp(), t.clone(), Sexp::str("named")]);
						out.op("oracle-apply-exact", &[d2.to_sexp(), t.clone(), Sexp::str("named")]);
					}
				}
			}
		}
	}
}

// =================================================================== gen

fn gen(r: &mut Rng, tier: Tier, out: &mut Out) {
	let scale = if tier == Tier::Thorough { 25 } else { 1 };
	product(out);

	// 1. free-form diffs against generated targets
	for _ in 0..500 * scale {
		let n = *r.pick(&[2, 2, 2, 3, 4]);
		let mut cfg = MapCfg::basic(n);
		cfg.max_classes = r.range(1, 4);
		cfg.nest_depth = 0;
		cfg.absent_pct = *r.pick(&[0, 15, 40]);
		cfg.unicode = r.chance(1, 8);
		let t = gen_mappings(r, &cfg);
		let ns = if r.chance(1, 12) { 0 } else { r.range(1, n - 1) };
		let ns_name = if r.chance(1, 20) { "nope".to_owned() } else { t.ns[ns].clone() };
		let dc = DCfg { bad_pct: *r.pick(&[0, 0, 0, 1, 3, 12]), touch_pct: *r.pick(&[40, 80, 100]), extra_pct: *r.pick(&[0, 30, 70]) };
		let d = gen_diff_for(r, &t, ns, &dc, &cfg, out);
		out.stats.hit(&format!("apply:n={n}"));
		out.stats.hit(&format!("apply:ns={}", if ns_name == "nope" { "unknown" } else if ns == 0 { "first" } else { "other" }));
		out.stats.hit(&format!("apply:diff-classes={}", d.classes.len().min(5)));
		let args = [d.to_sexp(), t.to_sexp(), Sexp::str(&ns_name)];
		out.op("apply", &args);
		out.op("oracle-apply-exact", &args);
		out.op("oracle-apply-read-back", &args);
		out.op("oracle-apply-wf", &args);
	}

	// 2. pairs from a common ancestor
	for i in 0..400 * scale {
		let mut cfg = MapCfg::basic(2);
		cfg.max_classes = if r.chance(1, 25) { 0 } else { r.range(1, 4) };
		cfg.nest_depth = 0;
		let absent = *r.pick(&[0, 0, 0, 0, 3, 10]);
		cfg.absent_pct = absent;
		cfg.param_src_names = r.chance(1, 3);
		cfg.unicode = r.chance(1, 8);
		cfg.multiline_docs = r.chance(1, 2);
		let anc = gen_mappings(r, &cfg);
		let extra_a = gen_mappings(r, &cfg);
		let extra_b = gen_mappings(r, &cfg);
		let (a, b) = match r.below(10) {
			0 => (anc.clone(), anc.clone()),                                     // all keys shared, nothing changed
			1 => (extra_a.clone(), extra_b.clone()),                             // (mostly) disjoint
			2 => (anc.clone(), GMappings { ns: anc.ns.clone(), doc: None, classes: vec![] }),
			3 => (GMappings { ns: anc.ns.clone(), doc: None, classes: vec![] }, anc.clone()),
			_ => (mutate(r, &anc, &extra_a, &cfg, absent), mutate(r, &anc, &extra_b, &cfg, absent)),
		};
		let mut b = b;
		if r.chance(1, 40) { b.ns[1] = "other".into(); }
		let mut a = a;
		if r.chance(1, 40) { a.ns[1] = a.ns[0].clone(); b.ns[1] = b.ns[0].clone(); out.stats.hit("pair:equal-namespace-names"); }
		out.stats.hit(&format!("pair:classes={}/{}", a.classes.len().min(6), b.classes.len().min(6)));
		out.stats.hit(&format!("pair:param-src={}", cfg.param_src_names));
		let args = [a.to_sexp(), b.to_sexp()];
		if i % 2 == 0 { out.op("diff", &args); }
		out.op("oracle-diff-total", &args);
		out.op("oracle-diff-apply", &args);
		out.op("oracle-diff-apply-text", &args);
	}
	// N != 2 is outside `diff`'s type; both sides answer `err e`
	{
		let cfg = MapCfg::basic(3);
		let a = gen_mappings(r, &cfg);
		out.op("diff", &[a.to_sexp(), a.to_sexp()]);
	}

	// 3. .tinydiff text
	for _ in 0..300 * scale {
		let mut cfg = MapCfg::basic(2);
		cfg.max_classes = r.range(1, 3);
		cfg.nest_depth = r.below(2);
		cfg.absent_pct = 30;
		cfg.unicode = r.chance(1, 6);
		let t = gen_mappings(r, &cfg);
		let dc = DCfg { bad_pct: 30, touch_pct: 90, extra_pct: 50 };
		let mut d = gen_diff_for(r, &t, 1, &dc, &cfg, out);
		d.info = GA::None;
		d.doc = GA::None;
		let ds = d.to_sexp();
		out.op("tdiff-write", &[ds.clone()]);
		out.op("oracle-read-write", &[ds.clone()]);
		let Ok(typed) = diff_from(&ds) else { continue };
		let text = write_spec(&typed);
		out.op("tdiff-read", &[Sexp::cps(&text)]);
		for _ in 0..3 {
			let mut v = text_variants(r, &text, out);
			if r.chance(1, 4) { v = text_variants(r, &v, out); }
			out.op("tdiff-read", &[Sexp::cps(&v)]);
		}
	}
	for s in ["", "\n", "tiny\t2\t0", "tiny\t2\t0\n\n", "tiny\t2\t0\r\n", "tiny\t2\t0\r", "tiny\t2\t0\nc\n", "tiny\t2\t0\nc\tA\n", "tiny\t2\t0\nc\tA\t\t\n",
		"tiny\t2\t0\nc\tA\tX\tX\n\tc\n\tc\n", "tiny\t2\t0\nc\tA\n\tc\ta\\nb\tc\\\\nd\n", "tiny\t2\t0\nc\tA\n\t\tc\tx\n", "tiny\t2\t0\n\tc\tx\n",
		"tiny\t2\t0\nc\tA\n\tf\tI\n", "tiny\t2\t0\nc\tA\n\tf\t\tx\n\tm\t\t<init>\n\tm\t\t<x>\n", "tiny\t2\t0\nc\tA\n\tm\t()V\tm\n\t\tp\t0\n",
		"tiny\t2\t0\nc\tA\n\tm\t()V\tm\n\t\tp\t0\t\n\t\t\tc\td\n\t\t\t\tc\td\n", "tiny\t2\t0\nc\tA\n\tf\tI\tf\n\t\tp\t0\t\tq\n\t\t\tc\n",
		"tiny\t2\t0\nc\t[A\n", "tiny\t2\t0\nc\ta//b\n", "tiny\t2\t0\nc\tA\t[X\n", "tiny\t2\t0\nx\n\ty\n", "tiny\t2\t0\nc\tA\nc\tA\n", "tiny\t2\t0\nc\tA\n\tc\t\tx\ty\n",
		"tiny\t2\t0\nc\tA\n\tc\t\ta\\rb\\tc\\\\n\\\\\\nd\\\n", "tiny\t2\t0\nc\tA\n\tc\tx\\\tx\\\\\n", "tiny\t2\t0\nc\tA\n\tc\t\\q\\\t\n", "tiny\t2\t0\nc\tA\n\tc\t\\\\\t\\\n"] {
		out.stats.hit("text-literal");
		out.op("tdiff-read", &[Sexp::str(s)]);
	}
}

// =================================================================== independent specification on S-expressions

#[derive(Clone, Copy, PartialEq)]
enum Lv { Class, Field, Method, Param }
impl Lv {
	fn key_len(self) -> usize { match self { Lv::Class | Lv::Param => 1, _ => 2 } }
	/// position of the names row in a target node after the key
	fn names_at(self) -> usize { if self == Lv::Class { 0 } else { 1 } }
}
type Canon = BTreeMap<String, Sexp>;

fn key_of(lv: Lv, node: &[Sexp]) -> String { node[..lv.key_len()].iter().map(|s| s.to_string()).collect::<Vec<_>>().join(" ") }
fn items(s: &Sexp) -> &[Sexp] { match s { Sexp::List(v) => v, _ => &[] } }
fn canon_sexp(c: Canon) -> Sexp { Sexp::List(c.into_values().collect()) }

/// a target node with its child maps sorted by key
fn canon_node(lv: Lv, node: &[Sexp]) -> Sexp {
	let mut v = node.to_vec();
	let k = lv.key_len();
	match lv {
		Lv::Class => { v[k + 2] = canon_sexp(canon_map(Lv::Field, items(&node[k + 2]))); v[k + 3] = canon_sexp(canon_map(Lv::Method, items(&node[k + 3]))); }
		Lv::Method => { v[k + 3] = canon_sexp(canon_map(Lv::Param, items(&node[k + 3]))); }
		_ => {}
	}
	Sexp::List(v)
}
fn canon_map(lv: Lv, nodes: &[Sexp]) -> Canon { nodes.iter().map(|n| (key_of(lv, items(n)), canon_node(lv, items(n)))).collect() }
fn canon_mappings(m: &Sexp) -> Sexp {
	let v = items(m);
	Sexp::List(vec![v[0].clone(), v[1].clone(), canon_sexp(canon_map(Lv::Class, items(&v[2])))])
}

enum Act<'a> { None, Add(&'a Sexp), Remove(&'a Sexp), Edit(&'a Sexp, &'a Sexp) }
fn act(s: &Sexp) -> Act<'_> {
	match s { Sexp::List(v) if v.len() == 2 && v[0] == Sexp::tag("add") => Act::Add(&v[1]),
		Sexp::List(v) if v.len() == 2 => Act::Remove(&v[1]),
		Sexp::List(v) if v.len() == 3 => Act::Edit(&v[1], &v[2]),
		_ => Act::None }
}
fn some(x: &Sexp) -> Sexp { Sexp::List(vec![x.clone()]) }
fn none() -> Sexp { Sexp::List(vec![]) }

/// the option table: Err = refused
fn spec_opt(a: &Sexp, cur: &Sexp) -> Result<Sexp, ()> {
	match act(a) {
		Act::None => Ok(cur.clone()),
		Act::Add(b) => if *cur == none() { Ok(some(b)) } else { Err(()) },
		Act::Remove(x) => if *cur == some(x) { Ok(none()) } else { Err(()) },
		Act::Edit(x, b) => if *cur == some(x) { Ok(some(b)) } else { Err(()) },
	}
}

fn set_name(node: &mut [Sexp], at: usize, ns: usize, v: Sexp) {
	if let Sexp::List(names) = &mut node[at] { names[ns] = v; }
}

/// children and javadoc of an entry that stays
fn spec_child(lv: Lv, d: &[Sexp], mut t: Vec<Sexp>, ns: usize, n: usize) -> Result<Sexp, ()> {
	let k = lv.key_len();
	let doc_at = k + lv.names_at() + 1;
	t[doc_at] = spec_opt(&d[k + 1], &t[doc_at])?;
	match lv {
		Lv::Class => {
			t[k + 2] = canon_sexp(spec_map(Lv::Field, items(&d[k + 2]), items(&t[k + 2]), ns, n)?);
			t[k + 3] = canon_sexp(spec_map(Lv::Method, items(&d[k + 3]), items(&t[k + 3]), ns, n)?);
		}
		Lv::Method => { t[k + 3] = canon_sexp(spec_map(Lv::Param, items(&d[k + 2]), items(&t[k + 3]), ns, n)?); }
		_ => {}
	}
	Ok(Sexp::List(t))
}

/// the 4 x 3 table of the property, per key; result sorted by key
fn spec_map(lv: Lv, diffs: &[Sexp], targets: &[Sexp], ns: usize, n: usize) -> Result<Canon, ()> {
	let k = lv.key_len();
	let dmap: BTreeMap<String, &[Sexp]> = diffs.iter().map(|d| (key_of(lv, items(d)), items(d))).collect();
	let mut out = Canon::new();
	let mut seen = std::collections::BTreeSet::new();
	for t in targets {
		let t = items(t);
		let key = key_of(lv, t);
		seen.insert(key.clone());
		let Some(d) = dmap.get(&key) else { out.insert(key, canon_node(lv, t)); continue };
		let names_at = k + lv.names_at();
		let cur = items(&t[names_at])[ns].clone();
		let mut t2 = t.to_vec();
		match act(&d[k]) {
			Act::None => {}
			Act::Add(b) => { if ns == 0 || cur != none() { return Err(()); } set_name(&mut t2, names_at, ns, some(b)); }
			Act::Remove(a) => { if ns == 0 || cur != some(a) { return Err(()); } continue; }
			Act::Edit(a, b) => { if ns == 0 || cur != some(a) { return Err(()); } set_name(&mut t2, names_at, ns, some(b)); }
		}
		out.insert(key, spec_child(lv, d, t2, ns, n)?);
	}
	for (key, d) in &dmap {
		if seen.contains(key) { continue; }
		let Act::Add(b) = act(&d[k]) else { return Err(()) };
		// the first namespace is kept in sync with the keys: nothing is ever added there
		if ns == 0 { return Err(()); }
		// created from the key
		let mut t: Vec<Sexp> = d[..k].to_vec();
		let mut names = vec![none(); n];
		match lv {
			Lv::Class => { names[0] = some(&d[0]); names[ns] = some(b); t.extend([Sexp::List(names), none(), none(), none()]); }
			Lv::Field => { names[0] = some(&d[0]); names[ns] = some(b); t.extend([d[1].clone(), Sexp::List(names), none()]); }
			Lv::Method => { names[0] = some(&d[0]); names[ns] = some(b); t.extend([d[1].clone(), Sexp::List(names), none(), none()]); }
			Lv::Param => { names[ns] = some(b); t.extend([d[0].clone(), Sexp::List(names), none()]); }
		}
		out.insert(key.clone(), spec_child(lv, d, t, ns, n)?);
	}
	Ok(out)
}

/// expected result of `apply d t ns` as a canonical S-expression; Err = must be refused
fn spec_apply(d: &Sexp, t: &Sexp, ns_name: &Sexp) -> Result<Sexp, ()> {
	let (d, t) = (items(d), items(t));
	let nss = items(&t[0]);
	let n = nss.len();
	let ns = nss.iter().position(|x| x == ns_name).ok_or(())?;
	let mut nss2 = nss.to_vec();
	match act(&d[0]) {
		Act::None => {}
		Act::Edit(a, b) => { if nss[ns] != *a { return Err(()); } nss2[ns] = b.clone(); }
		_ => return Err(()),
	}
	let doc = spec_opt(&d[1], &t[1])?;
	let classes = spec_map(Lv::Class, items(&d[2]), items(&t[2]), ns, n)?;
	Ok(Sexp::List(vec![Sexp::List(nss2), doc, canon_sexp(classes)]))
}

// =================================================================== domain predicates (twins of Model/DiffSpec.lean)

/// every entry is stored under the key its first name (+ descriptor / index) gives
fn wf(m: &Sexp) -> bool {
	keys_unique(m) && items(&items(m)[2]).iter().all(|c| {
		let c = items(c);
		items(&c[1])[0] == some(&c[0])
			&& items(&c[3]).iter().all(|f| { let f = items(f); f[2] == f[1] && items(&f[3])[0] == some(&f[0]) })
			&& items(&c[4]).iter().all(|m| { let m = items(m); m[2] == m[1] && items(&m[3])[0] == some(&m[0])
				&& items(&m[5]).iter().all(|p| { let p = items(p); p[1] == p[0] }) })
	})
}

fn param_srcless(a: &Sexp, b: &Sexp) -> bool {
	let find = |list: &Sexp, key: &[Sexp]| -> Option<Vec<Sexp>> { items(list).iter().map(|x| items(x).to_vec()).find(|x| x[..key.len()] == *key) };
	items(&items(b)[2]).iter().all(|c| {
		let c = items(c);
		let ca = find(&items(a)[2], &c[..1]);
		items(&c[4]).iter().all(|m| {
			let m = items(m);
			let ma = ca.as_ref().and_then(|ca| find(&ca[4], &m[..2]));
			items(&m[5]).iter().all(|p| {
				let p = items(p);
				let pa = ma.as_ref().and_then(|ma| find(&ma[5], &p[..1]));
				let expect = match pa { Some(pa) => items(&pa[2])[0].clone(), None => none() };
				items(&p[2])[0] == expect
			})
		})
	})
}

fn cps(s: &Sexp) -> Vec<u32> { s.as_cps().unwrap_or_default() }
/// a Unicode scalar value (the text goes through a UTF-8 file)
fn scalar(c: u32) -> bool { c < 0xD800 || (0xDFFF < c && c < 0x110000) }
fn plain_cell(s: &[u32]) -> bool { s.iter().all(|c| ![9, 10, 13].contains(c) && scalar(*c)) }
fn plain_doc(s: &[u32]) -> bool { !s.is_empty() && s.iter().all(|c| scalar(*c)) }
fn valid_unq(s: &[u32]) -> bool { !s.is_empty() && s.iter().all(|c| !['.' as u32, ';' as u32, '[' as u32, '/' as u32].contains(c)) }
fn valid_method(s: &[u32]) -> bool {
	let is = |t: &str| s.iter().copied().eq(t.chars().map(|c| c as u32));
	is("<init>") || is("<clinit>") || (valid_unq(s) && !s.contains(&('<' as u32)) && !s.contains(&('>' as u32)))
}
fn valid_class(s: &[u32]) -> bool { s.first() != Some(&('[' as u32)) && s.split(|c| *c == '/' as u32).all(valid_unq) }
fn action_all(a: &Sexp, p: &dyn Fn(&[u32]) -> bool) -> bool {
	match act(a) { Act::None => true, Act::Add(b) => p(&cps(b)), Act::Remove(a) => p(&cps(a)), Act::Edit(a, b) => p(&cps(a)) && p(&cps(b)) }
}
fn distinct(keys: impl Iterator<Item = String>) -> bool { let mut seen = std::collections::BTreeSet::new(); keys.into_iter().all(|k| seen.insert(k)) }
/// `Diff.WF`: keys unique at every level of a diff
fn diff_keys_unique(d: &Sexp) -> bool {
	let cs = items(&items(d)[2]);
	distinct(cs.iter().map(|c| key_of(Lv::Class, items(c)))) && cs.iter().all(|c| { let c = items(c);
		distinct(items(&c[3]).iter().map(|f| key_of(Lv::Field, items(f)))) && distinct(items(&c[4]).iter().map(|m| key_of(Lv::Method, items(m))))
			&& items(&c[4]).iter().all(|m| distinct(items(&items(m)[4]).iter().map(|p| key_of(Lv::Param, items(p))))) })
}
/// `KeysUnique`: keys unique at every level of a mapping set
fn keys_unique(m: &Sexp) -> bool {
	let cs = items(&items(m)[2]);
	distinct(cs.iter().map(|c| key_of(Lv::Class, items(c)))) && cs.iter().all(|c| { let c = items(c);
		distinct(items(&c[3]).iter().map(|f| key_of(Lv::Field, items(f)))) && distinct(items(&c[4]).iter().map(|m| key_of(Lv::Method, items(m))))
			&& items(&c[4]).iter().all(|m| distinct(items(&items(m)[5]).iter().map(|p| key_of(Lv::Param, items(p))))) })
}
/// top-level comment unchanged: `None` or `Edit(a, a)`
fn same_or_none(a: &Sexp) -> bool { match act(a) { Act::None => true, Act::Edit(x, y) => x == y, _ => false } }
fn writable(d: &Sexp) -> bool {
	let dd = items(d);
	let name = |valid: fn(&[u32]) -> bool| move |s: &[u32]| valid(s) && plain_cell(s);
	dd[0] == Sexp::tag("none") && same_or_none(&dd[1]) && diff_keys_unique(d) && items(&dd[2]).iter().all(|c| {
		let c = items(c);
		name(valid_class)(&cps(&c[0])) && action_all(&c[1], &name(valid_class)) && action_all(&c[2], &plain_doc)
			&& items(&c[3]).iter().all(|f| { let f = items(f);
				name(valid_unq)(&cps(&f[0])) && plain_cell(&cps(&f[1])) && action_all(&f[2], &name(valid_unq)) && action_all(&f[3], &plain_doc) })
			&& items(&c[4]).iter().all(|m| { let m = items(m);
				name(valid_method)(&cps(&m[0])) && plain_cell(&cps(&m[1])) && action_all(&m[2], &name(valid_method)) && action_all(&m[3], &plain_doc)
					&& items(&m[4]).iter().all(|p| { let p = items(p); action_all(&p[1], &name(valid_unq)) && action_all(&p[2], &plain_doc) }) })
	})
}
/// every class, field, method and parameter has a name in namespace 1
fn all_named(m: &Sexp) -> bool {
	let named = |names: &Sexp| items(names).get(1).is_some_and(|x| *x != none());
	items(&items(m)[2]).iter().all(|c| { let c = items(c);
		named(&c[1]) && items(&c[3]).iter().all(|f| named(&items(f)[3]))
			&& items(&c[4]).iter().all(|m| { let m = items(m); named(&m[3]) && items(&m[5]).iter().all(|p| named(&items(p)[2])) }) })
}

fn norm_action(a: &Sexp) -> Sexp { match act(a) { Act::Edit(x, y) if x == y => Sexp::tag("none"), _ => a.clone() } }
/// `Edit(a, a)` reads back as `None`
fn norm_diff(d: &Sexp) -> Sexp {
	let d = items(d);
	Sexp::List(vec![Sexp::tag("none"), Sexp::tag("none"), Sexp::List(items(&d[2]).iter().map(|c| { let c = items(c); Sexp::List(vec![
		c[0].clone(), norm_action(&c[1]), norm_action(&c[2]),
		Sexp::List(items(&c[3]).iter().map(|f| { let f = items(f); Sexp::List(vec![f[0].clone(), f[1].clone(), norm_action(&f[2]), norm_action(&f[3])]) }).collect()),
		Sexp::List(items(&c[4]).iter().map(|m| { let m = items(m); Sexp::List(vec![m[0].clone(), m[1].clone(), norm_action(&m[2]), norm_action(&m[3]),
			Sexp::List(items(&m[4]).iter().map(|p| { let p = items(p); Sexp::List(vec![p[0].clone(), norm_action(&p[1]), norm_action(&p[2])]) }).collect())]) }).collect()),
	]) }).collect())])
}

// =================================================================== exec

/// `tiny_v2_diff::read` is crate-private: go through `read_file` with a scratch file
fn read_text(text: &str) -> anyhow::Result<MappingsDiff> {
	let dir = std::env::var("VERIF_SCRATCH").unwrap_or_else(|_| "/var/tmp".into());
	let path = std::path::Path::new(&dir).join(format!("fvh-c04-{}.tinydiff", std::process::id()));
	std::fs::write(&path, text.as_bytes())?;
	let r = quill::tiny_v2_diff::read_file(&path);
	let _ = std::fs::remove_file(&path);
	r
}

fn cps_to_string(v: &[u32]) -> Option<String> { v.iter().map(|c| char::from_u32(*c)).collect() }

fn apply_real(d: &Sexp, t: &Sexp, ns: &str) -> Result<Result<Sexp, ()>, String> {
	let n = mapcodec::ns_count(t)?;
	let diff = diff_from(d)?;
	with_n!(n, N, {
		let m: M<N> = from_sexp(t)?;
		Ok(match diff.apply_to::<N, mapcodec::NsMarker, mapcodec::NsMarker>(m, ns) { Ok(r) => Ok(to_sexp(&r)), Err(_) => Err(()) })
	}, Err("n".into()))
}

fn exec(op: &str, args: &[Sexp]) -> Ans {
	macro_rules! tr { ($e:expr) => { match $e { Ok(x) => x, Err(e) => return Ans::BadOp(e) } } }
	match (op, args) {
		("apply", [d, t, ns]) => {
			let ns = tr!(ns.as_string());
			match tr!(apply_real(d, t, &ns)) { Ok(r) => Ans::Ok(r), Err(()) => Ans::err() }
		}
		("diff", [a, b]) => {
			if tr!(mapcodec::ns_count(a)) != 2 || tr!(mapcodec::ns_count(b)) != 2 { return Ans::err(); }
			let a: M<2> = tr!(from_sexp(a));
			let b: M<2> = tr!(from_sexp(b));
			match MappingsDiff::diff(&a, &b) { Ok(d) => Ans::Ok(diff_to(&d)), Err(_) => Ans::err() }
		}
		("tdiff-read", [text]) => {
			let Some(text) = cps_to_string(&tr!(text.as_cps())) else { return Ans::BadOp("text is not a scalar string".into()) };
			match read_text(&text) { Ok(d) => Ans::Ok(diff_to(&d)), Err(_) => Ans::err() }
		}
		("tdiff-write", [d]) => Ans::Ok(Sexp::cps(&write_spec(&tr!(diff_from(d))))),
		("oracle-read-write", [d]) => {
			if !writable(d) { return Ans::out_of_domain(); }
			let Some(text) = cps_to_string(&write_spec(&tr!(diff_from(d)))) else { return Ans::fail("text") };
			match read_text(&text) {
				Ok(d2) => if diff_to(&d2) == norm_diff(d) { Ans::pass() } else { Ans::fail("read_differs") },
				Err(_) => Ans::fail("unreadable"),
			}
		}
		("oracle-apply-wf" | "oracle-apply-wf-full", [d, t, ns]) => {
			if !diff_keys_unique(d) || !wf(t) { return Ans::out_of_domain(); }
			let nss = tr!(ns.as_string());
			let Ok(r) = tr!(apply_real(d, t, &nss)) else { return Ans::out_of_domain() };
			if wf(&r) { Ans::pass() } else { Ans::fail("not_wf") }
		}
		("oracle-diff-total", [a, b]) => {
			if tr!(mapcodec::ns_count(a)) != 2 || tr!(mapcodec::ns_count(b)) != 2 { return Ans::out_of_domain(); }
			if !keys_unique(a) || !keys_unique(b) { return Ans::out_of_domain(); }
			let ma: M<2> = tr!(from_sexp(a));
			let mb: M<2> = tr!(from_sexp(b));
			let expect = items(a)[0] == items(b)[0] && all_named(a) && all_named(b);
			match (MappingsDiff::diff(&ma, &mb).is_ok(), expect) {
				(x, y) if x == y => Ans::pass(),
				(true, _) => Ans::fail("succeeds_outside_domain"),
				_ => Ans::fail("fails_inside_domain"),
			}
		}
		("oracle-apply-read-back", [d, t, ns]) => {
			if !diff_keys_unique(d) || !keys_unique(t) { return Ans::out_of_domain(); }
			let dd = items(d);
			if dd[0] != Sexp::tag("none") || !same_or_none(&dd[1]) { return Ans::out_of_domain(); }
			let nss = tr!(ns.as_string());
			let Ok(r) = tr!(apply_real(d, t, &nss)) else { return Ans::out_of_domain() };
			match tr!(apply_real(&norm_diff(d), t, &nss)) {
				Err(()) => Ans::fail("refused_after_text"),
				Ok(r2) => if canon_mappings(&r2) == canon_mappings(&r) { Ans::pass() } else { Ans::fail("differs") },
			}
		}
		("oracle-diff-apply" | "oracle-diff-apply-text" | "oracle-diff-apply-full", [a, b]) => {
			if tr!(mapcodec::ns_count(a)) != 2 || tr!(mapcodec::ns_count(b)) != 2 { return Ans::out_of_domain(); }
			if !wf(a) || !wf(b) { return Ans::out_of_domain(); }
			let ma: M<2> = tr!(from_sexp(a));
			let mb: M<2> = tr!(from_sexp(b));
			let Ok(d) = MappingsDiff::diff(&ma, &mb) else { return Ans::out_of_domain() };
			let nss = items(&items(a)[0]);
			if nss[0] == nss[1] { return Ans::out_of_domain(); }
			if op != "oracle-diff-apply-full" && !param_srcless(a, b) { return Ans::out_of_domain(); }
			let ns = tr!(nss[1].as_string());
			let d = if op == "oracle-diff-apply-text" {
				let ds = diff_to(&d);
				if !writable(&ds) { return Ans::out_of_domain(); }
				let Some(text) = cps_to_string(&write_spec(&d)) else { return Ans::fail("text") };
				let Ok(d2) = read_text(&text) else { return Ans::fail("unreadable") };
				if diff_to(&d2) != norm_diff(&ds) { return Ans::fail("read_differs"); }
				d2
			} else { d };
			match d.apply_to::<2, mapcodec::NsMarker, mapcodec::NsMarker>(ma, &ns) {
				Err(_) => Ans::fail("refused"),
				Ok(r) => if canon_mappings(&to_sexp(&r)) == canon_mappings(b) { Ans::pass() } else { Ans::fail("differs") },
			}
		}
		("oracle-apply-exact", [d, t, ns]) => {
			let nss = tr!(ns.as_string());
			let real = tr!(apply_real(d, t, &nss));
			match (real, spec_apply(d, t, ns)) {
				(Ok(r), Ok(s)) => if canon_mappings(&r) == s { Ans::pass() } else { Ans::fail("inexact") },
				(Err(()), Err(())) => Ans::pass(),
				(Ok(_), Err(())) => Ans::fail("accepted_inconsistent"),
				(Err(()), Ok(_)) => Ans::fail("refused_without_reason"),
			}
		}
		_ => Ans::BadOp("unknown op".into()),
	}
}

fn main() { main_for(&gen, &exec) }
