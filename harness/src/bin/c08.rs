//! C08: `Mappings::reorder` — faithful permutation of namespaces.
//! Ops: `reorder M (names…)`, `oracle-reorder-spec M (names…)`, `oracle-reorder-id M`, `oracle-reorder-inverse M (names…)`.
//! The oracles use the real `reorder` plus the simple checks below (own class map, own descriptor rewriting by
//! splitting at `;`, row permutation on the arrays) — nothing of quill's remapper.
use std::collections::HashMap;
use indexmap::IndexMap;
use java_string::{JavaCodePoint, JavaStr, JavaString};
use quill::tree::mappings::*;
use quill::tree::names::{Names, Namespaces};
use fvh::mapcodec::{self, cn, fdesc, from_sexp, mdesc, to_sexp, NsMarker, M};
use fvh::mapgen::{field_desc, gen_mappings, GClass, GMappings, GMember, MapCfg};
use fvh::rng::Rng;
use fvh::run::{main_for, Ans, Out, Tier};
use fvh::sexp::Sexp;
use fvh::with_n;

// ---------------------------------------------------------------------------------------------- simple spec helpers

fn cps(s: &JavaStr) -> Vec<u32> { s.chars().map(|c| c.as_u32()).collect() }
fn jstring(v: &[u32]) -> JavaString {
	let mut s = JavaString::new();
	for c in v { s.push_java(JavaCodePoint::from_u32(*c).expect("code point")); }
	s
}

/// the class names a descriptor mentions: after every `L` (outside a name) up to the next `;`. `None` = malformed
fn classes_of(d: &[u32]) -> Option<Vec<Vec<u32>>> {
	let mut out = Vec::new();
	let mut i = 0;
	while i < d.len() {
		let c = d[i];
		i += 1;
		if c == 'L' as u32 {
			let j = d[i..].iter().position(|x| *x == ';' as u32)? + i;
			if j == i { return None; }
			out.push(d[i..j].to_vec());
			i = j + 1;
		}
	}
	Some(out)
}

/// descriptor with every mentioned class replaced through `map` (unmapped names stay)
fn spec_map_desc(map: &HashMap<Vec<u32>, Vec<u32>>, d: &[u32]) -> Option<Vec<u32>> {
	let mut out = Vec::new();
	let mut i = 0;
	while i < d.len() {
		let c = d[i];
		out.push(c);
		i += 1;
		if c == 'L' as u32 {
			let j = d[i..].iter().position(|x| *x == ';' as u32)? + i;
			if j == i { return None; }
			let name = &d[i..j];
			out.extend_from_slice(map.get(name).map(|x| x.as_slice()).unwrap_or(name));
			out.push(';' as u32);
			i = j + 1;
		}
	}
	Some(out)
}

fn arr<const N: usize, T>(n: &Names<N, T>) -> &[Option<T>; N] { n.into() }
fn ns_of<const N: usize>(m: &M<N>) -> &[String; N] { (&m.info.namespaces).into() }

/// class map 0 -> t: pairs of classes having both names, a later class overwrites an earlier one
fn class_map<const N: usize>(m: &M<N>, t: usize) -> HashMap<Vec<u32>, Vec<u32>> {
	let mut map = HashMap::new();
	for c in m.classes.values() {
		let names = arr(&c.info.names);
		if let (Some(a), Some(b)) = (&names[0], &names[t]) {
			map.insert(cps(a.as_inner()), cps(b.as_inner()));
		}
	}
	map
}

fn table_of<const N: usize>(m: &M<N>, req: &[String]) -> Option<Vec<usize>> {
	let ns = ns_of(m);
	req.iter().map(|r| ns.iter().position(|x| x == r)).collect()
}

fn permute<const N: usize, T: Clone + AsRef<JavaStr> + std::fmt::Debug>(table: &[usize], n: &Names<N, T>) -> Names<N, T> {
	let a = arr(n);
	let v: Vec<Option<T>> = table.iter().map(|i| a[*i].clone()).collect();
	let a2: [Option<T>; N] = v.try_into().expect("length");
	Names::try_from(a2).expect("names")
}

/// what the property says the result is; `None` = the operation has to fail
fn expected<const N: usize>(m: &M<N>, req: &[String]) -> Option<M<N>> {
	if req.len() != N { return None; }
	let table = table_of(m, req)?;
	let t0 = *table.first()?;
	let map = class_map(m, t0);
	let ns = ns_of(m);
	let new_ns: Vec<String> = table.iter().map(|i| ns[*i].clone()).collect();
	let new_ns: [String; N] = new_ns.try_into().ok()?;
	let mut classes = IndexMap::new();
	for c in m.classes.values() {
		let names = permute(&table, &c.info.names);
		let key = arr(&names)[0].clone()?;
		let mut fields = IndexMap::new();
		for f in c.fields.values() {
			let desc = fdesc(jstring(&spec_map_desc(&map, &cps(f.info.desc.as_inner()))?));
			let names = permute(&table, &f.info.names);
			let name = arr(&names)[0].clone()?;
			let node = FieldNowodeMapping { info: FieldMapping { desc: desc.clone(), names }, javadoc: f.javadoc.clone() };
			if fields.insert(duke::tree::field::FieldNameAndDesc { name, desc }, node).is_some() { return None; }
		}
		let mut methods = IndexMap::new();
		for me in c.methods.values() {
			let desc = mdesc(jstring(&spec_map_desc(&map, &cps(me.info.desc.as_inner()))?));
			let names = permute(&table, &me.info.names);
			let name = arr(&names)[0].clone()?;
			let mut parameters = IndexMap::new();
			for p in me.parameters.values() {
				let node = ParameterNowodeMapping {
					info: ParameterMapping { index: p.info.index, names: permute(&table, &p.info.names) },
					javadoc: p.javadoc.clone(),
				};
				if parameters.insert(ParameterKey { index: p.info.index }, node).is_some() { return None; }
			}
			let node = MethodNowodeMapping { info: MethodMapping { desc: desc.clone(), names }, parameters, javadoc: me.javadoc.clone() };
			if methods.insert(duke::tree::method::MethodNameAndDesc { name, desc }, node).is_some() { return None; }
		}
		let node = ClassNowodeMapping { info: ClassMapping { names }, fields, methods, javadoc: c.javadoc.clone() };
		if classes.insert(key, node).is_some() { return None; }
	}
	Some(Mappings {
		info: MappingInfo { namespaces: Namespaces::try_from(new_ns).ok()? },
		classes,
		javadoc: m.javadoc.clone(),
	})
}

/// namespace names pairwise different, every entry stored under the key derived from its info
fn wf<const N: usize>(m: &M<N>) -> bool {
	let ns = ns_of(m);
	for i in 0..N { for j in 0..i { if ns[i] == ns[j] { return false; } } }
	m.classes.iter().all(|(k, c)| {
		arr(&c.info.names)[0].as_ref() == Some(k)
			&& c.fields.iter().all(|(k, f)| arr(&f.info.names)[0].as_ref() == Some(&k.name) && k.desc == f.info.desc)
			&& c.methods.iter().all(|(k, me)| arr(&me.info.names)[0].as_ref() == Some(&k.name) && k.desc == me.info.desc
				&& me.parameters.iter().all(|(k, p)| k.index == p.info.index))
	})
}

fn descs<const N: usize>(m: &M<N>) -> Vec<Vec<u32>> {
	let mut v = Vec::new();
	for c in m.classes.values() {
		for f in c.fields.values() { v.push(cps(f.info.desc.as_inner())); }
		for me in c.methods.values() { v.push(cps(me.info.desc.as_inner())); }
	}
	v
}

fn descs_ok<const N: usize>(m: &M<N>) -> bool { descs(m).iter().all(|d| classes_of(d).is_some()) }

fn desc_injective<const N: usize>(m: &M<N>, t: usize) -> bool {
	let targets: Vec<Vec<u32>> = m.classes.values().filter_map(|c| arr(&c.info.names)[t].as_ref().map(|x| cps(x.as_inner()))).collect();
	let keys: Vec<Vec<u32>> = m.classes.keys().map(|k| cps(k.as_inner())).collect();
	if !targets.iter().all(|y| !y.is_empty() && !y.contains(&(';' as u32))) { return false; }
	descs(m).iter().all(|d| {
		// a malformed descriptor mentions the classes up to the defect; `reorder` fails on it anyway
		let mentioned = mentioned_prefix(d);
		mentioned.iter().all(|x| keys.contains(x) || !targets.contains(x))
	})
}

/// like `classes_of` but keeps what was seen before a defect (mirror of the model's `classesOf`)
fn mentioned_prefix(d: &[u32]) -> Vec<Vec<u32>> {
	let mut out = Vec::new();
	let mut i = 0;
	while i < d.len() {
		let c = d[i];
		i += 1;
		if c == 'L' as u32 {
			let Some(p) = d[i..].iter().position(|x| *x == ';' as u32) else { return out };
			let j = p + i;
			if j == i { return out; }
			out.push(d[i..j].to_vec());
			i = j + 1;
		}
	}
	out
}

fn do_reorder<const N: usize>(m: &M<N>, req: &[String]) -> Option<M<N>> {
	let v: Vec<&str> = req.iter().map(|x| x.as_str()).collect();
	let a: [&str; N] = v.try_into().ok()?;
	m.reorder::<NsMarker>(a).ok()
}

fn same<const N: usize>(a: &M<N>, b: &M<N>) -> bool { to_sexp(a) == to_sexp(b) }

// ---------------------------------------------------------------------------------------------- exec

fn exec(op: &str, args: &[Sexp]) -> Ans {
	macro_rules! tr { ($e:expr) => { match $e { Ok(x) => x, Err(e) => return Ans::BadOp(e) } } }
	let Some(ms) = args.first() else { return Ans::BadOp("no mapping set".into()) };
	let n = tr!(mapcodec::ns_count(ms));
	let req: Vec<String> = match args.get(1) {
		Some(r) => tr!(tr!(r.as_list()).iter().map(|x| x.as_string()).collect::<Result<Vec<_>, _>>()),
		None => vec![],
	};
	with_n!(n, N, {
		let m: M<N> = tr!(from_sexp(ms));
		match (op, args.len()) {
			("reorder", 2) => match do_reorder(&m, &req) { Some(r) => Ans::Ok(to_sexp(&r)), None => Ans::err() },
			("reorder2", 3) => {
				let req2: Vec<String> = tr!(tr!(args[2].as_list()).iter().map(|x| x.as_string()).collect::<Result<Vec<_>, _>>());
				match do_reorder(&m, &req).and_then(|m1| do_reorder(&m1, &req2)) { Some(r) => Ans::Ok(to_sexp(&r)), None => Ans::err() }
			}
			("oracle-reorder-spec", 2) => match (do_reorder(&m, &req), expected(&m, &req)) {
				(None, None) => Ans::pass(),
				(None, Some(_)) => Ans::fail("spurious-error"),
				(Some(_), None) => Ans::fail("error-missed"),
				(Some(r), Some(e)) => if same(&r, &e) { Ans::pass() } else { Ans::fail("differs") },
			},
			("oracle-reorder-id", 1) => {
				if !(wf(&m) && descs_ok(&m)) { return Ans::out_of_domain(); }
				let ns = ns_of(&m).to_vec();
				match do_reorder(&m, &ns) {
					Some(r) => if same(&r, &m) { Ans::pass() } else { Ans::fail("differs") },
					None => Ans::fail("error"),
				}
			}
			("oracle-reorder-inverse", 2) => {
				let ns = ns_of(&m).to_vec();
				if !(wf(&m) && req.len() == N && ns.iter().all(|x| req.contains(x))) { return Ans::out_of_domain(); }
				let Some(table) = table_of(&m, &req) else { return Ans::out_of_domain() };
				let Some(t0) = table.first() else { return Ans::out_of_domain() };
				if !desc_injective(&m, *t0) { return Ans::out_of_domain(); }
				let Some(m1) = do_reorder(&m, &req) else { return Ans::out_of_domain() };
				match do_reorder(&m1, &ns) {
					Some(r) => if same(&r, &m) { Ans::pass() } else { Ans::fail("differs") },
					None => Ans::fail("error"),
				}
			}
			_ => Ans::BadOp("unknown op".into()),
		}
	}, Ans::BadOp("n".into()))
}

// ---------------------------------------------------------------------------------------------- gen

fn perms(n: usize) -> Vec<Vec<usize>> {
	fn rec(cur: &mut Vec<usize>, used: &mut Vec<bool>, n: usize, out: &mut Vec<Vec<usize>>) {
		if cur.len() == n { out.push(cur.clone()); return; }
		for i in 0..n {
			if used[i] { continue; }
			used[i] = true; cur.push(i);
			rec(cur, used, n, out);
			cur.pop(); used[i] = false;
		}
	}
	let mut out = Vec::new();
	rec(&mut Vec::new(), &mut vec![false; n], n, &mut out);
	out
}

fn names_sexp(ns: &[String], idx: &[usize]) -> Sexp { Sexp::list(idx.iter().map(|i| Sexp::str(&ns[*i])).collect()) }

/// structured perturbations of a generated set that keep it a valid `Mappings` (keys stay consistent)
fn perturb(r: &mut Rng, g: &mut GMappings, out: &mut Out) {
	let n = g.ns.len();
	let nc = g.classes.len();
	// two classes share a name in a non-source column: reordering that column first must fail
	if nc >= 2 && r.chance(1, 4) {
		let j = r.range(1, n - 1);
		let (a, b) = (r.below(nc), r.below(nc));
		if a != b { g.classes[a].names[j] = g.classes[b].names[j].clone(); out.stats.hit("perturb:class-collision"); }
	}
	// two members of a class collide in a non-source column (same descriptor)
	if nc >= 1 && r.chance(1, 3) {
		let c = r.below(nc);
		let j = r.range(1, n - 1);
		let cl = &mut g.classes[c];
		let ms = if cl.methods.len() < 2 || (cl.fields.len() >= 2 && r.chance(1, 2)) { &mut cl.fields } else { &mut cl.methods };
		if ms.len() >= 2 && ms[0].names[0] != ms[1].names[0] {
			ms[1].desc = ms[0].desc.clone();
			ms[1].names[j] = ms[0].names[j].clone();
			out.stats.hit("perturb:member-collision");
		}
	}
	// a descriptor mentions the column-j name of a class (it is *unmapped* from the point of view of namespace 0)
	if nc >= 1 && r.chance(1, 3) {
		let j = r.range(1, n - 1);
		let t = g.classes[r.below(nc)].names[j].clone();
		let c = r.below(nc);
		if let (Some(t), Some(f)) = (t, g.classes[c].fields.first_mut()) {
			let d = format!("{}L{};", if r.chance(1, 3) { "[" } else { "" }, t);
			f.desc = d;
			out.stats.hit("perturb:desc-mentions-target");
		}
	}
	// a target name that cannot be written into a descriptor
	if nc >= 1 && r.chance(1, 25) {
		let j = r.range(1, n - 1);
		let c = r.below(nc);
		g.classes[c].names[j] = Some("se;mi".to_owned());
		out.stats.hit("perturb:semicolon-target");
	}
}

fn o(x: &str) -> Option<String> { Some(x.to_owned()) }

/// the inputs of the `_witness` theorems of Thm/C08.lean, replayed against the implementation
fn witness_stream(out: &mut Out) {
	let class = |names: Vec<Option<String>>, fields: Vec<GMember>| GClass { names, doc: None, fields, methods: vec![] };
	// reorder_inverse_witness: the descriptor mentions `B`, which is the other name of class `A`
	let w = GMappings { ns: vec!["x".into(), "y".into()], doc: None, classes: vec![class(vec![o("A"), o("B")],
		vec![GMember { desc: "LB;".into(), names: vec![o("f"), o("g")], doc: None, params: vec![] }])] };
	let (xy, yx) = (names_sexp(&w.ns, &[0, 1]), names_sexp(&w.ns, &[1, 0]));
	out.op("reorder", &[w.to_sexp(), yx.clone()]);
	out.op("reorder2", &[w.to_sexp(), yx.clone(), xy.clone()]);
	out.op("oracle-reorder-inverse", &[w.to_sexp(), yx.clone()]);
	out.op("oracle-reorder-spec", &[w.to_sexp(), yx.clone()]);
	// reorder_id_dupns_witness
	let w2 = GMappings { ns: vec!["a".into(), "a".into()], doc: None, classes: vec![class(vec![o("A"), o("B")], vec![])] };
	out.op("reorder", &[w2.to_sexp(), names_sexp(&w2.ns, &[0, 1])]);
	out.op("oracle-reorder-id", &[w2.to_sexp()]);
	// reorder_id_baddesc_witness
	let w3 = GMappings { ns: vec!["a".into(), "b".into()], doc: None, classes: vec![class(vec![o("A"), o("B")],
		vec![GMember { desc: "L;".into(), names: vec![o("f"), None], doc: None, params: vec![] }])] };
	out.op("reorder", &[w3.to_sexp(), names_sexp(&w3.ns, &[0, 1])]);
	out.op("oracle-reorder-id", &[w3.to_sexp()]);
	out.stats.add("witness-inputs", 3);
}

fn gen(r: &mut Rng, tier: Tier, out: &mut Out) {
	witness_stream(out);
	let sets = if tier == Tier::Thorough { 2500 } else { 70 };
	for _ in 0..sets {
		let n = r.range(2, 4);
		let mut cfg = MapCfg::basic(n);
		cfg.top_doc_pct = 30;
		cfg.max_classes = r.range(2, 5);
		cfg.max_members = r.range(1, 3);
		cfg.nest_depth = r.range(0, 1);
		cfg.unicode = r.chance(1, 5);
		cfg.absent_pct = *r.pick(&[0, 0, 0, 0, 8, 25]);
		cfg.doc_pct = *r.pick(&[0, 25, 60]);
		let mut g = gen_mappings(r, &cfg);
		// mostly non-empty sets with members (an empty set now and then)
		for _ in 0..6 {
			let members: usize = g.classes.iter().map(|c| c.fields.len() + c.methods.len()).sum();
			if (g.classes.len() >= 2 && members >= 2) || r.chance(1, 12) { break; }
			g = gen_mappings(r, &cfg);
		}
		perturb(r, &mut g, out);
		let m = g.to_sexp();
		out.stats.hit(&format!("n:{n}"));
		out.stats.hit(&format!("classes:{}", g.classes.len()));
		out.stats.hit(&format!("absent-pct:{}", cfg.absent_pct));
		let nd: usize = g.classes.iter().map(|c| c.fields.iter().chain(c.methods.iter()).filter(|m| m.desc.contains('L')).count()).sum();
		out.stats.hit(&format!("descs-with-class:{}", nd.min(5)));
		out.stats.hit(&format!("array-descs:{}", g.classes.iter().map(|c| c.fields.iter().chain(c.methods.iter()).filter(|m| m.desc.contains("[L")).count()).sum::<usize>().min(3)));
		out.op("oracle-reorder-id", &[m.clone()]);
		for p in perms(n) {
			let req = names_sexp(&g.ns, &p);
			out.stats.hit("perm");
			out.op("reorder", &[m.clone(), req.clone()]);
			out.op("oracle-reorder-spec", &[m.clone(), req.clone()]);
			out.op("oracle-reorder-inverse", &[m.clone(), req.clone()]);
			if r.chance(1, 6) {
				let mut q: Vec<usize> = (0..n).collect();
				r.shuffle(&mut q);
				let req2 = Sexp::list(q.iter().map(|i| Sexp::str(&g.ns[p[*i]])).collect());
				out.op("reorder2", &[m.clone(), req, req2]);
			}
		}
		// requests that are not permutations: repeated and unknown names
		let mut idx: Vec<usize> = (0..n).map(|_| r.below(n)).collect();
		if idx.iter().collect::<std::collections::BTreeSet<_>>().len() == n { idx[0] = idx[1]; }
		let req = names_sexp(&g.ns, &idx);
		out.stats.hit("request:repeated-name");
		out.op("reorder", &[m.clone(), req.clone()]);
		out.op("oracle-reorder-spec", &[m.clone(), req.clone()]);
		out.op("oracle-reorder-inverse", &[m.clone(), req]);
		if r.chance(1, 3) {
			let mut names: Vec<String> = g.ns.clone();
			let k = r.below(n);
			names[k] = (*r.pick(&["nope", "Official", "named ", ""])).to_owned();
			let req = Sexp::list(names.iter().map(|x| Sexp::str(x)).collect());
			out.stats.hit("request:unknown-name");
			out.op("reorder", &[m.clone(), req.clone()]);
			out.op("oracle-reorder-spec", &[m.clone(), req]);
		}
	}
	edge_stream(r, tier, out);
}

/// replaces item `i` of a list
fn set(l: &Sexp, i: usize, x: Sexp) -> Sexp {
	let mut v = l.as_list().expect("list").to_vec();
	v[i] = x;
	Sexp::list(v)
}

/// malformed / edge inputs: keys not derived from the info, several classes with the same first name (the remapper's
/// `insert` overwrites), absent first names, malformed descriptors, equal namespace names
fn edge_stream(r: &mut Rng, tier: Tier, out: &mut Out) {
	let sets = if tier == Tier::Thorough { 1500 } else { 50 };
	for _ in 0..sets {
		let n = r.range(2, 4);
		let mut cfg = MapCfg::basic(n);
		cfg.top_doc_pct = 30;
		cfg.max_classes = r.range(2, 4);
		cfg.max_members = r.range(1, 2);
		cfg.nest_depth = 0;
		cfg.absent_pct = *r.pick(&[0, 0, 10]);
		let mut g = gen_mappings(r, &cfg);
		for _ in 0..8 {
			if g.classes.len() >= 2 && g.classes.iter().all(|c| !c.fields.is_empty() && !c.methods.is_empty()) { break; }
			g = gen_mappings(r, &cfg);
		}
		let kind = *r.pick(&[0, 0, 1, 1, 1, 2, 3, 4, 5]);
		let nc = g.classes.len();
		match kind {
			0 if nc >= 2 => {
				// same first name on two classes, stored under different keys
				g.classes[1].names[0] = g.classes[0].names[0].clone();
				// make the class mentioned
				let key = g.classes[0].key();
				if let Some(f) = g.classes[1].fields.first_mut() { f.desc = format!("L{key};"); }
				out.stats.hit("edge:same-first-name");
			}
			1 if nc >= 1 => {
				let c = r.below(nc);
				let bad = *r.pick(&["L;", "LFoo", "[L", "(L;)V", "(LFoo;L)V", "L", "LL;;", "L;;", "(L;LFoo;)V", "[L;Lx;", "(L;I)Lx;"]);
				if r.chance(1, 2) { if let Some(f) = g.classes[c].fields.first_mut() { f.desc = bad.to_owned(); } }
				else if let Some(f) = g.classes[c].methods.first_mut() { f.desc = bad.to_owned(); }
				out.stats.hit("edge:malformed-descriptor");
			}
			2 => {
				let k = r.range(1, n - 1);
				g.ns[k] = g.ns[0].clone();
				out.stats.hit("edge:equal-namespace-names");
			}
			3 if nc >= 1 => {
				// parameters stored under a key different from their index, possibly two with the same index
				out.stats.hit("edge:param-keys");
			}
			4 if nc >= 1 => {
				out.stats.hit("edge:absent-first-name");
			}
			_ => { out.stats.hit("edge:foreign-keys"); }
		}
		let mut m = g.to_sexp();
		// re-key on the S-expression: keys are printed separately from the info
		let classes = m.as_list().expect("m")[2].clone();
		let mut cv = classes.as_list().expect("classes").to_vec();
		for (i, c) in cv.iter_mut().enumerate() {
			match kind {
				0 | 5 => { *c = set(c, 0, Sexp::str(&format!("key/K{i}"))); }
				4 if i == 0 => {
					*c = set(c, 0, Sexp::str("key/NoFirst"));
					let names = c.as_list().expect("c")[1].clone();
					*c = set(c, 1, set(&names, 0, Sexp::list(vec![])));
				}
				3 => {
					let methods = c.as_list().expect("c")[4].clone();
					let mv: Vec<Sexp> = methods.as_list().expect("ms").iter().map(|me| {
						let ps = me.as_list().expect("me")[5].clone();
						let pv: Vec<Sexp> = ps.as_list().expect("ps").iter().enumerate().map(|(j, p)| {
							let p = set(p, 0, Sexp::nat(10 + j));
							if r.chance(1, 2) { set(&p, 1, Sexp::nat(1)) } else { p }
						}).collect();
						set(me, 5, Sexp::list(pv))
					}).collect();
					*c = set(c, 4, Sexp::list(mv));
				}
				_ => {}
			}
			if kind == 5 {
				// member keys unrelated to name / descriptor
				let fields = c.as_list().expect("c")[3].clone();
				let fv: Vec<Sexp> = fields.as_list().expect("fs").iter().enumerate().map(|(j, f)| {
					set(&set(f, 0, Sexp::str(&format!("k{j}"))), 1, Sexp::str("I"))
				}).collect();
				*c = set(c, 3, Sexp::list(fv));
			}
		}
		m = set(&m, 2, Sexp::list(cv));
		out.op("oracle-reorder-id", &[m.clone()]);
		let ps = perms(n);
		let take = if tier == Tier::Thorough { ps.len() } else { ps.len().min(6) };
		let start = r.below(ps.len());
		for k in 0..take {
			let p = &ps[(start + k) % ps.len()];
			let req = names_sexp(&g.ns, p);
			out.op("reorder", &[m.clone(), req.clone()]);
			out.op("oracle-reorder-spec", &[m.clone(), req.clone()]);
			out.op("oracle-reorder-inverse", &[m.clone(), req]);
		}
	}
	// a request of the wrong length cannot be typed in Rust; both sides reject it
	let g = gen_mappings(r, &MapCfg::basic(3));
	out.op("reorder", &[g.to_sexp(), names_sexp(&g.ns, &[0, 1])]);
	let _ = field_desc;
}

fn main() { main_for(&gen, &exec) }
