//! C17 — partial and replaying visitors observe the same facts as a full read.
//!
//! `gen`: class files (javac corpus, hand-assembled ones with every attribute kind, truncated / padded / bad-header
//! variants, members whose names do not resolve, streams of 1–5 files) × visitor configurations (interest masks at class /
//! field / method / code / record-component level, class visitors with `fields` / `methods` off, declined classes / fields /
//! methods / record components / `Code`s). The framing sent to the
//! model is computed by the independent parser `fvh::c17frame`; the executor only looks at the bytes and the configurations.
//! `exec`: runs `duke::read_class_multi` (successive reads on one `Cursor`) / `ClassFile::accept` with recording visitors
//! that report the configured interests, decline the configured items and write down every event they receive.
use std::cell::RefCell;
use std::collections::BTreeMap;
use std::io::Cursor;
use std::ops::ControlFlow;
use std::rc::Rc;
use anyhow::Result;
use java_string::JavaString;
use duke::tree::annotation::{Annotation, ElementValue};
use duke::tree::attribute::Attribute;
use duke::tree::class::{ClassAccess, ClassFile, ClassName, ClassSignature, EnclosingMethod, InnerClass, ObjClassName};
use duke::tree::field::{ConstantValue, FieldAccess, FieldDescriptor, FieldName, FieldSignature};
use duke::tree::method::code::{Exception, Instruction, Label, Lv};
use duke::tree::method::{MethodAccess, MethodDescriptor, MethodName, MethodParameter, MethodSignature};
use duke::tree::module::{Module, PackageName};
use duke::tree::record::RecordName;
use duke::tree::type_annotation::{TargetInfoClass, TargetInfoCode, TargetInfoField, TargetInfoMethod, TypeAnnotation};
use duke::tree::version::Version;
use duke::verif::{FieldInterests, FieldVisitor, RecordComponentInterests, RecordComponentVisitor};
use duke::visitor::class::{ClassInterests, ClassVisitor};
use duke::visitor::method::code::{CodeInterests, CodeVisitor, StackMapData};
use duke::visitor::method::{MethodInterests, MethodVisitor};
use duke::visitor::MultiClassVisitor;
use fvh::c17asm;
use fvh::c17frame::{self, class_h, kind_of, member_h, Frame};
use fvh::rng::Rng;
use fvh::run::{main_for, Ans, Out, Tier};
use fvh::sexp::Sexp;

// ------------------------------------------------------------------------------------------------ configurations

const TAGS: &[&str] = &["dep", "syn", "inner", "encl", "sig", "srcfile", "srcdbg", "rva", "ria", "rvta", "rita", "module", "modpkgs",
	"modmain", "nesthost", "nestmem", "permitted", "record", "bsm", "constval", "code", "exc", "rvpa", "ripa", "annodef", "mparams",
	"smt", "smap", "lnt", "lvt", "lvtt", "other"];

#[derive(Clone, Copy, PartialEq, Debug)]
struct Mask(u64);
impl Mask {
	const ALL: Mask = Mask(u64::MAX);
	fn has(&self, k: &str) -> bool { TAGS.iter().position(|t| *t == k).map(|i| self.0 >> i & 1 == 1).unwrap_or(false) }
	fn sexp(&self) -> Sexp { Sexp::list(TAGS.iter().enumerate().filter(|(i, _)| self.0 >> i & 1 == 1).map(|(_, t)| Sexp::tag(t)).collect()) }
	fn parse(s: &Sexp) -> Result<Mask, String> {
		let mut m = 0u64;
		for t in s.as_list()? {
			let t = t.as_atom()?;
			m |= 1 << TAGS.iter().position(|x| *x == t).ok_or("bad kind")?;
		}
		Ok(Mask(m))
	}
	fn random(r: &mut Rng) -> Mask {
		match r.below(6) {
			0 => Mask(0),
			1 => Mask::ALL,
			2 => Mask(r.next() & r.next()),
			3 => Mask(r.next() | r.next()),
			4 => Mask(1 << r.below(TAGS.len())),
			_ => Mask(r.next()),
		}
	}
	fn with(self, k: &str) -> Mask { Mask(self.0 | (1 << TAGS.iter().position(|t| *t == k).unwrap())) }
	fn without(self, k: &str) -> Mask { Mask(self.0 & !(1 << TAGS.iter().position(|t| *t == k).unwrap())) }
}

#[derive(Clone, Debug, PartialEq)]
struct MethodCfg { mask: Mask, code: bool, code_v: Option<Mask> }

#[derive(Clone, Debug, PartialEq)]
struct Cfg {
	cls: Option<Mask>,
	fields_i: bool,
	methods_i: bool,
	fields: Vec<Option<Mask>>,
	methods: Vec<Option<MethodCfg>>,
	recs: Vec<Option<Mask>>,
}

fn opt_sexp<T>(o: &Option<T>, f: impl Fn(&T) -> Sexp) -> Sexp { match o { None => Sexp::list(vec![]), Some(x) => Sexp::list(vec![f(x)]) } }
fn opt_parse<T>(s: &Sexp, f: impl Fn(&Sexp) -> Result<T, String>) -> Result<Option<T>, String> {
	match s.as_list()? { [] => Ok(None), [x] => Ok(Some(f(x)?)), _ => Err("bad option".into()) }
}

impl MethodCfg {
	const FULL: MethodCfg = MethodCfg { mask: Mask::ALL, code: true, code_v: Some(Mask::ALL) };
	fn sexp(&self) -> Sexp { Sexp::list(vec![self.mask.sexp(), Sexp::bool(self.code), opt_sexp(&self.code_v, |m| m.sexp())]) }
	fn parse(s: &Sexp) -> Result<MethodCfg, String> {
		match s.as_list()? {
			[m, c, v] => Ok(MethodCfg { mask: Mask::parse(m)?, code: c.as_bool()?, code_v: opt_parse(v, Mask::parse)? }),
			_ => Err("bad method cfg".into()),
		}
	}
}

impl Cfg {
	fn full() -> Cfg { Cfg { cls: Some(Mask::ALL), fields_i: true, methods_i: true, fields: vec![], methods: vec![], recs: vec![] } }
	fn field(&self, i: usize) -> Option<Mask> { self.fields.get(i).cloned().unwrap_or(Some(Mask::ALL)) }
	fn method(&self, i: usize) -> Option<MethodCfg> { self.methods.get(i).cloned().unwrap_or(Some(MethodCfg::FULL)) }
	fn rec(&self, i: usize) -> Option<Mask> { self.recs.get(i).cloned().unwrap_or(Some(Mask::ALL)) }
	fn sexp(&self) -> Sexp {
		Sexp::list(vec![opt_sexp(&self.cls, |m| m.sexp()), Sexp::bool(self.fields_i), Sexp::bool(self.methods_i),
			Sexp::list(self.fields.iter().map(|f| opt_sexp(f, |m| m.sexp())).collect()),
			Sexp::list(self.methods.iter().map(|f| opt_sexp(f, |m| m.sexp())).collect()),
			Sexp::list(self.recs.iter().map(|f| opt_sexp(f, |m| m.sexp())).collect())])
	}
	fn parse(s: &Sexp) -> Result<Cfg, String> {
		match s.as_list()? {
			[cls, fi, mi, fs, ms, rs] => Ok(Cfg {
				cls: opt_parse(cls, Mask::parse)?, fields_i: fi.as_bool()?, methods_i: mi.as_bool()?,
				fields: fs.as_list()?.iter().map(|x| opt_parse(x, Mask::parse)).collect::<Result<_, _>>()?,
				methods: ms.as_list()?.iter().map(|x| opt_parse(x, MethodCfg::parse)).collect::<Result<_, _>>()?,
				recs: rs.as_list()?.iter().map(|x| opt_parse(x, Mask::parse)).collect::<Result<_, _>>()?,
			}),
			_ => Err("bad cfg".into()),
		}
	}
	fn random(r: &mut Rng, f: &Frame) -> Cfg {
		let decl = [0usize, 1, 3, 10][r.below(4)]; // decline probability in tenths
		let mut one = |r: &mut Rng| if r.below(10) < decl { None } else { Some(Mask::random(r)) };
		Cfg {
			cls: if r.chance(1, 12) { None } else { Some(Mask::random(r)) },
			fields_i: r.chance(3, 4), methods_i: r.chance(3, 4),
			fields: (0..f.fields.len()).map(|_| one(r)).collect(),
			methods: (0..f.methods.len()).map(|_| one(r).map(|mask| MethodCfg {
				mask, code: r.chance(5, 6), code_v: if r.chance(1, 4) { None } else { Some(Mask::random(r)) } })).collect(),
			recs: (0..f.n_recs()).map(|_| one(r)).collect(),
		}
	}
}

// ------------------------------------------------------------------------------------------------ events

#[derive(Clone, Copy, Debug, PartialEq)]
enum Lvl { C, R, F, M, K }
impl Lvl { fn p(self) -> &'static str { match self { Lvl::C => "c", Lvl::R => "r", Lvl::F => "f", Lvl::M => "m", Lvl::K => "k" } } }

/// what a visitor received: identity (printed for the model) and content (compared between reads by the oracles)
#[derive(Clone, Debug, PartialEq)]
enum E {
	Begin { l: Lvl, i: usize, h: usize, c: String },
	Attr { l: Lvl, i: usize, unk: bool, k: &'static str, pay: Vec<usize>, c: Vec<String> },
	Flags { l: Lvl, i: usize, d: bool, s: bool },
	End { l: Lvl, i: usize },
	CodeMaxs { i: usize, h: usize },
	CodeInsns { i: usize, insns: Vec<String>, frames: Vec<Option<String>> },
	CodeExc { i: usize, h: usize, c: String },
	CodeLines { i: usize, n: usize, c: String },
	/// per entry: its descriptor, its signature, the rest (range, name, index)
	CodeLocals { i: usize, entries: Vec<(Option<String>, Option<String>, String)> },
}

fn nat(n: usize) -> Sexp { Sexp::nat(n) }
fn tag(s: &str) -> Sexp { Sexp::tag(s) }

impl E {
	fn id(&self) -> Sexp {
		let with_i = |l: Lvl, i: usize, mut v: Vec<Sexp>, rest: Vec<Sexp>| { if l != Lvl::C { v.push(nat(i)); } v.extend(rest); Sexp::list(v) };
		match self {
			E::Begin { l, i, h, .. } => with_i(*l, *i, vec![tag(&format!("{}-begin", l.p()))], if *l == Lvl::K { vec![] } else { vec![nat(*h)] }),
			E::Attr { l, i, unk, k, pay, .. } => with_i(*l, *i, vec![tag(&format!("{}-attr", l.p()))],
				vec![tag(if *unk { "u" } else { "k" }), tag(k), Sexp::list(pay.iter().map(|x| nat(*x)).collect())]),
			E::Flags { l, i, d, s } => with_i(*l, *i, vec![tag(&format!("{}-flags", l.p()))], vec![Sexp::bool(*d), Sexp::bool(*s)]),
			E::End { l, i } => with_i(*l, *i, vec![tag(&format!("{}-end", l.p()))], vec![]),
			E::CodeMaxs { i, h } => Sexp::list(vec![tag("k-maxs"), nat(*i), nat(*h)]),
			E::CodeInsns { i, insns, frames } => Sexp::list(vec![tag("k-insns"), nat(*i), nat(frames.iter().filter(|f| f.is_some()).count()), nat(insns.len())]),
			E::CodeExc { i, h, .. } => Sexp::list(vec![tag("k-exc"), nat(*i), nat(*h)]),
			E::CodeLines { i, n, .. } => Sexp::list(vec![tag("k-lines"), nat(*i), nat(*n)]),
			E::CodeLocals { i, entries } => Sexp::list(vec![tag("k-locals"), nat(*i), nat(entries.iter().filter(|e| e.0.is_some()).count()), nat(entries.iter().filter(|e| e.1.is_some()).count())]),
		}
	}
}

fn ids(evs: &[E]) -> Sexp { Sexp::list(evs.iter().map(|e| e.id()).collect()) }

type Log = Rc<RefCell<Vec<E>>>;

/// `Label { id: N }` → `@<position>` (instruction index, or the number of instructions for the end label)
fn patch_labels(s: &str, map: &BTreeMap<u16, usize>) -> String {
	let pat = "Label { id: ";
	let mut out = String::new();
	let mut rest = s;
	while let Some(p) = rest.find(pat) {
		out.push_str(&rest[..p]);
		let after = &rest[p + pat.len()..];
		let digits: String = after.chars().take_while(|c| c.is_ascii_digit()).collect();
		let id: u16 = digits.parse().unwrap_or(u16::MAX);
		match map.get(&id) { Some(ix) => out.push_str(&format!("@{ix}")), None => out.push_str(&format!("@?{id}")) }
		rest = &after[digits.len()..];
		rest = rest.strip_prefix(" }").unwrap_or(rest);
	}
	out.push_str(rest);
	out
}

// ------------------------------------------------------------------------------------------------ recording visitors

struct Top { log: Log, cfg: Rc<Cfg> }

struct ClassRec { log: Log, cfg: Rc<Cfg>, mask: Mask, nf: usize, nm: usize, nr: usize }
struct RecRec { log: Log, r: usize, mask: Mask }
struct FieldRec { log: Log, i: usize, mask: Mask }
struct MethodRec { log: Log, i: usize, mc: MethodCfg }
struct CodeRec {
	log: Log, i: usize, mask: Mask, start: usize, insns_at: Option<usize>,
	insns: Vec<(Option<Label>, Option<String>, String)>, last: Option<Label>,
}

fn dbg<T: std::fmt::Debug>(x: &T) -> String { format!("{x:?}") }
fn annos_pay(v: &[Annotation]) -> Vec<usize> { v.iter().map(|a| a.element_value_pairs.len()).collect() }
fn tannos_pay<T>(v: &[TypeAnnotation<T>]) -> Vec<usize> { v.iter().map(|a| a.annotation.element_value_pairs.len()).collect() }
fn unk_event(l: Lvl, i: usize, a: &Attribute) -> E {
	let k = kind_of(a.name.as_bytes());
	let pay = if k == "other" { vec![a.bytes.len(), a.name.as_bytes().len()] } else { vec![a.bytes.len()] };
	E::Attr { l, i, unk: true, k, pay, c: vec![dbg(a)] }
}

impl MultiClassVisitor for Top {
	type ClassVisitor = ClassRec;
	type ClassResidual = Top;
	fn visit_class(self, version: Version, access: ClassAccess, name: ObjClassName, super_class: Option<ObjClassName>, interfaces: Vec<ObjClassName>)
			-> Result<ControlFlow<Self, (Self::ClassResidual, Self::ClassVisitor)>> {
		let (major, _) = duke::verif::version_numbers(&version);
		let h = class_h(u16::from(access), major as usize, interfaces.len());
		self.log.borrow_mut().push(E::Begin { l: Lvl::C, i: 0, h, c: format!("{version:?} {access:?} {name:?} {super_class:?} {interfaces:?}") });
		match self.cfg.cls {
			None => Ok(ControlFlow::Break(self)),
			Some(mask) => {
				let cv = ClassRec { log: self.log.clone(), cfg: self.cfg.clone(), mask, nf: 0, nm: 0, nr: 0 };
				Ok(ControlFlow::Continue((self, cv)))
			}
		}
	}
	fn finish_class(this: Self::ClassResidual, _cv: Self::ClassVisitor) -> Result<Self> {
		this.log.borrow_mut().push(E::End { l: Lvl::C, i: 0 });
		Ok(this)
	}
}

macro_rules! single {
	($self:ident, $l:expr, $i:expr, $k:expr, $pay:expr, $v:expr) => {{
		$self.log.borrow_mut().push(E::Attr { l: $l, i: $i, unk: false, k: $k, pay: $pay, c: vec![dbg(&$v)] });
		Ok(())
	}};
}

impl ClassVisitor for ClassRec {
	type AnnotationsVisitor = Vec<Annotation>;
	type AnnotationsResidual = (Self, bool);
	type TypeAnnotationsVisitor = Vec<TypeAnnotation<TargetInfoClass>>;
	type TypeAnnotationsResidual = (Self, bool);
	type RecordComponentVisitor = RecRec;
	type RecordComponentResidual = Self;
	type FieldVisitor = FieldRec;
	type FieldResidual = Self;
	type MethodVisitor = MethodRec;
	type MethodResidual = Self;
	type UnknownAttribute = Attribute;

	fn interests(&self) -> ClassInterests {
		let m = &self.mask;
		ClassInterests {
			inner_classes: m.has("inner"), enclosing_method: m.has("encl"), signature: m.has("sig"),
			source_file: m.has("srcfile"), source_debug_extension: m.has("srcdbg"),
			runtime_visible_annotations: m.has("rva"), runtime_invisible_annotations: m.has("ria"),
			runtime_visible_type_annotations: m.has("rvta"), runtime_invisible_type_annotations: m.has("rita"),
			module: m.has("module"), module_packages: m.has("modpkgs"), module_main_class: m.has("modmain"),
			nest_host: m.has("nesthost"), nest_members: m.has("nestmem"), permitted_subclasses: m.has("permitted"),
			record: m.has("record"), unknown_attributes: m.has("other"),
			fields: self.cfg.fields_i, methods: self.cfg.methods_i,
		}
	}
	fn visit_deprecated_and_synthetic_attribute(&mut self, deprecated: bool, synthetic: bool) -> Result<()> {
		self.log.borrow_mut().push(E::Flags { l: Lvl::C, i: 0, d: deprecated, s: synthetic });
		Ok(())
	}
	fn visit_inner_classes(&mut self, v: Vec<InnerClass>) -> Result<()> { single!(self, Lvl::C, 0, "inner", vec![v.len()], v) }
	fn visit_enclosing_method(&mut self, v: EnclosingMethod) -> Result<()> { single!(self, Lvl::C, 0, "encl", vec![], v) }
	fn visit_signature(&mut self, v: ClassSignature) -> Result<()> { single!(self, Lvl::C, 0, "sig", vec![], v) }
	fn visit_source_file(&mut self, v: JavaString) -> Result<()> { single!(self, Lvl::C, 0, "srcfile", vec![], v) }
	fn visit_source_debug_extension(&mut self, v: JavaString) -> Result<()> { single!(self, Lvl::C, 0, "srcdbg", vec![], v) }
	fn visit_annotations(self, visible: bool) -> Result<(Self::AnnotationsResidual, Self::AnnotationsVisitor)> { Ok(((self, visible), Vec::new())) }
	fn finish_annotations((this, visible): Self::AnnotationsResidual, v: Self::AnnotationsVisitor) -> Result<Self> {
		this.log.borrow_mut().push(E::Attr { l: Lvl::C, i: 0, unk: false, k: if visible { "rva" } else { "ria" }, pay: annos_pay(&v), c: v.iter().map(dbg).collect() });
		Ok(this)
	}
	fn visit_type_annotations(self, visible: bool) -> Result<(Self::TypeAnnotationsResidual, Self::TypeAnnotationsVisitor)> { Ok(((self, visible), Vec::new())) }
	fn finish_type_annotations((this, visible): Self::TypeAnnotationsResidual, v: Self::TypeAnnotationsVisitor) -> Result<Self> {
		this.log.borrow_mut().push(E::Attr { l: Lvl::C, i: 0, unk: false, k: if visible { "rvta" } else { "rita" }, pay: tannos_pay(&v), c: v.iter().map(dbg).collect() });
		Ok(this)
	}
	fn visit_module(&mut self, v: Module) -> Result<()> { single!(self, Lvl::C, 0, "module", vec![], v) }
	fn visit_module_packages(&mut self, v: Vec<PackageName>) -> Result<()> { single!(self, Lvl::C, 0, "modpkgs", vec![v.len()], v) }
	fn visit_module_main_class(&mut self, v: ClassName) -> Result<()> { single!(self, Lvl::C, 0, "modmain", vec![], v) }
	fn visit_nest_host_class(&mut self, v: ClassName) -> Result<()> { single!(self, Lvl::C, 0, "nesthost", vec![], v) }
	fn visit_nest_members(&mut self, v: Vec<ClassName>) -> Result<()> { single!(self, Lvl::C, 0, "nestmem", vec![v.len()], v) }
	fn visit_permitted_subclasses(&mut self, v: Vec<ClassName>) -> Result<()> { single!(self, Lvl::C, 0, "permitted", vec![v.len()], v) }
	fn visit_record_component(mut self, name: RecordName, descriptor: FieldDescriptor)
			-> Result<ControlFlow<Self, (Self::RecordComponentResidual, Self::RecordComponentVisitor)>> {
		let r = self.nr;
		self.nr += 1;
		self.log.borrow_mut().push(E::Begin { l: Lvl::R, i: r, h: name.as_inner().as_bytes().len(), c: format!("{name:?} {descriptor:?}") });
		match self.cfg.rec(r) {
			None => Ok(ControlFlow::Break(self)),
			Some(mask) => { let rv = RecRec { log: self.log.clone(), r, mask }; Ok(ControlFlow::Continue((self, rv))) }
		}
	}
	fn finish_record_component(this: Self::RecordComponentResidual, rv: Self::RecordComponentVisitor) -> Result<Self> {
		this.log.borrow_mut().push(E::End { l: Lvl::R, i: rv.r });
		Ok(this)
	}
	fn visit_unknown_attribute(&mut self, a: Self::UnknownAttribute) -> Result<()> {
		self.log.borrow_mut().push(unk_event(Lvl::C, 0, &a));
		Ok(())
	}
	fn visit_field(mut self, access: FieldAccess, name: FieldName, descriptor: FieldDescriptor)
			-> Result<ControlFlow<Self, (Self::FieldResidual, Self::FieldVisitor)>> {
		let i = self.nf;
		self.nf += 1;
		let h = member_h(u16::from(access), name.as_inner().as_bytes().len(), false);
		self.log.borrow_mut().push(E::Begin { l: Lvl::F, i, h, c: format!("{access:?} {name:?} {descriptor:?}") });
		match self.cfg.field(i) {
			None => Ok(ControlFlow::Break(self)),
			Some(mask) => { let fv = FieldRec { log: self.log.clone(), i, mask }; Ok(ControlFlow::Continue((self, fv))) }
		}
	}
	fn finish_field(this: Self::FieldResidual, fv: Self::FieldVisitor) -> Result<Self> {
		this.log.borrow_mut().push(E::End { l: Lvl::F, i: fv.i });
		Ok(this)
	}
	fn visit_method(mut self, access: MethodAccess, name: MethodName, descriptor: MethodDescriptor)
			-> Result<ControlFlow<Self, (Self::MethodResidual, Self::MethodVisitor)>> {
		let i = self.nm;
		self.nm += 1;
		let h = member_h(u16::from(access), name.as_inner().as_bytes().len(), true);
		self.log.borrow_mut().push(E::Begin { l: Lvl::M, i, h, c: format!("{access:?} {name:?} {descriptor:?}") });
		match self.cfg.method(i) {
			None => Ok(ControlFlow::Break(self)),
			Some(mc) => { let mv = MethodRec { log: self.log.clone(), i, mc }; Ok(ControlFlow::Continue((self, mv))) }
		}
	}
	fn finish_method(this: Self::MethodResidual, mv: Self::MethodVisitor) -> Result<Self> {
		this.log.borrow_mut().push(E::End { l: Lvl::M, i: mv.i });
		Ok(this)
	}
}

macro_rules! anno_impls {
	($lvl:expr, $idx:ident, $target:ty) => {
		type AnnotationsVisitor = Vec<Annotation>;
		type AnnotationsResidual = (Self, bool);
		type TypeAnnotationsVisitor = Vec<TypeAnnotation<$target>>;
		type TypeAnnotationsResidual = (Self, bool);
		type UnknownAttribute = Attribute;
		fn visit_annotations(self, visible: bool) -> Result<(Self::AnnotationsResidual, Self::AnnotationsVisitor)> { Ok(((self, visible), Vec::new())) }
		fn finish_annotations((this, visible): Self::AnnotationsResidual, v: Self::AnnotationsVisitor) -> Result<Self> {
			this.log.borrow_mut().push(E::Attr { l: $lvl, i: this.$idx, unk: false, k: if visible { "rva" } else { "ria" }, pay: annos_pay(&v), c: v.iter().map(dbg).collect() });
			Ok(this)
		}
		fn visit_type_annotations(self, visible: bool) -> Result<(Self::TypeAnnotationsResidual, Self::TypeAnnotationsVisitor)> { Ok(((self, visible), Vec::new())) }
		fn finish_type_annotations((this, visible): Self::TypeAnnotationsResidual, v: Self::TypeAnnotationsVisitor) -> Result<Self> {
			this.log.borrow_mut().push(E::Attr { l: $lvl, i: this.$idx, unk: false, k: if visible { "rvta" } else { "rita" }, pay: tannos_pay(&v), c: v.iter().map(dbg).collect() });
			Ok(this)
		}
		fn visit_unknown_attribute(&mut self, a: Self::UnknownAttribute) -> Result<()> {
			self.log.borrow_mut().push(unk_event($lvl, self.$idx, &a));
			Ok(())
		}
	};
}

impl RecordComponentVisitor for RecRec {
	anno_impls!(Lvl::R, r, TargetInfoField);
	fn interests(&self) -> RecordComponentInterests {
		let m = &self.mask;
		RecordComponentInterests { signature: m.has("sig"), runtime_visible_annotations: m.has("rva"), runtime_invisible_annotations: m.has("ria"),
			runtime_visible_type_annotations: m.has("rvta"), runtime_invisible_type_annotations: m.has("rita"), unknown_attributes: m.has("other") }
	}
	fn visit_signature(&mut self, v: FieldSignature) -> Result<()> { single!(self, Lvl::R, self.r, "sig", vec![], v) }
}

impl FieldVisitor for FieldRec {
	anno_impls!(Lvl::F, i, TargetInfoField);
	fn interests(&self) -> FieldInterests {
		let m = &self.mask;
		FieldInterests { constant_value: m.has("constval"), signature: m.has("sig"), runtime_visible_annotations: m.has("rva"),
			runtime_invisible_annotations: m.has("ria"), runtime_visible_type_annotations: m.has("rvta"),
			runtime_invisible_type_annotations: m.has("rita"), unknown_attributes: m.has("other") }
	}
	fn visit_deprecated_and_synthetic_attribute(&mut self, deprecated: bool, synthetic: bool) -> Result<()> {
		self.log.borrow_mut().push(E::Flags { l: Lvl::F, i: self.i, d: deprecated, s: synthetic });
		Ok(())
	}
	fn visit_constant_value(&mut self, v: ConstantValue) -> Result<()> { single!(self, Lvl::F, self.i, "constval", vec![], v) }
	fn visit_signature(&mut self, v: FieldSignature) -> Result<()> { single!(self, Lvl::F, self.i, "sig", vec![], v) }
}

impl MethodVisitor for MethodRec {
	anno_impls!(Lvl::M, i, TargetInfoMethod);
	type AnnotationDefaultVisitor = Vec<ElementValue>;
	type AnnotationDefaultResidual = Self;
	type CodeVisitor = CodeRec;
	fn interests(&self) -> MethodInterests {
		let m = &self.mc.mask;
		MethodInterests { code: self.mc.code, exceptions: m.has("exc"), signature: m.has("sig"),
			runtime_visible_annotations: m.has("rva"), runtime_invisible_annotations: m.has("ria"),
			runtime_visible_type_annotations: m.has("rvta"), runtime_invisible_type_annotations: m.has("rita"),
			runtime_visible_parameter_annotations: m.has("rvpa"), runtime_invisible_parameter_annotations: m.has("ripa"),
			annotation_default: m.has("annodef"), method_parameters: m.has("mparams"), unknown_attributes: m.has("other") }
	}
	fn visit_deprecated_and_synthetic_attribute(&mut self, deprecated: bool, synthetic: bool) -> Result<()> {
		self.log.borrow_mut().push(E::Flags { l: Lvl::M, i: self.i, d: deprecated, s: synthetic });
		Ok(())
	}
	fn visit_exceptions(&mut self, v: Vec<ClassName>) -> Result<()> { single!(self, Lvl::M, self.i, "exc", vec![v.len()], v) }
	fn visit_signature(&mut self, v: MethodSignature) -> Result<()> { single!(self, Lvl::M, self.i, "sig", vec![], v) }
	fn visit_annotation_default(self) -> Result<(Self::AnnotationDefaultResidual, Self::AnnotationDefaultVisitor)> { Ok((self, Vec::new())) }
	fn finish_annotation_default(this: Self::AnnotationDefaultResidual, v: Self::AnnotationDefaultVisitor) -> Result<Self> {
		this.log.borrow_mut().push(E::Attr { l: Lvl::M, i: this.i, unk: false, k: "annodef", pay: vec![], c: vec![dbg(&v)] });
		Ok(this)
	}
	fn visit_parameters(&mut self, v: Vec<MethodParameter>) -> Result<()> { single!(self, Lvl::M, self.i, "mparams", vec![v.len()], v) }
	fn visit_annotable_parameter_count(&mut self) {}
	fn visit_parameter_annotation(&mut self) {}
	fn visit_code(&mut self) -> Result<Option<Self::CodeVisitor>> {
		let start = self.log.borrow().len();
		self.log.borrow_mut().push(E::Begin { l: Lvl::K, i: self.i, h: 0, c: String::new() });
		Ok(self.mc.code_v.map(|mask| CodeRec { log: self.log.clone(), i: self.i, mask, start, insns_at: None, insns: Vec::new(), last: None }))
	}
	fn finish_code(&mut self, cv: Self::CodeVisitor) -> Result<()> {
		// resolve labels to positions in everything this code visitor wrote down
		let mut map = BTreeMap::new();
		for (ix, (l, _, _)) in cv.insns.iter().enumerate() { if let Some(l) = l { map.insert(duke::verif::label_id(l), ix); } }
		if let Some(l) = &cv.last { map.insert(duke::verif::label_id(l), cv.insns.len()); }
		let mut log = self.log.borrow_mut();
		if let Some(at) = cv.insns_at {
			log[at] = E::CodeInsns { i: cv.i, insns: cv.insns.iter().map(|x| patch_labels(&x.2, &map)).collect(),
				frames: cv.insns.iter().map(|x| x.1.as_ref().map(|f| patch_labels(f, &map))).collect() };
		}
		for e in log[cv.start..].iter_mut() {
			match e {
				E::Attr { l: Lvl::K, c, .. } => for s in c.iter_mut() { *s = patch_labels(s, &map); },
				E::CodeExc { c, .. } | E::CodeLines { c, .. } => *c = patch_labels(c, &map),
				E::CodeLocals { entries, .. } => for x in entries.iter_mut() { x.2 = patch_labels(&x.2, &map); },
				_ => {}
			}
		}
		log.push(E::End { l: Lvl::K, i: cv.i });
		Ok(())
	}
}

impl CodeVisitor for CodeRec {
	type TypeAnnotationsVisitor = Vec<TypeAnnotation<TargetInfoCode>>;
	type TypeAnnotationsResidual = (Self, bool);
	type UnknownAttribute = Attribute;
	fn interests(&self) -> CodeInterests {
		let m = &self.mask;
		CodeInterests { stack_map_table: m.has("smt"), line_number_table: m.has("lnt"), local_variable_table: m.has("lvt"),
			local_variable_type_table: m.has("lvtt"), runtime_visible_type_annotations: m.has("rvta"),
			runtime_invisible_type_annotations: m.has("rita"), unknown_attributes: m.has("other") }
	}
	fn visit_max_stack_and_max_locals(&mut self, max_stack: u16, max_locals: u16) -> Result<()> {
		self.log.borrow_mut().push(E::CodeMaxs { i: self.i, h: max_stack as usize * 65536 + max_locals as usize });
		Ok(())
	}
	fn visit_exception_table(&mut self, v: Vec<Exception>) -> Result<()> {
		self.log.borrow_mut().push(E::CodeExc { i: self.i, h: v.len(), c: dbg(&v) });
		Ok(())
	}
	fn visit_instruction(&mut self, label: Option<Label>, frame: Option<StackMapData>, instruction: Instruction) -> Result<()> {
		if self.insns_at.is_none() {
			self.insns_at = Some(self.log.borrow().len());
			self.log.borrow_mut().push(E::CodeInsns { i: self.i, insns: vec![], frames: vec![] });
		}
		self.insns.push((label, frame.as_ref().map(dbg), dbg(&instruction)));
		Ok(())
	}
	fn visit_last_label(&mut self, last_label: Label) -> Result<()> { self.last = Some(last_label); Ok(()) }
	fn visit_line_numbers(&mut self, v: Vec<(Label, u16)>) -> Result<()> {
		self.log.borrow_mut().push(E::CodeLines { i: self.i, n: v.len(), c: dbg(&v) });
		Ok(())
	}
	fn visit_local_variables(&mut self, v: Vec<Lv>) -> Result<()> {
		self.log.borrow_mut().push(E::CodeLocals { i: self.i, entries: v.iter().map(|lv|
			(lv.descriptor.as_ref().map(dbg), lv.signature.as_ref().map(dbg), format!("{:?} {:?} {:?}", lv.range, lv.name, lv.index))).collect() });
		Ok(())
	}
	fn visit_type_annotations(self, visible: bool) -> Result<(Self::TypeAnnotationsResidual, Self::TypeAnnotationsVisitor)> { Ok(((self, visible), Vec::new())) }
	fn finish_type_annotations((this, visible): Self::TypeAnnotationsResidual, v: Self::TypeAnnotationsVisitor) -> Result<Self> {
		this.log.borrow_mut().push(E::Attr { l: Lvl::K, i: this.i, unk: false, k: if visible { "rvta" } else { "rita" }, pay: tannos_pay(&v), c: v.iter().map(dbg).collect() });
		Ok(this)
	}
	fn visit_unknown_attribute(&mut self, a: Self::UnknownAttribute) -> Result<()> {
		self.log.borrow_mut().push(unk_event(Lvl::K, self.i, &a));
		Ok(())
	}
}

// ------------------------------------------------------------------------------------------------ running the implementation

type ReadRes = Result<(usize, Vec<E>), ()>;

/// successive reads on one cursor, one configuration per read; stops at the first error
fn read_stream(bytes: &[u8], cfgs: &[Cfg]) -> Vec<ReadRes> {
	let mut cur = Cursor::new(bytes);
	let mut out = Vec::new();
	for cfg in cfgs {
		let log: Log = Rc::new(RefCell::new(Vec::new()));
		let p0 = cur.position() as usize;
		match duke::read_class_multi(&mut cur, Top { log: log.clone(), cfg: Rc::new(cfg.clone()) }) {
			Ok(_) => { let evs = log.borrow().clone(); out.push(Ok((cur.position() as usize - p0, evs))); }
			Err(_) => { out.push(Err(())); break; }
		}
	}
	out
}

fn replay(class: ClassFile, cfg: &Cfg) -> Result<Vec<E>, ()> {
	let log: Log = Rc::new(RefCell::new(Vec::new()));
	class.accept(Top { log: log.clone(), cfg: Rc::new(cfg.clone()) }).map_err(|_| ())?;
	let evs = log.borrow().clone();
	Ok(evs)
}

fn res_sexp(r: &ReadRes) -> Sexp {
	match r { Ok((n, evs)) => Sexp::list(vec![tag("ok"), nat(*n), ids(evs)]), Err(()) => tag("err") }
}

// ------------------------------------------------------------------------------------------------ the property, evaluated on the implementation

fn code_mask(cfg: &Cfg, i: usize) -> Option<Mask> {
	match (cfg.cls, cfg.method(i)) { (Some(_), Some(mc)) if cfg.methods_i && mc.code => mc.code_v, _ => None }
}
fn ev_bit(unk: bool, k: &'static str) -> &'static str { if unk { "other" } else { k } }

/// what a visitor configured by `cfg` is to receive of an event of the full read (the statement of `delivered_projection`)
fn proj(cfg: &Cfg, e: &E) -> Option<E> {
	let keep = |b: bool| if b { Some(e.clone()) } else { None };
	let cls = cfg.cls;
	let field = |i: usize| cls.filter(|_| cfg.fields_i).and_then(|_| cfg.field(i));
	let method = |i: usize| cls.filter(|_| cfg.methods_i).and_then(|_| cfg.method(i));
	match e {
		E::Begin { l: Lvl::C, .. } => Some(e.clone()),
		E::Attr { l: Lvl::C, unk, k, .. } => cls.and_then(|m| keep(m.has(ev_bit(*unk, k)))),
		E::Begin { l: Lvl::R, .. } => cls.and_then(|m| keep(m.has("record"))),
		E::Attr { l: Lvl::R, i, unk, k, .. } => cls.filter(|m| m.has("record")).and_then(|_| cfg.rec(*i)).and_then(|rm| keep(rm.has(ev_bit(*unk, k)))),
		E::End { l: Lvl::R, i } => keep(cls.filter(|m| m.has("record")).and_then(|_| cfg.rec(*i)).is_some()),
		E::Flags { l: Lvl::C, .. } | E::End { l: Lvl::C, .. } => keep(cls.is_some()),
		// nothing of the fields (methods) for a class visitor that reports `fields` (`methods`) = false
		E::Begin { l: Lvl::F, .. } => keep(cls.is_some() && cfg.fields_i),
		E::Begin { l: Lvl::M, .. } => keep(cls.is_some() && cfg.methods_i),
		E::Attr { l: Lvl::F, i, unk, k, .. } => field(*i).and_then(|fm| keep(fm.has(ev_bit(*unk, k)))),
		E::Flags { l: Lvl::F, i, .. } | E::End { l: Lvl::F, i } => keep(field(*i).is_some()),
		E::Attr { l: Lvl::M, i, unk, k, .. } => method(*i).and_then(|mc| keep(mc.mask.has(ev_bit(*unk, k)))),
		E::Flags { l: Lvl::M, i, .. } | E::End { l: Lvl::M, i } => keep(method(*i).is_some()),
		E::Begin { l: Lvl::K, i, .. } => method(*i).and_then(|mc| keep(mc.code)),
		E::CodeMaxs { i, .. } | E::CodeExc { i, .. } | E::End { l: Lvl::K, i } => keep(code_mask(cfg, *i).is_some()),
		E::Attr { l: Lvl::K, i, unk, k, .. } => code_mask(cfg, *i).and_then(|cm| keep(cm.has(ev_bit(*unk, k)))),
		E::CodeInsns { i, insns, frames } => code_mask(cfg, *i).map(|cm| E::CodeInsns { i: *i, insns: insns.clone(),
			frames: if cm.has("smt") { frames.clone() } else { frames.iter().map(|_| None).collect() } }),
		E::CodeLines { i, .. } => code_mask(cfg, *i).and_then(|cm| keep(cm.has("lnt"))),
		E::CodeLocals { i, entries } => code_mask(cfg, *i).and_then(|cm| {
			let es = strip_locals(&cm, entries);
			if es.is_empty() { None } else { Some(E::CodeLocals { i: *i, entries: es }) }
		}),
		E::Flags { l: Lvl::R | Lvl::K, .. } => None,
	}
}

/// the entries, and halves of entries, that come from the local variable tables a code visitor with interests `cm` asks for
fn strip_locals(cm: &Mask, entries: &[(Option<String>, Option<String>, String)]) -> Vec<(Option<String>, Option<String>, String)> {
	entries.iter().map(|x| (if cm.has("lvt") { x.0.clone() } else { None }, if cm.has("lvtt") { x.1.clone() } else { None }, x.2.clone()))
		.filter(|x| x.0.is_some() || x.1.is_some()).collect()
}

/// what `ClassFile::accept` hands a visitor configured by `cfg` of an event of the full replay (statement of
/// `accept_projection`): like `proj`, except that a local variable vector without entries is handed to every code visitor
/// interested in one of the two tables (the tree cannot tell which table was the empty one)
fn proj_a(cfg: &Cfg, e: &E) -> Option<E> {
	match e {
		E::CodeLocals { i, entries } => code_mask(cfg, *i).and_then(|cm| {
			let es = strip_locals(&cm, entries);
			if (cm.has("lvt") || cm.has("lvtt")) && (entries.is_empty() || !es.is_empty()) { Some(E::CodeLocals { i: *i, entries: es }) } else { None }
		}),
		_ => proj(cfg, e),
	}
}

/// exact framing, good header, nothing the reader refuses twice, member names that resolve — decided on the framing of
/// the independent parser
fn well_formed(f: &Frame) -> bool { wf(f, false) }
/// the same for the header and the class attributes only (what a read that skips the members depends on)
fn class_level_wf(f: &Frame) -> bool { wf(f, true) }
fn wf(f: &Frame, only_class_level: bool) -> bool {
	use c17frame::{CAttr, MAttr, L_CLASS, L_CODE, L_FIELD, L_METHOD, L_REC};
	let leaf = |level: &[&str], flags: bool, a: &c17frame::Attr| -> bool {
		if flags && (a.k == "dep" || a.k == "syn") { return a.len == 0; }
		if a.k == "rvpa" || a.k == "ripa" { return true; }
		if level.contains(&a.k) { a.used == a.len } else { true }
	};
	let lens = |v: &[&c17frame::Attr]| -> usize { 2 + v.iter().map(|a| 6 + a.len).sum::<usize>() };
	if !f.hdr_ok { return false; }
	if !only_class_level && !(f.fields.iter().all(|m| m.ok) && f.methods.iter().all(|m| m.ok)) { return false; }
	for fl in &f.fields { if only_class_level { break; } if !fl.attrs.iter().all(|a| leaf(L_FIELD, true, a)) { return false; } }
	for m in &f.methods {
		if only_class_level { break; }
		for a in &m.attrs {
			match a {
				MAttr::Leaf(a) => if !leaf(L_METHOD, true, a) { return false; },
				MAttr::Code(c) => {
					let refs: Vec<&c17frame::Attr> = c.attrs.iter().collect();
					if c.len != c.hdr + lens(&refs) { return false; }
					if !c.attrs.iter().all(|a| leaf(L_CODE, false, a)) { return false; }
					if c.attrs.iter().filter(|a| a.k == "smt" || a.k == "smap").count() > 1 { return false; }
				}
			}
		}
	}
	let mut recs = 0;
	let mut bsm = 0;
	for a in &f.attrs {
		match a {
			CAttr::Leaf(a) => { if !leaf(L_CLASS, true, a) { return false; } if a.k == "bsm" { bsm += 1; } }
			CAttr::Record { len, comps, .. } => {
				recs += 1;
				let mut size = 2;
				for c in comps {
					let refs: Vec<&c17frame::Attr> = c.attrs.iter().collect();
					size += 4 + lens(&refs);
					if !c.attrs.iter().all(|a| leaf(L_REC, false, a)) { return false; }
				}
				if *len != size { return false; }
			}
		}
	}
	recs <= 1 && bsm <= 1
}

/// a local variable event without entries cannot be told from none (the reader reports `Some(vec![])` only for an empty table)
fn norm(evs: &[E]) -> Vec<E> { evs.iter().filter(|e| !matches!(e, E::CodeLocals { entries, .. } if entries.is_empty())).cloned().collect() }

struct Stream { bytes: Vec<u8>, cfgs: Vec<Cfg> }

fn stream_args(args: &[Sexp]) -> Result<Stream, String> {
	match args {
		[b, _frames, cfgs] => Ok(Stream { bytes: b.as_bytes()?, cfgs: cfgs.as_list()?.iter().map(Cfg::parse).collect::<Result<_, _>>()? }),
		_ => Err("arity".into()),
	}
}

/// domain of the stream oracles, decided on the request alone: the bytes are class files laid back to back (independent
/// framing `c17frame::frames`), every one of them well formed
fn framed(bytes: &[u8]) -> Option<Vec<Frame>> {
	let fs = c17frame::frames(bytes)?;
	if fs.iter().all(well_formed) { Some(fs) } else { None }
}

/// the files the tree-building visitor accepts (`insert_if_empty` slots are filled once): decided on the framing —
/// no attribute kind that goes into an `Option` slot twice on one item, at most one `Code` per method
fn buildable(f: &Frame) -> bool {
	use c17frame::{CAttr, MAttr};
	fn once(ks: &[&str], single: &[&str]) -> bool { single.iter().all(|s| ks.iter().filter(|k| *k == s).count() <= 1) }
	let class_ks: Vec<&str> = f.attrs.iter().filter_map(|a| match a { CAttr::Leaf(a) => Some(a.k), _ => None }).collect();
	if !once(&class_ks, &["inner", "encl", "sig", "srcfile", "srcdbg", "module", "modpkgs", "modmain", "nesthost", "nestmem", "permitted"]) { return false; }
	for a in &f.attrs {
		if let CAttr::Record { comps, .. } = a {
			for c in comps { if !once(&c.attrs.iter().map(|a| a.k).collect::<Vec<_>>(), &["sig"]) { return false; } }
		}
	}
	for fl in &f.fields { if !once(&fl.attrs.iter().map(|a| a.k).collect::<Vec<_>>(), &["constval", "sig"]) { return false; } }
	for m in &f.methods {
		let ks: Vec<&str> = m.attrs.iter().map(|a| match a { MAttr::Leaf(a) => a.k, MAttr::Code(_) => "code" }).collect();
		if !once(&ks, &["exc", "sig", "annodef", "mparams", "code"]) { return false; }
	}
	true
}

enum Full { OutOfDomain, Fail, Ok(Vec<Frame>, Vec<(usize, Vec<E>)>) }

/// the frames of the stream and its full reads. The domain (well-formed files laid back to back, one configuration per
/// file) is decided by the independent framing; on such a stream "a read consumes exactly the bytes of one class file" is
/// unconditional, so a full read that errs or ends anywhere but at the end of its file is a failure, not out of domain
fn full_reads(s: &Stream) -> Full {
	let Some(fs) = framed(&s.bytes) else { return Full::OutOfDomain };
	if fs.len() != s.cfgs.len() { return Full::OutOfDomain; }
	let fulls: Vec<Cfg> = fs.iter().map(|_| Cfg::full()).collect();
	let r = read_stream(&s.bytes, &fulls);
	if r.len() != fs.len() { return Full::Fail; }
	let Ok(v) = r.into_iter().collect::<Result<Vec<(usize, Vec<E>)>, ()>>() else { return Full::Fail };
	if v.iter().zip(&fs).any(|(x, f)| x.0 != f.size) { return Full::Fail; }
	Full::Ok(fs, v)
}

macro_rules! full_or_return {
	($s:expr) => { match full_reads($s) { Full::OutOfDomain => return Ans::out_of_domain(), Full::Fail => return Ans::fail("full-read"), Full::Ok(fs, v) => (fs, v) } };
}

fn exec(op: &str, args: &[Sexp]) -> Ans {
	let bad = |e: String| Ans::BadOp(e);
	match op {
		"read" => {
			let s = match stream_args(args) { Ok(s) => s, Err(e) => return bad(e) };
			Ans::Ok(Sexp::list(read_stream(&s.bytes, &s.cfgs).iter().map(res_sexp).collect()))
		}
		"replay" => {
			let (bytes, cfg) = match args { [b, _f, c] => match (b.as_bytes(), Cfg::parse(c)) { (Ok(b), Ok(c)) => (b, c), _ => return bad("args".into()) }, _ => return bad("arity".into()) };
			let class = match duke::read_class(&mut Cursor::new(&bytes)) { Ok(c) => c, Err(_) => return Ans::err() };
			match replay(class, &cfg) { Ok(evs) => Ans::Ok(ids(&evs)), Err(()) => Ans::err() }
		}
		"oracle-projection" => {
			let s = match stream_args(args) { Ok(s) => s, Err(e) => return bad(e) };
			let (_fs, full) = full_or_return!(&s);
			let masked = read_stream(&s.bytes, &s.cfgs);
			if masked.len() != s.cfgs.len() { return Ans::fail("short"); }
			for ((cfg, m), f) in s.cfgs.iter().zip(&masked).zip(&full) {
				let Ok((_, mev)) = m else { return Ans::fail("projection") };
				let want: Vec<E> = f.1.iter().filter_map(|e| proj(cfg, e)).collect();
				if norm(mev) != norm(&want) { return Ans::fail("projection"); }
			}
			Ans::pass()
		}
		"oracle-consumed" => {
			let s = match stream_args(args) { Ok(s) => s, Err(e) => return bad(e) };
			// `consumed_mask_independent`: whatever is masked, skipped or declined, the read ends at the end of its file — the
			// size the independent framing gives, not what another read of the implementation consumed
			let (fs, _full) = full_or_return!(&s);
			let masked = read_stream(&s.bytes, &s.cfgs);
			if masked.len() != s.cfgs.len() { return Ans::fail("short"); }
			for (m, f) in masked.iter().zip(&fs) {
				match m { Ok((n, _)) if *n == f.size => {}, _ => return Ans::fail("consumed") }
			}
			Ans::pass()
		}
		"oracle-concat" => {
			let s = match stream_args(args) { Ok(s) => s, Err(e) => return bad(e) };
			let (fs, _full) = full_or_return!(&s);
			let masked = read_stream(&s.bytes, &s.cfgs);
			if masked.len() != s.cfgs.len() { return Ans::fail("short"); }
			let mut off = 0;
			for ((cfg, m), f) in s.cfgs.iter().zip(&masked).zip(&fs) {
				// the file alone = the bytes the independent framing assigns to it
				let alone = read_stream(&s.bytes[off..off + f.size], std::slice::from_ref(cfg));
				off += f.size;
				if alone.len() != 1 || &alone[0] != m { return Ans::fail("concat"); }
			}
			Ans::pass()
		}
		"oracle-decline-local" => {
			let (bytes, cfg, what, j) = match args {
				[b, _f, c, w, j] => match (b.as_bytes(), Cfg::parse(c), w.as_atom(), j.as_nat()) { (Ok(b), Ok(c), Ok(w), Ok(j)) => (b, c, w.to_owned(), j), _ => return bad("args".into()) },
				_ => return bad("arity".into()),
			};
			let s1 = Stream { bytes: bytes.clone(), cfgs: vec![cfg.clone()] };
			let (fs, _full) = full_or_return!(&s1);
			let mut cfg2 = cfg.clone();
			let pad = |v: &mut Vec<Option<Mask>>, j: usize| while v.len() <= j { v.push(Some(Mask::ALL)); };
			let keep: Box<dyn Fn(&E) -> bool> = match what.as_str() {
				"field" => { pad(&mut cfg2.fields, j); cfg2.fields[j] = None;
					Box::new(move |e| !matches!(e, E::Begin { l: Lvl::F, i, .. } | E::Attr { l: Lvl::F, i, .. } | E::Flags { l: Lvl::F, i, .. } | E::End { l: Lvl::F, i } if *i == j)) }
				"method" => { while cfg2.methods.len() <= j { cfg2.methods.push(Some(MethodCfg::FULL)); } cfg2.methods[j] = None;
					Box::new(move |e| !matches!(e, E::Begin { l: Lvl::M | Lvl::K, i, .. } | E::Attr { l: Lvl::M | Lvl::K, i, .. } | E::Flags { l: Lvl::M, i, .. } | E::End { l: Lvl::M | Lvl::K, i }
						| E::CodeMaxs { i, .. } | E::CodeInsns { i, .. } | E::CodeExc { i, .. } | E::CodeLines { i, .. } | E::CodeLocals { i, .. } if *i == j)) }
				"code" => { while cfg2.methods.len() <= j { cfg2.methods.push(Some(MethodCfg::FULL)); } if let Some(mc) = &mut cfg2.methods[j] { mc.code_v = None; }
					Box::new(move |e| !matches!(e, E::Begin { l: Lvl::K, i, .. } | E::Attr { l: Lvl::K, i, .. } | E::End { l: Lvl::K, i }
						| E::CodeMaxs { i, .. } | E::CodeInsns { i, .. } | E::CodeExc { i, .. } | E::CodeLines { i, .. } | E::CodeLocals { i, .. } if *i == j)) }
				_ => { pad(&mut cfg2.recs, j); cfg2.recs[j] = None;
					Box::new(move |e| !matches!(e, E::Begin { l: Lvl::R, i, .. } | E::Attr { l: Lvl::R, i, .. } | E::End { l: Lvl::R, i } if *i == j)) }
			};
			let a = read_stream(&bytes, &[cfg]);
			let b = read_stream(&bytes, &[cfg2]);
			match (a.first(), b.first()) {
				(Some(Ok((n1, e1))), Some(Ok((n2, e2)))) if n1 == n2 && *n1 == fs[0].size => {
					let f1: Vec<&E> = e1.iter().filter(|e| keep(e)).collect();
					let f2: Vec<&E> = e2.iter().filter(|e| keep(e)).collect();
					if f1 == f2 { Ans::pass() } else { Ans::fail("decline") }
				}
				_ => Ans::fail("decline"),
			}
		}
		"oracle-replay" => {
			let bytes = match args { [b, _f] => match b.as_bytes() { Ok(b) => b, Err(e) => return bad(e) }, _ => return bad("arity".into()) };
			let s1 = Stream { bytes: bytes.clone(), cfgs: vec![Cfg::full()] };
			let (fs, full) = full_or_return!(&s1);
			// the tree builder's domain is decided on the framing; inside it a failing `read_class` is a failure
			if !buildable(&fs[0]) { return Ans::out_of_domain(); }
			let class = match duke::read_class(&mut Cursor::new(&bytes)) { Ok(c) => c, Err(_) => return Ans::fail("read-class") };
			// replaying into the tree builder reproduces the class
			match class.clone().accept(Vec::new()) {
				// compared through Debug: `PartialEq` is not reflexive on NaN constants
				Ok(v) if v.len() == 1 && dbg(&v[0]) == dbg(&class) => {}
				_ => return Ans::fail("rebuild"),
			}
			// and the recording visitor sees, per item and kind, what the read delivered
			let Ok(rep) = replay(class, &Cfg::full()) else { return Ans::fail("replay") };
			if digest(&rep) == digest(&full[0].1) { Ans::pass() } else { Ans::fail("replay") }
		}
		"oracle-full-read" => {
			// `full_read_spec`: a stream of well-formed files (by the independent framing) is read completely, file by file
			let bytes = match args { [b, _f] => match b.as_bytes() { Ok(b) => b, Err(e) => return bad(e) }, _ => return bad("arity".into()) };
			let Some(fs) = c17frame::frames(&bytes) else { return Ans::out_of_domain() };
			if !fs.iter().all(well_formed) { return Ans::out_of_domain(); }
			let fulls: Vec<Cfg> = fs.iter().map(|_| Cfg::full()).collect();
			let r = read_stream(&bytes, &fulls);
			if r.len() == fs.len() && r.iter().zip(&fs).all(|(x, f)| matches!(x, Ok((n, _)) if *n == f.size)) { Ans::pass() } else { Ans::fail("full-read") }
		}
		"oracle-members-skipped" => {
			// `members_skipped_read_spec` / `members_skipped_concat`: visitors that decline the class or ask for neither fields
			// nor methods read files whose header and class attributes are fine — whatever the members hold — one per read,
			// and receive class-level events only
			let s = match stream_args(args) { Ok(s) => s, Err(e) => return bad(e) };
			let Some(fs) = c17frame::frames(&s.bytes) else { return Ans::out_of_domain() };
			if !fs.iter().all(class_level_wf) || fs.len() != s.cfgs.len()
				|| !s.cfgs.iter().all(|c| c.cls.is_none() || (!c.fields_i && !c.methods_i)) { return Ans::out_of_domain(); }
			let r = read_stream(&s.bytes, &s.cfgs);
			if r.len() != fs.len() { return Ans::fail("short"); }
			let class_level = |e: &E| matches!(e, E::Begin { l: Lvl::C | Lvl::R, .. } | E::Attr { l: Lvl::C | Lvl::R, .. } | E::Flags { l: Lvl::C, .. } | E::End { l: Lvl::C | Lvl::R, .. });
			if r.iter().zip(&fs).all(|(x, f)| matches!(x, Ok((n, evs)) if *n == f.size && evs.iter().all(class_level))) { Ans::pass() } else { Ans::fail("members-skipped") }
		}
		"replay-both" | "oracle-replay-both" => {
			// the tree of the full read with a descriptor and a signature put into every local variable entry (the reader never
			// builds such a tree, merging the two tables by hand does): replayed / masked replay = projection of the full replay
			let (bytes, cfg) = match args { [b, _f, c] => match (b.as_bytes(), Cfg::parse(c)) { (Ok(b), Ok(c)) => (b, c), _ => return bad("args".into()) }, _ => return bad("arity".into()) };
			if op == "oracle-replay-both" {
				let (fs, _full) = full_or_return!(&Stream { bytes: bytes.clone(), cfgs: vec![cfg.clone()] });
				if !buildable(&fs[0]) { return Ans::out_of_domain(); }
			}
			let mut class = match duke::read_class(&mut Cursor::new(&bytes)) { Ok(c) => c, Err(_) => return if op == "replay-both" { Ans::err() } else { Ans::fail("read-class") } };
			for m in class.methods.iter_mut() {
				if let Some(lvs) = m.code.as_mut().and_then(|k| k.local_variables.as_mut()) {
					for lv in lvs.iter_mut() {
						if lv.descriptor.is_none() { lv.descriptor = Some(unsafe { FieldDescriptor::from_inner_unchecked(JavaString::from("I")) }); }
						if lv.signature.is_none() { lv.signature = Some(unsafe { FieldSignature::from_inner_unchecked(JavaString::from("TT;")) }); }
					}
				}
			}
			if op == "replay-both" {
				return match replay(class, &cfg) { Ok(evs) => Ans::Ok(ids(&evs)), Err(()) => Ans::err() };
			}
			let (Ok(full), Ok(masked)) = (replay(class.clone(), &Cfg::full()), replay(class, &cfg)) else { return Ans::fail("replay") };
			let want: Vec<E> = full.iter().filter_map(|e| proj(&cfg, e)).collect();
			if norm(&masked) == norm(&want) { Ans::pass() } else { Ans::fail("replay-both") }
		}
		"oracle-replay-projection" | "oracle-replay-masked" | "oracle-replay-masked-full" | "oracle-replay-masked-nolocals" => {
			let (bytes, cfg) = match args { [b, _f, c] => match (b.as_bytes(), Cfg::parse(c)) { (Ok(b), Ok(c)) => (b, c), _ => return bad("args".into()) }, _ => return bad("arity".into()) };
			let s1 = Stream { bytes: bytes.clone(), cfgs: vec![cfg.clone()] };
			let (fs, _full) = full_or_return!(&s1);
			if !buildable(&fs[0]) { return Ans::out_of_domain(); }
			let class = match duke::read_class(&mut Cursor::new(&bytes)) { Ok(c) => c, Err(_) => return Ans::fail("read-class") };
			if op == "oracle-replay-projection" {
				let (Ok(full), Ok(masked)) = (replay(class.clone(), &Cfg::full()), replay(class, &cfg)) else { return Ans::fail("replay") };
				let want: Vec<E> = full.iter().filter_map(|e| proj_a(&cfg, e)).collect();
				if masked == want { Ans::pass() } else { Ans::fail("replay-projection") }
			} else {
				// `oracle-replay-masked` / `-full` (accept_projection_as_read, per item and kind — a local variable vector without
				// entries says nothing): replay = read for every visitor: fields / methods on or off, any stack map interest, any
				// local variable interests; `-nolocals`: the same on everything but `visit_local_variables`
				let Ok(rep) = replay(class, &cfg) else { return Ans::fail("replay") };
				let strip = |v: &[E]| -> Vec<E> { if op == "oracle-replay-masked-nolocals" { v.iter().filter(|e| !matches!(e, E::CodeLocals { .. })).cloned().collect() } else { v.to_vec() } };
				match read_stream(&bytes, std::slice::from_ref(&cfg)).first() {
					Some(Ok((_, evs))) => if digest(&strip(&rep)) == digest(&strip(evs)) { Ans::pass() } else { Ans::fail("replay-masked") },
					_ => Ans::fail("read"),
				}
			}
		}
		_ => Ans::BadOp(format!("unknown op {op}")),
	}
}

/// per item and kind, the concatenated content (what the tree builder keeps of an event sequence)
fn digest(evs: &[E]) -> BTreeMap<String, Vec<String>> {
	let mut m: BTreeMap<String, Vec<String>> = BTreeMap::new();
	for e in evs {
		let (key, items): (String, Vec<String>) = match e {
			E::Begin { l, i, h, c } => (format!("{}{i}:begin", l.p()), vec![format!("{h} {c}")]),
			E::Attr { l, i, unk, k, c, .. } => {
				// an annotation attribute without annotations leaves no trace in a tree
				(format!("{}{i}:{}{k}", l.p(), if *unk { "u:" } else { "" }), c.clone())
			}
			E::Flags { l, i, d, s } => (format!("{}{i}:flags", l.p()), vec![format!("{d} {s}")]),
			E::End { l, i } => (format!("{}{i}:end", l.p()), vec![String::new()]),
			E::CodeMaxs { i, h } => (format!("k{i}:maxs"), vec![h.to_string()]),
			E::CodeInsns { i, insns, frames } => (format!("k{i}:insns"), insns.iter().zip(frames).map(|(a, b)| format!("{a} {b:?}")).collect()),
			E::CodeExc { i, c, .. } => (format!("k{i}:exc"), vec![c.clone()]),
			E::CodeLines { i, c, .. } => (format!("k{i}:lines"), vec![c.clone()]),
			E::CodeLocals { i, entries } => (format!("k{i}:locals"), entries.iter().map(|x| format!("{} {:?} {:?}", x.2, x.0, x.1)).collect()),
		};
		m.entry(key).or_default().extend(items);
	}
	m.retain(|_, v| !v.is_empty());
	m
}

// ------------------------------------------------------------------------------------------------ generator

fn corpus() -> Vec<(String, Vec<u8>)> {
	let mut v = Vec::new();
	for dir in ["/verif/corpus/classes", "/verif/corpus/c20"] {
		let mut names: Vec<_> = std::fs::read_dir(dir).map(|d| d.filter_map(|e| e.ok()).map(|e| e.path()).collect()).unwrap_or_else(|_| Vec::new());
		names.sort();
		for p in names {
			if p.extension().map(|e| e == "class").unwrap_or(false) {
				if let Ok(b) = std::fs::read(&p) { v.push((p.file_name().unwrap().to_string_lossy().into_owned(), b)); }
			}
		}
	}
	v
}

fn frames_sexp(fs: &[Frame]) -> Sexp { Sexp::list(fs.iter().map(|f| f.sexp()).collect()) }
fn cfgs_sexp(cs: &[Cfg]) -> Sexp { Sexp::list(cs.iter().map(|c| c.sexp()).collect()) }

fn emit_stream(out: &mut Out, op: &str, bytes: &[u8], fs: &[Frame], cfgs: &[Cfg]) {
	out.op(op, &[Sexp::bytes(bytes), frames_sexp(fs), cfgs_sexp(cfgs)]);
}

fn cfg_stats(out: &mut Out, c: &Cfg) {
	if c.cls.is_none() { out.stats.hit("cfg:class-declined"); }
	if c.fields.iter().any(|f| f.is_none()) { out.stats.hit("cfg:some-field-declined"); }
	if c.methods.iter().any(|f| f.is_none()) { out.stats.hit("cfg:some-method-declined"); }
	if c.methods.iter().flatten().any(|m| m.code && m.code_v.is_none()) { out.stats.hit("cfg:visit_code-None"); }
	if c.methods.iter().flatten().any(|m| !m.code) { out.stats.hit("cfg:code-not-of-interest"); }
	if c.recs.iter().any(|f| f.is_none()) { out.stats.hit("cfg:some-record-component-declined"); }
	if *c == Cfg::full() { out.stats.hit("cfg:full"); }
	if c.cls.is_some() {
		match (c.fields_i, c.methods_i) {
			(false, true) => out.stats.hit("cfg:fields-off"),
			(true, false) => out.stats.hit("cfg:methods-off"),
			(false, false) => out.stats.hit("cfg:fields-and-methods-off"),
			_ => {}
		}
	}
}

/// a random configuration whose class visitor reports the given `fields` / `methods` interests
fn member_flags_cfg(r: &mut Rng, f: &Frame, fields_i: bool, methods_i: bool) -> Cfg {
	let mut c = Cfg::random(r, f);
	if c.cls.is_none() { c.cls = Some(Mask::random(r)); }
	c.fields_i = fields_i;
	c.methods_i = methods_i;
	c
}

const MEMBER_FLAGS: [(bool, bool); 3] = [(false, true), (true, false), (false, false)];

/// everything asked about one well-formed file
fn one_file(out: &mut Out, r: &mut Rng, b: &[u8], f: &Frame, n_cfg: usize, oracles: bool) {
	let fs = std::slice::from_ref(f);
	emit_stream(out, "read", b, fs, &[Cfg::full()]);
	for k in 0..n_cfg {
		let cfg = Cfg::random(r, f);
		cfg_stats(out, &cfg);
		emit_stream(out, "read", b, fs, std::slice::from_ref(&cfg));
		if oracles && k % 2 == 0 {
			emit_stream(out, "oracle-projection", b, fs, std::slice::from_ref(&cfg));
			emit_stream(out, "oracle-consumed", b, fs, std::slice::from_ref(&cfg));
		}
		if k % 2 == 1 { out.op("replay", &[Sexp::bytes(b), f.sexp(), cfg.sexp()]); }
		if oracles && k == 0 {
			let mut cands: Vec<(&str, usize)> = Vec::new();
			if !f.fields.is_empty() { cands.push(("field", r.below(f.fields.len()))); }
			if !f.methods.is_empty() { let j = r.below(f.methods.len()); cands.push(("method", j)); cands.push(("code", j)); }
			if f.n_recs() > 0 { cands.push(("rec", r.below(f.n_recs()))); }
			if !cands.is_empty() {
				let (w, j) = *r.pick(&cands);
				let mut c2 = cfg.clone();
				if c2.cls.is_none() { c2.cls = Some(Mask::ALL); }
				out.op("oracle-decline-local", &[Sexp::bytes(b), f.sexp(), c2.sexp(), tag(w), nat(j)]);
				out.stats.hit(&format!("decline-local:{w}"));
			}
		}
	}
	if oracles {
		out.op("replay", &[Sexp::bytes(b), f.sexp(), Cfg::full().sexp()]);
		out.op("oracle-replay", &[Sexp::bytes(b), f.sexp()]);
		out.op("oracle-full-read", &[Sexp::bytes(b), frames_sexp(fs)]);
		let cfg = Cfg::random(r, f);
		out.op("oracle-replay-projection", &[Sexp::bytes(b), f.sexp(), cfg.sexp()]);
		// replay = read: for every visitor on everything but the local variables; for every visitor whose code visitors treat
		// the two local variable tables alike on everything (any member flags, any stack map interest)
		let cfg = Cfg::random(r, f);
		out.op("oracle-replay-masked-nolocals", &[Sexp::bytes(b), f.sexp(), cfg.sexp()]);
		out.op("oracle-replay-masked", &[Sexp::bytes(b), f.sexp(), cfg.sexp()]);
		let c2 = Cfg::random(r, f);
		cfg_stats(out, &c2);
		out.op("oracle-replay-masked-full", &[Sexp::bytes(b), f.sexp(), c2.sexp()]);
		// a tree with both halves in every local variable entry
		out.op("replay-both", &[Sexp::bytes(b), f.sexp(), c2.sexp()]);
		out.op("oracle-replay-both", &[Sexp::bytes(b), f.sexp(), c2.sexp()]);
	}
	// code visitors interested in one / neither of the two local variable tables, on files that have such tables
	let tables = |k: &str| f.methods.iter().flat_map(|m| m.attrs.iter()).filter_map(|a| match a { c17frame::MAttr::Code(c) => Some(c), _ => None })
		.flat_map(|c| c.attrs.iter()).filter(|a| a.k == k).map(|a| a.pay.first().copied().unwrap_or(0)).collect::<Vec<usize>>();
	let (lvts, lvtts) = (tables("lvt"), tables("lvtt"));
	if !lvts.is_empty() || !lvtts.is_empty() {
		if !lvts.is_empty() && !lvtts.is_empty() { out.stats.hit("file:with-lvt-and-lvtt"); }
		if lvts.iter().chain(&lvtts).any(|n| *n == 0) { out.stats.hit("file:with-local-variable-table-without-entries"); }
		for (name, lvt, lvtt) in [("lvt-only", true, false), ("lvtt-only", false, true), ("neither-local-variable-table", false, false)] {
			let mut cfg = if r.chance(1, 2) { Cfg::full() } else { Cfg::random(r, f) };
			if cfg.cls.is_none() { cfg.cls = Some(Mask::ALL); }
			cfg.methods_i = true;
			cfg.methods = (0..f.methods.len()).map(|j| {
				let mut m = cfg.method(j).unwrap_or(MethodCfg::FULL);
				m.code = true;
				let cm = m.code_v.unwrap_or(Mask::ALL);
				let cm = if lvt { cm.with("lvt") } else { cm.without("lvt") };
				m.code_v = Some(if lvtt { cm.with("lvtt") } else { cm.without("lvtt") });
				Some(m)
			}).collect();
			out.stats.hit(&format!("cfg:code-visitor-{name}"));
			emit_stream(out, "read", b, fs, std::slice::from_ref(&cfg));
			out.op("replay", &[Sexp::bytes(b), f.sexp(), cfg.sexp()]);
			out.op("replay-both", &[Sexp::bytes(b), f.sexp(), cfg.sexp()]);
			emit_stream(out, "oracle-projection", b, fs, std::slice::from_ref(&cfg));
			out.op("oracle-replay-projection", &[Sexp::bytes(b), f.sexp(), cfg.sexp()]);
			out.op("oracle-replay-masked-full", &[Sexp::bytes(b), f.sexp(), cfg.sexp()]);
			out.op("oracle-replay-both", &[Sexp::bytes(b), f.sexp(), cfg.sexp()]);
		}
	}
	// class visitors that report `fields` / `methods` = false (two of the three combinations per file, all three in turn)
	let turn = r.below(3);
	for v in 0..2 {
		let (fi, mi) = MEMBER_FLAGS[(turn + v) % 3];
		let cfg = member_flags_cfg(r, f, fi, mi);
		cfg_stats(out, &cfg);
		emit_stream(out, "read", b, fs, std::slice::from_ref(&cfg));
		out.op("replay", &[Sexp::bytes(b), f.sexp(), cfg.sexp()]);
		if oracles {
			emit_stream(out, "oracle-projection", b, fs, std::slice::from_ref(&cfg));
			emit_stream(out, "oracle-consumed", b, fs, std::slice::from_ref(&cfg));
			out.op("oracle-replay-masked-nolocals", &[Sexp::bytes(b), f.sexp(), cfg.sexp()]);
			out.op("oracle-replay-masked-full", &[Sexp::bytes(b), f.sexp(), cfg.sexp()]);
			if !fi && !mi { emit_stream(out, "oracle-members-skipped", b, fs, std::slice::from_ref(&cfg)); }
		}
	}
}

/// overwrite the `name_index` (or `descriptor_index`) of a member with an index that names no `CONSTANT_Utf8`
fn break_member(r: &mut Rng, b: &[u8], off: usize) -> Vec<u8> {
	let mut b2 = b.to_vec();
	let count = u16::from_be_bytes([b[8], b[9]]);
	let at = if r.chance(2, 3) { off + 2 } else { off + 4 };
	let bad = if r.chance(1, 2) { 0u16 } else { count };
	b2[at..at + 2].copy_from_slice(&bad.to_be_bytes());
	b2
}

fn gen(r: &mut Rng, tier: Tier, out: &mut Out) {
	let scale = if tier == Tier::Thorough { 8 } else { 1 };
	// ---- 0. fixed regression lines
	regression_lines(out);
	// ---- 1. javac corpus
	let files = corpus();
	let mut good: Vec<(Vec<u8>, Frame)> = Vec::new();
	for (name, b) in &files {
		match c17frame::frame(b) {
			Some(f) if f.size == b.len() => {
				out.stats.hit("file:corpus");
				let big = b.len() > 20000;
				if big && name != "BigJumps.class" { continue; }
				one_file(out, r, b, &f, if big { 1 } else { 3 * scale }, !big);
				if !big { good.push((b.clone(), f)); }
			}
			_ => out.stats.hit("file:corpus-not-framed"),
		}
	}
	// ---- 2. synthetic classes
	let mut syn: Vec<(Vec<u8>, Frame)> = Vec::new();
	for k in 0..(150 * scale) {
		let opts = c17asm::Opts { rich: k % 3 == 0, ..Default::default() };
		let (b, st) = c17asm::gen_class(r, &opts);
		for s in st { out.stats.hit(&s); }
		match c17frame::frame(&b) {
			Some(f) if f.size == b.len() => {
				out.stats.hit("file:synthetic");
				one_file(out, r, &b, &f, 3, k % 2 == 0);
				syn.push((b, f));
			}
			_ => out.stats.hit("file:synthetic-not-framed"),
		}
	}
	// ---- 2b. exhaustive small scopes (thorough): every subset of the class-level kinds present, every decline pattern of the members
	if tier == Tier::Thorough {
		for (b, f) in syn.iter().filter(|x| x.1.fields.len() + x.1.methods.len() <= 5).take(6) {
			let mut kinds: Vec<&str> = f.attrs.iter().map(|a| match a { c17frame::CAttr::Leaf(a) => if c17frame::L_CLASS.contains(&a.k) { a.k } else { "other" }, _ => "record" }).collect();
			kinds.sort(); kinds.dedup();
			kinds.truncate(7);
			for bits in 0..(1u32 << kinds.len()) {
				let mut m = Mask(0);
				for (j, k) in kinds.iter().enumerate() { if bits >> j & 1 == 1 { m = Mask(m.0 | 1 << TAGS.iter().position(|t| t == k).unwrap()); } }
				let mut cfg = Cfg::full();
				cfg.cls = Some(m);
				emit_stream(out, "read", b, std::slice::from_ref(f), std::slice::from_ref(&cfg));
				out.stats.hit("exhaustive:class-mask");
			}
			let (nf, nm) = (f.fields.len(), f.methods.len());
			for bits in 0..(1u32 << (nf + 2 * nm + 2)) {
				let mut cfg = Cfg::full();
				cfg.fields_i = bits >> (nf + 2 * nm) & 1 == 0;
				cfg.methods_i = bits >> (nf + 2 * nm + 1) & 1 == 0;
				cfg.fields = (0..nf).map(|j| if bits >> j & 1 == 1 { None } else { Some(Mask::ALL) }).collect();
				cfg.methods = (0..nm).map(|j| match bits >> (nf + 2 * j) & 3 {
					0 => Some(MethodCfg::FULL), 1 => None,
					2 => Some(MethodCfg { mask: Mask::ALL, code: true, code_v: None }),
					_ => Some(MethodCfg { mask: Mask::ALL, code: false, code_v: Some(Mask::ALL) }) }).collect();
				emit_stream(out, "read", b, std::slice::from_ref(f), std::slice::from_ref(&cfg));
				emit_stream(out, "oracle-projection", b, std::slice::from_ref(f), std::slice::from_ref(&cfg));
				out.stats.hit("exhaustive:member-declines");
			}
		}
	}
	// ---- 3. streams of 2..5 concatenated files, each read with its own configuration
	let mut pool: Vec<&(Vec<u8>, Frame)> = good.iter().filter(|x| x.0.len() < 3000).chain(syn.iter()).collect();
	r.shuffle(&mut pool);
	for _ in 0..(60 * scale) {
		let n = r.range(2, 5);
		let parts: Vec<&(Vec<u8>, Frame)> = (0..n).map(|_| *r.pick(&pool)).collect();
		let bytes: Vec<u8> = parts.iter().flat_map(|p| p.0.iter().copied()).collect();
		let fs: Vec<Frame> = parts.iter().map(|p| p.1.clone()).collect();
		let mut cfgs: Vec<Cfg> = fs.iter().map(|f| if r.chance(1, 5) { Cfg::full() } else { Cfg::random(r, f) }).collect();
		if r.chance(1, 2) {
			// a file read without its fields / methods, followed by another file
			let j = r.below(n - 1);
			let (fi, mi) = MEMBER_FLAGS[r.below(3)];
			cfgs[j] = member_flags_cfg(r, &fs[j], fi, mi);
		}
		for (j, c) in cfgs.iter().enumerate() {
			if j + 1 < n && c.cls.is_some() && (!c.fields_i || !c.methods_i) { out.stats.hit("stream:members-skipped-then-next-file"); break; }
		}
		for c in &cfgs { cfg_stats(out, c); }
		out.stats.hit(&format!("stream:{n}-files"));
		emit_stream(out, "read", &bytes, &fs, &cfgs);
		emit_stream(out, "oracle-concat", &bytes, &fs, &cfgs);
		emit_stream(out, "oracle-consumed", &bytes, &fs, &cfgs);
		emit_stream(out, "oracle-projection", &bytes, &fs, &cfgs);
		out.op("oracle-full-read", &[Sexp::bytes(&bytes), frames_sexp(&fs)]);
	}
	// ---- 4. malformed / edge: truncation, bad header, padded attributes under masks that skip them, refused duplicates
	for _ in 0..(80 * scale) {
		let (b, f) = *r.pick(&pool);
		// cut somewhere; more often near the end (class attributes / last members)
		let cut = if r.chance(1, 2) { b.len() - 1 - r.below(b.len().min(40)) } else { r.below(b.len()) };
		let cfg = if r.chance(1, 3) { Cfg::full() } else { Cfg::random(r, f) };
		out.stats.hit("malformed:truncated");
		emit_stream(out, "read", &b[..cut], std::slice::from_ref(f), std::slice::from_ref(&cfg));
		emit_stream(out, "oracle-consumed", &b[..cut], std::slice::from_ref(f), std::slice::from_ref(&cfg));
	}
	// ---- 4a'. classes without any class-level attribute in streams (seed C17-I was missed): the reader's last operation on such a
	// file is a plain read (declined class: `attributes_count`; members skipped: a seek), so a reader that reads ahead leaves the
	// stream past the file. Every position in streams of 2 and 3 files x declined / members skipped / fields off / full.
	for k in 0..(6 * scale) {
		let (bare, _) = c17asm::gen_class(r, &c17asm::Opts { bare: true, rich: k % 2 == 0, ..Default::default() });
		let Some(fb) = c17frame::frame(&bare) else { out.stats.hit("file:bare-not-framed"); continue };
		if fb.size != bare.len() { continue; }
		let (b3, f3) = *r.pick(&pool);
		let (b4, f4) = *r.pick(&pool);
		let mut declined = Cfg::random(r, &fb); declined.cls = None;
		for cfg in [declined, member_flags_cfg(r, &fb, false, false), member_flags_cfg(r, &fb, false, true), Cfg::full()] {
			out.stats.hit("stream:bare-class");
			let bytes: Vec<u8> = bare.iter().chain(b3.iter()).copied().collect();
			emit_stream(out, "read", &bytes, &[fb.clone(), f3.clone()], &[cfg.clone(), Cfg::full()]);
			emit_stream(out, "oracle-consumed", &bytes, &[fb.clone(), f3.clone()], &[cfg.clone(), Cfg::random(r, f3)]);
			let bytes: Vec<u8> = b3.iter().chain(bare.iter()).chain(b4.iter()).copied().collect();
			emit_stream(out, "read", &bytes, &[f3.clone(), fb.clone(), f4.clone()], &[Cfg::random(r, f3), cfg.clone(), Cfg::full()]);
			emit_stream(out, "oracle-consumed", &bytes, &[f3.clone(), fb.clone(), f4.clone()], &[Cfg::full(), cfg.clone(), Cfg::random(r, f4)]);
			let bytes: Vec<u8> = bare.iter().chain(bare.iter()).copied().collect();
			emit_stream(out, "read", &bytes, &[fb.clone(), fb.clone()], &[cfg.clone(), cfg.clone()]);
		}
	}
	// ---- 4b. members whose name / descriptor index names nothing: an error for every visitor that gets to see the member,
	// invisible to one whose class visitor does not ask for fields (methods) or that declines the class
	let with_members: Vec<&(Vec<u8>, Frame)> = pool.iter().copied().filter(|x| !x.1.fields.is_empty() || !x.1.methods.is_empty()).collect();
	for _ in 0..(40 * scale) {
		if with_members.is_empty() { break; }
		let (b, f) = *r.pick(&with_members);
		let in_field = if f.fields.is_empty() { false } else if f.methods.is_empty() { true } else { r.chance(1, 2) };
		let off = if in_field { r.pick(&f.fields).off } else { r.pick(&f.methods).off };
		let b2 = break_member(r, b, off);
		let Some(f2) = c17frame::frame(&b2) else { out.stats.hit("file:broken-member-not-framed"); continue };
		if f2.size != b2.len() || f2.fields.iter().all(|m| m.ok) && f2.methods.iter().all(|m| m.ok) { continue; }
		out.stats.hit(if in_field { "malformed:field-name-unresolvable" } else { "malformed:method-name-unresolvable" });
		let fs2 = std::slice::from_ref(&f2);
		emit_stream(out, "read", &b2, fs2, &[Cfg::full()]);
		for (fi, mi) in MEMBER_FLAGS {
			let cfg = member_flags_cfg(r, &f2, fi, mi);
			if (in_field && !fi) || (!in_field && !mi) { out.stats.hit("malformed:broken-member-behind-skipped-region"); }
			emit_stream(out, "read", &b2, fs2, std::slice::from_ref(&cfg));
			if !fi && !mi { emit_stream(out, "oracle-members-skipped", &b2, fs2, std::slice::from_ref(&cfg)); }
		}
		let mut declined = Cfg::random(r, &f2); declined.cls = None;
		emit_stream(out, "read", &b2, fs2, std::slice::from_ref(&declined));
		emit_stream(out, "oracle-members-skipped", &b2, fs2, std::slice::from_ref(&declined));
		// the same file in a stream: read without members, then another file with any visitor; and the other way round
		let (b3, f3) = *r.pick(&pool);
		let bytes: Vec<u8> = b2.iter().chain(b3.iter()).copied().collect();
		let skip = member_flags_cfg(r, &f2, false, false);
		let other = if r.chance(1, 2) { Cfg::full() } else { Cfg::random(r, f3) };
		out.stats.hit("stream:broken-members-skipped-then-next-file");
		emit_stream(out, "read", &bytes, &[f2.clone(), f3.clone()], &[skip.clone(), other]);
		emit_stream(out, "oracle-members-skipped", &bytes, &[f2.clone(), f3.clone()], &[skip.clone(), member_flags_cfg(r, f3, false, false)]);
		let bytes: Vec<u8> = b3.iter().chain(b2.iter()).copied().collect();
		emit_stream(out, "read", &bytes, &[f3.clone(), f2.clone()], &[Cfg::random(r, f3), skip]);
	}
	for _ in 0..(10 * scale) {
		let (b, _) = *r.pick(&pool);
		let mut b2 = b.clone();
		if r.chance(1, 2) { b2[r.below(4)] ^= 0x10; out.stats.hit("malformed:magic"); } else { b2[6] = 0; b2[7] = 68 + r.below(5) as u8; out.stats.hit("malformed:version"); }
		if let Some(f) = c17frame::frame(&b2) {
			let cfg = if r.chance(1, 2) { Cfg::full() } else { let mut c = Cfg::full(); c.cls = None; c };
			emit_stream(out, "read", &b2, &[f], &[cfg]);
		}
	}
	for k in 0..(40 * scale) {
		let kinds = ["srcfile", "inner", "sig", "encl", "nesthost", "nestmem", "srcdbg", "modmain", "module", "modpkgs"];
		let kind = kinds[k % kinds.len()];
		let (b, _) = c17asm::gen_class(r, &c17asm::Opts { pad_class: Some(kind), rich: true, ..Default::default() });
		let Some(f) = c17frame::frame(&b) else { out.stats.hit("file:padded-not-framed"); continue };
		if f.size != b.len() { continue; }
		let padded = f.attrs.iter().any(|a| matches!(a, c17frame::CAttr::Leaf(a) if a.used != a.len));
		// the visitor does not ask for the padded kind: the declared length is what gets skipped
		let mut cfg = Cfg::random(r, &f);
		cfg.cls = cfg.cls.map(|m| m.without(kind));
		if padded { out.stats.hit("malformed:padded-attribute-skipped"); }
		emit_stream(out, "read", &b, std::slice::from_ref(&f), std::slice::from_ref(&cfg));
		let mut c2 = Cfg::full(); c2.cls = None;
		emit_stream(out, "read", &b, std::slice::from_ref(&f), &[c2]);
		emit_stream(out, "oracle-projection", &b, std::slice::from_ref(&f), std::slice::from_ref(&cfg));
	}
	for k in 0..(30 * scale) {
		let opts = c17asm::Opts { dup_frames: k % 2 == 0, dup_record: k % 2 == 1, rich: true, ..Default::default() };
		let (b, st) = c17asm::gen_class(r, &opts);
		for s in st { if s.contains("second") { out.stats.hit(&s); } }
		let Some(f) = c17frame::frame(&b) else { continue };
		if f.size != b.len() { continue; }
		out.stats.hit("malformed:refused-duplicate-candidates");
		for _ in 0..2 {
			let cfg = Cfg::random(r, &f);
			emit_stream(out, "read", &b, std::slice::from_ref(&f), std::slice::from_ref(&cfg));
		}
		emit_stream(out, "read", &b, std::slice::from_ref(&f), &[Cfg::full()]);
		emit_stream(out, "oracle-projection", &b, std::slice::from_ref(&f), &[Cfg::full()]);
		// a refused second stack map sits inside a method: no error for a class visitor that does not ask for methods
		let fi = r.chance(1, 2);
		let cfg = member_flags_cfg(r, &f, fi, false);
		if opts.dup_frames { out.stats.hit("malformed:refused-duplicate-behind-skipped-methods"); }
		emit_stream(out, "read", &b, std::slice::from_ref(&f), std::slice::from_ref(&cfg));
		let cfg = member_flags_cfg(r, &f, false, false);
		emit_stream(out, "read", &b, std::slice::from_ref(&f), std::slice::from_ref(&cfg));
		if opts.dup_frames { emit_stream(out, "oracle-members-skipped", &b, std::slice::from_ref(&f), std::slice::from_ref(&cfg)); }
	}
}

/// hand-made lines that pin down repaired defects and the documented read / replay differences
fn regression_lines(out: &mut Out) {
	// a method whose visitor asks for code and answers `visit_code() -> None`, followed by another attribute, another
	// method and class attributes (d898d56: the Code body used to stay unread)
	let mut r = Rng::new(17);
	let mut best: Option<(Vec<u8>, Frame)> = None;
	for _ in 0..400 {
		let (b, _) = c17asm::gen_class(&mut r, &c17asm::Opts::default());
		let Some(f) = c17frame::frame(&b) else { continue };
		// a Code attribute that is followed by another attribute of the same method, and a method after it
		let ok = f.methods.len() >= 2 && f.methods[..f.methods.len() - 1].iter().any(|m|
			m.attrs.iter().position(|a| matches!(a, c17frame::MAttr::Code(_))).map(|p| p + 1 < m.attrs.len()).unwrap_or(false));
		if ok && well_formed(&f) && best.as_ref().map(|x| b.len() < x.0.len()).unwrap_or(true) { best = Some((b, f)); }
	}
	if let Some((b, f)) = best {
		let mut cfg = Cfg::full();
		cfg.methods = f.methods.iter().map(|_| Some(MethodCfg { mask: Mask::ALL, code: true, code_v: None })).collect();
		emit_stream(out, "read", &b, std::slice::from_ref(&f), std::slice::from_ref(&cfg));
		emit_stream(out, "oracle-projection", &b, std::slice::from_ref(&f), std::slice::from_ref(&cfg));
		out.op("oracle-decline-local", &[Sexp::bytes(&b), f.sexp(), Cfg::full().sexp(), tag("code"), nat(0)]);
		out.stats.hit("regression:visit_code-None");
	}
}

fn main() { main_for(&gen, &exec); }
