//! C11: inner-class name extension / contraction; split / join helpers.
use duke::tree::class::ObjClassName;
use fvh::mapcodec::{self, cn, from_sexp, to_sexp, M};
use fvh::mapgen::{gen_mappings, MapCfg};
use fvh::rng::Rng;
use fvh::run::{main_for, Ans, Out, Tier};
use fvh::sexp::{R, Sexp};
use fvh::with_n;

fn gen(r: &mut Rng, tier: Tier, out: &mut Out) {
	let rounds = if tier == Tier::Thorough { 20000 } else { 1500 };
	for i in 0..rounds {
		let n = r.range(2, 4);
		let mut cfg = MapCfg::basic(n);
		cfg.top_doc_pct = 30;
		cfg.nest_depth = r.range(0, 4);
		cfg.max_classes = r.range(1, 7);
		cfg.max_members = 1;
		cfg.unicode = r.chance(1, 4);
		cfg.closed_nesting = !r.chance(1, 5);
		cfg.dollar_targets = r.chance(1, 6);
		cfg.extended_targets = r.chance(1, 6);
		cfg.absent_pct = *r.pick(&[0, 0, 10, 30]);
		let g = gen_mappings(r, &cfg);
		let m = g.to_sexp();
		let ns = if r.chance(1, 12) { "nope".to_owned() } else { g.ns[if r.chance(1, 10) { 0 } else { r.range(1, n - 1) }].clone() };
		let nss = Sexp::str(&ns);
		out.stats.hit(&format!("n:{n}"));
		out.stats.hit(&format!("classes:{}", g.classes.len()));
		let depth = g.classes.iter().map(|c| c.key().matches('$').count()).max().unwrap_or(0);
		out.stats.hit(&format!("max-depth:{depth}"));
		out.op("extend", &[m.clone(), nss.clone()]);
		out.op("oracle-extend-spec", &[m.clone(), nss.clone()]);
		if i % 3 == 1 { out.op("contract", &[m.clone(), nss.clone()]); }
		out.op("oracle-contract-extend", &[m, nss]);
	}
	// families of outer classes whose nested classes share simple names (source side and/or target side), nested three and four
	// deep, in every insertion order: the extended name of a class must come from ITS OWN outer chain, however the names collide
	for _ in 0..rounds / 4 {
		let n = r.range(2, 4);
		let t = r.range(1, n - 1);
		let outers = r.range(2, 3);
		let same_src = r.chance(1, 2);
		let same_dst = !r.chance(1, 4);
		let mut classes: Vec<fvh::mapgen::GClass> = Vec::new();
		let mut add = |r: &mut Rng, src: String, dst: String| {
			let mut names: Vec<Option<String>> = vec![None; n];
			names[0] = Some(src.clone());
			for k in 1..n { names[k] = if k == t { Some(dst.clone()) } else if r.chance(1, 2) { Some(format!("o{k}{}", src.replace('$', "_").replace('/', "_"))) } else { None }; }
			classes.push(fvh::mapgen::GClass { names, doc: None, fields: Vec::new(), methods: Vec::new() });
		};
		for o in 0..outers {
			let osrc = format!("p/O{o}");
			add(r, osrc.clone(), format!("q/T{o}"));
			let msrc = format!("{osrc}${}", if same_src { "M".to_owned() } else { format!("M{o}") });
			add(r, msrc.clone(), if same_dst { "Builder".to_owned() } else { format!("Builder{o}") });
			let dsrc = format!("{msrc}$D");
			add(r, dsrc.clone(), "Data".to_owned());
			if r.chance(1, 2) { add(r, format!("{dsrc}$E"), "Leaf".to_owned()); }
		}
		// any insertion order (the cache of a faulty implementation is filled in this order)
		for k in (1..classes.len()).rev() { let j = r.below(k + 1); classes.swap(k, j); }
		let g = fvh::mapgen::GMappings { ns: ["official", "intermediary", "named", "extra"][..n].iter().map(|x| (*x).to_owned()).collect(), doc: None, classes };
		let nss = Sexp::str(&g.ns[t]);
		out.stats.hit(if same_dst { "family:same-target-simple-name" } else { "family:distinct-target-simple-names" });
		out.op("extend", &[g.to_sexp(), nss.clone()]);
		out.op("oracle-extend-spec", &[g.to_sexp(), nss.clone()]);
		out.op("oracle-contract-extend", &[g.to_sexp(), nss]);
	}
	// split / join on strings over the relevant alphabet: exhaustive up to a length, then random
	let alpha: &[u32] = &['a' as u32, '$' as u32, '/' as u32, 'B' as u32];
	let max_len = if tier == Tier::Thorough { 7 } else { 5 };
	for len in 0..=max_len {
		let total = alpha.len().pow(len as u32);
		for code in 0..total {
			let mut c = code;
			let mut s = Vec::new();
			for _ in 0..len { s.push(alpha[c % alpha.len()]); c /= alpha.len(); }
			out.op("split", &[Sexp::cps(&s)]);
		}
	}
	for _ in 0..rounds {
		let mk = |r: &mut Rng| -> Vec<u32> { (0..r.below(6)).map(|_| *r.pick(&['a' as u32, '$' as u32, '/' as u32, 0x1f600, 'b' as u32])).collect() };
		let p = mk(r); let i = mk(r);
		out.op("join", &[Sexp::cps(&p), Sexp::cps(&i)]);
		let mut s = p.clone(); s.push('$' as u32); s.extend(&i);
		out.op("split", &[Sexp::cps(&s)]);
	}
}

const DOLLAR: u32 = '$' as u32;
const SLASH: u32 = '/' as u32;

/// The harness's own reading of "nested name `Outer$Inner`" (never the implementation's `split_inner_class_parent_and_name`):
/// cut at the last `$`, both sides non-empty, the outer side does not end a package (`/`), the inner side holds no `/`.
fn own_split(s: &[u32]) -> Option<(&[u32], &[u32])> {
	let k = s.iter().rposition(|c| *c == DOLLAR)?;
	let (p, i) = (&s[..k], &s[k + 1..]);
	if p.is_empty() || i.is_empty() || p[p.len() - 1] == SLASH || i.contains(&SLASH) { None } else { Some((p, i)) }
}

fn cps_of<T: AsRef<java_string::JavaStr>>(t: &T) -> Vec<u32> { Sexp::jstr(t.as_ref()).as_cps().unwrap_or_default() }

fn simple<const N: usize>(m: &M<N>, ns: usize) -> bool {
	m.classes.values().all(|c| {
		let names: &[Option<ObjClassName>; N] = (&c.info.names).into();
		match (&names[ns], &names[0]) {
			(Some(b), Some(src)) => {
				let (b, src) = (cps_of(b), cps_of(src));
				!b.is_empty() && b[b.len() - 1] != SLASH &&
					if own_split(&src).is_some() { !b.contains(&DOLLAR) && !b.contains(&SLASH) } else { own_split(&b).is_none() }
			}
			(Some(_), None) => false,
			_ => true,
		}
	})
}

/// What the property text demands of `extend_inner_class_names`, computed from the REQUEST alone (the encoded mapping set, harness codec;
/// none of the implementation's split / lookup / join functions): `None` = outside the statement (a class not filed under its source
/// name; the first namespace of a set without classes), `Some(None)` = an error is demanded (unknown / first namespace, or some outer
/// class of a named nested class is not in the set or has no name in the namespace), `Some(Some(x))` = the demanded result.
fn extend_spec(m: &Sexp, ns: &str) -> R<Option<Option<Sexp>>> {
	let [nss, doc, classes] = m.as_list()? else { return Err("mappings".into()) };
	let nsn: Vec<String> = nss.as_list()?.iter().map(|x| x.as_string()).collect::<R<_>>()?;
	let mut rows: Vec<(Vec<u32>, Vec<Option<Vec<u32>>>)> = Vec::new();
	for c in classes.as_list()? {
		let [k, names, ..] = c.as_list()? else { return Err("class".into()) };
		let names = names.as_list()?.iter().map(|o| Ok(match o.as_opt()? { None => None, Some(x) => Some(x.as_cps()?) })).collect::<R<Vec<_>>>()?;
		if names.len() != nsn.len() { return Err("names row".into()); }
		rows.push((k.as_cps()?, names));
	}
	if rows.iter().any(|(k, n)| n.first() != Some(&Some(k.clone()))) { return Ok(None); }
	let Some(t) = nsn.iter().position(|x| x == ns) else { return Ok(Some(None)) };
	if t == 0 { return Ok(if rows.is_empty() { None } else { Some(None) }); }
	let target = |k: &[u32]| -> Option<&Vec<u32>> { rows.iter().find(|(kk, _)| kk[..] == *k).and_then(|(_, n)| n[t].as_ref()) };
	let mut out = Vec::new();
	for (c, (k, names)) in classes.as_list()?.iter().zip(&rows) {
		let Some(own) = &names[t] else { out.push(c.clone()); continue };
		// the chain of outer classes by SOURCE name, innermost first; the extended name is their names in the namespace, outermost first
		let mut parts: Vec<&[u32]> = vec![own];
		let mut cur: &[u32] = k;
		while let Some((outer, _)) = own_split(cur) {
			let Some(o) = target(outer) else { return Ok(Some(None)) };
			parts.push(o);
			cur = outer;
		}
		parts.reverse();
		let mut new_names = names.clone();
		new_names[t] = Some(parts.join(&DOLLAR));
		let mut items = c.as_list()?.to_vec();
		items[1] = Sexp::list(new_names.iter().map(|o| Sexp::opt(o.as_ref(), |x| Sexp::cps(x))).collect());
		out.push(Sexp::list(items));
	}
	Ok(Some(Some(Sexp::list(vec![nss.clone(), doc.clone(), Sexp::list(out)]))))
}

fn exec(op: &str, args: &[Sexp]) -> Ans {
	macro_rules! tr { ($e:expr) => { match $e { Ok(x) => x, Err(e) => return Ans::BadOp(e) } } }
	match (op, args) {
		("extend" | "contract" | "oracle-contract-extend" | "oracle-extend-spec", [m, ns]) => {
			let n = tr!(mapcodec::ns_count(m));
			let ns = tr!(ns.as_string());
			with_n!(n, N, {
				let m: M<N> = tr!(from_sexp(m));
				match op {
					"extend" => match m.extend_inner_class_names(&ns) { Ok(r) => Ans::Ok(to_sexp(&r)), Err(_) => Ans::err() },
					"contract" => match m.contract_inner_class_names(&ns) { Ok(r) => Ans::Ok(to_sexp(&r)), Err(_) => Ans::err() },
					"oracle-extend-spec" => {
						let got = m.extend_inner_class_names(&ns).ok().map(|r| to_sexp(&r));
						match (tr!(extend_spec(&to_sexp(&m), &ns)), got) {
							(None, _) => Ans::out_of_domain(),
							(Some(None), None) => Ans::pass(),
							(Some(None), Some(_)) => Ans::fail("should_err"),
							(Some(Some(_)), None) => Ans::fail("err"),
							(Some(Some(want)), Some(got)) => if want == got { Ans::pass() } else { Ans::fail("differs") },
						}
					}
					_ => {
						// domain from the request: known namespace, classes filed under their source names, simple names, and the
						// specification (not the implementation) says that extension succeeds
						let names: &[String; N] = (&m.info.namespaces).into();
						let Some(nsi) = names.iter().position(|x| *x == ns) else { return Ans::out_of_domain() };
						let Some(Some(_)) = tr!(extend_spec(&to_sexp(&m), &ns)) else { return Ans::out_of_domain() };
						if !simple(&m, nsi) { return Ans::out_of_domain(); }
						let Ok(e) = m.extend_inner_class_names(&ns) else { return Ans::fail("extend_err") };
						match e.contract_inner_class_names(&ns) {
							Ok(c) => if to_sexp(&c) == to_sexp(&m) { Ans::pass() } else { Ans::fail("differs") },
							Err(_) => Ans::fail("contract_err"),
						}
					}
				}
			}, Ans::BadOp("n".into()))
		}
		("split", [s]) => {
			let s = cn(tr!(s.as_jstring()));
			Ans::Ok(Sexp::opt(s.split_inner_class_parent_and_name(), |(p, i)| Sexp::list(vec![Sexp::jstr(p.as_inner()), Sexp::jstr(i.as_inner())])))
		}
		("join", [p, i]) => {
			let p = cn(tr!(p.as_jstring()));
			let i = cn(tr!(i.as_jstring()));
			Ans::Ok(Sexp::jstr(ObjClassName::from_inner_class(p, &i).as_inner()))
		}
		_ => Ans::BadOp("unknown op".into()),
	}
}

fn main() { main_for(&gen, &exec) }
