//! C07: jar remapping (`dukebox::remap`) against the Lean model of `remap.rs` over the reference skeleton of a class.
//! Wire format: lean/FeatherModel/Driver/C07.lean. Request arguments:
//!   <class | jar | name>  <mappings (mapcodec, 2 namespaces)>  (<supers> <hints>)  <table>  [<writable>]
//! `<writable>` (`oracle-reopen`): every class of the jar is one duke must be able to write (`classes_writable`: decided from the
//! hints and the description, never by the writer). `oracle-table-spec` compares the table with the harness-own reading of the
//! mappings and super-type rows (`Spec`), the model side recomputes it with C06's model of `remapper_b`.
//! The model reads the first argument and the table (the remapper's answers); the implementation rebuilds the real
//! objects: the remapper from the mappings and the super-class lists (`remapper_b`), every class from its hint
//! (`(gen seed)`: the generator below, `(corpus file)`: a javac-compiled class, `(fixture name)`: a hand-built class),
//! `(asm seed)`: a record class / module descriptor / annotated class assembled to bytes by `c01model` and read by duke,
//! and checks that the class / table in the request is what it gets (otherwise `skip`).
use std::cell::RefCell;
use std::collections::BTreeMap;
use std::io::Cursor;
use indexmap::{IndexMap, IndexSet};
use java_string::{JavaStr, JavaString};
use duke::tree::annotation::{Annotation, ElementValue, ElementValuePair, Object};
use duke::tree::attribute::Attribute;
use duke::tree::class::{ClassAccess, ClassFile, ClassName, EnclosingMethod, InnerClass, InnerClassFlags, ObjClassName, ObjClassNameSlice};
use duke::tree::descriptor::ReturnDescriptor;
use duke::tree::field::{ConstantValue, Field, FieldAccess, FieldDescriptor, FieldDescriptorSlice, FieldName, FieldNameSlice, FieldRef};
use duke::tree::method::code::{ArrayType, Code, ConstantDynamic, Handle, Instruction, InstructionListEntry, InvokeDynamic, Loadable, LvIndex};
use duke::tree::method::{Method, MethodAccess, MethodDescriptor, MethodDescriptorSlice, MethodName, MethodNameAndDesc, MethodNameSlice, MethodParameter, MethodRef, ParameterFlags};
use duke::tree::record::RecordComponent;
use duke::tree::version::Version;
use duke::visitor::method::code::{StackMapData, VerificationTypeInfo};
use dukebox::storage::{BasicFileAttributes, ClassRepr, IsClass, IsOther, Jar, JarEntry, JarEntryEnum, OpenedJar, ParsedJar, ParsedJarEntry};
use quill::remapper::{ARemapper, BRemapper, JarSuperProv};
use quill::tree::names::Namespace;
use fvh::c07tree::{class_to_sexp, erase, project, ref_to_sexp, refs, Cl, MRef, Ref, S};
use fvh::c01model as gm;
use fvh::mapcodec::{self, M};
use fvh::rng::Rng;
use fvh::run::{main_for, Ans, Out, Tier};
use fvh::sexp::{Sexp, R};

// ------------------------------------------------------------------ unchecked constructors (any string may sit in a name position)

fn js(s: &str) -> JavaString { JavaString::from(s.to_owned()) }
fn ocn(s: &JavaStr) -> ObjClassName { unsafe { ObjClassName::from_inner_unchecked(s.to_owned()) } }
fn ocs(s: &JavaStr) -> &ObjClassNameSlice { unsafe { ObjClassNameSlice::from_inner_unchecked(s) } }
fn cn(s: &JavaStr) -> ClassName { unsafe { ClassName::from_inner_unchecked(s.to_owned()) } }
fn fd(s: &JavaStr) -> FieldDescriptor { unsafe { FieldDescriptor::from_inner_unchecked(s.to_owned()) } }
fn fds(s: &JavaStr) -> &FieldDescriptorSlice { unsafe { FieldDescriptorSlice::from_inner_unchecked(s) } }
fn md(s: &JavaStr) -> MethodDescriptor { unsafe { MethodDescriptor::from_inner_unchecked(s.to_owned()) } }
fn mds(s: &JavaStr) -> &MethodDescriptorSlice { unsafe { MethodDescriptorSlice::from_inner_unchecked(s) } }
fn fnm(s: &JavaStr) -> FieldName { unsafe { FieldName::from_inner_unchecked(s.to_owned()) } }
fn fns(s: &JavaStr) -> &FieldNameSlice { unsafe { FieldNameSlice::from_inner_unchecked(s) } }
fn mnm(s: &JavaStr) -> MethodName { unsafe { MethodName::from_inner_unchecked(s.to_owned()) } }
fn mns(s: &JavaStr) -> &MethodNameSlice { unsafe { MethodNameSlice::from_inner_unchecked(s) } }
fn rd(s: &JavaStr) -> ReturnDescriptor { unsafe { ReturnDescriptor::from_inner_unchecked(s.to_owned()) } }

// ------------------------------------------------------------------ the real remapper, with a log of its primitive answers

type Key3 = (S, S, S);
#[derive(Default)]
struct Table {
	cls: BTreeMap<String, (S, Option<S>)>,
	desc: BTreeMap<String, (S, Option<S>)>,
	field: BTreeMap<String, (Key3, Option<(S, S)>)>,
	method: BTreeMap<String, (Key3, Option<(S, S)>)>,
}
fn k1(a: &JavaStr) -> String { Sexp::jstr(a).to_string() }
fn k3(a: &JavaStr, b: &JavaStr, c: &JavaStr) -> String { format!("{} {} {}", Sexp::jstr(a), Sexp::jstr(b), Sexp::jstr(c)) }

impl Table {
	fn to_sexp(&self) -> Sexp {
		let o1 = |v: &Option<S>| Sexp::opt(v.as_ref(), |x| Sexp::jstr(x));
		let o2 = |v: &Option<(S, S)>| Sexp::opt(v.as_ref(), |(n, d)| Sexp::list(vec![Sexp::jstr(n), Sexp::jstr(d)]));
		let t3 = |k: &Key3| Sexp::list(vec![Sexp::jstr(&k.0), Sexp::jstr(&k.1), Sexp::jstr(&k.2)]);
		Sexp::list(vec![
			Sexp::list(self.cls.values().map(|(k, v)| Sexp::list(vec![Sexp::jstr(k), o1(v)])).collect()),
			Sexp::list(self.desc.values().map(|(k, v)| Sexp::list(vec![Sexp::jstr(k), o1(v)])).collect()),
			Sexp::list(self.field.values().map(|(k, v)| Sexp::list(vec![t3(k), o2(v)])).collect()),
			Sexp::list(self.method.values().map(|(k, v)| Sexp::list(vec![t3(k), o2(v)])).collect()),
		])
	}
}

/// the four primitive questions, answered by the real remapper and logged
struct Rec<'a, B: BRemapper> { b: &'a B, t: RefCell<Table> }
impl<'a, B: BRemapper> Rec<'a, B> {
	fn new(b: &'a B) -> Self { Rec { b, t: RefCell::new(Table::default()) } }
	fn map_class(&self, n: &JavaStr) -> Option<S> {
		let r = self.b.map_class(ocs(n)).ok().map(|x| x.into_inner());
		self.t.borrow_mut().cls.insert(k1(n), (n.to_owned(), r.clone()));
		r
	}
	fn map_desc(&self, d: &JavaStr) -> Option<S> {
		let r = self.b.map_field_desc(fds(d)).ok().map(|x| x.into_inner());
		self.t.borrow_mut().desc.insert(k1(d), (d.to_owned(), r.clone()));
		r
	}
	fn map_field(&self, o: &JavaStr, n: &JavaStr, d: &JavaStr) -> Option<(S, S)> {
		let r = self.b.map_field(ocs(o), fns(n), fds(d)).ok().map(|x| (x.name.into_inner(), x.desc.into_inner()));
		self.t.borrow_mut().field.insert(k3(o, n, d), ((o.to_owned(), n.to_owned(), d.to_owned()), r.clone()));
		r
	}
	fn map_method(&self, o: &JavaStr, n: &JavaStr, d: &JavaStr) -> Option<(S, S)> {
		let r = self.b.map_method(ocs(o), mns(n), mds(d)).ok().map(|x| (x.name.into_inner(), x.desc.into_inner()));
		self.t.borrow_mut().method.insert(k3(o, n, d), ((o.to_owned(), n.to_owned(), d.to_owned()), r.clone()));
		r
	}
}

/// `dukebox::remap::remap` takes its remapper by value: forward the three required methods, the provided ones stay quill's
struct ByRef<'a, B: BRemapper>(&'a B);
impl<B: BRemapper> ARemapper for ByRef<'_, B> {
	fn map_class_fail(&self, class: &ObjClassNameSlice) -> anyhow::Result<Option<ObjClassName>> { self.0.map_class_fail(class) }
}
impl<B: BRemapper> BRemapper for ByRef<'_, B> {
	fn map_field_fail(&self, o: &ObjClassNameSlice, n: &FieldNameSlice, d: &FieldDescriptorSlice) -> anyhow::Result<Option<duke::tree::field::FieldNameAndDesc>> { self.0.map_field_fail(o, n, d) }
	fn map_method_fail(&self, o: &ObjClassNameSlice, n: &MethodNameSlice, d: &MethodDescriptorSlice) -> anyhow::Result<Option<MethodNameAndDesc>> { self.0.map_method_fail(o, n, d) }
}

fn is_array(n: &JavaStr) -> bool { n.starts_with('[') }
/// JVMS 4.2.2 unqualified name: what can be the name of a field (mirror of `fieldNameOk`)
fn field_name_ok(s: &JavaStr) -> bool { !s.is_empty() && !s.chars().any(|c| c == '.' || c == ';' || c == '[' || c == '/') }
/// the class named by the descriptor of a class type, `L ClassName ;` (mirror of `classOfDesc`; simple text checks, not duke's parser)
fn class_of_desc(t: &JavaStr) -> Option<&JavaStr> {
	let s = t.strip_prefix('L')?.strip_suffix(';')?;
	if !s.starts_with('[') && s.split('/').all(field_name_ok) { Some(s) } else { None }
}

/// what the remapper answers for a reference (mirror of `applyRef`; composed from the primitives here, not by quill)
fn apply_ref<B: BRemapper>(q: &Rec<B>, owner: &JavaStr, r: &Ref) -> Option<Ref> {
	Some(match r {
		Ref::Cls(n) => Ref::Cls(q.map_class(n)?),
		Ref::Any(n) => Ref::Any(if is_array(n) { q.map_desc(n)? } else { q.map_class(n)? }),
		Ref::Desc(d) => Ref::Desc(q.map_desc(d)?),
		Ref::Dyn(d) => Ref::Dyn(q.map_desc(d)?),
		Ref::FieldDecl(n, d) => { let (n, d) = q.map_field(owner, n, d)?; Ref::FieldDecl(n, d) }
		Ref::MethodDecl(n, d) => { let (n, d) = q.map_method(owner, n, d)?; Ref::MethodDecl(n, d) }
		Ref::FieldRef(f) => { let (n, d) = q.map_field(&f.cls, &f.name, &f.desc)?; Ref::FieldRef(MRef { cls: q.map_class(&f.cls)?, name: n, desc: d }) }
		Ref::MethodRef(m) => {
			if is_array(&m.cls) { Ref::MethodRef(MRef { cls: q.map_desc(&m.cls)?, name: m.name.clone(), desc: m.desc.clone() }) }
			else { let (n, d) = q.map_method(&m.cls, &m.name, &m.desc)?; Ref::MethodRef(MRef { cls: q.map_class(&m.cls)?, name: n, desc: d }) }
		}
		Ref::EnumConst(t, c) => {
			let t2 = q.map_desc(t)?;
			match class_of_desc(t) {
				Some(k) if field_name_ok(c) => Ref::EnumConst(t2, q.map_field(k, c, t)?.0),
				_ => Ref::EnumConst(t2, c.clone()),
			}
		}
		Ref::RecordDecl(n, d) => {
			if field_name_ok(n) { let (n, d) = q.map_field(owner, n, d)?; Ref::RecordDecl(n, d) } else { Ref::RecordDecl(n.clone(), q.map_desc(d)?) }
		}
	})
}
/// asks everything the traversal of this class can ask; returns the remapper's answers (`None`: one of them failed)
fn ask_class<B: BRemapper>(q: &Rec<B>, c: &Cl) -> Option<Vec<Ref>> {
	let mut out = Some(Vec::new());
	for r in refs(c) {
		// every question is asked (and logged in the table) even after a failure
		match (apply_ref(q, &c.name, &r), &mut out) { (Some(x), Some(v)) => v.push(x), _ => out = None }
	}
	out
}
/// the simple name a binary class name spells out (mirror of `spelledSimpleName`): in the last `/`-separated part, what
/// follows the last `$`, minus leading digits
fn spelled_simple_name(n: &JavaStr) -> Option<S> {
	let cps: Vec<u32> = n.chars().map(|c| c.as_u32()).collect();
	let part: &[u32] = match cps.iter().rposition(|c| *c == '/' as u32) { Some(i) => &cps[i + 1..], None => &cps };
	let after = &part[part.iter().rposition(|c| *c == '$' as u32)? + 1..];
	let k = after.iter().take_while(|c| ('0' as u32..='9' as u32).contains(c)).count();
	let mut out = JavaString::new();
	for c in &after[k..] { out.push_java(java_string::JavaCodePoint::from_u32(*c)?); }
	Some(out)
}
/// what a consistent renaming makes of an inner name (mirror of `expectedInnerName`)
fn expected_inner_name(old: &JavaStr, new: &JavaStr, name: &Option<S>) -> Option<S> {
	name.as_ref().map(|s| if spelled_simple_name(old).as_ref() == Some(s) { spelled_simple_name(new).unwrap_or_else(|| s.clone()) } else { s.clone() })
}
fn inner_names_ok(old: &Cl, new: &Cl) -> bool {
	let (a, b) = (old.ics.as_deref().unwrap_or(&[]), new.ics.as_deref().unwrap_or(&[]));
	a.len() == b.len() && a.iter().zip(b).all(|(i, j)| j.name == expected_inner_name(&i.inner, &j.inner, &i.name))
}
fn strip_class(n: &JavaStr) -> Option<&JavaStr> { n.strip_suffix(".class") }
fn ask_entry_name<B: BRemapper>(q: &Rec<B>, n: &JavaStr) -> Option<S> {
	match strip_class(n) { Some(stem) => q.map_class(stem).map(|mut x| { x.push_str(".class"); x }), None => Some(n.to_owned()) }
}

/// the table in a request must be what the real remapper answers
fn table_consistent<B: BRemapper>(q: &Rec<B>, t: &Sexp) -> R<bool> {
	let [cs, ds, fs, ms] = t.as_list()? else { return Err("table".into()) };
	let o1 = |v: &Sexp| -> R<Option<S>> { Ok(match v.as_opt()? { None => None, Some(x) => Some(x.as_jstring()?) }) };
	let o2 = |v: &Sexp| -> R<Option<(S, S)>> { Ok(match v.as_opt()? { None => None, Some(x) => { let [n, d] = x.as_list()? else { return Err("nd".into()) }; Some((n.as_jstring()?, d.as_jstring()?)) } }) };
	for e in cs.as_list()? { let [k, v] = e.as_list()? else { return Err("row".into()) }; if q.map_class(&k.as_jstring()?) != o1(v)? { return Ok(false) } }
	for e in ds.as_list()? { let [k, v] = e.as_list()? else { return Err("row".into()) }; if q.map_desc(&k.as_jstring()?) != o1(v)? { return Ok(false) } }
	for (tab, is_f) in [(fs, true), (ms, false)] {
		for e in tab.as_list()? {
			let [k, v] = e.as_list()? else { return Err("row".into()) };
			let [o, n, d] = k.as_list()? else { return Err("key".into()) };
			let (o, n, d) = (o.as_jstring()?, n.as_jstring()?, d.as_jstring()?);
			let a = if is_f { q.map_field(&o, &n, &d) } else { q.map_method(&o, &n, &d) };
			if a != o2(v)? { return Ok(false) }
		}
	}
	Ok(true)
}

// ------------------------------------------------------------------ mappings and super-class lists (generated description <-> request)

#[derive(Clone, Debug, Default)]
struct GMap {
	/// (src, dst?, fields (name, desc, dst), methods (name, desc, dst))
	classes: Vec<(String, Option<String>, Vec<(String, String, String)>, Vec<(String, String, String)>)>,
	supers: Vec<(String, Vec<String>)>,
}
impl GMap {
	fn mappings_sexp(&self) -> Sexp {
		let s = |x: &str| Sexp::str(x);
		let names = |a: &str, b: Option<&str>| Sexp::list(vec![Sexp::list(vec![s(a)]), Sexp::opt(b, |b| s(b))]);
		let none = Sexp::list(vec![]);
		Sexp::list(vec![
			Sexp::list(vec![s("a"), s("b")]), none.clone(),
			Sexp::list(self.classes.iter().map(|(src, dst, fs, ms)| Sexp::list(vec![
				s(src), names(src, dst.as_deref()), none.clone(),
				Sexp::list(fs.iter().map(|(n, d, t)| Sexp::list(vec![s(n), s(d), s(d), names(n, Some(t)), none.clone()])).collect()),
				Sexp::list(ms.iter().map(|(n, d, t)| Sexp::list(vec![s(n), s(d), s(d), names(n, Some(t)), none.clone(), none.clone()])).collect()),
			])).collect()),
		])
	}
	fn supers_sexp(&self) -> Sexp {
		Sexp::list(self.supers.iter().map(|(c, ss)| Sexp::list(vec![Sexp::str(c), Sexp::list(ss.iter().map(|x| Sexp::str(x)).collect())])).collect())
	}
}
fn supers_from(s: &Sexp) -> R<JarSuperProv> {
	let mut super_classes = IndexMap::new();
	for e in s.as_list()? {
		let [c, ss] = e.as_list()? else { return Err("supers row".into()) };
		let mut set = IndexSet::new();
		for x in ss.as_list()? { set.insert(ocn(&x.as_jstring()?)); }
		super_classes.insert(ocn(&c.as_jstring()?), set);
	}
	Ok(JarSuperProv { super_classes })
}

// ------------------------------------------------------------------ generated classes (public API of duke only: no labels)

const CLASSES: &[&str] = &["a/A", "a/B", "b/C", "D", "a/A$In", "a/A$In$Deep", "a/A$1", "java/lang/Object", "java/lang/String", "p/q/E", "L", "é/Ü", "a/Ann", "a/En", "a/A$1Local", "a$b/C"];
const FNAMES: &[&str] = &["f", "g", "x1", "VALUE", "f_1", "RED"];
const MNAMES: &[&str] = &["m", "run", "get", "<init>", "lambda$0", "value", "clone"];
const BAD_DESCS: &[&str] = &["L;", "(La/A", "La/A", "[L;", "(L;)V"];
/// enum type descriptors that are not `L<class>;`: arrays and primitives, and strings quill's lenient `map_desc` lets
/// through although duke's parser rejects them (no class to look the constant up in)
const ODD_ENUM_TYPES: &[&str] = &["[La/En;", "[[La/En;", "I", "La.En;", "La/En;x", "La//En;", "La/En;La/En;", "LL;"];
const ENUM_CLASSES: &[&str] = &["a/En", "a/En", "a/En", "a/A$In", "p/q/E", "é/Ü", "Switches$Color"];
/// strings that cannot be the name of a field
const ODD_NAMES: &[&str] = &["a/b", "", "x.y", "RED;", "[f"];

struct Pool { bad: bool, clean: bool }
impl Pool {
	fn cls(&self, r: &mut Rng) -> JavaString { js(*r.pick(CLASSES)) }
	fn ty(&self, r: &mut Rng) -> String {
		if self.bad && r.chance(1, 12) { return (*r.pick(BAD_DESCS)).to_owned(); }
		let base = match r.below(6) { 0 => "I".to_owned(), 1 => "J".to_owned(), 2 => "Z".to_owned(), _ => format!("L{};", r.pick(CLASSES)) };
		format!("{}{}", "[".repeat(if r.chance(1, 4) { r.range(1, 2) } else { 0 }), base)
	}
	fn fdesc(&self, r: &mut Rng) -> JavaString { js(&self.ty(r)) }
	fn any(&self, r: &mut Rng) -> JavaString { if r.chance(1, 4) { let t = self.ty(r); js(&if t.starts_with('[') { t } else { format!("[{t}") }) } else { self.cls(r) } }
	fn mdesc(&self, r: &mut Rng) -> JavaString {
		if self.bad && r.chance(1, 12) { return js(*r.pick(BAD_DESCS)); }
		let args: String = (0..r.below(3)).map(|_| self.ty(r)).collect();
		let ret = if r.chance(1, 3) { "V".to_owned() } else { self.ty(r) };
		js(&format!("({args}){ret}"))
	}
	fn fref(&self, r: &mut Rng) -> FieldRef { FieldRef { class: ocn(&self.cls(r)), name: fnm(&js(*r.pick(FNAMES))), desc: fd(&self.fdesc(r)) } }
	fn mref(&self, r: &mut Rng) -> MethodRef { MethodRef { class: cn(&self.any(r)), name: mnm(&js(*r.pick(MNAMES))), desc: md(&self.mdesc(r)) } }
	fn handle(&self, r: &mut Rng) -> Handle {
		match r.below(9) {
			0 => Handle::GetField(self.fref(r)), 1 => Handle::GetStatic(self.fref(r)), 2 => Handle::PutField(self.fref(r)), 3 => Handle::PutStatic(self.fref(r)),
			4 => Handle::InvokeVirtual(self.mref(r)), 5 => Handle::InvokeStatic(self.mref(r), r.chance(1, 2)), 6 => Handle::InvokeSpecial(self.mref(r), r.chance(1, 2)),
			7 => Handle::NewInvokeSpecial(self.mref(r)), _ => Handle::InvokeInterface(self.mref(r)),
		}
	}
	fn loadable(&self, r: &mut Rng, depth: usize) -> Loadable {
		match r.below(if depth > 2 { 8 } else { 10 }) {
			0 => Loadable::Integer(r.below(1000) as i32 - 500), 1 => Loadable::Float(1.5), 2 => Loadable::Long(-7), 3 => Loadable::Double(f64::NAN),
			4 => Loadable::String(js("a/A")), 5 => Loadable::Class(cn(&self.any(r))), 6 => Loadable::MethodHandle(self.handle(r)),
			7 => Loadable::MethodType(md(&self.mdesc(r))),
			_ => Loadable::Dynamic(self.condy(r, depth + 1)),
		}
	}
	fn condy(&self, r: &mut Rng, depth: usize) -> ConstantDynamic {
		ConstantDynamic { name: fnm(&js(*r.pick(FNAMES))), descriptor: fd(&self.fdesc(r)), handle: self.handle(r),
			arguments: (0..r.below(3)).map(|_| self.loadable(r, depth)).collect() }
	}
	fn ev(&self, r: &mut Rng, depth: usize) -> ElementValue {
		match r.below(if depth > 2 { 4 } else { 7 }) {
			0 => ElementValue::Object(match r.below(4) { 0 => Object::Integer(3), 1 => Object::String(js("a/A")), 2 => Object::Boolean(true), _ => Object::Char(65) }),
			1 | 2 => ElementValue::Enum {
				type_name: fd(&match r.below(10) { 0..=5 => js(&format!("L{};", r.pick(ENUM_CLASSES))), 6 | 7 => js(*r.pick(ODD_ENUM_TYPES)), _ => self.fdesc(r) }),
				const_name: js(if r.chance(1, 8) { *r.pick(ODD_NAMES) } else { *r.pick(FNAMES) }),
			},
			3 => ElementValue::Class(rd(&if r.chance(1, 5) { js("V") } else { self.fdesc(r) })),
			4 | 5 => ElementValue::AnnotationInterface(self.ann(r, depth + 1)),
			_ => ElementValue::ArrayType((0..r.below(3)).map(|_| self.ev(r, depth + 1)).collect()),
		}
	}
	fn ann(&self, r: &mut Rng, depth: usize) -> Annotation {
		Annotation { annotation_type: fd(&self.fdesc(r)), element_value_pairs: (0..r.below(3)).map(|_| ElementValuePair { name: js(*r.pick(MNAMES)), value: self.ev(r, depth) }).collect() }
	}
	fn anns(&self, r: &mut Rng) -> Vec<Annotation> { if r.chance(1, 3) { (0..r.range(1, 2)).map(|_| self.ann(r, 0)).collect() } else { vec![] } }
	fn attrs(&self, r: &mut Rng) -> Vec<Attribute> { if !self.clean && r.chance(1, 6) { vec![Attribute { name: js("Unknown"), bytes: vec![0, r.below(200) as u8] }] } else { vec![] } }
	fn vt(&self, r: &mut Rng) -> VerificationTypeInfo {
		match r.below(9) { 0 => VerificationTypeInfo::Top, 1 => VerificationTypeInfo::Integer, 2 => VerificationTypeInfo::Null, 3 => VerificationTypeInfo::UninitializedThis,
			4 => VerificationTypeInfo::Float, 5 => VerificationTypeInfo::Long, 6 => VerificationTypeInfo::Double, _ => VerificationTypeInfo::Object(cn(&self.any(r))) }
	}
	fn frame(&self, r: &mut Rng) -> StackMapData {
		match r.below(5) {
			0 => StackMapData::Same, 1 => StackMapData::Chop { k: 1 }, 2 => StackMapData::SameLocals1StackItem { stack: self.vt(r) },
			3 => StackMapData::Append { locals: (0..r.range(1, 3)).map(|_| self.vt(r)).collect() },
			_ => StackMapData::Full { locals: (0..r.below(3)).map(|_| self.vt(r)).collect(), stack: (0..r.below(3)).map(|_| self.vt(r)).collect() },
		}
	}
	fn insn(&self, r: &mut Rng) -> Instruction {
		use Instruction::*;
		match r.below(22) {
			0 => Nop, 1 => BiPush(7), 2 => ILoad(LvIndex { index: 1 }), 3 => NewArray(ArrayType::Int), 4 => Return, 5 => IInc(LvIndex { index: 2 }, -3),
			6 => Ldc(self.loadable(r, 0)), 7 => Ldc(self.loadable(r, 0)),
			8 => GetStatic(self.fref(r)), 9 => PutStatic(self.fref(r)), 10 => GetField(self.fref(r)), 11 => PutField(self.fref(r)),
			12 => InvokeVirtual(self.mref(r)), 13 => InvokeSpecial(self.mref(r), r.chance(1, 2)), 14 => InvokeStatic(self.mref(r), r.chance(1, 2)),
			15 => InvokeInterface(self.mref(r)),
			16 => InvokeDynamic(duke::tree::method::code::InvokeDynamic { name: mnm(&js(*r.pick(MNAMES))), descriptor: md(&self.mdesc(r)), handle: self.handle(r),
				arguments: (0..r.below(3)).map(|_| self.loadable(r, 1)).collect() }),
			17 => New(cn(&self.cls(r))), 18 => ANewArray(cn(&self.any(r))), 19 => CheckCast(cn(&self.any(r))), 20 => InstanceOf(cn(&self.any(r))),
			_ => MultiANewArray(cn(&self.any(r)), 2),
		}
	}
	fn code(&self, r: &mut Rng) -> Code {
		Code {
			max_stack: Some(4), max_locals: Some(3),
			instructions: (0..r.below(7)).map(|_| InstructionListEntry { label: None, frame: if r.chance(1, 3) { Some(self.frame(r)) } else { None }, instruction: self.insn(r) }).collect(),
			attributes: self.attrs(r), ..Code::default()
		}
	}
}

fn gen_class(seed: u64) -> ClassFile {
	let mut rng = Rng::new(seed);
	let r = &mut rng;
	let p = Pool { bad: r.chance(1, 8), clean: r.chance(2, 5) };
	let versions = [Version::V1_5, Version::V1_8, Version::V11, Version::V17];
	let mut c = ClassFile::new(*r.pick(&versions), ClassAccess::from(r.below(0x40) as u16), ocn(&p.cls(r)),
		if r.chance(4, 5) { Some(ocn(&p.cls(r))) } else { None }, (0..r.below(3)).map(|_| ocn(&p.cls(r))).collect());
	c.has_deprecated_attribute = r.chance(1, 5);
	if r.chance(1, 3) { c.source_file = Some(js("A.java")); }
	for _ in 0..r.below(3) {
		let mut f = Field::new(FieldAccess::from(r.below(0x20) as u16), fnm(&js(*r.pick(FNAMES))), fd(&p.fdesc(r)));
		if r.chance(1, 4) { f.constant_value = Some(ConstantValue::Integer(5)); }
		if r.chance(1, 5) { f.signature = Some(unsafe { duke::tree::field::FieldSignature::from_inner_unchecked(js("La/A<Lb/C;>;")) }); }
		f.runtime_visible_annotations = p.anns(r);
		f.runtime_invisible_annotations = p.anns(r);
		f.attributes = p.attrs(r);
		c.fields.push(f);
	}
	for _ in 0..r.below(4) {
		let mut m = Method::new(MethodAccess::from(r.below(0x20) as u16), mnm(&js(*r.pick(MNAMES))), md(&p.mdesc(r)));
		if r.chance(3, 4) { m.code = Some(p.code(r)); }
		if r.chance(1, 3) { m.exceptions = Some((0..r.range(1, 2)).map(|_| cn(&p.cls(r))).collect()); }
		if r.chance(1, 6) { m.signature = Some(unsafe { duke::tree::method::MethodSignature::from_inner_unchecked(js("<T:La/A;>()TT;")) }); }
		m.runtime_visible_annotations = p.anns(r);
		m.runtime_invisible_annotations = p.anns(r);
		if r.chance(1, 6) { m.annotation_default = Some(p.ev(r, 0)); }
		if r.chance(1, 5) { m.method_parameters = Some(vec![MethodParameter { name: None, flags: ParameterFlags::from(0x10) }]); }
		m.attributes = p.attrs(r);
		c.methods.push(m);
	}
	if r.chance(1, 3) {
		c.inner_classes = Some((0..r.range(1, 3)).map(|_| {
			// mostly nested classes, with the inner name their name spells out (javac), sometimes another one or none
			let inner = if r.chance(3, 4) { js(*r.pick(&["a/A$In", "a/A$In$Deep", "a/A$1", "a/A$1Local", "é/Ü$Ü", "a$b/C", "a$b/C$D", "D$9"])) } else { p.any(r) };
			let inner_name = match r.below(6) { 0 => None, 1 => Some(js(*r.pick(&["In", "Other", "", "1Local"]))), _ => spelled_simple_name(&inner).or_else(|| Some(js("In"))) };
			InnerClass { inner_class: cn(&inner), outer_class: if r.chance(2, 3) { Some(cn(&p.cls(r))) } else { None }, inner_name, flags: InnerClassFlags::from(r.below(16) as u16) }
		}).collect());
	}
	if r.chance(1, 4) {
		c.enclosing_method = Some(EnclosingMethod { class: cn(&p.any(r)), method: if r.chance(1, 2) {
			Some(MethodNameAndDesc { name: mnm(&js(*r.pick(MNAMES))), desc: md(&p.mdesc(r)) }) } else { None } });
	}
	if r.chance(1, 6) { c.signature = Some(unsafe { duke::tree::class::ClassSignature::from_inner_unchecked(js("Ljava/lang/Object;Lp/q/E<La/A;>;")) }); }
	c.runtime_visible_annotations = p.anns(r);
	c.runtime_invisible_annotations = p.anns(r);
	if r.chance(1, 5) { c.nest_host_class = Some(cn(&p.cls(r))); }
	if r.chance(1, 5) { c.nest_members = Some((0..r.range(1, 2)).map(|_| cn(&p.cls(r))).collect()); }
	if r.chance(1, 6) { c.permitted_subclasses = Some((0..r.range(1, 2)).map(|_| cn(&p.cls(r))).collect()); }
	if !p.clean && r.chance(1, 4) {
		// through the public constructor: components without annotations (annotated ones: `gen_asm`); sometimes next to the field they belong to
		c.record_components = (0..r.range(1, 3)).map(|_| {
			let name = js(if r.chance(1, 6) { *r.pick(ODD_NAMES) } else { *r.pick(FNAMES) });
			let desc = match c.fields.first() { Some(f) if r.chance(1, 2) && name == *f.name.as_inner() => f.descriptor.clone(), _ => fd(&p.fdesc(r)) };
			RecordComponent::new(unsafe { duke::tree::record::RecordName::from_inner_unchecked(name) }, desc)
		}).collect();
	}
	if !p.clean && r.chance(1, 5) { c.module_main_class = Some(cn(&p.any(r))); }
	if !p.clean && r.chance(1, 6) {
		c.module_packages = Some((0..r.below(3)).map(|_| unsafe { duke::tree::module::PackageName::from_inner_unchecked(js(*r.pick(&["a", "p/q", "a/A"]))) }).collect());
	}
	c.attributes = p.attrs(r);
	c
}

// ------------------------------------------------------------------ classes assembled to bytes (c01model) and read by duke:
// what the public API of duke cannot build in every tree — annotated record components, module descriptors

fn g(s: &str) -> gm::Js { gm::js(s) }
struct APool;
impl APool {
	fn cls(&self, r: &mut Rng) -> String { (*r.pick(&["a/A", "a/B", "b/C", "D", "a/A$In", "p/q/E", "é/Ü", "a/En", "java/lang/Runnable", "pkg/Impl"])).to_owned() }
	fn ty(&self, r: &mut Rng) -> String {
		let base = match r.below(5) { 0 => "I".to_owned(), 1 => "D".to_owned(), _ => format!("L{};", self.cls(r)) };
		format!("{}{}", "[".repeat(if r.chance(1, 5) { 1 } else { 0 }), base)
	}
	fn elem(&self, r: &mut Rng, depth: usize) -> gm::GElem {
		match r.below(if depth > 1 { 5 } else { 8 }) {
			0 => gm::GElem::Const(b'I', 7), 1 => gm::GElem::Str(g("a/A")),
			2 | 3 => gm::GElem::Enum(g(&match r.below(8) { 0 => (*r.pick(ODD_ENUM_TYPES)).to_owned(), _ => format!("L{};", r.pick(ENUM_CLASSES)) }),
				g(if r.chance(1, 8) { *r.pick(ODD_NAMES) } else { *r.pick(FNAMES) })),
			4 => gm::GElem::Cls(g(&if r.chance(1, 4) { "V".to_owned() } else { self.ty(r) })),
			5 | 6 => gm::GElem::Anno(self.anno(r, depth + 1)),
			_ => gm::GElem::Arr((0..r.below(3)).map(|_| self.elem(r, depth + 1)).collect()),
		}
	}
	fn anno(&self, r: &mut Rng, depth: usize) -> gm::GAnno {
		gm::GAnno { ty: g(&format!("L{};", if r.chance(1, 2) { "a/Ann".to_owned() } else { self.cls(r) })),
			pairs: (0..r.below(3)).map(|_| (g(*r.pick(MNAMES)), self.elem(r, depth))).collect() }
	}
	fn annos(&self, r: &mut Rng) -> Vec<gm::GAnno> { if r.chance(1, 2) { (0..r.range(1, 2)).map(|_| self.anno(r, 0)).collect() } else { vec![] } }
	fn tannos(&self, r: &mut Rng) -> Vec<gm::GTypeAnno> {
		if r.chance(1, 3) { vec![gm::GTypeAnno { target: gm::GTarget::Field, path: if r.chance(1, 2) { vec![] } else { vec![(0, 0)] }, anno: self.anno(r, 1) }] } else { vec![] }
	}
	fn attrs(&self, r: &mut Rng) -> Vec<gm::GAttr> { if r.chance(1, 3) { vec![(g(*r.pick(&["Custom", "org.x.Extra"])), vec![0, r.below(250) as u8, 7])] } else { vec![] } }
}

/// a record class, a module descriptor or an annotated plain class
fn gen_asm(seed: u64) -> R<ClassFile> {
	let mut rng = Rng::new(seed ^ 0x5eed_a53b);
	let r = &mut rng;
	let p = APool;
	let mut c = gm::GClass { minor: 0, major: 61, ..Default::default() };
	match r.below(5) {
		0 | 1 | 2 => {
			c.access = 0x31; c.name = g(&p.cls(r)); c.super_ = Some(g("java/lang/Record"));
			for _ in 0..r.range(1, 3) {
				let name = if r.chance(1, 8) { *r.pick(ODD_NAMES) } else { *r.pick(FNAMES) };
				let rc = gm::GRecord { name: g(name), desc: g(&p.ty(r)), signature: if r.chance(1, 4) { Some(g("La/A<Lb/C;>;")) } else { None },
					rva: p.annos(r), ria: p.annos(r), rvta: p.tannos(r), rita: p.tannos(r), attrs: p.attrs(r) };
				// the private final field the component belongs to (sometimes missing, sometimes of another type)
				if r.chance(3, 4) && field_name_ok(&js(name)) { c.fields.push(gm::GField { access: 0x12, name: rc.name.clone(), desc: if r.chance(7, 8) { rc.desc.clone() } else { g(&p.ty(r)) }, attrs: p.attrs(r), ..Default::default() }); }
				c.records.push(rc);
			}
			c.rva = p.annos(r);
		}
		3 => {
			c.access = 0x8000; c.name = g("module-info");
			c.module = Some(gm::GModule { name: g("m.mod"), flags: *r.pick(&[0u16, 0x20, 0x1000]), version: if r.chance(1, 2) { Some(g("1.0")) } else { None },
				requires: vec![(g("java.base"), 0x8000, Some(g("17")))],
				exports: (0..r.below(2)).map(|_| (g("a"), 0, vec![g("other.mod")])).collect(),
				opens: (0..r.below(2)).map(|_| (g("p/q"), 0, vec![])).collect(),
				uses: (0..r.below(3)).map(|_| g(&p.cls(r))).collect(),
				provides: (0..r.below(3)).map(|_| (g(&p.cls(r)), (0..r.range(1, 2)).map(|_| g(&p.cls(r))).collect())).collect() });
			if r.chance(2, 3) { c.module_packages = Some((0..r.below(3)).map(|_| g(*r.pick(&["a", "p/q", "b"]))).collect()); }
			if r.chance(2, 3) { c.module_main = Some(g(&p.cls(r))); }
		}
		_ => {
			c.access = 0x21; c.name = g(&p.cls(r)); c.super_ = Some(g("java/lang/Object"));
			c.rva = p.annos(r); c.ria = p.annos(r);
			for _ in 0..r.range(1, 2) {
				c.fields.push(gm::GField { access: 1, name: g(*r.pick(FNAMES)), desc: g(&p.ty(r)), rva: p.annos(r), rvta: p.tannos(r), attrs: p.attrs(r), ..Default::default() });
			}
			c.methods.push(gm::GMethod { access: 0x401, name: g(*r.pick(MNAMES)), desc: g("()V"), annotation_default: if r.chance(1, 2) { Some(p.elem(r, 0)) } else { None },
				rva: p.annos(r), attrs: p.attrs(r), ..Default::default() });
		}
	}
	c.attrs = p.attrs(r);
	let bytes = gm::assemble(&c, &gm::Choices::plain(), r);
	duke::read_class(&mut Cursor::new(bytes)).map_err(|e| format!("{e:#}"))
}
fn hint_sexp_asm(seed: u64) -> Sexp { Sexp::list(vec![Sexp::tag("asm"), Sexp::Atom(seed.to_string())]) }

/// hand-built classes for the witnesses of the findings (stable request lines)
fn fixture(name: &str) -> Option<ClassFile> {
	let p = Pool { bad: false, clean: true };
	let mut c = ClassFile::new(Version::V17, ClassAccess::from(0x21), ocn(&js("x/X")), Some(ocn(&js("java/lang/Object"))), vec![]);
	let bsm = Handle::InvokeStatic(MethodRef { class: cn(&js("java/lang/invoke/LambdaMetafactory")), name: mnm(&js("metafactory")), desc: md(&js("()V")) }, false);
	let mut m = Method::new(MethodAccess::from(9), mnm(&js("m")), md(&js("()V")));
	let mut code = Code { max_stack: Some(1), max_locals: Some(0), ..Code::default() };
	let ins = |i: Instruction| InstructionListEntry { label: None, frame: None, instruction: i };
	match name {
		"indy" => code.instructions.push(ins(Instruction::InvokeDynamic(InvokeDynamic { name: mnm(&js("get")), descriptor: md(&js("(La/A;)La/B;")), handle: bsm, arguments: vec![] }))),
		"condy" => code.instructions.push(ins(Instruction::Ldc(Loadable::Dynamic(ConstantDynamic { name: fnm(&js("k")), descriptor: fd(&js("La/A;")), handle: bsm, arguments: vec![] })))),
		"enum" => c.runtime_visible_annotations = vec![Annotation { annotation_type: fd(&js("La/Ann;")), element_value_pairs: vec![
			ElementValuePair { name: js("value"), value: ElementValue::Enum { type_name: fd(&js("La/En;")), const_name: js("RED") } }] }],
		"enum-array" => c.runtime_visible_annotations = vec![Annotation { annotation_type: fd(&js("La/Ann;")), element_value_pairs: vec![
			ElementValuePair { name: js("value"), value: ElementValue::ArrayType(vec![
				ElementValue::Enum { type_name: fd(&js("La/En;")), const_name: js("RED") },
				ElementValue::Enum { type_name: fd(&js("[La/En;")), const_name: js("RED") },
				ElementValue::Enum { type_name: fd(&js("La/En;")), const_name: js("RED;") }]) }] }],
		"attrs" => c.attributes = vec![Attribute { name: js("Custom"), bytes: vec![1, 2, 3] }],
		"attrs-all" => {
			c.attributes = vec![Attribute { name: js("Custom"), bytes: vec![1, 2, 3] }];
			let mut f = Field::new(FieldAccess::from(1), fnm(&js("f")), fd(&js("I")));
			f.attributes = vec![Attribute { name: js("OnField"), bytes: vec![4] }];
			c.fields.push(f);
			m.attributes = vec![Attribute { name: js("OnMethod"), bytes: vec![] }];
			code.attributes = vec![Attribute { name: js("OnCode"), bytes: vec![5, 6] }];
		}
		"record" => c.record_components = vec![RecordComponent::new(unsafe { duke::tree::record::RecordName::from_inner_unchecked(js("f")) }, fd(&js("La/A;")))],
		"signature" => { let mut f = Field::new(FieldAccess::from(1), fnm(&js("f")), fd(&js("La/A;")));
			f.signature = Some(unsafe { duke::tree::field::FieldSignature::from_inner_unchecked(js("La/A<La/B;>;")) }); c.fields.push(f); }
		"plain" => { c.fields.push(Field::new(FieldAccess::from(1), fnm(&js("f")), fd(&js("La/A;")))); code.instructions.push(ins(Instruction::New(cn(&js("a/A"))))); }
		_ => return None,
	}
	code.instructions.push(ins(Instruction::Return));
	m.code = Some(code);
	c.methods.push(m);
	let _ = p;
	Some(c)
}

fn corpus_dir() -> String { std::env::var("VERIF_CORPUS").unwrap_or_else(|_| "/verif/corpus/classes".to_owned()) }
fn corpus_class(file: &str) -> R<ClassFile> {
	if file.contains('/') || file.contains("..") { return Err("bad corpus file name".into()); }
	let data = std::fs::read(format!("{}/{file}", corpus_dir())).map_err(|e| e.to_string())?;
	duke::read_class(&mut Cursor::new(data)).map_err(|e| e.to_string())
}
fn hint_sexp_gen(seed: u64) -> Sexp { Sexp::list(vec![Sexp::tag("gen"), Sexp::Atom(seed.to_string())]) }
fn class_from_hint(h: &Sexp) -> R<ClassFile> {
	let [k, v] = h.as_list()? else { return Err("hint".into()) };
	match k.as_atom()? {
		"gen" => Ok(gen_class(v.as_atom()?.parse::<u64>().map_err(|e| e.to_string())?)),
		"asm" => gen_asm(v.as_atom()?.parse::<u64>().map_err(|e| e.to_string())?),
		"corpus" => corpus_class(&v.as_string()?),
		"fixture" => fixture(v.as_atom()?).ok_or_else(|| "unknown fixture".to_owned()),
		o => Err(format!("unknown hint {o}")),
	}
}

// ------------------------------------------------------------------ mappings aimed at the names of the classes under test

fn classes_in_desc(d: &str) -> Vec<String> {
	let mut out = Vec::new();
	let mut rest = d;
	while let Some(i) = rest.find('L') {
		let tail = &rest[i + 1..];
		match tail.find(';') { Some(j) if j > 0 => { out.push(tail[..j].to_owned()); rest = &tail[j + 1..]; } _ => break }
	}
	out
}
fn reaches(edges: &[(String, Vec<String>)], from: &str, to: &str, fuel: usize) -> bool {
	if from == to { return true; }
	if fuel == 0 { return true; }
	edges.iter().filter(|(c, _)| c == from).any(|(_, ss)| ss.iter().any(|s| reaches(edges, s, to, fuel - 1)))
}
fn add_edge(edges: &mut Vec<(String, Vec<String>)>, c: &str, s: &str) -> bool {
	if reaches(edges, s, c, 12) { return false; }
	match edges.iter_mut().find(|(x, _)| x == c) {
		Some((_, ss)) => { if !ss.iter().any(|x| x == s) { ss.push(s.to_owned()); } }
		None => edges.push((c.to_owned(), vec![s.to_owned()])),
	}
	true
}

fn gen_mappings(r: &mut Rng, classes: &[Cl], stats: &mut fvh::run::Stats) -> GMap {
	use std::collections::BTreeSet;
	let st = |x: &S| x.to_string();
	let mut names: BTreeSet<String> = BTreeSet::new();
	let mut members: Vec<(String, String, String, bool)> = Vec::new();
	let mut edges: Vec<(String, Vec<String>)> = Vec::new();
	for c in classes {
		for s in c.sup.iter().chain(c.itfs.iter()) { add_edge(&mut edges, &st(&c.name), &st(s)); }
		for x in refs(c) {
			let mut any = |n: &S, names: &mut BTreeSet<String>| { let n = st(n); if n.starts_with('[') { names.extend(classes_in_desc(&n)); } else { names.insert(n); } };
			match &x {
				Ref::Cls(n) | Ref::Any(n) => any(n, &mut names),
				Ref::Desc(d) | Ref::Dyn(d) => names.extend(classes_in_desc(&st(d))),
				Ref::FieldDecl(n, d) => { names.extend(classes_in_desc(&st(d))); members.push((st(&c.name), st(n), st(d), true)); }
				Ref::MethodDecl(n, d) => { names.extend(classes_in_desc(&st(d))); members.push((st(&c.name), st(n), st(d), false)); }
				Ref::FieldRef(f) => { any(&f.cls, &mut names); names.extend(classes_in_desc(&st(&f.desc))); members.push((st(&f.cls), st(&f.name), st(&f.desc), true)); }
				Ref::MethodRef(m) => { any(&m.cls, &mut names); names.extend(classes_in_desc(&st(&m.desc)));
					if !st(&m.cls).starts_with('[') { members.push((st(&m.cls), st(&m.name), st(&m.desc), false)); } }
				Ref::EnumConst(t, k) => { let cs = classes_in_desc(&st(t)); if let Some(o) = cs.first() { members.push((o.clone(), st(k), st(t), true)); } names.extend(cs); }
				Ref::RecordDecl(n, d) => { names.extend(classes_in_desc(&st(d))); members.push((st(&c.name), st(n), st(d), true)); }
			}
		}
	}
	let density = *r.pick(&[0usize, 30, 60, 90]);
	stats.hit(&format!("map-density:{density}"));
	let mut rows: IndexMap<String, (Option<String>, Vec<(String, String, String)>, Vec<(String, String, String)>)> = IndexMap::new();
	let names: Vec<String> = names.into_iter().filter(|n| !n.is_empty()).collect();
	for n in &names {
		if !r.chance(density, 100) { continue; }
		let simple = n.rsplit('/').next().unwrap_or(n).to_owned();
		// a name that is not a class name (from an odd descriptor) is looked up like any other, but never used to build a target name
		let valid = |x: &str| class_of_desc(&js(&format!("L{x};"))).is_some();
		let dst = match if valid(n) { r.below(9) } else { *r.pick(&[0, 1, 9]) } {
			9 => Some("odd/Target".to_owned()),
			8 => { stats.hit("map:target-is-another-source-name"); Some(r.pick(&names).clone()).filter(|t| valid(t)).or_else(|| Some(n.clone())) } // chains and swaps: a/A -> a/B while a/B -> b/C
			0 => Some(n.clone()),                                   // mapped to itself
			1 => None,                                              // no name in the target namespace
			2 => Some(format!("r/{simple}")),                       // other package
			3 => Some(match n.rfind('$') { Some(i) => format!("{}$R{}", &n[..i], &n[i + 1..]), None => format!("{n}R") }),
			4 => Some(format!("deep/er/pkg/{simple}X")),
			5 => Some(simple.clone() + "_"),                        // default package
			6 => Some(format!("same/Target{}", r.below(2))),        // several classes onto one name
			_ => Some(format!("{}Ü", n)),
		};
		rows.insert(n.clone(), (dst, vec![], vec![]));
	}
	members.sort(); members.dedup();
	// a mapping set cannot hold a member whose name is not a name (JVMS 4.2.2; `<init>` / `<clinit>` aside) or whose descriptor
	// is not of the grammar: decided here by the harness' own text checks, so that (nearly) every mapping set can be built
	let before = members.len();
	members.retain(|(_, n, d, is_field)| { let (n, d) = (js(n), js(d));
		if *is_field { field_name_ok(&n) && field_desc_ok(&d) } else { (field_name_ok(&n) && !n.contains('<') && !n.contains('>') || *n == *"<init>" || *n == *"<clinit>") && method_desc_ok(&d) } });
	if members.len() != before { stats.hit("map:member-not-expressible-in-a-mapping-set"); }
	let mut fresh = 0usize;
	for (owner, name, desc, is_field) in &members {
		if !r.chance(density, 100) || (name.starts_with('<') && !r.chance(1, 10)) { continue; }
		let target = format!("{}_{}", name.trim_matches(|c| c == '<' || c == '>'), r.below(3));
		let place = match r.below(6) {
			0 | 1 | 2 => { stats.hit("member:direct"); owner.clone() }
			5 => {
				// inherited from the super type of a super type (the middle one with or without a row of its own, a second
				// super type listed before it half of the time): the search has to recurse, not only look one level up
				fresh += 1;
				let (mid, top) = (format!("mid/M{}", fresh % 3), format!("top/T{}", fresh % 2));
				if r.chance(1, 2) { add_edge(&mut edges, owner, &format!("side/I{}", fresh % 2)); }
				if add_edge(&mut edges, owner, &mid) && add_edge(&mut edges, &mid, &top) {
					stats.hit("member:inherited-two-levels");
					if r.chance(1, 2) && !rows.contains_key(&mid) { rows.insert(mid.clone(), (Some(format!("r/{}", mid.replace('/', "_"))), vec![], vec![])); }
					top
				} else { owner.clone() }
			}
			3 => {
				// inherited from a super type outside the classes under test
				fresh += 1;
				let s = format!("sup/S{}", fresh % 2);
				if add_edge(&mut edges, owner, &s) { stats.hit("member:inherited-outside"); s } else { owner.clone() }
			}
			_ => {
				// inherited from another class that is named in the jar
				let s = r.pick(&names).clone();
				if s != *owner && add_edge(&mut edges, owner, &s) { stats.hit("member:inherited-inside"); s } else { owner.clone() }
			}
		};
		// the owner must be a mapped class for the search to start (sometimes deliberately not)
		for c in [owner.clone(), place.clone()] {
			if !rows.contains_key(&c) && !r.chance(1, 10) { rows.insert(c.clone(), (Some(c.clone()), vec![], vec![])); }
		}
		if let Some(row) = rows.get_mut(&place) {
			let list = if *is_field { &mut row.1 } else { &mut row.2 };
			if !list.iter().any(|(n, d, _)| n == name && d == desc) { list.push((name.clone(), desc.clone(), target)); }
		}
	}
	if r.chance(1, 3) { rows.insert("zz/Unused".to_owned(), (Some("zz/U2".to_owned()), vec![("f".into(), "I".into(), "ff".into())], vec![("m".into(), "()V".into(), "mm".into())])); }
	// the descriptors of the mappings themselves must be well formed, or `remapper_b` cannot be built at all
	for row in rows.values_mut() {
		row.1.retain(|(_, d, _)| well_formed(d));
		row.2.retain(|(_, d, _)| well_formed(d));
	}
	GMap { classes: rows.into_iter().map(|(k, (d, f, m))| (k, d, f, m)).collect(), supers: edges }
}
/// accepted by quill's `map_desc`: after every `L` a non-empty name and a `;`
fn well_formed(d: &str) -> bool {
	let mut it = d.chars();
	while let Some(c) = it.next() {
		if c == 'L' {
			match it.next() { None | Some(';') => return false, _ => {} }
			if !it.by_ref().any(|c| c == ';') { return false; }
		}
	}
	true
}

// ------------------------------------------------------------------ jars

enum EntK { Dir, Other(Vec<u8>), Class(Sexp, ClassFile) }
struct Ent { name: String, kind: EntK }

fn attr_sexp(a: &BasicFileAttributes) -> Sexp { Sexp::str(&format!("{:?}", a)) }
fn jar_sexp(es: &[Ent]) -> (Sexp, Sexp) {
	let a = attr_sexp(&BasicFileAttributes::default());
	let jar = Sexp::list(es.iter().map(|e| Sexp::list(vec![Sexp::str(&e.name), a.clone(), match &e.kind {
		EntK::Dir => Sexp::tag("dir"),
		EntK::Other(d) => Sexp::list(vec![Sexp::tag("other"), Sexp::bytes(d)]),
		EntK::Class(_, c) => Sexp::list(vec![Sexp::tag("class"), class_to_sexp(&project(c))]),
	}])).collect());
	let hints = Sexp::list(es.iter().map(|e| match &e.kind { EntK::Class(h, _) => h.clone(), _ => Sexp::list(vec![]) }).collect());
	(jar, hints)
}
type PJ = ParsedJar<ClassRepr, Vec<u8>>;
/// `Ok(None)`: the request does not describe what the hints produce (skip)
fn jar_from(jar: &Sexp, hints: &Sexp) -> R<Option<(PJ, Vec<Cl>)>> {
	let (es, hs) = (jar.as_list()?, hints.as_list()?);
	if es.len() != hs.len() { return Ok(None); }
	let mut entries = IndexMap::new();
	let mut cls = Vec::new();
	for (e, h) in es.iter().zip(hs) {
		let [n, a, c] = e.as_list()? else { return Err("entry".into()) };
		if *a != attr_sexp(&BasicFileAttributes::default()) { return Ok(None); }
		let content = match c {
			Sexp::Atom(d) if d == "dir" => JarEntryEnum::Dir,
			Sexp::List(v) if v.len() == 2 && v[0] == Sexp::tag("other") => JarEntryEnum::Other(v[1].as_bytes()?),
			Sexp::List(v) if v.len() == 2 && v[0] == Sexp::tag("class") => {
				let Ok(class) = class_from_hint(h) else { return Ok(None) };
				let m = project(&class);
				if class_to_sexp(&m) != v[1] { return Ok(None); }
				cls.push(m);
				JarEntryEnum::Class(ClassRepr::Parsed { class })
			}
			_ => return Err("content".into()),
		};
		entries.insert(n.as_string()?, ParsedJarEntry { attr: BasicFileAttributes::default(), content });
	}
	Ok(Some((ParsedJar { entries }, cls)))
}
fn result_jar_sexp(j: &PJ) -> R<Sexp> {
	let mut out = Vec::new();
	for (n, e) in &j.entries {
		out.push(Sexp::list(vec![Sexp::str(n), attr_sexp(&e.attr), match &e.content {
			JarEntryEnum::Dir => Sexp::tag("dir"),
			JarEntryEnum::Other(d) => Sexp::list(vec![Sexp::tag("other"), Sexp::bytes(d)]),
			JarEntryEnum::Class(c) => Sexp::list(vec![Sexp::tag("class"), class_to_sexp(&project(&c.clone().read().map_err(|e| e.to_string())?))]),
		}]));
	}
	Ok(Sexp::list(out))
}
/// what `oracle-reopen` looks at per entry: the name, and either every fact of the class or the bytes of the file
type Seen = Vec<(String, Option<Sexp>, Option<Vec<u8>>)>;
/// a jar written by `to_mem` and opened again through dukebox's zip reader; the error names the stage that failed
fn reopen(j: PJ) -> R<Seen> {
	let mem = j.to_mem().map_err(|e| format!("write: {e}"))?;
	let mut z = mem.open().map_err(|e| format!("open: {e}"))?;
	let mut out = Vec::new();
	for k in z.entry_keys() {
		let e = z.by_entry_key(k).map_err(|e| format!("entry: {e}"))?;
		let name = e.name().to_owned();
		match e.to_jar_entry_enum().map_err(|e| format!("content: {e}"))? {
			JarEntryEnum::Dir => out.push((name, None, None)),
			JarEntryEnum::Other(d) => out.push((name, None, Some(d.get_data_owned()))),
			JarEntryEnum::Class(c) => out.push((name, Some(facts(&normal(c.read().map_err(|e| format!("reread: {e}"))?)).map_err(|e| format!("facts: {e}"))?), None)),
		}
	}
	Ok(out)
}
/// what must come back: same entry names in the same order, directories stay directories, every other file keeps its bytes
/// (the empty file included), every class keeps every fact (all references and the whole shape, `normal`)
fn expected_reopen(j: &PJ) -> R<Seen> {
	let mut out = Vec::new();
	for (n, e) in &j.entries {
		out.push(match &e.content {
			JarEntryEnum::Dir => (if n.ends_with('/') { n.clone() } else { format!("{n}/") }, None, None),
			JarEntryEnum::Other(d) => (n.clone(), None, Some(d.clone())),
			JarEntryEnum::Class(c) => (n.clone(), Some(facts(&normal(c.clone().read().map_err(|e| e.to_string())?))?), None),
		});
	}
	Ok(out)
}
fn clone_jar(j: &PJ) -> PJ {
	ParsedJar { entries: j.entries.iter().map(|(n, e)| (n.clone(), ParsedJarEntry { attr: e.attr, content: match &e.content {
		JarEntryEnum::Dir => JarEntryEnum::Dir, JarEntryEnum::Other(d) => JarEntryEnum::Other(d.clone()), JarEntryEnum::Class(c) => JarEntryEnum::Class(c.clone()) } })).collect() }
}
/// structural half of the domain of `oracle-reopen` (mirror of `reopenNamesOk`, recomputed from the jar on both sides): class
/// entries carry a `.class` name, nothing else does, directories and only they end in `/`, no empty name — or the zip reader
/// classifies an entry differently. `kind`: 0 directory, 1 other file, 2 class
fn reopen_names_ok(names: &[String], kinds: &[u8]) -> bool {
	names.iter().zip(kinds).all(|(n, k)| !n.is_empty() && (*k == 2) == n.ends_with(".class") && (*k == 0) == n.ends_with('/'))
}
/// the other half, shipped as the flag of the request: every class of the jar is one that duke must be able to write and
/// read back unchanged. Corpus classes (javac output), assembled classes and fixtures are such classes by construction
/// (verified once on the unchanged tree: `C07_PROBE=20000 c07 gen`); for a generated class the generator's own
/// well-formedness decides (`gen_wf`). The class writer is never asked (DESIGN 11.1c (ii), audit H2): a writer that rejects
/// or mangles one of these classes is a failing input of `oracle-reopen`, not a smaller domain
fn classes_writable(hints: &[Sexp], cls: &[Cl]) -> bool {
	let mut it = cls.iter();
	hints.iter().filter(|h| h.as_list().map_or(false, |l| !l.is_empty())).all(|h| {
		let Some(c) = it.next() else { return false };
		match h.as_list().ok().and_then(|l| l.first()).and_then(|k| k.as_atom().ok()) {
			Some("corpus" | "asm" | "fixture") => true,
			Some("gen") => gen_wf(c),
			_ => false,
		}
	})
}

// ------------------------------------------------------------------ what a duke write / read round trip keeps: every fact

/// every fact of a class (C01's canonical description, label ids read as the index of the instruction that carries them)
fn facts(c: &ClassFile) -> R<Sexp> { fvh::c01facts::class(c, true) }

fn probe(n: u64) {
	let mut bad = BTreeMap::new();
	let mut all: Vec<(String, ClassFile, bool)> = Vec::new();
	for f in corpus_files(Tier::Thorough) { if let Ok(c) = corpus_class(&f) { all.push((f, c, true)); } }
	for f in FIXTURES { if let Some(c) = fixture(f) { all.push((f.to_string(), c, true)); } }
	for seed in 0..n { if let Ok(c) = gen_asm(seed) { all.push((format!("asm{seed}"), c, true)); } }
	for seed in 0..n { let c = gen_class(seed); let w = gen_wf(&project(&c)); all.push((format!("gen{seed}"), c, w)); }
	for (seed, c, spec) in all {
		let mut bytes = Vec::new();
		let actual = match duke::write_class(&mut bytes, &c) {
			Err(e) => format!("write: {e:#}"),
			Ok(()) => match duke::read_class(&mut Cursor::new(bytes)) {
				Err(e) => format!("read: {e:#}"),
				Ok(c2) => match (facts(&normal(c.clone())), facts(&normal(c2))) { (Ok(a), Ok(b)) => if a == b { "ok".to_owned() } else {
					let (a, b) = (a.to_string(), b.to_string());
					let i = a.bytes().zip(b.bytes()).position(|(x, y)| x != y).unwrap_or(0);
					format!("differs: {} | {}", &a[i.saturating_sub(60)..(i + 40).min(a.len())], &b[i.saturating_sub(60)..(i + 40).min(b.len())]) },
					(a, b) => format!("facts: {:?} {:?}", a.err(), b.err()) },
			},
		};
		let key = format!("spec={spec} actual={}", if actual == "ok" { "ok" } else { "no" });
		let e = bad.entry(key).or_insert((0u64, Vec::new()));
		e.0 += 1;
		if (spec != (actual == "ok")) && e.1.len() < 40 { let m = project(&c); e.1.push(format!("{seed}: {actual} {:?}", refs(&m).into_iter().find(|r| !gen_wf_ref(r)))); }
	}
	for (k, (n, v)) in bad { eprintln!("{k}: {n}"); for x in v { eprintln!("   {x}"); } }
}
/// JVMS 4.2.1 binary class name in internal form (text checks of the harness, not duke's parser)
fn class_name_ok(s: &JavaStr) -> bool { !s.starts_with('[') && s.split('/').all(field_name_ok) }
/// JVMS 4.3.2 field descriptor: the rest after one field type
fn field_type(d: &str) -> Option<&str> {
	let t = d.trim_start_matches('[');
	if d.len() - t.len() > 255 { return None; }
	match t.chars().next()? {
		'B' | 'C' | 'D' | 'F' | 'I' | 'J' | 'S' | 'Z' => Some(&t[1..]),
		'L' => { let i = t.find(';')?; if class_name_ok(&js(&t[1..i])) { Some(&t[i + 1..]) } else { None } }
		_ => None,
	}
}
fn field_desc_ok(d: &JavaStr) -> bool { d.as_str().ok().and_then(field_type) == Some("") }
/// JVMS 4.3.3 method descriptor
fn method_desc_ok(d: &JavaStr) -> bool {
	let Some(mut rest) = d.as_str().ok().and_then(|d| d.strip_prefix('(')) else { return false };
	loop {
		if let Some(r) = rest.strip_prefix(')') { return r == "V" || field_type(r) == Some(""); }
		match field_type(rest) { Some(r) => rest = r, None => return false }
	}
}
fn any_name_ok(n: &JavaStr) -> bool { if is_array(n) { field_desc_ok(n) } else { class_name_ok(n) } }
/// the generator's own well-formedness: a class of `gen_class` that duke's writer must accept and that must read back as the
/// same facts — every name / descriptor position holds a name / descriptor of its JVMS grammar, every method body has an
/// instruction. Decided on the description in the request alone (DESIGN 11.1c (ii)), never by running the writer.
fn gen_wf(m: &Cl) -> bool {
	refs(m).iter().all(gen_wf_ref) && m.methods.iter().all(|x| x.code.as_ref().map_or(true, |c| !c.insns.is_empty()))
}
fn gen_wf_ref(r: &Ref) -> bool {
	let mref = |r: &MRef, field: bool| any_name_ok(&r.cls) && if field { field_desc_ok(&r.desc) } else { method_desc_ok(&r.desc) };
	match r {
		Ref::Cls(n) => class_name_ok(n),
		Ref::Any(n) => any_name_ok(n),
		Ref::Desc(d) | Ref::Dyn(d) => if d.starts_with('(') { method_desc_ok(d) } else { **d == *"V" || field_desc_ok(d) },
		Ref::FieldDecl(n, d) => field_name_ok(n) && field_desc_ok(d),
		Ref::MethodDecl(_, d) => method_desc_ok(d),
		Ref::FieldRef(f) => mref(f, true),
		Ref::MethodRef(x) => mref(x, false),
		// plain strings of the constant pool as far as the class file format is concerned: any text must survive
		Ref::EnumConst(..) => true,
		Ref::RecordDecl(_, d) => field_desc_ok(d),
	}
}
/// the one thing a write / read of a class does not keep (both sides of a comparison are brought to this form): an empty local
/// variable table is no table (`Some([])` is written as no attribute and read back as `None`; it carries no fact)
fn normal(mut c: ClassFile) -> ClassFile {
	for m in &mut c.methods { if let Some(code) = &mut m.code {
		if code.local_variables.as_ref().map_or(false, |v| v.is_empty()) { code.local_variables = None; }
	} }
	c
}

// ------------------------------------------------------------------ the remapper the REQUEST describes (reference lookup)
// Harness-own reading of the mappings and super-type rows of a request (C06's specification, never quill's remapper): a class
// takes the target name of the last row that names it and has a target name, any other name is unchanged; a descriptor of
// the JVMS grammar has every class name in it renamed that way; a member is renamed by the nearest type that declares it
// along the pre-order of the super types (declaration order) starting at the owner, its descriptor rewritten; a member
// nobody declares keeps its name.

struct SRow { src: S, dst: Option<S>, fields: Vec<(S, S, Option<S>)>, methods: Vec<(S, S, Option<S>)> }
struct Spec { rows: Vec<SRow>, supers: Vec<(S, Vec<S>)> }
impl Spec {
	fn from(maps: &Sexp, sup: &Sexp) -> R<Spec> {
		let opt = |v: &Sexp| -> R<Option<S>> { Ok(match v.as_opt()? { None => None, Some(x) => Some(x.as_jstring()?) }) };
		let [_, _, classes] = maps.as_list()? else { return Err("maps".into()) };
		let mut rows = Vec::new();
		for c in classes.as_list()? {
			let [_, names, _, fs, ms] = c.as_list()? else { return Err("class row".into()) };
			let [n0, n1] = names.as_list()? else { return Err("names".into()) };
			let Some(src) = opt(n0)? else { continue };
			let members = |l: &Sexp| -> R<Vec<(S, S, Option<S>)>> {
				let mut v = Vec::new();
				for m in l.as_list()? {
					let m = m.as_list()?;
					let (Some(desc), Some(names)) = (m.get(2), m.get(3)) else { return Err("member row".into()) };
					let [m0, m1] = names.as_list()? else { return Err("member names".into()) };
					if let Some(n) = opt(m0)? { v.push((n, desc.as_jstring()?, opt(m1)?)); }
				}
				Ok(v)
			};
			rows.push(SRow { src, dst: opt(n1)?, fields: members(fs)?, methods: members(ms)? });
		}
		let mut supers = Vec::new();
		for e in sup.as_list()? {
			let [c, ss] = e.as_list()? else { return Err("supers row".into()) };
			supers.push((c.as_jstring()?, ss.as_list()?.iter().map(|x| x.as_jstring()).collect::<R<Vec<S>>>()?));
		}
		Ok(Spec { rows, supers })
	}
	fn class(&self, c: &JavaStr) -> S {
		self.rows.iter().rev().find_map(|r| if *r.src == *c { r.dst.clone() } else { None }).unwrap_or_else(|| c.to_owned())
	}
	/// only for descriptors of the grammar (`field_desc_ok` / `method_desc_ok` / `V`): every `L name ;` renamed
	fn desc(&self, d: &JavaStr) -> S {
		let text = d.as_str().unwrap_or("");
		let (mut out, mut rest) = (String::new(), text);
		while let Some(c) = rest.chars().next() {
			if c == 'L' { if let Some(i) = rest.find(';') { out.push('L'); out.push_str(&self.class(&js(&rest[1..i])).to_string()); out.push(';'); rest = &rest[i + 1..]; continue; } }
			out.push(c); rest = &rest[c.len_utf8()..];
		}
		js(&out)
	}
	fn all_member_descs_ok(&self) -> bool {
		self.rows.iter().all(|r| r.fields.iter().all(|f| field_desc_ok(&f.1)) && r.methods.iter().all(|m| method_desc_ok(&m.1)))
	}
	fn pre_order(&self, fuel: usize, o: &JavaStr, out: &mut Vec<S>) -> Option<()> {
		if fuel == 0 { return None; }
		out.push(o.to_owned());
		if let Some((_, ss)) = self.supers.iter().find(|(k, _)| **k == *o) { for s in ss { self.pre_order(fuel - 1, s, out)?; } }
		Some(())
	}
	fn declares(&self, field: bool, c: &JavaStr, n: &JavaStr, d: &JavaStr) -> Option<(S, S)> {
		let row = self.rows.iter().rev().find(|r| *r.src == *c && r.dst.is_some())?;
		(if field { &row.fields } else { &row.methods }).iter().rev().find_map(|(mn, md, mt)| match mt {
			Some(t) if **mn == *n && **md == *d => Some((t.clone(), self.desc(md))),
			_ => None,
		})
	}
	/// `None`: the super types are cyclic (no pre-order)
	fn member(&self, field: bool, o: &JavaStr, n: &JavaStr, d: &JavaStr) -> Option<(S, S)> {
		let mut order = Vec::new();
		self.pre_order(self.supers.len() + 1, o, &mut order)?;
		Some(order.iter().find_map(|c| self.declares(field, c, n, d)).unwrap_or_else(|| (n.to_owned(), self.desc(d))))
	}
}
/// `oracle-table-spec`: every recorded answer of the remapper whose question is inside the grammar is the answer of the reference
fn table_spec(spec: &Spec, t: &Sexp) -> R<Ans> {
	let [cs, ds, fs, ms] = t.as_list()? else { return Err("table".into()) };
	let o1 = |v: &Sexp| -> R<Option<S>> { Ok(match v.as_opt()? { None => None, Some(x) => Some(x.as_jstring()?) }) };
	let o2 = |v: &Sexp| -> R<Option<(S, S)>> { Ok(match v.as_opt()? { None => None, Some(x) => { let [n, d] = x.as_list()? else { return Err("nd".into()) }; Some((n.as_jstring()?, d.as_jstring()?)) } }) };
	for e in cs.as_list()? {
		let [k, v] = e.as_list()? else { return Err("row".into()) };
		if o1(v)? != Some(spec.class(&k.as_jstring()?)) { return Ok(Ans::fail("table-class")); }
	}
	for e in ds.as_list()? {
		let [k, v] = e.as_list()? else { return Err("row".into()) };
		let k = k.as_jstring()?;
		if !(field_desc_ok(&k) || method_desc_ok(&k) || *k == *"V") { continue; }
		if o1(v)? != Some(spec.desc(&k)) { return Ok(Ans::fail("table-desc")); }
	}
	if !spec.all_member_descs_ok() { return Ok(Ans::pass()); }
	for (tab, is_f) in [(fs, true), (ms, false)] {
		for e in tab.as_list()? {
			let [k, v] = e.as_list()? else { return Err("row".into()) };
			let [o, n, d] = k.as_list()? else { return Err("key".into()) };
			let (o, n, d) = (o.as_jstring()?, n.as_jstring()?, d.as_jstring()?);
			if !(if is_f { field_desc_ok(&d) } else { method_desc_ok(&d) }) { continue; }
			let Some(want) = spec.member(is_f, &o, &n, &d) else { return Ok(Ans::out_of_domain()) };
			if o2(v)? != Some(want) { return Ok(Ans::fail(if is_f { "table-field" } else { "table-method" })); }
		}
	}
	Ok(Ans::pass())
}

// ------------------------------------------------------------------ generation of request lines

macro_rules! build_remapper {
	($m:ident, $prov:ident, $b:ident, $maps:expr, $sup:expr, $fail:expr) => {
		let $m: M<2> = match mapcodec::from_sexp($maps) { Ok(m) => m, Err(_) => $fail };
		let $prov = match supers_from($sup) { Ok(p) => p, Err(_) => $fail };
		let (Ok(n0), Ok(n1)) = (Namespace::<2>::new(0), Namespace::<2>::new(1)) else { $fail };
		let $b = match $m.remapper_b(n0, n1, &$prov) { Ok(b) => b, Err(_) => $fail };
	};
}

fn emit_class_ops(r: &mut Rng, out: &mut Out, class: &ClassFile, hint: &Sexp, with_refs: bool) {
	let m = project(class);
	let g = gen_mappings(r, std::slice::from_ref(&m), out.stats);
	let (maps, sup) = (g.mappings_sexp(), g.supers_sexp());
	build_remapper!(mm, prov, b, &maps, &sup, { out.stats.hit("unbuildable-remapper"); return });
	let q = Rec::new(&b);
	let mapped = ask_class(&q, &m);
	out.stats.hit(if mapped.is_some() { "answers:all-ok" } else { "answers:some-err" });
	let rs = refs(&m);
	out.stats.add("refs", rs.len() as u64);
	// what the repaired positions look like in this case
	for (x, y) in rs.iter().zip(mapped.iter().flatten()) {
		match (x, y) {
			(Ref::EnumConst(t, c), Ref::EnumConst(_, c2)) => out.stats.hit(
				if c != c2 { "enum-const:renamed" } else if class_of_desc(t).is_none() { "enum-const:no-class-in-descriptor" }
				else if !field_name_ok(c) { "enum-const:not-a-field-name" } else { "enum-const:not-renamed" }),
			(Ref::RecordDecl(n, _), Ref::RecordDecl(n2, _)) => out.stats.hit(
				if n != n2 { "record-component:renamed" } else if !field_name_ok(n) { "record-component:not-a-field-name" } else { "record-component:not-renamed" }),
			_ => {}
		}
	}
	if let (Some(ics), true) = (&m.ics, mapped.is_some()) {
		for i in ics {
			let new_inner = if is_array(&i.inner) { q.map_desc(&i.inner) } else { q.map_class(&i.inner) };
			let (Some(n), Some(new_inner)) = (&i.name, new_inner) else { out.stats.hit("inner-name:none"); continue };
			out.stats.hit(if spelled_simple_name(&i.inner).as_ref() != Some(n) { "inner-name:not-spelled-by-class-name" }
				else if spelled_simple_name(&new_inner).is_none() { "inner-name:new-name-without-dollar" }
				else if expected_inner_name(&i.inner, &new_inner, &i.name).as_ref() != Some(n) { "inner-name:renamed" } else { "inner-name:same" });
		}
	}
	if !m.rcs.is_empty() { out.stats.hit(if m.rcs.iter().any(|r| !(r.rva.is_empty() && r.ria.is_empty() && r.rvta.is_empty() && r.rita.is_empty())) { "class:record-annotated-components" } else { "class:record" }); }
	if let Some(mo) = &m.module { out.stats.hit(if mo.uses.is_empty() && mo.provides.is_empty() { "class:module-without-services" } else { "class:module-uses-provides" }); }
	if m.mmc.is_some() { out.stats.hit("class:module-main-class"); }
	if m.mpk.is_some() { out.stats.hit("class:module-packages"); }
	if !m.attrs.is_empty() { out.stats.hit("unknown-attribute:class"); }
	if m.fields.iter().any(|f| !f.attrs.is_empty()) { out.stats.hit("unknown-attribute:field"); }
	if m.methods.iter().any(|x| !x.attrs.is_empty()) { out.stats.hit("unknown-attribute:method"); }
	if m.methods.iter().any(|x| x.code.as_ref().map_or(false, |c| !c.attrs.is_empty())) { out.stats.hit("unknown-attribute:code"); }
	if m.rcs.iter().any(|x| !x.attrs.is_empty()) { out.stats.hit("unknown-attribute:record-component"); }
	let cs = class_to_sexp(&m);
	let aux = Sexp::list(vec![sup, hint.clone()]);
	let t = q.t.borrow().to_sexp();
	out.op("remap-class", &[cs.clone(), maps.clone(), aux.clone(), t.clone()]);
	out.op("oracle-remap-refs", &[cs.clone(), maps.clone(), aux.clone(), t.clone()]);
	if m.ics.is_some() { out.op("oracle-inner-names", &[cs.clone(), maps.clone(), aux.clone(), t.clone()]); }
	out.op("oracle-remap-shape", &[cs.clone(), maps.clone(), aux.clone(), t.clone()]);
	out.op("oracle-table-spec", &[Sexp::list(vec![]), maps, aux, t]);
	if with_refs { out.op("refs", &[cs, hint.clone()]); }
}

fn corpus_files(tier: Tier) -> Vec<String> {
	let mut v: Vec<String> = std::fs::read_dir(corpus_dir()).map(|d| d.filter_map(|e| e.ok()).map(|e| e.file_name().to_string_lossy().into_owned())
		.filter(|n| n.ends_with(".class")).collect()).unwrap_or_default();
	v.sort();
	if tier == Tier::Quick { v.retain(|n| n != "BigJumps.class"); }
	v
}
fn corpus_hint(f: &str) -> Sexp { Sexp::list(vec![Sexp::tag("corpus"), Sexp::str(f)]) }
const FIXTURES: &[&str] = &["indy", "condy", "enum", "enum-array", "attrs", "attrs-all", "record", "signature", "plain"];

/// a corpus or assembled class the reader rejects is not dropped silently: `oracle-hint-reads` fails on it (these classes are
/// valid class files by construction, the model side answers `pass` without looking)
fn emit_rejected(out: &mut Out, hint: &Sexp) { out.stats.hit("class:rejected-by-reader"); out.op("oracle-hint-reads", &[hint.clone()]); }

fn gen_jar(r: &mut Rng, files: &[String], rejected: &mut Vec<Sexp>) -> Vec<Ent> {
	let mut es = Vec::new();
	for _ in 0..r.range(1, 4) {
		match r.below(9) {
			0 => es.push(Ent { name: (*r.pick(&["a/", "a/b/", "META-INF/"])).to_owned(), kind: EntK::Dir }),
			// "empty" is a value like any other (DESIGN 11.1c (vi)): a third of the plain files have no content at all (marker files such as `.keep`)
			1 => es.push(Ent { name: (*r.pick(&["META-INF/MANIFEST.MF", "x.txt", "a/A.clas", "a/A.class.txt", "assets/é.png", "assets/demo/.keep", "empty"])).to_owned(),
				kind: EntK::Other(if r.chance(1, 3) { vec![] } else { vec![1, 2, r.below(250) as u8] }) }),
			2 => es.push(Ent { name: (*r.pick(&["a/A.class", "weird.class", ".class"])).to_owned(), kind: EntK::Other(vec![0xca, 0xfe]) }),   // not a class as far as the jar is concerned
			3 if !files.is_empty() => {
				let f = r.pick(files).clone();
				match corpus_class(&f) { Ok(c) => es.push(Ent { name: format!("{}.class", c.name.as_inner()), kind: EntK::Class(corpus_hint(&f), c) }), Err(_) => rejected.push(corpus_hint(&f)) }
			}
			7 => {
				let seed = r.next() % 1_000_000;
				match gen_asm(seed) { Ok(c) => es.push(Ent { name: format!("{}.class", c.name.as_inner()), kind: EntK::Class(hint_sexp_asm(seed), c) }), Err(_) => rejected.push(hint_sexp_asm(seed)) }
			}
			k => {
				let seed = r.next() % 1_000_000;
				let c = gen_class(seed);
				let name = if k == 4 { "other/Name.class".to_owned() } else if k == 5 { "noext".to_owned() } else { format!("{}.class", c.name.as_inner()) };
				es.push(Ent { name, kind: EntK::Class(hint_sexp_gen(seed), c) });
			}
		}
	}
	// IndexMap semantics: a repeated name replaces the earlier entry in place; keep the description free of repeats
	let mut seen = std::collections::HashSet::new();
	es.retain(|e| seen.insert(e.name.clone()));
	es
}

fn emit_jar_ops(r: &mut Rng, out: &mut Out, es: &[Ent]) {
	let cls: Vec<Cl> = es.iter().filter_map(|e| match &e.kind { EntK::Class(_, c) => Some(project(c)), _ => None }).collect();
	let mut g = gen_mappings(r, &cls, out.stats);
	// entry names that are not the name of a class inside also get renamed sometimes
	for e in es { if let Some(stem) = e.name.strip_suffix(".class") { if r.chance(1, 3) && !g.classes.iter().any(|c| c.0 == stem) && !stem.is_empty() {
		g.classes.push((stem.to_owned(), Some(format!("moved/{}", stem.replace('/', "_"))), vec![], vec![])); } } }
	// a nested class in the jar without a mapping of its own while its outer class is renamed: it keeps its name, and so does its entry
	for e in es {
		if let Some((outer, _)) = e.name.strip_suffix(".class").and_then(|stem| stem.rsplit_once('$')) {
			if !outer.is_empty() && r.chance(1, 3) {
				let stem = e.name.strip_suffix(".class").unwrap_or("");
				g.classes.retain(|c| c.0 != stem);
				for c in g.classes.iter_mut() { c.2.retain(|f| !f.1.contains(&format!("L{stem};"))); c.3.retain(|m| !m.1.contains(&format!("L{stem};"))); }
				match g.classes.iter_mut().find(|c| c.0 == outer) { Some(c) => c.1 = Some(format!("ren/Outer{}", r.below(2))), None => g.classes.push((outer.to_owned(), Some("ren/Outer".to_owned()), vec![], vec![])) }
				out.stats.hit("jar:nested-entry-unmapped-outer-renamed");
			}
		}
	}
	// two entries onto one target name (the later one replaces the earlier one)
	let stems: Vec<String> = es.iter().filter_map(|e| e.name.strip_suffix(".class").filter(|s| !s.is_empty()).map(|s| s.to_owned())).collect();
	if stems.len() >= 2 && r.chance(1, 5) {
		for st in &stems[..2] {
			match g.classes.iter_mut().find(|c| c.0 == *st) { Some(c) => c.1 = Some("col/Same".to_owned()), None => g.classes.push((st.clone(), Some("col/Same".to_owned()), vec![], vec![])) }
		}
	}
	let (maps, sup) = (g.mappings_sexp(), g.supers_sexp());
	build_remapper!(mm, prov, b, &maps, &sup, { out.stats.hit("unbuildable-remapper"); return });
	let q = Rec::new(&b);
	for c in &cls { ask_class(&q, c); }
	let mapped: Vec<Option<S>> = es.iter().map(|e| ask_entry_name(&q, &js(&e.name))).collect();
	let distinct = { let mut s = std::collections::HashSet::new(); mapped.iter().all(|m| s.insert(m.clone())) };
	out.stats.hit(if distinct { "jar:distinct-target-names" } else { "jar:colliding-target-names" });
	out.stats.hit(&format!("jar:entries:{}", es.len()));
	let (jar, hints) = jar_sexp(es);
	let aux = Sexp::list(vec![sup, hints.clone()]);
	let t = q.t.borrow().to_sexp();
	out.op("remap-jar", &[jar.clone(), maps.clone(), aux.clone(), t.clone()]);
	out.op("oracle-entries", &[jar.clone(), maps.clone(), aux.clone(), t.clone()]);
	let w = classes_writable(hints.as_list().unwrap_or(&[]), &cls);
	let kinds: Vec<u8> = es.iter().map(|e| match e.kind { EntK::Dir => 0, EntK::Other(_) => 1, EntK::Class(..) => 2 }).collect();
	let names: Vec<String> = es.iter().map(|e| e.name.clone()).collect();
	out.stats.hit(if !w { "jar:class-outside-writer-domain" } else if !reopen_names_ok(&names, &kinds) { "jar:names-do-not-reopen" } else { "jar:writable" });
	out.op("oracle-reopen", &[jar, maps.clone(), aux.clone(), t.clone(), Sexp::bool(w)]);
	out.op("oracle-table-spec", &[Sexp::list(vec![]), maps, aux, t]);
}

/// request lines replaying the findings (full-strength oracles, no domain): `C07_WITNESS=open c07 gen` prints the open
/// ones (corpus/c07/witnesses.txt), `C07_WITNESS=regress` the fixed ones (corpus/regress/C07.txt, expected to pass)
fn witnesses(out: &mut Out, regress: bool) {
	let fx = |n: &str| (fixture(n), Sexp::list(vec![Sexp::tag("fixture"), Sexp::tag(n)]));
	let co = |f: &str| (corpus_class(f).ok(), corpus_hint(f));
	let cls = |a: &str, b: &str| (a.to_owned(), Some(b.to_owned()), vec![], vec![]);
	let cases: Vec<(&str, (Option<ClassFile>, Sexp), GMap)> = if regress { vec![
		("oracle-full-refs", fx("indy"), GMap { classes: vec![cls("a/A", "r/A"), cls("a/B", "r/B")], supers: vec![] }),
		("oracle-full-refs", fx("condy"), GMap { classes: vec![cls("a/A", "r/A")], supers: vec![] }),
		("oracle-full-refs", co("Lambdas.class"), GMap { classes: vec![cls("Lambdas$Shape", "q/Sh")], supers: vec![] }),
		// repaired on the branch c07fix (enum constants, record components, unknown attributes, module data)
		("oracle-full-refs", fx("enum"), GMap { classes: vec![("a/En".into(), Some("r/En".into()), vec![("RED".into(), "La/En;".into(), "GREEN".into())], vec![])], supers: vec![] }),
		("oracle-full-refs", fx("enum-array"), GMap { classes: vec![("a/En".into(), Some("r/En".into()), vec![("RED".into(), "La/En;".into(), "GREEN".into())], vec![])], supers: vec![] }),
		("oracle-full-refs", co("Annotated.class"), GMap { classes: vec![("java/lang/annotation/RetentionPolicy".into(), Some("q/Keep".into()),
			vec![("SOURCE".into(), "Ljava/lang/annotation/RetentionPolicy;".into(), "SRC".into())], vec![])], supers: vec![] }),
		("oracle-full-refs", co("Ann.class"), GMap { classes: vec![("java/lang/annotation/ElementType".into(), Some("java/lang/annotation/ElementType".into()),
			vec![("FIELD".into(), "Ljava/lang/annotation/ElementType;".into(), "F".into()), ("TYPE_USE".into(), "Ljava/lang/annotation/ElementType;".into(), "U".into())], vec![])], supers: vec![] }),
		("oracle-full-refs", fx("record"), GMap { classes: vec![("x/X".into(), Some("r/X".into()), vec![("f".into(), "La/A;".into(), "renamed".into())], vec![]), cls("a/A", "r/A")], supers: vec![] }),
		("oracle-full-shape", fx("record"), GMap::default()),
		("oracle-full-shape", fx("attrs"), GMap::default()),
		("oracle-full-shape", fx("attrs-all"), GMap::default()),
		("oracle-full-shape", co("module-info.class"), GMap::default()),
		("oracle-full-refs", co("module-info.class"), GMap { classes: vec![cls("pkg/Impl", "q/Impl2"), cls("java/lang/Runnable", "q/Run")], supers: vec![] }),
		("oracle-full-shape", co("Point.class"), GMap::default()),
		("oracle-full-refs", co("Point.class"), GMap { classes: vec![("Point".into(), Some("q/P".into()), vec![("y".into(), "D".into(), "why".into())], vec![]), cls("Ann", "q/Ann")], supers: vec![] }),
		// inner names
		("oracle-full-names", co("Nested$Inner.class"), GMap { classes: vec![cls("Nested$Inner", "Nested$Renamed")], supers: vec![] }),
		("oracle-inner-names", co("Nested$Inner.class"), GMap { classes: vec![cls("Nested$Inner", "q/Other$Renamed"), cls("Nested$Inner$Deep", "q/Other$Renamed$Deeper")], supers: vec![] }),
		("oracle-inner-names", co("Nested$1Local.class"), GMap { classes: vec![cls("Nested$1Local", "Nested$2Moved")], supers: vec![] }),
		("oracle-inner-names", co("Nested.class"), GMap { classes: vec![cls("Nested$1Local", "Nested$2Moved"), cls("Nested$StaticInner", "q/Flat"), cls("Nested$Callback", "Nested$Cb")], supers: vec![] }),
	] } else { vec![
		("oracle-full-names", fx("signature"), GMap { classes: vec![cls("a/A", "r/A")], supers: vec![] }),
		("oracle-full-names", co("Generics.class"), GMap { classes: vec![cls("Generics", "q/G")], supers: vec![] }),
		("oracle-full-names", co("Annotated.class"), GMap { classes: vec![("Ann".into(), Some("Ann".into()), vec![], vec![("name".into(), "()Ljava/lang/String;".into(), "label".into())])], supers: vec![] }),
	] };
	for (op, (class, hint), g) in cases {
		let Some(class) = class else { continue };
		let m = project(&class);
		let (maps, sup) = (g.mappings_sexp(), g.supers_sexp());
		build_remapper!(mm, prov, b, &maps, &sup, continue);
		let q = Rec::new(&b);
		ask_class(&q, &m);
		out.op(op, &[class_to_sexp(&m), maps, Sexp::list(vec![sup, hint]), q.t.borrow().to_sexp()]);
	}
	if regress {
		// duke's class writer did not write the unknown attributes of `Code` (repaired: ad22ed9); every fact survives re-opening
		if let (Some(c), hint) = fx("attrs-all") {
			let es = vec![Ent { name: "x/X.class".to_owned(), kind: EntK::Class(hint, c) }];
			let g = GMap::default();
			let (maps, sup) = (g.mappings_sexp(), g.supers_sexp());
			build_remapper!(mm, prov, b, &maps, &sup, return);
			let q = Rec::new(&b);
			for e in &es { if let EntK::Class(_, c) = &e.kind { ask_class(&q, &project(c)); } ask_entry_name(&q, &js(&e.name)); }
			let (jar, hints) = jar_sexp(&es);
			out.op("oracle-reopen", &[jar, maps, Sexp::list(vec![sup, hints]), q.t.borrow().to_sexp(), Sexp::bool(true)]);
		}
	}
}

fn gen(r: &mut Rng, tier: Tier, out: &mut Out) {
	if let Ok(w) = std::env::var("C07_WITNESS") { return witnesses(out, w == "regress"); }
	if let Ok(n) = std::env::var("C07_PROBE") { return probe(n.parse().unwrap_or(1000)); }
	let th = tier == Tier::Thorough;
	let files = corpus_files(tier);
	// fixtures and corpus classes first: every one under several remappers
	for name in FIXTURES {
		let Some(c) = fixture(name) else { continue };
		for _ in 0..(if th { 20 } else { 4 }) { emit_class_ops(r, out, &c, &Sexp::list(vec![Sexp::tag("fixture"), Sexp::tag(name)]), true); }
	}
	for f in &files {
		let Ok(c) = corpus_class(f) else { out.stats.hit("corpus:unreadable"); emit_rejected(out, &corpus_hint(f)); continue };
		out.stats.hit("corpus:class");
		for i in 0..(if th { 40 } else { 5 }) { emit_class_ops(r, out, &c, &corpus_hint(f), i == 0); }
	}
	for i in 0..(if th { 12000 } else { 600 }) {
		let seed = r.next() % 1_000_000_000;
		let c = gen_class(seed);
		emit_class_ops(r, out, &c, &hint_sexp_gen(seed), i % 5 == 0);
	}
	for i in 0..(if th { 8000 } else { 400 }) {
		let seed = r.next() % 1_000_000_000;
		match gen_asm(seed) {
			Ok(c) => { out.stats.hit("asm:read"); emit_class_ops(r, out, &c, &hint_sexp_asm(seed), i % 5 == 0); }
			Err(_) => { out.stats.hit("asm:rejected-by-reader"); emit_rejected(out, &hint_sexp_asm(seed)); }
		}
	}
	for _ in 0..(if th { 3300 } else { 165 }) {
		let mut rejected = Vec::new();
		let es = gen_jar(r, &files, &mut rejected);
		for h in &rejected { emit_rejected(out, h); }
		emit_jar_ops(r, out, &es);
	}
	// entry names: the rewrite looks at the name alone
	let names = ["a/A.class", ".class", "a/A.class.class", "A.CLASS", "a/A.clas", "a/A.class/", "META-INF/MANIFEST.MF", "", "é/Ü.class", "a/A$In.class", "a.b.class", "class", "x/.class",
		"a/A$In$Deep.class", "a/A$1.class", "$.class", "a$b/C.class"];
	for n in names {
		for _ in 0..(if th { 10 } else { 2 }) {
			let stem = n.strip_suffix(".class").unwrap_or("zz/Q");
			let mut g = GMap { classes: if r.chance(2, 3) && !stem.is_empty() { vec![(stem.to_owned(), Some(format!("q/{}", r.below(3))), vec![], vec![])] } else { vec![] }, supers: vec![] };
			// only the outer class of a nested one is renamed (sometimes in addition)
			if let Some((outer, _)) = stem.rsplit_once('$') { if !outer.is_empty() && r.chance(1, 2) { g.classes.push((outer.to_owned(), Some("q/Outer".to_owned()), vec![], vec![])); if r.chance(1, 2) { g.classes.remove(0); } } }
			let (maps, sup) = (g.mappings_sexp(), g.supers_sexp());
			build_remapper!(mm, prov, b, &maps, &sup, continue);
			let q = Rec::new(&b);
			ask_entry_name(&q, &js(n));
			out.op("entry-name", &[Sexp::str(n), maps, Sexp::list(vec![sup, Sexp::list(vec![])]), q.t.borrow().to_sexp()]);
		}
	}
}

// ------------------------------------------------------------------ execution on the real code

fn exec(op: &str, args: &[Sexp]) -> Ans {
	macro_rules! tr { ($e:expr) => { match $e { Ok(x) => x, Err(e) => return Ans::BadOp(format!("{e}")) } } }
	if op == "refs" {
		let [c, hint] = args else { return Ans::BadOp("args".into()) };
		let Ok(class) = class_from_hint(hint) else { return Ans::Skip("hint".into()) };
		let m = project(&class);
		if class_to_sexp(&m) != *c { return Ans::Skip("class differs from its hint".into()); }
		return Ans::Ok(Sexp::list(refs(&m).iter().map(ref_to_sexp).collect()));
	}
	if op == "oracle-hint-reads" {
		let [hint] = args else { return Ans::BadOp("args".into()) };
		return if class_from_hint(hint).is_ok() { Ans::pass() } else { Ans::fail("rejected-by-reader") };
	}
	if args.len() < 4 { return Ans::BadOp("args".into()); }
	let (subject, maps, aux, table) = (&args[0], &args[1], &args[2], &args[3]);
	let [sup, hints] = tr!(aux.as_list()) else { return Ans::BadOp("aux".into()) };
	build_remapper!(mm, prov, b, maps, sup, return Ans::Skip("remapper cannot be built".into()));
	let q = Rec::new(&b);
	if !tr!(table_consistent(&q, table)) { return Ans::Skip("table differs from the remapper's answers".into()); }
	match op {
		"remap-class" | "oracle-remap-refs" | "oracle-remap-shape" | "oracle-inner-names" | "oracle-full-refs" | "oracle-full-shape" | "oracle-full-names" => {
			let Ok(class) = class_from_hint(hints) else { return Ans::Skip("hint".into()) };
			let m = project(&class);
			if class_to_sexp(&m) != *subject { return Ans::Skip("class differs from its hint".into()); }
			let res = dukebox::remap::remap_class(&b, class);
			match op {
				"remap-class" => match res { Ok(c) => Ans::Ok(class_to_sexp(&project(&c))), Err(_) => Ans::err() },
				"oracle-remap-refs" | "oracle-full-refs" => {
					// `remap_refs`: independent reference renaming — the answers of the remapper for the references of the input, on every class
					match (res, ask_class(&q, &m)) {
						(Ok(c), Some(e)) => if refs(&project(&c)) == e { Ans::pass() } else { Ans::fail("refs") },
						(Err(_), None) => Ans::pass(),
						(Ok(_), None) => Ans::fail("refs"),     // a failing answer was swallowed
						(Err(_), Some(_)) => Ans::fail("refs"), // failed although every answer was there
					}
				}
				"oracle-full-names" => {
					let Ok(c) = res else { return Ans::out_of_domain() };
					full_names(maps, &m, &project(&c))
				}
				// `remap_inner_name`
				"oracle-inner-names" => match res { Err(_) => Ans::out_of_domain(), Ok(c) => if inner_names_ok(&m, &project(&c)) { Ans::pass() } else { Ans::fail("inner-name") } },
				// `remap_shape`: everything that is not a reference position is unchanged, whenever the remap succeeds
				_ => match res { Err(_) => Ans::out_of_domain(), Ok(c) => if erase(&project(&c)) == erase(&m) { Ans::pass() } else { Ans::fail("shape") } },
			}
		}
		"remap-jar" | "oracle-entries" | "oracle-reopen" => {
			let Some((pj, cls)) = tr!(jar_from(subject, hints)) else { return Ans::Skip("jar differs from its hints".into()) };
			let names: Vec<String> = pj.entries.keys().cloned().collect();
			let kinds: Vec<u8> = pj.entries.values().map(|e| match e.content { JarEntryEnum::Dir => 0, JarEntryEnum::Other(_) => 1, JarEntryEnum::Class(_) => 2 }).collect();
			let others: Vec<Option<Vec<u8>>> = pj.entries.values().map(|e| match &e.content { JarEntryEnum::Other(d) => Some(d.clone()), _ => None }).collect();
			// domain shared by the jar oracles: every entry can be remapped and the new names are pairwise different
			let expected: Vec<Option<S>> = names.iter().map(|n| ask_entry_name(&q, &js(n))).collect();
			let mut seen = std::collections::HashSet::new();
			let in_domain = expected.iter().all(|e| e.is_some()) && expected.iter().all(|e| seen.insert(e.clone()));
			if op == "oracle-reopen" {
				let Some(w) = args.get(4) else { return Ans::BadOp("args".into()) };
				let w = tr!(w.as_bool());
				if w != classes_writable(tr!(hints.as_list()), &cls) { return Ans::Skip("writable flag differs".into()); }
				if !w || !reopen_names_ok(&names, &kinds) { return Ans::out_of_domain(); }
				// the input jar itself survives `to_mem` and re-opening (`expected_reopen`); a class writer that fails on it: `input-write`
				match (reopen(clone_jar(&pj)), expected_reopen(&pj)) {
					(Ok(a), Ok(b)) => if a != b { return Ans::fail("input-reopen-differs"); },
					(Err(e), _) => return Ans::fail(&format!("input-{}", e.split(':').next().unwrap_or("x"))),
					(_, Err(_)) => return Ans::fail("input-facts"),
				}
			}
			let res = dukebox::remap::remap(pj, ByRef(&b));
			match op {
				"remap-jar" => match res { Ok(j) => Ans::Ok(tr!(result_jar_sexp(&j))), Err(_) => Ans::err() },
				"oracle-entries" => {
					let Ok(j) = res else { return if in_domain && cls.iter().all(|c| ask_class(&q, c).is_some()) { Ans::fail("failed") } else { Ans::out_of_domain() } };
					if !in_domain { return Ans::out_of_domain(); }
					if j.entries.len() != names.len() { return Ans::fail("entries"); }
					let mut ci = 0;
					for (i, (n2, e2)) in j.entries.iter().enumerate() {
						if Some(js(n2)) != expected[i] { return Ans::fail("entries"); }
						if strip_class(&js(&names[i])).is_none() && *n2 != names[i] { return Ans::fail("entries"); }
						match (&e2.content, kinds[i]) {
							(JarEntryEnum::Dir, 0) => {}
							(JarEntryEnum::Other(d), 1) => if Some(d) != others[i].as_ref() { return Ans::fail("entries") },
							(JarEntryEnum::Class(c), 2) => {
								let old = &cls[ci]; ci += 1;
								let Ok(c2) = c.clone().read() else { return Ans::fail("entries") };
								let new_name = js(&c2.name.as_inner().to_string());
								if q.map_class(&old.name) != Some(new_name.clone()) { return Ans::fail("entries"); }
								let well_named = names[i] == format!("{}.class", old.name);
								if well_named && *n2 != format!("{}.class", new_name) { return Ans::fail("entries"); }
							}
							_ => return Ans::fail("entries"),
						}
					}
					Ans::pass()
				}
				_ => {
					let Ok(j) = res else { return Ans::out_of_domain() };
					if !in_domain { return Ans::out_of_domain(); }
					let Ok(exp) = expected_reopen(&j) else { return Ans::fail("reopen-facts") };
					match reopen(j) { Ok(got) => if got == exp { Ans::pass() } else { Ans::fail("reopen-differs") }, Err(e) => Ans::fail(&format!("reopen-{}", e.split(':').next().unwrap_or("x"))) }
				}
			}
		}
		// the recorded table against the harness-own reading of the request's mappings and super types
		"oracle-table-spec" => tr!(table_spec(&tr!(Spec::from(maps, sup)), table)),
		"entry-name" => {
			let n = tr!(subject.as_string());
			match dukebox::remap::remap_jar_entry_name(&n, &b) { Ok(x) => Ans::Ok(Sexp::str(&x)), Err(_) => Ans::err() }
		}
		_ => Ans::BadOp("unknown op".into()),
	}
}
/// what a consistent renaming would also have renamed (replay of the findings outside the reference traversal):
/// class names inside signatures, element names of declaration annotations, `InnerClass.inner_name`
fn full_names(maps: &Sexp, old: &Cl, new: &Cl) -> Ans {
	// rows of the mapping set: (class, new name?, [(method, new name)])
	let mut rows: Vec<(S, Option<S>, Vec<(S, S)>)> = Vec::new();
	let Ok([_, _, classes]) = maps.as_list() else { return Ans::BadOp("maps".into()) };
	for c in classes.as_list().unwrap_or(&[]) {
		let Ok([k, names, _, _, ms]) = c.as_list() else { return Ans::BadOp("maps".into()) };
		let (Ok(k), Ok([_, dst])) = (k.as_jstring(), names.as_list()) else { return Ans::BadOp("maps".into()) };
		let dst = match dst.as_opt() { Ok(Some(d)) => d.as_jstring().ok(), _ => None };
		let mut mv = Vec::new();
		for m in ms.as_list().unwrap_or(&[]) {
			let Ok(m) = m.as_list() else { continue };
			if let (Some(n), Some(names)) = (m.first(), m.get(3)) {
				if let (Ok(n), Ok([_, t])) = (n.as_jstring(), names.as_list()) { if let Ok(Some(t)) = t.as_opt() { if let Ok(t) = t.as_jstring() { mv.push((n, t)); } } }
			}
		}
		rows.push((k, dst, mv));
	}
	let renamed: Vec<String> = rows.iter().filter(|(k, v, _)| v.is_some() && v.as_ref() != Some(k)).map(|(k, _, _)| k.to_string()).collect();
	let sigs = |c: &Cl| -> Vec<String> {
		let mut v: Vec<String> = c.sig.iter().map(|s| s.to_string()).collect();
		v.extend(c.fields.iter().filter_map(|f| f.sig.as_ref().map(|s| s.to_string())));
		for m in &c.methods {
			v.extend(m.sig.iter().map(|s| s.to_string()));
			if let Some(code) = &m.code { if let Some(lvs) = &code.lvs { v.extend(lvs.iter().filter_map(|l| l.sig.as_ref().map(|s| s.to_string()))); } }
		}
		v
	};
	if sigs(new).iter().any(|s| renamed.iter().any(|n| s.contains(&format!("L{n};")) || s.contains(&format!("L{n}<")))) { return Ans::fail("signature"); }
	let pairs = |c: &Cl| -> Vec<(S, S)> {
		let of = |a: &fvh::c07tree::Ann| a.pairs.iter().map(|(n, _)| (a.ty.clone(), n.clone())).collect::<Vec<_>>();
		let mut v = Vec::new();
		for f in &c.fields { for a in f.rva.iter().chain(&f.ria) { v.extend(of(a)); } }
		for m in &c.methods { for a in m.rva.iter().chain(&m.ria) { v.extend(of(a)); } }
		for a in c.rva.iter().chain(&c.ria) { v.extend(of(a)); }
		v
	};
	for ((t, n), (_, n2)) in pairs(old).iter().zip(pairs(new).iter()) {
		let Some(k) = class_of_desc(t) else { continue };
		if let Some((_, _, ms)) = rows.iter().find(|row| &*row.0 == k) {
			if let Some((_, nn)) = ms.iter().find(|m| m.0 == *n) { if nn != n2 { return Ans::fail("element-name"); } }
		}
	}
	if !inner_names_ok(old, new) { return Ans::fail("inner-name"); }
	Ans::pass()
}
fn main() { main_for(&gen, &exec) }
