//! C09: `Mappings::merge` (quill/src/action/merge.rs) — key union, column placement, projections, error cases.
use java_string::{JavaStr, JavaString};
use duke::tree::class::ObjClassName;
use duke::tree::field::FieldNameAndDesc;
use duke::tree::method::MethodNameAndDesc;
use indexmap::IndexMap;
use quill::tree::mappings::*;
use quill::tree::names::Names;
use fvh::mapcodec::{self, from_sexp, to_sexp};
use fvh::mapgen::{gen_mappings, GClass, GMappings, GMember, GParam, MapCfg};
use fvh::rng::Rng;
use fvh::run::{main_for, Ans, Out, Tier};
use fvh::sexp::Sexp;

struct NA; struct NB; struct NC;
type MA = Mappings<2, (NA, NB)>;
type MB = Mappings<2, (NA, NC)>;
type MR = Mappings<3, (NA, NB, NC)>;

// ------------------------------------------------------------------------------------------------ generators

struct Derive { keep_pct: usize, doc_keep_pct: usize, doc_clash_pct: usize, src_flip_pct: usize }

fn side_doc(r: &mut Rng, d: &Derive, pool: &Option<String>) -> Option<String> {
	match pool {
		Some(x) if r.chance(d.doc_keep_pct, 100) => Some(if r.chance(d.doc_clash_pct, 100) { format!("{x}!") } else { x.clone() }),
		_ => None,
	}
}

fn side_row(n: &[Option<String>], col: usize) -> Vec<Option<String>> { vec![n[0].clone(), n[col].clone()] }

fn side_members(r: &mut Rng, d: &Derive, pool: &[GMember], col: usize) -> Vec<GMember> {
	let mut out = Vec::new();
	for m in pool {
		if !r.chance(d.keep_pct, 100) { continue; }
		let mut params = Vec::new();
		for p in &m.params {
			if !r.chance(d.keep_pct, 100) { continue; }
			let mut names = side_row(&p.names, col);
			if r.chance(d.src_flip_pct, 100) {
				names[0] = match (&names[0], r.below(2)) { (Some(x), 0) => Some(format!("{x}_")), (Some(_), _) => None, (None, _) => Some("q".to_owned()) };
			}
			params.push(GParam { index: p.index, names, doc: side_doc(r, d, &p.doc) });
		}
		r.shuffle(&mut params);
		out.push(GMember { desc: m.desc.clone(), names: side_row(&m.names, col), doc: side_doc(r, d, &m.doc), params });
	}
	r.shuffle(&mut out);
	out
}

/// one side (`col` = 1 for A, 2 for B) of a 3-namespace pool: a random sub-tree, independently ordered
fn derive(r: &mut Rng, d: &Derive, pool: &GMappings, col: usize) -> GMappings {
	let mut classes = Vec::new();
	for c in &pool.classes {
		if !r.chance(d.keep_pct, 100) { continue; }
		classes.push(GClass {
			names: side_row(&c.names, col), doc: side_doc(r, d, &c.doc),
			fields: side_members(r, d, &c.fields, col), methods: side_members(r, d, &c.methods, col),
		});
	}
	r.shuffle(&mut classes);
	GMappings { ns: vec![pool.ns[0].clone(), pool.ns[col].clone()], doc: side_doc(r, d, &pool.doc), classes }
}

/// breaks the agreement between a key and the info stored under it somewhere in `m` (the maps of `Mappings` are `pub`)
fn desync(r: &mut Rng, m: &mut Sexp) -> bool {
	let Sexp::List(top) = m else { return false };
	let Sexp::List(classes) = &mut top[2] else { return false };
	if classes.is_empty() { return false; }
	let ci = r.below(classes.len());
	let Sexp::List(c) = &mut classes[ci] else { return false };
	match r.below(4) {
		0 => { // class: first name differs from the key
			let Sexp::List(names) = &mut c[1] else { return false };
			names[0] = Sexp::list(vec![Sexp::str("other/Name")]);
			true
		}
		k @ (1 | 2) => { // field / method: descriptor or first name differs from the key
			let Sexp::List(ms) = &mut c[if k == 1 { 3 } else { 4 }] else { return false };
			if ms.is_empty() { return false; }
			let mi = r.below(ms.len());
			let Sexp::List(e) = &mut ms[mi] else { return false };
			if r.chance(1, 2) { e[2] = Sexp::str(if k == 1 { "Lde/sync;" } else { "(Lde/sync;)V" }); }
			else { let Sexp::List(names) = &mut e[3] else { return false }; names[0] = Sexp::list(vec![Sexp::str("desynced")]); }
			true
		}
		_ => { // parameter: index differs from the key
			let Sexp::List(ms) = &mut c[4] else { return false };
			if ms.is_empty() { return false; }
			let mi = r.below(ms.len());
			let Sexp::List(e) = &mut ms[mi] else { return false };
			let Sexp::List(ps) = &mut e[5] else { return false };
			if ps.is_empty() { return false; }
			let pi = r.below(ps.len());
			let Sexp::List(p) = &mut ps[pi] else { return false };
			p[1] = Sexp::nat(9);
			true
		}
	}
}

fn emit(out: &mut Out, a: &Sexp, b: &Sexp, i: usize) {
	let args = [a.clone(), b.clone()];
	// distribution of what the real code does with the pair
	if let (Ok(ma), Ok(mb)) = (from_sexp::<2, (NA, NB)>(a), from_sexp::<2, (NA, NC)>(b)) {
		out.stats.hit(if Mappings::<2, (NA, NB, NC)>::merge(&ma, &mb).is_ok() { "result:ok" } else { "result:err" });
		let (fa, fb) = (flat(&ma), flat(&mb));
		let (mut shared, mut one_sided_params) = ([0usize; 4], 0usize);
		for (p, _) in &fa {
			let lvl = match p { Path::C(..) => 0, Path::F(..) => 1, Path::M(..) => 2, Path::P(..) => 3 };
			if find(&mb, p).is_some() { shared[lvl] += 1; }
		}
		for (p, _) in &fa { if let Path::P(c, m, _) = p { if find(&mb, &Path::M(c.clone(), m.clone())).is_none() { one_sided_params += 1; } } }
		for (p, _) in &fb { if let Path::P(c, m, _) = p { if find(&ma, &Path::M(c.clone(), m.clone())).is_none() { one_sided_params += 1; } } }
		for (l, n) in ["classes", "fields", "methods", "params"].iter().zip(shared) {
			out.stats.hit(&format!("shared-{l}:{}", if n == 0 { "0" } else if n < 3 { "1-2" } else { "3+" }));
		}
		out.stats.hit(&format!("params-of-one-sided-methods:{}", if one_sided_params == 0 { "0" } else { "1+" }));
		out.stats.hit(&format!("entries:{}", match fa.len() + fb.len() { 0 => "0", 1..=9 => "1-9", 10..=29 => "10-29", _ => "30+" }));
	} else {
		out.stats.hit("result:not-a-request");
	}
	out.op("merge", &args);
	out.op("oracle-merge-errors", &args);
	match i % 3 {
		0 => out.op("oracle-merge-keys", &args),
		1 => out.op("oracle-merge-columns", &args),
		_ => out.op("oracle-merge-project", &args),
	}
}

fn gen(r: &mut Rng, tier: Tier, out: &mut Out) {
	let rounds = if tier == Tier::Thorough { 30000 } else { 1200 };
	for i in 0..rounds {
		let mut cfg = MapCfg::basic(3);
		cfg.max_classes = r.range(2, 6);
		cfg.max_members = r.range(1, 3);
		cfg.max_params = r.range(0, 3);
		cfg.nest_depth = r.range(0, 1);
		cfg.absent_pct = *r.pick(&[0, 20, 50]);
		cfg.doc_pct = *r.pick(&[0, 30, 60]);
		cfg.unicode = r.chance(1, 6);
		let mut pool = gen_mappings(r, &cfg);
		for _ in 0..4 { if pool.classes.len() >= 2 { break; } pool = gen_mappings(r, &cfg); }
		if r.chance(cfg.doc_pct, 100) { pool.doc = Some("top".to_owned()); }
		let kind = match r.below(20) { 0..=10 => "clean", 11..=13 => "doc-clash", 14..=15 => "src-clash", 16 => "ns-clash", _ => "desync" };
		out.stats.hit(&format!("kind:{kind}"));
		let d = Derive {
			keep_pct: *r.pick(&[60, 75, 90, 100]),
			doc_keep_pct: *r.pick(&[40, 70, 100]),
			doc_clash_pct: if kind == "doc-clash" { *r.pick(&[5, 15, 40]) } else { 0 },
			src_flip_pct: if kind == "src-clash" { *r.pick(&[5, 15, 40]) } else { 0 },
		};
		let ga = derive(r, &d, &pool, 1);
		let mut gb = derive(r, &d, &pool, 2);
		if kind == "ns-clash" {
			match r.below(4) {
				0 => { gb.ns[0] = "Official".to_owned(); }
				1 => { gb.ns[0] = gb.ns[1].clone(); }
				// A's first namespace is B's *second* one (an input that was not reordered)
				2 => { gb.ns[1] = ga.ns[0].clone(); gb.ns[0] = "other".to_owned(); }
				// B's first namespace is A's second one
				_ => { gb.ns[0] = ga.ns[1].clone(); }
			}
		}
		let (mut a, mut b) = (ga.to_sexp(), gb.to_sexp());
		if kind == "desync" {
			let hit = if r.chance(1, 2) { desync(r, &mut a) } else { desync(r, &mut b) };
			out.stats.hit(if hit { "desync:applied" } else { "desync:nothing-to-break" });
		}
		emit(out, &a, &b, i);
	}
	small_scope(out);
	namespace_scope(out);
	malformed(r, out);
}

/// Exhaustive over the four namespace names (a0 a1) x (b0 b1) drawn from three names, on a one-class mapping: the
/// merge must succeed exactly when a0 = b0 (whatever else coincides), with header (a0 a1 b1).
fn namespace_scope(out: &mut Out) {
	let names = ["x", "y", "z"];
	let mut i = 0;
	for a0 in names { for a1 in names { for b0 in names { for b1 in names {
		let side = |n0: &str, n1: &str, dst: &str| {
			let class = fvh::mapgen::GClass { names: vec![Some("A".to_owned()), Some(dst.to_owned())], doc: None, fields: Vec::new(), methods: Vec::new() };
			GMappings { ns: vec![n0.to_owned(), n1.to_owned()], doc: None, classes: vec![class] }.to_sexp()
		};
		let (a, b) = (side(a0, a1, "Aa"), side(b0, b1, "Ab"));
		out.stats.hit(if a0 == b0 { "ns-scope:first-equal" } else if a0 == b1 { "ns-scope:first-is-other-second" } else { "ns-scope:first-differs" });
		emit(out, &a, &b, i);
		i += 1;
	} } } }
}

/// Exhaustive small scope: one class, one field, one method, one parameter; every combination of side presence at every
/// level, and of comment / parameter-source-name agreement (absent, equal, different, one-sided).
fn small_scope(out: &mut Out) {
	// (A has it, B has it)
	let presence = [(true, false), (false, true), (true, true)];
	// (A's value, B's value)
	let pairs: [(Option<&str>, Option<&str>); 5] = [(None, None), (Some("x"), None), (None, Some("x")), (Some("x"), Some("x")), (Some("x"), Some("y"))];
	let own = |o: Option<&str>| o.map(|s| s.to_owned());
	let mut i = 0;
	let mut build = |cp: (bool, bool), mp: (bool, bool), pp: (bool, bool), fp: (bool, bool),
			cdoc: (Option<&str>, Option<&str>), mdoc: (Option<&str>, Option<&str>), pdoc: (Option<&str>, Option<&str>),
			fdoc: (Option<&str>, Option<&str>), psrc: (Option<&str>, Option<&str>), out: &mut Out| {
		let side = |has_c: bool, has_m: bool, has_p: bool, has_f: bool, col: &str, cdoc: Option<&str>, mdoc: Option<&str>,
				pdoc: Option<&str>, fdoc: Option<&str>, psrc: Option<&str>| -> Sexp {
			let mut classes = Vec::new();
			if has_c {
				let mut methods = Vec::new();
				if has_m {
					let mut params = Vec::new();
					if has_p { params.push(GParam { index: 1, names: vec![own(psrc), Some(format!("p{col}"))], doc: own(pdoc) }); }
					methods.push(GMember { desc: "(I)V".into(), names: vec![Some("m".into()), Some(format!("m{col}"))], doc: own(mdoc), params });
				}
				let mut fields = Vec::new();
				if has_f { fields.push(GMember { desc: "I".into(), names: vec![Some("f".into()), None], doc: own(fdoc), params: vec![] }); }
				classes.push(GClass { names: vec![Some("C".into()), Some(format!("C{col}"))], doc: own(cdoc), fields, methods });
			}
			GMappings { ns: vec!["s".into(), col.to_owned()], doc: None, classes }.to_sexp()
		};
		let a = side(cp.0, cp.0 && mp.0, cp.0 && mp.0 && pp.0, cp.0 && fp.0, "a", cdoc.0, mdoc.0, pdoc.0, fdoc.0, psrc.0);
		let b = side(cp.1, cp.1 && mp.1, cp.1 && mp.1 && pp.1, cp.1 && fp.1, "b", cdoc.1, mdoc.1, pdoc.1, fdoc.1, psrc.1);
		out.stats.hit("kind:small-scope");
		emit(out, &a, &b, i);
		i += 1;
	};
	let nn = (None, None);
	for cp in presence { for mp in presence { for pp in presence { for pdoc in pairs { for psrc in pairs {
		build(cp, mp, pp, (true, true), nn, nn, pdoc, nn, psrc, out);
	}}}}}
	for cp in presence { for fp in presence { for cdoc in pairs { for fdoc in pairs { for mdoc in pairs {
		build(cp, (true, true), (true, true), fp, cdoc, mdoc, nn, fdoc, nn, out);
	}}}}}
}

/// requests the codec must refuse on both sides (`bad-op`), and top-level comment handling
fn malformed(r: &mut Rng, out: &mut Out) {
	let cfg = MapCfg::basic(2);
	for k in 0..40 {
		let mut ga = gen_mappings(r, &cfg);
		let mut gb = gen_mappings(r, &cfg);
		gb.ns[1] = "named".to_owned();
		match k % 8 {
			0 => { ga.doc = Some("d".into()); gb.doc = Some("d".into()); }
			1 => { ga.doc = Some("d".into()); gb.doc = Some("e".into()); }
			2 => { ga.doc = Some("d".into()); }
			3 => { gb.doc = Some("e".into()); }
			4 => { gb.ns[1] = String::new(); }                                         // empty namespace name
			5 => { if let Some(c) = gb.classes.first_mut() { c.names[1] = Some(String::new()); } } // present-but-empty name
			6 => { ga.ns.push("third".into()); }                                       // not two namespaces
			_ => { if let Some(c) = ga.classes.first().cloned() { ga.classes.push(c); } }        // duplicate key
		}
		out.stats.hit("kind:malformed-or-top-doc");
		emit(out, &ga.to_sexp(), &gb.to_sexp(), k);
	}
}

// ------------------------------------------------------------------------------------------------ flattened view

#[derive(Clone, PartialEq, Eq, Debug)]
enum Path {
	C(ObjClassName),
	F(ObjClassName, FieldNameAndDesc),
	M(ObjClassName, MethodNameAndDesc),
	P(ObjClassName, MethodNameAndDesc, usize),
}

#[derive(Clone, PartialEq, Debug)]
struct Ent { names: Vec<Option<JavaString>>, desc: Option<JavaString>, index: Option<usize>, doc: Option<String> }

fn row<const N: usize, T: AsRef<JavaStr>>(n: &Names<N, T>) -> Vec<Option<JavaString>> {
	let arr: &[Option<T>; N] = n.into();
	arr.iter().map(|o| o.as_ref().map(|t| t.as_ref().to_owned())).collect()
}
fn doc(d: &Option<JavadocMapping>) -> Option<String> { d.as_ref().map(|d| d.0.clone()) }

fn ent_c<const N: usize>(c: &ClassNowodeMapping<N>) -> Ent { Ent { names: row(&c.info.names), desc: None, index: None, doc: doc(&c.javadoc) } }
fn ent_f<const N: usize>(f: &FieldNowodeMapping<N>) -> Ent { Ent { names: row(&f.info.names), desc: Some(f.info.desc.as_inner().to_owned()), index: None, doc: doc(&f.javadoc) } }
fn ent_m<const N: usize>(m: &MethodNowodeMapping<N>) -> Ent { Ent { names: row(&m.info.names), desc: Some(m.info.desc.as_inner().to_owned()), index: None, doc: doc(&m.javadoc) } }
fn ent_p<const N: usize>(p: &ParameterNowodeMapping<N>) -> Ent { Ent { names: row(&p.info.names), desc: None, index: Some(p.info.index), doc: doc(&p.javadoc) } }

fn flat<const N: usize, Ns>(m: &Mappings<N, Ns>) -> Vec<(Path, Ent)> {
	let mut out = Vec::new();
	for (kc, c) in &m.classes {
		out.push((Path::C(kc.clone()), ent_c(c)));
		for (kf, f) in &c.fields { out.push((Path::F(kc.clone(), kf.clone()), ent_f(f))); }
		for (km, me) in &c.methods {
			out.push((Path::M(kc.clone(), km.clone()), ent_m(me)));
			for (kp, p) in &me.parameters { out.push((Path::P(kc.clone(), km.clone(), kp.index), ent_p(p))); }
		}
	}
	out
}

fn find<const N: usize, Ns>(m: &Mappings<N, Ns>, p: &Path) -> Option<Ent> {
	match p {
		Path::C(kc) => m.classes.get(kc).map(ent_c),
		Path::F(kc, kf) => m.classes.get(kc)?.fields.get(kf).map(ent_f),
		Path::M(kc, km) => m.classes.get(kc)?.methods.get(km).map(ent_m),
		Path::P(kc, km, kp) => m.classes.get(kc)?.methods.get(km)?.parameters.get(&ParameterKey { index: *kp }).map(ent_p),
	}
}

// ------------------------------------------------------------------------------------------------ oracles

fn first_fail(checks: &[(&str, bool)]) -> Ans {
	match checks.iter().find(|c| !c.1) { Some((t, _)) => Ans::fail(t), None => Ans::pass() }
}

/// A's keys in A's order, then the keys only B has, in B's order
fn expect_keys<K: Clone + std::hash::Hash + Eq, V>(m: &IndexMap<K, V>, n: &IndexMap<K, V>) -> Vec<K> {
	m.keys().cloned().chain(n.keys().filter(|k| !m.contains_key(*k)).cloned()).collect()
}
fn expect_side<K: Clone + std::hash::Hash + Eq, V>(m: Option<&IndexMap<K, V>>, n: Option<&IndexMap<K, V>>) -> Vec<K> {
	match (m, n) {
		(Some(m), Some(n)) => expect_keys(m, n),
		(Some(m), None) => m.keys().cloned().collect(),
		(None, Some(n)) => n.keys().cloned().collect(),
		(None, None) => vec![],
	}
}
fn keys_of<K: Clone, V>(m: &IndexMap<K, V>) -> Vec<K> { m.keys().cloned().collect() }

fn oracle_keys(a: &MA, b: &MB, r: &MR) -> Ans {
	first_fail(&[
		("classes", keys_of(&r.classes) == expect_keys(&a.classes, &b.classes)),
		("fields", r.classes.iter().all(|(kc, c)|
			keys_of(&c.fields) == expect_side(a.classes.get(kc).map(|x| &x.fields), b.classes.get(kc).map(|x| &x.fields)))),
		("methods", r.classes.iter().all(|(kc, c)|
			keys_of(&c.methods) == expect_side(a.classes.get(kc).map(|x| &x.methods), b.classes.get(kc).map(|x| &x.methods)))),
		("params", r.classes.iter().all(|(kc, c)| c.methods.iter().all(|(km, m)|
			keys_of(&m.parameters) == expect_side(
				a.classes.get(kc).and_then(|x| x.methods.get(km)).map(|x| &x.parameters),
				b.classes.get(kc).and_then(|x| x.methods.get(km)).map(|x| &x.parameters))))),
		("member", flat(a).iter().chain(flat(b).iter()).all(|(p, _)| find(r, p).is_some())),
		("extra", flat(r).iter().all(|(p, _)| find(a, p).is_some() || find(b, p).is_some())),
	])
}

fn col(r: Option<&Vec<Option<JavaString>>>, i: usize) -> Option<JavaString> { r.and_then(|n| n.get(i).cloned().flatten()) }

fn join_row(ra: Option<&Vec<Option<JavaString>>>, rb: Option<&Vec<Option<JavaString>>>) -> Vec<Option<JavaString>> {
	vec![if ra.is_some() { col(ra, 0) } else { col(rb, 0) }, col(ra, 1), col(rb, 1)]
}

fn oracle_columns(a: &MA, b: &MB, r: &MR) -> Ans {
	let (na, nb, nr): (&[String; 2], &[String; 2], &[String; 3]) = ((&a.info.namespaces).into(), (&b.info.namespaces).into(), (&r.info.namespaces).into());
	first_fail(&[
		("namespaces", nr[..] == [na[0].clone(), na[1].clone(), nb[1].clone()]),
		("row", flat(r).iter().all(|(p, e)| {
			let (ea, eb) = (find(a, p), find(b, p));
			e.names == join_row(ea.as_ref().map(|x| &x.names), eb.as_ref().map(|x| &x.names))
		})),
	])
}

/// `r` projected onto columns (0, j), restricted to the keys of `x`, gives back `x`
fn agrees<const N: usize, Ns>(x: &Mappings<N, Ns>, r: &MR, j: usize) -> bool {
	let (nx, nr): (&[String; N], &[String; 3]) = ((&x.info.namespaces).into(), (&r.info.namespaces).into());
	nx[..] == [nr[0].clone(), nr[j].clone()]
		&& (x.javadoc.is_none() || r.javadoc == x.javadoc)
		&& flat(x).iter().all(|(path, a)| match find(r, path) {
			None => false,
			Some(p) => vec![p.names[0].clone(), p.names[j].clone()] == a.names && p.desc == a.desc && p.index == a.index
				&& (a.doc.is_none() || p.doc == a.doc),
		})
}

fn join_doc(a: Option<String>, b: Option<String>) -> Option<String> { if a.is_some() { a } else { b } }

fn oracle_project(a: &MA, b: &MB, r: &MR) -> Ans {
	first_fail(&[
		("a", agrees(a, r, 1)),
		("b", agrees(b, r, 2)),
		("doc", doc(&r.javadoc) == join_doc(doc(&a.javadoc), doc(&b.javadoc))),
		("docs", flat(r).iter().all(|(p, e)| e.doc == join_doc(find(a, p).and_then(|x| x.doc), find(b, p).and_then(|x| x.doc)))),
	])
}

fn doc_conflict(x: &Option<JavadocMapping>, y: &Option<JavadocMapping>) -> bool {
	matches!((x, y), (Some(a), Some(b)) if a != b)
}
fn any_shared<K: std::hash::Hash + Eq, V>(m: &IndexMap<K, V>, n: &IndexMap<K, V>, conf: impl Fn(&V, &V) -> bool) -> bool {
	m.iter().any(|(k, x)| n.get(k).is_some_and(|y| conf(x, y)))
}
fn src_conflict<T: PartialEq>(x: &Names<2, T>, y: &Names<2, T>) -> bool {
	let (x, y): (&[Option<T>; 2], &[Option<T>; 2]) = (x.into(), y.into());
	x[0] != y[0]
}

/// every way `merge` can report an error, stated over the two inputs only
fn conflict(a: &MA, b: &MB) -> bool {
	let (na, nb): (&[String; 2], &[String; 2]) = ((&a.info.namespaces).into(), (&b.info.namespaces).into());
	na[0] != nb[0]
		|| any_shared(&a.classes, &b.classes, |c, d|
			src_conflict(&c.info.names, &d.info.names)
			|| any_shared(&c.fields, &d.fields, |f, g|
				f.info.desc != g.info.desc || src_conflict(&f.info.names, &g.info.names) || doc_conflict(&f.javadoc, &g.javadoc))
			|| any_shared(&c.methods, &d.methods, |m, n|
				m.info.desc != n.info.desc || src_conflict(&m.info.names, &n.info.names)
				|| any_shared(&m.parameters, &n.parameters, |p, q|
					p.info.index != q.info.index || src_conflict(&p.info.names, &q.info.names) || doc_conflict(&p.javadoc, &q.javadoc))
				|| doc_conflict(&m.javadoc, &n.javadoc))
			|| doc_conflict(&c.javadoc, &d.javadoc))
		|| doc_conflict(&a.javadoc, &b.javadoc)
}

fn keys_consistent<Ns>(m: &Mappings<2, Ns>) -> bool {
	m.classes.iter().all(|(kc, c)| {
		row(&c.info.names)[0].as_deref() == Some(kc.as_inner())
			&& c.fields.iter().all(|(k, f)| row(&f.info.names)[0].as_deref() == Some(k.name.as_inner()) && f.info.desc == k.desc)
			&& c.methods.iter().all(|(k, me)| row(&me.info.names)[0].as_deref() == Some(k.name.as_inner()) && me.info.desc == k.desc
				&& me.parameters.iter().all(|(kp, p)| p.info.index == kp.index))
	})
}

/// the conflicts left between key-consistent inputs: first namespaces, comments of shared nodes, source names of shared parameters
fn conflict_paths(a: &MA, b: &MB) -> bool {
	let (na, nb): (&[String; 2], &[String; 2]) = ((&a.info.namespaces).into(), (&b.info.namespaces).into());
	let clash = |x: &Option<String>, y: &Option<String>| matches!((x, y), (Some(p), Some(q)) if p != q);
	na[0] != nb[0] || doc_conflict(&a.javadoc, &b.javadoc)
		|| flat(a).iter().any(|(path, ea)| match find(b, path) {
			None => false,
			Some(eb) => clash(&ea.doc, &eb.doc) || (matches!(path, Path::P(..)) && ea.names[0] != eb.names[0]),
		})
}

fn oracle_errors(a: &MA, b: &MB) -> Ans {
	let failed = Mappings::<2, (NA, NB, NC)>::merge(a, b).is_err();
	first_fail(&[
		("general", failed == conflict(a, b)),
		("consistent", !(keys_consistent(a) && keys_consistent(b)) || failed == conflict_paths(a, b)),
	])
}

fn exec(op: &str, args: &[Sexp]) -> Ans {
	macro_rules! tr { ($e:expr) => { match $e { Ok(x) => x, Err(e) => return Ans::BadOp(e) } } }
	match (op, args) {
		("merge" | "oracle-merge-errors" | "oracle-merge-keys" | "oracle-merge-columns" | "oracle-merge-project", [a, b]) => {
			if tr!(mapcodec::ns_count(a)) != 2 || tr!(mapcodec::ns_count(b)) != 2 { return Ans::BadOp("not two namespaces".into()); }
			let a: MA = tr!(from_sexp(a));
			let b: MB = tr!(from_sexp(b));
			if op == "oracle-merge-errors" { return oracle_errors(&a, &b); }
			let r = Mappings::<2, (NA, NB, NC)>::merge(&a, &b);
			match (op, r) {
				("merge", Ok(r)) => Ans::Ok(to_sexp(&r)),
				("merge", Err(_)) => Ans::err(),
				(_, Err(_)) => Ans::out_of_domain(),
				("oracle-merge-keys", Ok(r)) => oracle_keys(&a, &b, &r),
				("oracle-merge-columns", Ok(r)) => oracle_columns(&a, &b, &r),
				(_, Ok(r)) => oracle_project(&a, &b, &r),
			}
		}
		_ => Ans::BadOp("unknown op".into()),
	}
}

fn main() { main_for(&gen, &exec) }
