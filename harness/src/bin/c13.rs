//! C13: client/server jar merge (`dukebox::merge::merge`) driven through in-memory `ParsedJar`s.
//! Wire format: see lean/FeatherModel/Driver/C13.lean.
use std::io::Cursor;
use std::panic::{catch_unwind, AssertUnwindSafe};
use anyhow::Result as AResult;
use duke::tree::annotation::{Annotation, ElementValue, ElementValuePair};
use duke::tree::class::{ClassAccess, ClassFile, ClassName, InnerClass, InnerClassFlags, ObjClassName};
use duke::tree::field::{ConstantValue, Field, FieldAccess, FieldDescriptor, FieldName};
use duke::tree::method::{Method, MethodAccess, MethodDescriptor, MethodName};
use duke::tree::version::Version;
use dukebox::storage::{BasicFileAttributes, ClassRepr, JarEntryEnum, ParsedJar, ParsedJarEntry};
use fvh::c01model::{self as gm, GAnno, GClass, GConst, GElem, GField, GMethod};
use fvh::rng::Rng;
use fvh::run::{main_for, Ans, Out, Tier};
use fvh::sexp::{Sexp, R};
use indexmap::IndexMap;
use java_string::JavaString;

// ------------------------------------------------------------------ descriptions (mirror of the Lean structures)

#[derive(Clone, Copy, PartialEq, Eq, Debug)]
enum Side { C, S }

#[derive(Clone, PartialEq, Eq, Debug)]
enum AnnD { Env(Side), Itfs(Vec<(Side, String)>), Other(usize) }

#[derive(Clone, PartialEq, Eq, Debug)]
struct MemD { name: String, desc: String, access: usize, dep: bool, syn: bool, payload: usize, anns: Vec<AnnD> }

#[derive(Clone, PartialEq, Eq, Debug)]
struct InnD { name: String, flags: usize }

#[derive(Clone, PartialEq, Eq, Debug)]
struct ClsD {
	version: usize, access: usize, name: String, sup: Option<String>, itfs: Vec<String>,
	fields: Vec<MemD>, methods: Vec<MemD>, dep: bool, syn: bool, inners: Vec<InnD>, payload: usize,
	vis: Vec<AnnD>, invis: Vec<AnnD>,
}

#[derive(Clone, PartialEq, Eq, Debug)]
enum ContD { Dir, Other(Vec<u8>), Class(bool /* vec repr */, ClsD) }

#[derive(Clone, PartialEq, Eq, Debug)]
struct EntD { name: String, attr: usize, content: ContD }

// ------------------------------------------------------------------ sexp codec

fn side_to(s: Side) -> Sexp { Sexp::tag(match s { Side::C => "c", Side::S => "s" }) }
fn side_from(s: &Sexp) -> R<Side> { match s.as_atom()? { "c" => Ok(Side::C), "s" => Ok(Side::S), o => Err(format!("bad side {o}")) } }

fn ann_to(a: &AnnD) -> Sexp {
	match a {
		AnnD::Env(s) => Sexp::list(vec![Sexp::tag("env"), side_to(*s)]),
		AnnD::Itfs(ms) => Sexp::list(vec![Sexp::tag("itfs"), Sexp::list(ms.iter().map(|(s, i)| Sexp::list(vec![side_to(*s), Sexp::str(i)])).collect())]),
		AnnD::Other(n) => Sexp::list(vec![Sexp::tag("ann"), Sexp::nat(*n)]),
	}
}
fn ann_from(s: &Sexp) -> R<AnnD> {
	let l = s.as_list()?;
	match (l.first().map(|x| x.as_atom()).transpose()?, l.len()) {
		(Some("env"), 2) => Ok(AnnD::Env(side_from(&l[1])?)),
		(Some("itfs"), 2) => Ok(AnnD::Itfs(l[1].as_list()?.iter().map(|m| {
			let m = m.as_list()?;
			if m.len() != 2 { return Err("bad mark".to_owned()); }
			Ok((side_from(&m[0])?, m[1].as_string()?))
		}).collect::<R<_>>()?)),
		(Some("ann"), 2) => Ok(AnnD::Other(l[1].as_nat()?)),
		_ => Err(format!("bad ann {s}")),
	}
}
fn list_to<T>(xs: &[T], f: impl Fn(&T) -> Sexp) -> Sexp { Sexp::list(xs.iter().map(f).collect()) }
fn list_from<T>(s: &Sexp, f: impl Fn(&Sexp) -> R<T>) -> R<Vec<T>> { s.as_list()?.iter().map(f).collect() }

fn mem_to(m: &MemD) -> Sexp {
	Sexp::list(vec![Sexp::str(&m.name), Sexp::str(&m.desc), Sexp::nat(m.access), Sexp::bool(m.dep), Sexp::bool(m.syn),
		Sexp::nat(m.payload), list_to(&m.anns, ann_to)])
}
fn mem_from(s: &Sexp) -> R<MemD> {
	let l = s.as_list()?;
	if l.len() != 7 { return Err(format!("bad member {s}")); }
	Ok(MemD { name: l[0].as_string()?, desc: l[1].as_string()?, access: l[2].as_nat()?, dep: l[3].as_bool()?, syn: l[4].as_bool()?,
		payload: l[5].as_nat()?, anns: list_from(&l[6], ann_from)? })
}
fn inn_to(i: &InnD) -> Sexp { Sexp::list(vec![Sexp::str(&i.name), Sexp::nat(i.flags)]) }
fn inn_from(s: &Sexp) -> R<InnD> {
	let l = s.as_list()?;
	if l.len() != 2 { return Err(format!("bad inner {s}")); }
	Ok(InnD { name: l[0].as_string()?, flags: l[1].as_nat()? })
}
fn cls_to(c: &ClsD) -> Sexp {
	Sexp::list(vec![Sexp::nat(c.version), Sexp::nat(c.access), Sexp::str(&c.name), Sexp::opt(c.sup.as_ref(), |s| Sexp::str(s)),
		list_to(&c.itfs, |i| Sexp::str(i)), list_to(&c.fields, mem_to), list_to(&c.methods, mem_to), Sexp::bool(c.dep), Sexp::bool(c.syn),
		list_to(&c.inners, inn_to), Sexp::nat(c.payload), list_to(&c.vis, ann_to), list_to(&c.invis, ann_to)])
}
fn cls_from(s: &Sexp) -> R<ClsD> {
	let l = s.as_list()?;
	if l.len() != 13 { return Err(format!("bad class {s}")); }
	Ok(ClsD { version: l[0].as_nat()?, access: l[1].as_nat()?, name: l[2].as_string()?,
		sup: match l[3].as_opt()? { None => None, Some(x) => Some(x.as_string()?) },
		itfs: list_from(&l[4], |x| x.as_string())?, fields: list_from(&l[5], mem_from)?, methods: list_from(&l[6], mem_from)?,
		dep: l[7].as_bool()?, syn: l[8].as_bool()?, inners: list_from(&l[9], inn_from)?, payload: l[10].as_nat()?,
		vis: list_from(&l[11], ann_from)?, invis: list_from(&l[12], ann_from)? })
}
fn cont_to(c: &ContD) -> Sexp {
	match c {
		ContD::Dir => Sexp::tag("dir"),
		ContD::Other(d) => Sexp::list(vec![Sexp::tag("other"), Sexp::bytes(d)]),
		ContD::Class(v, c) => Sexp::list(vec![Sexp::tag("class"), Sexp::tag(if *v { "v" } else { "p" }), cls_to(c)]),
	}
}
fn cont_from(s: &Sexp) -> R<ContD> {
	if let Sexp::Atom(a) = s { return if a == "dir" { Ok(ContD::Dir) } else { Err(format!("bad content {a}")) }; }
	let l = s.as_list()?;
	match (l.first().map(|x| x.as_atom()).transpose()?, l.len()) {
		(Some("other"), 2) => Ok(ContD::Other(l[1].as_bytes()?)),
		(Some("class"), 3) => Ok(ContD::Class(match l[1].as_atom()? { "v" => true, "p" => false, o => return Err(format!("bad repr {o}")) }, cls_from(&l[2])?)),
		_ => Err(format!("bad content {s}")),
	}
}
fn ent_to(e: &EntD) -> Sexp { Sexp::list(vec![Sexp::str(&e.name), Sexp::nat(e.attr), cont_to(&e.content)]) }
fn ent_from(s: &Sexp) -> R<EntD> {
	let l = s.as_list()?;
	if l.len() != 3 { return Err(format!("bad entry {s}")); }
	Ok(EntD { name: l[0].as_string()?, attr: l[1].as_nat()?, content: cont_from(&l[2])? })
}
/// `IndexMap` semantics for repeated names (replace in place), as `jarOfList` in the model
fn jar_from(s: &Sexp) -> R<Vec<EntD>> {
	let mut m: IndexMap<String, EntD> = IndexMap::new();
	for e in list_from(s, ent_from)? { m.insert(e.name.clone(), e); }
	Ok(m.into_values().collect())
}
fn jar_to(j: &[EntD]) -> Sexp { list_to(j, ent_to) }

// ------------------------------------------------------------------ descriptions <-> duke trees

const VERSIONS: &[(usize, Version)] = &[(45, Version::V1_1), (49, Version::V1_5), (50, Version::V1_6), (52, Version::V1_8), (55, Version::V11), (61, Version::V17), (65, Version::V21)];

fn js(s: &str) -> JavaString { JavaString::from(s.to_owned()) }
fn es<T, E: std::fmt::Display>(r: Result<T, E>) -> R<T> { r.map_err(|e| e.to_string()) }
fn ocn(s: &str) -> R<ObjClassName> { es(ObjClassName::try_from(js(s))) }
fn fdesc(s: &str) -> R<FieldDescriptor> { es(FieldDescriptor::try_from(js(s))) }

fn env_ann(side: Side) -> R<Annotation> {
	Ok(Annotation {
		annotation_type: fdesc("Lnet/fabricmc/api/Environment;")?,
		element_value_pairs: vec![ElementValuePair { name: js("value"), value: ElementValue::Enum {
			type_name: fdesc("Lnet/fabricmc/api/EnvType;")?,
			const_name: js(match side { Side::C => "CLIENT", Side::S => "SERVER" }),
		} }],
	})
}
fn itf_ann(side: Side, itf: &str) -> R<ElementValue> {
	Ok(ElementValue::AnnotationInterface(Annotation {
		annotation_type: fdesc("Lnet/fabricmc/api/EnvironmentInterface;")?,
		element_value_pairs: vec![
			ElementValuePair { name: js("value"), value: ElementValue::Enum {
				type_name: fdesc("Lnet/fabricmc/api/EnvType;")?,
				const_name: js(match side { Side::C => "CLIENT", Side::S => "SERVER" }),
			} },
			ElementValuePair { name: js("itf"), value: ElementValue::Class(fdesc(&format!("L{itf};"))?.into()) },
		],
	}))
}
fn ann_build(a: &AnnD) -> R<Annotation> {
	match a {
		AnnD::Env(s) => env_ann(*s),
		AnnD::Itfs(ms) => Ok(Annotation {
			annotation_type: fdesc("Lnet/fabricmc/api/EnvironmentInterfaces;")?,
			element_value_pairs: vec![ElementValuePair { name: js("value"),
				value: ElementValue::ArrayType(ms.iter().map(|(s, i)| itf_ann(*s, i)).collect::<R<_>>()?) }],
		}),
		AnnD::Other(n) => Ok(Annotation::new(fdesc(&format!("Lann/A{n};"))?)),
	}
}
/// independent reading of an annotation: structural comparison with what the property text asks for
fn ann_read(a: &Annotation) -> AnnD {
	for s in [Side::C, Side::S] {
		if env_ann(s).map(|e| e == *a).unwrap_or(false) { return AnnD::Env(s); }
	}
	let t = a.annotation_type.as_inner().to_string();
	if t == "Lnet/fabricmc/api/EnvironmentInterfaces;" && a.element_value_pairs.len() == 1 && a.element_value_pairs[0].name == js("value") {
		if let ElementValue::ArrayType(xs) = &a.element_value_pairs[0].value {
			let mut marks = Vec::new();
			for x in xs {
				let mut found = None;
				if let ElementValue::AnnotationInterface(inner) = x {
					if let Some(ElementValuePair { value: ElementValue::Class(cd), .. }) = inner.element_value_pairs.get(1) {
						let d = cd.as_inner().to_string();
						if let Some(itf) = d.strip_prefix('L').and_then(|d| d.strip_suffix(';')) {
							for s in [Side::C, Side::S] {
								if itf_ann(s, itf).map(|e| e == *x).unwrap_or(false) { found = Some((s, itf.to_owned())); }
							}
						}
					}
				}
				match found { Some(m) => marks.push(m), None => return AnnD::Other(999_999) }
			}
			return AnnD::Itfs(marks);
		}
	}
	if a.element_value_pairs.is_empty() {
		if let Some(n) = t.strip_prefix("Lann/A").and_then(|x| x.strip_suffix(';')).and_then(|x| x.parse().ok()) { return AnnD::Other(n); }
	}
	AnnD::Other(999_998)
}

fn field_build(m: &MemD) -> R<Field> {
	let mut f = Field::new(FieldAccess::from(m.access as u16), es(FieldName::try_from(js(&m.name)))?, fdesc(&m.desc)?);
	f.has_deprecated_attribute = m.dep;
	f.has_synthetic_attribute = m.syn;
	if m.payload > 0 { f.constant_value = Some(ConstantValue::Integer(m.payload as i32)); }
	f.runtime_invisible_annotations = m.anns.iter().map(ann_build).collect::<R<_>>()?;
	Ok(f)
}
fn field_read(f: &Field) -> MemD {
	MemD { name: f.name.as_inner().to_string(), desc: f.descriptor.as_inner().to_string(), access: u16::from(f.access) as usize,
		dep: f.has_deprecated_attribute, syn: f.has_synthetic_attribute,
		payload: match &f.constant_value { None => 0, Some(ConstantValue::Integer(n)) => *n as usize, Some(_) => 999_999 },
		anns: f.runtime_invisible_annotations.iter().map(ann_read).collect() }
}
fn method_build(m: &MemD) -> R<Method> {
	let mut f = Method::new(MethodAccess::from(m.access as u16), es(MethodName::try_from(js(&m.name)))?, es(MethodDescriptor::try_from(js(&m.desc)))?);
	f.has_deprecated_attribute = m.dep;
	f.has_synthetic_attribute = m.syn;
	if m.payload > 0 { f.exceptions = Some(vec![es(ClassName::try_from(js(&format!("ex/E{}", m.payload))))?]); }
	f.runtime_invisible_annotations = m.anns.iter().map(ann_build).collect::<R<_>>()?;
	Ok(f)
}
fn method_read(f: &Method) -> MemD {
	MemD { name: f.name.as_inner().to_string(), desc: f.descriptor.as_inner().to_string(), access: u16::from(f.access) as usize,
		dep: f.has_deprecated_attribute, syn: f.has_synthetic_attribute,
		payload: match &f.exceptions {
			None => 0,
			Some(v) if v.len() == 1 => v[0].as_inner().to_string().strip_prefix("ex/E").and_then(|x| x.parse().ok()).unwrap_or(999_999),
			Some(_) => 999_998,
		},
		anns: f.runtime_invisible_annotations.iter().map(ann_read).collect() }
}
fn class_build(c: &ClsD) -> R<ClassFile> {
	let version = VERSIONS.iter().find(|(n, _)| *n == c.version).ok_or("unknown version")?.1;
	let mut cf = ClassFile::new(version, ClassAccess::from(c.access as u16), ocn(&c.name)?,
		match &c.sup { None => None, Some(s) => Some(ocn(s)?) }, c.itfs.iter().map(|i| ocn(i)).collect::<R<_>>()?);
	cf.fields = c.fields.iter().map(field_build).collect::<R<_>>()?;
	cf.methods = c.methods.iter().map(method_build).collect::<R<_>>()?;
	cf.has_deprecated_attribute = c.dep;
	cf.has_synthetic_attribute = c.syn;
	if !c.inners.is_empty() {
		cf.inner_classes = Some(c.inners.iter().map(|i| Ok(InnerClass {
			inner_class: es(ClassName::try_from(js(&i.name)))?, outer_class: None, inner_name: None, flags: InnerClassFlags::from(i.flags as u16),
		})).collect::<R<_>>()?);
	}
	if c.payload > 0 { cf.source_file = Some(js(&format!("S{}", c.payload))); }
	cf.runtime_visible_annotations = c.vis.iter().map(ann_build).collect::<R<_>>()?;
	cf.runtime_invisible_annotations = c.invis.iter().map(ann_build).collect::<R<_>>()?;
	Ok(cf)
}
fn class_read(cf: &ClassFile) -> ClsD {
	ClsD {
		version: VERSIONS.iter().find(|(_, v)| *v == cf.version).map(|x| x.0).unwrap_or(0),
		access: u16::from(cf.access) as usize,
		name: cf.name.as_inner().to_string(),
		sup: cf.super_class.as_ref().map(|s| s.as_inner().to_string()),
		itfs: cf.interfaces.iter().map(|i| i.as_inner().to_string()).collect(),
		fields: cf.fields.iter().map(field_read).collect(),
		methods: cf.methods.iter().map(method_read).collect(),
		dep: cf.has_deprecated_attribute, syn: cf.has_synthetic_attribute,
		inners: cf.inner_classes.iter().flatten().map(|i| InnD { name: i.inner_class.as_inner().to_string(), flags: u16::from(i.flags) as usize }).collect(),
		payload: match &cf.source_file { None => 0, Some(s) => s.to_string().strip_prefix('S').and_then(|x| x.parse().ok()).unwrap_or(999_999) },
		vis: cf.runtime_visible_annotations.iter().map(ann_read).collect(),
		invis: cf.runtime_invisible_annotations.iter().map(ann_read).collect(),
	}
}

type PJ = ParsedJar<ClassRepr, Vec<u8>>;

fn attr_build(n: usize) -> BasicFileAttributes {
	BasicFileAttributes { mtime: if n == 0 { None } else { Some(n as u32) }, ..BasicFileAttributes::default() }
}
// ---- stored (`v`) class bytes: written by the harness' own assembler (`fvh::c01model::assemble`, no code of /repo) under
// non-default choices — pool order shuffled, duplicate and unused pool entries, attribute order shuffled, annotation
// attributes split, wide forms — so that they are NOT a fixed point of duke's read / write: an entry that is passed through
// verbatim keeps these bytes, one that went through the class reader and writer does not.

fn g_ann(a: &AnnD) -> GAnno {
	let env = |s: &Side| (gm::js("value"), GElem::Enum(gm::js("Lnet/fabricmc/api/EnvType;"), gm::js(match s { Side::C => "CLIENT", Side::S => "SERVER" })));
	match a {
		AnnD::Env(s) => GAnno { ty: gm::js("Lnet/fabricmc/api/Environment;"), pairs: vec![env(s)] },
		AnnD::Itfs(ms) => GAnno { ty: gm::js("Lnet/fabricmc/api/EnvironmentInterfaces;"), pairs: vec![(gm::js("value"), GElem::Arr(ms.iter().map(|(s, i)|
			GElem::Anno(GAnno { ty: gm::js("Lnet/fabricmc/api/EnvironmentInterface;"), pairs: vec![env(s), (gm::js("itf"), GElem::Cls(gm::js(&format!("L{i};"))))] })).collect()))] },
		AnnD::Other(n) => GAnno { ty: gm::js(&format!("Lann/A{n};")), pairs: vec![] },
	}
}
fn g_class(c: &ClsD) -> GClass {
	GClass {
		minor: if c.version == 45 { 3 } else { 0 }, major: c.version as u16, access: c.access as u16, name: gm::js(&c.name),
		super_: c.sup.as_ref().map(|s| gm::js(s)), interfaces: c.itfs.iter().map(|i| gm::js(i)).collect(),
		fields: c.fields.iter().map(|m| GField { access: m.access as u16, name: gm::js(&m.name), desc: gm::js(&m.desc), deprecated: m.dep, synthetic: m.syn,
			constant: if m.payload > 0 { Some(GConst::Int(m.payload as i32)) } else { None }, ria: m.anns.iter().map(g_ann).collect(), ..Default::default() }).collect(),
		methods: c.methods.iter().map(|m| GMethod { access: m.access as u16, name: gm::js(&m.name), desc: gm::js(&m.desc), deprecated: m.dep, synthetic: m.syn,
			exceptions: if m.payload > 0 { Some(vec![gm::js(&format!("ex/E{}", m.payload))]) } else { None }, ria: m.anns.iter().map(g_ann).collect(), ..Default::default() }).collect(),
		deprecated: c.dep, synthetic: c.syn,
		inner_classes: if c.inners.is_empty() { None } else { Some(c.inners.iter().map(|i| (gm::js(&i.name), None, None, i.flags as u16)).collect()) },
		source_file: if c.payload > 0 { Some(gm::js(&format!("S{}", c.payload))) } else { None },
		rva: c.vis.iter().map(g_ann).collect(), ria: c.invis.iter().map(g_ann).collect(),
		..Default::default()
	}
}
const STORED_CHOICES: gm::Choices = gm::Choices { dup_pct: 10, junk: 3, shuffle_pool: true, shuffle_attrs: true, wide_pct: 100, split_tables: true, pad_byte: 0 };
/// a function of the description alone (the generator of the choices is seeded by the description's text): equal
/// descriptions are stored as equal bytes, on either side
fn stored_bytes(c: &ClsD) -> R<Vec<u8>> {
	let seed = cls_to(c).to_string().bytes().fold(0xcbf29ce484222325u64, |h, b| (h ^ b as u64).wrapping_mul(0x100000001b3));
	let g = g_class(c);
	catch_unwind(AssertUnwindSafe(|| gm::assemble(&g, &STORED_CHOICES, &mut Rng::new(seed)))).map_err(|_| "class not encodable".to_owned())
}

/// `other` = the jar on the other side. The model identifies "the written bytes are equal" with "the descriptions are
/// equal" (Model/MergeJar.lean); for a stored class that meets the same description in *parsed* form on the other side this
/// holds only if the stored bytes are what the class writer produces, so that one case keeps the writer's bytes. Decided
/// on the two descriptions of the request.
fn jar_build(es_: &[EntD], other: &[EntD]) -> R<PJ> {
	let mut entries = IndexMap::new();
	for e in es_ {
		let content = match &e.content {
			ContD::Dir => JarEntryEnum::Dir,
			ContD::Other(d) => JarEntryEnum::Other(d.clone()),
			ContD::Class(vec, c) => {
				let class = class_build(c)?;
				JarEntryEnum::Class(if *vec {
					let meets_parsed_twin = other.iter().any(|o| o.name == e.name && matches!(&o.content, ContD::Class(false, c2) if c2 == c));
					let data = if meets_parsed_twin {
						let mut data = Vec::new();
						es(duke::write_class(&mut data, &class))?;
						data
					} else { stored_bytes(c)? };
					ClassRepr::Vec { data }
				} else { ClassRepr::Parsed { class } })
			}
		};
		entries.insert(e.name.clone(), ParsedJarEntry { attr: attr_build(e.attr), content });
	}
	Ok(ParsedJar { entries })
}
fn jar_read(j: &PJ) -> AResult<Vec<EntD>> {
	let mut out = Vec::new();
	for (name, e) in &j.entries {
		let content = match &e.content {
			JarEntryEnum::Dir => ContD::Dir,
			JarEntryEnum::Other(d) => ContD::Other(d.clone()),
			JarEntryEnum::Class(ClassRepr::Parsed { class }) => ContD::Class(false, class_read(class)),
			JarEntryEnum::Class(ClassRepr::Vec { data }) => ContD::Class(true, class_read(&duke::read_class(&mut Cursor::new(data))?)),
		};
		out.push(EntD { name: name.clone(), attr: e.attr.mtime.unwrap_or(0) as usize, content });
	}
	Ok(out)
}

/// outcome of the real `merge`: `Ok`, `Err`, or a caught panic named by its site
enum MOut { Ok(PJ), Err, Panic(&'static str) }

thread_local! { static PANIC_FILE: std::cell::RefCell<String> = const { std::cell::RefCell::new(String::new()) }; }

/// runs the real code under `catch_unwind` (own panic hook for the duration of the call, to learn the location).
/// Since 9bfd462 merge.rs has no reachable panic; one that happens anyway is reported with the site `merge.rs` (its
/// location is in dukebox/src/merge.rs) or `other`, which the model never predicts
fn run_merge(client: &[EntD], server: &[EntD]) -> R<MOut> {
	let c = jar_build(client, server)?;
	let s = jar_build(server, client)?;
	let prev = std::panic::take_hook();
	std::panic::set_hook(Box::new(|info| {
		let f = info.location().map(|l| l.file().to_owned()).unwrap_or_default();
		PANIC_FILE.with(|p| *p.borrow_mut() = f);
	}));
	let res = catch_unwind(AssertUnwindSafe(move || dukebox::merge::merge(c, s)));
	std::panic::set_hook(prev);
	Ok(match res {
		Ok(Ok(j)) => MOut::Ok(j),
		Ok(Err(_)) => MOut::Err,
		Err(payload) => {
			drop(payload);
			let in_merge_rs = PANIC_FILE.with(|p| p.borrow().ends_with("dukebox/src/merge.rs"));
			MOut::Panic(if in_merge_rs { "merge.rs" } else { "other" })
		}
	})
}
fn panic_ans(site: &str) -> Ans { Ans::Ok(Sexp::list(vec![Sexp::tag("panic"), Sexp::tag(site)])) }

// ------------------------------------------------------------------ mpo through the public API

const T_NAME: &str = "net/minecraft/T";
const T_ENTRY: &str = "net/minecraft/T.class";

fn base_class() -> ClsD {
	ClsD { version: 52, access: 0x21, name: T_NAME.into(), sup: Some("java/lang/Object".into()), itfs: vec![], fields: vec![], methods: vec![],
		dep: false, syn: false, inners: vec![], payload: 0, vis: vec![], invis: vec![] }
}
fn mem(name: String, desc: &str) -> MemD { MemD { name, desc: desc.into(), access: 1, dep: false, syn: false, payload: 0, anns: vec![] } }

/// two one-class jars whose classes differ in exactly the chosen list (plus one client-only member of another kind that
/// keeps the two classes different when the lists are equal); the merged order is read back
fn mpo_impl(mode: &str, a: &[usize], b: &[usize]) -> R<AResult<Vec<usize>>> {
	let mk = |xs: &[usize], client: bool| -> R<ClsD> {
		let mut c = base_class();
		match mode {
			"itf" => { c.itfs = xs.iter().map(|k| format!("k/K{k}")).collect(); if client { c.fields.push(mem("zz".into(), "I")); } }
			"fld" => { c.fields = xs.iter().map(|k| mem(format!("k{k}"), "I")).collect(); if client { c.methods.push(mem("zz".into(), "()V")); } }
			"mth" => { c.methods = xs.iter().map(|k| mem(format!("k{k}"), "()V")).collect(); if client { c.fields.push(mem("zz".into(), "I")); } }
			"inn" => { c.inners = xs.iter().map(|k| InnD { name: format!("k/K{k}"), flags: 1 }).collect(); if client { c.fields.push(mem("zz".into(), "I")); } }
			_ => return Err("bad mode".into()),
		}
		Ok(c)
	};
	let ent = |c: ClsD| vec![EntD { name: T_ENTRY.into(), attr: 0, content: ContD::Class(false, c) }];
	let r = match run_merge(&ent(mk(a, true)?), &ent(mk(b, false)?))? {
		MOut::Ok(j) => Ok(j),
		MOut::Err => Err(anyhow::anyhow!("err")),
		MOut::Panic(site) => Err(anyhow::anyhow!("panic {site}")),
	};
	Ok(r.and_then(|j| {
		let out = jar_read(&j)?;
		let [EntD { content: ContD::Class(_, c), .. }] = &out[..] else { anyhow::bail!("shape") };
		let names: Vec<String> = match mode {
			"itf" => c.itfs.clone(),
			"fld" => c.fields.iter().map(|m| m.name.clone()).collect(),
			"mth" => c.methods.iter().map(|m| m.name.clone()).collect(),
			_ => c.inners.iter().map(|m| m.name.clone()).collect(),
		};
		names.iter().map(|n| n.trim_start_matches("k/K").trim_start_matches('k').parse::<usize>().map_err(|e| anyhow::anyhow!("{e}"))).collect()
	}))
}

// ------------------------------------------------------------------ domains and oracle checks (simple Rust on descriptions)

fn nodup<T: PartialEq>(xs: &[T]) -> bool { (0..xs.len()).all(|i| !xs[i + 1..].contains(&xs[i])) }
fn is_subseq<T: PartialEq>(xs: &[T], ys: &[T]) -> bool {
	let mut it = ys.iter();
	xs.iter().all(|x| it.any(|y| y == x))
}
fn compatible<T: PartialEq>(a: &[T], b: &[T]) -> bool {
	let fa: Vec<_> = a.iter().filter(|x| b.contains(x)).collect();
	let fb: Vec<_> = b.iter().filter(|x| a.contains(x)).collect();
	fa == fb
}
fn key(m: &MemD) -> (&str, &str) { (&m.name, &m.desc) }
fn keys(ms: &[MemD]) -> Vec<(&str, &str)> { ms.iter().map(key).collect() }
fn inner_names(c: &ClsD) -> Vec<&str> { c.inners.iter().map(|i| i.name.as_str()).collect() }
fn keys_nodup(ms: &[MemD]) -> bool { nodup(&keys(ms)) }
fn no_env(ms: &[MemD]) -> bool { ms.iter().all(|m| m.anns.iter().all(|a| !matches!(a, AnnD::Env(_)))) }
fn shared_flags_ok(c: &[MemD], s: &[MemD]) -> bool {
	c.iter().all(|mc| s.iter().all(|ms| key(mc) != key(ms) || (mc.dep == ms.dep && mc.syn == ms.syn)))
}
fn shared_inners_ok(c: &ClsD, s: &ClsD) -> bool {
	c.inners.iter().all(|ic| s.inners.iter().all(|is| ic.name != is.name || ic == is))
}
fn keys_ok(c: &ClsD, s: &ClsD) -> bool {
	keys_nodup(&c.fields) && keys_nodup(&s.fields) && keys_nodup(&c.methods) && keys_nodup(&s.methods)
		&& nodup(&inner_names(c)) && nodup(&inner_names(s))
}
fn merge_ok(c: &ClsD, s: &ClsD) -> bool {
	c.version == s.version && c.access == s.access && c.name == s.name && c.sup == s.sup && c.dep == s.dep && c.syn == s.syn
		&& keys_ok(c, s)
		&& shared_flags_ok(&c.fields, &s.fields) && shared_flags_ok(&c.methods, &s.methods) && shared_inners_ok(c, s)
}
fn union_domain(c: &ClsD, s: &ClsD) -> bool { merge_ok(c, s) && c != s && nodup(&c.itfs) && nodup(&s.itfs) }
fn marks_domain(c: &ClsD, s: &ClsD) -> bool {
	union_domain(c, s) && no_env(&c.fields) && no_env(&s.fields) && no_env(&c.methods) && no_env(&s.methods)
}

/// every element of either list exactly once; client order; server order when compatible
fn list_check<T: PartialEq>(tag: &str, a: &[T], b: &[T], r: &[T]) -> Option<String> {
	if !(nodup(r) && r.iter().all(|x| a.contains(x) || b.contains(x)) && a.iter().chain(b.iter()).all(|x| r.contains(x))) { return Some(format!("{tag}-union")); }
	if !is_subseq(a, r) { return Some(format!("{tag}-client-order")); }
	if compatible(a, b) && !is_subseq(b, r) { return Some(format!("{tag}-server-order")); }
	None
}
fn union_check(c: &ClsD, s: &ClsD, r: &ClsD) -> Option<String> {
	list_check("fields", &keys(&c.fields), &keys(&s.fields), &keys(&r.fields))
		.or_else(|| list_check("methods", &keys(&c.methods), &keys(&s.methods), &keys(&r.methods)))
		.or_else(|| list_check("itfs", &c.itfs, &s.itfs, &r.itfs))
		.or_else(|| list_check("inners", &inner_names(c), &inner_names(s), &inner_names(r)))
		.or_else(|| if r.inners.iter().all(|i| c.inners.contains(i) || s.inners.contains(i)) { None } else { Some("inner-entry".into()) })
		.or_else(|| if r.version == c.version && r.access == c.access && r.name == c.name && r.sup == c.sup && r.dep == c.dep && r.syn == c.syn
			&& r.payload == c.payload && r.vis == c.vis { None } else { Some("header".into()) })
}
fn marked(m: &MemD, side: Side) -> MemD { let mut e = m.clone(); e.anns.push(AnnD::Env(side)); e }
fn marks_of_members(c: &[MemD], s: &[MemD], r: &[MemD]) -> bool {
	r.iter().all(|m| {
		let mc = c.iter().find(|x| key(x) == key(m));
		let ms = s.iter().find(|x| key(x) == key(m));
		match (mc, ms) {
			(Some(mc), Some(_)) => m == mc,
			(Some(mc), None) => *m == marked(mc, Side::C),
			(None, Some(ms)) => *m == marked(ms, Side::S),
			(None, None) => false,
		}
	})
}
fn env_marks(m: &MemD) -> Vec<Side> { m.anns.iter().filter_map(|a| if let AnnD::Env(s) = a { Some(*s) } else { None }).collect() }
fn mark_counts(c: &[MemD], s: &[MemD], r: &[MemD]) -> bool {
	r.iter().all(|m| {
		let expect = if keys(c).contains(&key(m)) { if keys(s).contains(&key(m)) { vec![] } else { vec![Side::C] } } else { vec![Side::S] };
		env_marks(m) == expect
	})
}
fn marks_of_itfs(c: &ClsD, s: &ClsD, r: &ClsD) -> bool {
	let only1: Vec<&String> = r.itfs.iter().filter(|i| c.itfs.contains(i) != s.itfs.contains(i)).collect();
	if only1.is_empty() { return r.invis == c.invis; }
	match r.invis.last() {
		Some(AnnD::Itfs(marks)) =>
			r.invis[..r.invis.len() - 1] == c.invis[..] && nodup(marks)
			&& marks.iter().all(|(sd, i)| r.itfs.contains(i) && match sd {
				Side::C => c.itfs.contains(i) && !s.itfs.contains(i),
				Side::S => s.itfs.contains(i) && !c.itfs.contains(i),
			})
			&& only1.iter().all(|i| marks.iter().any(|(_, j)| *i == j)),
		_ => false,
	}
}
fn marks_check(c: &ClsD, s: &ClsD, r: &ClsD) -> Option<String> {
	if !marks_of_members(&c.fields, &s.fields, &r.fields) { Some("field-marks".into()) }
	else if !marks_of_members(&c.methods, &s.methods, &r.methods) { Some("method-marks".into()) }
	else if !(mark_counts(&c.fields, &s.fields, &r.fields) && mark_counts(&c.methods, &s.methods, &r.methods)) { Some("mark-count".into()) }
	else if !marks_of_itfs(c, s, r) { Some("itf-marks".into()) }
	else { None }
}

const MANIFEST: &str = "META-INF/MANIFEST.MF";
const MANIFEST_BYTES: &[u8] = b"Manifest-Version: 1.0\nMain-Class: net.minecraft.client.Main\n";
fn is_sig(n: &str) -> bool { n.starts_with("META-INF/") && [".SF", ".RSA", ".DSA", ".EC"].iter().any(|e| n.ends_with(e)) }
fn is_bundled(n: &str) -> bool { n.ends_with(".class") && !n.starts_with("net/minecraft/") && n.contains('/') }
fn jar_domain(c: &[EntD], s: &[EntD]) -> bool {
	c.iter().all(|ce| ce.name == MANIFEST || is_sig(&ce.name) || match s.iter().find(|se| se.name == ce.name) {
		None => true,
		Some(se) => match (&ce.content, &se.content) {
			(ContD::Dir, ContD::Dir) | (ContD::Other(_), ContD::Other(_)) => true,
			(ContD::Class(_, cc), ContD::Class(_, cs)) => cc == cs || merge_ok(cc, cs),
			_ => false,
		},
	})
}
/// what the property (and, where it is silent, the table the theorems state) asks for a one-sided entry
fn one_sided_spec(e: &EntD, side: Side) -> EntD {
	match &e.content {
		ContD::Class(_, c) => { let mut c = c.clone(); c.vis.push(AnnD::Env(side)); EntD { name: e.name.clone(), attr: e.attr, content: ContD::Class(false, c) } }
		_ => e.clone(),
	}
}
/// one entry `e` of the merged jar against the table
fn entry_check(c: &[EntD], s: &[EntD], e: &EntD) -> Option<String> {
	let oc = c.iter().find(|x| x.name == e.name);
	let os = s.iter().find(|x| x.name == e.name);
	let t = |ok: bool, tag: &str| if ok { None } else { Some(tag.to_owned()) };
	if e.name == MANIFEST {
		let attr = match (oc, os) { (Some(c), _) => c.attr, (None, Some(s)) => s.attr, (None, None) => 0 };
		return t(e.attr == attr && e.content == ContD::Other(MANIFEST_BYTES.to_vec()), "manifest");
	}
	match (oc, os) {
		(Some(ce), None) => t(*e == one_sided_spec(ce, Side::C), "client-only"),
		(None, Some(se)) => t(*e == one_sided_spec(se, Side::S), "server-only"),
		(None, None) => Some("extra".into()),
		(Some(ce), Some(se)) => match (&ce.content, &se.content) {
			(ContD::Dir, ContD::Dir) => t(e.attr == ce.attr && e.content == ContD::Dir, "dir"),
			(ContD::Other(dc), ContD::Other(_)) => t(e.attr == ce.attr && e.content == ContD::Other(dc.clone()), "resource"),
			(ContD::Class(_, cc), ContD::Class(_, cs)) => {
				if cc == cs { return t(e == ce, "passthrough"); }
				match &e.content {
					ContD::Class(false, m) => {
						if e.attr != ce.attr { return Some("merged-attr".into()); }
						(if union_domain(cc, cs) { union_check(cc, cs, m) } else { None })
							.or_else(|| if marks_domain(cc, cs) { marks_check(cc, cs, m) } else { None })
					}
					_ => Some("merged-repr".into()),
				}
			}
			_ => Some("kind".into()),
		},
	}
}

// ------------------------------------------------------------------ exec

fn nats(s: &Sexp) -> R<Vec<usize>> { list_from(s, |x| x.as_nat()) }
fn verdict(v: Option<String>) -> Ans { match v { None => Ans::pass(), Some(t) => Ans::fail(&t) } }

fn exec(op: &str, args: &[Sexp]) -> Ans {
	macro_rules! tr { ($e:expr) => { match $e { Ok(x) => x, Err(e) => return Ans::BadOp(e.to_string()) } } }
	match (op, args) {
		("mpo" | "oracle-mpo-once" | "oracle-mpo-client-order" | "oracle-mpo-server-order", [mode, a, b]) => {
			let mode = tr!(mode.as_atom());
			let a = tr!(nats(a)); let b = tr!(nats(b));
			match op {
				"oracle-mpo-once" if !(nodup(&a) && nodup(&b)) => return Ans::out_of_domain(),
				"oracle-mpo-server-order" if !(nodup(&a) && nodup(&b) && compatible(&a, &b)) => return Ans::out_of_domain(),
				_ => {}
			}
			let r = match tr!(mpo_impl(mode, &a, &b)) { Ok(r) => r, Err(_) => return if op == "mpo" { Ans::err() } else { Ans::fail("merge-err") } };
			match op {
				"mpo" => Ans::Ok(Sexp::list(r.iter().map(|n| Sexp::nat(*n)).collect())),
				"oracle-mpo-once" => {
					if !nodup(&r) { Ans::fail("dup") }
					else if !r.iter().all(|x| a.contains(x) || b.contains(x)) { Ans::fail("extra") }
					else if !a.iter().chain(b.iter()).all(|x| r.contains(x)) { Ans::fail("missing") }
					else { Ans::pass() }
				}
				"oracle-mpo-client-order" => if is_subseq(&a, &r) { Ans::pass() } else { Ans::fail("client-order") },
				_ => if is_subseq(&b, &r) { Ans::pass() } else { Ans::fail("server-order") },
			}
		}
		("merge-class" | "oracle-marks" | "oracle-class-union" | "oracle-class-ok-iff" | "oracle-no-panic", [c, s]) => {
			let c = tr!(cls_from(c)); let s = tr!(cls_from(s));
			let dom = match op {
				"oracle-marks" => marks_domain(&c, &s),
				"oracle-class-union" => union_domain(&c, &s),
				"oracle-class-ok-iff" => keys_ok(&c, &s),
				_ => true,
			};
			if !dom { return Ans::out_of_domain(); }
			let ent = |c: &ClsD| vec![EntD { name: "net/minecraft/X.class".into(), attr: 0, content: ContD::Class(false, c.clone()) }];
			// outcome: the merged content, a clean error, or a panic site
			let out: Result<ContD, Option<&'static str>> = match tr!(run_merge(&ent(&c), &ent(&s))) {
				MOut::Panic(site) => Err(Some(site)),
				MOut::Err => Err(None),
				MOut::Ok(j) => match jar_read(&j) {
					Err(_) => Err(None),
					Ok(r) => { let [EntD { content, .. }] = &r[..] else { return Ans::BadOp("shape".into()) }; Ok(content.clone()) }
				},
			};
			match op {
				"merge-class" => match out { Ok(content) => Ans::Ok(cont_to(&content)), Err(None) => Ans::err(), Err(Some(site)) => panic_ans(site) },
				"oracle-class-ok-iff" => {
					let is_ok = out.is_ok();
					if is_ok == merge_ok(&c, &s) { Ans::pass() } else { Ans::fail(if is_ok { "ok-outside-mergeOk" } else { "not-ok-inside-mergeOk" }) }
				}
				"oracle-no-panic" => if matches!(out, Err(Some(_))) { Ans::fail("panic") } else { Ans::pass() },
				_ => match out {
					Err(Some(_)) => Ans::fail("panic"),
					Err(None) => Ans::fail("not-ok"),
					Ok(ContD::Class(_, r)) => verdict(if op == "oracle-marks" { marks_check(&c, &s, &r) } else { union_check(&c, &s, &r) }),
					Ok(_) => Ans::fail("not-ok"),
				},
			}
		}
		("merge-jars" | "oracle-entries" | "oracle-jar-no-panic", [c, s]) => {
			let c = tr!(jar_from(c)); let s = tr!(jar_from(s));
			if op == "oracle-entries" && !jar_domain(&c, &s) { return Ans::out_of_domain(); }
			let merged = tr!(run_merge(&c, &s));
			if op == "oracle-jar-no-panic" { return if matches!(merged, MOut::Panic(_)) { Ans::fail("panic") } else { Ans::pass() }; }
			if op == "merge-jars" {
				return match merged {
					MOut::Ok(j) => match jar_read(&j) { Ok(r) => Ans::Ok(jar_to(&r)), Err(_) => Ans::err() },
					MOut::Err => Ans::err(),
					MOut::Panic(site) => panic_ans(site),
				};
			}
			let j = match merged { MOut::Ok(j) => j, MOut::Err => return Ans::fail("not-ok"), MOut::Panic(_) => return Ans::fail("panic") };
			let Ok(r) = jar_read(&j) else { return Ans::fail("not-ok") };
			// every name of either jar exactly once, minus signature files and bundled server libraries, client first
			let mut expect: Vec<&str> = Vec::new();
			for e in &c { if !is_sig(&e.name) { expect.push(&e.name); } }
			for e in &s {
				if c.iter().any(|ce| ce.name == e.name) || is_sig(&e.name) || is_bundled(&e.name) { continue; }
				expect.push(&e.name);
			}
			if r.iter().map(|e| e.name.as_str()).collect::<Vec<_>>() != expect { return Ans::fail("names"); }
			// every entry against the table
			for e in &r { if let Some(t) = entry_check(&c, &s, e) { return Ans::fail(&t); } }
			// identical classes: the client's representation is passed through (byte-identical for stored bytes)
			let cj = tr!(jar_build(&c, &s));
			for ce in &c {
				if ce.name == MANIFEST || is_sig(&ce.name) { continue; }
				let (ContD::Class(_, cc), Some(EntD { content: ContD::Class(_, cs), .. })) = (&ce.content, s.iter().find(|se| se.name == ce.name)) else { continue };
				if cc != cs { continue; }
				let same = match (cj.entries.get(&ce.name).map(|e| &e.content), j.entries.get(&ce.name).map(|e| &e.content)) {
					(Some(JarEntryEnum::Class(ClassRepr::Vec { data: d1 })), Some(JarEntryEnum::Class(ClassRepr::Vec { data: d2 }))) => d1 == d2,
					(Some(JarEntryEnum::Class(ClassRepr::Parsed { class: c1 })), Some(JarEntryEnum::Class(ClassRepr::Parsed { class: c2 }))) => c1 == c2,
					_ => false,
				};
				if !same { return Ans::fail("passthrough-bytes"); }
			}
			Ans::pass()
		}
		_ => Ans::BadOp("unknown op".into()),
	}
}

// ------------------------------------------------------------------ generators

fn nl(xs: &[usize]) -> Sexp { Sexp::list(xs.iter().map(|n| Sexp::nat(*n)).collect()) }

fn subseq(r: &mut Rng, xs: &[usize], keep_num: usize, keep_den: usize) -> Vec<usize> {
	xs.iter().copied().filter(|_| r.chance(keep_num, keep_den)).collect()
}
fn nodup_list(r: &mut Rng, keys: usize, max_len: usize) -> Vec<usize> {
	let mut all: Vec<usize> = (0..keys).collect();
	r.shuffle(&mut all);
	all.truncate(r.range(0, max_len.min(keys)));
	all
}

/// a pair of key lists of a named shape
fn list_pair(r: &mut Rng) -> (&'static str, Vec<usize>, Vec<usize>) {
	let base = nodup_list(r, 10, 8);
	match r.below(10) {
		0 => ("interleaving", subseq(r, &base, 2, 3), subseq(r, &base, 2, 3)),
		1 => { let k = r.range(0, base.len()); ("prefix", base.clone(), base[..k].to_vec()) }
		2 => { let k = r.range(0, base.len()); ("prefix-rev", base[..k].to_vec(), base.clone()) }
		3 => { let k = r.range(0, base.len()); if r.chance(1, 2) { ("suffix", base.clone(), base[k..].to_vec()) } else { ("suffix", base[k..].to_vec(), base.clone()) } }
		4 => { let mut b = base.clone(); r.shuffle(&mut b); ("permutation", base, b) }
		5 => ("incompatible-overlap", nodup_list(r, 6, 5), nodup_list(r, 6, 5)),
		6 => { let k = r.range(0, base.len()); ("disjoint", base[..k].to_vec(), base[k..].to_vec()) }
		7 => ("identical", base.clone(), base),
		8 => {
			// compatible interleaving with one swapped pair on the server side
			let a = subseq(r, &base, 3, 4); let mut b = subseq(r, &base, 3, 4);
			if b.len() >= 2 { let i = r.below(b.len() - 1); b.swap(i, i + 1); }
			("one-swap", a, b)
		}
		_ => {
			let n = r.range(0, 6); let a = (0..n).map(|_| r.below(4)).collect();
			let n = r.range(0, 6); let b = (0..n).map(|_| r.below(4)).collect();
			("duplicates", a, b)
		}
	}
}

fn all_nodup_lists(keys: usize, max_len: usize) -> Vec<Vec<usize>> {
	let mut out = vec![vec![]];
	let mut frontier = vec![vec![]];
	for _ in 0..max_len {
		let mut next = Vec::new();
		for l in &frontier {
			for k in 0..keys { if !l.contains(&k) { let mut n: Vec<usize> = l.clone(); n.push(k); next.push(n); } }
		}
		out.extend(next.iter().cloned());
		frontier = next;
	}
	out
}

const FIELD_FLAGS: &[usize] = &[0x0001, 0x0002, 0x0019, 0x0000, 0x0012, 0x0044];
const METHOD_FLAGS: &[usize] = &[0x0401, 0x0101, 0x0402, 0x0404, 0x0501];

fn gen_member(r: &mut Rng, k: usize, method: bool, variant: usize) -> MemD {
	let desc = if method { ["()V", "(I)I"][k % 2] } else { ["I", "J"][k % 2] };
	let flags = if method { METHOD_FLAGS } else { FIELD_FLAGS };
	// deprecated / synthetic are functions of the key: members sharing a key never differ in the asserted flags
	let mut m = MemD { name: format!("m{}", k / 2), desc: desc.into(), access: flags[(k + variant) % flags.len()], dep: k % 3 == 0, syn: k % 5 == 1,
		payload: if variant == 0 { 0 } else { variant + k }, anns: vec![] };
	for _ in 0..r.below(3) { if r.chance(1, 3) { m.anns.push(AnnD::Other(r.below(4))); } }
	m
}

/// a mergeable pair of classes (same header), member/interface lists from `list_pair`
fn gen_class_pair(r: &mut Rng, out: &mut Out) -> (ClsD, ClsD) {
	let mut c = base_class();
	c.version = *r.pick(&[49, 52, 61]);
	c.access = *r.pick(&[0x21, 0x20, 0x0421, 0x0601]);
	c.name = format!("net/minecraft/C{}", r.below(3));
	c.sup = if r.chance(1, 8) { None } else { Some("java/lang/Object".into()) };
	c.dep = r.chance(1, 6);
	c.syn = r.chance(1, 6);
	let mut s = c.clone();
	c.payload = r.below(3);
	s.payload = r.below(3);
	for _ in 0..r.below(2) { c.vis.push(AnnD::Other(r.below(3))); }
	for _ in 0..r.below(2) { s.vis.push(AnnD::Other(r.below(3))); }
	for _ in 0..r.below(2) { c.invis.push(AnnD::Other(r.below(3))); }
	if r.chance(1, 10) { c.invis.push(AnnD::Itfs(vec![(Side::C, "old/I".into())])); }
	let (shape, a, b) = list_pair(r);
	out.stats.hit(&format!("class-itfs:{shape}"));
	c.itfs = a.iter().map(|k| format!("i/I{k}")).collect();
	s.itfs = b.iter().map(|k| format!("i/I{k}")).collect();
	for method in [false, true] {
		let (shape, a, b) = list_pair(r);
		out.stats.hit(&format!("class-{}:{shape}", if method { "methods" } else { "fields" }));
		let differ = r.chance(1, 3);
		let ca: Vec<MemD> = a.iter().map(|k| gen_member(r, *k, method, 0)).collect();
		let sb: Vec<MemD> = b.iter().map(|k| {
			let variant = if differ && r.chance(1, 2) { r.range(1, 3) } else { 0 };
			let fresh = gen_member(r, *k, method, variant);
			if variant == 0 {
				if let Some(m) = ca.iter().find(|m| key(m) == key(&fresh)) { return m.clone(); } // shared and equal
			}
			fresh
		}).collect();
		if method { c.methods = ca; s.methods = sb; } else { c.fields = ca; s.fields = sb; }
	}
	// inner classes: shared entries equal, some one-sided
	let (shape, a, b) = list_pair(r);
	if nodup(&a) && nodup(&b) {
		out.stats.hit(&format!("class-inners:{shape}"));
		c.inners = a.iter().take(4).map(|k| InnD { name: format!("net/minecraft/C0$I{k}"), flags: [1, 9, 0x19][k % 3] }).collect();
		s.inners = b.iter().take(4).map(|k| InnD { name: format!("net/minecraft/C0$I{k}"), flags: [1, 9, 0x19][k % 3] }).collect();
	}
	(c, s)
}

/// push the pair into one of the refusal regions of `class_merger_merge` (all clean errors since 9bfd462) or keep it mergeable
fn class_case(r: &mut Rng, out: &mut Out, c: &mut ClsD, s: &mut ClsD) {
	let flip_shared = |c: &ClsD, s: &mut ClsD, methods: bool, r: &mut Rng| -> bool {
		let (cm, sm) = if methods { (&c.methods, &mut s.methods) } else { (&c.fields, &mut s.fields) };
		let shared: Vec<usize> = (0..sm.len()).filter(|i| cm.iter().any(|m| key(m) == key(&sm[*i]))).collect();
		if shared.is_empty() { return false; }
		let i = *r.pick(&shared);
		if r.chance(1, 2) { sm[i].dep = !sm[i].dep; } else { sm[i].syn = !sm[i].syn; }
		true
	};
	match r.below(32) {
		0 | 1 => { *s = c.clone(); out.stats.hit("class-case:identical"); }
		2 => { s.name = "net/minecraft/Other".into(); out.stats.hit("class-case:name-differs(err)"); }
		3 => { s.sup = Some("net/minecraft/Base".into()); out.stats.hit("class-case:super-differs(err)"); }
		4 => {
			// pre-existing side marks (a re-merge); outside the marks domain
			if let Some(m) = c.fields.first_mut() { m.anns.push(AnnD::Env(Side::S)); }
			if let Some(m) = s.methods.first_mut() { m.anns.push(AnnD::Env(Side::C)); }
			out.stats.hit("class-case:pre-marked");
		}
		5 => { s.version = if c.version == 52 { 61 } else { 52 }; out.stats.hit("class-case:version-differs(err, was panic)"); }
		6 => { s.access = c.access ^ *r.pick(&[0x10, 0x01, 0x1000]); out.stats.hit("class-case:access-differs(err, was panic)"); }
		7 => { if r.chance(1, 2) { s.dep = !c.dep; } else { s.syn = !c.syn; } out.stats.hit("class-case:class-dep-syn-differs(err, was panic)"); }
		8 => { let m = r.chance(1, 2); out.stats.hit(if flip_shared(c, s, m, r) { "class-case:shared-member-flag-differs(err, was panic)" } else { "class-case:mergeable" }); }
		9 => {
			let shared: Vec<usize> = (0..s.inners.len()).filter(|i| c.inners.iter().any(|x| x.name == s.inners[*i].name)).collect();
			if shared.is_empty() { out.stats.hit("class-case:mergeable"); } else {
				let i = *r.pick(&shared); s.inners[i].flags ^= 0x8;
				out.stats.hit("class-case:shared-inner-differs(err, was panic)");
			}
		}
		10 => { s.name = "net/minecraft/Other".into(); s.access = c.access ^ 0x10; out.stats.hit("class-case:name+access-differ(err)"); }
		11 => { s.sup = Some("net/minecraft/Base".into()); let m = r.chance(1, 2); flip_shared(c, s, m, r); out.stats.hit("class-case:super+member-flag-differ(err)"); }
		12 => {
			// a repeated key on one side (IndexMap::collect keeps the last); outside keysOk
			if let Some(m) = c.fields.first().cloned() { c.fields.push(MemD { payload: m.payload + 5, ..m }); }
			if let Some(m) = s.methods.last().cloned() { s.methods.insert(0, MemD { access: 0x0401, ..m }); }
			out.stats.hit("class-case:duplicate-keys");
		}
		13 => { let m = r.chance(1, 2); flip_shared(c, s, m, r); if let Some(i) = s.inners.first_mut() { i.flags ^= 1; } out.stats.hit("class-case:member-flag+inner(err)"); }
		_ => out.stats.hit("class-case:mergeable"),
	}
}

const NAMES: &[&str] = &[
	"net/minecraft/A.class", "net/minecraft/B.class", "net/minecraft/sub/D.class", "C.class", "com/google/Lib.class", "org/x/Y.class",
	"net/minecraftx/Z.class", "META-INF/MANIFEST.MF", "META-INF/MOJANG.SF", "META-INF/MOJANG.RSA", "META-INF/versions.list",
	"META-INF/sub/X.SF", "META-INF/", "other/a.SF", "assets/x.png", "data/", "pack.mcmeta", "net/minecraft/", "log4j2.xml", "com/lib/res.class",
	"META-INF/MOJANG.DSA", "META-INF/X.EC", "META-INF/x.sf", "net/minecraft/server/Main.class", "META-INFO/x.SF", "a/META-INF/y.RSA",
	"net/minecraft", "lib.class/x",
];

fn gen_jar_pair(r: &mut Rng, out: &mut Out, allow_mismatch: bool) -> (Vec<EntD>, Vec<EntD>) {
	let mut names: Vec<&str> = NAMES.to_vec();
	r.shuffle(&mut names);
	names.truncate(r.range(0, 9));
	let (mut cj, mut sj) = (Vec::new(), Vec::new());
	for n in names {
		let where_ = r.below(3); // 0 client, 1 server, 2 both
		out.stats.hit(["entry:client-only", "entry:server-only", "entry:both"][where_]);
		let is_class = n.ends_with(".class") && n != "com/lib/res.class";
		let (cc, sc) = if is_class {
			let (mut c, mut s) = gen_class_pair(r, out);
			match r.below(3) {
				0 => { s = c.clone(); out.stats.hit("class-pair:identical"); }
				_ => { if c.itfs.len() + c.fields.len() > 6 { c.fields.truncate(2); s.fields.truncate(2); } out.stats.hit("class-pair:differing"); }
			}
			if allow_mismatch && where_ == 2 && r.chance(1, 4) { class_case(r, out, &mut c, &mut s); }
			(ContD::Class(r.chance(1, 2), c), ContD::Class(r.chance(1, 2), s))
		} else if n.ends_with('/') {
			(ContD::Dir, ContD::Dir)
		} else {
			let d: Vec<u8> = (0..r.below(5)).map(|_| r.below(256) as u8).collect();
			let d2 = if r.chance(1, 2) { d.clone() } else { vec![r.below(256) as u8] };
			if where_ == 2 { out.stats.hit(if d == d2 { "resource:equal" } else { "resource:different" }); }
			(ContD::Other(d), ContD::Other(d2))
		};
		let mut sc = sc;
		if allow_mismatch && where_ == 2 && r.chance(1, 4) {
			sc = match sc { ContD::Dir => ContD::Other(vec![1]), ContD::Other(_) => ContD::Dir, ContD::Class(..) => ContD::Other(vec![0xca, 0xfe]) };
			out.stats.hit("entry:type-mismatch");
		}
		if where_ != 1 { cj.push(EntD { name: n.into(), attr: r.below(4), content: cc }); }
		if where_ != 0 { sj.push(EntD { name: n.into(), attr: r.below(4), content: sc }); }
	}
	r.shuffle(&mut sj);
	(cj, sj)
}

fn mpo_ops(out: &mut Out, mode: &str, a: &[usize], b: &[usize], all: bool) {
	let args = [Sexp::tag(mode), nl(a), nl(b)];
	out.op("mpo", &args);
	out.op("oracle-mpo-server-order", &args);
	if all {
		out.op("oracle-mpo-once", &args);
		out.op("oracle-mpo-client-order", &args);
	}
}
fn class_ops(out: &mut Out, c: &ClsD, s: &ClsD) {
	let args = [cls_to(c), cls_to(s)];
	for op in ["merge-class", "oracle-marks", "oracle-class-union", "oracle-class-ok-iff", "oracle-no-panic"] { out.op(op, &args); }
}
fn jar_ops(out: &mut Out, c: &[EntD], s: &[EntD]) {
	let args = [jar_to(c), jar_to(s)];
	out.op("merge-jars", &args);
	out.op("oracle-entries", &args);
	out.op("oracle-jar-no-panic", &args);
}

fn gen(r: &mut Rng, tier: Tier, out: &mut Out) {
	let thorough = tier == Tier::Thorough;
	// `Rng::new(seed)` is linear in the seed with the stream's own increment, so the stream of seed n+1 is the stream of
	// seed n shifted by one draw; forking (state := one mixed output) makes the runs of different seeds unrelated
	let mut forked = r.fork();
	let r = &mut forked;
	// fixed regression list: past defects stay detectable
	//  - before the fix `merge_preserve_order` answered client ++ (server \\ client): [x] + [y,x] gave [x,y]
	for (a, b) in [(vec![0], vec![1, 0]), (vec![0, 1], vec![0, 2, 1]), (vec![1, 2], vec![0, 1, 3, 2, 4]), (vec![0, 1], vec![1, 0])] {
		for mode in ["itf", "fld", "mth", "inn"] { mpo_ops(out, mode, &a, &b, true); }
	}
	// the regression inputs of Thm/C13.lean (`merge_class_*_regression_fixed`, `merge_jar_regression_fixed`): panicked before 9bfd462, `err e` now
	{
		let w = ClsD { name: "net/minecraft/A".into(), ..base_class() };
		let f = |dep: bool| MemD { dep, ..mem("f".into(), "I") };
		let inn = |flags: usize| InnD { name: "net/minecraft/A$B".into(), flags };
		let pairs = [
			(w.clone(), ClsD { access: 0x31, ..w.clone() }),
			(w.clone(), ClsD { version: 61, ..w.clone() }),
			(ClsD { fields: vec![f(false)], ..w.clone() }, ClsD { fields: vec![f(true)], ..w.clone() }),
			(ClsD { inners: vec![inn(8)], ..w.clone() }, ClsD { inners: vec![inn(9)], ..w.clone() }),
			(w.clone(), ClsD { sup: Some("net/minecraft/B".into()), ..w.clone() }),
		];
		for (c, s) in &pairs {
			out.stats.hit("witness-pair");
			class_ops(out, c, s);
			let ent = |c: &ClsD| vec![EntD { name: "net/minecraft/A.class".into(), attr: 0, content: ContD::Class(false, c.clone()) }];
			jar_ops(out, &ent(c), &ent(s));
		}
	}
	// exhaustive small scope: all pairs of duplicate-free lists
	let lists = if thorough { all_nodup_lists(5, 4) } else { all_nodup_lists(4, 3) };
	out.stats.add("exhaustive-list-pairs", (lists.len() * lists.len()) as u64);
	for (i, a) in lists.iter().enumerate() {
		for (j, b) in lists.iter().enumerate() {
			let mode = ["itf", "fld", "mth", "inn"][(i + j) % 4];
			mpo_ops(out, mode, a, b, thorough || (i + 2 * j) % 3 == 0);
		}
	}
	// random shaped pairs
	let rounds = if thorough { 20000 } else { 600 };
	for _ in 0..rounds {
		let (shape, a, b) = list_pair(r);
		out.stats.hit(&format!("list-pair:{shape}"));
		out.stats.hit(&format!("list-pair-compatible:{}", nodup(&a) && nodup(&b) && compatible(&a, &b)));
		let mode = *r.pick(&["itf", "fld", "mth", "inn"]);
		mpo_ops(out, mode, &a, &b, true);
	}
	// class pairs
	let rounds = if thorough { 15000 } else { 600 };
	for _ in 0..rounds {
		let (mut c, mut s) = gen_class_pair(r, out);
		class_case(r, out, &mut c, &mut s);
		class_ops(out, &c, &s);
	}
	// the entry table, exhaustively: every name kind x where x entry kinds (one entry per jar)
	{
		let bc = base_class();
		let other_class = ClsD { payload: 2, itfs: vec!["i/I".into()], ..bc.clone() };
		let kinds: Vec<(&str, ContD)> = vec![
			("dir", ContD::Dir), ("res1", ContD::Other(vec![1, 2])), ("res2", ContD::Other(vec![3])),
			("cls-parsed", ContD::Class(false, bc.clone())), ("cls-vec", ContD::Class(true, bc.clone())), ("cls-other", ContD::Class(true, other_class)),
		];
		for n in NAMES {
			for (_, kc) in &kinds {
				let ce = EntD { name: (*n).into(), attr: 1, content: kc.clone() };
				jar_ops(out, &[ce.clone()], &[]);
				jar_ops(out, &[], &[EntD { attr: 2, ..ce.clone() }]);
				for (_, ks) in &kinds {
					out.stats.hit("table-exhaustive:both");
					jar_ops(out, &[ce.clone()], &[EntD { name: (*n).into(), attr: 2, content: ks.clone() }]);
				}
			}
		}
	}
	// jars
	let rounds = if thorough { 8000 } else { 400 };
	for i in 0..rounds {
		let (c, s) = gen_jar_pair(r, out, i % 4 == 0);
		jar_ops(out, &c, &s);
	}
	// malformed / edge stream
	jar_ops(out, &[], &[]);
	let dir = |n: &str| EntD { name: n.into(), attr: 1, content: ContD::Dir };
	let oth = |n: &str, d: &[u8]| EntD { name: n.into(), attr: 2, content: ContD::Other(d.to_vec()) };
	let cls = |n: &str, c: &ClsD| EntD { name: n.into(), attr: 3, content: ContD::Class(false, c.clone()) };
	let bc = base_class();
	let edge: Vec<(Vec<EntD>, Vec<EntD>)> = vec![
		(vec![dir("a/")], vec![oth("a/", b"x")]),                                   // type mismatch
		(vec![oth("a", b"x")], vec![cls("a", &bc)]),                                 // type mismatch
		(vec![cls("a.class", &bc)], vec![dir("a.class")]),                           // type mismatch
		(vec![dir(MANIFEST)], vec![cls(MANIFEST, &bc)]),                             // manifest wins over everything
		(vec![], vec![dir(MANIFEST)]),
		(vec![dir("META-INF/X.SF")], vec![oth("META-INF/X.SF", b"y")]),              // signature file before the type check
		(vec![], vec![oth("lib/a.class", b"z"), dir("lib/b.class"), oth("c.class", b"")]), // bundled rule is name based
		(vec![oth("lib/a.class", b"1")], vec![oth("lib/a.class", b"2")]),            // both sides: not skipped, client wins
		(vec![cls("net/minecraft/T.class", &bc)], vec![cls("net/minecraft/T.class", &ClsD { name: "net/minecraft/U".into(), ..bc.clone() })]),
		(vec![cls("x.class", &bc), cls("x.class", &ClsD { payload: 2, ..bc.clone() })], vec![]), // repeated name: IndexMap keeps the last
		// an error in a later entry after a kept one; a refused class after an error-free prefix; two failing entries
		(vec![oth("a", b"x"), dir("b")], vec![oth("b", b"x")]),
		(vec![oth("a", b"x"), cls("p.class", &bc)], vec![cls("p.class", &ClsD { access: 0x31, ..bc.clone() })]),
		(vec![dir("b"), cls("p.class", &bc)], vec![cls("p.class", &ClsD { access: 0x31, ..bc.clone() }), oth("b", b"x")]),
		(vec![cls("p.class", &bc), dir("b")], vec![cls("p.class", &ClsD { access: 0x31, ..bc.clone() }), oth("b", b"x")]),
	];
	for (c, s) in &edge {
		out.stats.hit("edge-jar");
		jar_ops(out, c, s);
	}
	// duplicate member keys (IndexMap::collect keeps the last one); same asserted flags
	let mut c = base_class(); let mut s = base_class();
	c.fields = vec![mem("f".into(), "I"), MemD { payload: 3, ..mem("f".into(), "I") }, mem("g".into(), "I")];
	s.fields = vec![mem("g".into(), "I"), MemD { payload: 3, ..mem("f".into(), "I") }];
	class_ops(out, &c, &s);
	s.fields = vec![MemD { payload: 4, ..mem("f".into(), "I") }, MemD { payload: 5, ..mem("f".into(), "I") }];
	class_ops(out, &c, &s);
	out.op("nonsense", &[]);
	out.op("mpo", &[Sexp::tag("itf")]);
	out.op("merge-class", &[Sexp::list(vec![])]);
	out.op("oracle-entries", &[Sexp::tag("x"), Sexp::list(vec![])]);
}

fn main() { main_for(&gen, &exec) }
