//! C12: Enigma files and directories round-trip the mappings they can express.
use std::path::{Path, PathBuf};
use std::sync::atomic::{AtomicUsize, Ordering as AtomicOrdering};
use duke::tree::class::ObjClassName;
use duke::tree::field::FieldName;
use duke::tree::method::{MethodName, ParameterName};
use java_string::{JavaStr, JavaString};
use quill::tree::mappings::*;
use quill::tree::names::Names;
use fvh::mapcodec::{from_sexp, to_sexp, NsMarker, M};
use fvh::mapgen::{gen_mappings, GMappings, MapCfg};
use fvh::rng::Rng;
use fvh::run::{main_for, Ans, Out, Tier};
use fvh::sexp::Sexp;

type M2 = M<2>;

// ------------------------------------------------------------------------------------------------ generators

/// regression witnesses replayed at the start of every run (the first one is the formerly lost orphan inner class)
fn fixed_regressions(out: &mut Out) {
	let cls = |key: &str, dst: Option<&str>| -> Sexp {
		Sexp::list(vec![Sexp::str(key), Sexp::list(vec![Sexp::list(vec![Sexp::str(key)]), Sexp::opt(dst, Sexp::str)]),
			Sexp::list(vec![]), Sexp::list(vec![]), Sexp::list(vec![])])
	};
	let ms = |classes: Vec<Sexp>| Sexp::list(vec![Sexp::list(vec![Sexp::str("official"), Sexp::str("named")]), Sexp::list(vec![]), Sexp::list(classes)]);
	// orphan inner class A$B -> X$Y, no A in the set
	let orphan = ms(vec![cls("A$B", Some("X$Y"))]);
	out.op("oracle-rt", &[orphan.clone()]);
	out.op("enigma-write-all", &[orphan.clone()]);
	out.op("enigma-rt", &[orphan.clone()]);
	out.op("oracle-dir-rt", &[orphan]);
	// orphan next to a nested class that has its parent
	let mixed = ms(vec![cls("p/A$B", Some("q/X$Y")), cls("C", Some("D")), cls("C$E", Some("D$F")), cls("C$E$G", None), cls("H$I$J", None)]);
	out.op("oracle-rt", &[mixed.clone()]);
	out.op("oracle-placement", &[mixed.clone()]);
	out.op("enigma-write-all", &[mixed]);
	// a gap in the chain: Outer is present, Outer$Mid is not; Outer$Mid$Leaf is an orphan and must not be nested below Outer
	let gap = ms(vec![cls("a/b/Outer", Some("x/y/OuterNamed")), cls("a/b/Outer$Mid$Leaf", Some("x/y/OuterNamed$Mid$LeafNamed")), cls("a/b/Outer$In", Some("x/y/OuterNamed$InNamed")),
		cls("P", Some("Q")), cls("P$A$B$C", Some("Q$A$B$C")), cls("P$A$B$C$D", None)]);
	out.op("oracle-rt", &[gap.clone()]);
	out.op("oracle-placement", &[gap.clone()]);
	out.op("oracle-dir-rt", &[gap.clone()]);
	out.op("enigma-write-all", &[gap.clone()]);
	out.op("enigma-rt", &[gap]);
	// depth-first nesting: a top-level class with two nested classes, the first of which has a nested class of its own
	// (a breadth-first writer would put C$A$X below C$B)
	let deep = ms(vec![cls("C$B", Some("D$F")), cls("C$A$X", Some("D$E$Y")), cls("C", Some("D")), cls("C$A", Some("D$E")), cls("C$A$X$Z", None), cls("C$B$W", None)]);
	out.op("oracle-rt", &[deep.clone()]);
	out.op("oracle-placement", &[deep.clone()]);
	out.op("oracle-dir-rt", &[deep.clone()]);
	out.op("enigma-write-all", &[deep.clone()]);
	out.op("enigma-rt", &[deep]);
	// comment edge cases at all four levels: empty comment, last line blank, only blank lines, leading space, `#`
	for docs in [["", "", "", ""], ["x\n", "f\n", "m\n", "p\n"], ["\n", "\n\n", "a\n\nb\n", " \n "], ["# c", " lead", "x  y ", "\u{a0}z\u{85}"]] {
		let g = doc_sample(docs);
		out.op("oracle-rt", &[g.clone()]);
		out.op("oracle-dir-rt", &[g.clone()]);
		out.op("enigma-write-all", &[g.clone()]);
		out.op("enigma-rt", &[g]);
	}
	// the `*_witness` theorems of Thm/C12.lean, replayed: implementation and model must lose the same thing
	out.op("enigma-rt", &[ms(vec![cls("A", Some("X")), cls("A$B", Some("Y"))])]);   // nested_target_witness
	out.op("enigma-rt", &[ms(vec![cls("A", Some("ACC:X"))])]);                        // modifier_target_witness
	out.op("enigma-rt", &[ms(vec![cls("A", Some("X")), cls("B", Some("X"))])]);       // file_collision_witness
	out.op("enigma-rt", &[ms(vec![cls("A", Some("X#Y"))])]);                          // hash_in_name_witness
	out.op("enigma-rt", &[ms(vec![cls("A", Some("X Y"))])]);                          // space_in_name_witness
	{
		let mk = |doc: Option<&str>, mdst: Option<&str>, pnames: Vec<Option<String>>| GMappings {
			ns: vec!["official".into(), "named".into()], doc: None,
			classes: vec![fvh::mapgen::GClass { names: vec![Some("A".into()), None], doc: doc.map(|d| d.to_owned()), fields: vec![],
				methods: vec![fvh::mapgen::GMember { desc: "()V".into(), names: vec![Some("m".into()), mdst.map(|d| d.to_owned())], doc: None,
					params: vec![fvh::mapgen::GParam { index: 0, names: pnames, doc: None }] }] }],
		}.to_sexp();
		out.op("enigma-rt", &[mk(Some("a\tb"), None, vec![None, Some("p".into())])]);                                 // comment_tab_witness
		out.op("enigma-rt", &[mk(Some("a\r\nb\rc"), None, vec![None, Some("p".into())])]);                           // comment_cr_witness
		out.op("enigma-rt", &[mk(None, Some("<init>"), vec![Some("s".into()), Some("p".into())])]);                    // init_and_param_source_witness
		out.op("enigma-write-all", &[mk(None, None, vec![None, None])]);                                               // param_without_target_witness
		out.op("oracle-rt", &[mk(Some("x\n"), None, vec![None, Some("p".into())])]);                                   // comment_blank_roundtrip
	}
	// not expressible: a CR inside or at the end of a comment line (must be out of the domain on both sides)
	for docs in [["a\r", "x", "x", "x"], ["x", "a\r\nb", "x", "x"], ["x", "x", "a\rb", "x"], ["x", "x", "x", "\r"]] {
		let g = doc_sample(docs);
		out.op("oracle-rt", &[g.clone()]);
		out.op("enigma-rt", &[g]);
	}
}

/// one class with one field and one method with one parameter, javadocs at class / field / method / parameter level
fn doc_sample(docs: [&str; 4]) -> Sexp {
	let g = GMappings {
		ns: vec!["official".into(), "named".into()],
		doc: None,
		classes: vec![fvh::mapgen::GClass {
			names: vec![Some("p/A".into()), Some("q/B".into())],
			doc: Some(docs[0].into()),
			fields: vec![fvh::mapgen::GMember { desc: "I".into(), names: vec![Some("f".into()), Some("g".into())], doc: Some(docs[1].into()), params: vec![] }],
			methods: vec![fvh::mapgen::GMember { desc: "(I)V".into(), names: vec![Some("m".into()), None], doc: Some(docs[2].into()),
				params: vec![fvh::mapgen::GParam { index: 1, names: vec![None, Some("p".into())], doc: Some(docs[3].into()) }] }],
		}],
	};
	g.to_sexp()
}

/// source names of a family (shuffled): root, 2..4 nested classes, below a non-last one (in source-name order) 1..2 classes
/// of its own, further levels at random, sometimes an orphan chain
fn family_keys(r: &mut Rng, cfg: &MapCfg) -> Vec<String> {
	let root = format!("{}{}", r.pick(&["", "p/", "a/b/"]), fvh::mapgen::ident(r, cfg));
	let mut kids: Vec<String> = Vec::new();
	let n = r.range(2, 4);
	while kids.len() < n { let k = fvh::mapgen::ident(r, cfg); if !kids.contains(&k) { kids.push(k); } }
	kids.sort();
	let forced = r.below(n - 1);
	let mut keys = vec![root.clone()];
	for (i, k) in kids.iter().enumerate() {
		let ck = format!("{root}${k}");
		keys.push(ck.clone());
		if i == forced || r.chance(1, 3) {
			let mut gk: Vec<String> = Vec::new();
			let gn = r.range(1, 2);
			while gk.len() < gn { let x = fvh::mapgen::ident(r, cfg); if !gk.contains(&x) { gk.push(x); } }
			for x in gk {
				let gkey = format!("{ck}${x}");
				keys.push(gkey.clone());
				if r.chance(1, 3) { keys.push(format!("{gkey}${}", fvh::mapgen::ident(r, cfg))); }
			}
		}
	}
	if r.chance(1, 3) { keys.push(format!("Zz${}${}", fvh::mapgen::ident(r, cfg), fvh::mapgen::ident(r, cfg))); }
	// a gap in a chain (seed C12-I was missed): an enclosing class further out is present while the direct parent is not - the
	// class below the gap is an orphan (a file of its own, full name kept), however many of its ancestors are in the set
	if r.chance(1, 4) {
		let mids: Vec<String> = keys.iter().filter(|k| k.contains('$') && keys.iter().any(|x| x.starts_with(&format!("{k}$")))).cloned().collect();
		if !mids.is_empty() { let gone = r.pick(&mids).clone(); keys.retain(|k| *k != gone); }
	}
	r.shuffle(&mut keys);
	keys
}

const DOC_EDGES: &[&str] = &["", "\n", "x\n", "\n\n", "a\n\nb\n", " \n ", "#\n", "x \n", " ", "a\n b\n#c\n", "\u{85}x\u{a0}\n", "a\r", "a\r\nb"];

/// put comment edge cases (empty, last line blank, blank lines only, CR …) on random entries of every level
fn doc_edges(r: &mut Rng, g: &mut GMappings) {
	for c in &mut g.classes {
		if r.chance(1, 2) { c.doc = Some((*r.pick(DOC_EDGES)).to_owned()); }
		for f in &mut c.fields { if r.chance(1, 2) { f.doc = Some((*r.pick(DOC_EDGES)).to_owned()); } }
		for m in &mut c.methods {
			if r.chance(1, 2) { m.doc = Some((*r.pick(DOC_EDGES)).to_owned()); }
			for p in &mut m.params { if r.chance(1, 2) { p.doc = Some((*r.pick(DOC_EDGES)).to_owned()); } }
		}
	}
}

fn parent_of(key: &str) -> Option<(&str, &str)> {
	let (p, i) = key.rsplit_once('$')?;
	if !p.is_empty() && !i.is_empty() && !p.ends_with('/') && !i.contains('/') { Some((p, i)) } else { None }
}

/// make the generated set (mostly) Enigma-expressible: nested target names follow the nesting, parameters have a target
/// name and no source name, root file names are distinct
fn repair(r: &mut Rng, g: &mut GMappings, cfg: &MapCfg) {
	let keys: Vec<String> = g.classes.iter().map(|c| c.key()).collect();
	let mut order: Vec<usize> = (0..g.classes.len()).collect();
	order.sort_by_key(|&i| keys[i].len());
	for &i in &order {
		let key = keys[i].clone();
		if let Some((p, _)) = parent_of(&key) {
			if let Some(pi) = keys.iter().position(|k| k == p) {
				let pd = g.classes[pi].names[1].clone().unwrap_or_else(|| p.to_owned());
				if g.classes[i].names[1].is_some() {
					g.classes[i].names[1] = Some(format!("{pd}${}", fvh::mapgen::ident(r, cfg)));
				}
			}
		}
	}
	// distinct root file names
	let mut seen: Vec<String> = Vec::new();
	for i in 0..g.classes.len() {
		let key = keys[i].clone();
		let is_child = parent_of(&key).is_some_and(|(p, _)| keys.iter().any(|k| k == p));
		if is_child { continue; }
		let mut f = g.classes[i].names[1].clone().unwrap_or(key.clone());
		let mut n = 0;
		while seen.contains(&f) {
			n += 1;
			f = format!("{}{}", g.classes[i].names[1].clone().unwrap_or(key.clone()), n);
			g.classes[i].names[1] = Some(f.clone());
		}
		seen.push(f);
	}
	for c in &mut g.classes {
		for m in &mut c.methods {
			for p in &mut m.params {
				p.names[0] = None;
				if p.names[1].is_none() { p.names[1] = Some(fvh::mapgen::ident(r, cfg)); }
			}
		}
	}
}

fn perturb(r: &mut Rng, g: &mut GMappings) -> &'static str {
	if g.classes.is_empty() { return "none"; }
	let ci = r.below(g.classes.len());
	match r.below(12) {
		0 => { g.classes[ci].names[1] = Some("ACC:PUBLIC".into()); "class-dst-modifier" }
		1 => { let other = g.classes[r.below(g.classes.len())].names[1].clone(); g.classes[ci].names[1] = other; "file-collision" }
		2 => { g.classes[ci].doc = Some("tab\there".into()); "doc-tab" }
		3 => { g.classes[ci].doc = Some("cr\r\nlf \u{b}vt\u{c}".into()); "doc-cr" }
		4 => { if let Some(m) = g.classes[ci].methods.first_mut() { m.names[1] = Some("<init>".into()); } "method-dst-init" }
		5 => { if let Some(m) = g.classes[ci].methods.first_mut() { if let Some(p) = m.params.first_mut() { p.names[1] = None; } } "param-no-dst" }
		6 => { if let Some(m) = g.classes[ci].methods.first_mut() { if let Some(p) = m.params.first_mut() { p.names[0] = Some("srcname".into()); } } "param-src" }
		7 => { if let Some(f) = g.classes[ci].fields.first_mut() { f.names[1] = Some("na me".into()); } "field-dst-space" }
		8 => { if let Some(f) = g.classes[ci].fields.first_mut() { f.names[1] = Some("x#y".into()); } "field-dst-hash" }
		9 => { g.classes[ci].names[1] = Some(format!("{}\u{a0}", g.classes[ci].names[1].clone().unwrap_or("Z".into()))); "class-dst-nbsp" }
		10 => { if let Some(f) = g.classes[ci].fields.first_mut() { f.desc = "ACC:X".into(); } "field-desc-modifier" }
		_ => { g.classes[ci].names[1] = Some(format!("{}.x", g.classes[ci].names[1].clone().unwrap_or("Z".into()))); "class-dst-dot" }
	}
}

fn shuffled(r: &mut Rng, g: &GMappings) -> GMappings {
	let mut h = g.clone();
	r.shuffle(&mut h.classes);
	for c in &mut h.classes {
		r.shuffle(&mut c.fields);
		r.shuffle(&mut c.methods);
		for m in &mut c.methods { r.shuffle(&mut m.params); }
	}
	h
}

const TOKS: &[&str] = &["a", "b", "A", "B", "p/C", "A$B", "X$Y", "ACC:PUBLIC", "<init>", "<clinit>", "I", "()V", "(I)V", "LA;", "x.y", "[I", "q/", "0", "1", "+2", "-1", "007", "18446744073709551615", "18446744073709551616", "é", "\u{1f600}", "COMMENT", "CLASS", "a;b", "<x>"];
const KWS: &[&str] = &["CLASS", "FIELD", "METHOD", "ARG", "COMMENT", "COMMENTARY", "class", "PACKAGE", "", "#"];
const SEPS: &[&str] = &[" ", " ", " ", " ", "\t", "  ", "\u{b}", "\u{c}", " \t"];

/// a mostly well-nested Enigma text, with defects sprinkled in
fn gen_text(r: &mut Rng, defect_pct: usize, stats: &mut fvh::run::Stats) -> String {
	let mut t = String::new();
	// context: 0 root, 1 class body, 2 field body, 3 method body, 4 param body; depth of the innermost loop
	let mut ctx = 0usize;
	let mut depth = 0usize;
	let nlines = r.range(0, 9);
	for _ in 0..nlines {
		let defect = r.chance(defect_pct, 100);
		let tok = |r: &mut Rng| (*r.pick(TOKS)).to_owned();
		let ident = |r: &mut Rng| (*r.pick(&["a", "b", "c", "Foo", "Bar", "x1"])).to_owned();
		let (kw, args, newctx, newdepth): (String, Vec<String>, usize, usize);
		// choose where this line goes: stay, go out, or (when defective) anywhere
		let mut d = depth;
		let mut c = ctx;
		if r.chance(1, 3) && d > 0 {
			// leave some loops
			let up = r.range(1, d);
			d -= up;
			c = if d == 0 { 0 } else { 1 };
		}
		match c {
			0 => { kw = "CLASS".into(); args = match r.below(4) { 0 => vec![ident(r)], 1 => vec![ident(r), "ACC:PUBLIC".into()], 2 => vec![ident(r), ident(r), "ACC:X".into()], _ => vec![ident(r), ident(r)] }; newctx = 1; newdepth = d + 1; }
			1 => match r.below(6) {
				0 => { kw = "CLASS".into(); args = if r.chance(1, 2) { vec![ident(r)] } else { vec![ident(r), ident(r)] }; newctx = 1; newdepth = d + 1; }
				1 | 2 => { kw = "FIELD".into(); args = match r.below(3) { 0 => vec![ident(r), "I".into()], 1 => vec![ident(r), ident(r), "LA;".into()], _ => vec![ident(r), ident(r), "J".into(), "ACC:P".into()] }; newctx = 2; newdepth = d + 1; }
				3 | 4 => { kw = "METHOD".into(); args = match r.below(3) { 0 => vec![if r.chance(1, 3) { "<init>".into() } else { ident(r) }, "()V".into()], 1 => vec![ident(r), ident(r), "(I)V".into()], _ => vec![ident(r), "(J)V".into(), "ACC:P".into()] }; newctx = 3; newdepth = d + 1; }
				_ => { kw = "COMMENT".into(); args = vec![ident(r), "# x".into()]; newctx = 1; newdepth = d; }
			},
			2 => { kw = "COMMENT".into(); args = if r.chance(1, 4) { vec![] } else { vec![ident(r), ident(r)] }; newctx = 2; newdepth = d; }
			3 => if r.chance(1, 2) { kw = "ARG".into(); args = vec![r.below(4).to_string(), ident(r)]; newctx = 4; newdepth = d + 1; }
				else { kw = "COMMENT".into(); args = vec![ident(r)]; newctx = 3; newdepth = d; },
			_ => { kw = "COMMENT".into(); args = vec![" lead".into(), "".into(), ident(r)]; newctx = 4; newdepth = d; }
		}
		let mut kw = kw; let mut args = args; let mut ind = d;
		if defect {
			match r.below(9) {
				0 => { ind = r.below(5); stats.hit("text-defect:indent"); }
				1 => { kw = (*r.pick(KWS)).to_owned(); stats.hit("text-defect:keyword"); }
				2 => { args = (0..r.below(6)).map(|_| tok(r)).collect(); stats.hit("text-defect:argcount"); }
				3 => { if !args.is_empty() { let i = r.below(args.len()); args[i] = tok(r); } stats.hit("text-defect:token"); }
				4 => { if !args.is_empty() { let i = r.below(args.len()); args[i] = String::new(); } stats.hit("text-defect:empty-token"); }
				5 => { args.push("# trailing comment".into()); stats.hit("text-defect:hash"); }
				6 => { if let Some(a) = args.last_mut() { a.push_str(*r.pick(&["\u{a0}", "\u{2003}", " ", "\t", "\u{85}"])); } stats.hit("text-defect:trailing-ws"); }
				7 => { kw = format!("{}{kw}", *r.pick(&[" ", "  ", "\u{a0}"])); stats.hit("text-defect:leading-ws"); }
				_ => { stats.hit("text-defect:duplicate-line"); let last: Option<String> = t.lines().last().map(|x| x.to_owned()); if let Some(l) = last { t.push_str(&l); t.push('\n'); } }
			}
		}
		t.push_str(&"\t".repeat(ind));
		t.push_str(&kw);
		for a in &args { t.push_str(if defect { *r.pick(SEPS) } else { " " }); t.push_str(a); }
		t.push_str(match r.below(12) { 0 => "\r\n", 1 => "\n\n", 2 => "\n#x\n", 3 => "\n \t \n", _ => "\n" });
		ctx = newctx; depth = newdepth;
	}
	if r.chance(1, 6) { while t.ends_with('\n') { t.pop(); } if r.chance(1, 3) { t.push('\r'); } }
	t
}

const SMALL_LINES: &[&str] = &["CLASS A", "CLASS A B", "CLASS B ACC:X", "FIELD a b I", "FIELD a I", "METHOD m n ()V", "METHOD <init> ()V",
	"ARG 0 p", "ARG 1 q", "COMMENT c  d", "COMMENT", "X y", ""];

fn gen(r: &mut Rng, tier: Tier, out: &mut Out) {
	fixed_regressions(out);
	let thorough = tier == Tier::Thorough;
	let rounds = if thorough { 16000 } else { 700 };
	for i in 0..rounds {
		let mut cfg = MapCfg::basic(2);
		cfg.nest_depth = r.range(0, 3);
		cfg.max_classes = r.range(1, 7);
		cfg.max_members = r.range(0, 3);
		cfg.max_params = r.range(0, 3);
		cfg.unicode = r.chance(1, 4);
		cfg.closed_nesting = !r.chance(1, 3);
		cfg.extended_targets = true;
		cfg.absent_pct = *r.pick(&[0, 10, 30, 60]);
		cfg.doc_pct = *r.pick(&[0, 25, 60]);
		cfg.param_src_names = false;
		let mut g = gen_mappings(r, &cfg);
		let mut kind = "repaired";
		if r.chance(5, 6) { repair(r, &mut g, &cfg); } else { kind = "raw"; }
		if r.chance(1, 4) { doc_edges(r, &mut g); out.stats.hit("doc-edges:yes"); } else { out.stats.hit("doc-edges:no"); }
		if r.chance(1, 5) { kind = perturb(r, &mut g); }
		out.stats.hit(&format!("set:{kind}"));
		out.stats.hit(&format!("classes:{}", g.classes.len()));
		let depth = g.classes.iter().map(|c| c.key().matches('$').count()).max().unwrap_or(0);
		out.stats.hit(&format!("max-dollars:{depth}"));
		let keys: Vec<String> = g.classes.iter().map(|c| c.key()).collect();
		let orphans = keys.iter().filter(|k| parent_of(k).is_some_and(|(p, _)| !keys.iter().any(|x| x == p))).count();
		out.stats.hit(if orphans > 0 { "orphans:yes" } else { "orphans:no" });
		// a class with >= 2 nested classes where a non-last one (in source-name order) has a nested class of its own:
		// the shape on which depth-first and breadth-first writers differ
		let kids = |k: &str| { let mut v: Vec<&String> = keys.iter().filter(|x| parent_of(x).is_some_and(|(p, _)| p == k)).collect(); v.sort(); v };
		let dfs_sensitive = keys.iter().any(|k| { let ch = kids(k); ch.len() >= 2 && ch[..ch.len() - 1].iter().any(|c| !kids(c).is_empty()) });
		out.stats.hit(if dfs_sensitive { "dfs-sensitive-shape:yes" } else { "dfs-sensitive-shape:no" });
		let m = g.to_sexp();
		out.op("oracle-rt", &[m.clone()]);
		match i % 4 {
			0 => out.op("enigma-write-all", &[m.clone()]),
			1 => out.op("enigma-rt", &[m.clone()]),
			2 => {
				let c = if g.classes.is_empty() || r.chance(1, 6) { "Nope".to_owned() } else {
					let c = r.pick(&g.classes);
					if r.chance(1, 5) { c.key() } else { c.names[1].clone().unwrap_or(c.key()) }
				};
				out.op("enigma-write-one", &[m.clone(), Sexp::str(&c)]);
			}
			_ => out.op("oracle-placement", &[m.clone()]),
		}
		if i % 3 == 0 {
			let h = shuffled(r, &g);
			out.op("oracle-perm", &[m.clone(), h.to_sexp()]);
		}
		// real directory: a sample in the quick tier
		if thorough || i % 4 == 0 {
			match i % 3 { 0 => out.op("enigma-files", &[m.clone()]), 1 => out.op("enigma-dir-rt", &[m.clone()]), _ => out.op("oracle-dir-rt", &[m.clone()]) }
		}
	}
	// nested families: a class with >= 2 nested classes, a non-last one of which has nested classes of its own (the shape on
	// which a depth-first and a breadth-first writer differ), sometimes next to an orphan chain
	let families = if thorough { 1200 } else { 60 };
	for i in 0..families {
		let mut cfg = MapCfg::basic(2);
		cfg.nest_depth = 0;
		cfg.max_classes = 9;
		cfg.max_members = r.range(0, 2);
		cfg.max_params = r.range(0, 2);
		cfg.extended_targets = true;
		cfg.absent_pct = *r.pick(&[0, 30]);
		cfg.doc_pct = *r.pick(&[0, 40]);
		cfg.param_src_names = false;
		let mut g = gen_mappings(r, &cfg);
		let keys = family_keys(r, &cfg);
		while g.classes.len() < keys.len() {
			g.classes.push(fvh::mapgen::GClass { names: vec![None, if r.chance(2, 3) { Some(fvh::mapgen::ident(r, &cfg)) } else { None }], doc: None, fields: vec![], methods: vec![] });
		}
		g.classes.truncate(keys.len());
		for (c, k) in g.classes.iter_mut().zip(keys.iter()) { c.names[0] = Some(k.clone()); }
		repair(r, &mut g, &cfg);
		if r.chance(1, 4) { doc_edges(r, &mut g); }
		out.stats.hit("set:family");
		let m = g.to_sexp();
		out.op("oracle-rt", &[m.clone()]);
		out.op("oracle-placement", &[m.clone()]);
		match i % 4 {
			0 => out.op("enigma-write-all", &[m.clone()]),
			1 => out.op("enigma-rt", &[m.clone()]),
			2 => out.op("oracle-dir-rt", &[m.clone()]),
			_ => { let h = shuffled(r, &g); out.op("oracle-perm", &[m.clone(), h.to_sexp()]); }
		}
	}
	// malformed / edge text stream
	let texts = if thorough { 30000 } else { 1500 };
	for _ in 0..texts {
		let pct = *r.pick(&[0, 10, 25, 50]);
		let t = gen_text(r, pct, out.stats);
		out.stats.hit(&format!("text-defect-pct:{pct}"));
		out.op("enigma-read", &[Sexp::str(&t)]);
	}
	// exhaustive small scope: every sequence of up to k template lines at indentation 0..2
	let k = if thorough { 3 } else { 2 };
	let items: Vec<String> = SMALL_LINES.iter().flat_map(|l| (0..3).map(move |d| format!("{}{}\n", "\t".repeat(d), l))).collect();
	let mut idx = vec![0usize; k];
	let total = items.len().pow(k as u32);
	for code in 0..total {
		let mut c = code;
		for slot in idx.iter_mut() { *slot = c % items.len(); c /= items.len(); }
		// skip sequences that cannot be well-formed and are covered by shorter ones: first line indented
		let t: String = idx.iter().map(|&i| items[i].as_str()).collect();
		if k == 3 && !items[idx[0]].starts_with("CLASS") && code % 7 != 0 { continue; }
		out.op("enigma-read", &[Sexp::str(&t)]);
		out.stats.hit("text-exhaustive");
	}
}

// ------------------------------------------------------------------------------------------------ oracle helpers

fn chars_ok(s: &JavaStr) -> bool {
	!s.is_empty() && s.chars().all(|c| match c.as_char() { Some(c) => !c.is_whitespace() && c != '#', None => false })
}
fn doc_ok(d: &Option<JavadocMapping>) -> bool {
	d.as_ref().map_or(true, |d| d.0.chars().all(|c| !matches!(c, '\t' | '\u{b}' | '\u{c}' | '\r')))
}
fn is_mod(s: &JavaStr) -> bool { s.starts_with("ACC:") }
fn arr<const N: usize, T>(n: &Names<N, T>) -> &[Option<T>; N] { n.into() }

fn parent_in_set<'a>(m: &'a M2, key: &'a ObjClassName) -> Option<&'a ObjClassName> {
	let p = key.get_inner_class_parent()?;
	m.classes.get_key_value(p).map(|(k, _)| k)
}
fn file_name_of(key: &ObjClassName, c: &ClassNowodeMapping<2>) -> JavaString {
	arr(&c.info.names)[1].as_ref().unwrap_or(key).as_inner().to_owned()
}
fn root_file_names(m: &M2) -> Vec<JavaString> {
	m.classes.iter().filter(|(k, _)| parent_in_set(m, k).is_none()).map(|(k, c)| file_name_of(k, c)).collect()
}
fn distinct<T: PartialEq>(v: &[T]) -> bool { (0..v.len()).all(|i| (i + 1..v.len()).all(|j| v[i] != v[j])) }

/// `EnigmaWritable` (mirror of `Enigma.writableB`)
fn writable(m: &M2) -> bool {
	for (key, c) in &m.classes {
		let [src, dst] = arr(&c.info.names);
		if !doc_ok(&c.javadoc) { return false; }
		let Some(src) = src else { return false };
		if src != key || !chars_ok(key.as_inner()) || ObjClassName::try_from(key.as_inner().to_owned()).is_err() { return false; }
		if let Some(d) = dst {
			if !chars_ok(d.as_inner()) || ObjClassName::try_from(d.as_inner().to_owned()).is_err() { return false; }
			match parent_in_set(m, key) {
				None => if is_mod(d.as_inner()) { return false; },
				Some(p) => {
					let pc = &m.classes[p];
					let Some((dp, di)) = d.split_inner_class_parent_and_name() else { return false };
					if dp.as_inner() != &*file_name_of(p, pc) || is_mod(di.as_inner()) { return false; }
				}
			}
		}
		for (k, f) in &c.fields {
			let [n, d] = arr(&f.info.names);
			let Some(n) = n else { return false };
			if k.desc != f.info.desc || &k.name != n || !chars_ok(f.info.desc.as_inner()) || !doc_ok(&f.javadoc) { return false; }
			if !chars_ok(n.as_inner()) || FieldName::try_from(n.as_inner().to_owned()).is_err() { return false; }
			if let Some(d) = d {
				if !chars_ok(d.as_inner()) || FieldName::try_from(d.as_inner().to_owned()).is_err() || is_mod(f.info.desc.as_inner()) { return false; }
			}
		}
		for (k, me) in &c.methods {
			let [n, d] = arr(&me.info.names);
			let Some(n) = n else { return false };
			if k.desc != me.info.desc || &k.name != n || !chars_ok(me.info.desc.as_inner()) || !doc_ok(&me.javadoc) { return false; }
			if !chars_ok(n.as_inner()) || MethodName::try_from(n.as_inner().to_owned()).is_err() { return false; }
			if let Some(d) = d {
				if d != MethodName::INIT && (!chars_ok(d.as_inner()) || MethodName::try_from(d.as_inner().to_owned()).is_err() || is_mod(me.info.desc.as_inner())) { return false; }
			}
			for (pk, p) in &me.parameters {
				let [n, d] = arr(&p.info.names);
				if pk.index != p.info.index || n.is_some() || !doc_ok(&p.javadoc) { return false; }
				let Some(d) = d else { return false };
				if !chars_ok(d.as_inner()) || ParameterName::try_from(d.as_inner().to_owned()).is_err() { return false; }
			}
		}
	}
	distinct(&root_file_names(m))
}

/// the canonical form the round trip is stated against (mirror of `Enigma.canonClasses`, then sorted by key)
fn canon(m: &M2) -> M2 {
	let mut m = m.clone();
	for c in m.classes.values_mut() {
		c.fields.sort_by(|_, a, _, b| a.info.names.cmp(&b.info.names).then_with(|| a.info.desc.cmp(&b.info.desc)));
		c.methods.sort_by(|_, a, _, b| a.info.names.cmp(&b.info.names).then_with(|| a.info.desc.cmp(&b.info.desc)));
		for me in c.methods.values_mut() {
			me.parameters.sort_by(|_, a, _, b| a.info.cmp(&b.info));
			let [n, d] = arr(&me.info.names);
			if d.as_ref().is_some_and(|d| d == MethodName::INIT) {
				if let Ok(names) = Names::try_from([n.clone(), None]) { me.info.names = names; }
			}
		}
	}
	m.classes.sort_keys();
	m
}
fn by_key(m: &M2) -> M2 { let mut m = m.clone(); m.classes.sort_keys(); m }

fn sort_all(m: &M2) -> Sexp {
	let mut m = m.clone();
	for c in m.classes.values_mut() {
		c.fields.sort_by(|a, _, b, _| (a.name.as_inner(), a.desc.as_inner()).cmp(&(b.name.as_inner(), b.desc.as_inner())));
		c.methods.sort_by(|a, _, b, _| (a.name.as_inner(), a.desc.as_inner()).cmp(&(b.name.as_inner(), b.desc.as_inner())));
		for me in c.methods.values_mut() { me.parameters.sort_by(|a, _, b, _| a.index.cmp(&b.index)); }
	}
	m.classes.sort_keys();
	to_sexp(&m)
}

fn write_all_text(m: &M2) -> Option<String> {
	let mut v = Vec::new();
	quill::enigma_file::write_all(m, &mut v).ok()?;
	String::from_utf8(v).ok()
}
fn read_text(t: &str, ns: [&str; 2]) -> Option<M2> {
	let mut m: M2 = Mappings::from_namespaces(ns).ok()?;
	quill::enigma_file::read_into(t.as_bytes(), &mut m).ok()?;
	Some(m)
}
fn ns_of(m: &M2) -> [String; 2] { let a: &[String; 2] = (&m.info.namespaces).into(); a.clone() }

// ------------------------------------------------------------------------------------------------ real directory

static COUNTER: AtomicUsize = AtomicUsize::new(0);
struct TempDir(PathBuf);
impl TempDir {
	fn new() -> std::io::Result<TempDir> {
		let n = COUNTER.fetch_add(1, AtomicOrdering::SeqCst);
		let nanos = std::time::SystemTime::now().duration_since(std::time::UNIX_EPOCH).map(|d| d.subsec_nanos()).unwrap_or(0);
		let p = std::env::temp_dir().join(format!("fvh-c12-{}-{}-{}", std::process::id(), n, nanos));
		std::fs::create_dir(&p)?;
		Ok(TempDir(p))
	}
}
impl Drop for TempDir { fn drop(&mut self) { let _ = std::fs::remove_dir_all(&self.0); } }

fn collect_files(root: &Path, dir: &Path, out: &mut Vec<(String, String)>) -> std::io::Result<()> {
	for e in std::fs::read_dir(dir)? {
		let e = e?;
		let p = e.path();
		if e.file_type()?.is_dir() { collect_files(root, &p, out)?; } else {
			let rel = p.strip_prefix(root).map_err(|_| std::io::Error::other("prefix"))?;
			let rel: Vec<String> = rel.components().map(|c| c.as_os_str().to_string_lossy().into_owned()).collect();
			out.push((rel.join("/"), std::fs::read_to_string(&p)?));
		}
	}
	Ok(())
}

/// `enigma_dir::write` into a fresh directory below the target (so that nothing exists beforehand), then list it
fn dir_files(m: &M2) -> Result<Vec<(String, String)>, ()> {
	let td = TempDir::new().map_err(|_| ())?;
	let target = td.0.join("out");
	quill::enigma_dir::write(m, &target).map_err(|_| ())?;
	let mut v = Vec::new();
	if target.exists() { collect_files(&target, &target, &mut v).map_err(|_| ())?; }
	v.sort();
	Ok(v)
}
fn dir_rt(m: &M2) -> Result<M2, ()> {
	let td = TempDir::new().map_err(|_| ())?;
	let target = td.0.join("out");
	quill::enigma_dir::write(m, &target).map_err(|_| ())?;
	// an empty set writes nothing, not even the directory; reading needs an existing path
	if !target.exists() { std::fs::create_dir_all(&target).map_err(|_| ())?; }
	let ns = ns_of(m);
	let namespaces = quill::tree::names::Namespaces::<2, NsMarker>::try_from(ns).map_err(|_| ())?;
	quill::enigma_dir::read(&target, namespaces).map_err(|_| ())
}

/// (depth, full source name) of every CLASS line of a written file
fn class_lines(text: &str) -> Vec<(usize, String)> {
	let mut out = Vec::new();
	let mut stack: Vec<String> = Vec::new();
	for line in text.split('\n') {
		let d = line.chars().take_while(|c| *c == '\t').count();
		let rest = &line[d..];
		let mut toks = rest.split(' ');
		if toks.next() != Some("CLASS") { continue; }
		let tok = toks.next().unwrap_or("");
		stack.truncate(d);
		let full = match stack.last() { Some(p) => format!("{p}${tok}"), None => tok.to_owned() };
		out.push((d, full.clone()));
		stack.push(full);
	}
	out
}

// ------------------------------------------------------------------------------------------------ exec

fn exec(op: &str, args: &[Sexp]) -> Ans {
	macro_rules! tr { ($e:expr) => { match $e { Ok(x) => x, Err(e) => return Ans::BadOp(e) } } }
	match (op, args) {
		("enigma-read", [t]) => {
			let t = tr!(t.as_string());
			match read_text(&t, ["official", "named"]) { Some(m) => Ans::Ok(to_sexp(&m)), None => Ans::err() }
		}
		("enigma-write-one", [m, d]) => {
			let m: M2 = tr!(from_sexp(m));
			let d = tr!(d.as_string());
			let mut v = Vec::new();
			match quill::enigma_file::write_one(&m, &d, &mut v) {
				Ok(()) => match String::from_utf8(v) { Ok(s) => Ans::Ok(Sexp::str(&s)), Err(_) => Ans::err() },
				Err(_) => Ans::err(),
			}
		}
		("oracle-perm", [a, b]) => {
			let a: M2 = tr!(from_sexp(a));
			let b: M2 = tr!(from_sexp(b));
			// the hypotheses of `write_order_independent`: both sets Enigma-expressible, same entries under the same keys at every level
			if !(writable(&a) && writable(&b) && sort_all(&a) == sort_all(&b)) { return Ans::out_of_domain(); }
			// inside `writable` (decided on the request) both forms can be written (`oracle-rt`, `oracle-dir-rt` fail there on an
			// error too): two errors are not "the same text"
			let (Some(ta), Some(tb)) = (write_all_text(&a), write_all_text(&b)) else { return Ans::fail("write_err") };
			if ta != tb { return Ans::fail("differs"); }
			let (Ok(fa), Ok(fb)) = (dir_files(&a), dir_files(&b)) else { return Ans::fail("io_err") };
			if fa == fb { Ans::pass() } else { Ans::fail("differs") }
		}
		(_, [m]) => {
			let m: M2 = tr!(from_sexp(m));
			match op {
				"enigma-write-all" => match write_all_text(&m) { Some(t) => Ans::Ok(Sexp::str(&t)), None => Ans::err() },
				"enigma-rt" => {
					let Some(t) = write_all_text(&m) else { return Ans::err() };
					let ns = ns_of(&m);
					match read_text(&t, [&ns[0], &ns[1]]) { Some(r) => Ans::Ok(to_sexp(&r)), None => Ans::err() }
				}
				"enigma-files" => match dir_files(&m) {
					Ok(fs) => Ans::Ok(Sexp::list(fs.iter().map(|(p, t)| Sexp::list(vec![Sexp::str(p), Sexp::str(t)])).collect())),
					Err(()) => Ans::err(),
				},
				"enigma-dir-rt" => match dir_rt(&m) { Ok(r) => Ans::Ok(to_sexp(&r)), Err(()) => Ans::err() },
				"oracle-rt" => {
					if !writable(&m) { return Ans::out_of_domain(); }
					let Some(t) = write_all_text(&m) else { return Ans::fail("write_err") };
					let ns = ns_of(&m);
					let Some(r) = read_text(&t, [&ns[0], &ns[1]]) else { return Ans::fail("read_err") };
					if to_sexp(&by_key(&r)) == to_sexp(&canon(&m)) && r.javadoc.is_none() { Ans::pass() } else { Ans::fail("differs") }
				}
				"oracle-dir-rt" => {
					// `enigma_dir::write` succeeds on the whole domain (theorem `dir_paths`): a failure is a failure of the property
					if !writable(&m) { return Ans::out_of_domain(); }
					let Ok(r) = dir_rt(&m) else { return Ans::fail("io_err") };
					let mut c = canon(&m);
					c.javadoc = None;
					if to_sexp(&by_key(&r)) == to_sexp(&c) { Ans::pass() } else { Ans::fail("differs") }
				}
				"oracle-placement" => {
					if !writable(&m) { return Ans::out_of_domain(); }
					let Ok(fs) = dir_files(&m) else { return Ans::fail("io_err") };
					let per: Vec<Vec<(usize, String)>> = fs.iter().map(|(_, t)| class_lines(t)).collect();
					if per.iter().any(|f| f.first().map_or(true, |x| x.0 != 0) || f[1..].iter().any(|x| x.0 == 0)) { return Ans::fail("file_shape"); }
					let all: Vec<&(usize, String)> = per.iter().flatten().collect();
					if !m.classes.keys().all(|k| all.iter().filter(|e| JavaStr::from_str(&e.1) == k.as_inner()).count() == 1) { return Ans::fail("not_once"); }
					if all.len() != m.classes.len() { return Ans::fail("extra"); }
					let nested_ok = all.iter().all(|(d, k)| {
						let key = fvh::mapcodec::cn(JavaString::from(k.as_str()));
						(*d != 0) == parent_in_set(&m, &key).is_some()
					});
					if !nested_ok { return Ans::fail("nesting"); }
					Ans::pass()
				}
				_ => Ans::BadOp("unknown op".into()),
			}
		}
		_ => Ans::BadOp("unknown op".into()),
	}
}

fn main() { main_for(&gen, &exec) }
