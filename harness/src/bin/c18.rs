//! C18: descriptors (parse / print / get_arguments_size) and the name predicates of duke.
//!
//! Everything is reached through *safe* public API (`TryFrom`, `is_valid`, `parse`, `write`, `write_class`); names that
//! a typed slot rejects are answered `err e` (the model mirrors the same validity check).
use std::panic::{catch_unwind, AssertUnwindSafe};
use duke::tree::class::{ArrClassName, ClassAccess, ClassFile, ClassName, ObjClassName};
use duke::tree::descriptor::{ArrayType, ParsedFieldDescriptor, ParsedMethodDescriptor, ParsedReturnDescriptor, ReturnDescriptor, ReturnDescriptorSlice, Type};
use duke::tree::field::{FieldDescriptor, FieldName};
use duke::tree::method::code::{Code, Instruction, InstructionListEntry, LocalVariableName};
use duke::tree::method::{Method, MethodAccess, MethodDescriptor, MethodName, MethodRef, ParameterName};
use duke::tree::version::Version;
use fvh::rng::Rng;
use fvh::run::{main_for, Ans, Out, Tier};
use fvh::sexp::Sexp;
use java_string::{JavaStr, JavaString};

// ---------------------------------------------------------------------------------------------------- codec

fn cps_of(s: &JavaStr) -> Vec<u32> { s.chars().map(|c| c.as_u32()).collect() }
fn cp(s: &str) -> Vec<u32> { s.chars().map(|c| c as u32).collect() }

fn prim_tag(t: &Type) -> Option<&'static str> {
	Some(match t { Type::B => "B", Type::C => "C", Type::D => "D", Type::F => "F", Type::I => "I", Type::J => "J", Type::S => "S", Type::Z => "Z", _ => return None })
}
fn ty_to_sexp(t: &Type) -> Sexp {
	if let Some(p) = prim_tag(t) { return Sexp::tag(p); }
	match t {
		Type::Object(n) => Sexp::list(vec![Sexp::tag("obj"), Sexp::jstr(n.as_inner())]),
		Type::Array(d, a) => Sexp::list(vec![Sexp::tag("arr"), Sexp::nat(*d as usize), match a {
			ArrayType::B => Sexp::tag("B"), ArrayType::C => Sexp::tag("C"), ArrayType::D => Sexp::tag("D"), ArrayType::F => Sexp::tag("F"),
			ArrayType::I => Sexp::tag("I"), ArrayType::J => Sexp::tag("J"), ArrayType::S => Sexp::tag("S"), ArrayType::Z => Sexp::tag("Z"),
			ArrayType::Object(n) => Sexp::list(vec![Sexp::tag("obj"), Sexp::jstr(n.as_inner())]),
		}]),
		_ => unreachable!(),
	}
}
fn method_to_sexp(m: &ParsedMethodDescriptor) -> Sexp {
	Sexp::list(vec![Sexp::list(m.parameter_descriptors.iter().map(ty_to_sexp).collect()), Sexp::opt(m.return_descriptor.as_ref(), ty_to_sexp)])
}

/// outer Err = malformed request (bad-op); inner Err = a name the typed slot refuses (err e)
type Dec<T> = Result<Result<T, ()>, String>;

fn ty_from_sexp(s: &Sexp) -> Dec<Type> {
	if let Sexp::Atom(a) = s {
		return Ok(Ok(match a.as_str() {
			"B" => Type::B, "C" => Type::C, "D" => Type::D, "F" => Type::F, "I" => Type::I, "J" => Type::J, "S" => Type::S, "Z" => Type::Z,
			o => return Err(format!("bad prim {o}")),
		}));
	}
	let l = s.as_list()?;
	match l {
		[Sexp::Atom(t), n] if t == "obj" => {
			Ok(ObjClassName::try_from(n.as_jstring()?).map(Type::Object).map_err(|_| ()))
		}
		[Sexp::Atom(t), d, b] if t == "arr" => {
			let d = d.as_nat()?;
			let base = if let Sexp::Atom(a) = b {
				match a.as_str() {
					"B" => ArrayType::B, "C" => ArrayType::C, "D" => ArrayType::D, "F" => ArrayType::F, "I" => ArrayType::I, "J" => ArrayType::J, "S" => ArrayType::S, "Z" => ArrayType::Z,
					o => return Err(format!("bad prim {o}")),
				}
			} else {
				match b.as_list()? {
					[Sexp::Atom(t), n] if t == "obj" => match ClassName::try_from(n.as_jstring()?) { Ok(c) => ArrayType::Object(c), Err(_) => return Ok(Err(())) },
					_ => return Err("bad base".into()),
				}
			};
			if d > 255 { return Ok(Err(())); }
			Ok(Ok(Type::Array(d as u8, base)))
		}
		_ => Err(format!("bad type {s}")),
	}
}
fn tys_from_sexp(s: &Sexp) -> Dec<Vec<Type>> {
	let mut v = Vec::new();
	let mut bad = false;
	for x in s.as_list()? { match ty_from_sexp(x)? { Ok(t) => v.push(t), Err(()) => bad = true } }
	Ok(if bad { Err(()) } else { Ok(v) })
}
fn ret_from_sexp(s: &Sexp) -> Dec<Option<Type>> {
	match s.as_opt()? { None => Ok(Ok(None)), Some(x) => Ok(ty_from_sexp(x)?.map(Some)) }
}

// ---------------------------------------------------------------------------------------------------- implementation calls

fn parse_field(s: &JavaString) -> Option<Type> {
	FieldDescriptor::try_from(s.clone()).ok()?.parse().ok().map(|p| p.0)
}
fn parse_method(s: &JavaString) -> Option<ParsedMethodDescriptor> {
	MethodDescriptor::try_from(s.clone()).ok()?.parse().ok()
}
fn parse_return(s: &JavaString) -> Option<Option<Type>> {
	let r: &ReturnDescriptorSlice = <&ReturnDescriptorSlice>::try_from(s.as_java_str()).ok()?;
	r.parse().ok().map(|p| p.0)
}
fn guarded<T>(f: impl FnOnce() -> T) -> Option<T> { catch_unwind(AssertUnwindSafe(f)).ok() }

fn print_field(t: &Type) -> Option<JavaString> { let t = t.clone(); guarded(move || ParsedFieldDescriptor(t).write().into_inner()) }
fn print_return(t: &Option<Type>) -> Option<JavaString> { let t = t.clone(); guarded(move || { let r: ReturnDescriptor = ParsedReturnDescriptor(t).write(); r.into_inner() }) }
fn print_method(ps: &[Type], rt: &Option<Type>) -> Option<JavaString> {
	let m = ParsedMethodDescriptor { parameter_descriptors: ps.to_vec(), return_descriptor: rt.clone() };
	guarded(move || m.write().into_inner())
}

enum Size { Ok(u8), Err, Overflow }
/// `get_arguments_size` is `pub(crate)`; its only caller is the writer of `invokeinterface` (the `count` operand).
/// Write a class whose single method is `invokeinterface A.m:<desc>; return` and pick the operand out of the code array.
fn args_size(desc: &JavaString) -> Size {
	let build = || -> anyhow::Result<Vec<u8>> {
		let a = ObjClassName::try_from(JavaString::from("A"))?;
		let mref = MethodRef {
			class: ClassName::from(a.clone()),
			name: MethodName::try_from(JavaString::from("m"))?,
			desc: MethodDescriptor::try_from(desc.clone())?,
		};
		let mut code = Code::default();
		code.max_stack = Some(0);
		code.max_locals = Some(0);
		code.instructions = vec![
			InstructionListEntry { label: None, frame: None, instruction: Instruction::InvokeInterface(mref) },
			InstructionListEntry { label: None, frame: None, instruction: Instruction::Return },
		];
		let mut m = Method::new(MethodAccess::from(0u16), MethodName::try_from(JavaString::from("m"))?, MethodDescriptor::try_from(JavaString::from("()V"))?);
		m.code = Some(code);
		let mut cf = ClassFile::new(Version::V1_8, ClassAccess::default(), a, None, vec![]);
		cf.methods.push(m);
		let mut buf = Vec::new();
		duke::write_class(&mut buf, &cf)?;
		Ok(buf)
	};
	match catch_unwind(AssertUnwindSafe(build)) {
		Err(_) => Size::Overflow,
		Ok(Err(_)) => Size::Err,
		Ok(Ok(buf)) => {
			// code_length = 6 followed by invokeinterface (0xb9) idx idx count 0 return (0xb1)
			let pat = [0u8, 0, 0, 6, 0xb9];
			let pos = (0..buf.len().saturating_sub(10)).rev().find(|&i| buf[i..i + 5] == pat && buf[i + 8] == 0 && buf[i + 9] == 0xb1);
			match pos { Some(i) => Size::Ok(buf[i + 7]), None => Size::Err }
		}
	}
}

fn name_valid(kind: &str, s: &JavaStr) -> Option<bool> {
	Some(match kind {
		"class" => ClassName::is_valid(s),
		"arr" => ArrClassName::is_valid(s),
		"obj" => ObjClassName::is_valid(s),
		"field" => FieldName::is_valid(s),
		"method" => MethodName::is_valid(s),
		"param" => ParameterName::is_valid(s),
		"local" => LocalVariableName::is_valid(s),
		// the descriptor newtypes: `check_valid` is `Ok(())` (TODO in the code), validation happens in `parse()`
		"fdesc" => FieldDescriptor::is_valid(s),
		"mdesc" => MethodDescriptor::is_valid(s),
		"rdesc" => ReturnDescriptor::is_valid(s),
		_ => return None,
	})
}

// ---------------------------------------------------------------------------------------------------- independent spec (oracles)

fn is_ident(s: &[u32]) -> bool { !s.is_empty() && s.iter().all(|&c| !matches!(c, 0x2e | 0x3b | 0x5b | 0x2f)) }
fn is_method_ident(s: &[u32]) -> bool {
	s == cp("<init>").as_slice() || s == cp("<clinit>").as_slice() || (!s.is_empty() && s.iter().all(|&c| !matches!(c, 0x2e | 0x3b | 0x5b | 0x2f | 0x3c | 0x3e)))
}
fn is_class_name(s: &[u32]) -> bool { s.split(|&c| c == 0x2f).all(is_ident) }
/// length of the field type at the start of `s`, if there is one (JVMS grammar, ≤ 255 dimensions)
fn field_type_len(s: &[u32]) -> Option<usize> {
	let d = s.iter().take_while(|&&c| c == 0x5b).count();
	if d > 255 { return None; }
	match s.get(d)? {
		0x42 | 0x43 | 0x44 | 0x46 | 0x49 | 0x4a | 0x53 | 0x5a => Some(d + 1),
		0x4c => {
			let end = s[d + 1..].iter().position(|&c| c == 0x3b)?;
			if is_class_name(&s[d + 1..d + 1 + end]) { Some(d + 1 + end + 1) } else { None }
		}
		_ => None,
	}
}
fn is_field_desc(s: &[u32]) -> bool { field_type_len(s) == Some(s.len()) }
fn is_return_desc(s: &[u32]) -> bool { s == [0x56] || is_field_desc(s) }
fn is_array_desc(s: &[u32]) -> bool { s.first() == Some(&0x5b) && is_field_desc(s) }
/// parameter slot sizes if `s` is a method descriptor
fn method_desc_slots(s: &[u32]) -> Option<Vec<usize>> {
	if s.first() != Some(&0x28) { return None; }
	let mut i = 1;
	let mut slots = Vec::new();
	loop {
		if *s.get(i)? == 0x29 { i += 1; break; }
		let n = field_type_len(&s[i..])?;
		slots.push(if n == 1 && (s[i] == 0x44 || s[i] == 0x4a) { 2 } else { 1 });
		i += n;
	}
	if is_return_desc(&s[i..]) { Some(slots) } else { None }
}
/// the *documented* meaning of each name type
fn name_spec(kind: &str, s: &[u32]) -> Option<bool> {
	Some(match kind {
		// "Array class names always start with `[` followed by a field descriptor" / "must be an array field descriptor"
		"arr" => is_array_desc(s),
		"class" => is_array_desc(s) || is_class_name(s),
"obj" => is_class_name(s),
		"field" | "param" | "local" => is_ident(s),
		"method" => is_method_ident(s),
		_ => return None,
	})
}

fn ty_wf(t: &Type) -> bool {
	match t {
		Type::Array(d, ArrayType::Object(n)) => *d >= 1 && !n.as_inner().starts_with('['),
		Type::Array(d, _) => *d >= 1,
		_ => true,
	}
}

// ---------------------------------------------------------------------------------------------------- exec

fn exec(op: &str, args: &[Sexp]) -> Ans {
	macro_rules! tr { ($e:expr) => { match $e { Ok(x) => x, Err(e) => return Ans::BadOp(e.to_string()) } } }
	macro_rules! slot { ($e:expr) => { match tr!($e) { Ok(x) => x, Err(()) => return Ans::err() } } }
	let tag = |s: &Sexp| -> String { s.as_atom().map(|x| x.to_owned()).unwrap_or_default() };
	match (op, args) {
		("desc-parse", [k, s]) => {
			let s = tr!(s.as_jstring());
			match tag(k).as_str() {
				"field" => parse_field(&s).map_or(Ans::err(), |t| Ans::Ok(ty_to_sexp(&t))),
				"method" => parse_method(&s).map_or(Ans::err(), |m| Ans::Ok(method_to_sexp(&m))),
				"return" => parse_return(&s).map_or(Ans::err(), |t| Ans::Ok(Sexp::opt(t.as_ref(), ty_to_sexp))),
				_ => Ans::BadOp("kind".into()),
			}
		}
		("desc-parse3", [s]) => {
			let s = tr!(s.as_jstring());
			Ans::Ok(Sexp::list(vec![
				Sexp::opt(parse_field(&s), |t| ty_to_sexp(&t)),
				Sexp::opt(parse_method(&s), |m| method_to_sexp(&m)),
				Sexp::opt(parse_return(&s), |t| Sexp::opt(t.as_ref(), ty_to_sexp)),
			]))
		}
		("desc-print", [k, rest @ ..]) => {
			let r = match (tag(k).as_str(), rest) {
				("field", [t]) => print_field(&slot!(ty_from_sexp(t))),
				("return", [t]) => print_return(&slot!(ret_from_sexp(t))),
				("method", [ps, rt]) => { let a = tr!(tys_from_sexp(ps)); let b = tr!(ret_from_sexp(rt)); match (a, b) { (Ok(a), Ok(b)) => print_method(&a, &b), _ => return Ans::err() } }
				_ => return Ans::BadOp("kind".into()),
			};
			match r { Some(s) => Ans::Ok(Sexp::jstr(&s)), None => Ans::ok_tag("panic") }
		}
		("name-valid", [k, s]) => {
			let s = tr!(s.as_jstring());
			match name_valid(&tag(k), &s) { Some(b) => Ans::Ok(Sexp::bool(b)), None => Ans::BadOp("kind".into()) }
		}
		("args-size", [s]) => {
			match args_size(&tr!(s.as_jstring())) { Size::Ok(n) => Ans::Ok(Sexp::nat(n as usize)), Size::Err => Ans::err(), Size::Overflow => Ans::ok_tag("overflow") }
		}
		("split", [s]) => {
			let Ok(s) = ObjClassName::try_from(tr!(s.as_jstring())) else { return Ans::err() };
			Ans::Ok(Sexp::opt(s.split_inner_class_parent_and_name(), |(p, i)| Sexp::list(vec![Sexp::jstr(p.as_inner()), Sexp::jstr(i.as_inner())])))
		}
		// the two accessors must cut where `split_inner_class_parent_and_name` cuts (they are documented as its two halves)
		("inner-parts", [s]) => {
			let Ok(s) = ObjClassName::try_from(tr!(s.as_jstring())) else { return Ans::err() };
			Ans::Ok(Sexp::list(vec![
				Sexp::opt(s.get_inner_class_parent(), |p| Sexp::jstr(p.as_inner())),
				Sexp::opt(s.get_inner_class_name(), |i| Sexp::jstr(i.as_inner())),
			]))
		}
		("join", [p, i]) => {
			let (Ok(p), Ok(i)) = (ObjClassName::try_from(tr!(p.as_jstring())), ObjClassName::try_from(tr!(i.as_jstring()))) else { return Ans::err() };
			Ans::Ok(Sexp::jstr(ObjClassName::from_inner_class(p, &i).as_inner()))
		}
		("simple-name", [s]) => {
			let Ok(s) = ObjClassName::try_from(tr!(s.as_jstring())) else { return Ans::err() };
			Ans::Ok(Sexp::jstr(s.get_simple_name().as_inner()))
		}
		("arr-dimension", [s]) => {
			let Ok(s) = ArrClassName::try_from(tr!(s.as_jstring())) else { return Ans::err() };
			match guarded(|| s.dimension()) { Some(d) => Ans::Ok(Sexp::nat(d as usize)), None => Ans::ok_tag("panic") }
		}
		("from-class", [s]) => {
			let Ok(s) = ClassName::try_from(tr!(s.as_jstring())) else { return Ans::err() };
			Ans::Ok(Sexp::jstr(FieldDescriptor::from_class(&s).as_inner()))
		}

		// ---- oracles: the property evaluated on the implementation against the independent spec above
		("oracle-accepts", [s]) => {
			let js = tr!(s.as_jstring());
			let c = tr!(s.as_cps());
			if parse_field(&js).is_some() != is_field_desc(&c) { return Ans::fail("field"); }
			if parse_return(&js).is_some() != is_return_desc(&c) { return Ans::fail("return"); }
			if parse_method(&js).is_some() != method_desc_slots(&c).is_some() { return Ans::fail("method"); }
			Ans::pass()
		}
		("oracle-parse-print", [s]) => {
			let js = tr!(s.as_jstring());
			let mut any = false;
			if let Some(t) = parse_field(&js) { any = true; if print_field(&t).as_ref() != Some(&js) { return Ans::fail("field"); } }
			if let Some(t) = parse_return(&js) { any = true; if print_return(&t).as_ref() != Some(&js) { return Ans::fail("return"); } }
			if let Some(m) = parse_method(&js) { any = true; if print_method(&m.parameter_descriptors, &m.return_descriptor).as_ref() != Some(&js) { return Ans::fail("method"); } }
			if any { Ans::pass() } else { Ans::out_of_domain() }
		}
		("oracle-print-parse", [ps, rt]) => {
			// a method structure; every parameter is also tried as a field and as a return descriptor
			let (Ok(ps), Ok(rt)) = (tr!(tys_from_sexp(ps)), tr!(ret_from_sexp(rt))) else { return Ans::out_of_domain() };
			if !ps.iter().all(ty_wf) || !rt.as_ref().map_or(true, ty_wf) { return Ans::out_of_domain(); }
			for t in &ps {
				let Some(s) = print_field(t) else { return Ans::fail("field_panic") };
				if parse_field(&s).as_ref() != Some(t) { return Ans::fail("field"); }
				let Some(s) = print_return(&Some(t.clone())) else { return Ans::fail("return_panic") };
				if parse_return(&s) != Some(Some(t.clone())) { return Ans::fail("return"); }
			}
			let Some(s) = print_return(&rt) else { return Ans::fail("return_panic") };
			if parse_return(&s) != Some(rt.clone()) { return Ans::fail("return"); }
			let Some(s) = print_method(&ps, &rt) else { return Ans::fail("method_panic") };
			match parse_method(&s) {
				Some(m) if m.parameter_descriptors == ps && m.return_descriptor == rt => Ans::pass(),
				_ => Ans::fail("method"),
			}
		}
		("oracle-args-size", [s]) => {
			let js = tr!(s.as_jstring());
			let Some(slots) = method_desc_slots(&tr!(s.as_cps())) else { return Ans::out_of_domain() };
			let want = 1 + slots.iter().sum::<usize>();
			if want > 255 { return Ans::out_of_domain(); }
			match args_size(&js) { Size::Ok(n) if n as usize == want => Ans::pass(), Size::Ok(_) => Ans::fail("size"), Size::Err => Ans::fail("err"), Size::Overflow => Ans::fail("overflow") }
		}
		("oracle-name-spec", [k, s]) => {
			let js = tr!(s.as_jstring());
			let k = tag(k);
			let c = tr!(s.as_cps());
			match (name_valid(&k, &js), name_spec(&k, &c)) {
				(Some(a), Some(b)) => if a == b { Ans::pass() } else { Ans::fail(&k) },
				_ => Ans::BadOp("kind".into()),
			}
		}
		("oracle-join-split", [p, i]) => {
			let (pj, ij) = (tr!(p.as_jstring()), tr!(i.as_jstring()));
			let ic = tr!(i.as_cps());
			let Ok(pn) = ObjClassName::try_from(pj) else { return Ans::out_of_domain() };
			if !FieldName::is_valid(&ij) || ic.contains(&0x24) { return Ans::out_of_domain(); }
			let Ok(inn) = ObjClassName::try_from(ij) else { return Ans::fail("inner_not_obj") };
			let j = ObjClassName::from_inner_class(pn.clone(), &inn);
			if !ObjClassName::is_valid(j.as_inner()) { return Ans::fail("join_invalid"); }
			match j.split_inner_class_parent_and_name() {
				Some((a, b)) if a == pn.as_slice() && b == inn.as_slice() => Ans::pass(),
				_ => Ans::fail("differs"),
			}
		}
		("oracle-dimension", [s]) => {
			let c = tr!(s.as_cps());
			// `dimension_total`: on every valid `ArrClassName`, no panic and the number of leading `[`
			let Ok(a) = ArrClassName::try_from(tr!(s.as_jstring())) else { return Ans::out_of_domain() };
			if !is_array_desc(&c) { return Ans::fail("valid_not_desc"); }
			let want = c.iter().take_while(|&&x| x == 0x5b).count();
			match guarded(|| a.dimension()) { Some(d) if d as usize == want => Ans::pass(), _ => Ans::fail("dimension") }
		}
		("oracle-from-class", [s]) => {
			let c = tr!(s.as_cps());
			let js = tr!(s.as_jstring());
			let Ok(cn) = ClassName::try_from(js.clone()) else { return Ans::out_of_domain() };
			let d = FieldDescriptor::from_class(&cn).into_inner();
			if is_array_desc(&c) { return if d == js { Ans::pass() } else { Ans::fail("arr") }; }
			if !is_class_name(&c) { return Ans::out_of_domain(); }
			let mut want = vec![0x4c]; want.extend(&c); want.push(0x3b);
			let parsed_back = matches!(parse_field(&d), Some(Type::Object(n)) if n.as_inner() == js.as_java_str());
			if cps_of(&d) == want && parsed_back { Ans::pass() } else { Ans::fail("obj") }
		}
		("oracle-simple-name", [s]) => {
			let c = tr!(s.as_cps());
			let Ok(n) = ObjClassName::try_from(tr!(s.as_jstring())) else { return Ans::out_of_domain() };
			let want = c.rsplit(|&x| x == 0x2f).next().unwrap_or(&[]).to_vec();
			if cps_of(n.get_simple_name().as_inner()) == want { Ans::pass() } else { Ans::fail("simple") }
		}
		("oracle-split-join", [s]) => {
			let Ok(s) = ObjClassName::try_from(tr!(s.as_jstring())) else { return Ans::out_of_domain() };
			match s.split_inner_class_parent_and_name() {
				None => Ans::out_of_domain(),
				Some((p, i)) => {
					if !ObjClassName::is_valid(p.as_inner()) || !ObjClassName::is_valid(i.as_inner()) { return Ans::fail("part_invalid"); }
					if ObjClassName::from_inner_class(p.to_owned(), i) == s { Ans::pass() } else { Ans::fail("differs") }
				}
			}
		}
		_ => Ans::BadOp("unknown op".into()),
	}
}

// ---------------------------------------------------------------------------------------------------- generators

/// structure used by the generator; printed by the generator's own printer (not by the implementation)
#[derive(Clone)]
enum GBase { Prim(u32), Obj(Vec<u32>) }
#[derive(Clone)]
struct GTy { dims: usize, base: GBase }

impl GTy {
	fn text(&self) -> Vec<u32> {
		let mut v = vec![0x5b; self.dims];
		match &self.base { GBase::Prim(c) => v.push(*c), GBase::Obj(n) => { v.push(0x4c); v.extend(n); v.push(0x3b); } }
		v
	}
	fn sexp(&self) -> Sexp {
		let b = match &self.base { GBase::Prim(c) => Sexp::tag(&char::from_u32(*c).unwrap_or('?').to_string()), GBase::Obj(n) => Sexp::list(vec![Sexp::tag("obj"), Sexp::cps(n)]) };
		if self.dims == 0 { b } else { Sexp::list(vec![Sexp::tag("arr"), Sexp::nat(self.dims), b]) }
	}
}

const PRIMS: [u32; 8] = [0x42, 0x43, 0x44, 0x46, 0x49, 0x4a, 0x53, 0x5a];

fn gen_ident(r: &mut Rng, unicode: bool) -> Vec<u32> {
	let plain: &[u32] = &[0x61, 0x62, 0x41, 0x5a, 0x24, 0x5f, 0x31, 0x4c, 0x56, 0x49, 0x3c, 0x3e, 0x28, 0x29];
	let uni: &[u32] = &[0xe9, 0x3b1, 0x4e2d, 0x1f600, 0x10000, 0x10ffff, 0xd800, 0xdfff, 0xffff, 0x1, 0x20, 0x7f];
	(0..r.range(1, 4)).map(|_| if unicode && r.chance(1, 3) { *r.pick(uni) } else { *r.pick(plain) }).collect()
}
fn gen_class_name(r: &mut Rng, unicode: bool) -> Vec<u32> {
	let mut v = gen_ident(r, unicode);
	for _ in 0..r.below(4) { v.push(0x2f); v.extend(gen_ident(r, unicode)); }
	v
}
fn gen_ty(r: &mut Rng, unicode: bool) -> GTy {
	let dims = match r.below(20) { 0..=9 => 0, 10..=15 => r.range(1, 3), 16 => r.range(4, 40), 17 => 254, 18 => 255, _ => r.range(200, 255) };
	let base = if r.chance(1, 2) { GBase::Prim(*r.pick(&PRIMS)) } else { GBase::Obj(gen_class_name(r, unicode)) };
	GTy { dims, base }
}
fn mutate(r: &mut Rng, s: &[u32]) -> Vec<u32> {
	let alpha: &[u32] = &[0x42, 0x49, 0x4a, 0x4c, 0x56, 0x5b, 0x28, 0x29, 0x3b, 0x2f, 0x61, 0x24, 0x2e, 0x3c, 0x44];
	let mut v = s.to_vec();
	for _ in 0..r.range(1, 2) {
		match r.below(5) {
			0 if !v.is_empty() => { let i = r.below(v.len()); v.remove(i); }
			1 => { let i = r.below(v.len() + 1); v.insert(i, *r.pick(alpha)); }
			2 if !v.is_empty() => { let i = r.below(v.len()); v[i] = *r.pick(alpha); }
			3 if v.len() >= 2 => { let i = r.below(v.len() - 1); v.swap(i, i + 1); }
			_ => { let i = r.below(v.len() + 1); v.truncate(i); }
		}
	}
	v
}

fn enumerate(alpha: &[u32], len: usize, mut f: impl FnMut(&[u32])) {
	let total = alpha.len().pow(len as u32);
	let mut s = vec![0u32; len];
	for code in 0..total {
		let mut c = code;
		for slot in s.iter_mut() { *slot = alpha[c % alpha.len()]; c /= alpha.len(); }
		f(&s);
	}
}

fn gen(r: &mut Rng, tier: Tier, out: &mut Out) {
	let thorough = tier == Tier::Thorough;
	// ---- 1. exhaustive short strings over the descriptor alphabet  B I J L V [ ( ) ; / a $ . <
	let full: Vec<u32> = cp("BIJLV[();/a$.<");
	let reduced: Vec<u32> = cp("IL[();/a");      // longer strings over the structural characters only
	let tiny: Vec<u32> = cp("L[();a");
	let plan: Vec<(&[u32], std::ops::RangeInclusive<usize>)> = if thorough {
		vec![(&full, 0..=6), (&reduced, 7..=7), (&tiny, 8..=8)]
	} else {
		vec![(&full, 0..=4), (&reduced, 5..=6)]
	};
	for (alpha, lens) in plan {
		for len in lens {
			let mut n = 0u64;
			enumerate(alpha, len, |s| {
				n += 1;
				out.lines.push(format!("desc-parse3 {}", Sexp::cps(s)));
				// the oracles on a slice of the enumeration (every string that looks like a descriptor start)
				if len <= 4 || matches!(s.first(), Some(0x28 | 0x5b | 0x4c)) && n % 3 == 0 {
					out.lines.push(format!("oracle-accepts {}", Sexp::cps(s)));
				}
				if len <= 4 { out.lines.push(format!("oracle-parse-print {}", Sexp::cps(s))); }
				// every `[`-prefixed string also as array class name / class name (the region repaired by b182f7d)
				if len <= 5 && s.first() == Some(&0x5b) {
					for k in ["arr", "class"] {
						out.lines.push(format!("name-valid {k} {}", Sexp::cps(s)));
						out.lines.push(format!("oracle-name-spec {k} {}", Sexp::cps(s)));
					}
					out.lines.push(format!("arr-dimension {}", Sexp::cps(s)));
					out.lines.push(format!("oracle-dimension {}", Sexp::cps(s)));
					out.lines.push(format!("oracle-from-class {}", Sexp::cps(s)));
				}
				if len <= 4 && s.first() == Some(&0x28) {
					out.lines.push(format!("args-size {}", Sexp::cps(s)));
					out.lines.push(format!("oracle-args-size {}", Sexp::cps(s)));
				}
			});
			out.stats.add(&format!("exhaustive-desc:len{len}:alphabet{}", alpha.len()), n);
		}
	}
	// ---- 2. dimensions around the cap
	for d in [0usize, 1, 2, 254, 255, 256, 257, 300, 511, 512] {
		for tail in ["I", "La;", "", "L;", "[", "V", "Ljava/lang/Object;", "II", "La"] {
			let mut s = vec![0x5b; d]; s.extend(cp(tail));
			out.op("desc-parse", &[Sexp::tag("field"), Sexp::cps(&s)]);
			out.op("desc-parse", &[Sexp::tag("return"), Sexp::cps(&s)]);
			out.op("oracle-accepts", &[Sexp::cps(&s)]);
			out.op("oracle-parse-print", &[Sexp::cps(&s)]);
			let mut m = cp("(I"); m.extend(&s); m.extend(cp(")")); m.extend(&s);
			out.op("desc-parse", &[Sexp::tag("method"), Sexp::cps(&m)]);
			out.op("oracle-accepts", &[Sexp::cps(&m)]);
			out.op("args-size", &[Sexp::cps(&m)]);
			out.op("oracle-args-size", &[Sexp::cps(&m)]);
			if d >= 1 {
				out.op("name-valid", &[Sexp::tag("arr"), Sexp::cps(&s)]);
				out.op("name-valid", &[Sexp::tag("class"), Sexp::cps(&s)]);
				out.op("arr-dimension", &[Sexp::cps(&s)]);
				out.op("from-class", &[Sexp::cps(&s)]);
				out.op("oracle-dimension", &[Sexp::cps(&s)]);
				out.op("oracle-from-class", &[Sexp::cps(&s)]);
				out.op("oracle-name-spec", &[Sexp::tag("arr"), Sexp::cps(&s)]);
				out.op("oracle-name-spec", &[Sexp::tag("class"), Sexp::cps(&s)]);
			}
			out.stats.hit(&format!("dims:{d}"));
		}
		if d <= 255 {
			for b in [Sexp::tag("I"), Sexp::list(vec![Sexp::tag("obj"), Sexp::str("a/b")]), Sexp::list(vec![Sexp::tag("obj"), Sexp::str("[I")]), Sexp::list(vec![Sexp::tag("obj"), Sexp::str("a.b")])] {
				let t = Sexp::list(vec![Sexp::tag("arr"), Sexp::nat(d), b]);
				out.op("desc-print", &[Sexp::tag("field"), t.clone()]);
				out.op("desc-print", &[Sexp::tag("return"), Sexp::list(vec![t.clone()])]);
				out.op("desc-print", &[Sexp::tag("method"), Sexp::list(vec![t.clone(), Sexp::tag("J")]), Sexp::list(vec![])]);
				out.op("oracle-print-parse", &[Sexp::list(vec![t.clone()]), Sexp::list(vec![t])]);
			}
		}
	}
	// argument sizes around the u8 limit
	for (c, ns) in [("J", vec![0usize, 1, 126, 127, 128, 200]), ("I", vec![253, 254, 255, 256]), ("[D", vec![254, 255]), ("La;", vec![254, 255])] {
		for n in ns {
			for tail in [")V", ")J", "", ")"] {
				let mut s = cp("("); for _ in 0..n { s.extend(cp(c)); } s.extend(cp(tail));
				out.op("args-size", &[Sexp::cps(&s)]);
				out.op("oracle-args-size", &[Sexp::cps(&s)]);
				out.op("desc-parse", &[Sexp::tag("method"), Sexp::cps(&s)]);
				out.stats.hit("args-size-limit");
			}
		}
	}
	// ---- 3. random descriptors from the grammar, their structures, token-level mutations
	let rounds = if thorough { 40000 } else { 1500 };
	for _ in 0..rounds {
		let unicode = r.chance(1, 3);
		let np = *r.pick(&[0usize, 1, 1, 2, 3, 5, 8]);
		let ps: Vec<GTy> = (0..np).map(|_| gen_ty(r, unicode)).collect();
		let rt = if r.chance(1, 3) { None } else { Some(gen_ty(r, unicode)) };
		let mut text = cp("(");
		for p in &ps { text.extend(p.text()); }
		text.push(0x29);
		match &rt { None => text.push(0x56), Some(t) => text.extend(t.text()) }
		let pss = Sexp::list(ps.iter().map(|p| p.sexp()).collect());
		let rts = Sexp::opt(rt.as_ref(), |t| t.sexp());
		out.stats.hit(&format!("method-params:{np}"));
		out.stats.hit(if unicode { "names:unicode" } else { "names:ascii" });
		out.op("desc-parse", &[Sexp::tag("method"), Sexp::cps(&text)]);
		out.op("desc-print", &[Sexp::tag("method"), pss.clone(), rts.clone()]);
		out.op("oracle-print-parse", &[pss, rts.clone()]);
		out.op("oracle-parse-print", &[Sexp::cps(&text)]);
		out.op("oracle-accepts", &[Sexp::cps(&text)]);
		out.op("args-size", &[Sexp::cps(&text)]);
		out.op("oracle-args-size", &[Sexp::cps(&text)]);
		let one = match (&rt, ps.first()) { (Some(t), _) => t.clone(), (None, Some(t)) => t.clone(), _ => gen_ty(r, unicode) };
		out.stats.hit(&format!("field-dims:{}", match one.dims { 0 => "0", 1..=3 => "1-3", 4..=253 => "4-253", _ => "254-255" }));
		out.op("desc-parse", &[Sexp::tag("field"), Sexp::cps(&one.text())]);
		out.op("desc-parse", &[Sexp::tag("return"), Sexp::cps(&one.text())]);
		out.op("desc-print", &[Sexp::tag("field"), one.sexp()]);
		out.op("desc-print", &[Sexp::tag("return"), rts]);
		out.op("oracle-parse-print", &[Sexp::cps(&one.text())]);
		if let GBase::Obj(n) = &one.base {
			out.op("from-class", &[Sexp::cps(n)]);
			out.op("simple-name", &[Sexp::cps(n)]);
			out.op("oracle-simple-name", &[Sexp::cps(n)]);
			out.op("split", &[Sexp::cps(n)]);
			out.op("inner-parts", &[Sexp::cps(n)]);
			out.op("oracle-split-join", &[Sexp::cps(n)]);
			out.op("oracle-from-class", &[Sexp::cps(n)]);
		}
		if one.dims > 0 {
			out.op("arr-dimension", &[Sexp::cps(&one.text())]); out.op("from-class", &[Sexp::cps(&one.text())]);
			out.op("oracle-dimension", &[Sexp::cps(&one.text())]); out.op("oracle-from-class", &[Sexp::cps(&one.text())]);
			out.op("oracle-name-spec", &[Sexp::tag("arr"), Sexp::cps(&one.text())]);
		}
		// mutations
		for _ in 0..2 {
			let (kind, base) = if r.chance(1, 2) { ("method", &text) } else { (*r.pick(&["field", "return"]), &one.text()) };
			let m = mutate(r, base);
			out.stats.hit("mutant");
			out.op("desc-parse", &[Sexp::tag(kind), Sexp::cps(&m)]);
			out.op("oracle-accepts", &[Sexp::cps(&m)]);
			out.op("oracle-parse-print", &[Sexp::cps(&m)]);
			if kind == "method" { out.op("args-size", &[Sexp::cps(&m)]); out.op("oracle-args-size", &[Sexp::cps(&m)]); }
		}
		// structures with names the slots refuse / the assert in write
		if r.chance(1, 8) {
			let bad = gen_class_name(r, unicode); let bad = mutate(r, &bad);
			let d = r.below(3);
			let b = Sexp::list(vec![Sexp::tag("obj"), Sexp::cps(&bad)]);
			let t = if d == 0 { b } else { Sexp::list(vec![Sexp::tag("arr"), Sexp::nat(d), b]) };
			out.stats.hit("print-mutated-name");
			out.op("desc-print", &[Sexp::tag("field"), t.clone()]);
			out.op("oracle-print-parse", &[Sexp::list(vec![t.clone()]), Sexp::list(vec![])]);
			let mut arrname = vec![0x5b; r.range(1, 2)]; arrname.extend(&bad);
			let t2 = Sexp::list(vec![Sexp::tag("arr"), Sexp::nat(r.below(3)), Sexp::list(vec![Sexp::tag("obj"), Sexp::cps(&arrname)])]);
			out.op("desc-print", &[Sexp::tag("field"), t2.clone()]);
			out.op("desc-print", &[Sexp::tag("method"), Sexp::list(vec![Sexp::tag("I"), t2.clone()]), Sexp::list(vec![t2])]);
		}
	}
	// ---- 4. name predicates: all short strings over  . ; [ / < > $ a
	let kinds = ["class", "arr", "obj", "field", "method", "param", "local"];
	let desc_kinds = ["fdesc", "mdesc", "rdesc"];
	let name_alpha = cp(".;[/<>$a");
	for len in 0..=(if thorough { 6 } else { 4 }) {
		let mut n = 0u64;
		enumerate(&name_alpha, len, |s| {
			n += 1;
			for k in kinds {
				out.lines.push(format!("name-valid {k} {}", Sexp::cps(s)));
				if len <= 4 { out.lines.push(format!("oracle-name-spec {k} {}", Sexp::cps(s))); }
			}
			out.lines.push(format!("split {}", Sexp::cps(s)));
			out.lines.push(format!("simple-name {}", Sexp::cps(s)));
			out.lines.push(format!("oracle-simple-name {}", Sexp::cps(s)));
			if len <= 3 {
				for op in ["oracle-split-join", "arr-dimension", "from-class", "oracle-dimension", "oracle-from-class"] { out.lines.push(format!("{op} {}", Sexp::cps(s))); }
				for k in desc_kinds { out.lines.push(format!("name-valid {k} {}", Sexp::cps(s))); }
			}
		});
		out.stats.add(&format!("exhaustive-names:len{len}"), n);
	}
	// split / join over the inner-class alphabet
	let inner_alpha = cp("a$/B");
	for len in 0..=(if thorough { 7 } else { 5 }) {
		enumerate(&inner_alpha, len, |s| {
			out.lines.push(format!("split {}", Sexp::cps(s)));
			out.lines.push(format!("oracle-split-join {}", Sexp::cps(s)));
			// every way of cutting the string into (parent, inner)
			if len <= 4 { for cut in 0..=s.len() { out.lines.push(format!("oracle-join-split {} {}", Sexp::cps(&s[..cut]), Sexp::cps(&s[cut..]))); } }
		});
	}
	// special method names and their neighbours, unicode, surrogates
	let mut specials: Vec<Vec<u32>> = ["<init>", "<clinit>", "<init", "init>", "<Init>", "<init>x", "x<init>", "<clinit", "<>", "<", ">", "a<b", "main", "<init><clinit>", "", "[", "[x", "[I", "[[", "[Lx;", "[V", "a/b", "a//b", "/a", "a/", "a.b", "a;b", "a[b", "java/lang/Object", "A$B", "a/A$B$C", "$", "a/$", "$/a"]
		.iter().map(|s| cp(s)).collect();
	for u in [0xe9u32, 0x1f600, 0x10000, 0x10ffff, 0xd800, 0xdc00, 0xffff, 0, 0x5b + 0x100, 0x2f + 0x100] {
		specials.push(vec![u]);
		specials.push(vec![0x61, u, 0x2f, u]);
		specials.push(vec![0x5b, u]);
		specials.push(vec![u, 0x24, u]);
	}
	let nrand = if thorough { 20000 } else { 1000 };
	for _ in 0..nrand {
		let base = match r.below(4) { 0 => gen_class_name(r, true), 1 => gen_ident(r, true), 2 => cp(*r.pick(&["<init>", "<clinit>"])), _ => { let mut v = vec![0x5b; r.range(1, 3)]; v.extend(gen_ty(r, true).text()); v } };
		specials.push(if r.chance(1, 2) { mutate(r, &base) } else { base });
	}
	for s in &specials {
		for k in kinds {
			out.op("name-valid", &[Sexp::tag(k), Sexp::cps(s)]);
			out.op("oracle-name-spec", &[Sexp::tag(k), Sexp::cps(s)]);
		}
		out.op("split", &[Sexp::cps(s)]);
		out.op("inner-parts", &[Sexp::cps(s)]);
		out.op("simple-name", &[Sexp::cps(s)]);
		out.op("oracle-simple-name", &[Sexp::cps(s)]);
		out.op("arr-dimension", &[Sexp::cps(s)]);
		out.op("from-class", &[Sexp::cps(s)]);
		out.op("oracle-split-join", &[Sexp::cps(s)]);
		out.op("oracle-dimension", &[Sexp::cps(s)]);
		out.op("oracle-from-class", &[Sexp::cps(s)]);
		for k in desc_kinds { out.op("name-valid", &[Sexp::tag(k), Sexp::cps(s)]); }
		out.op("desc-parse3", &[Sexp::cps(s)]);
	}
	for _ in 0..nrand {
		let p = gen_class_name(r, true); let p = if r.chance(1, 6) { mutate(r, &p) } else { p };
		let i = if r.chance(1, 5) { gen_class_name(r, true) } else { gen_ident(r, true) }; let i = if r.chance(1, 6) { mutate(r, &i) } else { i };
		out.op("join", &[Sexp::cps(&p), Sexp::cps(&i)]);
		out.op("oracle-join-split", &[Sexp::cps(&p), Sexp::cps(&i)]);
let mut s = p.clone(); s.push(0x24); s.extend(&i);
		out.op("split", &[Sexp::cps(&s)]);
		out.op("inner-parts", &[Sexp::cps(&s)]);
		out.op("oracle-split-join", &[Sexp::cps(&s)]);
	}
}

fn main() { main_for(&gen, &exec) }
