//! C01: class reader fidelity.  Ops (see lean/FeatherModel/Driver/C01.lean):
//!   read x<bytes> | read-resolved x<bytes> | mutf8 x<bytes> | oracle-read-expected x<bytes> <class> | oracle-read-parse x<bytes>
use std::cell::RefCell;
use std::io::Cursor;
use std::panic::{catch_unwind, AssertUnwindSafe};
use std::sync::Once;
use fvh::c01facts;
use fvh::c01gen::{self, Cfg};
use fvh::c01model::{self, assemble, Choices, GClass, GCode, GInsn, GLoadable, GLv, GMethod};
use fvh::c01parse;
use fvh::rng::Rng;
use fvh::run::{main_for, Ans, Out, Tier};
use fvh::sexp::Sexp;

thread_local! { static PANIC_AT: RefCell<String> = const { RefCell::new(String::new()) }; }
static HOOK: Once = Once::new();

/// runs duke's reader; a panic is reported by the *file* it happened in (line numbers are not compared)
fn duke_read(bytes: &[u8]) -> Result<Result<duke::tree::class::ClassFile, ()>, String> {
	HOOK.call_once(|| {
		std::panic::set_hook(Box::new(|info| {
			let f = info.location().map(|l| l.file().to_owned()).unwrap_or_default();
			let stem = f.rsplit('/').next().unwrap_or("").trim_end_matches(".rs").to_owned();
			PANIC_AT.with(|p| *p.borrow_mut() = stem);
		}));
	});
	match catch_unwind(AssertUnwindSafe(|| duke::read_class(&mut Cursor::new(bytes)))) {
		Ok(Ok(c)) => Ok(Ok(c)),
		Ok(Err(_)) => Ok(Err(())),
		Err(_) => Err(PANIC_AT.with(|p| p.borrow().clone())),
	}
}


/// hand-assembled class `A { static void m() }` whose code is `goto <off>; nop; return` (code_length 5), with one exception
/// entry, one line-number entry, one local-variable entry and (optionally) one stack-map frame: every offset field is a
/// parameter, so the bounds checks of the label table are exercised at and around `code_length`
fn boundary_class(goto_off: i16, exc: Option<(u16, u16, u16)>, line_pc: Option<u16>, lv: Option<(u16, u16)>, frame_delta: Option<u16>) -> Vec<u8> {
	let mut b: Vec<u8> = vec![0xca, 0xfe, 0xba, 0xbe, 0, 0, 0, 52];
	let utf8 = |b: &mut Vec<u8>, s: &str| { b.push(1); b.extend((s.len() as u16).to_be_bytes()); b.extend(s.as_bytes()); };
	b.extend(12u16.to_be_bytes());
	utf8(&mut b, "A"); b.extend([7, 0, 1]);                       // 1, 2
	for s in ["m", "()V", "Code", "LineNumberTable", "LocalVariableTable", "x", "I", "StackMapTable", "java/lang/Object"] { utf8(&mut b, s); } // 3..=11
	b.extend([0, 0x21, 0, 2, 0, 0, 0, 0, 0, 0]);                // access, this, super=0, interfaces=0, fields=0
	b.extend([0, 1, 0, 9, 0, 3, 0, 4, 0, 1]);                   // 1 method: access, name, desc, 1 attribute
	let mut code: Vec<u8> = vec![0, 1, 0, 1, 0, 0, 0, 5, 0xa7];
	code.extend(goto_off.to_be_bytes()); code.extend([0x00, 0xb1]);
	match exc { None => code.extend([0, 0]), Some((s, e, h)) => { code.extend([0, 1]); for v in [s, e, h, 0] { code.extend(v.to_be_bytes()); } } }
	let mut attrs: Vec<(u16, Vec<u8>)> = Vec::new();
	if let Some(d) = frame_delta { let mut a = vec![0, 1, 251]; a.extend(d.to_be_bytes()); attrs.push((10, a)); }
	if let Some(pc) = line_pc { let mut a = vec![0, 1]; a.extend(pc.to_be_bytes()); a.extend([0, 7]); attrs.push((6, a)); }
	if let Some((st, len)) = lv { let mut a = vec![0, 1]; for v in [st, len, 8, 9, 0] { a.extend(v.to_be_bytes()); } attrs.push((7, a)); }
	code.extend((attrs.len() as u16).to_be_bytes());
	for (n, a) in attrs { code.extend(n.to_be_bytes()); code.extend((a.len() as u32).to_be_bytes()); code.extend(a); }
	b.extend([0, 5]); b.extend((code.len() as u32).to_be_bytes()); b.extend(code);
	b.extend([0, 0]);                                             // class attributes
	b
}

/// hand-assembled class (version 47) whose method `goto 4; nop; return` carries an old-format (CLDC) `StackMap` attribute with
/// the given entries `(offset, locals, stack)`; a verification type is `(tag, u16 operand)` (operand used by tags 7 and 8)
fn cldc_class(entries: &[(u16, Vec<(u8, u16)>, Vec<(u8, u16)>)], with_lines: bool) -> Vec<u8> {
	let mut b: Vec<u8> = vec![0xca, 0xfe, 0xba, 0xbe, 0, 0, 0, 47];
	let utf8 = |b: &mut Vec<u8>, s: &str| { b.push(1); b.extend((s.len() as u16).to_be_bytes()); b.extend(s.as_bytes()); };
	b.extend(8u16.to_be_bytes());
	utf8(&mut b, "A"); b.extend([7, 0, 1]);
	for s in ["m", "()V", "Code", "StackMap", "LineNumberTable"] { utf8(&mut b, s); } // 3..=7
	b.extend([0, 0x21, 0, 2, 0, 0, 0, 0, 0, 0]);
	b.extend([0, 1, 0, 9, 0, 3, 0, 4, 0, 1]);
	let mut code: Vec<u8> = vec![0, 1, 0, 1, 0, 0, 0, 5, 0xa7, 0, 4, 0x00, 0xb1, 0, 0];
	let mut sm: Vec<u8> = (entries.len() as u16).to_be_bytes().to_vec();
	for (off, locals, stack) in entries {
		sm.extend(off.to_be_bytes());
		for list in [locals, stack] {
			sm.extend((list.len() as u16).to_be_bytes());
			for (tag, v) in list { sm.push(*tag); if *tag == 7 || *tag == 8 { sm.extend(v.to_be_bytes()); } }
		}
	}
	let mut attrs: Vec<(u16, Vec<u8>)> = Vec::new();
	if with_lines { attrs.push((7, vec![0, 1, 0, 3, 0, 9])); }
	attrs.push((6, sm));
	code.extend((attrs.len() as u16).to_be_bytes());
	for (n, a) in attrs { code.extend(n.to_be_bytes()); code.extend((a.len() as u32).to_be_bytes()); code.extend(a); }
	b.extend([0, 5]); b.extend((code.len() as u32).to_be_bytes()); b.extend(code);
	b.extend([0, 0]);
	b
}

/// hand-assembled class whose method loads (`via_indy = false`: `ldc_w`) or calls (`invokedynamic`) a constant whose bootstrap
/// arguments form a chain of `k` nested `Dynamic` constants; `cyclic`: the last one takes the first one as its argument.
/// The reader resolves bootstrap arguments up to MAX_BOOTSTRAP_ARGUMENT_DEPTH = 16 levels (duke cb2ce34), deeper is an error.
fn dyn_chain_class(k: usize, cyclic: bool, via_indy: bool) -> Vec<u8> {
	let mut b: Vec<u8> = vec![0xca, 0xfe, 0xba, 0xbe, 0, 0, 0, 55];
	let utf8 = |b: &mut Vec<u8>, s: &str| { b.push(1); b.extend((s.len() as u16).to_be_bytes()); b.extend(s.as_bytes()); };
	let first_dyn = 15u16;                                        // pool index of the first Dynamic
	b.extend((first_dyn + k as u16 + 1).to_be_bytes());           // constant_pool_count
	utf8(&mut b, "A"); b.extend([7, 0, 1]);                       // 1, 2
	for s in ["m", "()V", "Code", "BootstrapMethods", "x", "I", "b"] { utf8(&mut b, s); } // 3..=9
	b.extend([12, 0, 7, 0, 8]);                                   // 10 NameAndType x:I
	b.extend([12, 0, 9, 0, 4]);                                   // 11 NameAndType b:()V
	b.extend([10, 0, 2, 0, 11]);                                  // 12 Methodref A.b:()V
	b.extend([15, 6, 0, 12]);                                     // 13 MethodHandle invokestatic #12
	b.extend([18, 0, 0, 0, 10]);                                  // 14 InvokeDynamic bsm 0, x:I
	for j in 0..k { b.push(17); b.extend((j as u16 + 1).to_be_bytes()); b.extend([0, 10]); } // 15.. Dynamic bsm j+1, x:I
	b.extend([0, 0x21, 0, 2, 0, 0, 0, 0, 0, 0]);
	b.extend([0, 1, 0, 9, 0, 3, 0, 4, 0, 1]);
	let mut code: Vec<u8> = vec![0, 1, 0, 1];
	if via_indy { code.extend([0, 0, 0, 6, 0xba, 0, 14, 0, 0, 0xb1]); } else { code.extend([0, 0, 0, 4, 0x13]); code.extend(first_dyn.to_be_bytes()); code.push(0xb1); }
	code.extend([0, 0, 0, 0]);
	b.extend([0, 5]); b.extend((code.len() as u32).to_be_bytes()); b.extend(code);
	// BootstrapMethods: entry 0 (of the InvokeDynamic) takes the first Dynamic, entry j+1 (of Dynamic j) the next one
	let mut t: Vec<u8> = ((k + 1) as u16).to_be_bytes().to_vec();
	t.extend([0, 13]); if k > 0 { t.extend([0, 1]); t.extend(first_dyn.to_be_bytes()); } else { t.extend([0, 0]); }
	for j in 0..k {
		t.extend([0, 13]);
		if j + 1 < k { t.extend([0, 1]); t.extend((first_dyn + j as u16 + 1).to_be_bytes()); }
		else if cyclic { t.extend([0, 1]); t.extend(first_dyn.to_be_bytes()); }
		else { t.extend([0, 0]); }
	}
	b.extend([0, 1, 0, 6]); b.extend((t.len() as u32).to_be_bytes()); b.extend(t);
	b
}

/// hand-assembled class whose method carries a `RuntimeVisibleAnnotations` (`default = false`) or `AnnotationDefault` attribute
/// with an element value nested `k` levels (`arrays`: `[[..]]`, else `@A(v=@A(v=..))`) around `inner` (an empty array when
/// `None`, else the string constant "v").  The reader admits MAX_ELEMENT_VALUE_DEPTH = 255 levels (duke 835fdd2).
fn deep_anno_class(k: usize, arrays: bool, default: bool, empty_array_inside: bool) -> Vec<u8> {
	let mut b: Vec<u8> = vec![0xca, 0xfe, 0xba, 0xbe, 0, 0, 0, 52];
	let utf8 = |b: &mut Vec<u8>, s: &str| { b.push(1); b.extend((s.len() as u16).to_be_bytes()); b.extend(s.as_bytes()); };
	b.extend(9u16.to_be_bytes());
	utf8(&mut b, "A"); b.extend([7, 0, 1]);
	for s in ["m", "()V", "RuntimeVisibleAnnotations", "AnnotationDefault", "LA;", "v"] { utf8(&mut b, s); } // 3..=8
	b.extend([0, 0x21, 0, 2, 0, 0, 0, 0, 0, 0]);
	b.extend([0, 1, 0x04, 0x01, 0, 3, 0, 4, 0, 1]);                // abstract method, 1 attribute
	let mut v: Vec<u8> = Vec::new();
	for _ in 0..k { if arrays { v.extend([b'[', 0, 1]); } else { v.extend([b'@', 0, 7, 0, 1, 0, 8]); } }
	if empty_array_inside { v.extend([b'[', 0, 0]); } else { v.extend([b's', 0, 8]); }
	let body: Vec<u8> = if default { v } else { let mut a = vec![0, 1, 0, 7, 0, 1, 0, 8]; a.extend(v); a };
	b.extend(if default { [0, 6] } else { [0, 5] }); b.extend((body.len() as u32).to_be_bytes()); b.extend(body);
	b.extend([0, 0]);
	b
}

fn minimal_method(code: GCode) -> GClass {
	GClass { minor: 0, major: 52, access: 0x21, name: c01model::js("A"), super_: Some(c01model::js("java/lang/Object")),
		methods: vec![GMethod { access: 9, name: c01model::js("m"), desc: c01model::js("()V"), code: Some(code), ..Default::default() }], ..Default::default() }
}

fn emit_valid(out: &mut Out, r: &mut Rng, g: &GClass, variants: usize, parse_oracle: bool) {
	let expected = g.to_sexp();
	for v in 0..variants {
		let ch = if v == 0 && r.chance(1, 3) { Choices::plain() } else { Choices::random(r) };
		// a class that cannot be encoded under these choices (code longer than 65535 bytes, conditional branch out of range) is skipped
		let Ok(bytes) = catch_unwind(AssertUnwindSafe(|| assemble(g, &ch, r))) else { out.stats.hit("skipped:not-encodable"); continue };
		out.stats.hit(&format!("choices:pool-shuffle={} attrs-shuffle={} wide={}", ch.shuffle_pool, ch.shuffle_attrs, ch.wide_pct));
		out.stats.add("bytes", bytes.len() as u64);
		let b = Sexp::bytes(&bytes);
		if v == 0 { out.op("read", &[b.clone()]); }
		out.op("oracle-read-expected", &[b.clone(), expected.clone()]);
		if parse_oracle && v == 0 { out.op("oracle-read-parse", &[b]); }
	}
}

fn gen(r: &mut Rng, tier: Tier, out: &mut Out) {
	let thorough = tier == Tier::Thorough;
	if std::env::var("C01_DEBUG").is_ok() { let _ = std::panic::take_hook(); } // let generator bugs print their location
	// ---- 0. regression witnesses of the two repaired C01 defects (also in known_findings.json)
	{
		let c = c01model::js;
		let lv = GCode { max_stack: 1, max_locals: 1, insns: vec![(None, GInsn::Simple(0)), (None, GInsn::Simple(0xb1))],
			locals: Some(vec![GLv { start: 0, end: 2, name: c("x"), desc: Some(c("I")), sig: None, index: 0 }, GLv { start: 1, end: 2, name: c("t"), desc: None, sig: Some(c("TT;")), index: 0 }]), ..Default::default() };
		let g = minimal_method(lv);
		let b = assemble(&g, &Choices::plain(), &mut Rng::new(1));
		out.op("oracle-read-expected", &[Sexp::bytes(&b), g.to_sexp()]);
		let ex = GCode { max_stack: 1, max_locals: 1, insns: vec![(None, GInsn::Simple(0)), (None, GInsn::Simple(0xb1))], exceptions: vec![(0, 2, 1, None)], ..Default::default() };
		let g = minimal_method(ex);
		let b = assemble(&g, &Choices::plain(), &mut Rng::new(1));
		out.op("oracle-read-expected", &[Sexp::bytes(&b), g.to_sexp()]);
	}
	// ---- 1. javac corpus
	let mut corpus: Vec<Vec<u8>> = Vec::new();
	for dir in ["/verif/corpus/classes", "/verif/corpus/c20"] {
		let mut files: Vec<_> = std::fs::read_dir(dir).map(|d| d.filter_map(|e| e.ok()).map(|e| e.path()).filter(|p| p.extension().map(|e| e == "class").unwrap_or(false)).collect()).unwrap_or_else(|_| Vec::new());
		files.sort();
		for f in files {
			if let Ok(b) = std::fs::read(&f) {
				out.stats.hit("stream:corpus-class");
				out.op("read", &[Sexp::bytes(&b)]);
				out.op("oracle-read-parse", &[Sexp::bytes(&b)]);
				// the independent parse, re-assembled under random choices, must still read as the same facts
				if let Ok(g) = c01parse::parse(&b) {
					let has_pa = g.methods.iter().any(|m| !m.param_annos.is_empty());
					if has_pa { out.stats.hit("corpus:parameter-annotations-dropped-by-duke"); }
					for _ in 0..(if thorough { 6 } else { 2 }) {
						let ch = Choices::random(r);
						let Ok(bytes) = catch_unwind(AssertUnwindSafe(|| assemble(&g, &ch, r))) else { out.stats.hit("skipped:not-encodable"); continue };
						out.stats.hit("stream:corpus-reassembled");
						out.op("oracle-read-expected", &[Sexp::bytes(&bytes), g.to_sexp()]);
					}
				} else { out.stats.hit("corpus:independent-parse-failed"); }
				corpus.push(b);
			}
		}
	}
	// ---- 2. every instruction kind x form x alignment, alone in a method
	{
		let cfg = Cfg { max_insns: 1, max_members: 0, unicode: false, annotations: false, frames: false, modern: false, big_locals: true };
		let mut st = fvh::run::Stats::default();
		let mut seen = std::collections::HashMap::new();
		let rounds = if thorough { 6000 } else { 700 };
		for _ in 0..rounds {
			let one = c01gen::code(r, &cfg, &mut st);
			let kind = c01gen::insn_kind(&one.insns[0].1);
			let cnt = seen.entry(kind).or_insert(0usize);
			if *cnt >= (if thorough { 120 } else { 12 }) { continue; }
			*cnt += 1;
			let pad = *cnt % 4;
			let mut insns: Vec<(Option<c01model::GFrame>, GInsn)> = (0..pad).map(|_| (None, GInsn::Simple(0))).collect();
			// retarget the single instruction's labels into the new list
			let shift = |t: usize| -> usize { (t + pad).min(pad + 1) };
			let ins = match one.insns[0].1.clone() {
				GInsn::Branch(op, _) => GInsn::Branch(op, shift(*cnt % 2)),
				GInsn::Goto(_) => GInsn::Goto(shift(*cnt % 2)),
				GInsn::Jsr(_) => GInsn::Jsr(shift(*cnt % 2)),
				GInsn::TableSwitch { low, high, table, .. } => GInsn::TableSwitch { dflt: pad, low, high, table: table.iter().enumerate().map(|(i, _)| if i % 2 == 0 { pad + 1 } else { 0 }).collect() },
				GInsn::LookupSwitch { pairs, .. } => GInsn::LookupSwitch { dflt: pad + 1, pairs: pairs.iter().map(|(k, _)| (*k, pad)).collect() },
				o => o,
			};
			insns.push((None, ins));
			insns.push((None, GInsn::Simple(0xb1)));
			let g = minimal_method(GCode { max_stack: 2, max_locals: 2, insns, ..Default::default() });
			out.stats.hit(&format!("single:{kind}:pad{pad}"));
			emit_valid(out, r, &g, 2, false);
		}
	}
	// ---- 3. random classes, each under several encodings
	let n_classes = if thorough { 30000 } else { 900 };
	let mut valid: Vec<Vec<u8>> = Vec::new();
	for i in 0..n_classes {
		let cfg = Cfg::random(r);
		let g = c01gen::class(r, &cfg, out.stats);
		out.stats.hit("stream:random-class");
		emit_valid(out, r, &g, if i % 3 == 0 { 3 } else { 1 }, i % 2 == 0);
		if valid.len() < 400 { if let Ok(b) = catch_unwind(AssertUnwindSafe(|| assemble(&g, &Choices::random(r), r))) { valid.push(b); } }
	}
	// ---- 4. large methods (wide jumps, offsets beyond 32767, many labels)
	for k in 0..(if thorough { 40 } else { 3 }) {
		let n = if k % 2 == 0 { 9000 } else { 13000 };
		let mut insns: Vec<(Option<c01model::GFrame>, GInsn)> = Vec::new();
		for i in 0..n {
			insns.push((None, match r.below(12) {
				0 => GInsn::Goto(r.below(n)),
				1 => GInsn::Branch(0x99, { let lo = i.saturating_sub(30); r.range(lo, (i + 30).min(n - 1)) }),
				2 => GInsn::SiPush(i as i16),
				3 => GInsn::Load(0, (i % 700) as u16),
				4 => GInsn::Ldc(GLoadable::Int(i as i32 % 50)),
				_ => GInsn::Simple(*r.pick(&[0x00, 0x60, 0x57, 0x59])),
			}));
		}
		insns.push((None, GInsn::Simple(0xb1)));
		let g = minimal_method(GCode { max_stack: 4, max_locals: 800, insns, lines: Some((0..200).map(|i| (i * 40, i as u16)).collect()),
			exceptions: vec![(0, n + 1, n, None)], ..Default::default() });
		out.stats.hit("stream:large-method");
		emit_valid(out, r, &g, 1, true);
	}
	// ---- 5. malformed stream: mutants of valid files (answers, including `err`, must agree)
	let n_mut = if thorough { 60000 } else { 2500 };
	for i in 0..n_mut {
		let base = if i % 4 == 0 && !corpus.is_empty() { &corpus[r.below(corpus.len())] } else { &valid[r.below(valid.len())] };
		if base.len() > 20000 { continue; }
		let m = c01gen::mutate(r, base, out.stats);
		out.op("read", &[Sexp::bytes(&m)]);
	}
	// ---- 5b. label bounds: every offset-carrying field at, below and above `code_length` (5) and inside an instruction (1, 2)
	{
		let offs: [u16; 8] = [0, 1, 3, 4, 5, 6, 0xffff, 0x8000];
		for g in [-1i16, 0, 1, 2, 3, 4, 5, 6, i16::MAX, i16::MIN] { out.stats.hit("boundary:goto"); out.op("read", &[Sexp::bytes(&boundary_class(g, None, None, None, None))]); }
		for s in offs { for e in offs { for h in [0u16, 4, 5, 6] { out.stats.hit("boundary:exception"); out.op("read", &[Sexp::bytes(&boundary_class(3, Some((s, e, h)), None, None, None))]); } } }
		for pc in offs { out.stats.hit("boundary:line"); out.op("read", &[Sexp::bytes(&boundary_class(3, None, Some(pc), None, None))]); }
		for st in offs { for len in [0u16, 1, 2, 5, 6, 0xffff, 0xfffb, 0xfffa] { out.stats.hit("boundary:local"); out.op("read", &[Sexp::bytes(&boundary_class(3, None, None, Some((st, len)), None))]); } }
		for d in offs { out.stats.hit("boundary:frame"); out.op("read", &[Sexp::bytes(&boundary_class(3, None, None, None, Some(d)))]); }
		for d in [0u16, 3, 4] { out.op("read", &[Sexp::bytes(&boundary_class(3, Some((0, 5, 4)), Some(d), Some((d, 5 - d)), Some(d)))]); }
	}
	// ---- 5c. class names: array class names must be array field descriptors (1..255 dimensions); object names split on '/'
	{
		let mut names: Vec<String> = ["[", "[x", "[I", "[II", "[L;", "[La;", "[La;x", "[La.b;", "[L[I;", "[La/b;", "[La//b;", "[L/a;", "[[Z", "[V", "a", "a/b", "a//b", "/a", "a/", "", "a.b", "a;b", "a[b", "[La;;"].iter().map(|s| s.to_string()).collect();
		names.push(format!("{}I", "[".repeat(255)));
		names.push(format!("{}I", "[".repeat(256)));
		names.push(format!("{}Lx;", "[".repeat(255)));
		for n in names {
			let g = minimal_method(GCode { max_stack: 1, max_locals: 1, insns: vec![(None, GInsn::New(c01model::js(&n))), (None, GInsn::Simple(0xb1))], ..Default::default() });
			out.stats.hit("directed:class-name");
			out.op("read", &[Sexp::bytes(&assemble(&g, &Choices::plain(), &mut Rng::new(1)))]);
			// the same string as `this_class` (must be an object class name there)
			let mut g2 = minimal_method(GCode { max_stack: 1, max_locals: 1, insns: vec![(None, GInsn::Simple(0xb1))], ..Default::default() });
			g2.name = c01model::js(&n);
			out.op("read", &[Sexp::bytes(&assemble(&g2, &Choices::plain(), &mut Rng::new(1)))]);
		}
	}
	// ---- 5d. old-format `StackMap` attribute: entries in any order, duplicates, offsets at / beyond the end, uninitialized labels
	for i in 0..(if thorough { 2000 } else { 150 }) {
		let n = r.below(4);
		let entries: Vec<(u16, Vec<(u8, u16)>, Vec<(u8, u16)>)> = (0..n).map(|_| {
			let vt = |r: &mut Rng| -> Vec<(u8, u16)> { (0..r.below(3)).map(|_| { let t = *r.pick(&[0u8, 1, 2, 3, 4, 5, 6, 7, 8, 8, 9]); (t, if t == 7 { 2 } else { *r.pick(&[0u16, 3, 4, 5, 1]) }) }).collect() };
			(*r.pick(&[0u16, 3, 4, 4, 0, 1, 5, 6]), vt(r), vt(r))
		}).collect();
		out.stats.hit("directed:cldc-stackmap");
		out.op("read", &[Sexp::bytes(&cldc_class(&entries, i % 2 == 0))]);
	}
	// ---- 5e. the reader's deliberate nesting limits: bootstrap arguments (16 levels), element values (255 levels)
	for via_indy in [false, true] {
		for k in [0usize, 1, 2, 15, 16, 17, 18, 19, 40] {
			if k == 0 && !via_indy { continue; }
			out.stats.hit("directed:dynamic-depth");
			out.op("read", &[Sexp::bytes(&dyn_chain_class(k, false, via_indy))]);
			out.op("oracle-read-parse", &[Sexp::bytes(&dyn_chain_class(k, false, via_indy))]);
		}
		for k in [1usize, 2, 5] { out.stats.hit("directed:dynamic-cycle"); out.op("read", &[Sexp::bytes(&dyn_chain_class(k, true, via_indy))]); }
	}
	for arrays in [false, true] { for default in [false, true] { for empty in [false, true] {
		for k in [0usize, 1, 2, 253, 254, 255, 256, 257, 300] {
			out.stats.hit("directed:element-value-depth");
			out.op("read", &[Sexp::bytes(&deep_anno_class(k, arrays, default, empty))]);
			out.op("oracle-read-parse", &[Sexp::bytes(&deep_anno_class(k, arrays, default, empty))]);
		}
	} } }
	// directed malformed cases: overflowing local-variable range (an error since e3534dd), bad magic, version 67.1, empty input
	out.op("read", &[Sexp::bytes(&[])]);
	out.op("read", &[Sexp::bytes(&[0xca, 0xfe, 0xba, 0xbe, 0, 1, 0, 67, 0, 1, 0, 0, 0, 0, 0, 0, 0, 0, 0, 0, 0, 0, 0, 0])]);
	{
		let c = c01model::js;
		let g = minimal_method(GCode { max_stack: 1, max_locals: 1, insns: vec![(None, GInsn::Simple(0)), (None, GInsn::Simple(0xb1))],
			locals: Some(vec![GLv { start: 0, end: 2, name: c("x"), desc: Some(c("I")), sig: None, index: 0 }]), ..Default::default() });
		let b = assemble(&g, &Choices::plain(), &mut Rng::new(1));
		// patch `length` of the local variable entry to 0xffff: start_pc + length overflows u16 after start_pc=1
		if let Some(p) = b.windows(4).rposition(|w| w == [0, 0, 0, 2]) {
			let mut m = b.clone(); m[p] = 0; m[p + 1] = 1; m[p + 2] = 0xff; m[p + 3] = 0xff;
			out.stats.hit("malformed:lvt-range-overflow");
			out.op("read", &[Sexp::bytes(&m)]);
		}
	}
	// ---- 6. modified UTF-8
	for _ in 0..(if thorough { 20000 } else { 1500 }) {
		let b: Vec<u8> = match r.below(3) {
			0 => (0..r.below(7)).map(|_| *r.pick(&[0u8, 0x41, 0x7f, 0x80, 0xbf, 0xc0, 0xc1, 0xc2, 0xdf, 0xe0, 0xed, 0xef, 0xf0, 0xf4, 0xf5, 0xa0, 0xb0, 0x9f, 0x8f, 0x90])).collect(),
			1 => { let s: Vec<u32> = (0..r.below(5)).map(|_| *r.pick(&[0u32, 0x41, 0x7f, 0x80, 0x7ff, 0x800, 0xd7ff, 0xd800, 0xdbff, 0xdc00, 0xdfff, 0xe000, 0xffff, 0x10000, 0x10ffff])).collect(); c01model::mutf8_encode(&s) }
			_ => { let s: String = (0..r.below(4)).map(|_| *r.pick(&['a', '\0', 'é', '€', '😀', '\u{10ffff}'])).collect(); s.into_bytes() }
		};
		out.op("mutf8", &[Sexp::bytes(&b)]);
	}
}

fn exec(op: &str, args: &[Sexp]) -> Ans {
	macro_rules! tr { ($e:expr) => { match $e { Ok(x) => x, Err(e) => return Ans::BadOp(e) } } }
	match (op, args) {
		("read" | "read-resolved", [b]) => {
			let bytes = tr!(b.as_bytes());
			match duke_read(&bytes) {
				Err(site) => Ans::Panic(site),
				Ok(Err(())) => Ans::err(),
				Ok(Ok(c)) => match c01facts::class(&c, op == "read-resolved") {
					Ok(s) => Ans::Ok(s),
					Err(e) => if op == "read-resolved" && e.starts_with("dangling") { Ans::Err("dangling".into()) } else { Ans::BadOp(format!("projection: {e}")) },
				},
			}
		}
		("mutf8", [b]) => {
			let bytes = tr!(b.as_bytes());
			match java_string::JavaString::from_modified_utf8(bytes) { Ok(s) => Ans::Ok(Sexp::jstr(&s)), Err(_) => Ans::err() }
		}
		("oracle-read-expected", [b, expected]) => {
			let bytes = tr!(b.as_bytes());
			match duke_read(&bytes) {
				Err(_) => Ans::fail("panic"),
				Ok(Err(())) => Ans::fail("err"),
				Ok(Ok(c)) => match c01facts::class(&c, true) {
					Ok(s) => if s.to_string() == expected.to_string() { Ans::pass() } else { Ans::fail("differs") },
					Err(e) if e.starts_with("dangling") => Ans::fail("dangling"),
					Err(e) => Ans::BadOp(format!("projection: {e}")),
				},
			}
		}
		("oracle-parameter-annotations", [b, n]) => {
			// the duke tree has no field for parameter annotations (`visit_parameter_annotation` is `todo!()`, the reader skips the
			// attribute): of the `n` attributes the file states, none is delivered
			let bytes = tr!(b.as_bytes());
			let n = tr!(n.as_nat());
			match duke_read(&bytes) {
				Ok(Ok(_)) => if n == 0 { Ans::pass() } else { Ans::fail("dropped") },
				_ => Ans::fail("err"),
			}
		}
		("oracle-read-parse", [b]) => {
			let bytes = tr!(b.as_bytes());
			let Ok(g) = c01parse::parse(&bytes) else { return Ans::out_of_domain() };
			match duke_read(&bytes) {
				Err(_) => Ans::fail("panic"),
				Ok(Err(())) => Ans::fail("err"),
				Ok(Ok(c)) => match c01facts::class(&c, true) {
					Ok(s) => if s.to_string() == g.to_sexp().to_string() { Ans::pass() } else { Ans::fail("differs") },
					Err(e) if e.starts_with("dangling") => Ans::fail("dangling"),
					Err(e) => Ans::BadOp(format!("projection: {e}")),
				},
			}
		}
		_ => Ans::BadOp("unknown op".into()),
	}
}

fn main() { main_for(&gen, &exec) }
