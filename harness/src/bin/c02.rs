//! C02: class writer (`duke::write_class`) — code array, branch-offset fixpoint, tables, pool, framing.
//!
//! Request grammar (all labels are *model* labels: instruction `k` carries label `k`, `n = #instructions` is the
//! last label, any larger number is a label no instruction carries):
//!
//!   code-write  <insns> <excs> <lines> <lvs> [<frames>]        whole class file + the parsed Code attribute
//!   oracle-write-read  <insns> <excs> <lines> <lvs> [<frames>]  decode what was written, every offset designates its target
//!   oracle-wellformed  <insns> <excs> <lines> <lvs> [<frames>]  structural validity of what was written
//!   oracle-frames-fail-iff <insns> <excs> <lines> <lvs> <frames>  written exactly when the frames are expressible, refused with an error otherwise
//!   pool-put <insns>                                 pool indices handed to the `ldc`s, constant_pool_count
//!   cf-write-read x<class>                           read, write, read again: `same` | `(differs frames|other)`
//!   oracle-cf-write-read full|partial x<class>
//!
//!   insns := ( item* )        item := insn | (rep <n> insn)
//!   insn  := (s <opcode>) | (bi v) | (si v) | (ldc-int v) | (ldc-long v) | (ldc-float bits) | (ldc-double bits)
//!          | (ldc-str #s) | (ldc-cls #s) | (ld kind idx) | (st kind idx) | (iinc idx v) | (ret idx)
//!          | (if cond label) | (goto label) | (jsr label) | (ts dflt low high (label*)) | (ls dflt ((key label)*))
//!          | (fld 178..181 #cls #name #desc) | (inv 182..184 #cls #name #desc t|f) | (invi #cls #name #desc)
//!          | (cls 187|189|192|193 #cls) | (newarray 4..11) | (mana #cls dims)
//!          | (ldc-mt #desc) | (ldc-mh handle) | (indy #name #desc handle (const*)) | (ldc-dyn #name #desc handle (const*))
//!   handle := (h kind #cls #name #desc t|f)        const := (ldc-int v) | … | (ldc-mt #d) | (ldc-mh handle)
//!   excs  := ( (start end handler (catch)?)* )
//!   lines := () | ( ((label line)*) )
//!   lvs   := () | ( ((start end #name (#desc)? (#sig)? index)*) )
//!   frames := ( (k frame)* )   stack map frames attached to instruction `k` (`InstructionListEntry.frame`), `k` strictly increasing, `k < n`
//!   frame := (same) | (same1 vt) | (chop 0..255) | (append (vt*)) | (full (vt*) (vt*))
//!   vt    := top | int | float | double | long | null | uthis | (obj #cls) | (uninit label)
//!
//! Trees are built through duke's public API; `Label`s and `LabelRange`s (crate-private fields, no constructor) are
//! harvested from a donor class read with `duke::read_class`. Everything that inspects duke's output (class-file
//! parser, instruction decoder) is written here from JVMS and shares no code with duke or raw_class_file.
use std::collections::{BTreeMap, BTreeSet};
use std::io::Cursor;
use std::panic::{catch_unwind, AssertUnwindSafe};
use duke::tree::class::{ClassAccess, ClassFile, ClassName, ObjClassName};
use duke::tree::field::{FieldDescriptor, FieldName, FieldRef, FieldSignature};
use duke::tree::method::code::{ArrayType, Code, ConstantDynamic, Exception, Handle, Instruction, InstructionListEntry, Label, LabelRange, Loadable, LocalVariableName, Lv, LvIndex};
use duke::tree::method::{Method, MethodAccess, MethodDescriptor, MethodName, MethodRef};
use duke::tree::version::Version;
use duke::visitor::method::code::{StackMapData, VerificationTypeInfo};
use fvh::rng::Rng;
use fvh::run::{main_for, Ans, Out, Tier};
use fvh::sexp::Sexp;
use java_string::JavaString;

type R<T> = Result<T, String>;

// ------------------------------------------------------------------------------------------------ requests

/// kind 1..=9, pool reference kind (9/10/11), class, name, descriptor
#[derive(Clone, Debug, PartialEq)]
struct RHandle { kind: u8, ref_kind: u8, cls: Vec<u32>, name: Vec<u32>, desc: Vec<u32> }

#[derive(Clone, Debug, PartialEq)]
enum Const { Int(i32), Long(i64), Float(u32), Double(u64), Str(Vec<u32>), Cls(Vec<u32>), MType(Vec<u32>), MHandle(RHandle) }

#[derive(Clone, Debug, PartialEq)]
enum RI {
	Simple(u8),
	Bi(i8),
	Si(i16),
	Ldc(Const),
	Load(u8, u16),
	Store(u8, u16),
	Iinc(u16, i16),
	Ret(u16),
	If(u8, usize),
	Goto(usize),
	Jsr(usize),
	Ts(usize, i32, i32, Vec<usize>),
	Ls(usize, Vec<(i32, usize)>),
	/// opcode, pool reference kind (9 Fieldref, 10 Methodref, 11 InterfaceMethodref), class, name, descriptor
	Ref(u8, u8, Vec<u32>, Vec<u32>, Vec<u32>),
	InvokeInterface(Vec<u32>, Vec<u32>, Vec<u32>),
	ClsOp(u8, Vec<u32>),
	NewArray(u8),
	MultiANewArray(Vec<u32>, u8),
	/// name, descriptor, bootstrap handle, static arguments
	Indy(Vec<u32>, Vec<u32>, RHandle, Vec<Const>),
	LdcDyn(Vec<u32>, Vec<u32>, RHandle, Vec<Const>),
}

struct RExc { start: usize, end: usize, handler: usize, catch: Option<Vec<u32>> }
struct RLv { start: usize, end: usize, name: Vec<u32>, desc: Option<Vec<u32>>, sig: Option<Vec<u32>>, index: u16 }

#[derive(Clone, Debug, PartialEq)]
enum RVt { Top, Int, Float, Double, Long, Null, UThis, Obj(Vec<u32>), Uninit(usize) }
#[derive(Clone, Debug, PartialEq)]
enum RFrame { Same, Same1(RVt), Chop(u8), Append(Vec<RVt>), Full(Vec<RVt>, Vec<RVt>) }

impl RFrame {
	fn types(&self) -> Vec<&RVt> {
		match self { RFrame::Same1(v) => vec![v], RFrame::Append(l) => l.iter().collect(), RFrame::Full(l, s) => l.iter().chain(s).collect(), _ => vec![] }
	}
}

struct Req {
	insns: Vec<RI>,
	excs: Vec<RExc>,
	lines: Option<Vec<(usize, u16)>>,
	lvs: Option<Vec<RLv>>,
	/// the frame of every instruction (`InstructionListEntry.frame`)
	frames: Vec<Option<RFrame>>,
}

fn is_simple(op: usize) -> bool {
	op <= 0x0f || (0x2e..=0x35).contains(&op) || (0x4f..=0x83).contains(&op) || (0x85..=0x98).contains(&op)
		|| (0xac..=0xb1).contains(&op) || op == 0xbe || op == 0xbf || op == 0xc2 || op == 0xc3
}

fn num<T: TryFrom<i64>>(s: &Sexp) -> R<T> { T::try_from(s.as_int()?).map_err(|_| format!("out of range {s}")) }

fn parse_handle(s: &Sexp) -> R<RHandle> {
	match s.as_list()? {
		[Sexp::Atom(h), k, c, n, d, i] if h == "h" => {
			let kind: u8 = num(k)?; let i = i.as_bool()?;
			let ref_kind = match (kind, i) { (1..=4, false) => 9, (5 | 8, false) => 10, (6 | 7, false) => 10, (6 | 7, true) => 11, (9, true) => 11, _ => return Err("handle kind".into()) };
			Ok(RHandle { kind, ref_kind, cls: c.as_cps()?, name: n.as_cps()?, desc: d.as_cps()? })
		}
		_ => Err("handle".into()),
	}
}

fn parse_const(s: &Sexp) -> R<Const> {
	let l = s.as_list()?;
	let head = l.first().ok_or("empty const")?.as_atom()?;
	Ok(match (head, &l[1..]) {
		("ldc-int", [v]) => Const::Int(num(v)?),
		("ldc-long", [v]) => Const::Long(v.as_int()?),
		("ldc-float", [v]) => Const::Float(num(v)?),
		("ldc-double", [v]) => Const::Double(v.as_atom()?.parse::<u64>().map_err(|e| e.to_string())?),
		("ldc-str", [v]) => Const::Str(v.as_cps()?),
		("ldc-cls", [v]) => Const::Cls(v.as_cps()?),
		("ldc-mt", [v]) => Const::MType(v.as_cps()?),
		("ldc-mh", [h]) => Const::MHandle(parse_handle(h)?),
		_ => return Err(format!("unknown constant {s}")),
	})
}

fn parse_insn1(s: &Sexp) -> R<RI> {
	let l = s.as_list()?;
	let head = l.first().ok_or("empty insn")?.as_atom()?;
	Ok(match (head, &l[1..]) {
		("s", [op]) => { let op = op.as_nat()?; if !is_simple(op) { return Err("not a simple opcode".into()) } RI::Simple(op as u8) }
		("bi", [v]) => RI::Bi(num(v)?),
		("si", [v]) => RI::Si(num(v)?),
		("ldc-int", [v]) => RI::Ldc(Const::Int(num(v)?)),
		("ldc-long", [v]) => RI::Ldc(Const::Long(v.as_int()?)),
		("ldc-float", [v]) => RI::Ldc(Const::Float(num(v)?)),
		("ldc-double", [v]) => RI::Ldc(Const::Double(v.as_atom()?.parse::<u64>().map_err(|e| e.to_string())?)),
		("ldc-str", [v]) => RI::Ldc(Const::Str(v.as_cps()?)),
		("ldc-cls", [v]) => RI::Ldc(Const::Cls(v.as_cps()?)),
		("ld", [k, i]) => { let k: u8 = num(k)?; if k > 4 { return Err("kind".into()) } RI::Load(k, num(i)?) }
		("st", [k, i]) => { let k: u8 = num(k)?; if k > 4 { return Err("kind".into()) } RI::Store(k, num(i)?) }
		("iinc", [i, v]) => RI::Iinc(num(i)?, num(v)?),
		("ret", [i]) => RI::Ret(num(i)?),
		("if", [c, t]) => { let c: u8 = num(c)?; if c > 15 { return Err("cond".into()) } RI::If(c, t.as_nat()?) }
		("goto", [t]) => RI::Goto(t.as_nat()?),
		("jsr", [t]) => RI::Jsr(t.as_nat()?),
		("ts", [d, lo, hi, tb]) => RI::Ts(d.as_nat()?, num(lo)?, num(hi)?, tb.as_list()?.iter().map(|x| x.as_nat()).collect::<R<_>>()?),
		("ls", [d, ps]) => RI::Ls(d.as_nat()?, ps.as_list()?.iter().map(|p| match p.as_list()? {
			[k, t] => Ok((num(k)?, t.as_nat()?)),
			_ => Err("pair".to_owned()),
		}).collect::<R<_>>()?),
		("fld", [op, c, n, d]) => { let op: u8 = num(op)?; if !(178..=181).contains(&op) { return Err("fld op".into()) } RI::Ref(op, 9, c.as_cps()?, n.as_cps()?, d.as_cps()?) }
		("inv", [op, c, n, d, i]) => {
			let op: u8 = num(op)?; let i = i.as_bool()?;
			if !((op == 182 && !i) || op == 183 || op == 184) { return Err("inv op".into()) }
			RI::Ref(op, if i { 11 } else { 10 }, c.as_cps()?, n.as_cps()?, d.as_cps()?)
		}
		("invi", [c, n, d]) => RI::InvokeInterface(c.as_cps()?, n.as_cps()?, d.as_cps()?),
		("cls", [op, c]) => { let op: u8 = num(op)?; if ![187, 189, 192, 193].contains(&op) { return Err("cls op".into()) } RI::ClsOp(op, c.as_cps()?) }
		("newarray", [t]) => { let t: u8 = num(t)?; if !(4..=11).contains(&t) { return Err("atype".into()) } RI::NewArray(t) }
		("mana", [c, d]) => RI::MultiANewArray(c.as_cps()?, num(d)?),
		("ldc-mt", [_]) | ("ldc-mh", [_]) => RI::Ldc(parse_const(s)?),
		("indy", [n, d, h, a]) => RI::Indy(n.as_cps()?, d.as_cps()?, parse_handle(h)?, a.as_list()?.iter().map(parse_const).collect::<R<_>>()?),
		("ldc-dyn", [n, d, h, a]) => RI::LdcDyn(n.as_cps()?, d.as_cps()?, parse_handle(h)?, a.as_list()?.iter().map(parse_const).collect::<R<_>>()?),
		_ => return Err(format!("unknown insn {s}")),
	})
}

fn parse_insns(s: &Sexp) -> R<Vec<RI>> {
	let mut out = Vec::new();
	for x in s.as_list()? {
		let l = x.as_list()?;
		if let [Sexp::Atom(a), n, y] = l { if a == "rep" {
			let n = n.as_nat()?;
			if out.len() + n > 200_000 { return Err("too many instructions".into()) }
			let i = parse_insn1(y)?;
			for _ in 0..n { out.push(i.clone()); }
			continue;
		} }
		out.push(parse_insn1(x)?);
	}
	Ok(out)
}

fn opt_cps(s: &Sexp) -> R<Option<Vec<u32>>> { Ok(match s.as_opt()? { None => None, Some(x) => Some(x.as_cps()?) }) }

fn parse_vt(s: &Sexp) -> R<RVt> {
	if let Sexp::Atom(a) = s {
		return Ok(match a.as_str() { "top" => RVt::Top, "int" => RVt::Int, "float" => RVt::Float, "double" => RVt::Double, "long" => RVt::Long, "null" => RVt::Null, "uthis" => RVt::UThis, _ => return Err(format!("verification type {s}")) })
	}
	match s.as_list()? {
		[Sexp::Atom(h), c] if h == "obj" => Ok(RVt::Obj(c.as_cps()?)),
		[Sexp::Atom(h), l] if h == "uninit" => Ok(RVt::Uninit(l.as_nat()?)),
		_ => Err(format!("verification type {s}")),
	}
}

fn parse_frame(s: &Sexp) -> R<RFrame> {
	let l = s.as_list()?;
	let head = l.first().ok_or("empty frame")?.as_atom()?;
	let vts = |x: &Sexp| -> R<Vec<RVt>> { x.as_list()?.iter().map(parse_vt).collect() };
	Ok(match (head, &l[1..]) {
		("same", []) => RFrame::Same,
		("same1", [v]) => RFrame::Same1(parse_vt(v)?),
		("chop", [k]) => RFrame::Chop(num(k)?),
		("append", [ls]) => RFrame::Append(vts(ls)?),
		("full", [ls, ss]) => RFrame::Full(vts(ls)?, vts(ss)?),
		_ => return Err(format!("unknown frame {s}")),
	})
}

/// `((k frame)*)`, `k` strictly increasing and `< n`
fn parse_frames(s: &Sexp, n: usize) -> R<Vec<Option<RFrame>>> {
	let mut out = vec![None; n];
	let mut next = 0;
	for x in s.as_list()? {
		match x.as_list()? {
			[k, f] => {
				let k = k.as_nat()?;
				if k < next || k >= n { return Err("frame index".into()) }
				out[k] = Some(parse_frame(f)?);
				next = k + 1;
			}
			_ => return Err("frame entry".into()),
		}
	}
	Ok(out)
}

fn parse_req5(i: &Sexp, e: &Sexp, l: &Sexp, v: &Sexp, f: Option<&Sexp>) -> R<Req> {
	let mut r = parse_req(i, e, l, v)?;
	if let Some(f) = f { r.frames = parse_frames(f, r.insns.len())?; }
	Ok(r)
}

fn parse_req(i: &Sexp, e: &Sexp, l: &Sexp, v: &Sexp) -> R<Req> {
	let insns = parse_insns(i)?;
	let excs = e.as_list()?.iter().map(|x| match x.as_list()? {
		[s, e, h, c] => Ok(RExc { start: s.as_nat()?, end: e.as_nat()?, handler: h.as_nat()?, catch: opt_cps(c)? }),
		_ => Err("exc".to_owned()),
	}).collect::<R<_>>()?;
	let lines = match l.as_opt()? {
		None => None,
		Some(x) => Some(x.as_list()?.iter().map(|p| match p.as_list()? {
			[l, n] => Ok((l.as_nat()?, num(n)?)),
			_ => Err("line".to_owned()),
		}).collect::<R<_>>()?),
	};
	let lvs = match v.as_opt()? {
		None => None,
		Some(x) => Some(x.as_list()?.iter().map(|p| match p.as_list()? {
			[s, e, n, d, g, i] => Ok(RLv { start: s.as_nat()?, end: e.as_nat()?, name: n.as_cps()?, desc: opt_cps(d)?, sig: opt_cps(g)?, index: num(i)? }),
			_ => Err("lv".to_owned()),
		}).collect::<R<_>>()?),
	};
	let frames = vec![None; insns.len()];
	Ok(Req { insns, excs, lines, lvs, frames })
}

// ------------------------------------------------------------------------------------------------ building the duke tree

fn js(cps: &[u32]) -> R<JavaString> { Sexp::cps(cps).as_jstring() }

/// a minimal class-file assembler for the donor class (labels at code offsets `0..m`, one LVT entry per wanted range)
fn donor_bytes(m: usize, ranges: &[(u16, u16)]) -> Vec<u8> {
	fn u16b(v: &mut Vec<u8>, x: usize) { v.extend_from_slice(&(x as u16).to_be_bytes()); }
	fn u32b(v: &mut Vec<u8>, x: usize) { v.extend_from_slice(&(x as u32).to_be_bytes()); }
	fn utf8(v: &mut Vec<u8>, s: &str) { v.push(1); u16b(v, s.len()); v.extend_from_slice(s.as_bytes()); }
	let mut pool = Vec::new();
	utf8(&mut pool, "D"); pool.push(7); u16b(&mut pool, 1);                      // 1, 2
	utf8(&mut pool, "java/lang/Object"); pool.push(7); u16b(&mut pool, 3);       // 3, 4
	utf8(&mut pool, "m"); utf8(&mut pool, "()V"); utf8(&mut pool, "Code");          // 5, 6, 7
	utf8(&mut pool, "LineNumberTable"); utf8(&mut pool, "LocalVariableTable");     // 8, 9
	utf8(&mut pool, "I"); utf8(&mut pool, "v");                                    // 10, 11
	let mut lnt = Vec::new();
	u16b(&mut lnt, m);
	for pc in 0..m { u16b(&mut lnt, pc); u16b(&mut lnt, pc); }
	let mut lvt = Vec::new();
	u16b(&mut lvt, ranges.len());
	for (i, &(s, l)) in ranges.iter().enumerate() { u16b(&mut lvt, s as usize); u16b(&mut lvt, l as usize); u16b(&mut lvt, 11); u16b(&mut lvt, 10); u16b(&mut lvt, i); }
	let mut code = Vec::new();
	u16b(&mut code, 1); u16b(&mut code, 65535);
	u32b(&mut code, m); code.extend(std::iter::repeat(0u8).take(m));
	u16b(&mut code, 0);
	u16b(&mut code, if ranges.is_empty() { 1 } else { 2 });
	u16b(&mut code, 8); u32b(&mut code, lnt.len()); code.extend_from_slice(&lnt);
	if !ranges.is_empty() { u16b(&mut code, 9); u32b(&mut code, lvt.len()); code.extend_from_slice(&lvt); }
	let mut v = vec![0xca, 0xfe, 0xba, 0xbe, 0, 0, 0, 52];
	u16b(&mut v, 12); v.extend_from_slice(&pool);
	u16b(&mut v, 0x21); u16b(&mut v, 2); u16b(&mut v, 4); u16b(&mut v, 0); u16b(&mut v, 0);
	u16b(&mut v, 1);
	u16b(&mut v, 9); u16b(&mut v, 5); u16b(&mut v, 6); u16b(&mut v, 1);
	u16b(&mut v, 7); u32b(&mut v, code.len()); v.extend_from_slice(&code);
	u16b(&mut v, 0);
	v
}

struct LabelSource {
	/// model label -> duke label
	map: BTreeMap<usize, Label>,
	/// (model start, model end) -> range
	ranges: BTreeMap<(usize, usize), LabelRange>,
}

/// harvest duke `Label`s for the model labels `wanted` and `LabelRange`s for `pairs`
fn harvest(wanted: &BTreeSet<usize>, pairs: &[(usize, usize)]) -> R<LabelSource> {
	// donor offsets must respect start <= end for every range: topological order, smallest model label first
	let nodes: Vec<usize> = wanted.iter().copied().collect();
	let mut succ: BTreeMap<usize, BTreeSet<usize>> = BTreeMap::new();
	let mut indeg: BTreeMap<usize, usize> = nodes.iter().map(|&x| (x, 0)).collect();
	for &(s, e) in pairs {
		if s != e && succ.entry(s).or_default().insert(e) { *indeg.get_mut(&e).ok_or("range label not wanted")? += 1; }
	}
	let mut ready: BTreeSet<usize> = indeg.iter().filter(|(_, &d)| d == 0).map(|(&x, _)| x).collect();
	let mut order = Vec::with_capacity(nodes.len());
	while let Some(&x) = ready.iter().next() {
		ready.remove(&x);
		order.push(x);
		if let Some(ss) = succ.get(&x) { for &y in ss {
			let d = indeg.get_mut(&y).ok_or("indeg")?;
			*d -= 1;
			if *d == 0 { ready.insert(y); }
		} }
	}
	if order.len() != nodes.len() { return Err("local variable ranges are cyclic (cannot be harvested from a donor class)".into()) }
	if order.is_empty() || order.len() > 65535 { return Err("label count".into()) }
	let at: BTreeMap<usize, usize> = order.iter().enumerate().map(|(i, &x)| (x, i)).collect();
	let upairs: Vec<(usize, usize)> = pairs.iter().copied().collect::<BTreeSet<_>>().into_iter().collect();
	let dr: Vec<(u16, u16)> = upairs.iter().map(|&(s, e)| (at[&s] as u16, (at[&e] - at[&s]) as u16)).collect();
	let bytes = donor_bytes(order.len(), &dr);
	let donor = duke::read_class(&mut Cursor::new(bytes)).map_err(|e| format!("donor class unreadable: {e:#}"))?;
	let code = donor.methods.into_iter().next().and_then(|m| m.code).ok_or("donor has no code")?;
	let lines = code.line_numbers.ok_or("donor has no line numbers")?;
	if lines.len() != order.len() { return Err("donor line numbers".into()) }
	let mut map = BTreeMap::new();
	for (j, (l, line)) in lines.iter().enumerate() {
		if *line as usize != j { return Err("donor line order".into()) }
		map.insert(order[j], *l);
	}
	let mut ranges = BTreeMap::new();
	if !upairs.is_empty() {
		let lvs = code.local_variables.ok_or("donor has no local variables")?;
		if lvs.len() != upairs.len() { return Err("donor local variables".into()) }
		for (lv, &(s, e)) in lvs.iter().zip(&upairs) {
			// cross-check through the Debug output that the range really is (label of s, label of e)
			let want = format!("LabelRange {{ start: {:?}, end: {:?} }}", map[&s], map[&e]);
			if format!("{:?}", lv.range) != want { return Err(format!("donor range mismatch {:?} vs {want}", lv.range)) }
			ranges.insert((s, e), lv.range.clone());
		}
	}
	Ok(LabelSource { map, ranges })
}

fn simple_insn(op: u8) -> Instruction {
	use Instruction::*;
	match op {
		0x00 => Nop, 0x01 => AConstNull, 0x02 => IConstM1, 0x03 => IConst0, 0x04 => IConst1, 0x05 => IConst2, 0x06 => IConst3,
		0x07 => IConst4, 0x08 => IConst5, 0x09 => LConst0, 0x0a => LConst1, 0x0b => FConst0, 0x0c => FConst1, 0x0d => FConst2,
		0x0e => DConst0, 0x0f => DConst1,
		0x2e => IALoad, 0x2f => LALoad, 0x30 => FALoad, 0x31 => DALoad, 0x32 => AALoad, 0x33 => BALoad, 0x34 => CALoad, 0x35 => SALoad,
		0x4f => IAStore, 0x50 => LAStore, 0x51 => FAStore, 0x52 => DAStore, 0x53 => AAStore, 0x54 => BAStore, 0x55 => CAStore, 0x56 => SAStore,
		0x57 => Pop, 0x58 => Pop2, 0x59 => Dup, 0x5a => DupX1, 0x5b => DupX2, 0x5c => Dup2, 0x5d => Dup2X1, 0x5e => Dup2X2, 0x5f => Swap,
		0x60 => IAdd, 0x61 => LAdd, 0x62 => FAdd, 0x63 => DAdd, 0x64 => ISub, 0x65 => LSub, 0x66 => FSub, 0x67 => DSub,
		0x68 => IMul, 0x69 => LMul, 0x6a => FMul, 0x6b => DMul, 0x6c => IDiv, 0x6d => LDiv, 0x6e => FDiv, 0x6f => DDiv,
		0x70 => IRem, 0x71 => LRem, 0x72 => FRem, 0x73 => DRem, 0x74 => INeg, 0x75 => LNeg, 0x76 => FNeg, 0x77 => DNeg,
		0x78 => IShl, 0x79 => LShl, 0x7a => IShr, 0x7b => LShr, 0x7c => IUShr, 0x7d => LUShr, 0x7e => IAnd, 0x7f => LAnd,
		0x80 => IOr, 0x81 => LOr, 0x82 => IXor, 0x83 => LXor,
		0x85 => I2L, 0x86 => I2F, 0x87 => I2D, 0x88 => L2I, 0x89 => L2F, 0x8a => L2D, 0x8b => F2I, 0x8c => F2L, 0x8d => F2D,
		0x8e => D2I, 0x8f => D2L, 0x90 => D2F, 0x91 => I2B, 0x92 => I2C, 0x93 => I2S,
		0x94 => LCmp, 0x95 => FCmpL, 0x96 => FCmpG, 0x97 => DCmpL, 0x98 => DCmpG,
		0xac => IReturn, 0xad => LReturn, 0xae => FReturn, 0xaf => DReturn, 0xb0 => AReturn, 0xb1 => Return,
		0xbe => ArrayLength, 0xbf => AThrow, 0xc2 => MonitorEnter, 0xc3 => MonitorExit,
		_ => unreachable!("checked by is_simple"),
	}
}

/// the `if` opcodes in the order of the request's condition numbers (JVMS §6.5)
const IF_OPCODES: [u8; 16] = [0x99, 0x9a, 0x9b, 0x9c, 0x9d, 0x9e, 0x9f, 0xa0, 0xa1, 0xa2, 0xa3, 0xa4, 0xa5, 0xa6, 0xc6, 0xc7];

fn handle(h: &RHandle) -> R<Handle> {
	let f = || -> R<FieldRef> { Ok(FieldRef { class: unsafe { ObjClassName::from_inner_unchecked(js(&h.cls)?) }, name: unsafe { FieldName::from_inner_unchecked(js(&h.name)?) }, desc: unsafe { FieldDescriptor::from_inner_unchecked(js(&h.desc)?) } }) };
	let m = || mref(&h.cls, &h.name, &h.desc);
	Ok(match h.kind {
		1 => Handle::GetField(f()?), 2 => Handle::GetStatic(f()?), 3 => Handle::PutField(f()?), 4 => Handle::PutStatic(f()?),
		5 => Handle::InvokeVirtual(m()?), 6 => Handle::InvokeStatic(m()?, h.ref_kind == 11), 7 => Handle::InvokeSpecial(m()?, h.ref_kind == 11),
		8 => Handle::NewInvokeSpecial(m()?), _ => Handle::InvokeInterface(m()?),
	})
}

fn loadable(c: &Const) -> R<Loadable> {
	Ok(match c {
		Const::Int(v) => Loadable::Integer(*v),
		Const::Long(v) => Loadable::Long(*v),
		Const::Float(b) => Loadable::Float(f32::from_bits(*b)),
		Const::Double(b) => Loadable::Double(f64::from_bits(*b)),
		Const::Str(s) => Loadable::String(js(s)?),
		Const::Cls(s) => Loadable::Class(unsafe { ClassName::from_inner_unchecked(js(s)?) }),
		Const::MType(d) => Loadable::MethodType(unsafe { MethodDescriptor::from_inner_unchecked(js(d)?) }),
		Const::MHandle(h) => Loadable::MethodHandle(handle(h)?),
	})
}

fn mref(c: &[u32], n: &[u32], d: &[u32]) -> R<MethodRef> {
	Ok(MethodRef { class: unsafe { ClassName::from_inner_unchecked(js(c)?) }, name: unsafe { MethodName::from_inner_unchecked(js(n)?) }, desc: unsafe { MethodDescriptor::from_inner_unchecked(js(d)?) } })
}

fn build_tree(r: &Req) -> R<ClassFile> {
	let n = r.insns.len();
	let mut wanted = BTreeSet::new();
	wanted.insert(n);
	for i in &r.insns {
		match i {
			RI::If(_, t) | RI::Goto(t) | RI::Jsr(t) => { wanted.insert(*t); }
			RI::Ts(d, _, _, tb) => { wanted.insert(*d); wanted.extend(tb.iter().copied()); }
			RI::Ls(d, ps) => { wanted.insert(*d); wanted.extend(ps.iter().map(|p| p.1)); }
			_ => {}
		}
	}
	for e in &r.excs { wanted.insert(e.start); wanted.insert(e.end); wanted.insert(e.handler); }
	if let Some(ls) = &r.lines { for l in ls { wanted.insert(l.0); } }
	let mut pairs = Vec::new();
	if let Some(vs) = &r.lvs { for v in vs { wanted.insert(v.start); wanted.insert(v.end); pairs.push((v.start, v.end)); } }
	for f in r.frames.iter().flatten() { for t in f.types() { if let RVt::Uninit(l) = t { wanted.insert(*l); } } }
	let src = harvest(&wanted, &pairs)?;
	let lab = |t: usize| -> R<Label> { src.map.get(&t).copied().ok_or_else(|| "label".to_owned()) };

	let mut instructions = Vec::with_capacity(n);
	for (k, i) in r.insns.iter().enumerate() {
		use Instruction::*;
		let lv = |i: u16| LvIndex { index: i };
		let instruction = match i {
			RI::Simple(op) => simple_insn(*op),
			RI::Bi(v) => BiPush(*v),
			RI::Si(v) => SiPush(*v),
			RI::Ldc(c) => Ldc(loadable(c)?),
			RI::Load(k, i) => match k { 0 => ILoad(lv(*i)), 1 => LLoad(lv(*i)), 2 => FLoad(lv(*i)), 3 => DLoad(lv(*i)), _ => ALoad(lv(*i)) },
			RI::Store(k, i) => match k { 0 => IStore(lv(*i)), 1 => LStore(lv(*i)), 2 => FStore(lv(*i)), 3 => DStore(lv(*i)), _ => AStore(lv(*i)) },
			RI::Iinc(i, v) => IInc(lv(*i), *v),
			RI::Ret(i) => Ret(lv(*i)),
			RI::If(c, t) => {
				let l = lab(*t)?;
				match c {
					0 => IfEq(l), 1 => IfNe(l), 2 => IfLt(l), 3 => IfGe(l), 4 => IfGt(l), 5 => IfLe(l),
					6 => IfICmpEq(l), 7 => IfICmpNe(l), 8 => IfICmpLt(l), 9 => IfICmpGe(l), 10 => IfICmpGt(l), 11 => IfICmpLe(l),
					12 => IfACmpEq(l), 13 => IfACmpNe(l), 14 => IfNull(l), _ => IfNonNull(l),
				}
			}
			RI::Goto(t) => Goto(lab(*t)?),
			RI::Jsr(t) => Jsr(lab(*t)?),
			RI::Ts(d, lo, hi, tb) => TableSwitch { default: lab(*d)?, low: *lo, high: *hi, table: tb.iter().map(|t| lab(*t)).collect::<R<_>>()? },
			RI::Ls(d, ps) => LookupSwitch { default: lab(*d)?, pairs: ps.iter().map(|(k, t)| Ok((*k, lab(*t)?))).collect::<R<_>>()? },
			RI::Ref(op, kind, c, n, d) => {
				if *kind == 9 {
					let f = FieldRef { class: unsafe { ObjClassName::from_inner_unchecked(js(c)?) }, name: unsafe { FieldName::from_inner_unchecked(js(n)?) }, desc: unsafe { FieldDescriptor::from_inner_unchecked(js(d)?) } };
					match op { 178 => GetStatic(f), 179 => PutStatic(f), 180 => GetField(f), _ => PutField(f) }
				} else {
					let m = mref(c, n, d)?;
					match op { 182 => InvokeVirtual(m), 183 => InvokeSpecial(m, *kind == 11), _ => InvokeStatic(m, *kind == 11) }
				}
			}
			RI::InvokeInterface(c, n, d) => InvokeInterface(mref(c, n, d)?),
			RI::ClsOp(op, c) => {
				let c = unsafe { ClassName::from_inner_unchecked(js(c)?) };
				match op { 187 => New(c), 189 => ANewArray(c), 192 => CheckCast(c), _ => InstanceOf(c) }
			}
			RI::NewArray(t) => NewArray(match t { 4 => ArrayType::Boolean, 5 => ArrayType::Char, 6 => ArrayType::Float, 7 => ArrayType::Double, 8 => ArrayType::Byte, 9 => ArrayType::Short, 10 => ArrayType::Int, _ => ArrayType::Long }),
			RI::MultiANewArray(c, d) => MultiANewArray(unsafe { ClassName::from_inner_unchecked(js(c)?) }, *d),
			RI::Indy(n, d, h, a) => Instruction::InvokeDynamic(duke::tree::method::code::InvokeDynamic {
				name: unsafe { MethodName::from_inner_unchecked(js(n)?) }, descriptor: unsafe { MethodDescriptor::from_inner_unchecked(js(d)?) },
				handle: handle(h)?, arguments: a.iter().map(loadable).collect::<R<_>>()? }),
			RI::LdcDyn(n, d, h, a) => Ldc(Loadable::Dynamic(ConstantDynamic {
				name: unsafe { FieldName::from_inner_unchecked(js(n)?) }, descriptor: unsafe { FieldDescriptor::from_inner_unchecked(js(d)?) },
				handle: handle(h)?, arguments: a.iter().map(loadable).collect::<R<_>>()? })),
		};
		let vt = |t: &RVt| -> R<VerificationTypeInfo> { Ok(match t {
			RVt::Top => VerificationTypeInfo::Top, RVt::Int => VerificationTypeInfo::Integer, RVt::Float => VerificationTypeInfo::Float,
			RVt::Double => VerificationTypeInfo::Double, RVt::Long => VerificationTypeInfo::Long, RVt::Null => VerificationTypeInfo::Null,
			RVt::UThis => VerificationTypeInfo::UninitializedThis,
			RVt::Obj(c) => VerificationTypeInfo::Object(unsafe { ClassName::from_inner_unchecked(js(c)?) }),
			RVt::Uninit(l) => VerificationTypeInfo::Uninitialized(lab(*l)?),
		}) };
		let frame = match &r.frames[k] {
			None => None,
			Some(RFrame::Same) => Some(StackMapData::Same),
			Some(RFrame::Same1(v)) => Some(StackMapData::SameLocals1StackItem { stack: vt(v)? }),
			Some(RFrame::Chop(k)) => Some(StackMapData::Chop { k: *k }),
			Some(RFrame::Append(ls)) => Some(StackMapData::Append { locals: ls.iter().map(vt).collect::<R<_>>()? }),
			Some(RFrame::Full(ls, ss)) => Some(StackMapData::Full { locals: ls.iter().map(vt).collect::<R<_>>()?, stack: ss.iter().map(vt).collect::<R<_>>()? }),
		};
		instructions.push(InstructionListEntry { label: if wanted.contains(&k) { Some(lab(k)?) } else { None }, frame, instruction });
	}
	let mut code = Code::default();
	code.max_stack = Some(7);
	code.max_locals = Some(9);
	code.instructions = instructions;
	code.last_label = Some(lab(n)?);
	for e in &r.excs {
		code.exception_table.push(Exception {
			start: lab(e.start)?, end: lab(e.end)?, handler: lab(e.handler)?,
			catch: match &e.catch { None => None, Some(c) => Some(unsafe { ClassName::from_inner_unchecked(js(c)?) }) },
		});
	}
	if let Some(ls) = &r.lines {
		code.line_numbers = Some(ls.iter().map(|&(l, n)| Ok((lab(l)?, n))).collect::<R<_>>()?);
	}
	if let Some(vs) = &r.lvs {
		let mut out = Vec::new();
		for v in vs {
			out.push(Lv {
				range: src.ranges.get(&(v.start, v.end)).cloned().ok_or("range")?,
				name: unsafe { LocalVariableName::from_inner_unchecked(js(&v.name)?) },
				descriptor: match &v.desc { None => None, Some(d) => Some(unsafe { FieldDescriptor::from_inner_unchecked(js(d)?) }) },
				signature: match &v.sig { None => None, Some(d) => Some(unsafe { FieldSignature::from_inner_unchecked(js(d)?) }) },
				index: LvIndex { index: v.index },
			});
		}
		code.local_variables = Some(out);
	}
	let mut class = ClassFile::new(Version::V1_8, ClassAccess::from(0x21u16),
		unsafe { ObjClassName::from_inner_unchecked("C".into()) },
		Some(unsafe { ObjClassName::from_inner_unchecked("java/lang/Object".into()) }), Vec::new());
	let mut m = Method::new(MethodAccess::from(0x9u16),
		unsafe { MethodName::from_inner_unchecked("m".into()) }, unsafe { MethodDescriptor::from_inner_unchecked("()V".into()) });
	m.code = Some(code);
	class.methods.push(m);
	Ok(class)
}

enum W { Ok(Vec<u8>), Err, Panic }

fn write(class: &ClassFile) -> W {
	match catch_unwind(AssertUnwindSafe(|| { let mut v = Vec::new(); duke::write_class(&mut v, class).map(|_| v) })) {
		Ok(Ok(v)) => W::Ok(v),
		Ok(Err(_)) => W::Err,
		Err(_) => W::Panic,
	}
}

// ------------------------------------------------------------------------------------------------ independent class-file parser (JVMS §4)

#[derive(Debug, Clone, PartialEq)]
enum PItem {
	Unusable,
	Utf8(Vec<u8>), Int(i32), Float(u32), Long(i64), Double(u64), Class(u16), Str(u16),
	Ref(u8, u16, u16), NameAndType(u16, u16), Handle(u8, u16), MethodType(u16), Dyn(u8, u16, u16), Module(u16), Package(u16),
}

struct Rd<'a> { b: &'a [u8], p: usize }
impl<'a> Rd<'a> {
	fn take(&mut self, n: usize) -> R<&'a [u8]> {
		if self.b.len() - self.p < n { return Err("truncated".into()) }
		let s = &self.b[self.p..self.p + n];
		self.p += n;
		Ok(s)
	}
	fn u8(&mut self) -> R<u8> { Ok(self.take(1)?[0]) }
	fn u16(&mut self) -> R<u16> { let s = self.take(2)?; Ok(u16::from_be_bytes([s[0], s[1]])) }
	fn u32(&mut self) -> R<u32> { let s = self.take(4)?; Ok(u32::from_be_bytes([s[0], s[1], s[2], s[3]])) }
	fn u64(&mut self) -> R<u64> { Ok(((self.u32()? as u64) << 32) | self.u32()? as u64) }
	fn done(&self) -> bool { self.p == self.b.len() }
}

struct PAttr { name: u16, body: Vec<u8> }
struct PMember { access: u16, name: u16, desc: u16, attrs: Vec<PAttr> }
struct PClass {
	minor: u16, major: u16,
	pool_count: u16,
	pool: Vec<PItem>,
	access: u16, this_class: u16, super_class: u16,
	interfaces: Vec<u16>,
	fields: Vec<PMember>,
	methods: Vec<PMember>,
	attrs: Vec<PAttr>,
}
struct PCode {
	max_stack: u16, max_locals: u16,
	code: Vec<u8>,
	exc: Vec<[u16; 4]>,
	attrs: Vec<PAttr>,
}

fn p_attrs(r: &mut Rd) -> R<Vec<PAttr>> {
	let n = r.u16()?;
	let mut v = Vec::new();
	for _ in 0..n {
		let name = r.u16()?;
		let len = r.u32()? as usize;
		v.push(PAttr { name, body: r.take(len)?.to_vec() });
	}
	Ok(v)
}

fn p_members(r: &mut Rd) -> R<Vec<PMember>> {
	let n = r.u16()?;
	let mut v = Vec::new();
	for _ in 0..n { v.push(PMember { access: r.u16()?, name: r.u16()?, desc: r.u16()?, attrs: p_attrs(r)? }); }
	Ok(v)
}

fn parse_class(b: &[u8]) -> R<PClass> {
	let mut r = Rd { b, p: 0 };
	if r.u32()? != 0xcafebabe { return Err("magic".into()) }
	let minor = r.u16()?; let major = r.u16()?;
	let pool_count = r.u16()?;
	if pool_count == 0 { return Err("pool count 0".into()) }
	let mut pool = vec![PItem::Unusable];
	while pool.len() < pool_count as usize {
		let tag = r.u8()?;
		let it = match tag {
			1 => { let n = r.u16()? as usize; PItem::Utf8(r.take(n)?.to_vec()) }
			3 => PItem::Int(r.u32()? as i32),
			4 => PItem::Float(r.u32()?),
			5 => PItem::Long(r.u64()? as i64),
			6 => PItem::Double(r.u64()?),
			7 => PItem::Class(r.u16()?),
			8 => PItem::Str(r.u16()?),
			9 | 10 | 11 => PItem::Ref(tag, r.u16()?, r.u16()?),
			12 => PItem::NameAndType(r.u16()?, r.u16()?),
			15 => PItem::Handle(r.u8()?, r.u16()?),
			16 => PItem::MethodType(r.u16()?),
			17 | 18 => PItem::Dyn(tag, r.u16()?, r.u16()?),
			19 => PItem::Module(r.u16()?),
			20 => PItem::Package(r.u16()?),
			_ => return Err(format!("pool tag {tag}")),
		};
		let two = matches!(it, PItem::Long(_) | PItem::Double(_));
		pool.push(it);
		if two { pool.push(PItem::Unusable); }
	}
	if pool.len() != pool_count as usize { return Err("two-slot entry overruns constant_pool_count".into()) }
	let access = r.u16()?; let this_class = r.u16()?; let super_class = r.u16()?;
	let ni = r.u16()?;
	let mut interfaces = Vec::new();
	for _ in 0..ni { interfaces.push(r.u16()?); }
	let fields = p_members(&mut r)?;
	let methods = p_members(&mut r)?;
	let attrs = p_attrs(&mut r)?;
	if !r.done() { return Err("trailing bytes".into()) }
	Ok(PClass { minor, major, pool_count, pool, access, this_class, super_class, interfaces, fields, methods, attrs })
}

fn parse_code(b: &[u8]) -> R<PCode> {
	let mut r = Rd { b, p: 0 };
	let max_stack = r.u16()?; let max_locals = r.u16()?;
	let n = r.u32()? as usize;
	let code = r.take(n)?.to_vec();
	let ne = r.u16()?;
	let mut exc = Vec::new();
	for _ in 0..ne { exc.push([r.u16()?, r.u16()?, r.u16()?, r.u16()?]); }
	let attrs = p_attrs(&mut r)?;
	if !r.done() { return Err("trailing bytes in Code".into()) }
	Ok(PCode { max_stack, max_locals, code, exc, attrs })
}

impl PClass {
	fn utf8(&self, i: u16) -> Option<&[u8]> { match self.pool.get(i as usize) { Some(PItem::Utf8(s)) => Some(s), _ => None } }
	fn is_class(&self, i: u16) -> bool { matches!(self.pool.get(i as usize), Some(PItem::Class(n)) if self.utf8(*n).is_some()) }
	fn attr<'a>(&self, attrs: &'a [PAttr], name: &str) -> Vec<&'a PAttr> {
		attrs.iter().filter(|a| self.utf8(a.name) == Some(name.as_bytes())).collect()
	}
}

/// the u16 rows of a table attribute with `w` columns
fn table(body: &[u8], w: usize) -> R<Vec<Vec<u16>>> {
	let mut r = Rd { b: body, p: 0 };
	let n = r.u16()?;
	let mut rows = Vec::new();
	for _ in 0..n { let mut row = Vec::new(); for _ in 0..w { row.push(r.u16()?); } rows.push(row); }
	if !r.done() { return Err("attribute_length does not match the table".into()) }
	Ok(rows)
}

// ------------------------------------------------------------------------------------------------ independent StackMapTable decoder (JVMS §4.7.4)

#[derive(Debug, Clone, PartialEq)]
enum DVt { Top, Int, Float, Double, Long, Null, UThis, Obj(u16), Uninit(u16) }
#[derive(Debug, Clone, PartialEq)]
enum DFr { Same, Same1(DVt), Chop(u8), Append(Vec<DVt>), Full(Vec<DVt>, Vec<DVt>) }

impl DFr {
	fn types(&self) -> Vec<&DVt> {
		match self { DFr::Same1(v) => vec![v], DFr::Append(l) => l.iter().collect(), DFr::Full(l, s) => l.iter().chain(s).collect(), _ => vec![] }
	}
}

/// `verification_type_info`: ITEM_Top 0, Integer 1, Float 2, Double 3, Long 4, Null 5, UninitializedThis 6,
/// Object 7 + u2 cpool_index, Uninitialized 8 + u2 offset
fn p_vt(r: &mut Rd) -> R<DVt> {
	Ok(match r.u8()? {
		0 => DVt::Top, 1 => DVt::Int, 2 => DVt::Float, 3 => DVt::Double, 4 => DVt::Long, 5 => DVt::Null, 6 => DVt::UThis,
		7 => DVt::Obj(r.u16()?), 8 => DVt::Uninit(r.u16()?),
		t => return Err(format!("verification type tag {t}")),
	})
}

/// the body of a StackMapTable attribute: frames with their *absolute* bytecode offsets ("the bytecode offset at which a
/// frame applies is … offset_delta + 1 [added] to the bytecode offset of the previous frame, unless the previous frame is
/// the initial frame of the method, in which case the bytecode offset is offset_delta")
fn parse_smt(body: &[u8]) -> R<Vec<(usize, DFr)>> {
	let mut r = Rd { b: body, p: 0 };
	let n = r.u16()?;
	let mut out = Vec::new();
	let mut prev: Option<usize> = None;
	for _ in 0..n {
		let t = r.u8()?;
		let (delta, f) = match t {
			0..=63 => (t as usize, DFr::Same),
			64..=127 => ((t - 64) as usize, DFr::Same1(p_vt(&mut r)?)),
			128..=246 => return Err(format!("reserved frame_type {t}")),
			247 => { let d = r.u16()? as usize; (d, DFr::Same1(p_vt(&mut r)?)) }
			248..=250 => (r.u16()? as usize, DFr::Chop(251 - t)),
			251 => (r.u16()? as usize, DFr::Same),
			252..=254 => { let d = r.u16()? as usize; let mut l = Vec::new(); for _ in 0..(t - 251) { l.push(p_vt(&mut r)?); } (d, DFr::Append(l)) }
			255 => {
				let d = r.u16()? as usize;
				let nl = r.u16()?; let mut l = Vec::new(); for _ in 0..nl { l.push(p_vt(&mut r)?); }
				let ns = r.u16()?; let mut s = Vec::new(); for _ in 0..ns { s.push(p_vt(&mut r)?); }
				(d, DFr::Full(l, s))
			}
		};
		let off = match prev { None => delta, Some(p) => p + delta + 1 };
		prev = Some(off);
		out.push((off, f));
	}
	if !r.done() { return Err("attribute_length does not match the frames".into()) }
	Ok(out)
}

fn dvt_sexp(v: &DVt) -> Sexp {
	match v {
		DVt::Top => Sexp::tag("top"), DVt::Int => Sexp::tag("int"), DVt::Float => Sexp::tag("float"), DVt::Double => Sexp::tag("double"),
		DVt::Long => Sexp::tag("long"), DVt::Null => Sexp::tag("null"), DVt::UThis => Sexp::tag("uthis"),
		DVt::Obj(i) => Sexp::list(vec![Sexp::tag("obj"), Sexp::nat(*i as usize)]),
		DVt::Uninit(o) => Sexp::list(vec![Sexp::tag("uninit"), Sexp::nat(*o as usize)]),
	}
}

fn dfr_sexp(f: &DFr) -> Sexp {
	let l = |v: &Vec<DVt>| Sexp::list(v.iter().map(dvt_sexp).collect());
	match f {
		DFr::Same => Sexp::list(vec![Sexp::tag("same")]),
		DFr::Same1(v) => Sexp::list(vec![Sexp::tag("same1"), dvt_sexp(v)]),
		DFr::Chop(k) => Sexp::list(vec![Sexp::tag("chop"), Sexp::nat(*k as usize)]),
		DFr::Append(ls) => Sexp::list(vec![Sexp::tag("append"), l(ls)]),
		DFr::Full(ls, ss) => Sexp::list(vec![Sexp::tag("full"), l(ls), l(ss)]),
	}
}

// ------------------------------------------------------------------------------------------------ independent instruction decoder (JVMS §6.5)

#[derive(Debug, Clone, PartialEq)]
enum D {
	Simple(u8), Bi(i8), Si(i16), Ldc(u16, bool /* narrow form */), Ldc2(u16),
	Load(u8, u16), Store(u8, u16), Iinc(u16, i16), Ret(u16),
	If(u8, i64), Goto(i64, bool /* wide */), Jsr(i64, bool),
	Ts(i64, i32, i32, Vec<i64>), Ls(i64, Vec<(i32, i64)>),
	Cp(u8, u16), InvokeInterface(u16, u8), NewArray(u8), MultiANewArray(u16, u8), InvokeDynamic(u16),
}

fn decode_one(code: &[u8], pc: usize) -> R<(D, usize)> {
	let at = |i: usize| -> R<u8> { code.get(pc + i).copied().ok_or_else(|| "operand beyond the end of the code".to_owned()) };
	let u16at = |i: usize| -> R<u16> { Ok(u16::from_be_bytes([at(i)?, at(i + 1)?])) };
	let i32at = |i: usize| -> R<i32> { Ok(i32::from_be_bytes([at(i)?, at(i + 1)?, at(i + 2)?, at(i + 3)?])) };
	let op = at(0)?;
	Ok(match op {
		_ if is_simple(op as usize) => (D::Simple(op), 1),
		0x10 => (D::Bi(at(1)? as i8), 2),
		0x11 => (D::Si(u16at(1)? as i16), 3),
		0x12 => (D::Ldc(at(1)? as u16, true), 2),
		0x13 => (D::Ldc(u16at(1)?, false), 3),
		0x14 => (D::Ldc2(u16at(1)?), 3),
		0x15..=0x19 => (D::Load(op - 0x15, at(1)? as u16), 2),
		0x1a..=0x2d => (D::Load((op - 0x1a) / 4, ((op - 0x1a) % 4) as u16), 1),
		0x36..=0x3a => (D::Store(op - 0x36, at(1)? as u16), 2),
		0x3b..=0x4e => (D::Store((op - 0x3b) / 4, ((op - 0x3b) % 4) as u16), 1),
		0x84 => (D::Iinc(at(1)? as u16, at(2)? as i8 as i16), 3),
		0xa9 => (D::Ret(at(1)? as u16), 2),
		0xc4 => {
			let op2 = at(1)?;
			match op2 {
				0x15..=0x19 => (D::Load(op2 - 0x15, u16at(2)?), 4),
				0x36..=0x3a => (D::Store(op2 - 0x36, u16at(2)?), 4),
				0xa9 => (D::Ret(u16at(2)?), 4),
				0x84 => (D::Iinc(u16at(2)?, u16at(4)? as i16), 6),
				_ => return Err(format!("wide {op2:#x}")),
			}
		}
		0x99..=0xa6 | 0xc6 | 0xc7 => (D::If(op, pc as i64 + (u16at(1)? as i16) as i64), 3),
		0xa7 => (D::Goto(pc as i64 + (u16at(1)? as i16) as i64, false), 3),
		0xa8 => (D::Jsr(pc as i64 + (u16at(1)? as i16) as i64, false), 3),
		0xc8 => (D::Goto(pc as i64 + i32at(1)? as i64, true), 5),
		0xc9 => (D::Jsr(pc as i64 + i32at(1)? as i64, true), 5),
		0xaa | 0xab => {
			// "between zero and three bytes must act as padding, such that defaultbyte1 begins at an address that is a multiple of four"
			let mut o = 1;
			while (pc + o) % 4 != 0 { if at(o)? != 0 { return Err("switch padding is not zero".into()) } o += 1; }
			let dflt = pc as i64 + i32at(o)? as i64;
			if op == 0xaa {
				let low = i32at(o + 4)?; let high = i32at(o + 8)?;
				if low > high { return Err("tableswitch low > high".into()) }
				let n = (high as i64 - low as i64 + 1) as usize;
				if n > code.len() { return Err("tableswitch too long".into()) }
				let mut t = Vec::with_capacity(n);
				for j in 0..n { t.push(pc as i64 + i32at(o + 12 + 4 * j)? as i64); }
				(D::Ts(dflt, low, high, t), o + 12 + 4 * n)
			} else {
				let n = i32at(o + 4)?;
				if n < 0 || n as usize > code.len() { return Err("lookupswitch npairs".into()) }
				let mut t = Vec::with_capacity(n as usize);
				for j in 0..n as usize { t.push((i32at(o + 8 + 8 * j)?, pc as i64 + i32at(o + 12 + 8 * j)? as i64)); }
				(D::Ls(dflt, t), o + 8 + 8 * n as usize)
			}
		}
		0xb2..=0xb8 | 0xbb | 0xbd | 0xc0 | 0xc1 => (D::Cp(op, u16at(1)?), 3),
		0xb9 => { if at(4)? != 0 { return Err("invokeinterface: fourth operand byte is not zero".into()) } (D::InvokeInterface(u16at(1)?, at(3)?), 5) }
		0xba => { if at(3)? != 0 || at(4)? != 0 { return Err("invokedynamic: operand bytes 3 and 4 are not zero".into()) } (D::InvokeDynamic(u16at(1)?), 5) }
		0xbc => (D::NewArray(at(1)?), 2),
		0xc5 => (D::MultiANewArray(u16at(1)?, at(3)?), 4),
		_ => return Err(format!("opcode {op:#x} is outside the modelled instruction set")),
	})
}

fn decode_all(code: &[u8]) -> R<Vec<(usize, D)>> {
	let mut out = Vec::new();
	let mut pc = 0;
	while pc < code.len() {
		let (d, len) = decode_one(code, pc)?;
		if pc + len > code.len() { return Err("last instruction overruns the code".into()) }
		out.push((pc, d));
		pc += len;
	}
	Ok(out)
}

fn neg_if(op: u8) -> u8 {
	match op {
		0x99 => 0x9a, 0x9a => 0x99, 0x9b => 0x9c, 0x9c => 0x9b, 0x9d => 0x9e, 0x9e => 0x9d,
		0x9f => 0xa0, 0xa0 => 0x9f, 0xa1 => 0xa2, 0xa2 => 0xa1, 0xa3 => 0xa4, 0xa4 => 0xa3,
		0xa5 => 0xa6, 0xa6 => 0xa5, 0xc6 => 0xc7, 0xc7 => 0xc6, o => o,
	}
}

// ------------------------------------------------------------------------------------------------ answers

fn fnv(b: &[u8]) -> u64 {
	let mut h: u64 = 0xcbf29ce484222325;
	for &x in b { h ^= x as u64; h = h.wrapping_mul(0x100000001b3); }
	h
}

/// short byte strings in full, long ones as length + FNV-1a hash
fn blob(b: &[u8]) -> Sexp {
	if b.len() <= 4096 { Sexp::bytes(b) } else { Sexp::list(vec![Sexp::tag("h"), Sexp::nat(b.len()), Sexp::Atom(format!("{:016x}", fnv(b)))]) }
}

fn rows(v: &[Vec<u16>]) -> Sexp { Sexp::list(v.iter().map(|r| Sexp::list(r.iter().map(|&x| Sexp::nat(x as usize)).collect())).collect()) }

struct Written { bytes: Vec<u8>, class: PClass, code: PCode, lnt: Option<Vec<Vec<u16>>>, lvt: Option<Vec<Vec<u16>>>, lvtt: Option<Vec<Vec<u16>>>,
	/// the StackMapTable attribute, if there is one: its position in Code's attribute list and its decoded frames (Err = undecodable)
	smt: Option<(usize, R<Vec<(usize, DFr)>>)>,
	/// rows of the BootstrapMethods attribute: handle index, argument indices
	bsms: Vec<(u16, Vec<u16>)> }

fn dissect(bytes: Vec<u8>) -> R<Written> {
	let class = parse_class(&bytes)?;
	let m = class.methods.first().ok_or("no method")?;
	let ca = class.attr(&m.attrs, "Code");
	if ca.len() != 1 { return Err("Code attribute count".into()) }
	let code = parse_code(&ca[0].body)?;
	let one = |name: &str, w: usize| -> R<Option<Vec<Vec<u16>>>> {
		let a = class.attr(&code.attrs, name);
		match a.len() { 0 => Ok(None), 1 => Ok(Some(table(&a[0].body, w)?)), _ => Err(format!("several {name}")) }
	};
	let lnt = one("LineNumberTable", 2)?;
	let lvt = one("LocalVariableTable", 5)?;
	let lvtt = one("LocalVariableTypeTable", 5)?;
	let sm: Vec<usize> = code.attrs.iter().enumerate().filter(|(_, a)| class.utf8(a.name) == Some("StackMapTable".as_bytes())).map(|(i, _)| i).collect();
	let smt = match sm.len() { 0 => None, 1 => Some((sm[0], parse_smt(&code.attrs[sm[0]].body))), _ => return Err("several StackMapTable".into()) };
	let mut bsms = Vec::new();
	let ba = class.attr(&class.attrs, "BootstrapMethods");
	if ba.len() > 1 { return Err("several BootstrapMethods".into()) }
	if let Some(a) = ba.first() {
		let mut r = Rd { b: &a.body, p: 0 };
		let n = r.u16()?;
		for _ in 0..n {
			let h = r.u16()?;
			let na = r.u16()?;
			let mut args = Vec::new();
			for _ in 0..na { args.push(r.u16()?); }
			bsms.push((h, args));
		}
		if !r.done() { return Err("attribute_length of BootstrapMethods".into()) }
	}
	Ok(Written { bytes, class, code, lnt, lvt, lvtt, smt, bsms })
}

fn code_write(r: &Req) -> Ans {
	let tree = match build_tree(r) { Ok(t) => t, Err(e) => return Ans::BadOp(e) };
	match write(&tree) {
		W::Err => Ans::err(),
		W::Panic => Ans::Err("panic".into()),
		W::Ok(b) => {
			let w = match dissect(b) { Ok(w) => w, Err(e) => return Ans::Ok(Sexp::list(vec![Sexp::tag("unparsable"), Sexp::tag(&e.replace(' ', "_"))])) };
			let exc: Vec<Vec<u16>> = w.code.exc.iter().map(|e| e.to_vec()).collect();
			Ans::Ok(Sexp::list(vec![
				blob(&w.bytes),
				Sexp::list(vec![Sexp::nat(w.code.max_stack as usize), Sexp::nat(w.code.max_locals as usize)]),
				blob(&w.code.code),
				rows(&exc),
				Sexp::opt(w.lnt.as_ref(), |t| rows(t)),
				Sexp::opt(w.lvt.as_ref(), |t| rows(t)),
				Sexp::opt(w.lvtt.as_ref(), |t| rows(t)),
				match &w.smt {
					None => Sexp::list(vec![]),
					Some((_, Err(_))) => Sexp::list(vec![Sexp::tag("unparsable")]),
					Some((_, Ok(fs))) => Sexp::list(vec![Sexp::list(fs.iter().map(|(o, f)| Sexp::list(vec![Sexp::nat(*o), dfr_sexp(f)])).collect())]),
				},
			]))
		}
	}
}

// ------------------------------------------------------------------------------------------------ oracles on the implementation

/// Does the decoded code denote the requested instructions, and does every offset (jump, switch arm, exception range,
/// line number, local variable range) designate the instruction its label is attached to?
/// The label -> address map is *derived from the decoded code itself*: instruction `k` sits where the `k`-th decoded
/// item (counting an inverted-condition trampoline as one) starts, label `n` is `code_length`.
fn check_denotes(r: &Req, w: &Written) -> Result<(), &'static str> {
	let ds = decode_all(&w.code.code).map_err(|_| "undecodable")?;
	let n = r.insns.len();
	let mut addr: Vec<i64> = Vec::with_capacity(n + 1);
	let mut jumps: Vec<(usize, i64)> = Vec::new(); // (label, decoded absolute target)
	let mut j = 0;
	let cls = &w.class;
	for i in &r.insns {
		let (pc, d) = ds.get(j).ok_or("fewer-instructions")?;
		addr.push(*pc as i64);
		j += 1;
		match (i, d) {
			(RI::Simple(a), D::Simple(b)) if a == b => {}
			(RI::Bi(a), D::Bi(b)) if a == b => {}
			(RI::Si(a), D::Si(b)) if a == b => {}
			(RI::Ldc(c), D::Ldc(idx, narrow)) => {
				if *narrow != (*idx <= 255) { return Err("ldc-form") }
				if matches!(c, Const::Long(_) | Const::Double(_)) || !const_at(cls, c, *idx) { return Err("ldc-constant") }
			}
			(RI::Ldc(c), D::Ldc2(idx)) => {
				if !matches!(c, Const::Long(_) | Const::Double(_)) || !const_at(cls, c, *idx) { return Err("ldc2-constant") }
			}
			(RI::Indy(n, d, h, a), D::InvokeDynamic(idx)) => { if !dyn_at(w, 18, n, d, h, a, *idx) { return Err("invokedynamic-constant") } }
			(RI::LdcDyn(n, d, h, a), D::Ldc(idx, narrow)) => {
				if *narrow != (*idx <= 255) { return Err("ldc-form") }
				if matches!(d.first(), Some(68 | 74)) || !dyn_at(w, 17, n, d, h, a, *idx) { return Err("dynamic-constant") }
			}
			(RI::LdcDyn(n, d, h, a), D::Ldc2(idx)) => {
				if !matches!(d.first(), Some(68 | 74)) || !dyn_at(w, 17, n, d, h, a, *idx) { return Err("dynamic-constant") }
			}
			(RI::Ref(op, kind, c, n, d), D::Cp(op2, idx)) if op == op2 => { if !ref_at(cls, *kind, c, n, d, *idx) { return Err("reference-constant") } }
			(RI::InvokeInterface(c, n, d), D::InvokeInterface(idx, count)) => {
				if !ref_at(cls, 11, c, n, d, *idx) { return Err("reference-constant") }
				if args_size(d) != Some(*count as usize) { return Err("invokeinterface-count") }
			}
			(RI::ClsOp(op, c), D::Cp(op2, idx)) if op == op2 => { if !class_at(cls, c, *idx) { return Err("class-constant") } }
			(RI::NewArray(a), D::NewArray(b)) if a == b => {}
			(RI::MultiANewArray(c, d), D::MultiANewArray(idx, d2)) if d == d2 => { if !class_at(cls, c, *idx) { return Err("class-constant") } }
			(RI::Load(k, a), D::Load(k2, b)) if k == k2 && a == b => {}
			(RI::Store(k, a), D::Store(k2, b)) if k == k2 && a == b => {}
			(RI::Iinc(a, v), D::Iinc(b, v2)) if a == b && v == v2 => {}
			(RI::Ret(a), D::Ret(b)) if a == b => {}
			(RI::If(c, t), D::If(op, a)) => {
				let want = IF_OPCODES[*c as usize];
				if *op == want { jumps.push((*t, *a)); }
				else if *op == neg_if(want) {
					// trampoline: if<not c> L; goto[_w] target; L:
					match ds.get(j) {
						Some((pc2, D::Goto(g, wide))) => {
							let len2 = if *wide { 5 } else { 3 };
							if *pc2 != pc + 3 || *a != (*pc2 + len2) as i64 { return Err("trampoline-shape") }
							jumps.push((*t, *g));
							j += 1;
						}
						_ => return Err("trampoline-shape"),
					}
				} else { return Err("if-opcode") }
			}
			(RI::Goto(t), D::Goto(a, _)) => jumps.push((*t, *a)),
			(RI::Jsr(t), D::Jsr(a, _)) => jumps.push((*t, *a)),
			(RI::Ts(d0, lo, hi, tb), D::Ts(a, lo2, hi2, os)) => {
				if lo != lo2 || hi != hi2 || tb.len() != os.len() { return Err("tableswitch-shape") }
				jumps.push((*d0, *a));
				for (t, o) in tb.iter().zip(os) { jumps.push((*t, *o)); }
			}
			(RI::Ls(d0, ps), D::Ls(a, qs)) => {
				if ps.len() != qs.len() { return Err("lookupswitch-shape") }
				jumps.push((*d0, *a));
				for ((k, t), (k2, o)) in ps.iter().zip(qs) { if k != k2 { return Err("lookupswitch-key") } jumps.push((*t, *o)); }
			}
			_ => return Err("different-instruction"),
		}
	}
	if j != ds.len() { return Err("more-instructions") }
	addr.push(w.code.code.len() as i64);
	let at = |t: usize| -> Option<i64> { addr.get(t).copied() };
	for (t, a) in jumps { if at(t) != Some(a) { return Err("jump") } }
	if w.code.exc.len() != r.excs.len() { return Err("exception-count") }
	for (e, x) in r.excs.iter().zip(&w.code.exc) {
		if at(e.start) != Some(x[0] as i64) || at(e.end) != Some(x[1] as i64) || at(e.handler) != Some(x[2] as i64) { return Err("exception-range") }
		let ok = match &e.catch { None => x[3] == 0, Some(c) => matches!(cls.pool.get(x[3] as usize), Some(PItem::Class(u)) if cls.utf8(*u) == Some(&ascii(c)[..])) };
		if !ok { return Err("exception-catch") }
	}
	match (&r.lines, &w.lnt) {
		(None, None) => {}
		(Some(ls), Some(t)) => {
			if ls.len() != t.len() { return Err("line-count") }
			for (l, row) in ls.iter().zip(t) { if at(l.0) != Some(row[0] as i64) || l.1 != row[1] { return Err("line-number") } }
		}
		_ => return Err("line-table-presence"),
	}
	let lv_check = |sig: bool, t: &Option<Vec<Vec<u16>>>| -> Result<(), &'static str> {
		let want: Vec<(&RLv, &Vec<u32>)> = r.lvs.iter().flatten().filter_map(|v| (if sig { &v.sig } else { &v.desc }).as_ref().map(|d| (v, d))).collect();
		match t {
			None => if want.is_empty() { Ok(()) } else { Err("local-variable-table-missing") },
			Some(rows) => {
				if rows.len() != want.len() || want.is_empty() { return Err("local-variable-count") }
				for ((v, d), row) in want.iter().zip(rows) {
					let (Some(s), Some(e)) = (at(v.start), at(v.end)) else { return Err("local-variable-label") };
					if s != row[0] as i64 || e != row[0] as i64 + row[1] as i64 { return Err("local-variable-range") }
					if cls.utf8(row[2]) != Some(&ascii(&v.name)[..]) || cls.utf8(row[3]) != Some(&ascii(d)[..]) || row[4] != v.index { return Err("local-variable-entry") }
				}
				Ok(())
			}
		}
	};
	lv_check(false, &w.lvt)?;
	lv_check(true, &w.lvtt)?;
	// stack map frames: one decoded frame per instruction that carries one, in order, at the address of that instruction,
	// with the same data; Object types at class entries of that name, Uninitialized types at the address of their label
	let want: Vec<(usize, &RFrame)> = r.frames.iter().enumerate().filter_map(|(k, f)| f.as_ref().map(|f| (k, f))).collect();
	match &w.smt {
		None => if !want.is_empty() { return Err("frames-missing") },
		Some((_, Err(_))) => return Err("frames-undecodable"),
		Some((_, Ok(fs))) => {
			if want.is_empty() { return Err("frames-empty-table") }
			if fs.len() != want.len() { return Err("frames-count") }
			let vt_ok = |a: &RVt, b: &DVt| -> bool { match (a, b) {
				(RVt::Top, DVt::Top) | (RVt::Int, DVt::Int) | (RVt::Float, DVt::Float) | (RVt::Double, DVt::Double) | (RVt::Long, DVt::Long)
					| (RVt::Null, DVt::Null) | (RVt::UThis, DVt::UThis) => true,
				(RVt::Obj(c), DVt::Obj(i)) => class_at(cls, c, *i),
				(RVt::Uninit(l), DVt::Uninit(o)) => at(*l) == Some(*o as i64),
				_ => false,
			} };
			let vts_ok = |a: &Vec<RVt>, b: &Vec<DVt>| a.len() == b.len() && a.iter().zip(b).all(|(x, y)| vt_ok(x, y));
			for ((k, f), (off, d)) in want.iter().zip(fs) {
				if at(*k) != Some(*off as i64) { return Err("frame-offset") }
				let ok = match (f, d) {
					(RFrame::Same, DFr::Same) => true,
					(RFrame::Same1(a), DFr::Same1(b)) => vt_ok(a, b),
					(RFrame::Chop(a), DFr::Chop(b)) => a == b,
					(RFrame::Append(a), DFr::Append(b)) => vts_ok(a, b),
					(RFrame::Full(a, x), DFr::Full(b, y)) => vts_ok(a, b) && vts_ok(x, y),
					_ => false,
				};
				if !ok { return Err("frame-data") }
			}
		}
	}
	Ok(())
}

fn const_at(c: &PClass, k: &Const, idx: u16) -> bool {
	match (k, c.pool.get(idx as usize)) {
		(Const::Int(v), Some(PItem::Int(x))) => v == x,
		(Const::Float(v), Some(PItem::Float(x))) => v == x,
		(Const::Long(v), Some(PItem::Long(x))) => v == x,
		(Const::Double(v), Some(PItem::Double(x))) => v == x,
		(Const::Str(s), Some(PItem::Str(u))) => c.utf8(*u) == Some(&ascii(s)[..]),
		(Const::Cls(s), Some(PItem::Class(u))) => c.utf8(*u) == Some(&ascii(s)[..]),
		(Const::MType(s), Some(PItem::MethodType(u))) => c.utf8(*u) == Some(&ascii(s)[..]),
		(Const::MHandle(h), Some(PItem::Handle(..))) => handle_at(c, h, idx),
		_ => false,
	}
}

fn handle_at(c: &PClass, h: &RHandle, idx: u16) -> bool {
	matches!(c.pool.get(idx as usize), Some(PItem::Handle(k, r)) if *k == h.kind && ref_at(c, h.ref_kind, &h.cls, &h.name, &h.desc, *r))
}

/// pool entry `idx` is a Dynamic (17) / InvokeDynamic (18) entry naming `n:d` and a row of the BootstrapMethods table with
/// the requested handle and arguments
fn dyn_at(w: &Written, tag: u8, n: &[u32], d: &[u32], h: &RHandle, args: &[Const], idx: u16) -> bool {
	let c = &w.class;
	match c.pool.get(idx as usize) {
		Some(PItem::Dyn(t, b, nt)) if *t == tag => {
			let nt_ok = matches!(c.pool.get(*nt as usize), Some(PItem::NameAndType(a, e)) if c.utf8(*a) == Some(&ascii(n)[..]) && c.utf8(*e) == Some(&ascii(d)[..]));
			let row_ok = match w.bsms.get(*b as usize) {
				Some((hi, ais)) => handle_at(c, h, *hi) && ais.len() == args.len() && ais.iter().zip(args).all(|(i, k)| const_at(c, k, *i)),
				None => false,
			};
			nt_ok && row_ok
		}
		_ => false,
	}
}

fn class_at(c: &PClass, name: &[u32], idx: u16) -> bool {
	matches!(c.pool.get(idx as usize), Some(PItem::Class(u)) if c.utf8(*u) == Some(&ascii(name)[..]))
}

fn ref_at(c: &PClass, kind: u8, cls: &[u32], name: &[u32], desc: &[u32], idx: u16) -> bool {
	match c.pool.get(idx as usize) {
		Some(PItem::Ref(tag, a, b)) => *tag == kind && class_at(c, cls, *a)
			&& matches!(c.pool.get(*b as usize), Some(PItem::NameAndType(n, d)) if c.utf8(*n) == Some(&ascii(name)[..]) && c.utf8(*d) == Some(&ascii(desc)[..])),
		_ => false,
	}
}

/// JVMS §6.5 invokeinterface: `count` = 1 + argument slots (long and double take two); None = not a method descriptor
fn args_size(d: &[u32]) -> Option<usize> {
	let s: Vec<u8> = ascii(d);
	if s.first() != Some(&b'(') { return None }
	let mut i = 1;
	let mut n = 1;
	loop {
		match s.get(i)? {
			b')' => return Some(n),
			b'D' | b'J' => { n += 2; i += 1; }
			_ => {
				while s.get(i) == Some(&b'[') { i += 1; }
				if *s.get(i)? == b'L' { while *s.get(i)? != b';' { i += 1; } }
				i += 1;
				n += 1;
			}
		}
	}
}

/// names are restricted to 1..=127 by the generators (modified UTF-8 is the identity there)
fn ascii(s: &[u32]) -> Vec<u8> { s.iter().map(|&c| c as u8).collect() }

/// structural validity of the class file as a whole (JVMS §4.1, §4.4, §4.7.3): everything that does not need the request
fn check_wellformed(w: &Written) -> Result<(), &'static str> {
	let c = &w.class;
	if c.major != 52 || c.minor != 0 { return Err("version") }
	// pool: references point at entries of the right kind; count = 1 + sum of slots is enforced by the parser
	for it in &c.pool {
		let ok = match it {
			PItem::Class(n) | PItem::Str(n) | PItem::MethodType(n) | PItem::Module(n) | PItem::Package(n) => c.utf8(*n).is_some(),
			PItem::NameAndType(a, b) => c.utf8(*a).is_some() && c.utf8(*b).is_some(),
			PItem::Ref(_, a, b) => c.is_class(*a) && matches!(c.pool.get(*b as usize), Some(PItem::NameAndType(..))),
			PItem::Handle(k, r) => match c.pool.get(*r as usize) {
				Some(PItem::Ref(9, ..)) => (1..=4).contains(k),
				Some(PItem::Ref(10, ..)) => (5..=8).contains(k),
				Some(PItem::Ref(11, ..)) => [6, 7, 9].contains(k),
				_ => false,
			},
			PItem::Dyn(_, b, nt) => (*b as usize) < w.bsms.len() && matches!(c.pool.get(*nt as usize), Some(PItem::NameAndType(..))),
			_ => true,
		};
		if !ok { return Err("pool-reference") }
	}
	if c.pool.len() != c.pool_count as usize { return Err("pool-count") }
	let loadable = |i: u16| matches!(c.pool.get(i as usize), Some(PItem::Int(_) | PItem::Float(_) | PItem::Long(_) | PItem::Double(_) | PItem::Str(_) | PItem::Class(_) | PItem::Handle(..) | PItem::MethodType(_) | PItem::Dyn(17, ..)));
	for (h, args) in &w.bsms {
		if !matches!(c.pool.get(*h as usize), Some(PItem::Handle(..))) || args.iter().any(|a| !loadable(*a)) { return Err("bootstrap-row") }
	}
	if !c.is_class(c.this_class) || !(c.super_class == 0 || c.is_class(c.super_class)) { return Err("this-or-super") }
	if c.interfaces.iter().any(|&i| !c.is_class(i)) { return Err("interface") }
	for a in &c.attrs { if c.utf8(a.name).is_none() { return Err("attribute-name") } }
	for m in c.fields.iter().chain(&c.methods) {
		if c.utf8(m.name).is_none() || c.utf8(m.desc).is_none() { return Err("member-name") }
		for a in &m.attrs { if c.utf8(a.name).is_none() { return Err("attribute-name") } }
	}
	if c.access != 0x21 || c.methods.len() != 1 || c.methods[0].access != 0x9 || !c.fields.is_empty() { return Err("skeleton") }
	let code = &w.code;
	let n = code.code.len();
	if n == 0 || n > 65535 { return Err("code-length") }
	for a in &code.attrs { if c.utf8(a.name).is_none() { return Err("attribute-name") } }
	let ds = decode_all(&code.code).map_err(|_| "undecodable")?;
	let starts: BTreeSet<i64> = ds.iter().map(|(pc, _)| *pc as i64).collect();
	let insn_at = |a: i64| starts.contains(&a);
	for (_, d) in &ds {
		match d {
			D::Ldc(i, narrow) => {
				if *narrow != (*i <= 255) { return Err("ldc-form") }
				if !matches!(c.pool.get(*i as usize), Some(PItem::Int(_) | PItem::Float(_) | PItem::Str(_) | PItem::Class(_) | PItem::Handle(..) | PItem::MethodType(_) | PItem::Dyn(17, ..))) { return Err("ldc-kind") }
			}
			D::Ldc2(i) => if !matches!(c.pool.get(*i as usize), Some(PItem::Long(_) | PItem::Double(_) | PItem::Dyn(17, ..))) { return Err("ldc2-kind") },
			D::Cp(op, i) => {
				let ok = match c.pool.get(*i as usize) {
					Some(PItem::Ref(9, ..)) => (178..=181).contains(op),
					Some(PItem::Ref(10, ..)) => (182..=184).contains(op),
					Some(PItem::Ref(11, ..)) => *op == 183 || *op == 184,
					Some(PItem::Class(_)) => [187, 189, 192, 193].contains(op),
					_ => false,
				};
				if !ok { return Err("cp-kind") }
			}
			D::InvokeInterface(i, count) => if !matches!(c.pool.get(*i as usize), Some(PItem::Ref(11, ..))) || *count == 0 { return Err("invokeinterface") },
			D::MultiANewArray(i, d) => if !c.is_class(*i) || *d == 0 { return Err("multianewarray") },
			D::InvokeDynamic(i) => if !matches!(c.pool.get(*i as usize), Some(PItem::Dyn(18, ..))) { return Err("invokedynamic") },
			D::NewArray(t) => if !(4..=11).contains(t) { return Err("newarray") },
			D::If(_, a) | D::Goto(a, _) | D::Jsr(a, _) => if !insn_at(*a) { return Err("branch-target") },
			D::Ts(a, _, _, os) => if !insn_at(*a) || os.iter().any(|o| !insn_at(*o)) { return Err("branch-target") },
			D::Ls(a, ps) => {
				if !insn_at(*a) || ps.iter().any(|p| !insn_at(p.1)) { return Err("branch-target") }
				if ps.windows(2).any(|x| x[0].0 >= x[1].0) { return Err("lookupswitch-order") }
			}
			_ => {}
		}
	}
	for e in &code.exc {
		if !insn_at(e[0] as i64) || !(insn_at(e[1] as i64) || e[1] as usize == n) || !insn_at(e[2] as i64) { return Err("exception-pc") }
		if !(e[3] == 0 || c.is_class(e[3])) { return Err("exception-catch") }
	}
	for row in w.lnt.iter().flatten() { if !insn_at(row[0] as i64) { return Err("line-pc") } }
	for t in [&w.lvt, &w.lvtt] { for row in t.iter().flatten() {
		let end = row[0] as usize + row[1] as usize;
		if !insn_at(row[0] as i64) || !(insn_at(end as i64) || end == n) { return Err("local-variable-pc") }
		if c.utf8(row[2]).is_none() || c.utf8(row[3]).is_none() { return Err("local-variable-name") }
	} }
	// StackMapTable (JVMS §4.7.4): the first attribute of Code, decodable to its last byte, every frame on an instruction
	// boundary, Object types at class entries, Uninitialized types at a `new` instruction
	match &w.smt {
		None => {}
		Some((_, Err(_))) => return Err("stack-map-undecodable"),
		Some((pos, Ok(fs))) => {
			if *pos != 0 || fs.is_empty() { return Err("stack-map-place") }
			for (off, f) in fs {
				if !insn_at(*off as i64) { return Err("stack-map-offset") }
				for t in f.types() { match t {
					DVt::Obj(i) => if !c.is_class(*i) { return Err("stack-map-object") },
					DVt::Uninit(o) => if !insn_at(*o as i64) || code.code.get(*o as usize) != Some(&0xbb) { return Err("stack-map-uninitialized") },
					_ => {}
				} }
			}
		}
	}
	Ok(())
}

/// decidable part of the domain that the request itself shows (the rest of the domain is "the write succeeds")
fn wellformed_domain(r: &Req) -> bool {
	let n = r.insns.len();
	// targets of jumps / tables must be instructions (a jump to the last label `n` leaves the method: JVMS forbids it,
	// the writer does not care); lookupswitch keys strictly increasing (the writer accepts equal keys)
	let insn = |t: &usize| *t < n;
	r.insns.iter().all(|i| match i {
		RI::If(_, t) | RI::Goto(t) | RI::Jsr(t) => insn(t),
		RI::Ts(d, _, _, tb) => insn(d) && tb.iter().all(insn),
		RI::Ls(d, ps) => insn(d) && ps.iter().all(|p| insn(&p.1)) && ps.windows(2).all(|x| x[0].0 < x[1].0),
		RI::MultiANewArray(_, d) => *d >= 1,
		_ => true,
	}) && r.excs.iter().all(|e| e.start < n && e.handler < n)
		&& r.lines.iter().flatten().all(|l| l.0 < n)
		&& r.lvs.iter().flatten().all(|v| v.start < n)
		// JVMS §4.10.1.4: an Uninitialized type names the `new` instruction that created the object
		&& r.frames.iter().flatten().all(|f| f.types().iter().all(|t| match t { RVt::Uninit(l) => matches!(r.insns.get(*l), Some(RI::ClsOp(187, _))), _ => true }))
}

fn oracle(op: &str, r: &Req) -> Ans {
	let tree = match build_tree(r) { Ok(t) => t, Err(e) => return Ans::BadOp(e) };
	// a panic of the writer is a violation of "fails cleanly", never a reason to leave the domain (audit rule (ii))
	let b = match write(&tree) { W::Ok(b) => b, W::Panic => return Ans::fail("panic"), W::Err => return Ans::out_of_domain() };
	let w = match dissect(b) { Ok(w) => w, Err(_) => return Ans::fail("unparsable") };
	let res = if op == "oracle-write-read" { check_denotes(r, &w) } else if wellformed_domain(r) { check_wellformed(&w) } else { return Ans::out_of_domain() };
	match res { Ok(()) => Ans::pass(), Err(t) => Ans::fail(t) }
}

/// JVMS §4.7.4 can express the frames: at most 65535 of them, chop counts and append lengths in 1..=3, at most 65535 locals
/// and stack items, every Uninitialized label is one that has a bytecode offset (an instruction, or the end of the code)
fn table_ok(r: &Req) -> bool {
	let n = r.insns.len();
	r.frames.iter().flatten().count() <= 65535 && r.frames.iter().flatten().all(|f| (match f {
		RFrame::Chop(k) => (1..=3).contains(k),
		RFrame::Append(l) => (1..=3).contains(&l.len()),
		RFrame::Full(l, s) => l.len() <= 65535 && s.len() <= 65535,
		_ => true,
	}) && f.types().iter().all(|t| match t { RVt::Uninit(l) => *l <= n, _ => true }))
}

/// the class with its frames is written exactly when the class without them is and the frames are expressible; never a panic.
/// Domain: the class without frames can be written and the pool has room for two entries per Object type.
fn oracle_frames_fail_iff(r: &Req) -> Ans {
	let r0 = Req { insns: r.insns.clone(), excs: r.excs.iter().map(|e| RExc { start: e.start, end: e.end, handler: e.handler, catch: e.catch.clone() }).collect(),
		lines: r.lines.clone(), lvs: r.lvs.as_ref().map(|v| v.iter().map(|x| RLv { start: x.start, end: x.end, name: x.name.clone(), desc: x.desc.clone(), sig: x.sig.clone(), index: x.index }).collect()),
		frames: vec![None; r.insns.len()] };
	let tree0 = match build_tree(&r0) { Ok(t) => t, Err(e) => return Ans::BadOp(e) };
	let b0 = match write(&tree0) { W::Ok(b) => b, W::Panic => return Ans::fail("panic"), W::Err => return Ans::out_of_domain() };
	let Ok(w0) = dissect(b0) else { return Ans::fail("unparsable") };
	let objects: usize = r.frames.iter().flatten().map(|f| f.types().iter().filter(|t| matches!(t, RVt::Obj(_))).count()).sum();
	if w0.class.pool_count as usize + 2 * objects > 65535 { return Ans::out_of_domain() }
	let tree = match build_tree(r) { Ok(t) => t, Err(e) => return Ans::BadOp(e) };
	match (write(&tree), table_ok(r)) {
		(W::Panic, _) => Ans::fail("panic"),
		(W::Ok(_), true) | (W::Err, false) => Ans::pass(),
		(W::Ok(_), false) => Ans::fail("accepted"),
		(W::Err, true) => Ans::fail("refused"),
	}
}

// ------------------------------------------------------------------------------------------------ whole classes: read, write, read

/// forget what the writer is known not to write: stack map frames (known finding) and an *empty* local variable
/// table (`Some([])` is written as no attribute at all and reads back as `None`; it carries no facts)
fn normalise(c: &mut ClassFile, frames: bool, empty_lvt: bool) {
	for m in &mut c.methods { if let Some(code) = &mut m.code {
		if frames { for i in &mut code.instructions { i.frame = None; } }
		if empty_lvt && code.local_variables.as_ref().is_some_and(|v| v.is_empty()) { code.local_variables = None; }
	} }
}

/// `same` | `empty-lvt` | `frames` (equal once the frames of the input tree are ignored) | `other` | `reread`; Err = outside the domain
fn cf_write_read(bytes: &[u8]) -> Result<&'static str, &'static str> {
	let t1 = duke::read_class(&mut Cursor::new(bytes)).map_err(|_| "unreadable")?;
	let W::Ok(out) = write(&t1) else { return Err("unwritable") };
	let Ok(t2) = duke::read_class(&mut Cursor::new(&out)) else { return Ok("reread") };
	// `==` on trees is false for NaN constants (f32/f64 PartialEq); fall back to the Debug rendering for those
	let eq = |a: &ClassFile, b: &ClassFile| a == b || format!("{a:?}") == format!("{b:?}");
	if eq(&t1, &t2) { return Ok("same") }
	let mut s1 = t1.clone();
	normalise(&mut s1, false, true);
	if eq(&s1, &t2) { return Ok("empty-lvt") }
	normalise(&mut s1, true, true);
	if eq(&s1, &t2) { Ok("frames") } else { Ok("other") }
}

// ------------------------------------------------------------------------------------------------ exec

fn exec(op: &str, args: &[Sexp]) -> Ans {
	macro_rules! tr { ($e:expr) => { match $e { Ok(x) => x, Err(e) => return Ans::BadOp(e) } } }
	match (op, args) {
		("code-write", [i, e, l, v]) => code_write(&tr!(parse_req(i, e, l, v))),
		("code-write", [i, e, l, v, f]) => code_write(&tr!(parse_req5(i, e, l, v, Some(f)))),
		("oracle-write-read" | "oracle-wellformed", [i, e, l, v, f]) => oracle(op, &tr!(parse_req5(i, e, l, v, Some(f)))),
		("oracle-frames-fail-iff", [i, e, l, v, f]) => oracle_frames_fail_iff(&tr!(parse_req5(i, e, l, v, Some(f)))),
		// not generated; for reports: lets a panic of the writer escape so that the runner prints `panic <file:line>`
		("code-write-raw", [i, e, l, v]) => {
			let tree = tr!(build_tree(&tr!(parse_req(i, e, l, v))));
			let mut out = Vec::new();
			match duke::write_class(&mut out, &tree) { Ok(()) => Ans::Ok(blob(&out)), Err(_) => Ans::err() }
		}
		("oracle-write-read" | "oracle-wellformed", [i, e, l, v]) => oracle(op, &tr!(parse_req(i, e, l, v))),
		("pool-put", [i]) => {
			let insns = tr!(parse_insns(i));
			if insns.iter().any(|x| !matches!(x, RI::Ldc(_))) { return Ans::BadOp("pool-put takes ldc instructions only".into()) }
			let frames = vec![None; insns.len()];
			let r = Req { insns, excs: vec![], lines: None, lvs: None, frames };
			let tree = tr!(build_tree(&r));
			match write(&tree) {
				W::Err => Ans::err(),
				W::Panic => Ans::Err("panic".into()),
				W::Ok(b) => {
					let w = match dissect(b) { Ok(w) => w, Err(e) => return Ans::BadOp(e) };
					let ds = match decode_all(&w.code.code) { Ok(d) => d, Err(e) => return Ans::BadOp(e) };
					let idx: Vec<Sexp> = ds.iter().filter_map(|(_, d)| match d { D::Ldc(i, _) | D::Ldc2(i) => Some(Sexp::nat(*i as usize)), _ => None }).collect();
					Ans::Ok(Sexp::list(vec![Sexp::list(idx), Sexp::nat(w.class.pool_count as usize)]))
				}
			}
		}
		("cf-write-read", [b]) => {
			let b = tr!(b.as_bytes());
			match catch_unwind(AssertUnwindSafe(|| cf_write_read(&b))) {
				Ok(Ok("same")) => Ans::ok_tag("same"),
				Ok(Ok(t)) => Ans::Ok(Sexp::list(vec![Sexp::tag("differs"), Sexp::tag(t)])),
				Ok(Err(_)) => Ans::err(),
				Err(_) => Ans::Err("panic".into()),
			}
		}
		("oracle-cf-write-read", [mode, b]) => {
			// full: read (write t) = t;  partial: the same up to the stack map frames of t (not written before 6210871)
			let mode = tr!(mode.as_atom());
			let b = tr!(b.as_bytes());
			match catch_unwind(AssertUnwindSafe(|| cf_write_read(&b))) {
				// an *empty* local variable table (`Some([])`, written as no attribute, read back as `None`) carries no facts
				Ok(Ok("same" | "empty-lvt")) => Ans::pass(),
				Ok(Ok("frames")) if mode == "partial" => Ans::pass(),
				Ok(Ok(t)) => Ans::fail(t),
				_ => Ans::out_of_domain(),
			}
		}
		// the whole writer, byte-exact: read the class with duke, write the tree with duke
		("class-write", [b]) => {
			let b = tr!(b.as_bytes());
			let t = match catch_unwind(AssertUnwindSafe(|| duke::read_class(&mut Cursor::new(&b)))) {
				Ok(Ok(t)) => t,
				Ok(Err(_)) => return Ans::ok_tag("unreadable"),
				Err(_) => return Ans::Panic("reader".into()),
			};
			match write(&t) {
				W::Ok(out) => Ans::Ok(blob(&out)),
				W::Err => Ans::err(),
				W::Panic => Ans::Err("panic".into()),
			}
		}
		// `Thm.C02.class_write_read_partial` evaluated on the implementation: a class of the proved fragment that is written is read
		// back as the same description
		("oracle-class-write-read", [b]) => {
			let b = tr!(b.as_bytes());
			let Ok(Ok(t1)) = catch_unwind(AssertUnwindSafe(|| duke::read_class(&mut Cursor::new(&b)))) else { return Ans::out_of_domain() };
			if !in_writer_fragment(&t1) { return Ans::out_of_domain() }
			match write(&t1) {
				W::Err => Ans::out_of_domain(),
				W::Panic => Ans::fail("panic"),
				W::Ok(out) => match catch_unwind(AssertUnwindSafe(|| duke::read_class(&mut Cursor::new(&out)))) {
					// equal trees, or equal once the label ids are read as the instruction that carries them (the harness' own projection)
					Ok(Ok(t2)) => if t1 == t2 || format!("{t1:?}") == format!("{t2:?}")
						|| matches!((fvh::c01facts::class(&t1, true), fvh::c01facts::class(&t2, true)), (Ok(a), Ok(b)) if a == b) { Ans::pass() } else { Ans::fail("differs") },
					_ => Ans::fail("reread"),
				},
			}
		}
		_ => Ans::BadOp("unknown op".into()),
	}
}

/// the fragment of `Thm.C02.class_write_read_partial` as far as it is visible in a tree that was read (valid names, flags within
/// their masks, well-typed constants and annotations nested at most 255 levels hold for every duke tree that was read): method bodies
/// as in `ClassWriteFull.CodeOk`
fn in_writer_fragment(c: &ClassFile) -> bool {
	c.methods.iter().all(|m| match &m.code { None => true, Some(code) => code_in_fragment(code) })
}

/// `ClassWriteFull.CodeOk` (lean/FeatherModel/Lemmas/ClassWriteFullCode.lean, `RCodeOk`) on the harness' own resolved projection of the
/// method body (label ids read as the index of the instruction carrying them; a dangling label = `Code.resolve` fails), as far as the
/// conditions can fail for a tree duke read (operand ranges and valid names hold by the types / the reader's checks):
/// `Dynamic` constants nested within the reader's depth limit for bootstrap arguments, `Uninitialized` labels of stack map frames on instructions, every target an instruction, at most 32767 bytes by the syntactic
/// bound (longest form of every instruction), exception ranges `start < n`, `end <= n`, `handler < n`, line entries on instructions,
/// local variables `None` or non-empty with exactly one of descriptor / signature per entry and descriptor entries first, ranges
/// `start < n`, `start <= end <= n`, type-annotation targets on instructions, unknown attributes not named like an attribute the reader
/// interprets inside `Code` (`Spec.codeAttrNames`; they are written since the repair "class writer writes the unknown attributes of a
/// method body"), fewer than 65535 label references
const CODE_ATTR_NAMES: [&str; 7] = ["StackMapTable", "StackMap", "LineNumberTable", "LocalVariableTable", "LocalVariableTypeTable",
	"RuntimeVisibleTypeAnnotations", "RuntimeInvisibleTypeAnnotations"];
fn code_in_fragment(c: &duke::tree::method::code::Code) -> bool {
	if c.attributes.iter().any(|a| CODE_ATTR_NAMES.iter().any(|n| a.name.as_bytes() == n.as_bytes())) { return false }
	let Ok(s) = fvh::c01facts::code(c, true) else { return false };
	rcode_ok(&s).unwrap_or(false)
}

/// nesting of `Dynamic` constants through bootstrap arguments (`ldepth`)
fn loadable_depth(l: &Sexp) -> R<usize> {
	let l = l.as_list()?;
	if l[0].as_atom()? != "dyn" { return Ok(0) }
	let mut d = 0;
	for a in l[4].as_list()? { d = d.max(loadable_depth(a)?); }
	Ok(d + 1)
}

fn rcode_ok(s: &Sexp) -> R<bool> {
	let it = s.as_list()?;
	let [_, _max_stack, _max_locals, insns, exc, _last, lines, locals, rvta, ritva, _attrs] = it else { return Err("code shape".into()) };
	let insns = insns.as_list()?;
	let n = insns.len();
	let (mut size, mut refs) = (0usize, 0usize);
	for e in insns {
		let e = e.as_list()?;
		if let Some(f) = e[1].as_opt()? {
			// one label look-up for the frame's own offset, one per `Uninitialized` type
			refs += 1;
			let mut vts: Vec<&Sexp> = Vec::new();
			if let Sexp::List(f) = f {
				match f[0].as_atom()? {
					"same1" => vts.push(&f[1]),
					"chop" => {}
					"append" => vts.extend(f[1].as_list()?),
					"full" => { vts.extend(f[1].as_list()?); vts.extend(f[2].as_list()?); }
					other => return Err(format!("frame {other}")),
				}
			}
			for v in vts {
				if let Sexp::List(v) = v { if v[0].as_atom()? == "uninit" { if v[1].as_nat()? >= n { return Ok(false) } refs += 1; } }
			}
		}
		let i = e[2].as_list()?;
		let mut targets: Vec<usize> = Vec::new();
		size += match i[0].as_atom()? {
			"simple" => 1, "bipush" => 2, "sipush" => 3,
			"ldc" => { if loadable_depth(&i[1])? >= 17 { return Ok(false) } 3 }
			"load" | "store" => 4, "iinc" => 6, "ret" => 4,
			"branch" => { targets.push(i[2].as_nat()?); 8 }
			"goto" | "jsr" => { targets.push(i[1].as_nat()?); 5 }
			"tableswitch" => { targets.push(i[1].as_nat()?); for t in i[4].as_list()? { targets.push(t.as_nat()?); } 16 + 4 * i[4].as_list()?.len() }
			"lookupswitch" => { targets.push(i[1].as_nat()?); for kt in i[2].as_list()? { targets.push(kt.as_list()?[1].as_nat()?); } 12 + 8 * i[2].as_list()?.len() }
			"field" | "invokevirtual" | "invokespecial" | "invokestatic" | "new" | "anewarray" | "checkcast" | "instanceof" => 3,
			"invokeinterface" => 5,
			"invokedynamic" => { for a in i[4].as_list()? { if loadable_depth(a)? >= 16 { return Ok(false) } } 5 }
			"newarray" => 2, "multianewarray" => 4,
			other => return Err(format!("instruction {other}")),
		};
		if targets.iter().any(|&t| t >= n) { return Ok(false) }
		refs += targets.len();
	}
	if size > 32767 { return Ok(false) }
	for e in exc.as_list()? {
		let e = e.as_list()?;
		if !(e[0].as_nat()? < n && e[1].as_nat()? <= n && e[2].as_nat()? < n) { return Ok(false) }
		refs += 3;
	}
	if let Some(ls) = lines.as_opt()? {
		for e in ls.as_list()? { if e.as_list()?[0].as_nat()? >= n { return Ok(false) } refs += 1; }
	}
	if let Some(vs) = locals.as_opt()? {
		let vs = vs.as_list()?;
		if vs.is_empty() { return Ok(false) }
		let mut seen_sig = false;
		for v in vs {
			let v = v.as_list()?;
			let (a, b, desc, sig) = (v[0].as_nat()?, v[1].as_nat()?, v[3].as_opt()?.is_some(), v[4].as_opt()?.is_some());
			if desc == sig || (desc && seen_sig) { return Ok(false) }
			seen_sig |= sig;
			if !(a < n && a <= b && b <= n) { return Ok(false) }
			refs += 2;
		}
	}
	for tas in [rvta, ritva] {
		for ta in tas.as_list()? {
			let t = ta.as_list()?[0].as_list()?;
			match t[0].as_atom()? {
				"local-var" => for e in t[2].as_list()? {
					let e = e.as_list()?;
					let (a, b) = (e[0].as_nat()?, e[1].as_nat()?);
					if !(a < n && a <= b && b <= n) { return Ok(false) }
					refs += 2;
				},
				"exception-param" => {}
				"offset" | "offset-arg" => { if t[2].as_nat()? >= n { return Ok(false) } refs += 1; }
				_ => return Ok(false),
			}
		}
	}
	Ok(refs < 65535)
}

// ------------------------------------------------------------------------------------------------ generators

/// instruction list under construction: items (with `rep` blocks) and the running instruction count
struct B { items: Vec<Sexp>, n: usize }

fn sx(head: &str, args: Vec<Sexp>) -> Sexp { let mut v = vec![Sexp::tag(head)]; v.extend(args); Sexp::list(v) }
fn nop() -> Sexp { sx("s", vec![Sexp::nat(0)]) }
fn ret_insn() -> Sexp { sx("s", vec![Sexp::nat(0xb1)]) }
/// kind 0..=15: `if` with that condition, 16: goto, 17: jsr
fn jump(kind: usize, t: usize) -> Sexp {
	match kind { 16 => sx("goto", vec![Sexp::nat(t)]), 17 => sx("jsr", vec![Sexp::nat(t)]), c => sx("if", vec![Sexp::nat(c), Sexp::nat(t)]) }
}
/// bytes a jump grows by when it has to be written in its long form
fn growth(kind: usize) -> usize { if kind >= 16 { 2 } else { 5 } }

impl B {
	fn new() -> B { B { items: Vec::new(), n: 0 } }
	/// appends one instruction, returns its instruction index (= its label)
	fn push(&mut self, s: Sexp) -> usize { self.items.push(s); self.n += 1; self.n - 1 }
	/// reserves one instruction to be filled in once its target is known; returns the *item* index for `fill`
	fn hole(&mut self) -> usize { self.items.push(nop()); self.n += 1; self.items.len() - 1 }
	fn fill(&mut self, item: usize, s: Sexp) { self.items[item] = s; }
	fn rep(&mut self, n: usize, s: Sexp) { if n == 1 { self.push(s); } else if n > 0 { self.items.push(sx("rep", vec![Sexp::nat(n), s])); self.n += n; } }
	/// `bytes` bytes of instructions without labels; style 0: nops, 1: sipush + nops, 2: bipush / iload mix
	fn filler(&mut self, bytes: usize, style: usize) {
		match style {
			0 => self.rep(bytes, nop()),
			1 => { self.rep(bytes / 3, sx("si", vec![Sexp::int(-2)])); self.rep(bytes % 3, nop()); }
			_ => {
				let a = bytes / 4;
				self.rep(a, sx("bi", vec![Sexp::int(7)]));
				self.rep((bytes - 2 * a) / 2, sx("ld", vec![Sexp::nat(4), Sexp::nat(9)]));
				self.rep((bytes - 2 * a) % 2, sx("s", vec![Sexp::nat(0x57)]));
			}
		}
	}
	fn insns(&self) -> Sexp { Sexp::list(self.items.clone()) }
}

fn emit(out: &mut Out, insns: Sexp, excs: Sexp, lines: Sexp, lvs: Sexp, oracles: bool) {
	let args = [insns, excs, lines, lvs];
	out.op("code-write", &args);
	if oracles { out.op("oracle-write-read", &args); out.op("oracle-wellformed", &args); }
}
fn emit_code(out: &mut Out, b: &B, oracles: bool) { emit(out, b.insns(), Sexp::list(vec![]), Sexp::list(vec![]), Sexp::list(vec![]), oracles) }

const SIMPLE: [usize; 22] = [0x00, 0x01, 0x03, 0x09, 0x0f, 0x2e, 0x35, 0x4f, 0x57, 0x59, 0x5f, 0x60, 0x83, 0x85, 0x98, 0xac, 0xb0, 0xb1, 0xbe, 0xbf, 0xc2, 0xc3];
const IDX: [usize; 12] = [0, 1, 3, 4, 5, 100, 254, 255, 256, 257, 1000, 65535];

fn rand_const(r: &mut Rng) -> Sexp {
	match r.below(9) {
		0 | 1 => sx("ldc-int", vec![Sexp::int(*r.pick(&[0i64, 1, -1, 100000, 2147483647, -2147483648]))]),
		2 => sx("ldc-long", vec![Sexp::int(*r.pick(&[0i64, 1, 2, -1, i64::MAX, i64::MIN]))]),
		3 => sx("ldc-float", vec![Sexp::nat(*r.pick(&[0usize, 0x3f800000, 0x7fc00000, 0x7fc00001, 0x80000000, 0xffffffff]))]),
		4 => sx("ldc-double", vec![Sexp::Atom(r.pick(&[0u64, 0x3ff0000000000000, 0x7ff8000000000000, 0x7ff8000000000001, u64::MAX]).to_string())]),
		5 | 6 => sx("ldc-str", vec![Sexp::str(*r.pick(&["", "a", "bc", "C", "Code", "m"]))]),
		_ => sx("ldc-cls", vec![Sexp::str(*r.pick(&["C", "java/lang/Object", "X", "[I"]))]),
	}
}

/// generator mode: clean methods contain nothing the writer must refuse, dirty ones contain each kind of defect now and then
#[derive(Clone, Copy)]
struct Mode { dirty: bool }

/// a label for a method of `n` instructions: an instruction; where `end_ok`, sometimes the end of the code;
/// in dirty methods also the end where JVMS wants an instruction and, rarely, a label nobody carries
fn rand_label(r: &mut Rng, n: usize, end_ok: bool, m: Mode, out: &mut Out) -> usize {
	if m.dirty && r.chance(1, 40) { out.stats.hit("label:unknown"); return n + 1 + r.below(3) }
	if (end_ok && r.chance(1, 4)) || (m.dirty && r.chance(1, 10)) { return n }
	r.below(n.max(1))
}

fn rand_handle(r: &mut Rng) -> Sexp {
	let (kind, iface) = *r.pick(&[(1usize, false), (2, false), (3, false), (4, false), (5, false), (6, false), (6, true), (7, false), (7, true), (8, false), (9, true)]);
	let field = kind <= 4;
	sx("h", vec![Sexp::nat(kind), Sexp::str(*r.pick(&["B", "C"])), Sexp::str(if kind == 8 { "<init>" } else { *r.pick(&["b", "f"]) }),
		Sexp::str(if field { *r.pick(&["I", "Lx;"]) } else { *r.pick(&["()V", "(I)Lx;"]) }), Sexp::bool(iface)])
}

/// a non-dynamic loadable (bootstrap argument)
fn rand_arg(r: &mut Rng) -> Sexp {
	match r.below(8) {
		0 => sx("ldc-mt", vec![Sexp::str(*r.pick(&["()V", "(I)V"]))]),
		1 => sx("ldc-mh", vec![rand_handle(r)]),
		_ => rand_const(r),
	}
}

/// `invokedynamic`, `ldc` of a dynamic constant / method type / method handle; few distinct values so that bootstrap
/// methods and their arguments repeat (de-duplication)
fn rand_dynamic(r: &mut Rng) -> Sexp {
	let args = |r: &mut Rng| Sexp::list((0..*r.pick(&[0usize, 0, 1, 2])).map(|_| rand_arg(r)).collect());
	match r.below(6) {
		0 | 1 | 2 => { let h = rand_handle(r); let a = args(r); sx("indy", vec![Sexp::str(*r.pick(&["run", "get"])), Sexp::str(*r.pick(&["()V", "(I)Lx;"])), h, a]) }
		3 => { let h = rand_handle(r); let a = args(r); sx("ldc-dyn", vec![Sexp::str("k"), Sexp::str(*r.pick(&["I", "J", "D", "Lx;"])), h, a]) }
		4 => sx("ldc-mt", vec![Sexp::str(*r.pick(&["()V", "(I)V"]))]),
		_ => sx("ldc-mh", vec![rand_handle(r)]),
	}
}

/// field access, invocations, `new` & co: instructions with a constant-pool reference and no label
fn rand_member(r: &mut Rng, m: Mode, out: &mut Out) -> Sexp {
	let cls = *r.pick(&["C", "java/lang/Object", "p/Q", "[I"]);
	let mdesc = if m.dirty && r.chance(1, 5) { out.stats.hit("member:bad-descriptor"); *r.pick(&["", "x", "(", "(L", "([", "(Lx", "(J"]) }
		else { *r.pick(&["()V", "(I)V", "(JD)J", "([D[[Ljava/lang/String;I)V", "(Lx;)Lx;", "(DDDDDDDD)D"]) };
	match r.below(11) {
		0 | 1 => sx("fld", vec![Sexp::nat(r.range(178, 181)), Sexp::str(*r.pick(&["C", "p/Q"])), Sexp::str(*r.pick(&["f", "g", "m"])), Sexp::str(*r.pick(&["I", "J", "Lx;", "[I"]))]),
		2 => sx("inv", vec![Sexp::nat(182), Sexp::str(cls), Sexp::str(*r.pick(&["m", "clone", "<init>"])), Sexp::str(mdesc), Sexp::bool(false)]),
		3 | 4 => sx("inv", vec![Sexp::nat(r.range(183, 184)), Sexp::str(cls), Sexp::str(*r.pick(&["m", "<init>", "f"])), Sexp::str(mdesc), Sexp::bool(r.chance(1, 3))]),
		5 | 6 => sx("invi", vec![Sexp::str(*r.pick(&["I", "p/Q"])), Sexp::str(*r.pick(&["m", "run"])), Sexp::str(mdesc)]),
		7 | 8 => sx("cls", vec![Sexp::nat(*r.pick(&[187usize, 189, 192, 193])), Sexp::str(cls)]),
		9 => sx("newarray", vec![Sexp::nat(r.range(4, 11))]),
		_ => sx("mana", vec![Sexp::str(*r.pick(&["[[I", "[[Lx;", "[I"])), Sexp::nat(if m.dirty && r.chance(1, 3) { 0 } else { r.range(1, 3) })]),
	}
}

fn rand_insn(r: &mut Rng, n: usize, m: Mode, out: &mut Out) -> Sexp {
	let c = r.below(100);
	let kind = match c { 0..=23 => "simple", 24..=27 => "dynamic", 28..=37 => "member", 38..=45 => "push", 46..=55 => "ldc", 56..=65 => "local", 66..=69 => "iinc", 70..=71 => "ret",
		72..=83 => "if", 84..=89 => "goto", 90..=91 => "jsr", 92..=95 => "tableswitch", _ => "lookupswitch" };
	out.stats.hit(&format!("insn:{kind}"));
	match kind {
		"simple" => sx("s", vec![Sexp::nat(*r.pick(&SIMPLE))]),
		"member" => rand_member(r, m, out),
		"dynamic" => rand_dynamic(r),
		"push" => if r.chance(1, 2) { sx("bi", vec![Sexp::int(*r.pick(&[-128i64, -1, 0, 5, 127]))]) } else { sx("si", vec![Sexp::int(*r.pick(&[-32768i64, -129, 0, 128, 32767]))]) },
		"ldc" => rand_const(r),
		"local" => sx(if r.chance(1, 2) { "ld" } else { "st" }, vec![Sexp::nat(r.below(5)), Sexp::nat(*r.pick(&IDX))]),
		"iinc" => sx("iinc", vec![Sexp::nat(*r.pick(&IDX)), Sexp::int(*r.pick(&[-32768i64, -129, -128, -1, 0, 1, 127, 128, 32767]))]),
		"ret" => sx("ret", vec![Sexp::nat(*r.pick(&IDX))]),
		"if" => jump(r.below(16), rand_label(r, n, false, m, out)),
		"goto" => jump(16, rand_label(r, n, false, m, out)),
		"jsr" => jump(17, rand_label(r, n, false, m, out)),
		"tableswitch" => {
			let low = *r.pick(&[-2i64, 0, 1, 1000, 2147483645, -2147483648]);
			let size = r.range(1, 4);
			let mut high = low + size as i64 - 1;
			let mut len = size;
			if m.dirty { match r.below(8) {
				0 if low > i32::MIN as i64 => { high = low - 1; out.stats.hit("ts:low>high"); }
				1 => { len += 1; out.stats.hit("ts:len-mismatch"); }
				2 => { len -= 1; out.stats.hit("ts:len-mismatch"); }
				_ => {}
			} }
			if high > i32::MAX as i64 { high = i32::MAX as i64; len = (high - low + 1) as usize; }
			let d = rand_label(r, n, false, m, out);
			sx("ts", vec![Sexp::nat(d), Sexp::int(low), Sexp::int(high), Sexp::list((0..len).map(|_| Sexp::nat(rand_label(r, n, false, m, out))).collect())])
		}
		_ => {
			let cnt = r.below(5);
			let mut keys: Vec<i64> = (0..cnt).map(|_| *r.pick(&[-2147483648i64, -5, 0, 1, 2, 7, 2147483647])).collect();
			keys.sort();
			if m.dirty { match r.below(6) { 0 => { keys.reverse(); out.stats.hit("ls:reversed"); } 1 => { out.stats.hit("ls:maybe-equal-keys"); } _ => keys.dedup() } } else { keys.dedup(); }
			let d = rand_label(r, n, false, m, out);
			sx("ls", vec![Sexp::nat(d), Sexp::list(keys.iter().map(|k| Sexp::list(vec![Sexp::int(*k), Sexp::nat(rand_label(r, n, false, m, out))])).collect())])
		}
	}
}

fn rand_tables(r: &mut Rng, n: usize, m: Mode, out: &mut Out) -> (Sexp, Sexp, Sexp) {
	let cls = ["java/lang/Throwable", "E", "C"];
	let excs = Sexp::list((0..*r.pick(&[0usize, 0, 1, 2, 3])).map(|_| {
		let (a, b) = (rand_label(r, n, false, m, out), rand_label(r, n, true, m, out));
		Sexp::list(vec![Sexp::nat(a.min(b)), Sexp::nat(a.max(b)), Sexp::nat(rand_label(r, n, false, m, out)),
			if r.chance(1, 3) { Sexp::list(vec![]) } else { Sexp::list(vec![Sexp::str(*r.pick(&cls))]) }])
	}).collect());
	let lines = if r.chance(1, 2) { Sexp::list(vec![]) } else {
		Sexp::list(vec![Sexp::list((0..r.below(5)).map(|_| Sexp::list(vec![Sexp::nat(rand_label(r, n, false, m, out)), Sexp::nat(*r.pick(&[0usize, 1, 42, 65535]))])).collect())])
	};
	let lvs = if r.chance(1, 2) { Sexp::list(vec![]) } else {
		let reversed = m.dirty && r.chance(1, 6);
		let cnt = if reversed { 1 } else { r.below(5) };
		Sexp::list(vec![Sexp::list((0..cnt).map(|_| {
			let (a, b) = (rand_label(r, n, false, m, out), rand_label(r, n, true, m, out));
			let (s, e) = if reversed && a != b { out.stats.hit("lv:reversed-range"); (a.max(b), a.min(b)) } else { (a.min(b), a.max(b)) };
			let d = if r.chance(4, 5) { Sexp::list(vec![Sexp::str(*r.pick(&["I", "J", "Ljava/lang/Object;"]))]) } else { Sexp::list(vec![]) };
			let g = if r.chance(1, 3) { Sexp::list(vec![Sexp::str(*r.pick(&["TT;", "Ljava/util/List<TT;>;"]))]) } else { Sexp::list(vec![]) };
			Sexp::list(vec![Sexp::nat(s), Sexp::nat(e), Sexp::str(*r.pick(&["a", "b", "this"])), d, g, Sexp::nat(*r.pick(&IDX))])
		}).collect())])
	};
	(excs, lines, lvs)
}

/// a forward or backward jump whose offset is exactly `off` (before any rewriting), `after` more filler bytes behind
fn boundary(kind: usize, off: i64, style: usize, before: usize, after: usize) -> B {
	let mut b = B::new();
	b.filler(before, 0);
	if off > 0 {
		let j = b.hole();
		b.filler(off as usize - 3, style);
		let t = b.push(nop());
		b.fill(j, jump(kind, t));
	} else {
		let t = b.push(nop());
		b.filler((-off) as usize - 1, style);
		b.push(jump(kind, t));
	}
	b.filler(after, 0);
	b.push(ret_insn());
	b
}

/// `k` nested forward jumps: J_k … J_1, filler, landing pad. J_1 does not fit; every J_i fits until J_{i-1} has been
/// rewritten in its long form, so the writer needs `k + 1` attempts.
fn cascade(r: &mut Rng, k: usize) -> B {
	let kinds: Vec<usize> = (0..k).map(|_| if r.chance(1, 2) { r.below(16) } else { 16 + r.below(2) }).collect(); // kinds[i-1] = J_i
	let g: Vec<usize> = kinds.iter().map(|&x| growth(x)).collect();
	let total_g: usize = g.iter().sum();
	let f = 32768 - 3 * k - total_g - r.below(3);
	// offset of J_i once J_1..J_{i-1} are long: F + 3i + t_i + sum_{j<i} g_j  = 32768
	let t: Vec<usize> = (1..=k).map(|i| 32768 - f - 3 * i - g[..i - 1].iter().sum::<usize>()).collect();
	let pad = t[0] + 1;
	let mut b = B::new();
	let first_pad = k + f; // instruction index of pad[0] with nop filler
	for i in (1..=k).rev() { b.push(jump(kinds[i - 1], first_pad + t[i - 1])); }
	b.filler(f, 0);
	b.rep(pad, nop());
	b.push(ret_insn());
	b
}

/// a large method made of segments `filler; jump-or-switch`, all targets are segment starts; one span of segments is
/// sized so that jumps across it sit right at the `i16` limit
fn random_large(r: &mut Rng, out: &mut Out) -> B {
	let m = r.range(2, 10);
	let mut sizes: Vec<usize> = (0..m).map(|_| r.below(40)).collect();
	let a = r.below(m);
	let b = r.range(a, m - 1);
	let inner: usize = sizes[a..=b].iter().sum::<usize>() + 5 * (b - a + 1);
	let want = 32740 + r.below(60);
	if want > inner { sizes[r.range(a, b)] += want - inner; }
	let total: usize = sizes.iter().sum::<usize>() + 8 * m;
	let budget = if r.chance(1, 20) { 65600 + r.below(300) } else { 33000 + r.below(32400) };
	if budget > total { let j = r.below(m); if j < a || j > b || r.chance(1, 4) { sizes[j] += budget - total; } }
	let mut b_ = B::new();
	let mut starts = Vec::new();
	let mut holes = Vec::new();
	for j in 0..m {
		starts.push(b_.n);
		b_.filler(sizes[j], r.below(3));
		holes.push(b_.hole());
	}
	starts.push(b_.push(ret_insn()));
	for h in holes {
		let t = |r: &mut Rng| starts[r.below(starts.len())];
		let insn = match r.below(10) {
			0..=4 => jump(r.below(16), t(r)),
			5 | 6 => jump(16, t(r)),
			7 => jump(17, t(r)),
			8 => { let n = r.range(1, 3); sx("ts", vec![Sexp::nat(t(r)), Sexp::int(3), Sexp::int(3 + n as i64 - 1), Sexp::list((0..n).map(|_| Sexp::nat(t(r))).collect())]) }
			_ => { let n = r.below(3); sx("ls", vec![Sexp::nat(t(r)), Sexp::list((0..n).map(|i| Sexp::list(vec![Sexp::int(i as i64 * 7 - 3), Sexp::nat(t(r))])).collect())]) }
		};
		b_.fill(h, insn);
	}
	out.stats.hit("stream:random-large");
	b_
}


// ------------------------------------------------------------------------------------------------ generators: stack map frames

fn emit5(out: &mut Out, insns: Sexp, excs: Sexp, lines: Sexp, lvs: Sexp, frames: Sexp, oracles: bool) {
	let args = [insns, excs, lines, lvs, frames];
	out.op("code-write", &args);
	out.op("oracle-frames-fail-iff", &args);
	if oracles { out.op("oracle-write-read", &args); out.op("oracle-wellformed", &args); }
}
fn emit_frames(out: &mut Out, b: &B, frames: &[(usize, Sexp)], oracles: bool) {
	let f = Sexp::list(frames.iter().map(|(k, f)| Sexp::list(vec![Sexp::nat(*k), f.clone()])).collect());
	emit5(out, b.insns(), Sexp::list(vec![]), Sexp::list(vec![]), Sexp::list(vec![]), f, oracles)
}

const VT_ATOMS: [&str; 7] = ["top", "int", "float", "double", "long", "null", "uthis"];
/// class names of Object types: the class itself and its super class (already in the pool), names other instructions and
/// the exception table use, names nothing else uses
const FRAME_CLASSES: [&str; 8] = ["C", "java/lang/Object", "p/Q", "[I", "E", "java/lang/Throwable", "Z", "x/Y"];

fn vt_obj(c: &str) -> Sexp { sx("obj", vec![Sexp::str(c)]) }
fn vt_uninit(l: usize) -> Sexp { sx("uninit", vec![Sexp::nat(l)]) }
fn f_same() -> Sexp { sx("same", vec![]) }
fn f_same1(v: Sexp) -> Sexp { sx("same1", vec![v]) }
fn f_chop(k: usize) -> Sexp { sx("chop", vec![Sexp::nat(k)]) }
fn f_append(v: Vec<Sexp>) -> Sexp { sx("append", vec![Sexp::list(v)]) }
fn f_full(l: Vec<Sexp>, s: Vec<Sexp>) -> Sexp { sx("full", vec![Sexp::list(l), Sexp::list(s)]) }

/// a verification type for a method of `n` instructions whose `new` instructions are `news`
fn rand_vt(r: &mut Rng, n: usize, news: &[usize], dirty: bool, out: &mut Out) -> Sexp {
	match r.below(10) {
		0..=4 => { out.stats.hit("vt:item"); Sexp::tag(*r.pick(&VT_ATOMS)) }
		5..=7 => { out.stats.hit("vt:object"); vt_obj(*r.pick(&FRAME_CLASSES)) }
		_ => {
			if dirty && r.chance(1, 6) { out.stats.hit("vt:uninit-unknown-label"); return vt_uninit(n + 1 + r.below(3)) }
			if !news.is_empty() && !r.chance(1, 8) { out.stats.hit("vt:uninit-new"); vt_uninit(*r.pick(news)) }
			else if r.chance(1, 4) { out.stats.hit("vt:uninit-last-label"); vt_uninit(n) }
			else { out.stats.hit("vt:uninit-other-insn"); vt_uninit(r.below(n.max(1))) }
		}
	}
}

fn rand_frame(r: &mut Rng, n: usize, news: &[usize], dirty: bool, out: &mut Out) -> Sexp {
	let kind = r.below(10);
	match kind {
		0 | 1 => { out.stats.hit("frame:same"); f_same() }
		2 | 3 => { out.stats.hit("frame:same1"); f_same1(rand_vt(r, n, news, dirty, out)) }
		4 | 5 => {
			let k = if dirty && r.chance(1, 3) { out.stats.hit("frame:chop-out-of-range"); *r.pick(&[0usize, 4, 5, 255]) } else { out.stats.hit("frame:chop"); r.range(1, 3) };
			f_chop(k)
		}
		6 | 7 => {
			let k = if dirty && r.chance(1, 3) { out.stats.hit("frame:append-out-of-range"); *r.pick(&[0usize, 4, 5]) } else { out.stats.hit("frame:append"); r.range(1, 3) };
			f_append((0..k).map(|_| rand_vt(r, n, news, dirty, out)).collect())
		}
		_ => {
			out.stats.hit("frame:full");
			let (a, b) = (*r.pick(&[0usize, 0, 1, 2, 3, 5]), *r.pick(&[0usize, 0, 1, 2, 4]));
			f_full((0..a).map(|_| rand_vt(r, n, news, dirty, out)).collect(), (0..b).map(|_| rand_vt(r, n, news, dirty, out)).collect())
		}
	}
}

fn gen_frames(r: &mut Rng, thorough: bool, out: &mut Out) {
	let e = || Sexp::list(vec![]);

	// ---- F1. exhaustive small scope: `new C; return` with every pair of frames from a small alphabet on the two instructions
	{
		let alpha: Vec<Option<Sexp>> = vec![None, Some(f_same()), Some(f_same1(Sexp::tag("int"))), Some(f_same1(vt_obj("C"))), Some(f_same1(vt_obj("Z"))),
			Some(f_same1(vt_uninit(0))), Some(f_same1(vt_uninit(2))), Some(f_same1(vt_uninit(3))), Some(f_chop(0)), Some(f_chop(1)), Some(f_chop(3)), Some(f_chop(4)),
			Some(f_append(vec![])), Some(f_append(vec![Sexp::tag("long"), vt_obj("Z"), vt_uninit(0)])), Some(f_append(vec![Sexp::tag("top"); 4])),
			Some(f_full(vec![], vec![])), Some(f_full(vec![vt_obj("java/lang/Object"), Sexp::tag("double")], vec![vt_uninit(0), Sexp::tag("null")]))];
		for a in &alpha { for b in &alpha {
			if a.is_none() && b.is_none() { continue }
			let mut bb = B::new();
			bb.push(sx("cls", vec![Sexp::nat(187), Sexp::str("C")]));
			bb.push(ret_insn());
			let fs: Vec<(usize, Sexp)> = [(0usize, a), (1, b)].into_iter().filter_map(|(k, f)| f.clone().map(|f| (k, f))).collect();
			out.stats.hit("stream:frames-exhaustive-small");
			emit_frames(out, &bb, &fs, true);
		} }
	}

	// ---- F2. random small methods with `new` instructions, frames of every kind on a random subset, sometimes tables
	for _ in 0..(if thorough { 30000 } else { 1400 }) {
		let n = if r.chance(1, 12) { r.range(30, 90) } else { r.range(1, 16) };
		let dirty = r.chance(1, 5);
		let m = Mode { dirty: false };
		let mut b = B::new();
		let mut news = Vec::new();
		for k in 0..n {
			let i = if r.chance(1, 4) { news.push(k); sx("cls", vec![Sexp::nat(187), Sexp::str(*r.pick(&FRAME_CLASSES))]) }
				else if r.chance(1, 6) { sx("bi", vec![Sexp::int(64)]) } // two-byte filler: positions != indices
				else { rand_insn(r, n, m, out) };
			b.push(i);
		}
		let dens = *r.pick(&[1usize, 2, 2, 3, 6]);
		let mut fs = Vec::new();
		for k in 0..n { if r.chance(1, dens) { fs.push((k, rand_frame(r, n, &news, dirty, out))); } }
		if fs.is_empty() { fs.push((r.below(n), rand_frame(r, n, &news, dirty, out))); }
		out.stats.hit(if dirty { "frames-random:dirty" } else { "frames-random:clean" });
		out.stats.hit(if fs[0].0 == 0 { "frames-random:first-at-0" } else { "frames-random:first-later" });
		out.stats.hit("stream:frames-random-small");
		let f = Sexp::list(fs.iter().map(|(k, f)| Sexp::list(vec![Sexp::nat(*k), f.clone()])).collect());
		if r.chance(1, 3) {
			let (x, l, v) = rand_tables(r, n, m, out);
			emit5(out, b.insns(), x, l, v, f, true);
		} else { emit5(out, b.insns(), e(), e(), e(), f, true); }
	}

	// ---- F3. offset_delta at the short/extended boundary: first frame at offset a, second frame `gap` bytes further
	for &first in &[0usize, 1, 62, 63, 64, 65, 255, 256, 40000] {
		for &gap in &[1usize, 2, 63, 64, 65, 66, 256, 257, 20000] {
			for kind in 0..4 {
				let mut b = B::new();
				b.filler(first, if first > 1000 { 1 } else { 0 });
				let k0 = b.push(sx("cls", vec![Sexp::nat(187), Sexp::str("C")])); // 3 bytes
				b.filler(gap.saturating_sub(3), r.below(3));
				if gap < 3 { continue }
				let k1 = b.push(nop());
				b.push(ret_insn());
				let mk = |k: usize, r: &mut Rng| match kind { 0 => f_same(), 1 => f_same1(if r.chance(1, 2) { vt_uninit(k0) } else { vt_obj("Z") }), 2 => f_chop(r.range(1, 3)), _ => if k == 0 { f_append(vec![Sexp::tag("int")]) } else { f_full(vec![Sexp::tag("int")], vec![]) } };
				let fs = vec![(k0, mk(0, r)), (k1, mk(1, r))];
				out.stats.hit(&format!("stream:frames-delta first={} gap={}", if first <= 63 { "short" } else { "extended" }, if gap - 1 <= 63 { "short" } else { "extended" }));
				emit_frames(out, &b, &fs, true);
			}
		}
	}
	// gaps 1 and 2: adjacent one-byte instructions
	for &gap in &[1usize, 2] {
		let mut b = B::new();
		let k0 = b.push(nop());
		b.filler(gap - 1, 0);
		let k1 = b.push(nop());
		b.push(ret_insn());
		out.stats.hit("stream:frames-adjacent");
		emit_frames(out, &b, &[(k0, f_same()), (k1, f_same1(Sexp::tag("float")))], true);
	}

	// ---- F4. every verification type in every position; every chop / append count
	{
		let mut b = B::new();
		let nw = b.push(sx("cls", vec![Sexp::nat(187), Sexp::str("p/Q")]));
		for _ in 0..8 { b.push(nop()); }
		let nw2 = b.push(sx("cls", vec![Sexp::nat(187), Sexp::str("Z")]));
		b.push(ret_insn());
		let all = |l: usize| -> Vec<Sexp> { VT_ATOMS.iter().map(|a| Sexp::tag(*a)).chain([vt_obj("C"), vt_obj("Z"), vt_obj("Z"), vt_uninit(l), vt_uninit(nw2)]).collect() };
		let fs = vec![(0, f_full(all(nw), all(nw))), (1, f_append(vec![Sexp::tag("double")])), (2, f_append(vec![Sexp::tag("long"), vt_obj("x/Y")])),
			(3, f_append(vec![vt_uninit(nw2), vt_obj("x/Y"), Sexp::tag("uthis")])), (4, f_chop(1)), (5, f_chop(2)), (6, f_chop(3)),
			(7, f_same1(vt_uninit(nw2))), (8, f_same1(vt_obj("[I"))), (9, f_same()), (10, f_full(vec![], all(nw)))];
		out.stats.hit("stream:frames-every-type");
		emit_frames(out, &b, &fs, true);
		for (bad, name) in [(f_chop(0), "chop0"), (f_chop(4), "chop4"), (f_chop(255), "chop255"), (f_append(vec![]), "append0"), (f_append(vec![Sexp::tag("int"); 4]), "append4"),
				(f_same1(vt_uninit(99)), "uninit-unknown"), (f_full(vec![vt_uninit(99)], vec![]), "uninit-unknown"), (f_full(vec![], vec![Sexp::tag("int"), vt_uninit(12)]), "uninit-unknown")] {
			for at in [0usize, 5] {
				let mut fs2: Vec<(usize, Sexp)> = fs.iter().filter(|(k, _)| *k != at).cloned().collect();
				fs2.push((at, bad.clone()));
				fs2.sort_by_key(|x| x.0);
				out.stats.hit(&format!("stream:frames-refused {name}"));
				emit_frames(out, &b, &fs2, false);
			}
		}
	}

	// ---- F5. frames in methods that need several attempts (`frames.clear()`): jumps at the i16 limit, cascades
	for &off in &[32767i64, 32768, 32769, -32768, -32769, -32770] {
		for class in 0..3 {
			let kind = match class { 0 => r.below(16), 1 => 16, _ => 17 };
			let b = boundary(kind, off, r.below(3), *r.pick(&[0usize, 1, 2]), r.below(4));
			let n = b.n;
			// frames on the first instructions (deltas unaffected), around the jump and its target, and on the last instruction
			let mut ks: Vec<usize> = vec![0, 1, 2, n / 2, n - 3, n - 2, n - 1];
			ks.retain(|k| *k < n); ks.sort(); ks.dedup();
			let fs: Vec<(usize, Sexp)> = ks.iter().map(|&k| (k, match r.below(4) { 0 => f_same(), 1 => f_same1(Sexp::tag("int")), 2 => f_chop(1), _ => f_full(vec![vt_obj("Z")], vec![]) })).collect();
			out.stats.hit(&format!("stream:frames-retry boundary off={off}"));
			emit_frames(out, &b, &fs, true);
		}
	}
	for &k in &(if thorough { vec![1usize, 2, 3, 6, 13] } else { vec![1usize, 2, 4] }) {
		let b = cascade(r, k);
		let n = b.n;
		let mut ks: Vec<usize> = (0..k + 2).chain([n / 3, n - 2, n - 1]).collect();
		ks.retain(|x| *x < n); ks.sort(); ks.dedup();
		let fs: Vec<(usize, Sexp)> = ks.iter().map(|&x| (x, if r.chance(1, 2) { f_same() } else { f_same1(vt_uninit(n)) })).collect();
		out.stats.hit(&format!("stream:frames-retry cascade k={k}"));
		emit_frames(out, &b, &fs, true);
	}
	for _ in 0..(if thorough { 300 } else { 25 }) {
		let b = random_large(r, out);
		let n = b.n;
		let cnt = r.range(1, 12);
		let mut ks: Vec<usize> = (0..cnt).map(|_| if r.chance(1, 3) { r.below(8.min(n)) } else { r.below(n) }).collect();
		ks.sort(); ks.dedup();
		let fs: Vec<(usize, Sexp)> = ks.iter().map(|&k| (k, rand_frame(r, n, &[], false, out))).collect();
		out.stats.hit("stream:frames-random-large");
		emit_frames(out, &b, &fs, true);
	}

	// ---- F6. Object types and the constant pool: indices beyond 255, shared and fresh entries, classes also used by code
	for variant in 0..(if thorough { 12 } else { 4 }) {
		let mut b = B::new();
		for i in 0..(250 + variant) { b.push(sx("ldc-int", vec![Sexp::int(1000 + i as i64)])); }
		b.push(sx("cls", vec![Sexp::nat(192), Sexp::str("N1")]));
		let nw = b.push(sx("cls", vec![Sexp::nat(187), Sexp::str("N2")]));
		b.push(sx("ldc-cls", vec![Sexp::str("N3")]));
		b.push(sx("ldc-str", vec![Sexp::str("N4")])); // a String "N4": the Utf8 is shared with the class N4, the class entry is new
		b.push(ret_insn());
		let fs = vec![(0, f_append(vec![vt_obj("N1"), vt_obj("N2"), vt_obj("N3")])), (3, f_full(vec![vt_obj("N4"), vt_obj("N5"), vt_obj("N5"), vt_obj("C")], vec![vt_uninit(nw), vt_obj("N6")])),
			(nw, f_same1(vt_obj("java/lang/Object")))];
		let x = Sexp::list(vec![Sexp::list(vec![Sexp::nat(0), Sexp::nat(nw), Sexp::nat(nw), Sexp::list(vec![Sexp::str("N7")])])]);
		let l = Sexp::list(vec![Sexp::list(vec![Sexp::list(vec![Sexp::nat(0), Sexp::nat(1)])])]);
		let f = Sexp::list(fs.iter().map(|(k, f)| Sexp::list(vec![Sexp::nat(*k), f.clone()])).collect());
		out.stats.hit("stream:frames-pool-255");
		emit5(out, b.insns(), x, l, e(), f, true);
	}

	// ---- F7. many frames, large counts
	for &n in &(if thorough { vec![300usize, 2000, 65535] } else { vec![300usize, 2000] }) {
		let mut b = B::new();
		b.filler(n - 1, 0);
		b.push(ret_insn());
		let fs: Vec<(usize, Sexp)> = (0..n).map(|k| (k, if k % 97 == 5 { f_same1(vt_obj(if k % 2 == 0 { "Z" } else { "C" })) } else { f_same() })).collect();
		out.stats.hit(&format!("stream:frames-many n={n}"));
		emit_frames(out, &b, &fs, true);
	}
	for &(nl, ns) in &[(65535usize, 0usize), (65536, 0), (0, 65536), (300, 300)] {
		let mut b = B::new();
		b.push(nop());
		b.push(ret_insn());
		let fs = vec![(1usize, f_full(vec![Sexp::tag("int"); nl], vec![Sexp::tag("top"); ns]))];
		out.stats.hit(&format!("stream:frames-full-count locals={nl} stack={ns}"));
		emit_frames(out, &b, &fs, nl <= 65535 && ns <= 65535);
	}
}

fn hex(b: &[u8]) -> Sexp { Sexp::bytes(b) }

/// a small class assembled by hand: `C.m()V` = `k` nops, `iconst_0; ifeq L; nop; L: return`, optionally with a StackMapTable
fn mini_class(k: usize, frames: usize) -> Vec<u8> {
	fn u16b(v: &mut Vec<u8>, x: usize) { v.extend_from_slice(&(x as u16).to_be_bytes()); }
	fn u32b(v: &mut Vec<u8>, x: usize) { v.extend_from_slice(&(x as u32).to_be_bytes()); }
	fn utf8(v: &mut Vec<u8>, s: &str) { v.push(1); u16b(v, s.len()); v.extend_from_slice(s.as_bytes()); }
	let mut pool = Vec::new();
	utf8(&mut pool, "C"); pool.push(7); u16b(&mut pool, 1);
	utf8(&mut pool, "java/lang/Object"); pool.push(7); u16b(&mut pool, 3);
	utf8(&mut pool, "m"); utf8(&mut pool, "()V"); utf8(&mut pool, "Code");
	utf8(&mut pool, if frames > 0 { "StackMapTable" } else { "Unused" });
	let mut code: Vec<u8> = vec![0; k];
	code.extend_from_slice(&[0x03, 0x99, 0x00, 0x04, 0x00, 0xb1]);
	let l = k + 5;
	let mut a = Vec::new();
	u16b(&mut a, 1); u16b(&mut a, 0);
	u32b(&mut a, code.len()); a.extend_from_slice(&code);
	u16b(&mut a, 0);
	if frames > 0 {
		let body: Vec<u8> = match frames {
			1 => vec![0, 1, l as u8],                        // same_frame
			2 => vec![0, 1, 251, 0, l as u8],                // same_frame_extended
			_ => vec![0, 1, 255, 0, l as u8, 0, 0, 0, 0],    // full_frame, no locals, empty stack
		};
		u16b(&mut a, 1); u16b(&mut a, 8); u32b(&mut a, body.len()); a.extend_from_slice(&body);
	} else { u16b(&mut a, 0); }
	let mut v = vec![0xca, 0xfe, 0xba, 0xbe, 0, 0, 0, 52];
	u16b(&mut v, 9); v.extend_from_slice(&pool);
	u16b(&mut v, 0x21); u16b(&mut v, 2); u16b(&mut v, 4); u16b(&mut v, 0); u16b(&mut v, 0);
	u16b(&mut v, 1);
	u16b(&mut v, 9); u16b(&mut v, 5); u16b(&mut v, 6); u16b(&mut v, 1);
	u16b(&mut v, 7); u32b(&mut v, a.len()); v.extend_from_slice(&a);
	u16b(&mut v, 0);
	v
}

fn gen(r: &mut Rng, tier: Tier, out: &mut Out) {
	let thorough = tier == Tier::Thorough;
	let e = || Sexp::list(vec![]);

	// ---- 1. exhaustive small scope: every list of <= 3 instructions over {nop, return, goto t, ifeq t} with t in 0..=n
	for n in 0..=(if thorough { 4 } else { 3 }) {
		let alpha: Vec<Sexp> = [nop(), ret_insn()].into_iter().chain((0..=n).map(|t| jump(16, t))).chain((0..=n).map(|t| jump(0, t))).collect();
		let total = alpha.len().pow(n as u32);
		for code in 0..total {
			let mut c = code;
			let mut b = B::new();
			for _ in 0..n { b.push(alpha[c % alpha.len()].clone()); c /= alpha.len(); }
			out.stats.hit("stream:exhaustive-small");
			emit_code(out, &b, n <= 2 || code % 7 == 0);
		}
	}

	// ---- 2. random small methods with tables
	for _ in 0..(if thorough { 60000 } else { 2500 }) {
		let n = if r.chance(1, 10) { r.range(40, 120) } else { r.range(1, 24) };
		let m = Mode { dirty: r.chance(1, 4) };
		let mut b = B::new();
		for _ in 0..n { let i = rand_insn(r, n, m, out); b.push(i); }
		let (x, l, v) = rand_tables(r, n, m, out);
		out.stats.hit(if m.dirty { "random-small:dirty" } else { "random-small:clean" });
		out.stats.hit("stream:random-small");
		emit(out, b.insns(), x, l, v, true);
	}

	// ---- 3. switches at every alignment, forward and backward arms, malformed bounds
	for pad in 0..4 {
		for variant in 0..8 {
			let mut b = B::new();
			b.push(nop());
			b.filler(pad, 0);
			let back = 0;
			let fwd = pad + 3;
			let sw = match variant {
				0 => sx("ts", vec![Sexp::nat(fwd), Sexp::int(5), Sexp::int(6), Sexp::list(vec![Sexp::nat(back), Sexp::nat(fwd)])]),
				1 => sx("ts", vec![Sexp::nat(back), Sexp::int(-1), Sexp::int(-1), Sexp::list(vec![Sexp::nat(pad + 1)])]),
				2 => sx("ls", vec![Sexp::nat(fwd), Sexp::list(vec![])]),
				3 => sx("ls", vec![Sexp::nat(back), Sexp::list(vec![Sexp::list(vec![Sexp::int(-7), Sexp::nat(fwd)]), Sexp::list(vec![Sexp::int(9), Sexp::nat(back)])])]),
				4 => sx("ts", vec![Sexp::nat(fwd), Sexp::int(-2147483648), Sexp::int(2147483647), Sexp::list(vec![Sexp::nat(back)])]), // high - low overflows
				5 => sx("ts", vec![Sexp::nat(fwd), Sexp::int(-1), Sexp::int(2147483646), Sexp::list(vec![Sexp::nat(back)])]),           // high - low + 1 overflows
				6 => sx("ts", vec![Sexp::nat(fwd), Sexp::int(-1), Sexp::int(2147483645), Sexp::list(vec![Sexp::nat(back)])]),           // largest range without overflow: length mismatch
				_ => sx("ls", vec![Sexp::nat(fwd), Sexp::list(vec![Sexp::list(vec![Sexp::int(3), Sexp::nat(fwd)]), Sexp::list(vec![Sexp::int(3), Sexp::nat(back)])])]), // equal keys
			};
			b.push(sw);
			b.push(nop());
			b.push(ret_insn());
			out.stats.hit(&format!("stream:switch-align pad={pad}"));
			emit_code(out, &b, true);
		}
	}

	// ---- 4. jumps whose offset straddles the i16 range, in methods of 32..64 KiB
	let offs: [i64; 9] = [32766, 32767, 32768, 32769, -32766, -32767, -32768, -32769, -32770];
	let rounds = if thorough { 12 } else { 2 };
	for round in 0..rounds {
		for &off in &offs {
			for class in 0..3 {
				let kind = match class { 0 => r.below(16), 1 => 16, _ => 17 };
				let style = if round == 0 { class } else { r.below(3) };
				let before = *r.pick(&[0usize, 1, 2]);
				let after = if r.chance(1, 3) { r.range(0, 65535 - 32780 - before - 10) } else { r.below(4) };
				let b = boundary(kind, off, style, before, after);
				out.stats.hit(&format!("stream:boundary off={off}"));
				out.stats.hit(&format!("boundary kind={}", if kind < 16 { "if" } else if kind == 16 { "goto" } else { "jsr" }));
				emit_code(out, &b, true);
			}
		}
	}
	// switch arms far away (always 32 bit) and a switch between a jump and its far target (padding moves when the jump grows)
	for pad in 0..4 {
		let mut b = B::new();
		b.filler(pad, 0);
		let j = b.hole();
		b.push(nop());
		let sw = b.hole();
		b.filler(32763 - pad % 2, 1);
		let t = b.push(nop());
		b.push(ret_insn());
		b.fill(j, jump(if pad % 2 == 0 { 3 } else { 16 }, t));
		b.fill(sw, sx("ts", vec![Sexp::nat(t), Sexp::int(0), Sexp::int(1), Sexp::list(vec![Sexp::nat(0), Sexp::nat(t + 1)])]));
		out.stats.hit("stream:switch-behind-growing-jump");
		emit_code(out, &b, true);
	}

	// ---- 5. cascades: rewriting one jump pushes the next one over the limit
	let ks: Vec<usize> = if thorough { vec![1, 2, 3, 5, 8, 13, 40, 100, 200] } else { vec![1, 2, 3, 6] };
	for &k in &ks {
		for _ in 0..(if thorough { 3 } else { 1 }) {
			let b = cascade(r, k);
			out.stats.hit(&format!("stream:cascade k={k}"));
			emit_code(out, &b, true);
		}
	}
	// backward jumps over a region that grows (forward jumps inside get rewritten)
	for &extra in &[0usize, 1, 2, 3, 4, 5] {
		let mut b = B::new();
		let top = b.push(nop());
		let j = b.hole(); // forward jump that will not fit
		b.filler(32766 - 4 - extra, 0);
		b.push(jump(r.below(16), top)); // backward: -(32766 - extra) before J grows
		b.filler(10 + extra, 0);
		let t = b.push(nop());
		b.push(ret_insn());
		b.fill(j, jump(16 + r.below(2), t));
		out.stats.hit("stream:backward-over-growing");
		emit_code(out, &b, true);
	}

	// random large methods: several jumps and switches between segment starts, one span at the i16 limit
	for _ in 0..(if thorough { 1500 } else { 120 }) {
		let b = random_large(r, out);
		let n = b.n;
		if r.chance(1, 3) {
			// with tables reaching over the whole method
			let x = Sexp::list(vec![Sexp::list(vec![Sexp::nat(0), Sexp::nat(n), Sexp::nat(n - 1), Sexp::list(vec![Sexp::str("E")])])]);
			let l = Sexp::list(vec![Sexp::list(vec![Sexp::list(vec![Sexp::nat(0), Sexp::nat(1)]), Sexp::list(vec![Sexp::nat(n - 1), Sexp::nat(9)])])]);
			let v = Sexp::list(vec![Sexp::list(vec![Sexp::list(vec![Sexp::nat(r.below(n)), Sexp::nat(n), Sexp::str("v"), Sexp::list(vec![Sexp::str("I")]), Sexp::list(vec![]), Sexp::nat(2)])])]);
			emit(out, b.insns(), x, l, v, true);
		} else { emit_code(out, &b, true); }
	}

	// ---- 6. constant pool: ldc / ldc_w around index 255, two-slot entries around it
	for variant in 0..(if thorough { 40 } else { 8 }) {
		let mut b = B::new();
		let base = 236 + variant % 8; // the skeleton class and "Code" use a handful of entries
		for i in 0..base { b.push(sx("ldc-int", vec![Sexp::int(1000 + i as i64)])); }
		for i in 0..12 {
			let c = match (variant + i) % 4 {
				0 => sx("ldc-long", vec![Sexp::int(7000 + i as i64)]),
				1 => sx("ldc-int", vec![Sexp::int(5 + i as i64)]),
				2 => sx("ldc-str", vec![Sexp::str(&format!("s{i}"))]),
				_ => sx("ldc-double", vec![Sexp::Atom((4607182418800017408u64 + i as u64).to_string())]),
			};
			b.push(c);
		}
		for i in 0..6 { b.push(sx("ldc-int", vec![Sexp::int(1000 + (i * 41) as i64)])); } // already present: same index again
		out.stats.hit("stream:pool-255");
		out.op("pool-put", &[b.insns()]);
		b.push(ret_insn());
		emit_code(out, &b, true);
	}
	for _ in 0..(if thorough { 2000 } else { 150 }) {
		let n = r.range(1, 12);
		let b = Sexp::list((0..n).map(|_| rand_const(r)).collect());
		out.stats.hit("stream:pool-put-random");
		out.op("pool-put", &[b]);
	}

	// ---- 7. locals around 255 / 65535, iinc constants around the i8 range
	{
		let mut b = B::new();
		for kind in 0..5 { for &i in &IDX { b.push(sx("ld", vec![Sexp::nat(kind), Sexp::nat(i)])); b.push(sx("st", vec![Sexp::nat(kind), Sexp::nat(i)])); } }
		for &i in &IDX { for &v in &[-32768i64, -129, -128, 127, 128, 32767] { b.push(sx("iinc", vec![Sexp::nat(i), Sexp::int(v)])); } b.push(sx("ret", vec![Sexp::nat(i)])); }
		b.push(ret_insn());
		out.stats.hit("stream:locals");
		emit_code(out, &b, true);
	}

	// ---- 7b. invokeinterface: the count operand around the u8 limit (1 + argument slots), odd descriptors
	for &(longs, ints) in &[(0usize, 0usize), (1, 1), (126, 0), (126, 1), (126, 2), (127, 0), (127, 1), (0, 254), (0, 255), (0, 256), (200, 0)] {
		let d = format!("({}{})V", "J".repeat(longs), "I".repeat(ints));
		let mut b = B::new();
		b.push(sx("invi", vec![Sexp::str("I"), Sexp::str("m"), Sexp::str(&d)]));
		b.push(ret_insn());
		out.stats.hit("stream:invokeinterface-count");
		emit_code(out, &b, 1 + 2 * longs + ints <= 255);
	}
	for d in ["()V", "(", "", "V", "()", "(I", "([", "([[", "(L;)V", "(La;", "(La", "([La;[[J)V", "(D[D)V", ")("] {
		let mut b = B::new();
		b.push(sx("invi", vec![Sexp::str("I"), Sexp::str("m"), Sexp::str(d)]));
		b.push(ret_insn());
		out.stats.hit("stream:invokeinterface-descriptor");
		emit_code(out, &b, true);
	}
	// every member instruction once, twice the same reference (hash-consing of Fieldref / Methodref / NameAndType / Class)
	{
		let mut b = B::new();
		for _ in 0..2 {
			for op in 178..=181 { b.push(sx("fld", vec![Sexp::nat(op), Sexp::str("C"), Sexp::str("f"), Sexp::str("I")])); }
			for (op, i) in [(182, false), (183, false), (183, true), (184, false), (184, true)] { b.push(sx("inv", vec![Sexp::nat(op), Sexp::str("C"), Sexp::str("f"), Sexp::str("(I)V"), Sexp::bool(i)])); }
			b.push(sx("invi", vec![Sexp::str("C"), Sexp::str("f"), Sexp::str("(I)V")]));
			for op in [187, 189, 192, 193] { b.push(sx("cls", vec![Sexp::nat(op), Sexp::str("C")])); }
			for t in 4..=11 { b.push(sx("newarray", vec![Sexp::nat(t)])); }
			b.push(sx("mana", vec![Sexp::str("[[C"), Sexp::nat(2)]));
			b.push(sx("ldc-cls", vec![Sexp::str("C")]));
		}
		b.push(ret_insn());
		out.stats.hit("stream:members-all");
		emit_code(out, &b, true);
	}

	// ---- 7c. bootstrap methods: every handle kind, equal and different (handle, arguments) pairs, dynamic constants
	// of one and two slots, constants shared between ldc and bootstrap arguments
	{
		let hs: Vec<Sexp> = [(1usize, false), (2, false), (3, false), (4, false), (5, false), (6, false), (6, true), (7, false), (7, true), (8, false), (9, true)].iter().map(|&(k, i)|
			sx("h", vec![Sexp::nat(k), Sexp::str("B"), Sexp::str("b"), Sexp::str(if k <= 4 { "I" } else { "()V" }), Sexp::bool(i)])).collect();
		let mut b = B::new();
		for round in 0..2 {
			for h in &hs {
				b.push(sx("indy", vec![Sexp::str("r"), Sexp::str("()V"), h.clone(), Sexp::list(vec![sx("ldc-int", vec![Sexp::int(7)])])]));
				if round == 1 { b.push(sx("indy", vec![Sexp::str("r"), Sexp::str("()V"), h.clone(), Sexp::list(vec![sx("ldc-int", vec![Sexp::int(8)])])])); }
				b.push(sx("ldc-mh", vec![h.clone()]));
			}
			b.push(sx("ldc-int", vec![Sexp::int(7)]));
			b.push(sx("ldc-dyn", vec![Sexp::str("k"), Sexp::str("J"), hs[5].clone(), Sexp::list(vec![])]));
			b.push(sx("ldc-dyn", vec![Sexp::str("k"), Sexp::str("D"), hs[5].clone(), Sexp::list(vec![sx("ldc-long", vec![Sexp::int(1)]), sx("ldc-double", vec![Sexp::Atom("0".into())])])]));
			b.push(sx("ldc-dyn", vec![Sexp::str("k"), Sexp::str("I"), hs[5].clone(), Sexp::list(vec![sx("ldc-mt", vec![Sexp::str("()V")]), sx("ldc-mh", vec![hs[0].clone()]), sx("ldc-cls", vec![Sexp::str("B")]), sx("ldc-str", vec![Sexp::str("B")])])]));
		}
		b.push(ret_insn());
		out.stats.hit("stream:bootstrap-all");
		emit_code(out, &b, true);
	}
	for _ in 0..(if thorough { 3000 } else { 150 }) {
		let n = r.range(1, 10);
		let mut b = B::new();
		for _ in 0..n { let i = rand_dynamic(r); b.push(i); }
		b.push(ret_insn());
		out.stats.hit("stream:bootstrap-random");
		emit_code(out, &b, true);
	}

	// ---- 8. code_length limits
	for &(n, last) in &[(0usize, 0usize), (65534, 1), (65535, 0), (65535, 1), (65536, 0), (65533, 3), (65534, 3), (70000, 0), (131072, 1)] {
		let mut b = B::new();
		b.filler(n, 0);
		match last { 1 => { b.push(ret_insn()); } 3 => { b.push(sx("si", vec![Sexp::int(1)])); } _ => {} }
		out.stats.hit(&format!("stream:code-length {}", n + last));
		emit_code(out, &b, n + last <= 65535);
	}
	// the last label of a 65536-byte method is truncated to 0; a conditional jump at the very end cannot be rewritten
	for &(n, cond_target_last) in &[(65533usize, false), (65533, true), (65532, false), (65530, true), (65531, false)] {
		let mut b = B::new();
		b.filler(n, 0);
		let t = if cond_target_last { n + 1 } else { 0 };
		b.push(jump(r.below(16), t));
		out.stats.hit("stream:if-at-the-end");
		emit_code(out, &b, false);
		let mut b = B::new();
		b.filler(n, 0);
		b.push(jump(16, t));
		emit_code(out, &b, false);
	}

	// ---- 9. tables: ranges ending at code_length, empty tables, reversed local variable range, 40 KiB method with tables
	{
		let one = |s: usize, en: usize, d: bool, g: bool| Sexp::list(vec![Sexp::list(vec![Sexp::list(vec![Sexp::nat(s), Sexp::nat(en), Sexp::str("x"),
			if d { Sexp::list(vec![Sexp::str("I")]) } else { e() }, if g { Sexp::list(vec![Sexp::str("TT;")]) } else { e() }, Sexp::nat(1)])])]);
		let mut b = B::new(); b.push(nop()); b.push(ret_insn());
		for (s, en, d, g) in [(0, 2, true, false), (0, 2, false, true), (0, 2, true, true), (0, 2, false, false), (1, 1, true, false), (2, 2, true, false), (1, 0, true, false), (2, 0, false, true), (0, 3, true, false)] {
			out.stats.hit("stream:lv-single");
			emit(out, b.insns(), Sexp::list(vec![Sexp::list(vec![Sexp::nat(0), Sexp::nat(2), Sexp::nat(1), e()])]), Sexp::list(vec![Sexp::list(vec![])]), one(s, en, d, g), s <= en);
		}
		let mut b = B::new();
		let j = b.hole();
		b.filler(40000, 1);
		let t = b.push(nop());
		b.push(ret_insn());
		b.fill(j, jump(5, t));
		let n = b.n;
		out.stats.hit("stream:tables-large");
		emit(out, b.insns(),
			Sexp::list(vec![Sexp::list(vec![Sexp::nat(0), Sexp::nat(n), Sexp::nat(t), Sexp::list(vec![Sexp::str("E")])]), Sexp::list(vec![Sexp::nat(1), Sexp::nat(t), Sexp::nat(0), e()])]),
			Sexp::list(vec![Sexp::list(vec![Sexp::list(vec![Sexp::nat(0), Sexp::nat(1)]), Sexp::list(vec![Sexp::nat(t), Sexp::nat(2)]), Sexp::list(vec![Sexp::nat(n - 1), Sexp::nat(3)])])]),
			Sexp::list(vec![Sexp::list(vec![
				Sexp::list(vec![Sexp::nat(0), Sexp::nat(n), Sexp::str("a"), Sexp::list(vec![Sexp::str("I")]), e(), Sexp::nat(0)]),
				Sexp::list(vec![Sexp::nat(1), Sexp::nat(t), Sexp::str("b"), Sexp::list(vec![Sexp::str("J")]), Sexp::list(vec![Sexp::str("TT;")]), Sexp::nat(300)])])]),
			true);
	}

	// ---- 9b. stack map frames attached to instructions (StackMapTable attribute)
	gen_frames(r, thorough, out);

	// ---- 10. whole classes: hand-assembled with / without frames, and the javac corpus
	for k in 0..4 { for frames in 0..4 {
		let c = mini_class(k, frames);
		out.stats.hit(if frames > 0 { "stream:class-with-frames" } else { "stream:class-without-frames" });
		out.op("cf-write-read", &[hex(&c)]);
		out.op("oracle-cf-write-read", &[Sexp::tag("partial"), hex(&c)]);
		out.op("oracle-cf-write-read", &[Sexp::tag("full"), hex(&c)]);
	} }
	let mut files: Vec<_> = std::fs::read_dir("/verif/corpus/classes").map(|d| d.filter_map(|e| e.ok()).map(|e| e.path()).collect()).unwrap_or_else(|_| Vec::new());
	files.sort();
	for f in files {
		if f.extension().and_then(|x| x.to_str()) != Some("class") { continue }
		let Ok(bytes) = std::fs::read(&f) else { continue };
		out.stats.hit("stream:corpus-class");
		out.op("oracle-cf-write-read", &[Sexp::tag("partial"), hex(&bytes)]);
		// since 6210871 (StackMapTable written) the javac corpus reads back with its frames
		out.op("oracle-cf-write-read", &[Sexp::tag("full"), hex(&bytes)]);
	}

	// ---- 11. the whole writer, byte-exact (`class-write`): javac corpus, hand-assembled classes, random classes with every
	// attribute kind (c01gen) under several encodings
	gen_class_write(r, thorough, out);
}

fn gen_class_write(r: &mut Rng, thorough: bool, out: &mut Out) {
	use fvh::c01gen::{self, Cfg};
	use fvh::c01model::{assemble, Choices};
	for dir in ["/verif/corpus/classes", "/verif/corpus/c20"] {
		let mut files: Vec<_> = std::fs::read_dir(dir).map(|d| d.filter_map(|e| e.ok()).map(|e| e.path()).filter(|p| p.extension().map(|e| e == "class").unwrap_or(false)).collect()).unwrap_or_else(|_| Vec::new());
		files.sort();
		for f in files {
			let Ok(b) = std::fs::read(&f) else { continue };
			out.stats.hit("class-write:corpus");
			out.op("class-write", &[hex(&b)]);
			out.op("oracle-class-write-read", &[hex(&b)]);
		}
	}
	for k in 0..4 { for frames in 0..4 {
		out.stats.hit("class-write:mini");
		out.op("class-write", &[hex(&mini_class(k, frames))]);
	} }
	let n_classes = if thorough { 12000 } else { 500 };
	for i in 0..n_classes {
		let cfg = Cfg::random(r);
		let mut st = fvh::run::Stats::default();
		let g = c01gen::class(r, &cfg, &mut st);
		for (k, v) in st.0 { out.stats.add(&format!("class-write:gen:{k}"), v); }
		for v in 0..(if i % 4 == 0 { 2 } else { 1 }) {
			let ch = if v == 0 && r.chance(1, 3) { Choices::plain() } else { Choices::random(r) };
			let Ok(bytes) = catch_unwind(AssertUnwindSafe(|| assemble(&g, &ch, r))) else { out.stats.hit("class-write:skipped-not-encodable"); continue };
			out.stats.hit("class-write:random-class");
			out.op("class-write", &[hex(&bytes)]);
			out.op("oracle-class-write-read", &[hex(&bytes)]);
		}
		// the same class without method bodies (always inside the proved fragment of `class_write_read_partial`)
		let mut f = g.clone();
		for m in &mut f.methods { m.code = None; }
		let ch = Choices::random(r);
		if let Ok(bytes) = catch_unwind(AssertUnwindSafe(|| assemble(&f, &ch, r))) {
			out.stats.hit("class-write:fragment-class");
			if !f.records.is_empty() { out.stats.hit("class-write:fragment-class:with-Record"); }
			if f.module.is_some() { out.stats.hit("class-write:fragment-class:with-Module"); }
			out.op("class-write", &[hex(&bytes)]);
			out.op("oracle-class-write-read", &[hex(&bytes)]);
		}
	}
	// classes of the fragment with method bodies: stack map frames kept in every second class, `invokedynamic` / `Dynamic` constants kept, unknown
	// attributes of `Code` kept (written since the repair of `write_code`), local variables with descriptor entries first; half of them assembled in source order (then the tables are
	// read back in the order the writer emits them), the others under a random encoding (forms, pool order, attribute order, split tables)
	let n_code = if thorough { 4000 } else { 250 };
	let mut made = 0;
	let mut tries = 0;
	while made < n_code && tries < 20 * n_code {
		tries += 1;
		let cfg = Cfg::random(r);
		let mut st = fvh::run::Stats::default();
		let mut f = c01gen::class(r, &cfg, &mut st);
		if !f.methods.iter().any(|m| m.code.is_some()) { continue }
		if r.chance(1, 2) { f.records.clear(); f.module = None; }
		let (mut n_insns, mut n_branch, mut n_exc, mut n_switch, mut n_pool, mut n_frames, mut n_indy, mut n_condy) = (0u64, 0u64, 0u64, 0u64, 0u64, 0u64, 0u64, 0u64);
		let mut n_unknown = 0u64;
		let keep_frames = r.chance(1, 2);
		for m in &mut f.methods {
			let Some(c) = &mut m.code else { continue };
			for (fr, i) in &mut c.insns {
				if !keep_frames { *fr = None; }
				if fr.is_some() { n_frames += 1; }
				if matches!(i, fvh::c01model::GInsn::InvokeDynamic { .. }) { n_indy += 1; }
				if matches!(i, fvh::c01model::GInsn::Ldc(fvh::c01model::GLoadable::Dyn { .. })) { n_condy += 1; }
				n_insns += 1;
				match i {
					fvh::c01model::GInsn::Branch(..) | fvh::c01model::GInsn::Goto(_) | fvh::c01model::GInsn::Jsr(_) => n_branch += 1,
					fvh::c01model::GInsn::TableSwitch { .. } | fvh::c01model::GInsn::LookupSwitch { .. } => n_switch += 1,
					fvh::c01model::GInsn::Ldc(_) | fvh::c01model::GInsn::Field(..) | fvh::c01model::GInsn::InvokeVirtual(_) | fvh::c01model::GInsn::InvokeSpecial(..)
					| fvh::c01model::GInsn::InvokeStatic(..) | fvh::c01model::GInsn::InvokeInterface(_) | fvh::c01model::GInsn::New(_) | fvh::c01model::GInsn::ANewArray(_)
					| fvh::c01model::GInsn::CheckCast(_) | fvh::c01model::GInsn::InstanceOf(_) | fvh::c01model::GInsn::MultiANewArray(..) => n_pool += 1,
					_ => {}
				}
			}
			n_exc += c.exceptions.len() as u64;
			// every second body without any gets one, so that the written-last loop of `write_code` is exercised in most classes
			if c.attrs.is_empty() && r.chance(1, 2) {
				c.attrs.push((r.pick(&["Foo", "org.example.Custom", "", "LineNumberTabl"]).chars().map(|ch| ch as u32).collect(), (0..r.below(6)).map(|_| r.below(256) as u8).collect()));
			}
			n_unknown += c.attrs.len() as u64;
			if let Some(v) = &mut c.locals {
				v.sort_by_key(|lv| lv.sig.is_some());
				if v.is_empty() { c.locals = None; }
			}
		}
		let plain = r.chance(1, 2);
		let ch = if plain { Choices::plain() } else { Choices::random(r) };
		let Ok(bytes) = catch_unwind(AssertUnwindSafe(|| assemble(&f, &ch, r))) else { continue };
		made += 1;
		out.stats.hit(if plain { "class-write:fragment-code:source-order" } else { "class-write:fragment-code:random-encoding" });
		out.stats.add("class-write:fragment-code:methods-with-code", f.methods.iter().filter(|m| m.code.is_some()).count() as u64);
		out.stats.add("class-write:fragment-code:instructions", n_insns);
		out.stats.add("class-write:fragment-code:jumps", n_branch);
		out.stats.add("class-write:fragment-code:switches", n_switch);
		out.stats.add("class-write:fragment-code:pool-operands", n_pool);
		out.stats.add("class-write:fragment-code:exception-rows", n_exc);
		out.stats.add("class-write:fragment-code:stack-map-frames", n_frames);
		out.stats.add("class-write:fragment-code:invokedynamic", n_indy);
		out.stats.add("class-write:fragment-code:ldc-Dynamic", n_condy);
		out.stats.add("class-write:fragment-code:unknown-Code-attributes", n_unknown);
		if n_unknown > 0 { out.stats.hit("class-write:fragment-code:class-with-unknown-Code-attribute"); }
		out.op("class-write", &[hex(&bytes)]);
		out.op("oracle-class-write-read", &[hex(&bytes)]);
	}
	// classes of the fragment that do have a `Record` (components with Signature / annotations / type annotations / unknown
	// attributes) resp. a `Module` attribute (requires / exports / opens / uses / provides), under random encodings
	let n_each = if thorough { 1500 } else { 80 };
	for want_module in [false, true] {
		let mut made = 0;
		let mut tries = 0;
		while made < n_each && tries < 40 * n_each {
			tries += 1;
			let mut cfg = Cfg::random(r);
			cfg.modern = true;
			let mut st = fvh::run::Stats::default();
			let mut f = c01gen::class(r, &cfg, &mut st);
			if (want_module && f.module.is_none()) || (!want_module && f.records.is_empty()) { continue }
			for m in &mut f.methods { m.code = None; }
			let ch = if r.chance(1, 4) { Choices::plain() } else { Choices::random(r) };
			let Ok(bytes) = catch_unwind(AssertUnwindSafe(|| assemble(&f, &ch, r))) else { continue };
			made += 1;
			out.stats.hit(if want_module { "class-write:fragment-module" } else { "class-write:fragment-record" });
			if want_module {
				let m = f.module.as_ref().unwrap();
				out.stats.add("class-write:fragment-module:requires", m.requires.len() as u64);
				out.stats.add("class-write:fragment-module:exports", m.exports.len() as u64);
				out.stats.add("class-write:fragment-module:opens", m.opens.len() as u64);
				out.stats.add("class-write:fragment-module:uses", m.uses.len() as u64);
				out.stats.add("class-write:fragment-module:provides", m.provides.len() as u64);
			} else {
				out.stats.add("class-write:fragment-record:components", f.records.len() as u64);
				out.stats.add("class-write:fragment-record:component-attributes", f.records.iter().map(|c| c.signature.is_some() as usize + (!c.rva.is_empty()) as usize + (!c.ria.is_empty()) as usize + (!c.rvta.is_empty()) as usize + (!c.rita.is_empty()) as usize + c.attrs.len()).sum::<usize>() as u64);
			}
			out.op("class-write", &[hex(&bytes)]);
			out.op("oracle-class-write-read", &[hex(&bytes)]);
		}
	}
}

fn main() { main_for(&gen, &exec) }
