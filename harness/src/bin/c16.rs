//! C16: parsers fail with an error, never crash, on arbitrary input.
//!
//! `exec` relays every request line to a long-lived **child** (`c16 child`, started through `sh -c 'ulimit …'` with an
//! address-space and a stack limit).  The child runs the parser named by the op under `catch_unwind` with a panic hook
//! that records the location; the location is mapped to a *site id* of `lean/FeatherModel/Model/TotalSites.lean` by
//! looking at the text of the source line (robust against line drift).  If the child dies (stack overflow = SIGSEGV,
//! allocation failure = SIGABRT) the parent answers `panic stack` / `panic alloc` and restarts the child.
//!
//! Ops (all answered `ok …` | `err e` | `panic <site>`):
//!   classread x<class file>          duke::read_class
//!   code x<Code attribute body>      duke::read_class on a fixed wrapper class around the body (pool = `wrapper_pool`)
//!   anno x<element_value>            the same with an AnnotationDefault attribute; `ok <nesting depth>`
//!   dyn (<args of bsm 0>) (<args of bsm 1>) …   constant k+1 = Dynamic with bootstrap method k; argument `n` = Dynamic
//!                                    constant n, `i` = an Integer; the method does `ldc Dynamic_0`; `ok <expanded size>`
//!   argsize #<descriptor>            read + write of a wrapper whose code is `invokeinterface m:<descriptor>`
//!   tiny <N> x<text> | tinydiff x<text> | enigma x<text> | nests x<text>
//!   desc-field #s | desc-method #s | desc-return #s
//!   oracle-no-panic <op> <args…>     `ok pass` | `ok out-of-domain` (a site listed as open: only S9) | `ok (fail <where>)`
//!   oracle-write-no-panic x<class>   whatever read_class accepts, write_class handles without panicking
//!   oracle-alloc code x<body>        largest single allocation requested while reading <= 64 * |body| + 2^24
//!   labels-full <k> | anno-nest <d> | dyn-chain <k> | writer-grow <nops> <nitf>    compact forms of the large witnesses
use std::io::{BufRead, BufReader, Cursor, Write};
use std::panic::{catch_unwind, AssertUnwindSafe};
use std::process::{Child, ChildStdin, ChildStdout, Command, Stdio};
use std::sync::Mutex;
use std::sync::atomic::{AtomicUsize, Ordering};
use std::cell::RefCell;
use duke::tree::annotation::ElementValue;
use duke::tree::class::ClassFile;
use duke::tree::field::FieldDescriptor;
use duke::tree::method::MethodDescriptor;
use duke::tree::descriptor::ReturnDescriptor;
use duke::tree::method::code::{Instruction, Loadable};
use fvh::rng::Rng;
use fvh::run::{main_for, Ans, Out, Tier};
use fvh::sexp::{parse_line, Sexp};
use fvh::c01gen;
use fvh::c01model::{assemble, Choices};
use quill::tree::mappings::Mappings;

// ============================================================================================ allocation accounting

struct Counting;
static MAX_REQ: AtomicUsize = AtomicUsize::new(0);
unsafe impl std::alloc::GlobalAlloc for Counting {
	unsafe fn alloc(&self, l: std::alloc::Layout) -> *mut u8 { MAX_REQ.fetch_max(l.size(), Ordering::Relaxed); unsafe { std::alloc::System.alloc(l) } }
	unsafe fn dealloc(&self, p: *mut u8, l: std::alloc::Layout) { unsafe { std::alloc::System.dealloc(p, l) } }
	unsafe fn alloc_zeroed(&self, l: std::alloc::Layout) -> *mut u8 { MAX_REQ.fetch_max(l.size(), Ordering::Relaxed); unsafe { std::alloc::System.alloc_zeroed(l) } }
	unsafe fn realloc(&self, p: *mut u8, l: std::alloc::Layout, n: usize) -> *mut u8 { MAX_REQ.fetch_max(n, Ordering::Relaxed); unsafe { std::alloc::System.realloc(p, l, n) } }
}
#[global_allocator]
static GLOBAL: Counting = Counting;

// ============================================================================================ sites

/// mirror of `Total.Sites.table` (id, file suffix, text that occurs on the panicking source line)
const SITES: &[(u32, &str, &str)] = &[
	(1, "duke/src/class_reader/labels.rs", "start_pc + length"),
	(2, "duke/src/class_reader/labels.rs", "self.max_id += 1"),
	(3, "duke/src/class_reader.rs", "offset += offset_delta"),
	(7, "duke/src/tree/descriptor.rs", "size += 2"),
	(8, "duke/src/tree/descriptor.rs", "size += 1"),
	(9, "duke/src/simple_class_writer.rs", "opcode_pos + 1 + 2"),
	(20, "duke/src/class_reader.rs", "r.get_ref()[(r.position() as usize)..]"),
	(23, "duke/src/class_reader.rs", "_ => unreachable!()"),
	(21, "duke/src/class_reader.rs", "opcode - opcode::ILOAD_0"),
	(22, "duke/src/class_reader.rs", "opcode::ILOAD + (shifted >> 2)"),
	(24, "duke/src/class_reader.rs", "opcode - opcode::ISTORE_0"),
	(25, "duke/src/class_reader.rs", "opcode::ISTORE + (shifted >> 2)"),
	(27, "duke/src/class_reader.rs", "(frame_type - 64) as u16"),
	(28, "duke/src/class_reader.rs", "251 - frame_type"),
	(29, "duke/src/class_reader.rs", "frame_type - 251"),
	(31, "duke/src/class_reader.rs", "checked that it's Some above"),
	(33, "duke/src/class_reader.rs", "let mut table = Vec::with_capacity(n as usize)"),
	(34, "duke/src/class_reader.rs", "let mut pairs = Vec::with_capacity(n as usize)"),
	(35, "quill/src/lines.rs", "let line = &line[idents..]"),
	(36, "quill/src/enigma_file.rs", "let line = &line[idents..]"),
	(37, "duke/src/tree/descriptor.rs", "array_dimension += 1"),
	(38, "duke/src/tree/descriptor.rs", "assert!(!class_name.as_inner().starts_with('['))"),
	(39, "duke/src/simple_class_writer/labels.rs", "Ok((start, end - start))"),
];
/// sites the unchanged tree can reach (the proved domain of the `no_panic_*_partial` theorems excludes them)
const OPEN_SITES: &[&str] = &[];

thread_local! { static LAST: RefCell<String> = const { RefCell::new(String::new()) }; }

fn site_of(file: &str, line: u32) -> String {
	let rel = file.strip_prefix("/repo/").unwrap_or(file);
	let text = std::fs::read_to_string(file).ok().and_then(|s| s.lines().nth(line as usize - 1).map(|l| l.to_owned())).unwrap_or_default();
	for (id, f, needle) in SITES {
		if rel.ends_with(f) && text.contains(needle) { return format!("S{id}"); }
	}
	format!("{rel}:{line}")
}

fn install_hook() {
	std::panic::set_hook(Box::new(|info| {
		let loc = info.location().map(|l| site_of(l.file(), l.line())).unwrap_or_else(|| "unknown".into());
		LAST.with(|l| *l.borrow_mut() = loc);
	}));
}

#[derive(Debug, Clone, PartialEq)]
enum Outc { Ok(Sexp), Err, Panic(String) }

fn guarded(f: impl FnOnce() -> Result<Sexp, ()>) -> Outc {
	match catch_unwind(AssertUnwindSafe(f)) {
		Ok(Ok(s)) => Outc::Ok(s),
		Ok(Err(())) => Outc::Err,
		Err(_) => Outc::Panic(LAST.with(|l| l.borrow().clone())),
	}
}
fn unit() -> Sexp { Sexp::tag("u") }

// ============================================================================================ wrapper class

fn u16be(v: &mut Vec<u8>, x: usize) { v.extend((x as u16).to_be_bytes()); }
fn u32be(v: &mut Vec<u8>, x: usize) { v.extend((x as u32).to_be_bytes()); }
fn utf8(v: &mut Vec<u8>, s: &[u8]) { v.push(1); u16be(v, s.len()); v.extend_from_slice(s); }

/// The fixed constant pool of the wrapper classes (mirrored by `Total.Wrap.pool` in Lean); returns (bytes, count).
fn wrapper_pool(extra: &[Vec<u8>]) -> (Vec<u8>, usize) {
	let mut p = Vec::new();
	utf8(&mut p, b"A");                               // 1
	p.extend([7, 0, 1]);                              // 2 Class A
	utf8(&mut p, b"java/lang/Object");                // 3
	p.extend([7, 0, 3]);                              // 4 Class Object
	utf8(&mut p, b"m");                               // 5
	utf8(&mut p, b"()V");                             // 6
	utf8(&mut p, b"Code");                            // 7
	p.extend([12, 0, 5, 0, 6]);                       // 8 NameAndType m ()V
	utf8(&mut p, b"f");                               // 9
	utf8(&mut p, b"I");                               // 10
	p.extend([12, 0, 9, 0, 10]);                      // 11 NameAndType f I
	p.extend([9, 0, 2, 0, 11]);                       // 12 FieldRef
	p.extend([10, 0, 2, 0, 8]);                       // 13 MethodRef
	p.extend([11, 0, 2, 0, 8]);                       // 14 InterfaceMethodRef
	p.extend([3, 0, 0, 0, 7]);                        // 15 Integer
	p.extend([4, 0x3f, 0x80, 0, 0]);                  // 16 Float
	p.extend([5, 0, 0, 0, 0, 0, 0, 0, 5]);            // 17 Long (18)
	p.extend([6, 0x40, 0, 0, 0, 0, 0, 0, 0]);         // 19 Double (20)
	p.extend([8, 0, 1]);                              // 21 String "A"
	p.extend([15, 6, 0, 13]);                         // 22 MethodHandle invokeStatic #13
	p.extend([16, 0, 6]);                             // 23 MethodType ()V
	utf8(&mut p, b"StackMapTable");                   // 24
	utf8(&mut p, b"LineNumberTable");                 // 25
	utf8(&mut p, b"LocalVariableTable");              // 26
	utf8(&mut p, b"LocalVariableTypeTable");          // 27
	utf8(&mut p, b"AnnotationDefault");               // 28
	utf8(&mut p, b"LA;");                             // 29
	utf8(&mut p, b"StackMap");                        // 30
	utf8(&mut p, b"RuntimeVisibleTypeAnnotations");   // 31
	utf8(&mut p, b"x");                               // 32
	utf8(&mut p, b"RuntimeInvisibleTypeAnnotations"); // 33
	utf8(&mut p, b"BootstrapMethods");                // 34
	let mut count = 35;
	for e in extra { p.extend_from_slice(e); count += 1; }
	(p, count)
}

/// class A extends Object { void m() <one attribute named pool[name_idx] with `body`> } (+ class attributes)
fn wrapper_class(extra_pool: &[Vec<u8>], method_attr: Option<(usize, &[u8])>, class_attrs: &[(usize, Vec<u8>)]) -> Vec<u8> {
	let mut c = vec![0xca, 0xfe, 0xba, 0xbe, 0, 0, 0, 52];
	let (pool, count) = wrapper_pool(extra_pool);
	u16be(&mut c, count);
	c.extend(pool);
	c.extend([0, 0x21, 0, 2, 0, 4, 0, 0]); // access, this, super, interfaces
	c.extend([0, 0]);                      // fields
	c.extend([0, 1, 0, 1, 0, 5, 0, 6]);    // one method: public m ()V
	match method_attr {
		Some((name, body)) => { c.extend([0, 1]); u16be(&mut c, name); u32be(&mut c, body.len()); c.extend_from_slice(body); }
		None => c.extend([0, 0]),
	}
	u16be(&mut c, class_attrs.len());
	for (name, body) in class_attrs { u16be(&mut c, *name); u32be(&mut c, body.len()); c.extend_from_slice(body); }
	c
}

fn code_body(bytecode: &[u8]) -> Vec<u8> {
	let mut b = vec![0, 4, 0, 4];
	u32be(&mut b, bytecode.len());
	b.extend_from_slice(bytecode);
	b.extend([0, 0, 0, 0]);
	b
}

// ============================================================================================ parser runners

fn read_class_bytes(b: &[u8]) -> Result<ClassFile, ()> { duke::read_class(&mut Cursor::new(b)).map_err(|_| ()) }

fn run_classread(b: &[u8]) -> Outc { guarded(|| read_class_bytes(b).map(|_| unit())) }

fn elem_depth(e: &ElementValue) -> usize {
	match e {
		ElementValue::ArrayType(v) => 1 + v.iter().map(elem_depth).max().unwrap_or(0),
		ElementValue::AnnotationInterface(a) => 1 + a.element_value_pairs.iter().map(|p| elem_depth(&p.value)).max().unwrap_or(0),
		_ => 1,
	}
}

fn run_anno(body: &[u8]) -> Outc {
	let c = wrapper_class(&[], Some((28, body)), &[]);
	guarded(|| {
		let cf = read_class_bytes(&c)?;
		let d = cf.methods.first().and_then(|m| m.annotation_default.as_ref()).map(elem_depth).unwrap_or(0);
		Ok(Sexp::nat(d))
	})
}

fn run_code(body: &[u8]) -> Outc {
	let c = wrapper_class(&[], Some((7, body)), &[]);
	guarded(|| read_class_bytes(&c).map(|_| unit()))
}

fn loadable_size(l: &Loadable) -> usize {
	match l { Loadable::Dynamic(d) => 1 + d.arguments.iter().map(loadable_size).sum::<usize>(), _ => 1 }
}

/// `dyn` wrapper: pool 35+k = Dynamic(bsm k, NameAndType #11); bsm k = handle #22 with the given arguments
fn dyn_class(spec: &[Sexp]) -> Result<Vec<u8>, String> {
	let k = spec.len();
	let extra: Vec<Vec<u8>> = (0..k).map(|i| { let mut e = vec![17]; u16be(&mut e, i); u16be(&mut e, 11); e }).collect();
	let mut bsm = Vec::new();
	u16be(&mut bsm, k);
	for args in spec {
		let args = args.as_list()?;
		u16be(&mut bsm, 22);
		u16be(&mut bsm, args.len());
		for a in args {
			match a.as_atom()? { "i" => u16be(&mut bsm, 15), n => { let n: usize = n.parse().map_err(|_| "bad arg")?; u16be(&mut bsm, 35 + n); } }
		}
	}
	let idx = 35usize;
	let code = code_body(&[0x13, (idx >> 8) as u8, idx as u8, 0x57, 0xb1]); // ldc_w #35; pop; return
	Ok(wrapper_class(&extra, Some((7, &code)), &[(34, bsm)]))
}

fn run_dyn(spec: &[Sexp]) -> Result<Outc, String> {
	let c = dyn_class(spec)?;
	Ok(guarded(|| {
		let cf = read_class_bytes(&c)?;
		let code = cf.methods.first().and_then(|m| m.code.as_ref()).ok_or(())?;
		let n = match code.instructions.first().map(|i| &i.instruction) { Some(Instruction::Ldc(l)) => loadable_size(l), _ => 0 };
		Ok(Sexp::nat(n))
	}))
}

fn mutf8(cps: &[u32]) -> Vec<u8> { fvh::c01model::mutf8_encode(&cps.to_vec()) }

fn run_argsize(desc: &[u32]) -> Outc {
	// pool 35 = Utf8 desc, 36 = NameAndType m desc, 37 = InterfaceMethodRef A.m desc
	let mut e0 = Vec::new(); utf8(&mut e0, &mutf8(desc));
	let extra = vec![e0, vec![12, 0, 5, 0, 35], vec![11, 0, 2, 0, 36]];
	let code = code_body(&[0xb9, 0, 37, 1, 0, 0xb1]);
	let c = wrapper_class(&extra, Some((7, &code)), &[]);
	guarded(|| {
		let cf = read_class_bytes(&c)?;
		let mut out = Vec::new();
		duke::write_class(&mut out, &cf).map_err(|_| ())?;
		Ok(unit())
	})
}

/// 65535 bytes of code, an exception range 0..65535 (labels 0 and 65535), line numbers at 1..=k: k + 2 labels
fn labels_full_body(k: usize) -> Vec<u8> {
	let mut b = vec![0, 1, 0, 1];
	u32be(&mut b, 65535);
	b.extend(std::iter::repeat(0u8).take(65534)); b.push(0xb1);
	b.extend([0, 1, 0, 0, 255, 255, 0, 0, 0, 0]);
	b.extend([0, 1]); u16be(&mut b, 25); u32be(&mut b, 2 + 4 * k);
	u16be(&mut b, k);
	for pc in 1..=k { u16be(&mut b, pc); b.extend([0, 1]); }
	b
}

/// class A implements I0..I{nitf-1} { void m() { nop*nops; ldc <Integer>; ifeq -32768 } }: read, then write
fn run_writer_grow(nops: usize, nitf: usize) -> Outc {
	if nitf > 1000 || nops > 70000 { return Outc::Err; }
	let mut pool: Vec<Vec<u8>> = Vec::new();
	let mut add = |e: Vec<u8>| -> usize { pool.push(e); pool.len() };
	let mk_utf8 = |s: &[u8]| { let mut v = Vec::new(); utf8(&mut v, s); v };
	let mk_cls = |i: usize| { let mut v = vec![7]; u16be(&mut v, i); v };
	let n_a = add(mk_utf8(b"A")); let c_a = add(mk_cls(n_a));
	let n_o = add(mk_utf8(b"java/lang/Object")); let c_o = add(mk_cls(n_o));
	let n_m = add(mk_utf8(b"m")); let n_d = add(mk_utf8(b"()V")); let n_code = add(mk_utf8(b"Code"));
	let int = add(vec![3, 0, 0, 0x30, 0x39]);
	let mut itfs = Vec::new();
	for i in 0..nitf { let n = add(mk_utf8(format!("I{i}").as_bytes())); itfs.push(add(mk_cls(n))); }
	let mut code = vec![0u8; nops];
	code.extend([0x12, int as u8, 0x99, 0x80, 0x00]);
	let mut c = vec![0xca, 0xfe, 0xba, 0xbe, 0, 0, 0, 52];
	u16be(&mut c, pool.len() + 1);
	for e in &pool { c.extend_from_slice(e); }
	c.extend([0, 0x21]); u16be(&mut c, c_a); u16be(&mut c, c_o); u16be(&mut c, itfs.len());
	for i in &itfs { u16be(&mut c, *i); }
	c.extend([0, 0, 0, 1, 0, 1]); u16be(&mut c, n_m); u16be(&mut c, n_d); c.extend([0, 1]); u16be(&mut c, n_code);
	u32be(&mut c, 12 + code.len()); c.extend([0, 2, 0, 1]); u32be(&mut c, code.len()); c.extend(code); c.extend([0, 0, 0, 0]);
	c.extend([0, 0]);
	guarded(|| {
		let cf = read_class_bytes(&c)?;
		let mut out = Vec::new();
		duke::write_class(&mut out, &cf).map_err(|_| ())?;
		Ok(unit())
	})
}

fn text_of(b: &[u8]) -> &[u8] { b }

fn run_tiny(n: usize, b: &[u8]) -> Outc {
	struct A; struct B; struct C; struct D;
	guarded(|| match n {
		2 => quill::tiny_v2::read::<2, (A, B)>(text_of(b)).map(|_| unit()).map_err(|_| ()),
		3 => quill::tiny_v2::read::<3, (A, B, C)>(text_of(b)).map(|_| unit()).map_err(|_| ()),
		4 => quill::tiny_v2::read::<4, (A, B, C, D)>(text_of(b)).map(|_| unit()).map_err(|_| ()),
		_ => Err(()),
	})
}

fn run_tinydiff(b: &[u8]) -> Outc {
	let dir = std::env::var("VERIF_SCRATCH").unwrap_or_else(|_| "/var/tmp".into());
	let path = std::path::Path::new(&dir).join(format!("fvh-c16-{}.tinydiff", std::process::id()));
	if std::fs::write(&path, b).is_err() { return Outc::Panic("scratch".into()); }
	let r = guarded(|| quill::tiny_v2_diff::read_file(&path).map(|_| unit()).map_err(|_| ()));
	let _ = std::fs::remove_file(&path);
	r
}

fn run_enigma(b: &[u8]) -> Outc {
	struct A; struct B;
	guarded(|| {
		let mut m: Mappings<2, (A, B)> = Mappings::from_namespaces(["a", "b"]).map_err(|_| ())?;
		quill::enigma_file::read_into(text_of(b), &mut m).map(|_| unit()).map_err(|_| ())
	})
}

fn run_nests(b: &[u8]) -> Outc {
	struct A;
	let v = b.to_vec();
	guarded(|| dukenest::nest::Nests::<A>::read(&v).map(|_| unit()).map_err(|_| ()))
}

fn run_desc(kind: &str, s: &Sexp) -> Result<Outc, String> {
	let js = s.as_jstring()?;
	Ok(guarded(|| match kind {
		"desc-field" => FieldDescriptor::try_from(js).map_err(|_| ())?.parse().map(|_| unit()).map_err(|_| ()),
		"desc-method" => MethodDescriptor::try_from(js).map_err(|_| ())?.parse().map(|_| unit()).map_err(|_| ()),
		_ => ReturnDescriptor::try_from(js).map_err(|_| ())?.parse().map(|_| unit()).map_err(|_| ()),
	}))
}

fn run_plain(op: &str, args: &[Sexp]) -> Result<Outc, String> {
	Ok(match (op, args) {
		("classread", [b]) => run_classread(&b.as_bytes()?),
		("code", [b]) => run_code(&b.as_bytes()?),
		("anno", [b]) => run_anno(&b.as_bytes()?),
		("dyn", spec) => run_dyn(spec)?,
		("argsize", [d]) => run_argsize(&d.as_cps()?),
		("labels-full", [k]) => run_code(&labels_full_body(k.as_nat()?)),
		("anno-nest", [d]) => { let d = d.as_nat()?; let mut b = Vec::with_capacity(3 * d + 3); for _ in 0..d { b.extend([b'[', 0, 1]); } b.extend([b'I', 0, 15]); run_anno(&b) }
		("dyn-chain", [k]) => { let k = k.as_nat()?; let spec: Vec<Sexp> = (0..k).map(|i| if i + 1 < k { Sexp::list(vec![Sexp::nat(i + 1)]) } else { Sexp::list(vec![]) }).collect(); run_dyn(&spec)? }
		("writer-grow", [a, b]) => run_writer_grow(a.as_nat()?, b.as_nat()?),
		("tiny", [n, b]) => run_tiny(n.as_nat()?, &b.as_bytes()?),
		("tinydiff", [b]) => run_tinydiff(&b.as_bytes()?),
		("enigma", [b]) => run_enigma(&b.as_bytes()?),
		("nests", [b]) => run_nests(&b.as_bytes()?),
		("desc-field" | "desc-method" | "desc-return", [s]) => run_desc(op, s)?,
		// compact form of a descriptor with `n` array dimensions: `[`*n I  /  ( `[`*n I ) V  /  `[`*n I
		("desc-deep", [Sexp::Atom(kind), n]) => {
			let n = n.as_nat()?;
			if n > 4_000_000 { return Err("too deep".into()); }
			let mut cps: Vec<u32> = Vec::with_capacity(n + 4);
			if kind == "desc-method" { cps.push('(' as u32); }
			cps.extend(std::iter::repeat('[' as u32).take(n));
			cps.push('I' as u32);
			if kind == "desc-method" { cps.push(')' as u32); cps.push('V' as u32); }
			if !matches!(kind.as_str(), "desc-field" | "desc-method" | "desc-return") { return Err("kind".into()); }
			run_desc(kind, &Sexp::cps(&cps))?
		}
		_ => return Err(format!("unknown op {op}")),
	})
}

fn outc_ans(o: Outc) -> Ans {
	match o { Outc::Ok(s) => Ans::Ok(s), Outc::Err => Ans::err(), Outc::Panic(p) => Ans::Panic(p) }
}

// ---- domain predicate of the writer oracle (mirrors `Total.writeDomain`)

/// every file the reader accepts (the restriction to files of at most 24000 bytes went with the repair of S9, 136eeb3)
fn write_domain(_b: &[u8]) -> bool { true }

fn exec_child(op: &str, args: &[Sexp]) -> Ans {
	match (op, args) {
		("oracle-no-panic", [Sexp::Atom(inner), rest @ ..]) => {
			match run_plain(inner, rest) {
				Ok(Outc::Panic(p)) => if OPEN_SITES.contains(&p.as_str()) { Ans::out_of_domain() } else { Ans::fail(&p) },
				Ok(_) => Ans::pass(),
				Err(e) => Ans::BadOp(e),
			}
		}
		// `dyn_nodes_bounded`: one resolved loadable constant consists of at most 65536 constants (MAX_BOOTSTRAP_ARGUMENT_CONSTANTS)
		("oracle-dyn-bounded", spec) => match run_dyn(spec) {
			Ok(Outc::Ok(n)) => match n.as_nat() { Ok(n) if n <= 65536 => Ans::pass(), Ok(_) => Ans::fail("expansion"), Err(e) => Ans::BadOp(e) },
			Ok(Outc::Panic(p)) => Ans::fail(&p),
			Ok(Outc::Err) => Ans::pass(),
			Err(e) => Ans::BadOp(e),
		},
		("readwrite", [b]) => {
			let Ok(b) = b.as_bytes() else { return Ans::BadOp("bytes".into()) };
			outc_ans(guarded(|| {
				let cf = read_class_bytes(&b)?;
				let mut out = Vec::new();
				duke::write_class(&mut out, &cf).map_err(|_| ())?;
				Ok(unit())
			}))
		}
		("oracle-write-no-panic", [b]) => {
			let Ok(b) = b.as_bytes() else { return Ans::BadOp("bytes".into()) };
			if !write_domain(&b) { return Ans::out_of_domain(); }
			match guarded(|| read_class_bytes(&b).map(|_| unit())) {
				Outc::Ok(_) => {}
				// a reader that panics is itself the violation, never a reason to leave the domain (audit rule (ii), H3)
				Outc::Panic(p) => return Ans::fail(&p),
				_ => return Ans::out_of_domain(),
			}
			let r = guarded(|| {
				let cf = read_class_bytes(&b)?;
				let mut out = Vec::new();
				duke::write_class(&mut out, &cf).map_err(|_| ())?;
				Ok(unit())
			});
			match r { Outc::Panic(p) => Ans::fail(&p), _ => Ans::pass() }
		}
		("oracle-alloc", [Sexp::Atom(inner), b]) if inner == "code" => {
			let Ok(b) = b.as_bytes() else { return Ans::BadOp("bytes".into()) };
			MAX_REQ.store(0, Ordering::Relaxed);
			let r = run_code(&b);
			let m = MAX_REQ.load(Ordering::Relaxed);
			if let Outc::Panic(p) = &r { if !OPEN_SITES.contains(&p.as_str()) { return Ans::fail(p); } }
			// `alloc_bound_code`: since 8349742 no request exceeds what is present (former site 6)
			if m <= 64 * b.len() + (1 << 24) { Ans::pass() } else { Ans::fail("alloc") }
		}
		_ => match run_plain(op, args) { Ok(o) => outc_ans(o), Err(e) => Ans::BadOp(e) },
	}
}

// ============================================================================================ parent <-> child

struct Kid { child: Child, stdin: ChildStdin, stdout: BufReader<ChildStdout> }
static KID: Mutex<Option<Kid>> = Mutex::new(None);

fn spawn_kid() -> Kid {
	let exe = std::env::current_exe().expect("exe");
	// stack 8 MiB (the default of a main thread); C16_VLIMIT_KB=<n> additionally limits the address space (a 4 GiB
	// `vec![0; n]` then aborts the child instead of being satisfied lazily by the kernel)
	let vlimit = std::env::var("C16_VLIMIT_KB").ok().map(|v| format!("ulimit -v {v}; ")).unwrap_or_default();
	let mut child = Command::new("sh").arg("-c").arg(format!("{vlimit}ulimit -s 8192; exec \"$0\" child")).arg(exe)
		.stdin(Stdio::piped()).stdout(Stdio::piped()).stderr(Stdio::piped()).spawn().expect("spawn child");
	let stdin = child.stdin.take().expect("stdin");
	let stdout = BufReader::new(child.stdout.take().expect("stdout"));
	Kid { child, stdin, stdout }
}

/// the request the child is working on: (pid, deadline). A watchdog thread kills a child that does not answer in time:
/// "does not loop forever" is part of the property, and a parser that spins must become a reported failure (`hang`),
/// not a check that never returns (seed C16-J: an iterator that yields the same error forever)
static PENDING: Mutex<Option<(u32, std::time::Instant)>> = Mutex::new(None);
static HUNG: std::sync::atomic::AtomicBool = std::sync::atomic::AtomicBool::new(false);
static WATCHDOG: std::sync::Once = std::sync::Once::new();

static HANGS: std::sync::atomic::AtomicUsize = std::sync::atomic::AtomicUsize::new(0);

/// 30 s per request (`C16_HANG_SECS`); once three requests did not come back the verdict is in and the remaining requests
/// get 1 s each (the verdict no longer depends on them), so that a parser that spins on a whole family of inputs does not cost half a minute per member
fn hang_limit() -> std::time::Duration {
	let base = std::env::var("C16_HANG_SECS").ok().and_then(|v| v.parse().ok()).unwrap_or(30);
	std::time::Duration::from_secs(if HANGS.load(std::sync::atomic::Ordering::SeqCst) >= 3 { base.min(1) } else { base })
}

fn start_watchdog() {
	WATCHDOG.call_once(|| {
		std::thread::spawn(|| loop {
			std::thread::sleep(std::time::Duration::from_millis(100));
			let due = { let p = PENDING.lock().unwrap_or_else(|e| e.into_inner()); matches!(*p, Some((_, d)) if std::time::Instant::now() > d).then(|| p.map(|x| x.0)).flatten() };
			if let Some(pid) = due {
				HUNG.store(true, std::sync::atomic::Ordering::SeqCst);
				HANGS.fetch_add(1, std::sync::atomic::Ordering::SeqCst);
				let _ = Command::new("kill").arg("-9").arg(pid.to_string()).status();
				*PENDING.lock().unwrap_or_else(|e| e.into_inner()) = None;
			}
		});
	});
}

fn relay(line: &str) -> String {
	start_watchdog();
	let mut guard = KID.lock().unwrap_or_else(|e| e.into_inner());
	if guard.is_none() { *guard = Some(spawn_kid()); }
	let kid = guard.as_mut().expect("kid");
	HUNG.store(false, std::sync::atomic::Ordering::SeqCst);
	*PENDING.lock().unwrap_or_else(|e| e.into_inner()) = Some((kid.child.id(), std::time::Instant::now() + hang_limit()));
	let sent = writeln!(kid.stdin, "{line}").and_then(|_| kid.stdin.flush());
	let mut ans = String::new();
	let got = if sent.is_ok() { kid.stdout.read_line(&mut ans).unwrap_or(0) } else { 0 };
	*PENDING.lock().unwrap_or_else(|e| e.into_inner()) = None;
	if got == 0 {
		// the child died on this request
		use std::os::unix::process::ExitStatusExt;
		use std::io::Read;
		let status = kid.child.wait().ok();
		let mut msg = String::new();
		if let Some(mut e) = kid.child.stderr.take() { let _ = e.read_to_string(&mut msg); }
		*guard = None;
		let sig = status.and_then(|s| s.signal());
		let what = if HUNG.swap(false, std::sync::atomic::Ordering::SeqCst) { "hang".to_owned() }
			else if msg.contains("overflowed its stack") || matches!(sig, Some(11) | Some(7)) { "stack".to_owned() }
			else if msg.contains("memory allocation of") { "alloc".to_owned() }
			else { match sig { Some(s) => format!("signal-{s}"), None => format!("exit-{:?}", status.and_then(|s| s.code())) } };
		let is_oracle = line.starts_with("oracle-");
		return if is_oracle {
			if OPEN_SITES.contains(&what.as_str()) { "ok out-of-domain".into() } else { format!("ok (fail {what})") }
		} else { format!("panic {what}") };
	}
	ans.trim_end_matches('\n').to_owned()
}

fn exec_parent(op: &str, args: &[Sexp]) -> Ans {
	let mut line = String::from(op);
	for a in args { line.push(' '); line.push_str(&a.to_string()); }
	let ans = relay(&line);
	// re-wrap the child's answer line
	if let Some(r) = ans.strip_prefix("ok ") { match parse_line(r) { Ok(mut v) if v.len() == 1 => Ans::Ok(v.remove(0)), _ => Ans::BadOp(ans) } }
	else if let Some(r) = ans.strip_prefix("err ") { Ans::Err(r.to_owned()) }
	else if let Some(r) = ans.strip_prefix("panic ") { Ans::Panic(r.to_owned()) }
	else { Ans::BadOp(ans) }
}

fn child_main() {
	install_hook();
	let stdin = std::io::stdin();
	let stdout = std::io::stdout();
	for line in stdin.lock().lines() {
		let Ok(line) = line else { break };
		let a = fvh::run::answer_line(&exec_child, &line);
		let mut w = stdout.lock();
		let _ = writeln!(w, "{a}");
		let _ = w.flush();
	}
}

// ============================================================================================ generators

fn hexop(out: &mut Out, op: &str, b: &[u8]) { out.op(op, &[Sexp::bytes(b)]); }
fn oracle(out: &mut Out, inner: &str, args: &[Sexp]) {
	let mut v = vec![Sexp::tag(inner)];
	v.extend_from_slice(args);
	out.op("oracle-no-panic", &v);
}

/// offsets of every count / length / index / offset field of a class file: (offset, width, kind)
fn locate_fields(b: &[u8]) -> Vec<(usize, usize, &'static str)> {
	let mut f = Vec::new();
	let rd16 = |i: usize| -> Option<usize> { Some(u16::from_be_bytes([*b.get(i)?, *b.get(i + 1)?]) as usize) };
	let rd32 = |i: usize| -> Option<usize> { Some(u32::from_be_bytes([*b.get(i)?, *b.get(i + 1)?, *b.get(i + 2)?, *b.get(i + 3)?]) as usize) };
	let mut names: Vec<Option<Vec<u8>>> = vec![None];
	let walk = || -> Option<()> {
		f.push((4, 2, "minor")); f.push((6, 2, "major")); f.push((8, 2, "pool-count"));
		let count = rd16(8)?;
		let mut i = 10;
		while names.len() < count {
			let tag = *b.get(i)?;
			f.push((i, 1, "pool-tag"));
			i += 1;
			match tag {
				1 => { let l = rd16(i)?; f.push((i, 2, "utf8-len")); names.push(Some(b.get(i + 2..i + 2 + l)?.to_vec())); i += 2 + l; }
				3 | 4 => { names.push(None); i += 4; }
				5 | 6 => { names.push(None); names.push(None); i += 8; }
				7 | 8 | 16 | 19 | 20 => { f.push((i, 2, "pool-index")); names.push(None); i += 2; }
				9 | 10 | 11 | 12 | 17 | 18 => { f.push((i, 2, "pool-index")); f.push((i + 2, 2, "pool-index")); names.push(None); i += 4; }
				15 => { f.push((i, 1, "handle-kind")); f.push((i + 1, 2, "pool-index")); names.push(None); i += 3; }
				_ => return None,
			}
		}
		f.push((i + 2, 2, "this")); f.push((i + 4, 2, "super")); f.push((i + 6, 2, "itf-count"));
		let n = rd16(i + 6)?;
		i += 8;
		for _ in 0..n { f.push((i, 2, "itf")); i += 2; }
		fn attrs(b: &[u8], f: &mut Vec<(usize, usize, &'static str)>, names: &[Option<Vec<u8>>], mut i: usize, depth: usize) -> Option<usize> {
			let rd16 = |i: usize| -> Option<usize> { Some(u16::from_be_bytes([*b.get(i)?, *b.get(i + 1)?]) as usize) };
			let rd32 = |i: usize| -> Option<usize> { Some(u32::from_be_bytes([*b.get(i)?, *b.get(i + 1)?, *b.get(i + 2)?, *b.get(i + 3)?]) as usize) };
			f.push((i, 2, "attr-count"));
			let n = rd16(i)?;
			i += 2;
			for _ in 0..n {
				f.push((i, 2, "attr-name")); f.push((i + 2, 4, "attr-len"));
				let name = names.get(rd16(i)?).cloned().flatten().unwrap_or_default();
				let len = rd32(i + 2)?;
				let body = i + 6;
				match name.as_slice() {
					b"Code" if depth == 0 => {
						f.push((body, 2, "max-stack")); f.push((body + 2, 2, "max-locals")); f.push((body + 4, 4, "code-len"));
						let cl = rd32(body + 4)?;
						// a few positions inside the bytecode
						for k in 0..cl.min(64) { f.push((body + 8 + k, 1, "bytecode")); }
						let mut j = body + 8 + cl;
						f.push((j, 2, "exc-count"));
						let ne = rd16(j)?;
						j += 2;
						for _ in 0..ne { for k in 0..4 { f.push((j + 2 * k, 2, "exc-field")); } j += 8; }
						attrs(b, f, names, j, depth + 1)?;
					}
					b"LineNumberTable" | b"LocalVariableTable" | b"LocalVariableTypeTable" | b"StackMapTable" | b"Exceptions" | b"InnerClasses" |
					b"BootstrapMethods" | b"NestMembers" | b"PermittedSubclasses" | b"MethodParameters" | b"RuntimeVisibleAnnotations" |
					b"RuntimeInvisibleAnnotations" | b"RuntimeVisibleTypeAnnotations" | b"RuntimeInvisibleTypeAnnotations" | b"AnnotationDefault" |
					b"Record" | b"Module" | b"ModulePackages" | b"Signature" | b"SourceFile" | b"ConstantValue" | b"EnclosingMethod" | b"NestHost" => {
						// every u16 of the body is a count / index / pc of some table
						let mut k = 0;
						while k + 1 < len.min(96) { f.push((body + k, 2, "table-u16")); k += 2; }
						if len > 0 { f.push((body, 1, "table-u8")); }
					}
					_ => {}
				}
				i = body + len;
			}
			Some(i)
		}
		for _ in 0..2 {
			f.push((i, 2, "member-count"));
			let n = rd16(i)?;
			i += 2;
			for _ in 0..n {
				f.push((i + 2, 2, "member-name")); f.push((i + 4, 2, "member-desc"));
				i = attrs(b, &mut f, &names, i + 6, 0)?;
			}
		}
		attrs(b, &mut f, &names, i, 0)?;
		let _ = rd32;
		Some(())
	};
	let mut walk = walk;
	let _ = walk();
	f.retain(|(o, w, _)| o + w <= b.len());
	f
}

fn boundary_values(r: &mut Rng, width: usize, cur: u64) -> u64 {
	let max: u64 = match width { 1 => 0xff, 2 => 0xffff, _ => 0xffff_ffff };
	let c = [0, 1, max - 1, max, cur.wrapping_add(1) & max, cur.wrapping_sub(1) & max, max / 2, max / 2 + 1, 0x100 & max, 2];
	*r.pick(&c)
}

fn set_field(b: &mut [u8], off: usize, width: usize, v: u64) {
	for k in 0..width { b[off + k] = (v >> (8 * (width - 1 - k))) as u8; }
}
fn get_field(b: &[u8], off: usize, width: usize) -> u64 { (0..width).fold(0u64, |a, k| (a << 8) | b[off + k] as u64) }

fn structured_mutant(r: &mut Rng, base: &[u8], out: &mut Out) -> Vec<u8> {
	let fields = locate_fields(base);
	let mut b = base.to_vec();
	if fields.is_empty() { return c01gen::mutate(r, base, out.stats); }
	for _ in 0..r.range(1, 2) {
		let (off, w, kind) = *r.pick(&fields);
		let cur = get_field(&b, off, w);
		let v = boundary_values(r, w, cur);
		set_field(&mut b, off, w, v);
		out.stats.hit(&format!("mutant:field:{kind}"));
	}
	b
}

fn gen_class_stream(r: &mut Rng, tier: Tier, out: &mut Out) {
	let mut bases: Vec<Vec<u8>> = Vec::new();
	for dir in ["/verif/corpus/classes", "/verif/corpus/c20"] {
		let mut names: Vec<_> = std::fs::read_dir(dir).map(|d| d.filter_map(|e| e.ok()).map(|e| e.path()).collect()).unwrap_or_default();
		names.sort();
		for p in names { if p.extension().is_some_and(|e| e == "class") { if let Ok(b) = std::fs::read(&p) { bases.push(b); } } }
	}
	let n_corpus = bases.len();
	for _ in 0..(if tier == Tier::Thorough { 300 } else { 40 }) {
		let cfg = c01gen::Cfg::random(r);
		let g = c01gen::class(r, &cfg, out.stats);
		if let Ok(b) = catch_unwind(AssertUnwindSafe(|| assemble(&g, &Choices::random(r), r))) { bases.push(b); }
	}
	for (i, b) in bases.iter().enumerate() {
		out.stats.hit(if i < n_corpus { "class:corpus" } else { "class:generated" });
		if b.len() <= 40000 {
			hexop(out, "classread", b);
			out.op("oracle-write-no-panic", &[Sexp::bytes(b)]);
		}
	}
	let small: Vec<&Vec<u8>> = bases.iter().filter(|b| b.len() <= 6000).collect();
	let rounds = if tier == Tier::Thorough { 60000 } else { 2500 };
	for i in 0..rounds {
		let base = *r.pick(&small);
		let m = match i % 4 {
			0 | 1 => structured_mutant(r, base, out),
			2 => { out.stats.hit("mutant:truncate"); base[..r.below(base.len())].to_vec() }
			_ => c01gen::mutate(r, base, out.stats),
		};
		match i % 3 {
			0 => hexop(out, "classread", &m),
			1 => oracle(out, "classread", &[Sexp::bytes(&m)]),
			_ => out.op("oracle-write-no-panic", &[Sexp::bytes(&m)]),
		}
	}
	// truncation at every position of two small classes
	let mut tiny: Vec<&Vec<u8>> = bases.iter().collect();
	tiny.sort_by_key(|b| b.len());
	for b in tiny.iter().take(if tier == Tier::Thorough { 6 } else { 2 }) {
		for n in 0..b.len() { out.stats.hit("mutant:truncate-every"); hexop(out, "classread", &b[..n]); }
	}
}

// ---- Code attribute bodies for the wrapper

/// mostly valid bytecode over the wrapper pool: instructions are laid out first (switch padding depends on the
/// position), then every branch slot is patched with an offset to an instruction start (or, sometimes, elsewhere)
fn gen_bytecode(r: &mut Rng, out: &mut Out) -> Vec<u8> {
	let mut c: Vec<u8> = Vec::new();
	let mut starts: Vec<usize> = Vec::new();
	let mut slots: Vec<(usize, usize, usize)> = Vec::new(); // (opcode_pos, slot offset, width)
	let hostile = r.chance(1, 4);
	let bad = |r: &mut Rng| hostile && r.chance(1, 4);
	let n = r.range(1, 10);
	for _ in 0..n {
		let pos = c.len();
		starts.push(pos);
		match r.below(22) {
			0 | 1 => { // any operand-less opcode
				let ranges: [(u8, u8); 8] = [(0, 15), (26, 53), (59, 131), (133, 152), (172, 177), (190, 191), (194, 195), (46, 53)];
				let (lo, hi) = *r.pick(&ranges);
				c.push(r.range(lo as usize, hi as usize) as u8);
			}
			2 => { c.push(*r.pick(&[0x10u8, 0x15, 0x19, 0x36, 0x3a, 0xa9])); c.push(r.below(256) as u8); }
			3 => { c.push(0x12); c.push(if bad(r) { *r.pick(&[0u8, 1, 12, 18, 20, 35, 255]) } else { *r.pick(&[2u8, 4, 15, 16, 21, 22, 23]) }); }
			4 => { c.push(*r.pick(&[0x13u8, 0x14])); c.push(if bad(r) { 1 } else { 0 }); c.push(if bad(r) { *r.pick(&[0u8, 13, 18, 200]) } else { *r.pick(&[2u8, 15, 17, 19, 21, 22, 23]) }); }
			5 => { c.push(*r.pick(&[0x11u8, 0x84])); c.push(r.below(256) as u8); c.push(r.below(256) as u8); }
			6 => { c.push(*r.pick(&[0xb2u8, 0xb3, 0xb4, 0xb5])); c.push(0); c.push(if bad(r) { *r.pick(&[13u8, 11, 0, 2]) } else { 12 }); }
			7 => { let op = *r.pick(&[0xb6u8, 0xb7, 0xb8]); c.push(op); c.push(0); c.push(if bad(r) { *r.pick(&[12u8, 8, 0]) } else if op == 0xb6 { 13 } else { *r.pick(&[13u8, 14]) }); }
			8 => { c.push(0xb9); c.push(0); c.push(if bad(r) { 13 } else { 14 }); c.push(1); c.push(0); }
			9 => { c.push(0xba); c.push(0); c.push(*r.pick(&[14u8, 15, 22])); c.push(0); c.push(0); out.stats.hit("code:invokedynamic"); }
			10 => { c.push(*r.pick(&[0xbbu8, 0xbd, 0xc0, 0xc1])); c.push(0); c.push(if bad(r) { *r.pick(&[1u8, 3, 12, 0]) } else { *r.pick(&[2u8, 4]) }); }
			11 => { c.push(0xbc); c.push(if bad(r) { *r.pick(&[0u8, 3, 12, 255]) } else { r.range(4, 11) as u8 }); }
			12 => { c.push(0xc5); c.push(0); c.push(if bad(r) { 12 } else { 2 }); c.push(r.below(4) as u8); }
			13 => { c.push(0xc4); let w = if bad(r) { *r.pick(&[0x00u8, 0xc4, 0x10, 0x3b]) } else { *r.pick(&[0x15u8, 0x19, 0x36, 0x3a, 0xa9, 0x84]) }; c.push(w); c.push(0); c.push(r.below(5) as u8); if w == 0x84 { c.push(0); c.push(1); } out.stats.hit("code:wide"); }
			14 | 15 => { c.push(*r.pick(&[0x99u8, 0x9a, 0x9f, 0xa6, 0xa7, 0xa8, 0xc6, 0xc7])); slots.push((pos, c.len(), 2)); c.extend([0, 0]); }
			16 => { c.push(*r.pick(&[0xc8u8, 0xc9])); slots.push((pos, c.len(), 4)); c.extend([0, 0, 0, 0]); }
			17 | 18 => {
				out.stats.hit("code:tableswitch");
				c.push(0xaa);
				while c.len() % 4 != 0 { c.push(*r.pick(&[0u8, 0xff])); }
				slots.push((pos, c.len(), 4)); c.extend([0, 0, 0, 0]);
				let (low, high): (i32, i32) = if bad(r) { *r.pick(&[(5, 4), (i32::MIN, i32::MAX), (i32::MIN, -1), (0, i32::MAX), (0, 70000), (-2, i32::MAX - 2), (i32::MIN, i32::MIN + 2)]) }
					else { *r.pick(&[(0, 0), (0, 2), (-1, 1), (i32::MAX, i32::MAX), (i32::MIN, i32::MIN), (10, 13), (i32::MAX - 1, i32::MAX)]) };
				c.extend(low.to_be_bytes()); c.extend(high.to_be_bytes());
				let k = if high >= low && (high as i64 - low as i64) < 8 { (high - low + 1) as usize } else { r.below(3) };
				let k = if bad(r) { k.saturating_sub(1) } else { k };
				for _ in 0..k { slots.push((pos, c.len(), 4)); c.extend([0, 0, 0, 0]); }
			}
			19 => {
				out.stats.hit("code:lookupswitch");
				c.push(0xab);
				while c.len() % 4 != 0 { c.push(0); }
				slots.push((pos, c.len(), 4)); c.extend([0, 0, 0, 0]);
				let np: i32 = if bad(r) { *r.pick(&[-1, i32::MAX, 1 << 20, i32::MIN]) } else { r.below(4) as i32 };
				c.extend(np.to_be_bytes());
				let k = if (0..4).contains(&np) { np as usize } else { r.below(2) };
				for j in 0..k { c.extend((j as i32).to_be_bytes()); slots.push((pos, c.len(), 4)); c.extend([0, 0, 0, 0]); }
			}
			20 => c.push(*r.pick(&[0x1au8, 0x1d, 0x1e, 0x21, 0x2a, 0x2d, 0x3b, 0x3e, 0x43, 0x4b, 0x4e])),  // xload_n / xstore_n
			_ => c.push(if bad(r) { *r.pick(&[0xcau8, 0xfe, 0xff, 0xcb, 0xd0]) } else { 0xb1 }),
		}
	}
	for (pos, off, w) in slots {
		let t: i64 = if bad(r) { *r.pick(&[c.len() as i64, c.len() as i64 + 1, -1, 1, 65536, 32768, i32::MAX as i64, i32::MIN as i64, (pos + 1) as i64]) }
			else { *r.pick(&starts) as i64 };
		let d = t - pos as i64;
		if w == 2 { let v = d as i16; c[off..off + 2].copy_from_slice(&v.to_be_bytes()); } else { let v = d as i32; c[off..off + 4].copy_from_slice(&v.to_be_bytes()); }
	}
	if hostile && r.chance(1, 3) { let n = r.below(c.len() + 1); c.truncate(n.max(1)); out.stats.hit("code:truncated-bytecode"); }
	out.stats.hit(if hostile { "code:hostile" } else { "code:valid-bytecode" });
	c
}

fn gen_vtype(r: &mut Rng, b: &mut Vec<u8>, len: usize) {
	match r.below(6) {
		0 => { b.push(7); u16be(b, *r.pick(&[2, 4, 1, 0])); }
		1 => { b.push(8); u16be(b, *r.pick(&[0, len.saturating_sub(1), len, 65535])); }
		2 => b.push(*r.pick(&[9u8, 255])),
		_ => b.push(r.below(7) as u8),
	}
}

fn gen_code_attr(r: &mut Rng, out: &mut Out, len: usize) -> (usize, Vec<u8>) {
	let pcs = [0usize, 0, 1, len.saturating_sub(1), len, len + 1, 65535, 65534, 32768];
	let mut b = Vec::new();
	let name = match r.below(10) {
		0 | 1 => { // StackMapTable
			out.stats.hit("code-attr:StackMapTable");
			let n = r.range(0, 4);
			u16be(&mut b, if r.chance(1, 8) { n + 1 } else { n });
			for _ in 0..n {
				match r.below(9) {
					0 => b.push(r.below(64) as u8),
					1 => { b.push(64 + r.below(64) as u8); gen_vtype(r, &mut b, len); }
					2 => b.push(*r.pick(&[128u8, 246, 200])),
					3 => { b.push(247); u16be(&mut b, *r.pick(&pcs)); gen_vtype(r, &mut b, len); }
					4 => { b.push(248 + r.below(3) as u8); u16be(&mut b, *r.pick(&pcs)); }
					5 => { b.push(251); u16be(&mut b, *r.pick(&pcs)); }
					6 => { let k = r.range(1, 3); b.push(251 + k as u8); u16be(&mut b, *r.pick(&pcs)); for _ in 0..k { gen_vtype(r, &mut b, len); } }
					_ => { b.push(255); u16be(&mut b, *r.pick(&pcs)); for _ in 0..2 { let k = r.below(3); u16be(&mut b, k); for _ in 0..k { gen_vtype(r, &mut b, len); } } }
				}
			}
			*r.pick(&[24usize, 24, 24, 30])
		}
		2 => { out.stats.hit("code-attr:StackMap");
			let n = r.range(0, 3); u16be(&mut b, n);
			for _ in 0..n { u16be(&mut b, *r.pick(&pcs)); for _ in 0..2 { let k = r.below(3); u16be(&mut b, k); for _ in 0..k { gen_vtype(r, &mut b, len); } } }
			30 }
		3 | 4 => { out.stats.hit("code-attr:LineNumberTable");
			let n = r.range(0, 4); u16be(&mut b, if r.chance(1, 8) { n + 1 } else { n });
			for _ in 0..n { u16be(&mut b, *r.pick(&pcs)); u16be(&mut b, r.below(100)); }
			25 }
		5 | 6 | 7 => { out.stats.hit("code-attr:LocalVariable(Type)Table");
			let n = r.range(0, 3); u16be(&mut b, n);
			for _ in 0..n {
				let start = *r.pick(&pcs);
				u16be(&mut b, start);
				u16be(&mut b, *r.pick(&[0usize, 1, len.saturating_sub(start), len.saturating_sub(start) + 1, 65535, 65536usize.saturating_sub(start), 65535usize.saturating_sub(start), 32768]));
				u16be(&mut b, *r.pick(&[1usize, 5, 9, 3, 6, 29, 2, 0, 99]));
				u16be(&mut b, *r.pick(&[10usize, 29, 6, 2, 0]));
				u16be(&mut b, r.below(4));
			}
			*r.pick(&[26usize, 27]) }
		8 => { out.stats.hit("code-attr:TypeAnnotations");
			let n = r.range(0, 2); u16be(&mut b, n);
			for _ in 0..n {
				match r.below(5) {
					0 => { b.push(*r.pick(&[0x40u8, 0x41])); let k = r.range(0, 2); u16be(&mut b, k);
						for _ in 0..k { let start = *r.pick(&pcs); u16be(&mut b, start); u16be(&mut b, *r.pick(&[0usize, 1, 65535, 65536usize.saturating_sub(start), len.saturating_sub(start)])); u16be(&mut b, 1); } }
					1 => { b.push(0x42); u16be(&mut b, 0); }
					2 => { b.push(*r.pick(&[0x43u8, 0x44, 0x45, 0x46])); u16be(&mut b, *r.pick(&pcs)); }
					3 => { b.push(*r.pick(&[0x47u8, 0x48, 0x49, 0x4a, 0x4b])); u16be(&mut b, *r.pick(&pcs)); b.push(0); }
					_ => b.push(*r.pick(&[0u8, 0x13, 0x4c, 0xff])),
				}
				let k = r.below(3); b.push(k as u8);
				for _ in 0..k { let kind = *r.pick(&[0u8, 1, 2, 3, 4]); b.push(kind); b.push(if kind == 3 { r.below(3) as u8 } else { *r.pick(&[0u8, 0, 0, 1]) }); }
				u16be(&mut b, *r.pick(&[29usize, 1, 2, 0]));
				let np = r.below(2); u16be(&mut b, np);
				for _ in 0..np { u16be(&mut b, 5); gen_elem(r, &mut b, 2); }
			}
			*r.pick(&[31usize, 33]) }
		_ => { out.stats.hit("code-attr:unknown"); for _ in 0..r.below(5) { b.push(r.below(256) as u8); } *r.pick(&[32usize, 1, 7, 2, 0, 99]) }
	};
	(name, b)
}

fn gen_code_body(r: &mut Rng, out: &mut Out) -> Vec<u8> {
	let bc = gen_bytecode(r, out);
	let len = bc.len();
	let mut b = Vec::new();
	u16be(&mut b, r.below(5)); u16be(&mut b, r.below(5));
	let declared = if r.chance(1, 12) { *r.pick(&[0usize, len + 1, len.saturating_sub(1), 65536, 0xffff_ffff, 65535]) } else { len };
	u32be(&mut b, declared);
	b.extend_from_slice(&bc);
	let pcs = [0usize, 0, 1, len.saturating_sub(1), len, len + 1, 65535];
	let ne = if r.chance(1, 3) { r.range(1, 2) } else { 0 };
	u16be(&mut b, ne);
	for _ in 0..ne { for _ in 0..3 { u16be(&mut b, *r.pick(&pcs)); } u16be(&mut b, *r.pick(&[0usize, 2, 4, 1, 99])); }
	let na = r.below(3);
	u16be(&mut b, if r.chance(1, 10) { na + 1 } else { na });
	for _ in 0..na {
		let (name, body) = gen_code_attr(r, out, len);
		u16be(&mut b, name);
		let l = if r.chance(1, 10) { *r.pick(&[0usize, body.len() + 1, 0xffff_ffff, 0x7fff_ffff, 0x1000_0000]) } else { body.len() };
		u32be(&mut b, l);
		b.extend(body);
	}
	if r.chance(1, 10) { let n = r.below(b.len() + 1); b.truncate(n); out.stats.hit("code:truncated-body"); }
	b
}

fn gen_elem(r: &mut Rng, b: &mut Vec<u8>, depth: usize) {
	let pick = if depth == 0 { r.below(11) } else { r.below(14) };
	match pick {
		0 => { b.push(*r.pick(b"BCISZ")); u16be(b, *r.pick(&[15usize, 15, 16, 0, 1])); }
		1 => { b.push(b'D'); u16be(b, *r.pick(&[19usize, 20, 17])); }
		2 => { b.push(b'F'); u16be(b, *r.pick(&[16usize, 15])); }
		3 => { b.push(b'J'); u16be(b, *r.pick(&[17usize, 18, 19])); }
		4 => { b.push(b's'); u16be(b, *r.pick(&[1usize, 29, 2, 0, 35])); }
		5 => { b.push(b'e'); u16be(b, *r.pick(&[29usize, 1, 2])); u16be(b, *r.pick(&[1usize, 9, 4])); }
		6 => { b.push(b'c'); u16be(b, *r.pick(&[6usize, 10, 2])); }
		7 => b.push(*r.pick(&[b'x', 0u8, 0xff, b'E'])),
		8 | 9 | 10 => { b.push(b'I'); u16be(b, 15); }
		11 | 12 => { b.push(b'['); let k = r.below(3); u16be(b, if r.chance(1, 10) { k + 1 } else { k }); for _ in 0..k { gen_elem(r, b, depth - 1); } }
		_ => { b.push(b'@'); u16be(b, *r.pick(&[29usize, 29, 2])); let k = r.below(3); u16be(b, k); for _ in 0..k { u16be(b, *r.pick(&[5usize, 1, 2])); gen_elem(r, b, depth - 1); } }
	}
}

fn gen_wrapped(r: &mut Rng, tier: Tier, out: &mut Out) {
	let rounds = if tier == Tier::Thorough { 40000 } else { 2500 };
	for i in 0..rounds {
		let b = gen_code_body(r, out);
		if i % 3 == 0 { oracle(out, "code", &[Sexp::bytes(&b)]); } else { hexop(out, "code", &b); }
		if i % 8 == 0 { out.op("oracle-alloc", &[Sexp::tag("code"), Sexp::bytes(&b)]); }
		if i % 4 == 1 { out.op("oracle-write-no-panic", &[Sexp::bytes(&wrapper_class(&[], Some((7, &b)), &[]))]); out.stats.hit("write-oracle:wrapped-code"); }
	}
	for i in 0..rounds / 2 {
		let mut b = Vec::new();
		let d = r.range(0, 6);
		gen_elem(r, &mut b, d);
		if r.chance(1, 8) { let n = r.below(b.len() + 1); b.truncate(n); }
		if r.chance(1, 12) { b.push(0); }
		if i % 3 == 0 { oracle(out, "anno", &[Sexp::bytes(&b)]); } else { hexop(out, "anno", &b); }
		if i % 5 == 2 { out.op("oracle-write-no-panic", &[Sexp::bytes(&wrapper_class(&[], Some((28, &b)), &[]))]); out.stats.hit("write-oracle:wrapped-anno"); }
	}
	// linear nesting around the depth limit of 255 (835fdd2) and far beyond what the stack could hold before
	for d in [1usize, 2, 8, 40, 200, 254, 255, 256, 257, 1000, 50000] { out.op("anno-nest", &[Sexp::nat(d)]); }
	// array dimensions far beyond any stack budget of a recursive descent (the parsers count them in a loop and stop at 255)
	for d in [0usize, 1, 254, 255, 256, 257, 5000, 70000, 1000000] {
		for kind in ["desc-field", "desc-method", "desc-return"] { oracle(out, "desc-deep", &[Sexp::tag(kind), Sexp::nat(d)]); out.op("desc-deep", &[Sexp::tag(kind), Sexp::nat(d)]); }
	}
	for d in [253usize, 254, 255, 256] {
		// the same with annotations: `@ LA; 1 pair (name m, value …)`
		let mut b = Vec::new();
		for _ in 0..d { b.extend([b'@', 0, 29, 0, 1, 0, 5]); }
		b.extend([b'I', 0, 15]);
		hexop(out, "anno", &b);
		// an empty array at the last level
		let mut b = Vec::new();
		for _ in 0..d { b.extend([b'[', 0, 1]); }
		b.extend([b'[', 0, 0]);
		hexop(out, "anno", &b);
	}
	// Dynamic constants: self reference, cycles, chains around the depth limit of 16 (cb2ce34)
	for spec in ["(0)", "(1) (0)", "(i 0)", "(1) (2) (0)", "(1 1) (1)"] { out.lines.push(format!("dyn {spec}")); out.stats.hit("op:dyn"); }
	for k in [1usize, 2, 16, 17, 18, 19, 100, 40000] { out.op("dyn-chain", &[Sexp::nat(k)]); }
	// a chain of depth 16 whose last constant has an Integer argument (checked at depth 17)
	{
		let mut spec: Vec<Sexp> = (0..16).map(|i| Sexp::list(vec![Sexp::nat(i + 1)])).collect();
		spec.push(Sexp::list(vec![Sexp::tag("i")]));
		out.op("dyn", &spec);
		let mut spec: Vec<Sexp> = (0..15).map(|i| Sexp::list(vec![Sexp::nat(i + 1)])).collect();
		spec.push(Sexp::list(vec![Sexp::tag("i")]));
		out.op("dyn", &spec);
	}
	// every opcode (and every `wide` sub-opcode) once with 0..=4 operand bytes before a `return`: both decoders of
	// read_code see all 256 arms
	for op in 0..=255u8 {
		for k in 0..=4usize {
			let mut c = vec![op]; c.extend_from_slice(&[0, 2, 0, 0][..k]); c.push(0xb1);
			hexop(out, "code", &code_body(&c));
		}
		for k in [2usize, 4] {
			let mut c = vec![0xc4, op]; c.extend_from_slice(&[0, 1, 0, 1][..k]); c.push(0xb1);
			hexop(out, "code", &code_body(&c));
		}
		out.stats.hit("code:opcode-sweep");
	}
	if tier == Tier::Thorough {
		// maximal code arrays: branch offsets that leave 0..65535 on either side (must be errors, not wrap-arounds)
		for (first, off) in [(0xa7u8, -2i16), (0xa7, -1), (0x99, -32768), (0xa7, 0)] {
			let mut c = vec![first]; c.extend(off.to_be_bytes());
			c.extend(std::iter::repeat(0u8).take(65535 - 4)); c.push(0xb1);
			hexop(out, "code", &code_body(&c));
			let mut c: Vec<u8> = std::iter::repeat(0u8).take(65535 - 3).collect();
			c.push(first); c.extend((if off == 0 { 3i16 } else { off.checked_neg().unwrap_or(i16::MAX) }).to_be_bytes());
			hexop(out, "code", &code_body(&c));
		}
	}
	// bootstrap-argument structures: mostly acyclic, sometimes with a reference back (depth limit 16 since cb2ce34)
	for _ in 0..rounds / 10 {
		let k = r.range(1, 6);
		let spec: Vec<Sexp> = (0..k).map(|i| {
			let n = r.below(4);
			Sexp::list((0..n).map(|_| if r.chance(1, 12) { Sexp::nat(r.below(k + 1)) } // any constant, also itself or one too many
				else if i + 1 < k && r.chance(2, 3) { Sexp::nat(r.range(i + 1, k - 1)) } else { Sexp::tag("i") }).collect())
		}).collect();
		out.stats.hit(&format!("dyn:k={k}"));
		out.op("dyn", &spec);
	}
	// full binary DAG of depth d: expansion 2^(d+1) - 1
	for d in 1..=(if tier == Tier::Thorough { 14 } else { 10 }) {
		let spec: Vec<Sexp> = (0..=d).map(|i| if i < d { Sexp::list(vec![Sexp::nat(i + 1), Sexp::nat(i + 1)]) } else { Sexp::list(vec![]) }).collect();
		out.op("dyn", &spec);
	}
	// the budget on the expansion (MAX_BOOTSTRAP_ARGUMENT_CONSTANTS = 65536): binary DAGs of depth 15 (65535 nodes: resolved) and 16
	// (131071 nodes: an error since the repair), 1 + 255 + 255*255 = 65281 nodes (resolved), 1 + 256 + 256*256 (an error), and three
	// levels listing the next constant 300 times (90301 nodes: an error; sixteen such levels asked the unrepaired reader for 300^16)
	for d in [15usize, 16] {
		let spec: Vec<Sexp> = (0..=d).map(|i| if i < d { Sexp::list(vec![Sexp::nat(i + 1), Sexp::nat(i + 1)]) } else { Sexp::list(vec![]) }).collect();
		out.op("dyn", &spec);
		out.op("oracle-dyn-bounded", &spec);
	}
	for k in [255usize, 256, 300] {
		let spec = vec![Sexp::list(vec![Sexp::nat(1); k]), Sexp::list(vec![Sexp::nat(2); k]), Sexp::list(vec![])];
		out.op("dyn", &spec);
		out.op("oracle-dyn-bounded", &spec);
	}
	{
		// sixteen levels with fan-out 4 (4^16 nodes unrepaired): the budget runs out after 65536 calls
		let spec: Vec<Sexp> = (0..=16usize).map(|i| if i < 16 { Sexp::list(vec![Sexp::nat(i + 1); 4]) } else { Sexp::list(vec![]) }).collect();
		out.op("oracle-dyn-bounded", &spec);
	}
	// descriptors for get_arguments_size through the writer
	let alpha: Vec<u32> = "DJIL;[)(VZa/".chars().map(|c| c as u32).collect();
	for i in 0..rounds / 5 {
		let mut d: Vec<u32> = vec!['(' as u32];
		match r.below(5) {
			0 => { for _ in 0..r.below(8) { d.push(*r.pick(&alpha)); } }
			1 => { let n = *r.pick(&[126usize, 127, 128, 129, 60]); for _ in 0..n { d.push('D' as u32); } d.push(')' as u32); d.push('V' as u32); }
			2 => { let n = *r.pick(&[253usize, 254, 255, 256, 100]); for _ in 0..n { d.push(*r.pick(&['I' as u32, 'Z' as u32])); } d.push(')' as u32); d.push('V' as u32); }
			3 => { let n = r.range(120, 135); for _ in 0..n { if r.chance(1, 3) { d.extend("[[La;".chars().map(|c| c as u32)); } else { d.push('J' as u32); } } if r.chance(1, 2) { d.push(')' as u32); } }
			_ => { for _ in 0..r.below(6) { d.extend("Lx/y;".chars().map(|c| c as u32)); } d.push(')' as u32); d.push(*r.pick(&alpha)); }
		}
		if r.chance(1, 20) { d.remove(0); }
		if i % 3 == 0 { oracle(out, "argsize", &[Sexp::cps(&d)]); } else { out.op("argsize", &[Sexp::cps(&d)]); }
	}
}

// ---- text formats

fn push_str(v: &mut Vec<u8>, s: &str) { v.extend_from_slice(s.as_bytes()); }

fn text_token(r: &mut Rng) -> Vec<u8> {
	let mut v = Vec::new();
	match r.below(14) {
		0 => push_str(&mut v, *r.pick(&["a", "b", "A", "B$C", "pkg/Cls", "x/y/Z", "<init>", "<clinit>", "f", "m"])),
		1 => push_str(&mut v, *r.pick(&["I", "LA;", "[I", "(LA;)V", "()V", "(I", "L;", "[[[", "(II)LB;"])),
		2 => push_str(&mut v, *r.pick(&["0", "1", "2", "007", "+1", "-1", "18446744073709551615", "18446744073709551616", "1a", "٣"])),
		3 => push_str(&mut v, *r.pick(&["é", "ü", "日本", "\u{1f600}", "\u{10ffff}", "\u{85}", "\u{a0}", "\u{2028}", "\u{feff}", "\u{3000}"])),
		4 => push_str(&mut v, *r.pick(&["\\", "\\n", "\\\\n", "#", " # c", "#\t", "a#b"])),
		5 => push_str(&mut v, *r.pick(&["", "", " ", "  ", "\u{b}", "\u{c}", "\r"])),
		6 => push_str(&mut v, *r.pick(&["a.b", "a;b", "a[b", "/a", "a/", "a//b", "[", "."])),
		7 => push_str(&mut v, *r.pick(&["ACC:PUBLIC", "ACC:", "ACC", "acc:x"])),
		8 => push_str(&mut v, *r.pick(&["0x11", "0b101", "0x", "0b", "65535", "65536", "0xffff", "0x10000", "0X1", "0b2"])),
		_ => { for _ in 0..r.range(1, 3) { v.push(*r.pick(b"abcABC$_019")); } }
	}
	v
}

fn join_line(r: &mut Rng, indent: usize, fields: &[Vec<u8>], sep: u8) -> Vec<u8> {
	let odd: &[&str] = &["\u{a0}", "\u{2003}", "\u{feff}", "é", "\u{1f600}", " ", "\u{b}", "\u{3000}\u{3000}", "\u{85}"];
	let mut l = Vec::new();
	if r.chance(1, 25) { l.extend_from_slice(r.pick(odd).as_bytes()); }
	l.extend(std::iter::repeat(b'\t').take(indent));
	if r.chance(1, 25) { l.extend_from_slice(r.pick(odd).as_bytes()); if r.chance(1, 2) { l.push(b'\t'); } }
	for (i, f) in fields.iter().enumerate() { if i > 0 { l.push(if r.chance(1, 30) { b' ' } else { sep }); } l.extend_from_slice(f); }
	l
}

fn finish_text(r: &mut Rng, lines: Vec<Vec<u8>>, out: &mut Out) -> Vec<u8> {
	let mut t = Vec::new();
	let n = lines.len();
	for (i, l) in lines.into_iter().enumerate() {
		t.extend(l);
		if i + 1 < n || !r.chance(1, 4) { t.extend_from_slice(*r.pick(&[&b"\n"[..], b"\n", b"\n", b"\r\n", b"\n\n", b"\r", b"\r\r\n"])); }
	}
	match r.below(30) {
		0 => { let i = r.below(t.len() + 1); t.insert(i, *r.pick(&[0x80u8, 0xff, 0xc0, 0xed, 0xf8])); out.stats.hit("text:invalid-utf8-byte"); }
		1 => { t.extend([0xed, 0xa0, 0x80]); out.stats.hit("text:surrogate-bytes"); }
		2 => { t.extend([0xf0, 0x9f, 0x98]); out.stats.hit("text:truncated-utf8"); }
		3 => { t.extend([0xc0, 0x80]); out.stats.hit("text:overlong"); }
		4 => { let n = r.below(t.len() + 1); t.truncate(n); out.stats.hit("text:truncated"); }
		5 => { t.extend([0xf4, 0x90, 0x80, 0x80]); out.stats.hit("text:beyond-10ffff"); }
		_ => {}
	}
	t
}

/// a structurally valid file (lines as (indent, fields)), then token / indentation / arity mutations
/// inserts one multi-byte character (2, 3 or 4 bytes) at a character boundary among the first few characters of a field:
/// any slicing of the field at a fixed *byte* offset then lands inside a character for some generated field
fn splice_multibyte(r: &mut Rng, field: &mut Vec<u8>) {
	let ch = *r.pick(&["é", "٣", "日", "€", "\u{1f600}", "\u{a0}"]);
	let Ok(s) = std::str::from_utf8(field) else { return };
	let bounds: Vec<usize> = s.char_indices().map(|(i, _)| i).chain(std::iter::once(s.len())).take(5).collect();
	let at = *r.pick(&bounds);
	let mut v = field[..at].to_vec();
	v.extend_from_slice(ch.as_bytes());
	v.extend_from_slice(&field[at..]);
	*field = v;
}

fn mutate_lines(r: &mut Rng, lines: &mut Vec<(usize, Vec<Vec<u8>>)>, out: &mut Out) {
	if !lines.is_empty() && r.chance(1, 8) {
		let i = r.below(lines.len());
		let f = &mut lines[i].1;
		if !f.is_empty() { let k = r.below(f.len()); splice_multibyte(r, &mut f[k]); out.stats.hit("text-mut:multibyte"); }
	}
	let n = match r.below(10) { 0 | 1 | 2 | 3 => 0, 4 | 5 | 6 | 7 => 1, 8 => 2, _ => 4 };
	for _ in 0..n {
		if lines.is_empty() { break; }
		let i = r.below(lines.len());
		match r.below(9) {
			0 => { lines[i].0 += r.range(1, 2); out.stats.hit("text-mut:indent+"); }
			1 => { lines[i].0 = lines[i].0.saturating_sub(1); out.stats.hit("text-mut:indent-"); }
			2 | 3 => { let f = &mut lines[i].1; if !f.is_empty() { let k = r.below(f.len()); f[k] = text_token(r); } out.stats.hit("text-mut:token"); }
			4 => { let f = &mut lines[i].1; if f.len() > 1 { let k = r.range(1, f.len() - 1); f.remove(k); } out.stats.hit("text-mut:drop-field"); }
			5 => { let t = text_token(r); lines[i].1.push(t); out.stats.hit("text-mut:extra-field"); }
			6 => { let l = lines[i].clone(); lines.insert(i, l); out.stats.hit("text-mut:dup-line"); }
			7 => { lines.remove(i); out.stats.hit("text-mut:drop-line"); }
			_ => { let f = &mut lines[i].1; if f.len() > 1 { let k = r.range(1, f.len() - 1); f[k] = Vec::new(); } out.stats.hit("text-mut:empty-field"); }
		}
	}
}

fn ident(r: &mut Rng) -> Vec<u8> {
	if r.chance(1, 12) { return r.pick(&["é", "日本", "\u{1f600}", "a$b", "A$1"]).as_bytes().to_vec(); }
	vec![*r.pick(b"abcdefghABCDEF"), *r.pick(b"abcdefgh0123"), *r.pick(b"xyz012")]
}

fn gen_tiny_text(r: &mut Rng, n: usize, diff: bool, out: &mut Out) -> Vec<u8> {
	let mut lines: Vec<(usize, Vec<Vec<u8>>)> = Vec::new();
	let mut hdr: Vec<Vec<u8>> = vec![b"tiny".to_vec(), b"2".to_vec(), b"0".to_vec()];
	if !diff { for i in 0..n { hdr.push(format!("ns{i}").into_bytes()); } }
	lines.push((0, hdr));
	// the header's own section (32a66ed): property lines one level deeper, directly after the header
	if !diff {
		match r.below(8) {
			0 => lines.push((1, vec![b"c".to_vec(), b"top \\n level".to_vec()])),
			1 => { lines.push((1, vec![b"escaped-names".to_vec()])); lines.push((1, vec![b"c".to_vec(), ident(r)])); }
			2 => { lines.push((1, vec![b"c".to_vec(), ident(r)])); lines.push((1, vec![b"c".to_vec(), ident(r)])); }
			3 => lines.push((2, vec![b"c".to_vec(), ident(r)])),
			_ => {}
		}
	}
	let names = |r: &mut Rng, k: usize| -> Vec<Vec<u8>> { (0..k).map(|_| if r.chance(1, 8) { Vec::new() } else { ident(r) }).collect() };
	let cols = if diff { 2 } else { n - 1 };
	let comment = |r: &mut Rng, ind: usize, lines: &mut Vec<(usize, Vec<Vec<u8>>)>| {
		if r.chance(1, 3) {
			let mut f = vec![b"c".to_vec()];
			if diff { f.push(if r.chance(1, 2) { Vec::new() } else { b"old".to_vec() }); }
			// incl. comments that END in a backslash (single, and after an escaped one) and a backslash in front of a multi-byte character
			f.push(r.pick(&["doc", "two\\nlines", "x\\y", "tab\\t", "", "ü", "end\\", "\\", "esc\\\\", "odd\\\\\\", "b\\ü", "\\n\\"]).as_bytes().to_vec());
			lines.push((ind, f));
		}
	};
	for _ in 0..r.below(3) {
		let mut f = vec![b"c".to_vec(), ident(r)]; f.extend(names(r, cols)); lines.push((0, f));
		comment(r, 1, &mut lines);
		for _ in 0..r.below(3) {
			let is_f = r.chance(1, 2);
			let mut f = vec![if is_f { b"f".to_vec() } else { b"m".to_vec() }];
			f.push(if is_f { r.pick(&["I", "LA;", "[J"]).as_bytes().to_vec() } else { r.pick(&["()V", "(I)V", "(LA;)LB;"]).as_bytes().to_vec() });
			f.push(ident(r)); f.extend(names(r, cols));
			lines.push((1, f));
			comment(r, 2, &mut lines);
			if !is_f {
				for p in 0..r.below(3) {
					let mut f = vec![b"p".to_vec(), r.pick(&["0", "1", "2", "7", "007", "+3", "18446744073709551615"]).as_bytes().to_vec()];
					if p > 0 && r.chance(1, 2) { f[1] = p.to_string().into_bytes(); }
					f.push(if diff { Vec::new() } else { ident(r) }); f.extend(names(r, cols));
					lines.push((2, f));
					comment(r, 3, &mut lines);
				}
			}
		}
	}
	mutate_lines(r, &mut lines, out);
	out.stats.hit(if diff { "tinydiff:text" } else { "tiny:text" });
	let lines: Vec<Vec<u8>> = lines.iter().map(|(ind, f)| join_line(r, *ind, f, b'\t')).collect();
	finish_text(r, lines, out)
}

fn gen_enigma_text(r: &mut Rng, out: &mut Out) -> Vec<u8> {
	let mut lines: Vec<(usize, Vec<Vec<u8>>)> = Vec::new();
	fn class(r: &mut Rng, ind: usize, lines: &mut Vec<(usize, Vec<Vec<u8>>)>) {
		let mut f = vec![b"CLASS".to_vec(), ident(r)];
		if r.chance(2, 3) { f.push(ident(r)); }
		if r.chance(1, 6) { f.push(b"ACC:PUBLIC".to_vec()); }
		lines.push((ind, f));
		if r.chance(1, 3) { lines.push((ind + 1, vec![b"COMMENT".to_vec(), b"some".to_vec(), b"#".to_vec(), b"text".to_vec()])); }
		for _ in 0..r.below(3) {
			let is_f = r.chance(1, 2);
			let mut f = vec![if is_f { b"FIELD".to_vec() } else { b"METHOD".to_vec() }, ident(r)];
			if r.chance(2, 3) { f.push(ident(r)); }
			f.push(if is_f { r.pick(&["I", "LA;"]).as_bytes().to_vec() } else { r.pick(&["()V", "(I)V"]).as_bytes().to_vec() });
			if r.chance(1, 8) { f.push(b"ACC:PRIVATE".to_vec()); }
			lines.push((ind + 1, f));
			if r.chance(1, 4) { lines.push((ind + 2, vec![b"COMMENT".to_vec(), b"d".to_vec()])); }
			if !is_f {
				for _ in 0..r.below(3) {
					lines.push((ind + 2, vec![b"ARG".to_vec(), r.pick(&["0", "1", "2", "+1", "-1", "x", "18446744073709551616"]).as_bytes().to_vec(), ident(r)]));
					if r.chance(1, 4) { lines.push((ind + 3, vec![b"COMMENT".to_vec(), b"p".to_vec()])); }
				}
			}
		}
		if ind < 4 { for _ in 0..r.below(2) { class(r, ind + 1, lines); } }
	}
	for _ in 0..r.below(3) { class(r, 0, &mut lines); }
	if r.chance(1, 6) { lines.push((0, vec![b"# a comment line".to_vec()])); }
	if r.chance(1, 6) { lines.insert(0, (0, vec![Vec::new()])); }
	mutate_lines(r, &mut lines, out);
	out.stats.hit("enigma:text");
	let lines: Vec<Vec<u8>> = lines.iter().map(|(ind, f)| { let sep = *r.pick(&[b' ', b' ', b' ', b'\t', 0x0b]); let mut l = join_line(r, *ind, f, sep);
		if r.chance(1, 12) { l.extend_from_slice(*r.pick(&[&b" # trailing"[..], b"#", b" ", b"\t", "\u{a0}".as_bytes(), "\u{2003}".as_bytes()])); } l }).collect();
	finish_text(r, lines, out)
}

fn gen_nests_text(r: &mut Rng, out: &mut Out) -> Vec<u8> {
	let mut lines = Vec::new();
	for _ in 0..r.range(0, 4) {
		// a valid line (every field passes its check, so that each of the six field parsers is reached) ...
		let meth = r.below(3);
		let mut f: Vec<Vec<u8>> = vec![
			r.pick(&["a/B$C", "A$1", "x", "é/日"]).as_bytes().to_vec(), r.pick(&["a/B", "A", "x/y/Z"]).as_bytes().to_vec(),
			(if meth == 0 { "" } else { *r.pick(&["m", "<init>", "lambda$0"]) }).as_bytes().to_vec(),
			(if meth == 1 { "" } else { *r.pick(&["()V", "(I)V", "(LA;[J)LB;"]) }).as_bytes().to_vec(),
			r.pick(&["C", "1", "1Local", "٣", "Inner"]).as_bytes().to_vec(), r.pick(&["0", "8", "0x0008", "0b1000", "65535", "0xffff", "0b1111111111111111", "010"]).as_bytes().to_vec(),
		];
		// ... with at most one defect, in one field
		match r.below(12) {
			0 => { f.pop(); }
			1 => f.push(text_token(r)),
			2 | 3 => { let i = r.below(f.len()); f[i] = text_token(r); }
			4 => { let i = r.below(f.len()); f[i] = r.pick(&["", "[I", "a.b", "x", "a/b", "65536", "-1", "0x", "0b", "+5", "0X8", "0B1", "0x10000", "0b2", "0xg"]).as_bytes().to_vec(); }
			5 | 6 | 7 => { let i = r.below(f.len()); splice_multibyte(r, &mut f[i]); out.stats.hit("nests:multibyte"); }
			_ => { out.stats.hit("nests:valid-line"); }
		}
		lines.push(join_line(r, 0, &f, b'\t'));
	}
	out.stats.hit("nests:text");
	finish_text(r, lines, out)
}

fn gen_text(r: &mut Rng, tier: Tier, out: &mut Out) {
	let rounds = if tier == Tier::Thorough { 40000 } else { 1500 };
	for i in 0..rounds {
		let n = r.range(2, 4);
		let t = gen_tiny_text(r, n, false, out);
		if i % 3 == 0 { oracle(out, "tiny", &[Sexp::nat(n), Sexp::bytes(&t)]); } else { out.op("tiny", &[Sexp::nat(n), Sexp::bytes(&t)]); }
		let t = gen_tiny_text(r, 2, true, out);
		if i % 3 == 0 { oracle(out, "tinydiff", &[Sexp::bytes(&t)]); } else { hexop(out, "tinydiff", &t); }
		let t = gen_enigma_text(r, out);
		if i % 3 == 0 { oracle(out, "enigma", &[Sexp::bytes(&t)]); } else { hexop(out, "enigma", &t); }
		if i % 2 == 0 {
			let t = gen_nests_text(r, out);
			if i % 6 == 0 { oracle(out, "nests", &[Sexp::bytes(&t)]); } else { hexop(out, "nests", &t); }
		}
	}
	// nested Enigma classes, depth far below any stack budget
	for d in [1usize, 5, 30, 120] {
		let mut t = Vec::new();
		for k in 0..d { t.extend(std::iter::repeat(b'\t').take(k)); push_str(&mut t, "CLASS A B\n"); }
		hexop(out, "enigma", &t);
	}
	// descriptors: exhaustive short strings over the grammar alphabet, then random longer ones
	let alpha: Vec<u32> = "[LIV;()a/".chars().map(|c| c as u32).collect();
	for p in "BCDFIJSZV".chars() {
		for pre in ["", "[", "[[", "(", "()", "(I)"] {
			let s: Vec<u32> = pre.chars().chain(std::iter::once(p)).map(|c| c as u32).collect();
			for op in ["desc-field", "desc-method", "desc-return"] { out.op(op, &[Sexp::cps(&s)]); }
		}
	}
	let max_len = if tier == Tier::Thorough { 5 } else { 3 };
	for len in 0..=max_len {
		for code in 0..alpha.len().pow(len as u32) {
			let mut c = code; let mut s = Vec::new();
			for _ in 0..len { s.push(alpha[c % alpha.len()]); c /= alpha.len(); }
			for op in ["desc-field", "desc-method", "desc-return"] { out.op(op, &[Sexp::cps(&s)]); }
		}
	}
	for i in 0..rounds {
		let mut s: Vec<u32> = Vec::new();
		if r.chance(1, 2) { s.push('(' as u32); }
		for _ in 0..r.below(4) {
			match r.below(6) {
				0 => { let n = *r.pick(&[1usize, 2, 254, 255, 256, 257]); for _ in 0..n { s.push('[' as u32); } s.push(*r.pick(&['I' as u32, 'J' as u32, 'L' as u32])); }
				1 => s.extend("La/b;".chars().map(|c| c as u32)),
				2 => s.extend(*r.pick(&[&[0x1f600u32, 0xd800][..], &[0x4c, 0x3b], &[0x4c, 0x5b, 0x3b], &[0x4c, 0x61, 0x2f, 0x2f, 0x62, 0x3b], &[0x4c, 0xdc00, 0x3b]])),
				_ => s.push(*r.pick(&alpha)),
			}
		}
		if r.chance(1, 3) { s.push(')' as u32); s.push(*r.pick(&alpha)); }
		let op = *r.pick(&["desc-field", "desc-method", "desc-return"]);
		if i % 3 == 0 { oracle(out, op, &[Sexp::cps(&s)]); } else { out.op(op, &[Sexp::cps(&s)]); }
	}
}

/// regression lines of the two reader panics repaired by 52b8362 and small witnesses of the open catchable sites
fn fixed_and_witness_lines(out: &mut Out) {
	// truncated `sipush` as last instruction (was: slice start > len)
	hexop(out, "code", &code_body(&[0x11, 0x00]));
	// tableswitch low = i32::MIN, high = i32::MAX (was: subtract overflow)
	let mut ts = vec![0xaa, 0, 0, 0];
	ts.extend(0i32.to_be_bytes()); ts.extend(i32::MIN.to_be_bytes()); ts.extend(i32::MAX.to_be_bytes());
	hexop(out, "code", &code_body(&ts));
	// the former open sites 1-8 (now errors) and the open site 9, one deterministic line each
	hexop(out, "code", &[0, 1, 0, 1, 0, 0, 0, 2, 0, 177, 0, 0, 0, 1, 0, 26, 0, 0, 0, 12, 0, 1, 0, 1, 255, 255, 0, 1, 0, 10, 0, 0]); // S1
	out.op("labels-full", &[Sexp::nat(65534)]);                                                                                    // S2
	out.op("labels-full", &[Sexp::nat(65533)]);
	hexop(out, "code", &[0, 1, 0, 1, 0, 0, 0, 1, 177, 0, 0, 0, 1, 0, 24, 0, 0, 0, 6, 0, 2, 0, 251, 255, 255]);                    // S3
	out.op("oracle-alloc", &[Sexp::tag("code"), Sexp::bytes(&[0, 1, 0, 1, 0, 0, 0, 1, 177, 0, 0, 0, 1, 0, 32, 255, 255, 255, 255])]); // S6
	let mut d: Vec<u32> = vec![40]; d.extend(std::iter::repeat(68u32).take(128)); d.extend([41, 86]);
	out.op("argsize", &[Sexp::cps(&d)]);                                                                                           // S7
	let mut d: Vec<u32> = vec![40]; d.extend(std::iter::repeat(73u32).take(255)); d.extend([41, 86]);
	out.op("argsize", &[Sexp::cps(&d)]);                                                                                           // S8
	out.op("writer-grow", &[Sexp::nat(65530), Sexp::nat(130)]);                                                                    // S9
	out.op("writer-grow", &[Sexp::nat(65530), Sexp::nat(100)]);
	out.op("writer-grow", &[Sexp::nat(65525), Sexp::nat(130)]);
}

/// The two passes of `read_code` must agree on where every instruction ends: the second pass's `Vec::with_capacity(npairs)`
/// of a switch is only safe because the first pass walked the same switch and failed on its missing entries.  Every opcode
/// (and every `wide` form) with operand bytes that would themselves decode as instructions, followed by a switch that
/// announces 2^24 entries it does not have: the largest allocation must stay small (`alloc_bound_code`,
/// `passes_visit_same_instructions`), whatever the outcome.
fn gen_pass_desync(out: &mut Out) {
	let fillers: [&[u8]; 4] = [&[0x00, 0x11, 0x00, 0x00, 0x00], &[0xab, 0x00, 0x01, 0x00, 0x11], &[0x00, 0x00, 0xaa, 0x10, 0x00], &[0xc4, 0x84, 0x00, 0x00, 0x11]];
	let mut emit = |prefix: Vec<u8>, what: &str, out: &mut Out| {
		for switch in [0xabu8, 0xaa] {
			let mut code = prefix.clone();
			code.push(switch);
			while code.len() % 4 != 0 { code.push(0); }
			code.extend(0i32.to_be_bytes());
			if switch == 0xab { code.extend(0x0100_0000i32.to_be_bytes()); } else { code.extend(0i32.to_be_bytes()); code.extend(0x00ff_ffffi32.to_be_bytes()); }
			out.op("oracle-alloc", &[Sexp::tag("code"), Sexp::bytes(&code_body(&code))]);
			out.stats.hit(what);
		}
	};
	for opcode in 0u16..=255 {
		for f in fillers {
			// the operand bytes of the longest form are taken from the filler; shorter forms simply leave some of them as
			// following instructions
			let mut p = vec![opcode as u8];
			p.extend_from_slice(f);
			emit(p, "desync:opcode", out);
		}
	}
	// every operand byte pattern over {nop, bipush (eats 1), sipush (eats 2)} behind the instructions that have operands: if one
	// pass takes fewer operand bytes than the other, some pattern makes it swallow the switch opcode
	let mut patterns: Vec<[u8; 5]> = Vec::new();
	for a in [0x00u8, 0x10, 0x11] { for b in [0x00u8, 0x10, 0x11] { for c in [0x00u8, 0x10, 0x11] { for d in [0x00u8, 0x10, 0x11] { patterns.push([a, b, c, d, 0x00]); } } } }
	let with_operands: Vec<u8> = (0u16..=255).map(|x| x as u8).filter(|&op| matches!(op, 0x10..=0x19 | 0x36..=0x3a | 0x84 | 0x99..=0xa9 | 0xb2..=0xbd | 0xc0 | 0xc1 | 0xc5..=0xc9)).collect();
	for &op in &with_operands {
		for f in &patterns {
			let mut p = vec![op];
			p.extend_from_slice(f);
			emit(p, "desync:operand-patterns", out);
		}
	}
	for wide_op in [0x15u8, 0x16, 0x17, 0x18, 0x19, 0x36, 0x37, 0x38, 0x39, 0x3a, 0x84, 0xa9, 0x00, 0xc4] {
		for f in &patterns {
			let mut p = vec![0xc4, wide_op];
			p.extend_from_slice(f);
			emit(p, "desync:wide", out);
		}
	}
}

/// Methods that make `write_code` abandon an attempt (a forward `goto_w` / `jsr_w` or conditional jump across more than 32 KiB is
/// first reserved narrow) AND carry a StackMapTable with several frames: the frames collected by the abandoned attempt must be
/// discarded with it (`frames.clear()`), otherwise `offset - previous - 1` underflows in the StackMapTable writer.
fn gen_writer_retry_with_frames(out: &mut Out) {
	for (gap, wide_opcode) in [(32768usize, 0xc8u8), (40000, 0xc8), (33000, 0xc9), (32766, 0xc8)] {
		for nframes in [1usize, 2, 3] {
			// goto_w/jsr_w L; nop * gap; L: nop; nop; nop; return
			let mut code = vec![wide_opcode];
			code.extend(((5 + gap) as i32).to_be_bytes());
			code.extend(std::iter::repeat(0u8).take(gap));
			let target = code.len();
			code.extend([0, 0, 0, 0xb1]);
			let mut body = vec![0, 4, 0, 4];
			u32be(&mut body, code.len());
			body.extend_from_slice(&code);
			body.extend([0, 0]);                 // no exception table
			body.extend([0, 1]);                 // one attribute: StackMapTable (pool index 24 of the wrapper pool)
			let mut smt = Vec::new();
			u16be(&mut smt, nframes);
			smt.push(251); u16be(&mut smt, target); // same_frame_extended at the jump target
			for _ in 1..nframes { smt.push(0); }    // same_frame, offset_delta 0: the next instruction each
			u16be(&mut body, 24); u32be(&mut body, smt.len()); body.extend_from_slice(&smt);
			out.op("oracle-write-no-panic", &[Sexp::bytes(&wrapper_class(&[], Some((7, &body)), &[]))]);
			out.stats.hit("write-oracle:retry-with-frames");
		}
	}
}

fn gen(r: &mut Rng, tier: Tier, out: &mut Out) {
	fixed_and_witness_lines(out);
	gen_pass_desync(out);
	gen_writer_retry_with_frames(out);
	gen_wrapped(&mut r.fork(), tier, out);
	gen_text(&mut r.fork(), tier, out);
	gen_class_stream(&mut r.fork(), tier, out);
}

fn main() {
	if std::env::args().nth(1).as_deref() == Some("child") { child_main(); return; }
	main_for(&gen, &exec_parent)
}
